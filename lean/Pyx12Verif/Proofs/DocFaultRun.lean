/-
Helper lemmas for `Props/DocFault.lean` (C03 at pipeline level), segment-loop side.

`BRound` = what ONE round of `for seg in src:` is assumed to do on a body segment: reader state afterwards, the walker's
answer (node or none, reports), the result and the handler calls of `node.is_valid`.  `Rounds` says that the component
models really answer that way, round after round (generalisation of the hypotheses `RunOK` + `EnvQuiet` + `BodyOk` of
`doc_accepts_of_runOK`: walker reports, unmatched segments and invalid segments are allowed).  `run_rounds`: under
`Rounds` the loop of `Model/Document.lean` produces exactly the outputs `outsOf` and ends — provided the error handler
does not raise on the calls — in the state told by `endCur / endCnt / endRs`, with `valid` the conjunction of the results.
`validateRead_rounds` puts the ISA and GS rounds in front and the end of `x12n_document` behind.
-/
import Pyx12Verif.Proofs.DocFaultTree
import Pyx12Verif.Props.DocAccept

namespace Pyx12Verif.Doc
open Pyx12Verif

/-- the loop state inside the body with an arbitrary `valid` -/
def bodyStateV (base : LState) (m : MapX) (cur : List Nat) (cnt : Walker.Counter) (rs : Envelope.RState) (v : Bool) :
    LState :=
  { bodyState base m cur cnt rs with valid := v }

theorem branch_bodyV (ms : Maps) (d : Delims) (s : Seg) (base : LState) (m : MapX) (cur : List Nat) (cnt : Walker.Counter)
    (rs : Envelope.RState) (v : Bool) (n : NodeRef) (h1 : s.id ≠ Envelope.idISA) (h2 : s.id ≠ Envelope.idGS)
    (hv : base.vriic ≠ some v278a ∧ base.vriic ≠ some v278b) :
    branch ms d s (bodyStateV base m cur cnt rs v) n = .go (bodyStateV base m cur cnt rs v) n [headEvent d s rs] := by
  unfold branch headEvent
  simp only [h1, h2, if_false]
  split
  · rfl
  · split
    · unfold bhtBranch
      have : ¬ ((bodyStateV base m cur cnt rs v).vriic = some v278a ∨ (bodyStateV base m cur cnt rs v).vriic = some v278b) := by
        intro h; rcases h with h | h
        · exact hv.1 h
        · exact hv.2 h
      simp only [this, if_false]
      rfl
    · split
      · rfl
      · split
        · rfl
        · split
          · rfl
          · rfl

/-- the walker's answer for a body segment -/
def walkOf (ms : Maps) (m : MapX) (d : Delims) (cnt : Walker.Counter) (cur : List Nat) (s : Seg) : Walker.WalkResult :=
  Walker.walk ms.consts m.root m.rootId cnt cur (segData ms m d s)

def werrEvs (m : MapX) (s : Seg) (rs : Envelope.RState) (errs : List Walker.WErr) : List Event :=
  (errs.map (werrEvents m s.id rs.segCount)).flatten

/-- a matched body segment: whatever the walker reports, whatever `node.is_valid` answers -/
theorem step_hit (ms : Maps) (ctx : Ctx) (control : MapX) (d : Delims) (base : LState) (m : MapX) (cur ip : List Nat)
    (cnt : Walker.Counter) (rs rs1 : Envelope.RState) (v vv : Bool) (s : Seg) (vw : Envelope.SegView) (sd : SegDef)
    (evs2 : List Event)
    (h1 : s.id ≠ Envelope.idISA) (h2 : s.id ≠ Envelope.idGS)
    (hv : base.vriic ≠ some v278a ∧ base.vriic ≠ some v278b)
    (hview : Pipeline.viewOf d s = some vw) (hbase : baseErrs s = [])
    (hstep : Envelope.step Envelope.Fixes.all rs vw = .ok (rs1, []))
    (hnode : (walkOf ms m d cnt cur s).node = some ip)
    (hdef : lookupDef m ip = some sd) (hev : segEvents ctx m.v5010 d sd s = .ok vv evs2) :
    stepSeg ms ctx control d [] s (bodyStateV base m cur cnt rs v) =
      .next (bodyStateV base m ip (walkOf ms m d cnt cur s).st.cnt rs1 (v && vv))
        { sid := s.id, matched := true, node := some (m.file, ip), popped := [],
          events := werrEvs m s rs1 (walkOf ms m d cnt cur s).st.errs ++ headEvent d s rs1 :: evs2 } := by
  unfold walkOf at hnode
  simp only [stepSeg, hview, withView, hbase, bodyStateV, bodyState, List.map_nil, List.append_nil, hstep, afterReader,
    afterStep, findNode, h1, h2, if_false, walkFound, foundOf, hnode, afterFind]
  have hb := branch_bodyV ms d s base m cur
    (Walker.walk ms.consts m.root m.rootId cnt cur (segData ms m d s)).st.cnt rs1 v ⟨m, ip⟩ h1 h2 hv
  simp only [bodyStateV, bodyState] at hb
  rw [hb]
  simp only [validate, hdef, hev, NodeRef.key, List.append_assoc, List.singleton_append, walkOf, werrEvs]

/-- a body segment for which the walker finds no node: `node` stays, `valid` is not touched, nothing is validated -/
theorem step_miss (ms : Maps) (ctx : Ctx) (control : MapX) (d : Delims) (base : LState) (m : MapX) (cur : List Nat)
    (cnt : Walker.Counter) (rs rs1 : Envelope.RState) (v : Bool) (s : Seg) (vw : Envelope.SegView)
    (h1 : s.id ≠ Envelope.idISA) (h2 : s.id ≠ Envelope.idGS)
    (hview : Pipeline.viewOf d s = some vw) (hbase : baseErrs s = [])
    (hstep : Envelope.step Envelope.Fixes.all rs vw = .ok (rs1, []))
    (hnode : (walkOf ms m d cnt cur s).node = none) :
    stepSeg ms ctx control d [] s (bodyStateV base m cur cnt rs v) =
      .next (bodyStateV base m cur (walkOf ms m d cnt cur s).st.cnt rs1 v)
        { sid := s.id, matched := false, node := some (m.file, cur), popped := [],
          events := werrEvs m s rs1 (walkOf ms m d cnt cur s).st.errs } := by
  unfold walkOf at hnode
  simp only [stepSeg, hview, withView, hbase, bodyStateV, bodyState, List.map_nil, List.append_nil, hstep, afterReader,
    afterStep, findNode, h1, h2, if_false, walkFound, foundOf, hnode, afterFind, nodeKey, NodeRef.key, walkOf, werrEvs]

/-! ### rounds -/

structure BRound where
  seg : Seg
  /-- reader state after `_parse_segment` -/
  rs : Envelope.RState
  /-- the walker's answer: index path of the node, or none -/
  node : Option (List Nat)
  /-- the walker's reports -/
  werrs : List Walker.WErr
  /-- result of `node.is_valid` (`true` when no node was found: `valid` is not touched) -/
  valid : Bool
  /-- the handler calls of `node.is_valid` -/
  evs : List Event

/-- the component models answer the round `r` as it says: the reader reports nothing, the walker returns `r.node` and reports
    `r.werrs`, `node.is_valid` on the definition of the node returns `r.valid` with the calls `r.evs` -/
def RoundOk (ms : Maps) (ctx : Ctx) (m : MapX) (d : Delims) (cnt : Walker.Counter) (cur : List Nat)
    (rs0 : Envelope.RState) (r : BRound) : Prop :=
  r.seg.id ≠ Envelope.idISA ∧ r.seg.id ≠ Envelope.idGS ∧ baseErrs r.seg = [] ∧
  (∃ vw, Pipeline.viewOf d r.seg = some vw ∧ Envelope.step Envelope.Fixes.all rs0 vw = .ok (r.rs, [])) ∧
  (walkOf ms m d cnt cur r.seg).node = r.node ∧ (walkOf ms m d cnt cur r.seg).st.errs = r.werrs ∧
  (match r.node with
   | some ip => ∃ sd, lookupDef m ip = some sd ∧ segEvents ctx m.v5010 d sd r.seg = .ok r.valid r.evs
   | none => r.valid = true ∧ r.evs = [])

def Rounds (ms : Maps) (ctx : Ctx) (m : MapX) (d : Delims) :
    Walker.Counter → List Nat → Envelope.RState → List BRound → Prop
  | _, _, _, [] => True
  | cnt, cur, rs0, r :: rest =>
    RoundOk ms ctx m d cnt cur rs0 r ∧ Rounds ms ctx m d (walkOf ms m d cnt cur r.seg).st.cnt (r.node.getD cur) r.rs rest

def endCnt (ms : Maps) (m : MapX) (d : Delims) : Walker.Counter → List Nat → List BRound → Walker.Counter
  | cnt, _, [] => cnt
  | cnt, cur, r :: rest => endCnt ms m d (walkOf ms m d cnt cur r.seg).st.cnt (r.node.getD cur) rest

def endCur : List Nat → List BRound → List Nat
  | cur, [] => cur
  | cur, r :: rest => endCur (r.node.getD cur) rest

def endRs : Envelope.RState → List BRound → Envelope.RState
  | rs, [] => rs
  | _, r :: rest => endRs r.rs rest

def allValid (rounds : List BRound) : Bool := rounds.all (·.valid)

/-- everything handed to the error handler in the round -/
def BRound.events (m : MapX) (d : Delims) (r : BRound) : List Event :=
  match r.node with
  | some _ => werrEvs m r.seg r.rs r.werrs ++ headEvent d r.seg r.rs :: r.evs
  | none => werrEvs m r.seg r.rs r.werrs

/-- what the model reports for the round (`prev` = the node before) -/
def BRound.out (m : MapX) (d : Delims) (prev : List Nat) (r : BRound) : SegOut :=
  { sid := r.seg.id, matched := r.node.isSome, node := some (m.file, r.node.getD prev), popped := [],
    events := r.events m d }

def outsOf (m : MapX) (d : Delims) : List Nat → List BRound → List SegOut
  | _, [] => []
  | cur, r :: rest => r.out m d cur :: outsOf m d (r.node.getD cur) rest

def eventsOf (m : MapX) (d : Delims) (rounds : List BRound) : List Event := (rounds.map (BRound.events m d)).flatten

theorem rounds_append (ms : Maps) (ctx : Ctx) (m : MapX) (d : Delims) : ∀ (r1 r2 : List BRound) (cnt : Walker.Counter)
    (cur : List Nat) (rs : Envelope.RState),
    Rounds ms ctx m d cnt cur rs (r1 ++ r2) ↔
      Rounds ms ctx m d cnt cur rs r1 ∧ Rounds ms ctx m d (endCnt ms m d cnt cur r1) (endCur cur r1) (endRs rs r1) r2
  | [], r2, cnt, cur, rs => by simp [Rounds, endCnt, endCur, endRs]
  | r :: r1, r2, cnt, cur, rs => by
    simp only [List.cons_append, Rounds, endCnt, endCur, endRs, rounds_append ms ctx m d r1 r2, and_assoc]

theorem endCnt_append (ms : Maps) (m : MapX) (d : Delims) : ∀ (r1 r2 : List BRound) (cnt : Walker.Counter) (cur : List Nat),
    endCnt ms m d cnt cur (r1 ++ r2) = endCnt ms m d (endCnt ms m d cnt cur r1) (endCur cur r1) r2
  | [], _, _, _ => rfl
  | r :: r1, r2, cnt, cur => by simp only [List.cons_append, endCnt, endCur, endCnt_append ms m d r1 r2]

theorem endCur_append : ∀ (r1 r2 : List BRound) (cur : List Nat), endCur cur (r1 ++ r2) = endCur (endCur cur r1) r2
  | [], _, _ => rfl
  | r :: r1, r2, cur => by simp only [List.cons_append, endCur, endCur_append r1 r2]

theorem endRs_append : ∀ (r1 r2 : List BRound) (rs : Envelope.RState), endRs rs (r1 ++ r2) = endRs (endRs rs r1) r2
  | [], _, _ => rfl
  | r :: r1, r2, rs => by simp only [List.cons_append, endRs, endRs_append r1 r2]

theorem outsOf_append (m : MapX) (d : Delims) : ∀ (r1 r2 : List BRound) (cur : List Nat),
    outsOf m d cur (r1 ++ r2) = outsOf m d cur r1 ++ outsOf m d (endCur cur r1) r2
  | [], _, _ => rfl
  | r :: r1, r2, cur => by simp only [List.cons_append, outsOf, endCur, outsOf_append m d r1 r2]

theorem outsOf_length (m : MapX) (d : Delims) : ∀ (rounds : List BRound) (cur : List Nat),
    (outsOf m d cur rounds).length = rounds.length
  | [], _ => rfl
  | r :: rest, cur => by simp only [outsOf, List.length_cons, outsOf_length m d rest]

theorem outsOf_events (m : MapX) (d : Delims) : ∀ (rounds : List BRound) (cur : List Nat),
    (outsOf m d cur rounds).map (·.events) = rounds.map (BRound.events m d)
  | [], _ => rfl
  | r :: rest, cur => by simp only [outsOf, List.map_cons, outsOf_events m d rest, BRound.out]

theorem eventsOf_append (m : MapX) (d : Delims) (r1 r2 : List BRound) :
    eventsOf m d (r1 ++ r2) = eventsOf m d r1 ++ eventsOf m d r2 := by
  simp [eventsOf]

theorem eventsOf_cons (m : MapX) (d : Delims) (r : BRound) (rest : List BRound) :
    eventsOf m d (r :: rest) = r.events m d ++ eventsOf m d rest := by
  simp [eventsOf]

theorem allValid_append (r1 r2 : List BRound) : allValid (r1 ++ r2) = (allValid r1 && allValid r2) := by
  simp [allValid]

theorem run_ok_split {s s' : ErrTree.State} {a b : List Event} (h : ErrTree.run s (a ++ b) = .ok s') :
    ∃ s1, ErrTree.run s a = .ok s1 ∧ ErrTree.run s1 b = .ok s' := by
  rw [run_append] at h
  cases h1 : ErrTree.run s a with
  | crash c => rw [h1] at h; cases h
  | ok s1 => rw [h1] at h; exact ⟨s1, rfl, h⟩

/-- one round of the loop -/
theorem step_round (ms : Maps) (ctx : Ctx) (control : MapX) (d : Delims) (base : LState) (m : MapX)
    (hv : base.vriic ≠ some v278a ∧ base.vriic ≠ some v278b) (cur : List Nat) (cnt : Walker.Counter)
    (rs : Envelope.RState) (v : Bool) (r : BRound) (h : RoundOk ms ctx m d cnt cur rs r) :
    stepSeg ms ctx control d [] r.seg (bodyStateV base m cur cnt rs v) =
      .next (bodyStateV base m (r.node.getD cur) (walkOf ms m d cnt cur r.seg).st.cnt r.rs (v && r.valid)) (r.out m d cur) := by
  obtain ⟨h1, h2, hb, ⟨vw, hview, hstep⟩, hnode, herrs, hval⟩ := h
  cases hn : r.node with
  | none =>
    rw [hn] at hval hnode
    have := step_miss ms ctx control d base m cur cnt rs r.rs v r.seg vw h1 h2 hview hb hstep hnode
    rw [this, herrs]
    simp only [BRound.out, BRound.events, hn, Option.getD_none, hval.1, Bool.and_true, Option.isSome_none]
  | some ip =>
    rw [hn] at hval hnode
    obtain ⟨sd, hdef, hev⟩ := hval
    have := step_hit ms ctx control d base m cur ip cnt rs r.rs v r.valid r.seg vw sd r.evs h1 h2 hv hview hb hstep
      hnode hdef hev
    rw [this, herrs]
    simp only [BRound.out, BRound.events, hn, Option.getD_some, Option.isSome_some]

/-- **the body loop under `Rounds`** -/
theorem run_rounds (ms : Maps) (ctx : Ctx) (control : MapX) (d : Delims) (base : LState) (m : MapX)
    (hv : base.vriic ≠ some v278a ∧ base.vriic ≠ some v278b) :
    ∀ (rounds : List BRound) (cur : List Nat) (cnt : Walker.Counter) (rs : Envelope.RState) (v : Bool) (a : Acc)
      (est' : ErrTree.State),
      a.st = bodyStateV base m cur cnt rs v →
      Rounds ms ctx m d cnt cur rs rounds →
      ErrTree.run a.est (eventsOf m d rounds) = .ok est' →
      runSegs ms ctx control d a (rounds.map (fun r => ([], r.seg))) = .done
        { st := bodyStateV base m (endCur cur rounds) (endCnt ms m d cnt cur rounds) (endRs rs rounds) (v && allValid rounds),
          est := est', outs := a.outs ++ outsOf m d cur rounds, events := a.events ++ eventsOf m d rounds } := by
  intro rounds
  induction rounds with
  | nil =>
    intro cur cnt rs v a est' hst _ hrun
    simp only [eventsOf, List.map_nil, List.flatten_nil, ErrTree.run, ErrTree.Res.ok.injEq] at hrun
    subst hrun
    simp only [List.map_nil, runSegs, endCur, endCnt, endRs, allValid, List.all_nil, Bool.and_true, outsOf, eventsOf,
      List.flatten_nil, List.append_nil, ← hst]
  | cons r rest ih =>
    intro cur cnt rs v a est' hst hr hrun
    obtain ⟨hr1, hr2⟩ := hr
    rw [eventsOf_cons] at hrun
    obtain ⟨s1, hs1, hs2⟩ := run_ok_split hrun
    have hstep := step_round ms ctx control d base m hv cur cnt rs v r hr1
    have hout : (r.out m d cur).events = r.events m d := rfl
    simp only [List.map_cons, runSegs, hst, hstep, hout, hs1]
    have := ih (r.node.getD cur) (walkOf ms m d cnt cur r.seg).st.cnt r.rs (v && r.valid)
      (pushOut a (bodyStateV base m (r.node.getD cur) (walkOf ms m d cnt cur r.seg).st.cnt r.rs (v && r.valid)) s1
        (r.out m d cur)) est' rfl hr2 hs2
    rw [this]
    simp only [pushOut, endCur, endCnt, endRs, allValid, List.all_cons, outsOf, eventsOf_cons, List.append_assoc,
      List.singleton_append, Bool.and_assoc, hout]

/-! ### ISA, GS in front; the end of `x12n_document` behind -/

/-- what the reader yields for ISA, GS and the segments of the rounds, the line wrapper having nothing to report -/
def readRounds (isa gs : Seg) (rounds : List BRound) : SegText.ReadResult :=
  { segs := ([], isa) :: ([], gs) :: rounds.map (fun r => ([], r.seg)), crashed := false, pending := [] }

theorem readOf_eq_readRounds (isa gs : Seg) (body : List (Seg × List Nat)) (rounds : List BRound)
    (h : rounds.map (·.seg) = body.map (·.1)) : readOf isa gs body = readRounds isa gs rounds := by
  unfold readOf readRounds
  have : body.map (fun b => (([] : List SegText.RErr), b.1)) = rounds.map (fun r => (([] : List SegText.RErr), r.seg)) := by
    have e1 : body.map (fun b => (([] : List SegText.RErr), b.1)) = (body.map (·.1)).map (fun s => ([], s)) := by simp
    have e2 : rounds.map (fun r => (([] : List SegText.RErr), r.seg)) = (rounds.map (·.seg)).map (fun s => ([], s)) := by
      simp
    rw [e1, e2, h]
  rw [this]

/-- **the whole run under `Rounds`**: ISA and GS conform (as in `doc_accepts_of_runOK`), the body is answered as `rounds`
    says, nothing is left open at the end.  Then there is a handler state `e2` inside the group, before any set, such
    that — whenever the handler does not raise on the calls of the rounds — the result is exactly: the verdict
    `valid ∧ count = 0` with `valid` the conjunction of the results, the outputs `outsOf`, the final tree. -/
theorem validateRead_rounds (ms : Maps) (ctx : Ctx) (h : Tokenizer.Header) (control m : MapX)
    (isa gs : Seg) (rounds : List BRound) (a g : Nat) (cip cgp : List Nat) (isaDef gsDef : SegDef)
    (vISA vGS : Envelope.SegView) (rs1 rs2 : Envelope.RState)
    (hctl : findMap ms (controlFile h) = some control)
    (hisaNode : fetchIn ms control (isaPath ms) = some ⟨control, cip⟩)
    (hgsNode : fetchIn ms control (gsPath ms) = some ⟨control, cgp⟩)
    (hisaDef : lookupDef control cip = some isaDef)
    (hisaAdm : SegAdm ctx control.v5010 (SegText.delimsOf h) isaDef isa)
    (hidx : getFilename ms.index (gv (SegText.delimsOf h) isa 11) (gv (SegText.delimsOf h) gs 7)
              (gv (SegText.delimsOf h) gs 0) none = some m.file)
    (hmap : findMap ms m.file = some m)
    (hgsM : fetchIn ms m (gsPath ms) = some ⟨m, [a, g, 0]⟩)
    (hgsDef : lookupDef m [a, g, 0] = some gsDef)
    (hgsAdm : SegAdm ctx m.v5010 (SegText.delimsOf h) gsDef gs)
    (h278 : gv (SegText.delimsOf h) gs 7 ≠ some v278a ∧ gv (SegText.delimsOf h) gs 7 ≠ some v278b)
    (hisaId : isa.id = Envelope.idISA) (hgsId : gs.id = Envelope.idGS)
    (hbIsa : baseErrs isa = []) (hbGs : baseErrs gs = [])
    (hvIsa : Pipeline.viewOf (SegText.delimsOf h) isa = some vISA)
    (hsIsa : Envelope.step Envelope.Fixes.all (Envelope.RState.init false) vISA = .ok (rs1, []))
    (hvGs : Pipeline.viewOf (SegText.delimsOf h) gs = some vGS)
    (hsGs : Envelope.step Envelope.Fixes.all rs1 vGS = .ok (rs2, []))
    (hrounds : Rounds ms ctx m (SegText.delimsOf h) (pinnedCnt ms) [a, g, 0] { rs2 with chk837 := m.is837 } rounds)
    (hclean : Envelope.cleanup (endRs { rs2 with chk837 := m.is837 } rounds) = []) :
    ∃ (evI evG : List Event) (e2 : ErrTree.State),
      segEvents ctx control.v5010 (SegText.delimsOf h) isaDef isa = .ok true evI ∧
      segEvents ctx m.v5010 (SegText.delimsOf h) gsDef gs = .ok true evG ∧
      Quiet evI ∧ Quiet evG ∧ GS e2 [] ∧ e2.lost = 0 ∧
      ∀ est', ErrTree.run e2 (eventsOf m (SegText.delimsOf h) rounds) = .ok est' →
        validateRead ms ctx h (readRounds isa gs rounds) =
          { outcome := .verdict (ErrTree.verdict (allValid rounds) est'.tree),
            segs := isaOut control (SegText.delimsOf h) isa cip evI :: gsOut m (SegText.delimsOf h) gs a g rs2 evG ::
              outsOf m (SegText.delimsOf h) [a, g, 0] rounds,
            events := (.addIsa (isaData (SegText.delimsOf h) isa) :: evI) ++
              ((.addGs (gsData (SegText.delimsOf h) gs { rs2 with chk837 := m.is837 }) :: evG) ++
                eventsOf m (SegText.delimsOf h) rounds),
            final := est',
            ackKind := ackKind (gsBase ms control m (SegText.delimsOf h) isa gs) } := by
  obtain ⟨evI, hevI, hqI⟩ := segEvents_clean ctx control.v5010 (SegText.delimsOf h) isaDef isa hisaAdm
  have heI := segEvents_eleOnly ctx control.v5010 (SegText.delimsOf h) isaDef isa
  rw [hevI] at heI
  obtain ⟨evG, hevG, hqG⟩ := segEvents_clean ctx m.v5010 (SegText.delimsOf h) gsDef gs hgsAdm
  have heG := segEvents_eleOnly ctx m.v5010 (SegText.delimsOf h) gsDef gs
  rw [hevG] at heG
  have hne1 : ¬ Envelope.idGS = Envelope.idISA := by decide
  have hne2 : ¬ Envelope.idGS = Envelope.idIEA := by decide
  -- the ISA round
  have hstepI : stepSeg ms ctx control (SegText.delimsOf h) [] isa (initState ms control) =
      .next (isaSt ms control (SegText.delimsOf h) isa cip rs1) (isaOut control (SegText.delimsOf h) isa cip evI) := by
    simp only [stepSeg, hvIsa, withView, hbIsa, initState, List.map_nil, List.append_nil, hsIsa, afterReader, afterStep,
      findNode, hisaId, if_true, hisaNode, afterFind, branch, LState.popped, popEvents, validate, hisaDef, hevI,
      List.nil_append, Bool.and_self, NodeRef.key, List.cons_append, isaSt, isaOut]
  -- the GS round
  have hstepG : stepSeg ms ctx control (SegText.delimsOf h) [] gs (isaSt ms control (SegText.delimsOf h) isa cip rs1) =
      .next (bodyState (gsBase ms control m (SegText.delimsOf h) isa gs) m [a, g, 0] (pinnedCnt ms)
              { rs2 with chk837 := m.is837 })
        (gsOut m (SegText.delimsOf h) gs a g rs2 evG) := by
    simp only [stepSeg, hvGs, withView, hbGs, isaSt, initState, List.map_nil, List.append_nil, hsGs, afterReader, afterStep,
      findNode, hgsId, hne1, hne2, if_true, if_false, hgsNode, afterFind, branch, gsBranch, Option.isNone_none, or_true,
      withNewMap, hidx, hmap, gsTail, hgsM, LState.popped, popEvents, validate, hgsDef, hevG,
      List.nil_append, Bool.and_self, NodeRef.key, List.cons_append, bodyState, gsBase, gsOut, pinnedCnt]
  -- the error tree after ISA
  obtain ⟨t1, ht1, b1, b2, b3, b4, b5, b6⟩ := run_addEles evI (ErrTree.addIsaLoop ErrTree.State.init (isaData (SegText.delimsOf h) isa))
    heI hqI (by simp [ErrTree.addIsaLoop])
  have hrun1 : ErrTree.run ErrTree.State.init (.addIsa (isaData (SegText.delimsOf h) isa) :: evI) = .ok t1 := by
    simp only [ErrTree.run, ErrTree.step, ht1]
  have hc1 : t1.curIsa = some 0 := by rw [b3]; rfl
  have htree1 : t1.tree = [ErrTree.mkIsa (isaData (SegText.delimsOf h) isa)] := by rw [b1]; rfl
  -- … and after GS
  have hstepGs : ErrTree.step t1 (.addGs (gsData (SegText.delimsOf h) gs { rs2 with chk837 := m.is837 })) = .ok
      { t1 with
        tree := ErrTree.modIsa t1.tree 0 (fun x => { x with children := x.children ++
          [ErrTree.mkGs (gsData (SegText.delimsOf h) gs { rs2 with chk837 := m.is837 })] }),
        curGs := some (0, ErrTree.gsChildCount t1.tree 0),
        curSeg := .host (.gs 0 (ErrTree.gsChildCount t1.tree 0)) } := by
    simp only [ErrTree.step, ErrTree.addGsLoop, hc1]
  obtain ⟨e2, he2, c1, c2, c3, c4, c5, c6⟩ := run_addEles evG _ heG hqG (by simp :
    (ErrTree.State.curSeg { t1 with
        tree := ErrTree.modIsa t1.tree 0 (fun x => { x with children := x.children ++
          [ErrTree.mkGs (gsData (SegText.delimsOf h) gs { rs2 with chk837 := m.is837 })] }),
        curGs := some (0, ErrTree.gsChildCount t1.tree 0),
        curSeg := .host (.gs 0 (ErrTree.gsChildCount t1.tree 0)) }) ≠ ErrTree.SegPtr.none)
  have hrun2 : ErrTree.run t1 (.addGs (gsData (SegText.delimsOf h) gs { rs2 with chk837 := m.is837 }) :: evG) = .ok e2 := by
    simp only [ErrTree.run, hstepGs, he2]
  have hG : GS e2 [] := by
    refine ⟨?_, ?_, ?_, ?_⟩
    · rw [c1]
      refine ⟨{ ErrTree.mkIsa (isaData (SegText.delimsOf h) isa) with
          children := [ErrTree.mkGs (gsData (SegText.delimsOf h) gs { rs2 with chk837 := m.is837 })] },
        ErrTree.mkGs (gsData (SegText.delimsOf h) gs { rs2 with chk837 := m.is837 }), ?_, rfl, rfl, rfl, rfl, rfl, rfl⟩
      simp only [htree1, ErrTree.modIsa, ErrTree.modNth, ErrTree.mkIsa, List.nil_append]
    · rw [c3]; exact hc1
    · rw [c4]; simp [htree1, ErrTree.gsChildCount, ErrTree.mkIsa]
    · rw [c5]; show t1.curSt = none; rw [b5]; rfl
  have hlost : e2.lost = 0 := by rw [c2]; show t1.lost = 0; rw [b2]; rfl
  refine ⟨evI, evG, e2, hevI, hevG, hqI, hqG, hG, hlost, ?_⟩
  intro est' hest
  -- the body
  have hbody := run_rounds ms ctx control (SegText.delimsOf h) (gsBase ms control m (SegText.delimsOf h) isa gs) m h278
    rounds [a, g, 0] (pinnedCnt ms) { rs2 with chk837 := m.is837 } true
    (pushOut (pushOut (initAcc ms control) (isaSt ms control (SegText.delimsOf h) isa cip rs1) t1
        (isaOut control (SegText.delimsOf h) isa cip evI))
      (bodyState (gsBase ms control m (SegText.delimsOf h) isa gs) m [a, g, 0] (pinnedCnt ms) { rs2 with chk837 := m.is837 })
      e2 (gsOut m (SegText.delimsOf h) gs a g rs2 evG)) est' rfl hrounds hest
  have hr1 : ErrTree.run (initAcc ms control).est (isaOut control (SegText.delimsOf h) isa cip evI).events = .ok t1 := hrun1
  have hr2 : ErrTree.run t1 (gsOut m (SegText.delimsOf h) gs a g rs2 evG).events = .ok e2 := hrun2
  have hi0 : (initAcc ms control).st = initState ms control := rfl
  have hst1 : (pushOut (initAcc ms control) (isaSt ms control (SegText.delimsOf h) isa cip rs1) t1
      (isaOut control (SegText.delimsOf h) isa cip evI)).st = isaSt ms control (SegText.delimsOf h) isa cip rs1 := rfl
  have he1 : (pushOut (initAcc ms control) (isaSt ms control (SegText.delimsOf h) isa cip rs1) t1
      (isaOut control (SegText.delimsOf h) isa cip evI)).est = t1 := rfl
  simp only [validateRead, hctl, readRounds, runSegs, hi0, hstepI, hr1, hst1, hstepG, he1, hr2]
  rw [hbody]
  simp only [finish, Bool.false_eq_true, if_false, finalErrs, bodyStateV, bodyState,
    List.map_nil, List.append_nil, List.nil_append, hclean, ErrTree.run, finishDone, Bool.true_and, pushOut, initAcc,
    isaOut, gsOut, List.cons_append, List.append_assoc]
  rfl

end Pyx12Verif.Doc
