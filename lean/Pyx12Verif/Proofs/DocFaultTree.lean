/-
Helper lemmas for `Props/DocFault.lean` (C03 at pipeline level), error-handler side.

While ONE interchange with ONE functional group is processed and the envelope nodes carry no error, the error tree is
`[isa]` with `isa.children = [gs]`; everything that happens is told by the list `sets` of transaction-set nodes below the
group (`GS s sets`).  What the handler calls of one round of `x12n_document`'s segment loop do to that list:

* `quiet_round`   the calls of a matched, conforming segment (one structural call, then `add_ele` calls): ST appends a fresh
                  set node, SE closes the last one, every other segment leaves the list alone;
* `fault_round`   the calls of a matched plain segment with ONE faulty element (`add_seg`, `add_ele`…, `add_ele` at the
                  faulty position, one `ele_error` per report, `add_ele`…): the segment node with that one element node
                  and its errors is linked below the current (last) set;
* `werr_events`   `add_seg; seg_error` of the walker (max-use, repeat, mandatory missing, not found): a segment node with
                  that error is linked below the current set — when there is one; with no set yet the bare `except` of
                  `seg_error` swallows the report (`werr_events_noSet`, finding D27).
-/
import Pyx12Verif.Proofs.DocRun

namespace Pyx12Verif.Doc
open Pyx12Verif

/-! ### list helpers -/

theorem modNth_append_last {α : Type} (f : α → α) (l : List α) (x : α) :
    ErrTree.modNth f (l ++ [x]) l.length = l ++ [f x] := by
  induction l with
  | nil => rfl
  | cons a r ih => simp only [List.cons_append, List.length_cons, ErrTree.modNth, ih]

theorem modLast_append_single {α : Type} (f : α → α) (l : List α) (x : α) :
    ErrTree.modLast f (l ++ [x]) = l ++ [f x] := by
  induction l with
  | nil => rfl
  | cons a r ih =>
    cases r with
    | nil => rfl
    | cons b r' =>
      simp only [List.cons_append] at ih ⊢
      simp only [ErrTree.modLast, ih]

theorem modLast_single {α : Type} (f : α → α) (x : α) : ErrTree.modLast f [x] = [f x] := rfl

/-! ### the shape of the tree -/

/-- one interchange, one group, no error on the envelope nodes; `sets` = the transaction-set nodes of the group -/
def GTree (t : ErrTree.Tree) (sets : List ErrTree.St) : Prop :=
  ∃ a g, t = [a] ∧ a.children = [g] ∧ g.children = sets ∧ a.errors = [] ∧ a.elements = [] ∧ g.errors = [] ∧ g.elements = []

/-- `cur_st_node`: the last set node, once there is one -/
def curStOf (sets : List ErrTree.St) : Option (Nat × Nat × Nat) :=
  match sets with
  | [] => none
  | _ :: _ => some (0, 0, sets.length - 1)

theorem curStOf_append (done : List ErrTree.St) (x : ErrTree.St) : curStOf (done ++ [x]) = some (0, 0, done.length) := by
  cases done with
  | nil => rfl
  | cons a r => simp [curStOf]

/-- the handler state inside the group -/
structure GS (s : ErrTree.State) (sets : List ErrTree.St) : Prop where
  tree : GTree s.tree sets
  isa : s.curIsa = some 0
  gs : s.curGs = some (0, 0)
  st : s.curSt = curStOf sets

theorem GS.congr {s s' : ErrTree.State} {sets : List ErrTree.St} (h : GS s sets) (h1 : s'.tree = s.tree)
    (h2 : s'.curIsa = s.curIsa) (h3 : s'.curGs = s.curGs) (h4 : s'.curSt = s.curSt) : GS s' sets :=
  ⟨h1 ▸ h.tree, h2 ▸ h.isa, h3 ▸ h.gs, h4 ▸ h.st⟩

/-- an update of the set list below the group -/
theorem GTree.modSets {t : ErrTree.Tree} {sets : List ErrTree.St} (h : GTree t sets) (f : List ErrTree.St → List ErrTree.St) :
    GTree (ErrTree.modGs t 0 0 (fun x => { x with children := f x.children })) (f sets) := by
  obtain ⟨a, g, rfl, hag, hg, h1, h2, h3, h4⟩ := h
  refine ⟨{ a with children := [{ g with children := f g.children }] }, { g with children := f g.children }, ?_, rfl,
    by rw [hg], h1, h2, h3, h4⟩
  simp only [ErrTree.modGs, ErrTree.modIsa, ErrTree.modNth, hag]

theorem GTree.modSt {t : ErrTree.Tree} {sets : List ErrTree.St} (h : GTree t sets) (k : Nat) (f : ErrTree.St → ErrTree.St) :
    GTree (ErrTree.modSt t 0 0 k f) (ErrTree.modNth f sets k) :=
  h.modSets (fun l => ErrTree.modNth f l k)

theorem GTree.modSeg {t : ErrTree.Tree} {sets : List ErrTree.St} (h : GTree t sets) (k j : Nat)
    (f : ErrTree.Seg → ErrTree.Seg) :
    GTree (ErrTree.modSeg t 0 0 k j f)
      (ErrTree.modNth (fun x => { x with children := ErrTree.modNth f x.children j }) sets k) :=
  h.modSt k _

/-- an update of the group node that keeps what `GTree` looks at -/
theorem GTree.modGsKeep {t : ErrTree.Tree} {sets : List ErrTree.St} (h : GTree t sets) (f : ErrTree.Gs → ErrTree.Gs)
    (hf : ∀ x, (f x).children = x.children ∧ (f x).errors = x.errors ∧ (f x).elements = x.elements) :
    GTree (ErrTree.modGs t 0 0 f) sets := by
  obtain ⟨a, g, rfl, hag, hg, h1, h2, h3, h4⟩ := h
  refine ⟨{ a with children := [f g] }, f g, ?_, rfl, by rw [(hf g).1, hg], h1, h2, by rw [(hf g).2.1, h3],
    by rw [(hf g).2.2, h4]⟩
  simp only [ErrTree.modGs, ErrTree.modIsa, ErrTree.modNth, hag]

theorem GTree.modIsaKeep {t : ErrTree.Tree} {sets : List ErrTree.St} (h : GTree t sets) (f : ErrTree.Isa → ErrTree.Isa)
    (hf : ∀ x, (f x).children = x.children ∧ (f x).errors = x.errors ∧ (f x).elements = x.elements) :
    GTree (ErrTree.modIsa t 0 f) sets := by
  obtain ⟨a, g, rfl, hag, hg, h1, h2, h3, h4⟩ := h
  refine ⟨f a, g, ?_, by rw [(hf a).1, hag], hg, by rw [(hf a).2.1, h1], by rw [(hf a).2.2, h2], h3, h4⟩
  simp only [ErrTree.modIsa, ErrTree.modNth]

theorem GTree.getSt {t : ErrTree.Tree} {sets : List ErrTree.St} (h : GTree t sets) (k : Nat) :
    ErrTree.getSt t 0 0 k = sets[k]? := by
  obtain ⟨a, g, rfl, hag, hg, _⟩ := h
  simp [ErrTree.getSt, ErrTree.getGs, hag, hg]

theorem GTree.stChildCount {t : ErrTree.Tree} {done : List ErrTree.St} {x : ErrTree.St} (h : GTree t (done ++ [x])) :
    ErrTree.stChildCount t (0, 0, done.length) = x.children.length := by
  simp [ErrTree.stChildCount, h.getSt]

theorem GTree.stChildCountGs {t : ErrTree.Tree} {sets : List ErrTree.St} (h : GTree t sets) :
    ErrTree.stChildCountGs t (0, 0) = sets.length := by
  obtain ⟨a, g, rfl, hag, hg, _⟩ := h
  simp [ErrTree.stChildCountGs, ErrTree.getGs, hag, hg]

/-! ### single handler calls -/

theorem GS.addSeg {s : ErrTree.State} {sets : List ErrTree.St} (h : GS s sets) (a : Str) (b : Nat) (c : Option Str) :
    GS (ErrTree.addSeg s a b c) sets := h.congr rfl rfl rfl rfl

theorem GS.addSt {s : ErrTree.State} {sets : List ErrTree.St} (h : GS s sets) (x : ErrTree.StData) :
    ∃ s', ErrTree.step s (.addSt x) = .ok s' ∧ GS s' (sets ++ [ErrTree.mkSt x]) ∧ s'.curSeg ≠ ErrTree.SegPtr.none := by
  have hstep : ErrTree.step s (.addSt x) = .ok
      { s with tree := ErrTree.modGs s.tree 0 0 (fun y => { y with children := y.children ++ [ErrTree.mkSt x] }),
               curSt := some (0, 0, ErrTree.stChildCountGs s.tree (0, 0)),
               curSeg := .host (.st 0 0 (ErrTree.stChildCountGs s.tree (0, 0))) } := by
    simp only [ErrTree.step, ErrTree.addStLoop, h.gs]
  refine ⟨_, hstep, ⟨?_, h.isa, h.gs, ?_⟩, by simp⟩
  · exact h.tree.modSets (fun l => l ++ [ErrTree.mkSt x])
  · simp only [h.tree.stChildCountGs, curStOf_append]

theorem GS.closeSt {s : ErrTree.State} {done : List ErrTree.St} {x : ErrTree.St} (h : GS s (done ++ [x])) :
    ∃ s', ErrTree.step s .closeSt = .ok s' ∧ GS s' (done ++ [x.close]) ∧ s'.curSeg ≠ ErrTree.SegPtr.none := by
  have hst : s.curSt = some (0, 0, done.length) := by rw [h.st, curStOf_append]
  have hstep : ErrTree.step s .closeSt = .ok
      { s with tree := ErrTree.modSt s.tree 0 0 done.length ErrTree.St.close,
               curSeg := .host (.st 0 0 done.length) } := by
    simp only [ErrTree.step, ErrTree.closeStLoop, hst]
  refine ⟨_, hstep, ⟨?_, h.isa, h.gs, ?_⟩, by simp⟩
  · have := h.tree.modSt done.length ErrTree.St.close
    rw [modNth_append_last] at this
    exact this
  · simp only [hst, curStOf_append]

theorem GS.closeGs {s : ErrTree.State} {sets : List ErrTree.St} (h : GS s sets) (ge : ErrTree.GeCount) (recv : Nat) :
    ∃ s', ErrTree.step s (.closeGs ge recv) = .ok s' ∧ GS s' sets ∧ s'.curSeg ≠ ErrTree.SegPtr.none := by
  have hstep : ErrTree.step s (.closeGs ge recv) = .ok
      { s with tree := ErrTree.modGs s.tree 0 0 (fun g => g.closeWith ge.value recv), curSeg := .host (.gs 0 0) } := by
    simp only [ErrTree.step, ErrTree.closeGsLoop, h.gs]
  refine ⟨_, hstep, ⟨?_, h.isa, h.gs, h.st⟩, by simp⟩
  exact h.tree.modGsKeep _ (fun x => ⟨rfl, rfl, rfl⟩)

theorem GS.closeIsa {s : ErrTree.State} {sets : List ErrTree.St} (h : GS s sets) :
    ∃ s', ErrTree.step s .closeIsa = .ok s' ∧ GS s' sets ∧ s'.curSeg ≠ ErrTree.SegPtr.none := by
  have hstep : ErrTree.step s .closeIsa = .ok
      { s with tree := ErrTree.modIsa s.tree 0 (fun a => { a with closed := true }), curSeg := .host (.isa 0) } := by
    simp only [ErrTree.step, ErrTree.closeIsaLoop, h.isa]
  refine ⟨_, hstep, ⟨?_, h.isa, h.gs, h.st⟩, by simp⟩
  exact h.tree.modIsaKeep _ (fun x => ⟨rfl, rfl, rfl⟩)

/-- a run of error-free `add_ele` calls -/
theorem GS.addEles {s : ErrTree.State} {sets : List ErrTree.St} (h : GS s sets) (tl : List Event) (h1 : EleOnly tl)
    (h2 : Quiet tl) (hs : s.curSeg ≠ ErrTree.SegPtr.none) :
    ∃ s', ErrTree.run s tl = .ok s' ∧ GS s' sets ∧ s'.curSeg = s.curSeg := by
  obtain ⟨s', hr, a1, _, a3, a4, a5, a6⟩ := run_addEles tl s h1 h2 hs
  exact ⟨s', hr, h.congr a1 a3 a4 a5, a6⟩

/-! ### the calls of a matched, conforming segment -/

/-- the set list after the structural call of a conforming segment -/
def headSets (d : Delims) (seg : Seg) (rs : Envelope.RState) (sets : List ErrTree.St) : List ErrTree.St :=
  if seg.id = Envelope.idST then sets ++ [ErrTree.mkSt (stData d seg rs)]
  else if seg.id = Envelope.idSE then ErrTree.modLast ErrTree.St.close sets
  else sets

theorem headEvent_cases (d : Delims) (seg : Seg) (rs : Envelope.RState) :
    (seg.id = Envelope.idST ∧ headEvent d seg rs = .addSt (stData d seg rs)) ∨
    (seg.id = Envelope.idSE ∧ headEvent d seg rs = .closeSt) ∨
    (seg.id ≠ Envelope.idST ∧ seg.id ≠ Envelope.idSE ∧
      (headEvent d seg rs = .closeIsa ∨ headEvent d seg rs = .addSeg seg.id rs.segCount none ∨
        headEvent d seg rs = .closeGs (geCount (gv d seg 0)) rs.stCount)) := by
  by_cases h1 : seg.id = Envelope.idIEA
  · have e : headEvent d seg rs = .closeIsa := by unfold headEvent; rw [if_pos h1]
    exact Or.inr (Or.inr ⟨by rw [h1]; decide, by rw [h1]; decide, Or.inl e⟩)
  · by_cases h2 : seg.id = sBHT
    · have e : headEvent d seg rs = .addSeg seg.id rs.segCount none := by unfold headEvent; rw [if_neg h1, if_pos h2]
      exact Or.inr (Or.inr ⟨by rw [h2]; decide, by rw [h2]; decide, Or.inr (Or.inl e)⟩)
    · by_cases h3 : seg.id = Envelope.idGE
      · have e : headEvent d seg rs = .closeGs (geCount (gv d seg 0)) rs.stCount := by
          unfold headEvent; rw [if_neg h1, if_neg h2, if_pos h3]
        exact Or.inr (Or.inr ⟨by rw [h3]; decide, by rw [h3]; decide, Or.inr (Or.inr e)⟩)
      · by_cases h4 : seg.id = Envelope.idST
        · exact Or.inl ⟨h4, by unfold headEvent; rw [if_neg h1, if_neg h2, if_neg h3, if_pos h4]⟩
        · by_cases h5 : seg.id = Envelope.idSE
          · exact Or.inr (Or.inl ⟨h5, by unfold headEvent; rw [if_neg h1, if_neg h2, if_neg h3, if_neg h4, if_pos h5]⟩)
          · exact Or.inr (Or.inr ⟨h4, h5, Or.inr (Or.inl (by
              unfold headEvent; rw [if_neg h1, if_neg h2, if_neg h3, if_neg h4, if_neg h5]))⟩)

/-- the handler calls of one matched, conforming segment: no exception, the set list moves as `headSets` says -/
theorem quiet_round {s : ErrTree.State} {sets : List ErrTree.St} (h : GS s sets) (d : Delims) (seg : Seg)
    (rs : Envelope.RState) (tl : List Event) (h1 : EleOnly tl) (h2 : Quiet tl)
    (hse : seg.id = Envelope.idSE → sets ≠ []) :
    ∃ s', ErrTree.run s (headEvent d seg rs :: tl) = .ok s' ∧ GS s' (headSets d seg rs sets) := by
  have key : ∀ s1 sets1, ErrTree.step s (headEvent d seg rs) = .ok s1 → GS s1 sets1 → s1.curSeg ≠ ErrTree.SegPtr.none →
      ∃ s', ErrTree.run s (headEvent d seg rs :: tl) = .ok s' ∧ GS s' sets1 := by
    intro s1 sets1 hs1 hg hc
    obtain ⟨s2, hs2, hg2, _⟩ := hg.addEles tl h1 h2 hc
    exact ⟨s2, by simp only [ErrTree.run, hs1, hs2], hg2⟩
  unfold headSets
  rcases headEvent_cases d seg rs with ⟨hid, hev⟩ | ⟨hid, hev⟩ | ⟨hn1, hn2, hev⟩
  · obtain ⟨s1, hs1, hg, hc⟩ := h.addSt (stData d seg rs)
    rw [if_pos hid]
    exact key s1 _ (by rw [hev]; exact hs1) hg hc
  · have hne : seg.id ≠ Envelope.idST := by rw [hid]; decide
    rw [if_neg hne, if_pos hid]
    have hs := hse hid
    obtain ⟨done, x, rfl⟩ : ∃ done x, sets = done ++ [x] :=
      ⟨sets.dropLast, sets.getLast hs, (List.dropLast_concat_getLast hs).symm⟩
    obtain ⟨s1, hs1, hg, hc⟩ := h.closeSt
    rw [modLast_append_single]
    exact key s1 _ (by rw [hev]; exact hs1) hg hc
  · rw [if_neg hn1, if_neg hn2]
    rcases hev with hev | hev | hev
    · obtain ⟨s1, hs1, hg, hc⟩ := h.closeIsa
      exact key s1 _ (by rw [hev]; exact hs1) hg hc
    · exact key _ _ (by rw [hev]; rfl) (h.addSeg _ _ _) (by simp [ErrTree.addSeg])
    · obtain ⟨s1, hs1, hg, hc⟩ := h.closeGs (geCount (gv d seg 0)) rs.stCount
      exact key s1 _ (by rw [hev]; exact hs1) hg hc

/-! ### the calls of a plain segment with one faulty element -/

/-- the segment node `err_seg` the handler links for a segment whose only errors sit on ONE element -/
def faultSeg (sid : Str) (n p : Nat) (sp : Option Nat) (de : Option Str) (errs : List ErrTree.EleErr) : ErrTree.Seg :=
  { segId := sid, segCount := n, lsId := none, errors := [],
    elements := [{ pos := p, subpos := sp, refNum := de, errors := errs }] }

def eleErrEvent (e : ErrTree.EleErr) : Event := .eleError e.code e.msg e.value

/-- set node with one more segment node below it -/
def addChild (x : ErrTree.St) (sg : ErrTree.Seg) : ErrTree.St := { x with children := x.children ++ [sg] }

/-- further `ele_error` calls on the linked element node -/
theorem more_eleErrors (done : List ErrTree.St) (x : ErrTree.St) (sid : Str) (n p : Nat) (sp : Option Nat) (de : Option Str) :
    ∀ (rest acc : List ErrTree.EleErr) (s : ErrTree.State),
      GS s (done ++ [addChild x (faultSeg sid n p sp de acc)]) →
      s.curSeg = .host (.seg 0 0 done.length x.children.length) →
      s.curEle = .linked (.seg 0 0 done.length x.children.length) →
      ∃ s', ErrTree.run s (rest.map eleErrEvent) = .ok s' ∧
        GS s' (done ++ [addChild x (faultSeg sid n p sp de (acc ++ rest))]) ∧ s'.curSeg ≠ ErrTree.SegPtr.none := by
  intro rest
  induction rest with
  | nil =>
    intro acc s h hc _
    exact ⟨s, rfl, by simpa using h, by rw [hc]; simp⟩
  | cons e rest ih =>
    intro acc s h hc he
    have hstep : ErrTree.step s (eleErrEvent e) = .ok
        { s with tree := ErrTree.addErrLastEle s.tree (.seg 0 0 done.length x.children.length) e } := by
      simp only [eleErrEvent, ErrTree.step, ErrTree.eleError, ErrTree.addCurSeg, hc, ErrTree.eleErrorLinked, he]
    have hg : GS { s with tree := ErrTree.addErrLastEle s.tree (.seg 0 0 done.length x.children.length) e }
        (done ++ [addChild x (faultSeg sid n p sp de (acc ++ [e]))]) := by
      refine ⟨?_, h.isa, h.gs, ?_⟩
      · have := h.tree.modSeg done.length x.children.length
          (fun a => { a with elements := ErrTree.modLast (fun e' => e'.addError e) a.elements })
        rw [modNth_append_last] at this
        simp only [addChild, modNth_append_last, faultSeg, modLast_single, ErrTree.Ele.addError] at this
        exact this
      · rw [h.st, curStOf_append, curStOf_append]
    obtain ⟨s', hs', hg', hc'⟩ := ih (acc ++ [e]) _ hg hc he
    refine ⟨s', by simp only [List.map_cons, ErrTree.run, hstep, hs'], by simpa using hg', hc'⟩

/-- `add_seg`, error-free `add_ele` calls, `add_ele` at the faulty element, its `ele_error` calls, error-free `add_ele`
    calls: the segment node is linked below the current set with exactly that element node -/
theorem fault_round {s : ErrTree.State} {done : List ErrTree.St} {x : ErrTree.St} (h : GS s (done ++ [x]))
    (sid : Str) (n p : Nat) (sp : Option Nat) (de : Option Str) (e1 : ErrTree.EleErr) (rest : List ErrTree.EleErr)
    (preE postE : List Event) (hp1 : EleOnly preE) (hp2 : Quiet preE) (hq1 : EleOnly postE) (hq2 : Quiet postE) :
    ∃ s', ErrTree.run s (.addSeg sid n none :: (preE ++ .addEle p sp de :: (e1 :: rest).map eleErrEvent ++ postE)) = .ok s' ∧
      GS s' (done ++ [addChild x (faultSeg sid n p sp de (e1 :: rest))]) := by
  have hst : s.curSt = some (0, 0, done.length) := by rw [h.st, curStOf_append]
  -- add_seg
  have h0 : GS (ErrTree.addSeg s sid n none) (done ++ [x]) := h.addSeg _ _ _
  -- error-free add_ele calls
  obtain ⟨s1, hs1, hg1, hc1⟩ := h0.addEles preE hp1 hp2 (by simp [ErrTree.addSeg])
  have hc1' : s1.curSeg = .pending { segId := sid, segCount := n, lsId := none, errors := [], elements := [] } := by
    rw [hc1]; rfl
  have hst1 : s1.curSt = some (0, 0, done.length) := by rw [hg1.st, curStOf_append]
  -- add_ele at the faulty element
  have hs2 : ErrTree.step s1 (.addEle p sp de) = .ok
      { s1 with curEle := .pending { pos := p, subpos := sp, refNum := de, errors := [] } } := by
    simp only [ErrTree.step, ErrTree.addEle, hc1']
  -- the first ele_error links segment and element
  have hs3 : ErrTree.step { s1 with curEle := .pending { pos := p, subpos := sp, refNum := de, errors := [] } }
      (eleErrEvent e1) = .ok
      { s1 with
        tree := ErrTree.appendEle
          (ErrTree.modSt s1.tree 0 0 done.length (fun y => { y with children := y.children ++
            [{ segId := sid, segCount := n, lsId := none, errors := [], elements := [] }] }))
          (.seg 0 0 done.length x.children.length)
          (({ pos := p, subpos := sp, refNum := de, errors := [] } : ErrTree.Ele).addError e1),
        curSeg := .host (.seg 0 0 done.length x.children.length),
        curEle := .linked (.seg 0 0 done.length x.children.length) } := by
    simp only [eleErrEvent, ErrTree.step, ErrTree.eleError, ErrTree.addCurSeg, hc1', hst1, ErrTree.eleErrorLinked,
      hg1.tree.stChildCount]
  have hg3 : GS { s1 with
        tree := ErrTree.appendEle
          (ErrTree.modSt s1.tree 0 0 done.length (fun y => { y with children := y.children ++
            [{ segId := sid, segCount := n, lsId := none, errors := [], elements := [] }] }))
          (.seg 0 0 done.length x.children.length)
          (({ pos := p, subpos := sp, refNum := de, errors := [] } : ErrTree.Ele).addError e1),
        curSeg := .host (.seg 0 0 done.length x.children.length),
        curEle := .linked (.seg 0 0 done.length x.children.length) }
      (done ++ [addChild x (faultSeg sid n p sp de [e1])]) := by
    refine ⟨?_, hg1.isa, hg1.gs, ?_⟩
    · have t1 := hg1.tree.modSt done.length (fun y => { y with children := y.children ++
        [{ segId := sid, segCount := n, lsId := none, errors := [], elements := [] }] })
      rw [modNth_append_last] at t1
      have t2 := t1.modSeg done.length x.children.length
        (fun a => { a with elements := a.elements ++
          [({ pos := p, subpos := sp, refNum := de, errors := [] } : ErrTree.Ele).addError e1] })
      rw [modNth_append_last] at t2
      simp only [modNth_append_last, ErrTree.Ele.addError, List.nil_append] at t2
      exact t2
    · rw [hst1, curStOf_append]
  obtain ⟨s4, hs4, hg4, hc4⟩ := more_eleErrors done x sid n p sp de rest [e1] _ hg3 rfl rfl
  obtain ⟨s5, hs5, hg5, _⟩ := hg4.addEles postE hq1 hq2 hc4
  refine ⟨s5, ?_, by simpa using hg5⟩
  have e : ErrTree.Event.addSeg sid n none :: (preE ++ .addEle p sp de :: (e1 :: rest).map eleErrEvent ++ postE) =
      [.addSeg sid n none] ++ preE ++ ([.addEle p sp de, eleErrEvent e1] ++ rest.map eleErrEvent ++ postE) := by simp
  rw [e, run_append, run_append]
  have r0 : ErrTree.run s [.addSeg sid n none] = .ok (ErrTree.addSeg s sid n none) := rfl
  simp only [r0, hs1, run_append]
  simp only [ErrTree.run, hs2, hs3]
  rw [hs4]
  exact hs5

/-! ### the walker's `add_seg; seg_error` -/

/-- the segment node a walker report leaves behind -/
def werrSeg (sid : Str) (n : Nat) (c : Str) : ErrTree.Seg :=
  { segId := sid, segCount := n, lsId := none, errors := [{ code := c, value := none }], elements := [] }

theorem werr_events {s : ErrTree.State} {done : List ErrTree.St} {x : ErrTree.St} (h : GS s (done ++ [x]))
    (sid : Str) (n : Nat) (c : Str) :
    ∃ s', ErrTree.run s [.addSeg sid n none, .segError c none] = .ok s' ∧
      GS s' (done ++ [addChild x (werrSeg sid n c)]) ∧ s'.lost = s.lost ∧ s'.curSeg ≠ ErrTree.SegPtr.none := by
  have hst : s.curSt = some (0, 0, done.length) := by rw [h.st, curStOf_append]
  have hrun : ErrTree.run s [.addSeg sid n none, .segError c none] = .ok
      { s with
        tree := ErrTree.modSeg
          (ErrTree.modSt s.tree 0 0 done.length (fun y => { y with children := y.children ++
            [{ segId := sid, segCount := n, lsId := none, errors := [], elements := [] }] }))
          0 0 done.length x.children.length (fun a => { a with errors := a.errors ++ [{ code := c, value := none }] }),
        curSeg := .host (.seg 0 0 done.length x.children.length) } := by
    simp only [ErrTree.run, ErrTree.step, ErrTree.addSeg, ErrTree.segError, ErrTree.addCurSeg, hst, ErrTree.segAddError,
      h.tree.stChildCount]
  refine ⟨_, hrun, ⟨?_, h.isa, h.gs, ?_⟩, rfl, by simp⟩
  · have t1 := h.tree.modSt done.length (fun y => { y with children := y.children ++
      [{ segId := sid, segCount := n, lsId := none, errors := [], elements := [] }] })
    rw [modNth_append_last] at t1
    have t2 := t1.modSeg done.length x.children.length
      (fun a => { a with errors := a.errors ++ [{ code := c, value := none }] })
    rw [modNth_append_last] at t2
    simp only [modNth_append_last, List.nil_append] at t2
    exact t2
  · simp only [hst, curStOf_append]

/-- with no set node yet the report is dropped by the bare `except` of `seg_error` (finding D27): nothing but the ghost
    counter moves -/
theorem werr_events_noSet {s : ErrTree.State} (h : GS s []) (sid : Str) (n : Nat) (c : Str) :
    ∃ s', ErrTree.run s [.addSeg sid n none, .segError c none] = .ok s' ∧ GS s' [] ∧ s'.lost = s.lost + 1 ∧
      s'.curSeg ≠ ErrTree.SegPtr.none := by
  have hst : s.curSt = none := by rw [h.st]; rfl
  have hrun : ErrTree.run s [.addSeg sid n none, .segError c none] = .ok
      { s with curSeg := .pending { segId := sid, segCount := n, lsId := none, errors := [], elements := [] },
               lost := s.lost + 1 } := by
    simp only [ErrTree.run, ErrTree.step, ErrTree.addSeg, ErrTree.segError, ErrTree.addCurSeg, hst]
  exact ⟨_, hrun, ⟨h.tree, h.isa, h.gs, h.st⟩, rfl, by simp⟩

/-! ### counting -/

theorem errorCount_GTree {t : ErrTree.Tree} {sets : List ErrTree.St} (h : GTree t sets) :
    ErrTree.errorCount t = ErrTree.sumStErrors sets := by
  obtain ⟨a, g, rfl, hag, hg, h1, h2, h3, h4⟩ := h
  simp [ErrTree.errorCount, ErrTree.Isa.errorCount, ErrTree.Gs.errorCount, ErrTree.sumGsErrors, ErrTree.sumEleErrors,
    hag, hg, h1, h2, h3, h4]

theorem sumStErrors_append (a b : List ErrTree.St) :
    ErrTree.sumStErrors (a ++ b) = ErrTree.sumStErrors a + ErrTree.sumStErrors b := by
  induction a with
  | nil => simp [ErrTree.sumStErrors]
  | cons x r ih => simp only [List.cons_append, ErrTree.sumStErrors, ih]; omega

theorem errCount_close (x : ErrTree.St) : x.close.errCount = x.errCount := rfl

end Pyx12Verif.Doc
