/-
C03 run level, generalised invariant: entering a first-seg loop through transparent loops
(fork of Proofs/WalkerOff.lean over the invariant of Proofs/C03RunWInv.lean; `Off` and the static facts are reused).
-/
import Pyx12Verif.Proofs.C03RunWPres

namespace Pyx12Verif.WalkerGenW
open Pyx12Verif.MapSkel Pyx12Verif.Walker Pyx12Verif.WalkerGen

/-- **step, loop target through transparent loops**: child `j` of `q` is a transparent loop the walk has not entered;
    the generator starts an instance of the first-seg loop that is child `m` at the end of the chain `rel` below it -/
theorem step_enter {K : Consts} {root : List Node} (rootId : Nat) (h : MapOK K root) {s : SegData} {cnt : Counter}
    {cur : List Nat} (hinv : Inv root cnt cur) {q : List Nat} {i j : Nat} (hr : ReadyAt root cnt cur q i j) (hij : i < j)
    {ch : List Node} (hch : chAt root q = some ch) {l p u r : Nat} {w : Bool} {chT : List Node}
    (hT : ch[j]? = some (.loop l p u r w chT)) (hTT : firstIsLoop chT = true)
    {rel : List Nat} {m : Nat} (hoff : Off root cnt (q ++ [j]) (q ++ [j] ++ rel ++ [m]))
    {subL : List Node} (hsubL : chAt chT rel = some subL)
    {lid pos' u' r' : Nat} {w' : Bool} {first : Node} {rest : List Node}
    (htgt : subL[m]? = some (.loop lid pos' u' r' w' (first :: rest)))
    (hseg : first.isSeg = true) (hm : isMatch K first s = true) (hu : u' ≠ 2)
    (hrep : r' = 0 ∨ cnt.get (keyAt root (q ++ [j] ++ rel) ++ [(lid, 0)]) < r') :
    (walk K root rootId cnt cur s).node = some (q ++ [j] ++ rel ++ [m] ++ [0]) ∧
    (walk K root rootId cnt cur s).st =
      { cnt := enterCnt cnt (keyAt root (q ++ [j] ++ rel) ++ [(lid, 0)]) first.comp, pending := [], errs := [] } := by
  have hqi := hr.1
  have hte : ∃ t, t ∈ entry K first ∧ hits s t := by
    cases first with
    | loop => simp [Node.isSeg] at hseg
    | seg a b c d e f g =>
      exact ⟨(a, segSKey K a g), by simp [entry], isMatch_hits K _ s hm (a, segSKey K a g) (by simp [nodeSKey])⟩
  obtain ⟨t, hte1, ht⟩ := hte
  have hteT : t ∈ entry K (.loop lid pos' u' r' w' (first :: rest)) := by rw [entry_loop_first hseg]; exact hte1
  have hsubT : chAt root (q ++ [j]) = some chT := by rw [chAt_snoc hch, hT]
  obtain ⟨hchain, hmem⟩ := chainS_of_off h (s := s) (cnt := cnt) (m := m) rfl hteT ht rel q j chT subL hsubT hTT hoff hsubL htgt
  have hteTT : t ∈ entry K (.loop l p u r w chT) := by rw [entry_transparent hTT]; exact hmem
  have hcompl : ∀ p' i', q <+: p' → p' ≠ q → p' ++ [i'] <+: cur → Complete root cnt p' i' := by
    intro p' i' h1 h2 h3
    apply hr.2.2.2 p' i' _ h3
    have hp'cur : p' <+: cur := List.IsPrefix.trans (List.prefix_append _ _) h3
    have hlen1 := List.IsPrefix.length_le h1
    have hlenne : q.length ≠ p'.length := fun e => h2 (prefix_eq_of_length h1 e).symm
    exact prefix_of_longer hqi hp'cur (by simp; omega)
  have hdead := dead_of_later h hinv hcompl ht
    (deeper_levels_later hinv hqi (Nat.le_of_lt hij) hch hT (by omega) hteTT)
  obtain ⟨loopNode, nid, oL, pops, _, hfound⟩ := reach_level (K := K) (rootId := rootId) (s := s) hinv hqi hdead hch hT
    (pre_passes h hinv hr hch hT hteTT ht)
  obtain ⟨ch0, hch0, hl⟩ := hinv.lev q i hqi
  rw [hch] at hch0; simp only [Option.some.injEq] at hch0; subst hch0
  obtain ⟨ci, hci⟩ := hl.idx
  have hwf := wfAt_chAt (wfAt_root h.wf) hch
  have hpos : ¬ (Node.loop l p u r w chT).pos < posAt root (q ++ [i]) := by
    have := posSorted_le hwf.pos hci hT (Nat.le_of_lt hij)
    simp only [posAt, nodeAt_snoc hch, hci]; omega
  have hkeyT : keyAt root (q ++ [j]) = keyAt root q ++ [(l, 0)] := keyAt_snoc hch hT
  have hsubL' : chAt root (q ++ [j] ++ rel) = some subL := by rw [chAt_append, hsubT]; exact hsubL
  have hkk : keyAt root q ++ [(l, 0)] ++ keyAt chT (rel ++ [m]) = keyAt root (q ++ [j] ++ rel) ++ [(lid, 0)] := by
    rw [← hkeyT, ← keyAt_append hsubT, ← List.append_assoc, keyAt_snoc hsubL' htgt]; rfl
  obtain ⟨push, hg⟩ := chain_goto (K := K) (s := s) hseg hm { cnt := cnt, pending := [], errs := [] } rfl hu rel
    (keyAt root q ++ [(l, 0)]) chT (q ++ [j]) subL (by rw [← hkeyT]; exact hchain) hsubL htgt (by rw [hkk]; exact hrep)
  have hmatch := chain_match (K := K) (s := s) hseg hm { cnt := cnt, pending := [], errs := [] } rel
    (keyAt root q ++ [(l, 0)]) chT (q ++ [j]) subL (by rw [← hkeyT]; exact hchain) hsubL htgt
  have hres := scan_hit_loop (K := K) (s := s) q (keyAt root q) loopNode nid oL (posAt root (q ++ [i])) pops
    { cnt := cnt, pending := [], errs := [] } _ (.loop l p u r w chT) (ch.drop (j + 1)) j _ _ hpos rfl
    (by rw [comp_loop, isLoopMatch_transparent hTT]; exact hmatch)
    (by rw [comp_loop, gotoSegMatch_transparent hTT]; exact hg)
  rw [hfound _ hres, hkk]; exact ⟨rfl, rfl⟩

/-- the transparent levels between `bp` and the entered loop, after the entry -/
theorem chain_levels {K : Consts} {root : List Node} (h : MapOK K root) {cnt cnt' : Counter} {bp rel : List Nat} {m : Nat}
    {subL : List Node} {lid pos' u' r' : Nat} {w' : Bool} {sub1 : List Node}
    (hz : ZeroUnder cnt (keyAt root bp)) (hoff : Off root cnt bp (bp ++ rel ++ [m]))
    (hsubL : chAt root (bp ++ rel) = some subL) (htgt : subL[m]? = some (.loop lid pos' u' r' w' sub1))
    (hag : AgreeOff cnt cnt' (keyAt root (bp ++ rel) ++ [(lid, 0)]))
    (hhere : 1 ≤ cnt'.get (keyAt root (bp ++ rel) ++ [(lid, 0)])) :
    ∀ p i', bp <+: p → p ++ [i'] <+: bp ++ rel ++ [m] →
      ∃ ch', chAt root p = some ch' ∧ LevelInv cnt' (keyAt root p) ch' i' := by
  intro p i' h1 h2
  obtain ⟨sub, hsub, hTs, hsat⟩ := hoff p i' h1 h2
  refine ⟨sub, hsub, ?_⟩
  have hwf := wfAt_chAt (wfAt_root h.wf) hsub
  have hvp : chAt root (bp ++ rel ++ [m]) = some sub1 := by rw [chAt_snoc hsubL, htgt]
  have hkvp : keyAt root (bp ++ rel ++ [m]) = keyAt root (bp ++ rel) ++ [(lid, 0)] := keyAt_snoc hsubL htgt
  -- the chosen child
  have hchosen : ∃ c, sub[i']? = some c ∧ keyAt root p ++ [c.comp] <+: keyAt root (bp ++ rel) ++ [(lid, 0)] ∧
      (counted c = true → keyAt root p ++ [c.comp] = keyAt root (bp ++ rel) ++ [(lid, 0)]) := by
    by_cases he : p ++ [i'] = bp ++ rel ++ [m]
    · have hpe : p = bp ++ rel ∧ i' = m := by
        have := List.append_inj' he (by simp)
        exact ⟨this.1, by simpa using this.2⟩
      obtain ⟨rfl, rfl⟩ := hpe
      rw [hsubL] at hsub; simp only [Option.some.injEq] at hsub; subst hsub
      exact ⟨_, htgt, by simp [comp_loop], fun _ => by simp [comp_loop]⟩
    · obtain ⟨i'', hi''⟩ := prefix_extend h2 he
      obtain ⟨sub', hsub', hTs', _⟩ := hoff (p ++ [i']) i'' (List.IsPrefix.trans h1 (List.prefix_append _ _)) hi''
      obtain ⟨ch0, lid0, pos0, u0, r0, w0, hch0, hci, _⟩ := nodeAt_of_chAt hsub'
      rw [hsub] at hch0; simp only [Option.some.injEq] at hch0; subst hch0
      refine ⟨_, hci, ?_, ?_⟩
      · rw [← keyAt_snoc hsub hci, ← hkvp]
        exact keyAt_prefix hsub' h2
      · intro hcnt
        rw [not_counted_of_transparent hTs'] at hcnt; cases hcnt
  obtain ⟨c, hc, hkpre, hkeq⟩ := hchosen
  have hbpk : keyAt root bp <+: keyAt root p := by
    obtain ⟨chb, hchb⟩ := chAt_prefix hsub h1
    exact keyAt_prefix hchb h1
  refine ⟨⟨c, hc⟩, ?_, ?_, ?_⟩
  · intro j'' c'' hj hc''
    have hz' : ZeroUnder cnt (keyAt root p ++ [c''.comp]) :=
      hz.mono (List.IsPrefix.trans hbpk (List.prefix_append _ _))
    exact transfer_zero hz' hag hkpre (compDistinct_ne hwf.comp hc hc'' (by omega))
  · intro j'' c'' hj hc''
    exact Or.inl (transfer_sat (hsat j'' c'' hj hc'') hag hkpre (compDistinct_ne hwf.comp hc hc'' (by omega)))
  · intro c0 hc0 hcnt
    rw [hc] at hc0; simp only [Option.some.injEq] at hc0; subst hc0
    rw [hkeq hcnt]; exact hhere

/-- state after entering a loop through transparent loops -/
theorem post_enter {K : Consts} {root : List Node} (h : MapOK K root) {cnt : Counter}
    {cur : List Nat} (hinv : Inv root cnt cur) {q : List Nat} {i j : Nat} (hr : ReadyAt root cnt cur q i j) (hij : i < j)
    {ch : List Node} (hch : chAt root q = some ch) {l p u r : Nat} {w : Bool} {chT : List Node}
    (hT : ch[j]? = some (.loop l p u r w chT)) (hTT : firstIsLoop chT = true)
    {rel : List Nat} {m : Nat} (hoff : Off root cnt (q ++ [j]) (q ++ [j] ++ rel ++ [m]))
    {subL : List Node} (hsubL : chAt chT rel = some subL)
    {lid pos' u' r' : Nat} {w' : Bool} {first : Node} {rest : List Node}
    (htgt : subL[m]? = some (.loop lid pos' u' r' w' (first :: rest))) (hseg : first.isSeg = true) :
    Inv root (enterCnt cnt (keyAt root (q ++ [j] ++ rel) ++ [(lid, 0)]) first.comp) (q ++ [j] ++ rel ++ [m] ++ [0]) := by
  have hsubT : chAt root (q ++ [j]) = some chT := by rw [chAt_snoc hch, hT]
  have hsubL' : chAt root (q ++ [j] ++ rel) = some subL := by rw [chAt_append, hsubT]; exact hsubL
  have hvp : chAt root (q ++ [j] ++ rel ++ [m]) = some (first :: rest) := by rw [chAt_snoc hsubL', htgt]
  have hkvp : keyAt root (q ++ [j] ++ rel ++ [m]) = keyAt root (q ++ [j] ++ rel) ++ [(lid, 0)] := keyAt_snoc hsubL' htgt
  have hkeyT : keyAt root (q ++ [j]) = keyAt root q ++ [(l, 0)] := keyAt_snoc hch hT
  obtain ⟨ch0, hch0, hl⟩ := hinv.lev q i hr.1
  rw [hch] at hch0; simp only [Option.some.injEq] at hch0; subst hch0
  have hzT : ZeroUnder cnt (keyAt root (q ++ [j])) := by rw [hkeyT]; exact hl.later j _ hij hT
  have hTkk : keyAt root q ++ [(Node.loop l p u r w chT).comp] <+: keyAt root (q ++ [j] ++ rel) ++ [(lid, 0)] := by
    rw [comp_loop, ← hkeyT, ← hkvp]
    exact keyAt_prefix hsubT ⟨rel ++ [m], by simp⟩
  refine ⟨⟨first, by rw [nodeAt_snoc hvp]; simp, hseg⟩, ?_⟩
  intro p0 i' hp
  rcases prefix_snoc_cases hp with hpv | heq
  · -- a level above the new one
    by_cases hlen : (p0 ++ [i']).length ≤ (q ++ [j]).length
    · have hpq : p0 ++ [i'] <+: q ++ [j] :=
        prefix_of_longer hpv ⟨rel ++ [m], by simp⟩ hlen
      exact inv_levels h hinv hr.on hch hT ((agreeOff_enter _ _ _).mono hTkk)
        (by intro hcnt; rw [not_counted_of_transparent hTT] at hcnt; cases hcnt) p0 i' hpq
    · have hqp : q ++ [j] <+: p0 := by
        have h1 : q ++ [j] <+: q ++ [j] ++ rel ++ [m] := ⟨rel ++ [m], by simp⟩
        have h2 : p0 <+: q ++ [j] ++ rel ++ [m] := List.IsPrefix.trans (List.prefix_append _ _) hpv
        exact prefix_of_longer h1 h2 (by simp at hlen ⊢; omega)
      exact chain_levels h hzT hoff hsubL' htgt (agreeOff_enter _ _ _) (by rw [get_enterCnt_self]; omega) p0 i' hqp hpv
  · have hpe : p0 = q ++ [j] ++ rel ++ [m] ∧ i' = 0 := by
      have := List.append_inj' heq (by simp)
      exact ⟨this.1, by simpa using this.2⟩
    obtain ⟨rfl, rfl⟩ := hpe
    refine ⟨first :: rest, hvp, ⟨first, by simp⟩, ?_, ?_, ?_⟩
    · intro j'' c'' hj hc''
      rw [hkvp]
      have hwf := wfAt_chAt (wfAt_root h.wf) hvp
      have hf0 : (first :: rest)[0]? = some first := by simp
      exact zeroUnder_enterCnt _ _ _ _ (compDistinct_ne hwf.comp hf0 hc'' (by omega))
    · intro j'' c'' hj; omega
    · intro c0 hc0 _
      simp only [List.getElem?_cons_zero, Option.some.injEq] at hc0; subst hc0
      rw [hkvp]; exact get_enterCnt_first _ _ _

end Pyx12Verif.WalkerGenW
