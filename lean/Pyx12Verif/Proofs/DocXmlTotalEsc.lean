/-
Escaped data in the XML document, said for the rendered TEXT (`Xml.renderFrom`, what `XMLWriter` writes).

(A) `render_split`: for events whose element names contain neither `<` nor `>`, a reader that separates markup from
    character data (`Html.tags` / `Html.stripTags`: everything from a `<` to the next `>` is markup) finds
      markup          = `markupOf evs`   — per event the tags with their `id` attribute; the element VALUES do not occur in it
      character data  = `contentFrom d evs` — per event the indentation, for a text element the ESCAPED value, the line end
    whatever the values and ids are (`escapeText` has no `<`, `escapeAttr` has no `>`).  So no character of a value becomes
    markup, and decoding the entities of an escaped value gives the value back (C08 `unescape_escapeText`).
(B) `docEventsG_known`: every event the sink writes carries one of the six literal element names of `x12xml_simple`
    (`x12simple`, `loop`, `seg`, `comp`, `ele`, `subele`) — for every run that completes, no hypothesis on the maps.
-/
import Pyx12Verif.Proofs.DocSinksXml
import Pyx12Verif.Proofs.HtmlOut

namespace Pyx12Verif.Xml
open Pyx12Verif.Html (tagsAux stripAux tags stripTags)

/-! ### escaped strings have no angle brackets -/

theorem escT_noAngle (c : Char) : ∀ x ∈ escT c, x ≠ '<' ∧ x ≠ '>' := by
  unfold escT
  split
  · decide
  · split
    · decide
    · split
      · decide
      · rename_i h2 h3
        intro x hx
        simp only [List.mem_singleton] at hx
        subst hx
        exact ⟨h2, h3⟩

theorem escA_noAngle (c : Char) : ∀ x ∈ escA c, x ≠ '<' ∧ x ≠ '>' := by
  unfold escA
  split
  · decide
  · split
    · decide
    · split
      · decide
      · split
        · decide
        · rename_i h2 h3
          intro x hx
          simp only [List.mem_singleton] at hx
          subst hx
          exact ⟨h2, h3⟩

theorem escapeText_noAngle : ∀ (s : Str), ∀ x ∈ escapeText s, x ≠ '<' ∧ x ≠ '>'
  | [] => by intro x hx; simp [escapeText_nil] at hx
  | c :: r => by
    intro x hx
    rw [escapeText_cons, List.mem_append] at hx
    rcases hx with h | h
    · exact escT_noAngle c x h
    · exact escapeText_noAngle r x h

theorem escapeAttr_noAngle : ∀ (s : Str), ∀ x ∈ escapeAttr s, x ≠ '<' ∧ x ≠ '>'
  | [] => by intro x hx; simp [escapeAttr_nil] at hx
  | c :: r => by
    intro x hx
    rw [escapeAttr_cons, List.mem_append] at hx
    rcases hx with h | h
    · exact escA_noAngle c x h
    · exact escapeAttr_noAngle r x h

theorem attrText_noGt (i : Option Str) : ∀ x ∈ attrText i, x ≠ '>' := by
  cases i with
  | none => intro x hx; simp [attrText] at hx
  | some v =>
    intro x hx
    simp only [attrText] at hx
    have k1 : ∀ y ∈ [' ', 'i', 'd', '=', '\''], y ≠ '>' := by decide
    have k2 : ∀ y ∈ ['\''], y ≠ '>' := by decide
    rcases List.mem_append.1 hx with h | h
    · rcases List.mem_append.1 h with h | h
      · exact k1 x h
      · exact (escapeAttr_noAngle v x h).2
    · exact k2 x h

theorem indent_noLt (d : Nat) : ∀ x ∈ indentOf d, x ≠ '<' := by
  intro x hx
  have := List.eq_of_mem_replicate hx
  subst this
  decide

/-! ### (A) markup and character data of the rendered events -/

def Ev.tag : Ev → Str
  | .start t _ => t
  | .leaf t _ _ => t
  | .stop t => t

/-- element names that can stand in a tag -/
def PlainTags (evs : List Ev) : Prop := ∀ e ∈ evs, ∀ c ∈ e.tag, c ≠ '<' ∧ c ≠ '>'

/-- the markup of the rendered events: the tags with their `id` attribute.  No element value occurs in it. -/
def markupOf : List Ev → Str
  | [] => []
  | .start t i :: r => '<' :: (t ++ (attrText i ++ '>' :: markupOf r))
  | .leaf t i _ :: r => '<' :: (t ++ (attrText (some i) ++ '>' :: '<' :: '/' :: (t ++ '>' :: markupOf r)))
  | .stop t :: r => '<' :: '/' :: (t ++ '>' :: markupOf r)

/-- the character data of the rendered events: indentation, ESCAPED element values, line ends -/
def contentFrom : Nat → List Ev → Str
  | _, [] => []
  | d, .start _ _ :: r => indentOf d ++ '\n' :: contentFrom (d + 1) r
  | d, .leaf _ _ x :: r => indentOf d ++ (escapeText x ++ '\n' :: contentFrom d r)
  | d, .stop _ :: r => indentOf (d - 1) ++ '\n' :: contentFrom (d - 1) r

theorem tags_skip (ind R : Str) (h : ∀ x ∈ ind, x ≠ '<') : tagsAux false (ind ++ R) = tagsAux false R := by
  simpa using Html.tags_plain ind h R

theorem strip_skip (ind R : Str) (h : ∀ x ∈ ind, x ≠ '<') : stripAux false (ind ++ R) = ind ++ stripAux false R :=
  Html.strip_plain ind h R

theorem tags_open (t a R : Str) (ht : ∀ x ∈ t, x ≠ '>') (ha : ∀ x ∈ a, x ≠ '>') :
    tagsAux false ('<' :: (t ++ (a ++ '>' :: R))) = '<' :: (t ++ (a ++ '>' :: tagsAux false R)) := by
  have h : ∀ x ∈ t ++ a, x ≠ '>' := by
    intro x hx
    rcases List.mem_append.1 hx with h | h
    · exact ht x h
    · exact ha x h
  have := Html.tags_inTag (t ++ a) h R
  simp only [List.append_assoc] at this
  simp only [tagsAux, if_true, this]

theorem strip_open (t a R : Str) (ht : ∀ x ∈ t, x ≠ '>') (ha : ∀ x ∈ a, x ≠ '>') :
    stripAux false ('<' :: (t ++ (a ++ '>' :: R))) = stripAux false R := by
  have h : ∀ x ∈ t ++ a, x ≠ '>' := by
    intro x hx
    rcases List.mem_append.1 hx with h | h
    · exact ht x h
    · exact ha x h
  have := Html.strip_inTag (t ++ a) h R
  simp only [List.append_assoc] at this
  simp only [stripAux, if_true, this]

theorem slash_noGt (t : Str) (ht : ∀ x ∈ t, x ≠ '>') : ∀ x ∈ '/' :: t, x ≠ '>' := by
  intro x hx
  rcases List.mem_cons.1 hx with h | h
  · subst h; decide
  · exact ht x h

theorem tags_close (t R : Str) (ht : ∀ x ∈ t, x ≠ '>') :
    tagsAux false ('<' :: '/' :: (t ++ '>' :: R)) = '<' :: '/' :: (t ++ '>' :: tagsAux false R) := by
  simpa using tags_open ('/' :: t) [] R (slash_noGt t ht) (by intro x hx; cases hx)

theorem strip_close (t R : Str) (ht : ∀ x ∈ t, x ≠ '>') :
    stripAux false ('<' :: '/' :: (t ++ '>' :: R)) = stripAux false R := by
  simpa using strip_open ('/' :: t) [] R (slash_noGt t ht) (by intro x hx; cases hx)

theorem tags_nl (R : Str) : tagsAux false ('\n' :: R) = tagsAux false R := by
  simp [tagsAux]

theorem strip_nl (R : Str) : stripAux false ('\n' :: R) = '\n' :: stripAux false R := by
  simp [stripAux]

theorem tagsAux_render : ∀ (evs : List Ev) (d : Nat), PlainTags evs → tagsAux false (renderFrom d evs) = markupOf evs
  | [], _, _ => rfl
  | .start t i :: r, d, h => by
    have ht : ∀ x ∈ t, x ≠ '>' := fun x hx => (h (.start t i) (by simp) x hx).2
    have ih := tagsAux_render r (d + 1) (fun e he => h e (by simp [he]))
    simp only [renderFrom, List.append_assoc, List.cons_append, List.nil_append, markupOf]
    rw [tags_skip _ _ (indent_noLt d), tags_open t _ _ ht (attrText_noGt i), tags_nl, ih]
  | .leaf t i x :: r, d, h => by
    have ht : ∀ c ∈ t, c ≠ '>' := fun c hc => (h (.leaf t i x) (by simp) c hc).2
    have ih := tagsAux_render r d (fun e he => h e (by simp [he]))
    simp only [renderFrom, List.append_assoc, List.cons_append, List.nil_append, markupOf]
    rw [tags_skip _ _ (indent_noLt d), tags_open t _ _ ht (attrText_noGt (some i)),
      tags_skip _ _ (fun c hc => (escapeText_noAngle x c hc).1), tags_close t _ ht, tags_nl, ih]
  | .stop t :: r, d, h => by
    have ht : ∀ x ∈ t, x ≠ '>' := fun x hx => (h (.stop t) (by simp) x hx).2
    have ih := tagsAux_render r (d - 1) (fun e he => h e (by simp [he]))
    simp only [renderFrom, List.append_assoc, List.cons_append, List.nil_append, markupOf]
    rw [tags_skip _ _ (indent_noLt (d - 1)), tags_close t _ ht, tags_nl, ih]

theorem stripAux_render : ∀ (evs : List Ev) (d : Nat), PlainTags evs →
    stripAux false (renderFrom d evs) = contentFrom d evs
  | [], _, _ => rfl
  | .start t i :: r, d, h => by
    have ht : ∀ x ∈ t, x ≠ '>' := fun x hx => (h (.start t i) (by simp) x hx).2
    have ih := stripAux_render r (d + 1) (fun e he => h e (by simp [he]))
    simp only [renderFrom, List.append_assoc, List.cons_append, List.nil_append, contentFrom]
    rw [strip_skip _ _ (indent_noLt d), strip_open t _ _ ht (attrText_noGt i), strip_nl, ih]
  | .leaf t i x :: r, d, h => by
    have ht : ∀ c ∈ t, c ≠ '>' := fun c hc => (h (.leaf t i x) (by simp) c hc).2
    have ih := stripAux_render r d (fun e he => h e (by simp [he]))
    simp only [renderFrom, List.append_assoc, List.cons_append, List.nil_append, contentFrom]
    rw [strip_skip _ _ (indent_noLt d), strip_open t _ _ ht (attrText_noGt (some i)),
      strip_skip _ _ (fun c hc => (escapeText_noAngle x c hc).1), strip_close t _ ht, strip_nl, ih]
  | .stop t :: r, d, h => by
    have ht : ∀ x ∈ t, x ≠ '>' := fun x hx => (h (.stop t) (by simp) x hx).2
    have ih := stripAux_render r (d - 1) (fun e he => h e (by simp [he]))
    simp only [renderFrom, List.append_assoc, List.cons_append, List.nil_append, contentFrom]
    rw [strip_skip _ _ (indent_noLt (d - 1)), strip_close t _ ht, strip_nl, ih]

/-- **markup and data of the rendered events** -/
theorem render_split (evs : List Ev) (d : Nat) (h : PlainTags evs) :
    tags (renderFrom d evs) = markupOf evs ∧ stripTags (renderFrom d evs) = contentFrom d evs :=
  ⟨tagsAux_render evs d h, stripAux_render evs d h⟩

/-- the values of the text elements, in document order -/
def valuesOf : List Ev → List Str
  | [] => []
  | .leaf _ _ x :: r => x :: valuesOf r
  | .start _ _ :: r => valuesOf r
  | .stop _ :: r => valuesOf r

/-- the events with every value erased -/
def eraseValues : List Ev → List Ev
  | [] => []
  | .leaf t i _ :: r => .leaf t i [] :: eraseValues r
  | .start t i :: r => .start t i :: eraseValues r
  | .stop t :: r => .stop t :: eraseValues r

/-- the markup does not depend on the values -/
theorem markupOf_erase : ∀ (evs : List Ev), markupOf (eraseValues evs) = markupOf evs
  | [] => rfl
  | .leaf t i x :: r => by simp only [eraseValues, markupOf, markupOf_erase r]
  | .start t i :: r => by simp only [eraseValues, markupOf, markupOf_erase r]
  | .stop t :: r => by simp only [eraseValues, markupOf, markupOf_erase r]

/-! ### (B) the element names the sink writes -/

def knownTags : List Str := [tagRoot, tagLoop, tagSeg, tagComp, tagEle, tagSubele]

/-- every event carries one of the six literal element names -/
def KnownTags (evs : List Ev) : Prop := ∀ e ∈ evs, e.tag ∈ knownTags

theorem plain_of_known (evs : List Ev) (h : KnownTags evs) : PlainTags evs := by
  intro e he c hc
  have := h e he
  simp only [knownTags, List.mem_cons, List.mem_nil_iff, or_false] at this
  rcases this with h | h | h | h | h | h <;> (rw [h] at hc; revert c; decide)

theorem KnownTags.append {a b : List Ev} (ha : KnownTags a) (hb : KnownTags b) : KnownTags (a ++ b) := by
  intro e he
  rcases List.mem_append.1 he with h | h
  · exact ha e h
  · exact hb e h

/-- writer invariant: open element names and written events use the six names -/
def WOK (w : W) : Prop := (∀ t ∈ w.stack, t ∈ knownTags) ∧ KnownTags w.out

theorem WOK.push {w : W} (h : WOK w) {t : Str} (ht : t ∈ knownTags) (i : Option Str) : WOK (w.push t i) := by
  refine ⟨?_, ?_⟩
  · intro x hx
    simp only [W.push, List.mem_append, List.mem_singleton] at hx
    rcases hx with hx | rfl
    · exact h.1 x hx
    · exact ht
  · exact h.2.append (by intro e he; simp only [List.mem_singleton] at he; subst he; exact ht)

theorem WOK.elem {w : W} (h : WOK w) {t : Str} (ht : t ∈ knownTags) (i x : Str) : WOK (w.elem t i x) :=
  ⟨h.1, h.2.append (by intro e he; simp only [List.mem_singleton] at he; subst he; exact ht)⟩

theorem WOK.pop {w : W} (h : WOK w) : WOK w.pop := by
  unfold W.pop
  split
  · exact h
  · rename_i t ht
    have hmem : t ∈ w.stack := List.mem_of_getLast? ht
    refine ⟨fun x hx => h.1 x (List.dropLast_subset _ hx), ?_⟩
    exact h.2.append (by intro e he; simp only [List.mem_singleton] at he; subst he; exact h.1 t hmem)

theorem WOK.popN : ∀ (n : Nat) {w : W}, WOK w → WOK (popN n w)
  | 0, _, h => h
  | n + 1, _, h => WOK.popN n h.pop

theorem tagLoop_known : tagLoop ∈ knownTags := by decide
theorem tagSeg_known : tagSeg ∈ knownTags := by decide
theorem tagComp_known : tagComp ∈ knownTags := by decide
theorem tagEle_known : tagEle ∈ knownTags := by decide
theorem tagSubele_known : tagSubele ∈ knownTags := by decide
theorem tagRoot_known : tagRoot ∈ knownTags := by decide

theorem WOK.pushAll : ∀ (ls : List Str) {w : W}, WOK w → WOK (pushAll ls w)
  | [], _, h => h
  | l :: r, _, h => WOK.pushAll r (h.push tagLoop_known (some l))

theorem transition_known (last cur : List Str) (first : Bool) (w w' : W) (hw : WOK w)
    (h : transition last cur first w = .ok w') : WOK w' := by
  unfold transition at h
  split at h
  · split at h
    · simp at h
    · simp only [Except.ok.injEq] at h; subst h
      exact hw.pop.push tagLoop_known _
  · unfold pushFrom at h
    split at h
    · simp only [Except.ok.injEq] at h; subst h
      exact WOK.pushAll _ (WOK.popN _ hw)
    · split at h
      · simp at h
      · simp only [Except.ok.injEq] at h; subst h
        exact WOK.pushAll _ ((WOK.popN _ hw).push tagLoop_known _)

end Pyx12Verif.Xml

namespace Pyx12Verif.Doc.XmlG
open Pyx12Verif Pyx12Verif.Xml
open Pyx12Verif.Segment (SegObj Comp Got)

theorem subLoopG_known : ∀ (vs ids : List Str) (w : W), WOK w → WOK (subLoopG ids vs w)
  | [], ids, w, h => by cases ids <;> (simp only [subLoopG]; exact h)
  | _ :: _, [], w, h => by simp only [subLoopG]; exact h
  | v :: vs, xid :: ids, w, h => by
    simp only [subLoopG]
    exact subLoopG_known vs ids _ (h.elem tagSubele_known xid v)

theorem childOutG_known (sid : Str) (seg : SegObj) (ref : Str) (c : ChildDef) (w w' : W) (g : Except Segment.Err Got)
    (hw : WOK w) (h : childOutG sid seg ref c w g = .ok w') : WOK w' := by
  unfold childOutG at h
  split at h
  · simp at h
  · simp at h
  · simp at h
  · split at h
    · simp only [Except.ok.injEq] at h; subst h; exact hw
    · split at h
      · simp only [Except.ok.injEq] at h; subst h
        exact (subLoopG_known _ _ _ (hw.push tagComp_known _)).pop
      · unfold eleOut at h
        split at h
        · simp at h
        · simp at h
        · split at h
          · simp only [Except.ok.injEq] at h; subst h; exact hw
          · simp only [Except.ok.injEq] at h; subst h; exact hw.elem tagEle_known _ _

theorem elemLoopG_known (node : Xml.SegDef) (seg : SegObj) : ∀ (n i : Nat) (w w' : W), WOK w →
    elemLoopG node seg n i w = .ok w' → WOK w'
  | 0, i, w, w', hw => by intro h; simp only [elemLoopG, Except.ok.injEq] at h; subst h; exact hw
  | n + 1, i, w, w', hw => by
    intro h
    simp only [elemLoopG] at h
    split at h
    · simp at h
    · simp only [Except.ok.injEq] at h; subst h; exact hw
    · rename_i w2 h2
      have e1 : WOK w2 := by
        unfold elemStepG at h2
        split at h2
        · simp at h2
        · simp at h2
        · split at h2
          · simp only [Except.ok.injEq, Option.some.injEq] at h2; subst h2; exact hw
          · split at h2
            · simp at h2
            · rename_i w3 h3
              simp only [Except.ok.injEq, Option.some.injEq] at h2; subst h2
              exact childOutG_known _ _ _ _ _ _ _ hw h3
      exact elemLoopG_known node seg n (i + 1) _ _ e1 h

theorem segOutG_known (node : Xml.SegDef) (seg : SegObj) (w w' : W) (hw : WOK w) (h : segOutG node seg w = .ok w') :
    WOK w' := by
  unfold segOutG at h
  split at h
  · simp at h
  · rename_i w2 h2
    simp only [Except.ok.injEq] at h
    subst h
    exact (elemLoopG_known _ _ _ _ _ _ (hw.push tagSeg_known _) h2).pop

theorem runG_known : ∀ (steps : List Xml.Step) (st st' : Xml.St) (evs : List Ev), (∀ t ∈ st.stack, t ∈ knownTags) →
    runG st steps = .ok (st', evs) → (∀ t ∈ st'.stack, t ∈ knownTags) ∧ KnownTags evs
  | [], st, st', evs, hs => by
    intro h
    simp only [runG, Except.ok.injEq, Prod.mk.injEq] at h
    obtain ⟨rfl, rfl⟩ := h
    exact ⟨hs, by intro e he; cases he⟩
  | x :: r, st, st', evs, hs => by
    intro h
    simp only [runG] at h
    split at h
    · simp at h
    · rename_i st1 evs1 h1
      split at h
      · simp at h
      · rename_i st2 evs2 h2
        simp only [Except.ok.injEq, Prod.mk.injEq] at h
        obtain ⟨rfl, rfl⟩ := h
        have hstep : (∀ t ∈ st1.stack, t ∈ knownTags) ∧ KnownTags evs1 := by
          unfold segStepG at h1
          split at h1
          · simp at h1
          · rename_i w hw
            split at h1
            · simp at h1
            · rename_i w' hw'
              simp only [Except.ok.injEq, Prod.mk.injEq] at h1
              obtain ⟨rfl, rfl⟩ := h1
              have h0 : WOK ⟨st.stack, []⟩ := ⟨hs, by intro e he; cases he⟩
              exact segOutG_known _ _ _ _ (transition_known _ _ _ _ _ h0 hw) hw'
        obtain ⟨hs2, hk2⟩ := runG_known r st1 st2 evs2 hstep.1 h2
        exact ⟨hs2, hstep.2.append hk2⟩

/-- **the six element names**: every event of a document the sink writes carries a literal element name of the code -/
theorem docEventsG_known (steps : List Xml.Step) (evs : List Ev) (h : docEventsG steps = .ok evs) : KnownTags evs := by
  unfold docEventsG at h
  split at h
  · simp at h
  · rename_i st evs1 h1
    simp only [Except.ok.injEq] at h
    subst h
    have hinit : ∀ t ∈ initSt.stack, t ∈ knownTags := by
      intro t ht
      simp only [initSt, List.mem_singleton] at ht
      subst ht
      exact tagRoot_known
    obtain ⟨hs, hk⟩ := runG_known steps initSt st evs1 hinit h1
    have hdel : KnownTags (delEvs st) := by
      unfold delEvs
      exact (WOK.popN st.stack.length (w := ⟨st.stack, []⟩) ⟨hs, by intro e he; cases he⟩).2
    refine KnownTags.append (KnownTags.append ?_ hk) hdel
    intro e he
    simp only [initEvs, List.mem_singleton] at he
    subst he
    exact tagRoot_known

end Pyx12Verif.Doc.XmlG
