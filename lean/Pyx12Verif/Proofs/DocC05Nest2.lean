/-
C05 at pipeline level, document side (5): the EVENTS of properly nested traces.

  `trace_names`       the `add_gs_loop` / `add_st_loop` calls carry GS01 / GS06 and ST01 / ST02 of the segments, in order;
  `trace_counts`      one `add_st_loop` per ST segment, one `add_gs_loop` per GS segment;
  `trace_set_body`    between ST and SE (no header / trailer segment) no structural call is made;
  `trace_group_body`  between GS and GE no `add_gs_loop` / `close_gs_loop`; the reader's set counter counts the ST segments;
  `trace_noReclose`, `trace_noRegroup`   after an SE no second `close_st_loop` before the next `add_st_loop`; after a GE
                      neither `close_gs_loop` nor `add_st_loop` before the next `add_gs_loop`.
-/
import Pyx12Verif.Proofs.DocC05Nest
import Pyx12Verif.Proofs.DocC05Names

namespace Pyx12Verif.Doc
open Pyx12Verif DocC05

/-! ### the structural call, by segment identifier -/

theorem midX_isa {d : Delims} {s : Seg} {rs : Envelope.RState} {pops mid : List Event} (h : MidX d s rs pops mid)
    (hid : s.id = Envelope.idISA) : mid = .addIsa (isaData d s) :: pops := by
  cases h with
  | isa _ => rfl
  | iea h1 => rw [hid] at h1; exact absurd h1 (by decide)
  | gs h1 => rw [hid] at h1; exact absurd h1 (by decide)
  | ge h1 => rw [hid] at h1; exact absurd h1 (by decide)
  | st h1 => rw [hid] at h1; exact absurd h1 (by decide)
  | se h1 => rw [hid] at h1; exact absurd h1 (by decide)
  | plain h1 => exact absurd hid h1

theorem midX_iea {d : Delims} {s : Seg} {rs : Envelope.RState} {pops mid : List Event} (h : MidX d s rs pops mid)
    (hid : s.id = Envelope.idIEA) : mid = pops ++ [.closeIsa] := by
  cases h with
  | iea _ => rfl
  | isa h1 => rw [hid] at h1; exact absurd h1 (by decide)
  | gs h1 => rw [hid] at h1; exact absurd h1 (by decide)
  | ge h1 => rw [hid] at h1; exact absurd h1 (by decide)
  | st h1 => rw [hid] at h1; exact absurd h1 (by decide)
  | se h1 => rw [hid] at h1; exact absurd h1 (by decide)
  | plain _ h2 => exact absurd hid h2

theorem midX_gs {d : Delims} {s : Seg} {rs : Envelope.RState} {pops mid : List Event} (h : MidX d s rs pops mid)
    (hid : s.id = Envelope.idGS) : mid = .addGs (gsData d s rs) :: pops := by
  cases h with
  | gs _ => rfl
  | isa h1 => rw [hid] at h1; exact absurd h1 (by decide)
  | iea h1 => rw [hid] at h1; exact absurd h1 (by decide)
  | ge h1 => rw [hid] at h1; exact absurd h1 (by decide)
  | st h1 => rw [hid] at h1; exact absurd h1 (by decide)
  | se h1 => rw [hid] at h1; exact absurd h1 (by decide)
  | plain _ _ h3 => exact absurd hid h3

theorem midX_ge {d : Delims} {s : Seg} {rs : Envelope.RState} {pops mid : List Event} (h : MidX d s rs pops mid)
    (hid : s.id = Envelope.idGE) : mid = pops ++ [.closeGs (geCount (gv d s 0)) rs.stCount] := by
  cases h with
  | ge _ => rfl
  | isa h1 => rw [hid] at h1; exact absurd h1 (by decide)
  | iea h1 => rw [hid] at h1; exact absurd h1 (by decide)
  | gs h1 => rw [hid] at h1; exact absurd h1 (by decide)
  | st h1 => rw [hid] at h1; exact absurd h1 (by decide)
  | se h1 => rw [hid] at h1; exact absurd h1 (by decide)
  | plain _ _ _ h4 => exact absurd hid h4

theorem midX_st {d : Delims} {s : Seg} {rs : Envelope.RState} {pops mid : List Event} (h : MidX d s rs pops mid)
    (hid : s.id = Envelope.idST) : mid = .addSt (stData d s rs) :: pops := by
  cases h with
  | st _ => rfl
  | isa h1 => rw [hid] at h1; exact absurd h1 (by decide)
  | iea h1 => rw [hid] at h1; exact absurd h1 (by decide)
  | gs h1 => rw [hid] at h1; exact absurd h1 (by decide)
  | ge h1 => rw [hid] at h1; exact absurd h1 (by decide)
  | se h1 => rw [hid] at h1; exact absurd h1 (by decide)
  | plain _ _ _ _ h5 => exact absurd hid h5

theorem midX_se {d : Delims} {s : Seg} {rs : Envelope.RState} {pops mid : List Event} (h : MidX d s rs pops mid)
    (hid : s.id = Envelope.idSE) : mid = pops ++ [.closeSt] := by
  cases h with
  | se _ => rfl
  | isa h1 => rw [hid] at h1; exact absurd h1 (by decide)
  | iea h1 => rw [hid] at h1; exact absurd h1 (by decide)
  | gs h1 => rw [hid] at h1; exact absurd h1 (by decide)
  | ge h1 => rw [hid] at h1; exact absurd h1 (by decide)
  | st h1 => rw [hid] at h1; exact absurd h1 (by decide)
  | plain _ _ _ _ _ h6 => exact absurd hid h6

theorem midX_plain {d : Delims} {s : Seg} {rs : Envelope.RState} {pops mid : List Event} (h : MidX d s rs pops mid)
    (hid : Envelope.isEnvId s.id = false) : mid = .addSeg s.id rs.segCount none :: pops := by
  obtain ⟨e1, e2, e3, e4, e5, e6⟩ := Envelope.not_env hid
  cases h with
  | plain => rfl
  | isa h1 => exact absurd h1 e1
  | iea h1 => exact absurd h1 e2
  | gs h1 => exact absurd h1 e3
  | ge h1 => exact absurd h1 e4
  | st h1 => exact absurd h1 e5
  | se h1 => exact absurd h1 e6

/-! ### a property of every event of a list -/

theorem walk_all {P : Event → Prop} {w : List Event} (h : WalkOnly w) (h1 : ∀ a b c, P (.addSeg a b c))
    (h2 : ∀ c v, P (.segError c v)) : ∀ e ∈ w, P e := by
  intro e he
  have := h e he
  cases e <;> simp [isWalk] at this
  · exact h1 _ _ _
  · exact h2 _ _

theorem rd_all {P : Event → Prop} {w : List Event} (h : RdOnly w) (h1 : ∀ c, P (.isaError c)) (h2 : ∀ c, P (.gsError c))
    (h3 : ∀ c, P (.stError c)) (h4 : ∀ c v, P (.segError c v)) : ∀ e ∈ w, P e := by
  intro e he
  have := h e he
  cases e <;> simp [isRd] at this
  · exact h1 _
  · exact h2 _
  · exact h3 _
  · exact h4 _ _

theorem ele_all {P : Event → Prop} {w : List Event} (h : EleOnly w) (h1 : ∀ a b c, P (.addEle a b c))
    (h2 : ∀ c m v, P (.eleError c m v)) : ∀ e ∈ w, P e := by
  intro e he
  rcases isEle_cases (h e he) with ⟨a, b, c, rfl⟩ | ⟨c, m, v, rfl⟩
  · exact h1 _ _ _
  · exact h2 _ _ _

theorem filterMap_none {α β : Type} (f : α → Option β) (l : List α) (h : ∀ x ∈ l, f x = none) : l.filterMap f = [] := by
  induction l with
  | nil => rfl
  | cons a r ih => simp [h a (by simp), ih (fun x hx => h x (by simp [hx]))]

theorem filter_none {α : Type} (f : α → Bool) (l : List α) (h : ∀ x ∈ l, f x = false) : l.filter f = [] := by
  rw [List.filter_eq_nil_iff]; intro x hx; simp [h x hx]

/-! ### names -/

def docName (d : Delims) (s : Seg) : Option C05.Name :=
  if s.id = Envelope.idGS then some (.gs (some (Ack.pyStr (gv d s 0))) (some (Ack.pyStr (gv d s 5))))
  else if s.id = Envelope.idST then some (.st (gv d s 0) ((gv d s 1).map Ack.strip))
  else none

/-- what the GS and ST segments say, in order: GS01 / GS06, ST01 / ST02 -/
def docNames (d : Delims) (segs : List Seg) : List C05.Name := segs.filterMap (docName d)

theorem walk_names {w : List Event} (h : WalkOnly w) : w.filterMap evName = [] :=
  filterMap_none _ _ (walk_all (P := fun e => evName e = none) h (fun _ _ _ => rfl) (fun _ _ => rfl))
theorem rd_names {w : List Event} (h : RdOnly w) : w.filterMap evName = [] :=
  filterMap_none _ _ (rd_all (P := fun e => evName e = none) h (fun _ => rfl) (fun _ => rfl) (fun _ => rfl) (fun _ _ => rfl))
theorem ele_names {w : List Event} (h : EleOnly w) : w.filterMap evName = [] :=
  filterMap_none _ _ (ele_all (P := fun e => evName e = none) h (fun _ _ _ => rfl) (fun _ _ _ => rfl))

theorem midX_names {d : Delims} {s : Seg} {rs : Envelope.RState} {pops mid : List Event} (h : MidX d s rs pops mid)
    (hp : RdOnly pops) (hg : s.id = Envelope.idGS → loopId .gs rs = gv d s 5)
    (hs : s.id = Envelope.idST → loopId .st rs = gv d s 1) : mid.filterMap evName = (docName d s).toList := by
  have hpn := rd_names hp
  cases h with
  | isa hid => simp [List.filterMap_cons, evName, hpn, docName, hid, Envelope.idISA, Envelope.idGS, Envelope.idST]
  | iea hid => simp [List.filterMap_append, evName, hpn, docName, hid, Envelope.idIEA, Envelope.idGS, Envelope.idST]
  | gs hid =>
    simp only [List.filterMap_cons, evName, hpn, docName, hid, if_true, Option.toList, gsData]
    rw [hg hid]
  | ge hid => simp [List.filterMap_append, evName, hpn, docName, hid, Envelope.idGE, Envelope.idGS, Envelope.idST]
  | st hid =>
    have : ¬ s.id = Envelope.idGS := by rw [hid]; decide
    simp only [List.filterMap_cons, evName, hpn, docName, hid, if_true, Option.toList, stData]
    rw [hs hid]
    simp [Envelope.idST, Envelope.idGS]
  | se hid => simp [List.filterMap_append, evName, hpn, docName, hid, Envelope.idSE, Envelope.idGS, Envelope.idST]
  | plain h1 h2 h3 h4 h5 h6 => simp [List.filterMap_cons, evName, hpn, docName, h3, h5]

theorem round_names {d : Delims} {s : Seg} {st1 : LState} {o : SegOut} (hsid : o.sid = s.id)
    (hcase : (o.matched = false ∧ WalkOnly o.events) ∨ (o.matched = true ∧ MatchedAt d s st1 o))
    (hm : Envelope.isEnvId o.sid = true → o.matched = true) : o.events.filterMap evName = (docName d s).toList := by
  rcases hcase with ⟨hf, hw⟩ | ⟨_, w, mid, tl, pops, rs', hev, hw, htl, hp, hmid, _, hg, hs⟩
  · rw [walk_names hw]
    have : Envelope.isEnvId s.id = false := by
      cases he : Envelope.isEnvId s.id with
      | false => rfl
      | true => rw [hsid] at hm; rw [hm he] at hf; cases hf
    obtain ⟨_, _, e3, _, e5, _⟩ := Envelope.not_env this
    simp [docName, e3, e5]
  · rw [hev, List.filterMap_append, List.filterMap_append, walk_names hw, ele_names htl, midX_names hmid hp hg hs]
    simp

theorem trace_names {ms : Maps} {ctx : Ctx} {control : MapX} {d : Delims} {st st' : LState}
    {ps : List (List SegText.RErr × Seg)} {outs : List SegOut} (h : Trace ms ctx control d st ps outs st')
    (l : Envelope.Level) (hl : Envelope.LoopsAt l st.rs) (hn : Envelope.nestedFrom l (views d ps) = true)
    (hm : EnvMatched outs) : (evsOf outs).filterMap evName = docNames d (ps.map (fun p => p.2)) := by
  induction h generalizing l with
  | nil st => rfl
  | cons st st1 st2 p ps o outs hs _ ih =>
    obtain ⟨l1, hn1, hn2⟩ := nested_cons hn
    obtain ⟨a1, a2, _, _, _, a6⟩ := round_nested ms ctx control d p.1 p.2 st st1 o l l1 hs hl hn1
    rw [evsOf_cons, List.filterMap_append, ih l1 a1 hn2 (fun x hx => hm x (by simp [hx])),
      round_names a2 a6 (hm o (by simp))]
    simp only [docNames, List.map_cons, List.filterMap_cons]
    cases docName d p.2 <;> rfl

/-! ### counts -/

def isST (s : Seg) : Bool := s.id == Envelope.idST
def isGS (s : Seg) : Bool := s.id == Envelope.idGS

theorem midX_counts {d : Delims} {s : Seg} {rs : Envelope.RState} {pops mid : List Event} (h : MidX d s rs pops mid)
    (hp : RdOnly pops) :
    (mid.filter evAddSt).length = (if isST s then 1 else 0) ∧ (mid.filter evAddGs).length = (if isGS s then 1 else 0) := by
  have p1 : pops.filter evAddSt = [] :=
    filter_none _ _ (rd_all (P := fun e => evAddSt e = false) hp (fun _ => rfl) (fun _ => rfl) (fun _ => rfl) (fun _ _ => rfl))
  have p2 : pops.filter evAddGs = [] :=
    filter_none _ _ (rd_all (P := fun e => evAddGs e = false) hp (fun _ => rfl) (fun _ => rfl) (fun _ => rfl) (fun _ _ => rfl))
  cases h with
  | isa hid => simp [evAddSt, evAddGs, p1, p2, isST, isGS, hid, Envelope.idISA, Envelope.idGS, Envelope.idST]
  | iea hid => simp [List.filter_append, evAddSt, evAddGs, p1, p2, isST, isGS, hid, Envelope.idIEA, Envelope.idGS, Envelope.idST]
  | gs hid => simp [List.filter_cons, evAddSt, evAddGs, p1, p2, isST, isGS, hid, Envelope.idGS, Envelope.idST]
  | ge hid => simp [List.filter_append, evAddSt, evAddGs, p1, p2, isST, isGS, hid, Envelope.idGE, Envelope.idGS, Envelope.idST]
  | st hid => simp [List.filter_cons, evAddSt, evAddGs, p1, p2, isST, isGS, hid, Envelope.idGS, Envelope.idST]
  | se hid => simp [List.filter_append, evAddSt, evAddGs, p1, p2, isST, isGS, hid, Envelope.idSE, Envelope.idGS, Envelope.idST]
  | plain h1 h2 h3 h4 h5 h6 => simp [evAddSt, evAddGs, p1, p2, isST, isGS, h3, h5]

theorem round_counts {d : Delims} {s : Seg} {st1 : LState} {o : SegOut} (hsid : o.sid = s.id)
    (hcase : (o.matched = false ∧ WalkOnly o.events) ∨ (o.matched = true ∧ MatchedAt d s st1 o))
    (hm : Envelope.isEnvId o.sid = true → o.matched = true) :
    (o.events.filter evAddSt).length = (if isST s then 1 else 0) ∧
      (o.events.filter evAddGs).length = (if isGS s then 1 else 0) := by
  have wq : ∀ w : List Event, WalkOnly w → w.filter evAddSt = [] ∧ w.filter evAddGs = [] := fun w hw =>
    ⟨filter_none _ _ (walk_all (P := fun e => evAddSt e = false) hw (fun _ _ _ => rfl) (fun _ _ => rfl)),
     filter_none _ _ (walk_all (P := fun e => evAddGs e = false) hw (fun _ _ _ => rfl) (fun _ _ => rfl))⟩
  rcases hcase with ⟨hf, hw⟩ | ⟨_, w, mid, tl, pops, rs', hev, hw, htl, hp, hmid, _, _, _⟩
  · have : Envelope.isEnvId s.id = false := by
      cases he : Envelope.isEnvId s.id with
      | false => rfl
      | true => rw [hsid] at hm; rw [hm he] at hf; cases hf
    obtain ⟨_, _, e3, _, e5, _⟩ := Envelope.not_env this
    rw [(wq _ hw).1, (wq _ hw).2]
    simp [isST, isGS, e3, e5]
  · have t1 : tl.filter evAddSt = [] :=
      filter_none _ _ (ele_all (P := fun e => evAddSt e = false) htl (fun _ _ _ => rfl) (fun _ _ _ => rfl))
    have t2 : tl.filter evAddGs = [] :=
      filter_none _ _ (ele_all (P := fun e => evAddGs e = false) htl (fun _ _ _ => rfl) (fun _ _ _ => rfl))
    obtain ⟨m1, m2⟩ := midX_counts hmid hp
    rw [hev]
    simp only [List.filter_append, (wq _ hw).1, (wq _ hw).2, t1, t2, List.nil_append, List.append_nil]
    exact ⟨m1, m2⟩

/-- one `add_st_loop` per ST segment, one `add_gs_loop` per GS segment; the reader's set counter -/
theorem trace_counts {ms : Maps} {ctx : Ctx} {control : MapX} {d : Delims} {st st' : LState}
    {ps : List (List SegText.RErr × Seg)} {outs : List SegOut} (h : Trace ms ctx control d st ps outs st')
    (l : Envelope.Level) (hl : Envelope.LoopsAt l st.rs) (hn : Envelope.nestedFrom l (views d ps) = true)
    (hm : EnvMatched outs) :
    ((evsOf outs).filter evAddSt).length = ((ps.map (fun p => p.2)).filter isST).length ∧
      ((evsOf outs).filter evAddGs).length = ((ps.map (fun p => p.2)).filter isGS).length ∧
      ((∀ p ∈ ps, p.2.id ≠ Envelope.idGS) → st'.rs.stCount = st.rs.stCount + ((ps.map (fun p => p.2)).filter isST).length) := by
  induction h generalizing l with
  | nil st => exact ⟨rfl, rfl, fun _ => rfl⟩
  | cons st st1 st2 p ps o outs hs _ ih =>
    obtain ⟨l1, hn1, hn2⟩ := nested_cons hn
    obtain ⟨a1, a2, _, a4, a5, a6⟩ := round_nested ms ctx control d p.1 p.2 st st1 o l l1 hs hl hn1
    obtain ⟨i1, i2, i3⟩ := ih l1 a1 hn2 (fun x hx => hm x (by simp [hx]))
    obtain ⟨c1, c2⟩ := round_counts a2 a6 (hm o (by simp))
    refine ⟨?_, ?_, ?_⟩
    · rw [evsOf_cons, List.filter_append, List.length_append, c1, i1]
      simp only [List.map_cons, List.filter_cons]
      split <;> simp <;> omega
    · rw [evsOf_cons, List.filter_append, List.length_append, c2, i2]
      simp only [List.map_cons, List.filter_cons]
      split <;> simp <;> omega
    · intro hgs
      have hg0 : p.2.id ≠ Envelope.idGS := hgs p (by simp)
      rw [i3 (fun x hx => hgs x (by simp [hx]))]
      simp only [List.map_cons, List.filter_cons]
      by_cases hst : p.2.id = Envelope.idST
      · rw [a4 hst]; simp [isST, hst]; omega
      · rw [a5 hg0 hst]; simp [isST, hst]

/-! ### bodies -/

theorem levelAfter_body (d : Delims) : ∀ (ps : List (List SegText.RErr × Seg)),
    (∀ p ∈ ps, Envelope.isEnvId p.2.id = false) → levelAfter .inSt (views d ps) = some .inSt := by
  intro ps
  induction ps with
  | nil => intro _; rfl
  | cons p ps ih =>
    intro h
    have hp := h p (by simp)
    obtain ⟨_, _, _, _, _, e6⟩ := Envelope.not_env hp
    simp only [views, List.map_cons, levelAfter, Envelope.nestStep, viewD_id, e6, if_false, hp, Bool.false_eq_true]
    exact ih (fun x hx => h x (by simp [hx]))

/-- between ST and SE: no structural call -/
theorem trace_set_body {ms : Maps} {ctx : Ctx} {control : MapX} {d : Delims} {st st' : LState}
    {ps : List (List SegText.RErr × Seg)} {outs : List SegOut} (h : Trace ms ctx control d st ps outs st')
    (hb : ∀ p ∈ ps, Envelope.isEnvId p.2.id = false) : ∀ e ∈ evsOf outs, evStruct e = false := by
  induction h with
  | nil st => intro e he; cases he
  | cons st st1 st2 p ps o outs hs _ ih =>
    obtain ⟨v, rs', es, _, _, _, _, _, hcase⟩ := stepSeg_full ms ctx control d p.1 p.2 st st1 o hs
    have hp := hb p (by simp)
    intro e he
    rw [evsOf_cons] at he
    rcases List.mem_append.1 he with he | he
    · rcases hcase with ⟨_, hw, _, _⟩ | ⟨_, w, mid, tl, vv, n, sd, hev, hw, hmid, _, hse, _, _, _⟩
      · exact walk_all (P := fun e => evStruct e = false) hw (fun _ _ _ => rfl) (fun _ _ => rfl) e he
      · have htl := segEvents_eleOnly ctx n.map.v5010 d sd p.2
        rw [hse] at htl
        rw [hev, midX_plain hmid hp] at he
        simp only [List.mem_append, List.mem_cons] at he
        rcases he with (he | he | he) | he
        · exact walk_all (P := fun e => evStruct e = false) hw (fun _ _ _ => rfl) (fun _ _ => rfl) e he
        · subst he; rfl
        · exact rd_all (P := fun e => evStruct e = false) (map_rdEvent_rdOnly _) (fun _ => rfl) (fun _ => rfl)
            (fun _ => rfl) (fun _ _ => rfl) e he
        · exact ele_all (P := fun e => evStruct e = false) htl (fun _ _ _ => rfl) (fun _ _ _ => rfl) e he
    · exact ih (fun x hx => hb x (by simp [hx])) e he

/-- between GS and GE: no group-level call -/
theorem trace_group_body {ms : Maps} {ctx : Ctx} {control : MapX} {d : Delims} {st st' : LState}
    {ps : List (List SegText.RErr × Seg)} {outs : List SegOut} (h : Trace ms ctx control d st ps outs st')
    (hb : ∀ p ∈ ps, p.2.id ≠ Envelope.idGS ∧ p.2.id ≠ Envelope.idGE) : ∀ e ∈ evsOf outs, evGsLevel e = false := by
  induction h with
  | nil st => intro e he; cases he
  | cons st st1 st2 p ps o outs hs _ ih =>
    obtain ⟨v, rs', es, _, _, _, _, _, hcase⟩ := stepSeg_full ms ctx control d p.1 p.2 st st1 o hs
    obtain ⟨hp1, hp2⟩ := hb p (by simp)
    intro e he
    rw [evsOf_cons] at he
    rcases List.mem_append.1 he with he | he
    · rcases hcase with ⟨_, hw, _, _⟩ | ⟨_, w, mid, tl, vv, n, sd, hev, hw, hmid, _, hse, _, _, _⟩
      · exact walk_all (P := fun e => evGsLevel e = false) hw (fun _ _ _ => rfl) (fun _ _ => rfl) e he
      · have htl := segEvents_eleOnly ctx n.map.v5010 d sd p.2
        rw [hse] at htl
        have hpops : ∀ x ∈ (st.pend ++ p.1.map lineErr ++ baseErrs p.2 ++ es.map envErr).map rdEvent, evGsLevel x = false :=
          rd_all (P := fun e => evGsLevel e = false) (map_rdEvent_rdOnly _) (fun _ => rfl) (fun _ => rfl)
            (fun _ => rfl) (fun _ _ => rfl)
        rw [hev] at he
        simp only [List.mem_append] at he
        rcases he with (he | he) | he
        · exact walk_all (P := fun e => evGsLevel e = false) hw (fun _ _ _ => rfl) (fun _ _ => rfl) e he
        · cases hmid with
          | isa _ => rcases List.mem_cons.1 he with rfl | he; rfl; exact hpops e he
          | iea _ => rcases List.mem_append.1 he with he | he; exact hpops e he; simp at he; subst he; rfl
          | gs hid => exact absurd hid hp1
          | ge hid => exact absurd hid hp2
          | st _ => rcases List.mem_cons.1 he with rfl | he; rfl; exact hpops e he
          | se _ => rcases List.mem_append.1 he with he | he; exact hpops e he; simp at he; subst he; rfl
          | plain => rcases List.mem_cons.1 he with rfl | he; rfl; exact hpops e he
        · exact ele_all (P := fun e => evGsLevel e = false) htl (fun _ _ _ => rfl) (fun _ _ _ => rfl) e he
    · exact ih (fun x hx => hb x (by simp [hx])) e he

/-! ### what follows a trailer -/

theorem NoReclose.prepend {p0 post : List Event} (h : NoReclose post)
    (hp : ∀ e ∈ p0, evCloseSt e = false ∧ evAddSt e = false) : NoReclose (p0 ++ post) := by
  obtain ⟨p, rest, rfl, h1, h2⟩ := h
  refine ⟨p0 ++ p, rest, by simp, ?_, h2⟩
  intro e he
  rcases List.mem_append.1 he with he | he
  · exact hp e he
  · exact h1 e he

theorem NoRegroup.prepend {p0 post : List Event} (h : NoRegroup post)
    (hp : ∀ e ∈ p0, evGsLevel e = false ∧ evAddSt e = false) : NoRegroup (p0 ++ post) := by
  obtain ⟨p, rest, rfl, h1, h2⟩ := h
  refine ⟨p0 ++ p, rest, by simp, ?_, h2⟩
  intro e he
  rcases List.mem_append.1 he with he | he
  · exact hp e he
  · exact h1 e he

def QSt (e : Event) : Prop := evCloseSt e = false ∧ evAddSt e = false
def QGs (e : Event) : Prop := evGsLevel e = false ∧ evAddSt e = false

theorem walk_QSt {w : List Event} (h : WalkOnly w) : ∀ e ∈ w, QSt e :=
  walk_all (P := QSt) h (fun _ _ _ => ⟨rfl, rfl⟩) (fun _ _ => ⟨rfl, rfl⟩)
theorem rd_QSt {w : List Event} (h : RdOnly w) : ∀ e ∈ w, QSt e :=
  rd_all (P := QSt) h (fun _ => ⟨rfl, rfl⟩) (fun _ => ⟨rfl, rfl⟩) (fun _ => ⟨rfl, rfl⟩) (fun _ _ => ⟨rfl, rfl⟩)
theorem ele_QSt {w : List Event} (h : EleOnly w) : ∀ e ∈ w, QSt e :=
  ele_all (P := QSt) h (fun _ _ _ => ⟨rfl, rfl⟩) (fun _ _ _ => ⟨rfl, rfl⟩)
theorem walk_QGs {w : List Event} (h : WalkOnly w) : ∀ e ∈ w, QGs e :=
  walk_all (P := QGs) h (fun _ _ _ => ⟨rfl, rfl⟩) (fun _ _ => ⟨rfl, rfl⟩)
theorem rd_QGs {w : List Event} (h : RdOnly w) : ∀ e ∈ w, QGs e :=
  rd_all (P := QGs) h (fun _ => ⟨rfl, rfl⟩) (fun _ => ⟨rfl, rfl⟩) (fun _ => ⟨rfl, rfl⟩) (fun _ _ => ⟨rfl, rfl⟩)
theorem ele_QGs {w : List Event} (h : EleOnly w) : ∀ e ∈ w, QGs e :=
  ele_all (P := QGs) h (fun _ _ _ => ⟨rfl, rfl⟩) (fun _ _ _ => ⟨rfl, rfl⟩)

theorem all_append3 {P : Event → Prop} {a b c : List Event} (ha : ∀ e ∈ a, P e) (hb : ∀ e ∈ b, P e) (hc : ∀ e ∈ c, P e) :
    ∀ e ∈ a ++ b ++ c, P e := by
  intro e he
  simp only [List.mem_append] at he
  rcases he with (he | he) | he
  · exact ha e he
  · exact hb e he
  · exact hc e he

theorem all_cons {P : Event → Prop} {x : Event} {l : List Event} (hx : P x) (hl : ∀ e ∈ l, P e) : ∀ e ∈ x :: l, P e := by
  intro e he
  rcases List.mem_cons.1 he with rfl | he
  · exact hx
  · exact hl e he

theorem all_snoc {P : Event → Prop} {x : Event} {l : List Event} (hx : P x) (hl : ∀ e ∈ l, P e) : ∀ e ∈ l ++ [x], P e := by
  intro e he
  rcases List.mem_append.1 he with he | he
  · exact hl e he
  · simp at he; subst he; exact hx

theorem matched_of_env {d : Delims} {s : Seg} {st1 : LState} {o : SegOut} (hsid : o.sid = s.id)
    (hcase : (o.matched = false ∧ WalkOnly o.events) ∨ (o.matched = true ∧ MatchedAt d s st1 o))
    (hm : Envelope.isEnvId o.sid = true → o.matched = true) (henv : Envelope.isEnvId s.id = true) : MatchedAt d s st1 o := by
  rcases hcase with ⟨hf, _⟩ | ⟨_, h⟩
  · rw [hsid] at hm; rw [hm henv] at hf; cases hf
  · exact h

/-- after an SE (or anywhere outside a set): no second `close_st_loop` before the next `add_st_loop` -/
theorem trace_noReclose {ms : Maps} {ctx : Ctx} {control : MapX} {d : Delims} {st st' : LState}
    {ps : List (List SegText.RErr × Seg)} {outs : List SegOut} (h : Trace ms ctx control d st ps outs st')
    (l : Envelope.Level) (hl : Envelope.LoopsAt l st.rs) (hn : Envelope.nestedFrom l (views d ps) = true)
    (hm : EnvMatched outs) (hne : l ≠ .inSt) (fin : List Event) (hfin : RdOnly fin) : NoReclose (evsOf outs ++ fin) := by
  induction h generalizing l with
  | nil st => exact ⟨fin, [], by simp [evsOf], rd_QSt hfin, Or.inl rfl⟩
  | cons st st1 st2 p ps o outs hs _ ih =>
    obtain ⟨l1, hn1, hn2⟩ := nested_cons hn
    obtain ⟨a1, a2, _, _, _, a6⟩ := round_nested ms ctx control d p.1 p.2 st st1 o l l1 hs hl hn1
    have hm' : EnvMatched outs := fun x hx => hm x (by simp [hx])
    rw [evsOf_cons, List.append_assoc]
    have hvid := viewD_id d p.2
    -- which segment, at which level
    cases l with
    | inSt => exact absurd rfl hne
    | top =>
      simp only [Envelope.nestStep, hvid] at hn1
      split at hn1
      · rename_i hid
        injection hn1 with hn1; subst hn1
        obtain ⟨w, mid, tl, pops, rs', hev, hw, htl, hp, hmid, _⟩ :=
          matched_of_env a2 a6 (hm o (by simp)) (by rw [hid]; decide)
        rw [hev, midX_isa hmid hid]
        exact NoReclose.prepend (ih .inIsa a1 hn2 hm' (by decide))
          (all_append3 (walk_QSt hw) (all_cons ⟨rfl, rfl⟩ (rd_QSt hp)) (ele_QSt htl))
      · cases hn1
    | inIsa =>
      simp only [Envelope.nestStep, hvid] at hn1
      split at hn1
      · rename_i hid
        injection hn1 with hn1; subst hn1
        obtain ⟨w, mid, tl, pops, rs', hev, hw, htl, hp, hmid, _⟩ :=
          matched_of_env a2 a6 (hm o (by simp)) (by rw [hid]; decide)
        rw [hev, midX_gs hmid hid]
        exact NoReclose.prepend (ih .inGs a1 hn2 hm' (by decide))
          (all_append3 (walk_QSt hw) (all_cons ⟨rfl, rfl⟩ (rd_QSt hp)) (ele_QSt htl))
      · split at hn1
        · rename_i hid
          injection hn1 with hn1; subst hn1
          obtain ⟨w, mid, tl, pops, rs', hev, hw, htl, hp, hmid, _⟩ :=
            matched_of_env a2 a6 (hm o (by simp)) (by rw [hid]; decide)
          rw [hev, midX_iea hmid hid]
          exact NoReclose.prepend (ih .top a1 hn2 hm' (by decide))
            (all_append3 (walk_QSt hw) (all_snoc ⟨rfl, rfl⟩ (rd_QSt hp)) (ele_QSt htl))
        · cases hn1
    | inGs =>
      simp only [Envelope.nestStep, hvid] at hn1
      split at hn1
      · rename_i hid
        obtain ⟨w, mid, tl, pops, rs', hev, hw, htl, hp, hmid, _⟩ :=
          matched_of_env a2 a6 (hm o (by simp)) (by rw [hid]; decide)
        rw [hev, midX_st hmid hid]
        refine ⟨w, .addSt (stData d p.2 rs') :: (pops ++ tl ++ (evsOf outs ++ fin)), by simp, walk_QSt hw,
          Or.inr ⟨_, _, rfl⟩⟩
      · split at hn1
        · rename_i hid
          injection hn1 with hn1; subst hn1
          obtain ⟨w, mid, tl, pops, rs', hev, hw, htl, hp, hmid, _⟩ :=
            matched_of_env a2 a6 (hm o (by simp)) (by rw [hid]; decide)
          rw [hev, midX_ge hmid hid]
          exact NoReclose.prepend (ih .inIsa a1 hn2 hm' (by decide))
            (all_append3 (walk_QSt hw) (all_snoc ⟨rfl, rfl⟩ (rd_QSt hp)) (ele_QSt htl))
        · cases hn1

/-- after a GE (or anywhere outside a group): neither `close_gs_loop` nor `add_st_loop` before the next `add_gs_loop` -/
theorem trace_noRegroup {ms : Maps} {ctx : Ctx} {control : MapX} {d : Delims} {st st' : LState}
    {ps : List (List SegText.RErr × Seg)} {outs : List SegOut} (h : Trace ms ctx control d st ps outs st')
    (l : Envelope.Level) (hl : Envelope.LoopsAt l st.rs) (hn : Envelope.nestedFrom l (views d ps) = true)
    (hm : EnvMatched outs) (hlv : l = .top ∨ l = .inIsa) (fin : List Event) (hfin : RdOnly fin) :
    NoRegroup (evsOf outs ++ fin) := by
  induction h generalizing l with
  | nil st => exact ⟨fin, [], by simp [evsOf], rd_QGs hfin, Or.inl rfl⟩
  | cons st st1 st2 p ps o outs hs _ ih =>
    obtain ⟨l1, hn1, hn2⟩ := nested_cons hn
    obtain ⟨a1, a2, _, _, _, a6⟩ := round_nested ms ctx control d p.1 p.2 st st1 o l l1 hs hl hn1
    have hm' : EnvMatched outs := fun x hx => hm x (by simp [hx])
    rw [evsOf_cons, List.append_assoc]
    have hvid := viewD_id d p.2
    rcases hlv with rfl | rfl
    · simp only [Envelope.nestStep, hvid] at hn1
      split at hn1
      · rename_i hid
        injection hn1 with hn1; subst hn1
        obtain ⟨w, mid, tl, pops, rs', hev, hw, htl, hp, hmid, _⟩ :=
          matched_of_env a2 a6 (hm o (by simp)) (by rw [hid]; decide)
        rw [hev, midX_isa hmid hid]
        exact NoRegroup.prepend (ih .inIsa a1 hn2 hm' (Or.inr rfl))
          (all_append3 (walk_QGs hw) (all_cons ⟨rfl, rfl⟩ (rd_QGs hp)) (ele_QGs htl))
      · cases hn1
    · simp only [Envelope.nestStep, hvid] at hn1
      split at hn1
      · rename_i hid
        obtain ⟨w, mid, tl, pops, rs', hev, hw, htl, hp, hmid, _⟩ :=
          matched_of_env a2 a6 (hm o (by simp)) (by rw [hid]; decide)
        rw [hev, midX_gs hmid hid]
        exact ⟨w, .addGs (gsData d p.2 rs') :: (pops ++ tl ++ (evsOf outs ++ fin)), by simp, walk_QGs hw,
          Or.inr ⟨_, _, rfl⟩⟩
      · split at hn1
        · rename_i hid
          injection hn1 with hn1; subst hn1
          obtain ⟨w, mid, tl, pops, rs', hev, hw, htl, hp, hmid, _⟩ :=
            matched_of_env a2 a6 (hm o (by simp)) (by rw [hid]; decide)
          rw [hev, midX_iea hmid hid]
          exact NoRegroup.prepend (ih .top a1 hn2 hm' (Or.inl rfl))
            (all_append3 (walk_QGs hw) (all_snoc ⟨rfl, rfl⟩ (rd_QGs hp)) (ele_QGs htl))
        · cases hn1

end Pyx12Verif.Doc
