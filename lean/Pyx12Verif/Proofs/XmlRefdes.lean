/- C08 helper lemmas: the reference designators of well-formed element / sub-element ids parse to the position they
   name (`Path.parse`), hence `Segment.get` / `Segment.set` address that position. -/
import Pyx12Verif.Spec.XmlSpec

namespace Pyx12Verif.Xml
open Pyx12Verif.Path Pyx12Verif.Segment

/-! ### characters -/

theorem digit_ne (c d : Char) (h : isDigit c = true) (hd : isDigit d = false) : c ≠ d := by
  intro e; subst e; simp [h] at hd

theorem idChar_ne (c d : Char) (h : isIdChar c = true) (hd : isIdChar d = false) : c ≠ d := by
  intro e; subst e; simp [h] at hd

theorem upper_ne (c d : Char) (h : isUpper c = true) (hd : isUpper d = false) : c ≠ d := by
  intro e; subst e; simp [h] at hd

theorem digit_idChar (c : Char) (h : isDigit c = true) : isIdChar c = true := by simp [isIdChar, h]
theorem upper_idChar (c : Char) (h : isUpper c = true) : isIdChar c = true := by simp [isIdChar, h]

theorem spanP_all (p : Char → Bool) : ∀ (ds : List Char), (∀ c ∈ ds, p c = true) → spanP p ds = (ds, [])
  | [], _ => rfl
  | c :: r, h => by
    have hc : p c = true := h c (by simp)
    have hr := spanP_all p r (fun x hx => h x (by simp [hx]))
    simp [spanP, hc, hr]

/-! ### `'%02i' % n` -/

theorem pad2_eq : ∀ n, n < 100 → pad2 n = [digitChar (n / 10), digitChar (n % 10)] := by decide

theorem digitChar_digit : ∀ k, k < 10 → isDigit (digitChar k) = true := by decide

theorem num_two : ∀ a, a < 10 → ∀ b, b < 10 → num [digitChar a, digitChar b] = a * 10 + b := by decide

/-- an element index alone (`'%02i' % (i + 1)`, what `seg()` passes to `Segment.get`) -/
theorem parse_pad2 : ∀ n, n < 100 → parse (pad2 n) = some ⟨true, [], none, none, some n, none⟩ := by decide

/-! ### the tail of a designator: two digits, optionally `-` and digits -/

theorem matchSub_nil : matchSub [] = some none := rfl

theorem matchSub_dash (ds : List Char) (hne : ds ≠ []) (hd : ∀ c ∈ ds, isDigit c = true) :
    matchSub ('-' :: ds) = some (some (num ds)) := by
  have he : ds.isEmpty = false := by cases ds <;> simp_all
  simp [matchSub, subGroup, spanP_all isDigit ds hd, he, atEnd]

/-- the possible tails -/
inductive Tail
  | none
  | sub (ds : List Char)

def Tail.text : Tail → List Char
  | .none => []
  | .sub ds => '-' :: ds

def Tail.val : Tail → Option Nat
  | .none => Option.none
  | .sub ds => some (num ds)

def Tail.ok : Tail → Prop
  | .none => True
  | .sub ds => ds ≠ [] ∧ ∀ c ∈ ds, isDigit c = true

theorem matchSub_tail (t : Tail) (h : t.ok) : matchSub t.text = some t.val := by
  cases t with
  | none => rfl
  | sub ds => exact matchSub_dash ds h.1 h.2

theorem matchQual_digits (d1 d2 : Char) (h1 : isDigit d1 = true) (h2 : isDigit d2 = true) (t : Tail) (h : t.ok) :
    matchQual (d1 :: d2 :: t.text) = some ⟨none, none, some (num [d1, d2]), t.val⟩ := by
  have n1 : d1 ≠ '[' := digit_ne d1 '[' h1 (by decide)
  simp [matchQual, qualGroup, n1, matchEle, eleGroup, h1, h2, matchSub_tail t h]

/-- one digit too few for the element index: no match (this is what makes the greedy three-character seg-id attempt on a
    two-character id fail) -/
theorem matchQual_short (d2 : Char) (h2 : isDigit d2 = true) (t : Tail) : matchQual (d2 :: t.text) = none := by
  have n1 : d2 ≠ '[' := digit_ne d2 '[' h2 (by decide)
  have n2 : d2 ≠ '-' := digit_ne d2 '-' h2 (by decide)
  have n3 : d2 ≠ '\n' := digit_ne d2 '\n' h2 (by decide)
  cases t with
  | none => simp [Tail.text, matchQual, qualGroup, n1, matchEle, eleGroup, matchSub, subGroup, n2, atEnd, n3]
  | sub ds =>
    have nd : isDigit '-' = false := by decide
    simp [Tail.text, matchQual, qualGroup, n1, matchEle, eleGroup, matchSub, subGroup, n2, atEnd, nd, h2]

/-! ### segment id + tail -/

theorem segIdOK_cases (sid : Str) (h : segIdOK sid = true) :
    (∃ a b, sid = [a, b] ∧ isUpper a = true ∧ isIdChar b = true) ∨
    (∃ a b c, sid = [a, b, c] ∧ isUpper a = true ∧ isIdChar b = true ∧ isIdChar c = true) := by
  simp only [segIdOK, Bool.and_eq_true, Bool.or_eq_true, beq_iff_eq] at h
  obtain ⟨hl, hs⟩ := h
  match sid, hl, hs with
  | [a, b], _, hs => left; exact ⟨a, b, rfl, by simpa [segShape] using hs⟩
  | [a, b, c], _, hs => right; exact ⟨a, b, c, rfl, by simpa [segShape, and_assoc] using hs⟩
  | [], hl, _ => simp at hl
  | [_], hl, _ => simp at hl
  | _ :: _ :: _ :: _ :: _, hl, _ => simp at hl

theorem matchLast_desig (sid : Str) (hs : segIdOK sid = true) (d1 d2 : Char) (h1 : isDigit d1 = true) (h2 : isDigit d2 = true)
    (t : Tail) (h : t.ok) :
    matchLast (sid ++ d1 :: d2 :: t.text) = some ⟨some sid, none, some (num [d1, d2]), t.val⟩ := by
  rcases segIdOK_cases sid hs with ⟨a, b, rfl, ha, hb⟩ | ⟨a, b, c, rfl, ha, hb, hc⟩
  · have hd1 := digit_idChar d1 h1
    simp [matchLast, trySeg, segShape, ha, hb, hd1, matchQual_short d2 h2 t, matchQual_digits d1 d2 h1 h2 t h, withSeg]
  · simp [matchLast, trySeg, segShape, ha, hb, hc, matchQual_digits d1 d2 h1 h2 t h, withSeg]

theorem tail_no_slash (t : Tail) (h : t.ok) : '/' ∉ t.text := by
  cases t with
  | none => simp [Tail.text]
  | sub ds =>
    simp only [Tail.text, List.mem_cons, not_or]
    exact ⟨by decide, fun hm => digit_ne '/' '/' (h.2 '/' hm) (by decide) rfl⟩

theorem splitOn_plain (sep : Char) : ∀ (a : Str), sep ∉ a → splitOn sep a = [a]
  | [], _ => rfl
  | c :: r, h => by
    have hc : c ≠ sep := fun e => h (by simp [e])
    have hr : sep ∉ r := fun e => h (by simp [e])
    simp [splitOn, hc, splitOn_plain sep r hr, consHead]

theorem sid_no_slash (sid : Str) (hs : segIdOK sid = true) : '/' ∉ sid ∧ ∃ a r, sid = a :: r ∧ a ≠ '/' := by
  have ns : isIdChar '/' = false := by decide
  rcases segIdOK_cases sid hs with ⟨a, b, rfl, ha, hb⟩ | ⟨a, b, c, rfl, ha, hb, hc⟩
  · have h1 := idChar_ne a '/' (upper_idChar a ha) ns
    have h2 := idChar_ne b '/' hb ns
    exact ⟨by simp [h1.symm, h2.symm], a, [b], rfl, h1⟩
  · have h1 := idChar_ne a '/' (upper_idChar a ha) ns
    have h2 := idChar_ne b '/' hb ns
    have h3 := idChar_ne c '/' hc ns
    exact ⟨by simp [h1.symm, h2.symm, h3.symm], a, [b, c], rfl, h1⟩

/-- **designators parse to their position**: segment id, two-digit element position, optional `-` sub-element position -/
theorem parse_desig (sid : Str) (hs : segIdOK sid = true) (n : Nat) (hn : n < 100) (t : Tail) (h : t.ok) :
    parse (sid ++ pad2 n ++ t.text) = some ⟨true, [], some sid, none, some n, t.val⟩ := by
  rw [pad2_eq n hn]
  have h1 := digitChar_digit (n / 10) (by omega)
  have h2 := digitChar_digit (n % 10) (by omega)
  have hnum : num [digitChar (n / 10), digitChar (n % 10)] = n := by rw [num_two _ (by omega) _ (by omega)]; omega
  obtain ⟨hns, a, r, rfl, ha⟩ := sid_no_slash sid hs
  have nsl : '/' ∉ ((a :: r) ++ [digitChar (n / 10), digitChar (n % 10)] ++ t.text) := by
    simp only [List.mem_append, not_or]
    refine ⟨⟨hns, ?_⟩, tail_no_slash t h⟩
    simp only [List.mem_cons, List.not_mem_nil, or_false, not_or]
    exact ⟨(digit_ne _ '/' h1 (by decide)).symm, (digit_ne _ '/' h2 (by decide)).symm⟩
  have hml := matchLast_desig (a :: r) hs _ _ h1 h2 t h
  rw [hnum] at hml
  have e : (a :: r) ++ [digitChar (n / 10), digitChar (n % 10)] ++ t.text
      = a :: (r ++ digitChar (n / 10) :: digitChar (n % 10) :: t.text) := by simp
  have e2 : (a :: r) ++ digitChar (n / 10) :: digitChar (n % 10) :: t.text
      = a :: (r ++ digitChar (n / 10) :: digitChar (n % 10) :: t.text) := by simp
  rw [e] at nsl ⊢
  rw [e2] at hml
  simp only [parse, ha, if_false]
  rw [splitOn_plain '/' _ nsl]
  simp [finish, hml, checkLast]

end Pyx12Verif.Xml
