/- C10 helper for the history-level refinement: where in the serialisation a node sits (`offset`), and every edit of
   the tree written as a list edit of the serialisation at an explicit index. -/
import Pyx12Verif.Model.DataTree
import Pyx12Verif.Proofs.DataTree

namespace Pyx12Verif.DataTree

/-! ## list surgery -/

/-- replace the `n` items from index `i` on by `new` -/
def splice {α : Type} (i n : Nat) (new : List α) (l : List α) : List α := l.take i ++ new ++ l.drop (i + n)

theorem splice_mid {α : Type} (l1 mid l2 new : List α) (i : Nat) (hi : l1.length = i) :
    splice i mid.length new (l1 ++ mid ++ l2) = l1 ++ new ++ l2 := by
  subst hi
  simp [splice, List.drop_append]

theorem window_mid {α : Type} (l1 mid l2 : List α) (i : Nat) (hi : l1.length = i) :
    ((l1 ++ mid ++ l2).drop i).take mid.length = mid := by
  subst hi
  simp

theorem getElem?_mid {α : Type} (l1 l2 : List α) (x : α) (i : Nat) (hi : l1.length = i) :
    (l1 ++ x :: l2)[i]? = some x := by
  subst hi; simp

theorem set_mid {α : Type} (l1 l2 : List α) (x y : α) (i : Nat) (hi : l1.length = i) :
    (l1 ++ x :: l2).set i y = l1 ++ y :: l2 := by
  subst hi; simp

theorem eraseIdx_mid {α : Type} (l1 l2 : List α) (x : α) (i : Nat) (hi : l1.length = i) :
    (l1 ++ x :: l2).eraseIdx i = l1 ++ l2 := by
  subst hi
  rw [List.eraseIdx_append_of_length_le (Nat.le_refl _)]
  simp

theorem insert_mid {α : Type} (l1 l2 new : List α) (i : Nat) (hi : l1.length = i) :
    (l1 ++ l2).take i ++ new ++ (l1 ++ l2).drop i = l1 ++ new ++ l2 := by
  subst hi; simp

theorem cut_mid {α : Type} (l1 mid l2 : List α) (i : Nat) (hi : l1.length = i) :
    (l1 ++ mid ++ l2).take i ++ (l1 ++ mid ++ l2).drop (i + mid.length) = l1 ++ l2 := by
  have := splice_mid l1 mid l2 [] i hi
  simpa [splice] using this

/-! ## position of a node in the serialisation -/

/-- number of segments serialised before the node at address `x` (document order) -/
def offset : List Nat → DNode → Nat
  | [], _ => 0
  | i :: r, .loop _ _ cs => match cs[i]? with
    | some c => (segsOfList (cs.take i)).length + offset r c
    | none => 0
  | _ :: _, .seg _ _ => 0
  | _ :: _, .dead => 0

/-- `segsOf_split` with the length of the part in front made explicit -/
theorem segsOf_split_off (x : List Nat) (t n : DNode) (h : getAt x t = some n) :
    ∃ l1 l2, l1.length = offset x t ∧ segsOf t = l1 ++ segsOf n ++ l2 ∧
      ∀ f, segsOf (modifyAt f x t) = l1 ++ segsOf (f n) ++ l2 := by
  induction x generalizing t with
  | nil =>
    simp [getAt] at h
    subst h
    exact ⟨[], [], by simp [offset], by simp, by intro f; simp [modifyAt]⟩
  | cons i r ih =>
    cases t with
    | seg d s => simp [getAt] at h
    | dead => simp [getAt] at h
    | loop hd mk cs =>
      rw [getAt_cons_loop] at h
      cases hc : cs[i]? with
      | none => simp [hc] at h
      | some c =>
        simp [hc] at h
        obtain ⟨l1, l2, h0, h1, h2⟩ := ih c h
        have hs := modify_split cs i id c hc
        refine ⟨segsOfList (cs.take i) ++ l1, l2 ++ segsOfList (cs.drop (i + 1)), ?_, ?_, ?_⟩
        · simp [offset, hc, h0]
        · simp only [segsOf]
          conv => lhs; rw [hs.1]
          simp [segsOfList_append, segsOfList_cons, h1, List.append_assoc]
        · intro f
          have hs2 := modify_split cs i (modifyAt f r) c hc
          simp only [modifyAt, segsOf]
          rw [hs2.2]
          simp [segsOfList_append, segsOfList_cons, h2 f, List.append_assoc]

/-- modifying the node at `x` replaces its window of the serialisation -/
theorem segsOf_modifyAt_splice (x : List Nat) (t n : DNode) (f : DNode → DNode) (h : getAt x t = some n) :
    segsOf (modifyAt f x t) = splice (offset x t) (segsOf n).length (segsOf (f n)) (segsOf t) := by
  obtain ⟨l1, l2, h0, h1, h2⟩ := segsOf_split_off x t n h
  rw [h2 f, h1, splice_mid l1 (segsOf n) l2 _ _ h0]

/-- the window of the serialisation that belongs to the node at `x` -/
theorem segsOf_window (x : List Nat) (t n : DNode) (h : getAt x t = some n) :
    ((segsOf t).drop (offset x t)).take (segsOf n).length = segsOf n := by
  obtain ⟨l1, l2, h0, h1, _⟩ := segsOf_split_off x t n h
  rw [h1, window_mid l1 (segsOf n) l2 _ h0]

/-! ## set_value -/

theorem segAt_some (t : DNode) (sa : List Nat) (s : Seg) (h : segAt t sa = some s) :
    ∃ d, getAt sa t = some (.seg d s) := by
  simp only [segAt] at h
  split at h
  · rename_i d s' hg
    simp at h; subst h; exact ⟨d, hg⟩
  · simp at h

/-- the segment at address `sa` is the `offset sa t`-th of the serialisation, and replacing it there replaces
that item and nothing else -/
theorem seg_at_offset (t : DNode) (sa : List Nat) (s : Seg) (h : segAt t sa = some s) :
    (segsOf t)[offset sa t]? = some s ∧
    ∀ s2, segsOf (modifyAt (putSeg s2) sa t) = (segsOf t).set (offset sa t) s2 := by
  obtain ⟨d, hg⟩ := segAt_some t sa s h
  obtain ⟨l1, l2, h0, h1, h2⟩ := segsOf_split_off sa t _ hg
  have h1' : segsOf t = l1 ++ s :: l2 := by simpa [segsOf] using h1
  refine ⟨by rw [h1']; exact getElem?_mid l1 l2 s _ h0, ?_⟩
  intro s2
  rw [h2, h1', set_mid l1 l2 s s2 _ h0]
  simp [putSeg, segsOf]

/-! ## insertion below a loop node -/

/-- index in the serialisation of the tree at which a child of position `pos` added to the loop at `a` (children
`cs`) starts -/
def insOff (t : DNode) (a : List Nat) (cs : List DNode) (pos : Nat) : Nat :=
  offset a t + (segsOfList ((cleanup cs).take (insertIdx pos (cleanup cs)))).length

theorem insert_at_offset (t : DNode) (a : List Nat) (hd : Hdr) (mk : List MNode) (cs : List DNode) (n : DNode)
    (h : getAt a t = some (.loop hd mk cs)) :
    segsOf (modifyAt (withKids (insertChild n cs)) a t) =
      (segsOf t).take (insOff t a cs (nodePos n)) ++ segsOf n ++ (segsOf t).drop (insOff t a cs (nodePos n)) := by
  obtain ⟨l1, l2, h0, h1, h2⟩ := segsOf_split_off a t _ h
  have hk : segsOfList cs = segsOfList ((cleanup cs).take (insertIdx (nodePos n) (cleanup cs))) ++
      segsOfList ((cleanup cs).drop (insertIdx (nodePos n) (cleanup cs))) := by
    rw [← segsOfList_cleanup cs]; exact segsOfList_take_drop _ _
  have h1' : segsOf t = (l1 ++ segsOfList ((cleanup cs).take (insertIdx (nodePos n) (cleanup cs)))) ++
      (segsOfList ((cleanup cs).drop (insertIdx (nodePos n) (cleanup cs))) ++ l2) := by
    rw [h1]; simp only [segsOf]; rw [hk]; simp
  rw [h2, h1', insert_mid _ _ _ (insOff t a cs (nodePos n)) (by simp [insOff, h0])]
  simp [withKids, segsOf, insertChild, segsOfList_insertAt]

/-! ## delete_segment -/

/-- number of segments in front of the first segment child equal to `sg` -/
def delFirstOff (sg : Seg) : List DNode → Option Nat
  | [] => none
  | .seg _ s :: r => if segEq s sg then some 0 else
      match delFirstOff sg r with
      | none => none
      | some k => some (k + 1)
  | .loop _ _ cs :: r =>
      match delFirstOff sg r with
      | none => none
      | some k => some (k + (segsOfList cs).length)
  | .dead :: r => delFirstOff sg r

def delAfterOff (sg : Seg) : List DNode → Option Nat
  | [] => none
  | c :: r => match delFirstOff sg r with
    | none => none
    | some k => some (k + (segsOf c).length)

theorem delFirst_off (sg : Seg) (cs : List DNode) :
    (delFirstEq sg cs = none ∧ delFirstOff sg cs = none) ∨
    (∃ cs2 k p s0 q, delFirstEq sg cs = some cs2 ∧ delFirstOff sg cs = some k ∧ segsOfList cs = p ++ s0 :: q ∧
        segsOfList cs2 = p ++ q ∧ p.length = k ∧ segEq s0 sg = true) := by
  induction cs with
  | nil => left; simp [delFirstEq, delFirstOff]
  | cons c r ih =>
    cases c with
    | seg d s =>
      by_cases he : segEq s sg = true
      · right
        exact ⟨r, 0, [], s, segsOfList r, by simp [delFirstEq, he], by simp [delFirstOff, he],
          by simp [segsOfList, segsOf], by simp, rfl, he⟩
      · rcases ih with ⟨h1, h2⟩ | ⟨cs2, k, p, s0, q, h1, h2, h3, h4, h5, h6⟩
        · left; simp [delFirstEq, delFirstOff, he, h1, h2]
        · right
          exact ⟨.seg d s :: cs2, k + 1, s :: p, s0, q, by simp [delFirstEq, he, h1], by simp [delFirstOff, he, h2],
            by simp [segsOfList, segsOf, h3], by simp [segsOfList, segsOf, h4], by simp [h5], h6⟩
    | loop hd mk cs' =>
      rcases ih with ⟨h1, h2⟩ | ⟨cs2, k, p, s0, q, h1, h2, h3, h4, h5, h6⟩
      · left; simp [delFirstEq, delFirstOff, h1, h2]
      · right
        exact ⟨.loop hd mk cs' :: cs2, k + (segsOfList cs').length, segsOfList cs' ++ p, s0, q,
          by simp [delFirstEq, h1], by simp [delFirstOff, h2],
          by simp [segsOfList, segsOf, h3], by simp [segsOfList, segsOf, h4], by simp [h5]; omega, h6⟩
    | dead =>
      rcases ih with ⟨h1, h2⟩ | ⟨cs2, k, p, s0, q, h1, h2, h3, h4, h5, h6⟩
      · left; simp [delFirstEq, delFirstOff, h1, h2]
      · right
        exact ⟨.dead :: cs2, k, p, s0, q, by simp [delFirstEq, h1], by simp [delFirstOff, h2],
          by simp [segsOfList, segsOf, h3], by simp [segsOfList, segsOf, h4], h5, h6⟩

theorem delAfter_off (sg : Seg) (cs : List DNode) :
    (delAfterFirst sg cs = none ∧ delAfterOff sg cs = none) ∨
    (∃ cs2 k p s0 q, delAfterFirst sg cs = some cs2 ∧ delAfterOff sg cs = some k ∧ segsOfList cs = p ++ s0 :: q ∧
        segsOfList cs2 = p ++ q ∧ p.length = k ∧ segEq s0 sg = true) := by
  cases cs with
  | nil => left; simp [delAfterFirst, delAfterOff]
  | cons c r =>
    rcases delFirst_off sg r with ⟨h1, h2⟩ | ⟨cs2, k, p, s0, q, h1, h2, h3, h4, h5, h6⟩
    · left; simp [delAfterFirst, delAfterOff, h1, h2]
    · right
      exact ⟨c :: cs2, k + (segsOf c).length, segsOf c ++ p, s0, q, by simp [delAfterFirst, h1],
        by simp [delAfterOff, h2], by simp [segsOfList, h3], by simp [segsOfList, h4], by simp [h5]; omega, h6⟩

/-- replacing the children of the loop at `a` by a list that lacks one segment: one item of the serialisation goes -/
theorem delete_at_offset (t : DNode) (a : List Nat) (hd : Hdr) (mk : List MNode) (cs cs2 : List DNode)
    (p q : List Seg) (s0 : Seg) (h : getAt a t = some (.loop hd mk cs))
    (h3 : segsOfList (cleanup cs) = p ++ s0 :: q) (h4 : segsOfList cs2 = p ++ q) :
    (segsOf t)[offset a t + p.length]? = some s0 ∧
    segsOf (modifyAt (withKids cs2) a t) = (segsOf t).eraseIdx (offset a t + p.length) := by
  obtain ⟨l1, l2, h0, h1, h2⟩ := segsOf_split_off a t _ h
  have h1' : segsOf t = (l1 ++ p) ++ s0 :: (q ++ l2) := by
    rw [h1]; simp only [segsOf]; rw [← segsOfList_cleanup cs, h3]; simp
  refine ⟨by rw [h1']; exact getElem?_mid _ _ _ _ (by simp [h0]), ?_⟩
  rw [h2, h1', eraseIdx_mid _ _ _ _ (by simp [h0])]
  simp [withKids, segsOf, h4]

/-- sweeping the tombstones of the loop at `a` does not change the serialisation -/
theorem cleanup_at (t : DNode) (a : List Nat) (hd : Hdr) (mk : List MNode) (cs : List DNode)
    (h : getAt a t = some (.loop hd mk cs)) : segsOf (modifyAt (withKids (cleanup cs)) a t) = segsOf t := by
  obtain ⟨l1, l2, _, h1, h2⟩ := segsOf_split_off a t _ h
  rw [h2, h1]; simp [withKids, segsOf, segsOfList_cleanup]

/-! ## delete_node -/

theorem kill_at_offset (t : DNode) (x : List Nat) (n : DNode) (h : getAt x t = some n) :
    segsOf (modifyAt kill x t) = (segsOf t).take (offset x t) ++ (segsOf t).drop (offset x t + (segsOf n).length) := by
  rw [segsOf_modifyAt_splice x t n kill h]
  simp [splice, kill, segsOf]

end Pyx12Verif.DataTree
