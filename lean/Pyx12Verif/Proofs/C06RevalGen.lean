/-
C06 re-validation, part D: the segments a complete 997 carries between GS and the end are a DERIVATION (Spec/WalkerGen.lean
`GenList`) of a skeleton of the 997 shape — `ST AK1 (AK2 (AK3 AK4*)* AK5)* AK9 SE` per functional group of the input, then
GE, no TA1, IEA — provided every written segment matches the node meant for it (`isMatch`, discharged from the element
definitions in Proofs/C06RevalAdm.lean) and the repeat limits of the skeleton are not exceeded (`WithinRepeats`).
-/
import Pyx12Verif.Proofs.C06RevalDefs
import Pyx12Verif.Props.C02Walk

namespace Pyx12Verif.C06R
open Pyx12Verif Pyx12Verif.Ack Pyx12Verif.C06 Pyx12Verif.MapSkel Pyx12Verif.WalkerGen Pyx12Verif.Walker

/-- the node of the skeleton a written segment is meant for, by identifier -/
def S997.nodeOf (S : S997) (id : Str) : Node :=
  if id = sST then S.st.node else if id = sAK1 then S.ak1.node else if id = sAK2 then S.ak2.node
  else if id = sAK3 then S.ak3.node else if id = sAK4 then S.ak4.node else if id = sAK5 then S.ak5.node
  else if id = sAK9 then S.ak9.node else if id = sSE then S.se.node else if id = sGE then S.ge.node
  else S.iea.node

section
variable {K : Consts}

/-! ### generic: instances of a counted child given as a list -/

theorem genReps_of_list {ip : List Nat} {c : Node} (hu : c.usage ≠ 2) :
    ∀ (insts : List (List Emit)) (k : Nat), (∀ o ∈ insts, GenOne K ip c o) →
      (c.rep = 0 ∨ k + insts.length ≤ c.rep) → (c.usage = 0 → 1 ≤ k + insts.length) →
      GenReps K ip c k insts.flatten
  | [], k, _, _, hmin => by
    simp only [List.flatten_nil]
    exact .stop (by simpa using hmin)
  | o :: r, k, hall, hrep, hmin => by
    simp only [List.flatten_cons]
    refine .more hu ?_ (hall o (by simp)) (genReps_of_list hu r (k + 1) (fun x hx => hall x (by simp [hx])) ?_ ?_)
    · rcases hrep with h | h
      · exact Or.inl h
      · right; simp only [List.length_cons] at h; omega
    · rcases hrep with h | h
      · exact Or.inl h
      · right; simp only [List.length_cons] at h; omega
    · intro h; have := hmin h; simp only [List.length_cons] at this; omega

theorem flatten_map_singleton {α β : Type} (f : α → β) (l : List α) : (l.map (fun x => [f x])).flatten = l.map f := by
  induction l with
  | nil => rfl
  | cons a r ih => simp [ih]

/-- a counted child emitted as a list of single segments -/
theorem genChild_segs {ip : List Nat} (n : SegN) (hu : n.usage ≠ 2) (l : List SegData)
    (hm : ∀ s ∈ l, isMatch K n.node s = true) (hrep : n.maxUse = 0 ∨ l.length ≤ n.maxUse)
    (hmin : n.usage = 0 → 1 ≤ l.length) : GenChild K ip n.node (l.map (fun s => (ip, s))) := by
  refine .counted rfl ?_
  rw [← flatten_map_singleton]
  refine genReps_of_list (c := n.node) (by simpa [SegN.node, Node.usage] using hu) _ 0 ?_ (by simpa [SegN.node, Node.rep] using hrep) (by simpa [SegN.node, Node.usage] using hmin)
  intro o ho
  simp only [List.mem_map] at ho
  obtain ⟨s, hs, rfl⟩ := ho
  exact .seg (hm s hs)

theorem genChild_one {ip : List Nat} (n : SegN) (hu : n.usage ≠ 2) (s : SegData) (hm : isMatch K n.node s = true) :
    GenChild K ip n.node [(ip, s)] :=
  genChild_seg1 hm hu (by omega)

end

/-! ### grouping AK3 / AK4 lines into AK3-loop instances -/

/-- the AK3 lines `a` of one segment node followed by its AK4 lines `b`: every AK3 line starts a loop instance, the AK4 lines
    belong to the last one -/
def instsOf : List PSeg → List PSeg → List (List PSeg)
  | [], _ => []
  | [l], b => [l :: b]
  | l :: l' :: r, b => [l] :: instsOf (l' :: r) b

theorem instsOf_length (b : List PSeg) : ∀ a : List PSeg, (instsOf a b).length = a.length
  | [] => rfl
  | [_] => rfl
  | _ :: l' :: r => by simp [instsOf, instsOf_length b (l' :: r)]

theorem instsOf_flatten (b : List PSeg) : ∀ a : List PSeg, a ≠ [] → (instsOf a b).flatten = a ++ b
  | [], h => absurd rfl h
  | [_], _ => by simp [instsOf]
  | l :: l' :: r, _ => by simp [instsOf, instsOf_flatten b (l' :: r) (by simp)]

theorem instsOf_mem (b : List PSeg) : ∀ (a : List PSeg) (o : List PSeg), o ∈ instsOf a b →
    ∃ l ∈ a, o = [l] ∨ o = l :: b
  | [], o, h => by simp [instsOf] at h
  | [l], o, h => by simp only [instsOf, List.mem_singleton] at h; exact ⟨l, by simp, Or.inr h⟩
  | l :: l' :: r, o, h => by
    simp only [instsOf, List.mem_cons] at h
    rcases h with h | h
    · exact ⟨l, by simp, Or.inl h⟩
    · obtain ⟨x, hx, hh⟩ := instsOf_mem b (l' :: r) o h
      exact ⟨x, List.mem_cons_of_mem _ hx, hh⟩

/-- AK3-loop instances of the lines written for a list of segment nodes -/
def instsAll : List ErrTree.Seg → List (List PSeg)
  | [] => []
  | sg :: r => instsOf (segLines997 sg) (elesLines eleLines997 sg.elements) ++ instsAll r

theorem instsAll_length : ∀ l : List ErrTree.Seg, (instsAll l).length = ak3CountAll l
  | [] => rfl
  | sg :: r => by simp [instsAll, ak3CountAll, ak3Count, instsOf_length, instsAll_length r]

/-- a segment node with an AK4 line has an AK3 line (the `child_err_count() > 0` line with code 8) -/
theorem segLines_ne_nil (sg : ErrTree.Seg) (h : elesLines eleLines997 sg.elements ≠ []) : segLines997 sg ≠ [] := by
  obtain ⟨x, hx⟩ := List.exists_mem_of_ne_nil _ h
  obtain ⟨e, he, hxe⟩ := elesLines_mem _ _ _ hx
  simp only [eleLines997, eleLinesWith, List.mem_map, List.mem_filter] at hxe
  obtain ⟨er, ⟨her, _⟩, _⟩ := hxe
  exact List.ne_nil_of_mem (C05.itemised_ele_flag sg e he er her)

theorem instsAll_flatten : ∀ l : List ErrTree.Seg, (instsAll l).flatten = segsLines segLines997 eleLines997 l
  | [] => rfl
  | sg :: r => by
    simp only [instsAll, List.flatten_append, segsLines, instsAll_flatten r]
    by_cases hb : elesLines eleLines997 sg.elements = []
    · by_cases ha : segLines997 sg = []
      · simp [ha, hb, instsOf]
      · rw [instsOf_flatten _ _ ha]
    · rw [instsOf_flatten _ _ (segLines_ne_nil sg hb)]

theorem instsAll_mem : ∀ (l : List ErrTree.Seg) (o : List PSeg), o ∈ instsAll l →
    ∃ sg ∈ l, ∃ x ∈ segLines997 sg, o = [x] ∨ o = x :: elesLines eleLines997 sg.elements
  | [], o, h => by simp [instsAll] at h
  | sg :: r, o, h => by
    simp only [instsAll, List.mem_append] at h
    rcases h with h | h
    · obtain ⟨x, hx, hh⟩ := instsOf_mem _ _ o h
      exact ⟨sg, by simp, x, hx, hh⟩
    · obtain ⟨sg', hsg, x, hx, hh⟩ := instsAll_mem r o h
      exact ⟨sg', List.mem_cons_of_mem _ hsg, x, hx, hh⟩

/-! ### the facts `S997.ok` packs -/

structure OkFacts (S : S997) (K : Consts) (ids : Doc.EnvIds) (A : AckIds) : Prop where
  isaL : S.isaL.lid = ids.isaLoop
  isa : S.isa.sid = ids.isa
  isaQ : S.isa.q = 0
  gsL : S.gsL.lid = ids.gsLoop
  gs : S.gs.sid = ids.gs
  gsQ : S.gs.q = 0
  stLu : S.stL.usage ≠ 2
  stLr : S.stL.rep = 0
  st : S.st.sid = A.st
  hdrLu : S.hdrL.usage ≠ 2
  ak1 : S.ak1.sid = A.ak1
  ak2Lu : S.ak2L.usage ≠ 2
  ak2Ls : S.ak2L.usage ≠ 0
  ak2 : S.ak2.sid = A.ak2
  ak3Lu : S.ak3L.usage ≠ 2
  ak3Ls : S.ak3L.usage ≠ 0
  ak3 : S.ak3.sid = A.ak3
  ak4u : S.ak4.usage ≠ 2
  ak4s : S.ak4.usage ≠ 0
  ak4 : S.ak4.sid = A.ak4
  ak5u : S.ak5.usage ≠ 2
  ak5 : S.ak5.sid = A.ak5
  ak9u : S.ak9.usage ≠ 2
  ak9 : S.ak9.sid = A.ak9
  seu : S.se.usage ≠ 2
  se : S.se.sid = A.se
  geu : S.ge.usage ≠ 2
  ge : S.ge.sid = A.ge
  ta1s : S.ta1.usage ≠ 0
  ieau : S.iea.usage ≠ 2
  iea : S.iea.sid = A.iea
  fetchGs : MapSkel.fetch K.ent K.hl S.root [(ids.isaLoop, 0), (ids.gsLoop, 0), (ids.gs, 0)] = some [0, 1, 0]

theorem S997.ok_facts {S : S997} {K : Consts} {ids : Doc.EnvIds} {A : AckIds} (h : S.ok K ids A = true) :
    OkFacts S K ids A := by
  simp only [S997.ok, Bool.and_eq_true, beq_iff_eq, usable, skippable, bne_iff_ne, ne_eq] at h
  obtain ⟨⟨⟨⟨⟨⟨⟨⟨⟨⟨⟨⟨⟨⟨⟨⟨⟨⟨⟨⟨⟨⟨⟨⟨⟨⟨⟨⟨⟨⟨⟨h1, h2⟩, h3⟩, h4⟩, h5⟩, h6⟩, h7⟩, h8⟩, h9⟩, h10⟩, h11⟩, h12⟩, h13⟩, h14⟩, h15⟩, h16⟩,
    h17⟩, h18⟩, h19⟩, h20⟩, h21⟩, h22⟩, h23⟩, h24⟩, h25⟩, h26⟩, h27⟩, h28⟩, h29⟩, h30⟩, h31⟩, h32⟩ := h
  exact ⟨h1, h2, h3, h4, h5, h6, h7, h8, h9, h10, h11, h12, h13, h14, h15, h16, h17, h18, h19, h20, h21, h22, h23, h24, h25,
    h26, h27, h28, h29, h30, h31, h32⟩

/-! ### the derivation -/

def emitOf (sd : PSeg → SegData) (x : PSeg) : Emit := (ipOf x.id, sd x)

/-- every listed segment matches the node meant for it -/
def AllMatch (K : Consts) (S : S997) (sd : PSeg → SegData) (l : List PSeg) : Prop :=
  ∀ x ∈ l, isMatch K (S.nodeOf x.id) (sd x) = true

theorem AllMatch.append_left {K : Consts} {S : S997} {sd : PSeg → SegData} {a b : List PSeg} (h : AllMatch K S sd (a ++ b)) :
    AllMatch K S sd a := fun x hx => h x (List.mem_append_left _ hx)
theorem AllMatch.append_right {K : Consts} {S : S997} {sd : PSeg → SegData} {a b : List PSeg} (h : AllMatch K S sd (a ++ b)) :
    AllMatch K S sd b := fun x hx => h x (List.mem_append_right _ hx)

theorem ipOf_ST : ipOf sST = ipST := by decide
theorem ipOf_AK1 : ipOf sAK1 = ipAK1 := by decide
theorem ipOf_AK2 : ipOf sAK2 = ipAK2 := by decide
theorem ipOf_AK3 : ipOf sAK3 = ipAK3 := by decide
theorem ipOf_AK4 : ipOf sAK4 = ipAK4 := by decide
theorem ipOf_AK5 : ipOf sAK5 = ipAK5 := by decide
theorem ipOf_AK9 : ipOf sAK9 = ipAK9 := by decide
theorem ipOf_SE : ipOf sSE = ipSE := by decide
theorem ipOf_GE : ipOf sGE = ipGE := by decide
theorem ipOf_IEA : ipOf sIEA = ipIEA := by decide

def ip3 : List Nat := [0, 1, 1, 1, 1, 1]
def ip2 : List Nat := [0, 1, 1, 1, 1]
def ipH : List Nat := [0, 1, 1, 1]
def ipS : List Nat := [0, 1, 1]

section
variable {K : Consts} {S : S997} {ids : Doc.EnvIds} {A : AckIds} {sd : PSeg → SegData}

theorem map_emit_ids (ip : List Nat) (id : Str) (hip : ipOf id = ip) (l : List PSeg) (h : ∀ b ∈ l, b.id = id) :
    l.map (emitOf sd) = (l.map sd).map (fun s => (ip, s)) := by
  induction l with
  | nil => rfl
  | cons b r ih =>
    simp only [List.map_cons, emitOf, h b (by simp), hip]
    rw [← ih (fun x hx => h x (by simp [hx]))]

/-- the AK4 lines behind an AK3 line -/
theorem gen_ak4s (F : OkFacts S K ids A) (B : List PSeg) (hB : ∀ b ∈ B, b.id = sAK4) (hm : AllMatch K S sd B)
    (hw : within S.ak4.maxUse B.length) : GenChild K ipAK4 S.ak4.node (B.map (emitOf sd)) := by
  rw [map_emit_ids ipAK4 sAK4 (by decide) B hB]
  refine genChild_segs S.ak4 F.ak4u (B.map sd) ?_ (by simpa [within] using hw) (fun h => absurd h F.ak4s)
  intro s hs
  simp only [List.mem_map] at hs
  obtain ⟨b, hb, rfl⟩ := hs
  have := hm b hb
  rw [hB b hb] at this
  exact this

/-- one AK3-loop instance: an AK3 line and the AK4 lines behind it -/
theorem gen_ak3_inst (F : OkFacts S K ids A) (x : PSeg) (B : List PSeg) (hx : x.id = sAK3) (hB : ∀ b ∈ B, b.id = sAK4)
    (hm : AllMatch K S sd (x :: B)) (hw : within S.ak4.maxUse B.length) :
    GenOne K ip3 S.ak3Loop ((x :: B).map (emitOf sd)) := by
  have h4 := gen_ak4s F B hB (fun b hb => hm b (List.mem_cons_of_mem _ hb)) hw
  have hl : GenList K ip3 1 [S.ak4.node] (B.map (emitOf sd) ++ []) := .cons h4 .nil
  rw [List.append_nil] at hl
  have hmx : isMatch K S.ak3.node (sd x) = true := by
    have := hm x (by simp)
    rw [hx] at this
    exact this
  have : GenOne K ip3 S.ak3Loop ((ip3 ++ [0], sd x) :: B.map (emitOf sd)) :=
    .loop (first := S.ak3.node) rfl hmx hl
  simp only [List.map_cons, emitOf, hx, ipOf_AK3]
  exact this

end

section
variable {K : Consts} {S : S997} {ids : Doc.EnvIds} {A : AckIds} {sd : PSeg → SegData}

theorem elesLines997_ids (l : List ErrTree.Ele) : ∀ b ∈ elesLines eleLines997 l, b.id = sAK4 := by
  intro b hb
  obtain ⟨e, _, hbe⟩ := elesLines_mem _ _ _ hb
  exact eleBase997_id e b hbe

/-- all AK3 loops of one set -/
theorem gen_ak3_loops (F : OkFacts S K ids A) (segs : List ErrTree.Seg)
    (hm : AllMatch K S sd (segsLines segLines997 eleLines997 segs))
    (hw3 : within S.ak3L.rep (ak3CountAll segs)) (hw4 : ∀ sg ∈ segs, within S.ak4.maxUse (ak4Count sg)) :
    GenChild K ip3 S.ak3Loop ((segsLines segLines997 eleLines997 segs).map (emitOf sd)) := by
  refine .counted rfl ?_
  have hfl : ((instsAll segs).map (fun o => o.map (emitOf sd))).flatten =
      (segsLines segLines997 eleLines997 segs).map (emitOf sd) := by
    rw [← instsAll_flatten, List.map_flatten]
  rw [← hfl]
  refine genReps_of_list (c := S.ak3Loop) (by simpa [S997.ak3Loop, LoopN.node, Node.usage] using F.ak3Lu) _ 0 ?_ ?_ ?_
  · intro o ho
    simp only [List.mem_map] at ho
    obtain ⟨o', ho', rfl⟩ := ho
    have hsub : ∀ y ∈ o', y ∈ segsLines segLines997 eleLines997 segs := by
      intro y hy
      rw [← instsAll_flatten]
      exact List.mem_flatten.2 ⟨o', ho', hy⟩
    obtain ⟨sg, hsg, x, hx, hh⟩ := instsAll_mem segs o' ho'
    have hxid := segBase997_id sg x hx
    rcases hh with rfl | rfl
    · exact gen_ak3_inst F x [] hxid (by simp) (fun y hy => hm y (hsub y hy)) (Or.inr (Nat.zero_le _))
    · exact gen_ak3_inst F x _ hxid (elesLines997_ids _) (fun y hy => hm y (hsub y hy)) (hw4 sg hsg)
  · simpa [S997.ak3Loop, LoopN.node, Node.rep, instsAll_length, within] using hw3
  · intro h
    exact absurd (by simpa [S997.ak3Loop, LoopN.node, Node.usage] using h) F.ak3Ls

/-- the lines of one set node -/
def setLines (st : ErrTree.St) (i c : Str) (codes : List Str) : List PSeg :=
  ak2Seg997 i c :: (segsLines segLines997 eleLines997 st.children ++ [ak5Seg997 st codes])

/-- one AK2-loop instance -/
theorem gen_set (F : OkFacts S K ids A) (st : ErrTree.St) (i c : Str) (codes : List Str)
    (hm : AllMatch K S sd (setLines st i c codes))
    (hw3 : within S.ak3L.rep (ak3CountAll st.children)) (hw4 : ∀ sg ∈ st.children, within S.ak4.maxUse (ak4Count sg)) :
    GenOne K ip2 S.ak2Loop ((setLines st i c codes).map (emitOf sd)) := by
  have hm2 : isMatch K S.ak2.node (sd (ak2Seg997 i c)) = true := by
    have := hm (ak2Seg997 i c) (by simp [setLines])
    rw [ak2Seg997_id] at this
    exact this
  have hm5 : isMatch K S.ak5.node (sd (ak5Seg997 st codes)) = true := by
    have := hm (ak5Seg997 st codes) (by simp [setLines])
    rw [ak5Seg997_id] at this
    exact this
  have h3 := gen_ak3_loops F st.children
    (fun x hx => hm x (by simp only [setLines, List.mem_cons, List.mem_append]; exact Or.inr (Or.inl hx))) hw3 hw4
  have h5 : GenChild K ipAK5 S.ak5.node [(ipAK5, sd (ak5Seg997 st codes))] := genChild_one S.ak5 F.ak5u _ hm5
  have hl : GenList K ip2 1 [S.ak3Loop, S.ak5.node]
      ((segsLines segLines997 eleLines997 st.children).map (emitOf sd) ++ ([(ipAK5, sd (ak5Seg997 st codes))] ++ [])) :=
    .cons h3 (.cons h5 .nil)
  have : GenOne K ip2 S.ak2Loop ((ip2 ++ [0], sd (ak2Seg997 i c)) ::
      ((segsLines segLines997 eleLines997 st.children).map (emitOf sd) ++ ([(ipAK5, sd (ak5Seg997 st codes))] ++ []))) :=
    .loop (first := S.ak2.node) rfl hm2 hl
  simp only [setLines, List.map_cons, List.map_append, List.map_nil, emitOf, ak2Seg997_id, ak5Seg997_id, ipOf_AK2, ipOf_AK5]
  exact this

theorem stsLines_segs (f : ErrTree.St → Lines) : ∀ (l : List ErrTree.St), (stsLines f l).crash = none →
    (stsLines f l).segs = (l.map (fun st => (f st).segs)).flatten ∧ ∀ st ∈ l, (f st).crash = none
  | [], _ => ⟨rfl, by simp⟩
  | st :: r, h => by
    obtain ⟨h1, h2, e⟩ := stsLines_cons_ok f st r h
    obtain ⟨e2, h3⟩ := stsLines_segs f r h2
    refine ⟨by rw [e, e2]; simp, ?_⟩
    intro x hx
    simp only [List.mem_cons] at hx
    rcases hx with rfl | hx
    · exact h1
    · exact h3 x hx

/-- all AK2 loops of one group -/
theorem gen_sets (F : OkFacts S K ids A) (g : ErrTree.Gs) (hg : GsOk fixed g)
    (hm : AllMatch K S sd (gsLines fixed g).segs)
    (hw2 : within S.ak2L.rep g.children.length)
    (hw3 : ∀ st ∈ g.children, within S.ak3L.rep (ak3CountAll st.children))
    (hw4 : ∀ st ∈ g.children, ∀ sg ∈ st.children, within S.ak4.maxUse (ak4Count sg)) :
    GenChild K ip2 S.ak2Loop ((gsLines fixed g).segs.map (emitOf sd)) := by
  refine .counted rfl ?_
  obtain ⟨e, hall⟩ := stsLines_segs (stLines997 fixed) g.children hg
  have hfl : ((g.children.map (fun st => (stLines997 fixed st).segs)).map (fun o => o.map (emitOf sd))).flatten =
      (gsLines fixed g).segs.map (emitOf sd) := by
    unfold gsLines
    rw [e, List.map_flatten]
  rw [← hfl]
  refine genReps_of_list (c := S.ak2Loop) (by simpa [S997.ak2Loop, LoopN.node, Node.usage] using F.ak2Lu) _ 0 ?_ ?_ ?_
  · intro o ho
    simp only [List.mem_map] at ho
    obtain ⟨o', ⟨st, hst, rfl⟩, rfl⟩ := ho
    obtain ⟨i, c, codes, _, _, _, es⟩ := stLines997_ok fixed st (hall st hst)
    have hsub : ∀ y ∈ (stLines997 fixed st).segs, y ∈ (gsLines fixed g).segs := by
      intro y hy
      unfold gsLines
      rw [e]
      exact List.mem_flatten.2 ⟨_, List.mem_map.2 ⟨st, hst, rfl⟩, hy⟩
    rw [es] at hsub ⊢
    exact gen_set F st i c codes (fun y hy => hm y (hsub y hy)) (hw3 st hst) (hw4 st hst)
  · simpa [S997.ak2Loop, LoopN.node, Node.rep, within] using hw2
  · intro h
    exact absurd (by simpa [S997.ak2Loop, LoopN.node, Node.usage] using h) F.ak2Ls

/-- one set of the acknowledgement: ST, AK1, the AK2 loops, AK9, SE -/
theorem gen_block (F : OkFacts S K ids A) (n : Nat) (g : ErrTree.Gs) (hg : GsOk fixed g)
    (hm : AllMatch K S sd (block997 fixed n g))
    (hw2 : within S.ak2L.rep g.children.length)
    (hw3 : ∀ st ∈ g.children, within S.ak3L.rep (ak3CountAll st.children))
    (hw4 : ∀ st ∈ g.children, ∀ sg ∈ st.children, within S.ak4.maxUse (ak4Count sg)) :
    GenOne K ipS S.stLoop ((block997 fixed n g).map (emitOf sd)) := by
  have hmem : ∀ y, y ∈ block997 fixed n g ↔ y = stSeg997 n ∨ y = ak1Seg997 g ∨ y ∈ (gsLines fixed g).segs ∨
      y = ak9Seg997 g ∨ y = seSeg997 ((gsLines fixed g).segs.length + 4) n := by
    intro y; simp [block997]
  have hmst : isMatch K S.st.node (sd (stSeg997 n)) = true := by
    have := hm _ ((hmem _).2 (Or.inl rfl)); rw [C05.stSeg997_id] at this; exact this
  have hm1 : isMatch K S.ak1.node (sd (ak1Seg997 g)) = true := by
    have := hm _ ((hmem _).2 (Or.inr (Or.inl rfl)))
    have hid : (ak1Seg997 g).id = sAK1 := mkSeg_starJoin_id _ _ _ (by decide)
    rw [hid] at this; exact this
  have hm9 : isMatch K S.ak9.node (sd (ak9Seg997 g)) = true := by
    have := hm _ ((hmem _).2 (Or.inr (Or.inr (Or.inr (Or.inl rfl))))); rw [C05.ak9Seg997_id] at this; exact this
  have hmse : isMatch K S.se.node (sd (seSeg997 ((gsLines fixed g).segs.length + 4) n)) = true := by
    have := hm _ ((hmem _).2 (Or.inr (Or.inr (Or.inr (Or.inr rfl))))); rw [C05.seSeg997_id] at this; exact this
  -- HEADER
  have h2 := gen_sets F g hg (fun y hy => hm y ((hmem y).2 (Or.inr (Or.inr (Or.inl hy))))) hw2 hw3 hw4
  have h9 : GenChild K ipAK9 S.ak9.node [(ipAK9, sd (ak9Seg997 g))] := genChild_one S.ak9 F.ak9u _ hm9
  have hlH : GenList K ipH 1 [S.ak2Loop, S.ak9.node]
      ((gsLines fixed g).segs.map (emitOf sd) ++ ([(ipAK9, sd (ak9Seg997 g))] ++ [])) := .cons h2 (.cons h9 .nil)
  have hH : GenOne K ipH S.header ((ipH ++ [0], sd (ak1Seg997 g)) ::
      ((gsLines fixed g).segs.map (emitOf sd) ++ ([(ipAK9, sd (ak9Seg997 g))] ++ []))) :=
    .loop (first := S.ak1.node) rfl hm1 hlH
  have hHr := genReps_of_list (K := K) (ip := ipH) (c := S.header)
    (by simpa [S997.header, LoopN.node, Node.usage] using F.hdrLu) [_] 0 (by intro o ho; simp at ho; subst ho; exact hH)
    (by simp [S997.header, LoopN.node, Node.rep]; omega) (by intro _; simp)
  have hHc : GenChild K ipH S.header _ := .counted rfl hHr
  have hse : GenChild K ipSE S.se.node [(ipSE, sd (seSeg997 ((gsLines fixed g).segs.length + 4) n))] :=
    genChild_one S.se F.seu _ hmse
  have hlS := GenList.cons (K := K) (lip := ipS) (i := 1) hHc
    (.cons (c := S.detL.node []) .empty (.cons (c := S.ftrL.node []) .empty (.cons hse .nil)))
  have : GenOne K ipS S.stLoop _ := GenOne.loop (first := S.st.node) (s := sd (stSeg997 n)) rfl hmst hlS
  have hid1 : (ak1Seg997 g).id = sAK1 := mkSeg_starJoin_id _ _ _ (by decide)
  simp only [block997, List.map_cons, List.map_append, List.map_nil, emitOf, C05.stSeg997_id, hid1, C05.ak9Seg997_id,
    C05.seSeg997_id, ipOf_ST, ipOf_AK1, ipOf_AK9, ipOf_SE, List.cons_append, List.nil_append]
  simpa [ipS, ipST, ipH, ipAK1] using this

end

section
variable {K : Consts} {S : S997} {ids : Doc.EnvIds} {A : AckIds} {sd : PSeg → SegData}

/-- the group the visitor addresses is one of the groups of the tree -/
theorem curGs_mem (s : ErrTree.State) (g : ErrTree.Gs) (h : curGsNode s = some g) : g ∈ allGs s.tree := by
  unfold curGsNode at h
  cases hc : s.curGs with
  | none => simp [hc] at h
  | some q =>
    simp only [hc, Option.bind_some, ErrTree.getGs] at h
    cases ha : s.tree[q.1]? with
    | none => simp [ha] at h
    | some a =>
      simp only [ha, Option.bind_some] at h
      exact mem_allGs s.tree a g (List.mem_of_getElem? ha) (List.mem_of_getElem? h)

/-- the sets of the acknowledgement as instances of the set loop -/
theorem gen_blocks (F : OkFacts S K ids A) : ∀ (l : List ErrTree.Gs) (n : Nat), (∀ g ∈ l, GsOk fixed g) →
    AllMatch K S sd (blocks997 fixed n l) →
    (∀ g ∈ l, within S.ak2L.rep g.children.length) →
    (∀ g ∈ l, ∀ st ∈ g.children, within S.ak3L.rep (ak3CountAll st.children)) →
    (∀ g ∈ l, ∀ st ∈ g.children, ∀ sg ∈ st.children, within S.ak4.maxUse (ak4Count sg)) →
    ∃ insts : List (List Emit), insts.flatten = (blocks997 fixed n l).map (emitOf sd) ∧ insts.length = l.length ∧
      ∀ o ∈ insts, GenOne K ipS S.stLoop o
  | [], _, _, _, _, _, _ => ⟨[], rfl, rfl, by simp⟩
  | g :: r, n, hok, hm, h2, h3, h4 => by
    simp only [blocks997] at hm ⊢
    obtain ⟨insts, e, hl, hall⟩ := gen_blocks F r (n + 1) (fun x hx => hok x (by simp [hx])) hm.append_right
      (fun x hx => h2 x (by simp [hx])) (fun x hx => h3 x (by simp [hx])) (fun x hx => h4 x (by simp [hx]))
    refine ⟨(block997 fixed (n + 1) g).map (emitOf sd) :: insts, by simp [e], by simp [hl], ?_⟩
    intro o ho
    simp only [List.mem_cons] at ho
    rcases ho with rfl | ho
    · exact gen_block F (n + 1) g (hok g (by simp)) hm.append_left (h2 g (by simp)) (h3 g (by simp)) (h4 g (by simp))
    · exact hall o ho

/-- **the part of a complete 997 behind GS is a derivation of the skeleton**: the rest of the group (`out1`: one set loop
    per functional group of the input, then GE) and the rest of the interchange (`out2`: no TA1, IEA) -/
theorem ack997_gen (F : OkFacts S K ids A) (s : ErrTree.State) (p : Params) (hC : Complete s) (hw : WithinRepeats S s)
    (isa gs : PSeg) (rest : List PSeg) (hout : (ack997 fixed s p).out = isa :: gs :: rest)
    (hm : AllMatch K S sd rest) :
    ∃ out1 out2 : List Emit, GenList K [0, 1] 1 [S.stLoop, S.ge.node] out1 ∧
      GenList K [0] 2 [S.ta1.node, S.iea.node] out2 ∧ rest.map (emitOf sd) = out1 ++ out2 ++ [] := by
  have hcr := ack_complete s p hC
  obtain ⟨a, g, isa', gs', ha, hg, _, _, hoks, _, hshape⟩ := ack997_ok fixed s p hcr
  obtain ⟨a2, ha2, _, _, _, _, _, _, _, hta⟩ := hC.isa
  rw [ha] at ha2
  simp only [Option.some.injEq] at ha2
  subst ha2
  have hta1 : (ta1Lines (getIsaErrors997 a) a).segs = [] := by simp [ta1Lines, c1, hta, Lines.ok]
  rw [hta1, hout] at hshape
  simp only [List.append_nil, List.cons_append, List.nil_append, List.cons.injEq] at hshape
  obtain ⟨_, _, hrest⟩ := hshape
  subst hrest
  have hne : allGs s.tree ≠ [] := List.ne_nil_of_mem (curGs_mem s g hg)
  obtain ⟨insts, e, hl, hall⟩ := gen_blocks (sd := sd) F (allGs s.tree) 0 hoks
    (fun x hx => hm x (by simp only [List.append_assoc, List.mem_append]; exact Or.inl hx)) hw.ak2 hw.ak3 hw.ak4
  have hreps : GenReps K ipS S.stLoop 0 insts.flatten :=
    genReps_of_list (c := S.stLoop) (by simpa [S997.stLoop, LoopN.node, Node.usage] using F.stLu) insts 0 hall
      (Or.inl (by simpa [S997.stLoop, LoopN.node, Node.rep] using F.stLr))
      (by intro _; rw [hl]; have := List.length_pos_iff.2 hne; omega)
  rw [e] at hreps
  have hmge : isMatch K S.ge.node (sd (geSeg997 (allGs s.tree).length gs')) = true := by
    have := hm (geSeg997 (allGs s.tree).length gs') (by simp)
    rw [C05.geSeg997_id] at this; exact this
  have hmiea : isMatch K S.iea.node (sd (ieaSeg997 p)) = true := by
    have := hm (ieaSeg997 p) (by simp)
    rw [C05.ieaSeg997_id] at this; exact this
  have h1 : GenList K [0, 1] 1 [S.stLoop, S.ge.node] _ :=
    .cons (.counted rfl hreps) (.cons (genChild_one S.ge F.geu _ hmge) .nil)
  have h2 : GenList K [0] 2 [S.ta1.node, S.iea.node] _ :=
    .cons (genChild_none (c := S.ta1.node) rfl (by simpa [SegN.node, Node.usage] using F.ta1s))
      (.cons (genChild_one S.iea F.ieau _ hmiea) .nil)
  refine ⟨_, _, h1, h2, ?_⟩
  simp [emitOf, C05.geSeg997_id, C05.ieaSeg997_id, ipOf_GE, ipOf_IEA, ipGE, ipIEA]

end

end Pyx12Verif.C06R
