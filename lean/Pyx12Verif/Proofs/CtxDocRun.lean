/-
Helper lemmas for `ctxDoc_partition_generated` (Props/CtxDocPartition.lean): the glue of `iter_segments` on a conformant
document produces exactly the answer list `CtxWalk.answersOf` for which Props/C09Walk.lean proves `Ctx.Consistent`.

* `cxRecs / cxPath / cxPos / cxPops / cxPushes / answerAt` of Model/CtxDoc.lean are the functions of Proofs/CtxWalkDefs.lean;
* one round on a body segment the walker finds (`cStep_body`), the run over the whole body (`glue_body`): a `GlueRun` whose
  answers are `CtxWalk.walkAnswers`;
* the ISA round and the GS round (`cStep_isa`, `cStep_gs`).
The envelope reader never stops the run: `_parse_segment` raises only on an ISA segment without 16 elements
(Proofs/CtxDocEnv.lean), the composites of reader-made segments are non-empty (`get_value` does not raise).
-/
import Pyx12Verif.Proofs.CtxDocTree
import Pyx12Verif.Proofs.CtxDocEnv
import Pyx12Verif.Props.C09Walk
import Pyx12Verif.Props.C07

namespace Pyx12Verif.Doc
open Pyx12Verif

/-! ### the loop records are those of Proofs/CtxWalkDefs.lean -/

theorem cxRecs_eq : ∀ (p : List Nat) (root : List MapSkel.Node), cxRecs root p = CtxWalk.recsAt root p
  | [], _ => rfl
  | i :: r, root => by
    simp only [cxRecs, CtxWalk.recsAt]
    cases root[i]? with
    | none => rfl
    | some n => simp only [cxRecs_eq r n.children]

theorem cxPath_eq (root : List MapSkel.Node) (p : List Nat) : cxPath root p = CtxWalk.lpathAt root p := by
  simp only [cxPath, CtxWalk.lpathAt, cxRecs_eq]

theorem cxPos_eq (root : List MapSkel.Node) (p : List Nat) : cxPos root p = WalkerGen.posAt root p := rfl

theorem cxPops_eq (root : List MapSkel.Node) (pops : List (List Nat)) : cxPops root pops = CtxWalk.cvPops root pops := by
  simp only [cxPops, CtxWalk.cvPops]
  exact List.map_congr_left (fun p _ => cxPath_eq root p)

theorem cxPushes_eq (root : List MapSkel.Node) (pushes : List (List Nat)) :
    cxPushes root pushes = CtxWalk.cvPushes root pushes := by
  simp only [cxPushes, CtxWalk.cvPushes]
  exact List.map_congr_left (fun p _ => by rw [cxPath_eq, cxPos_eq])

theorem answerAt_eq (m : MapX) (n : List Nat) (si : Ctx.SegInfo) (pops pushes : List (List Nat)) :
    answerAt ⟨m, n⟩ si (cxPops m.root pops) (cxPushes m.root pushes) = CtxWalk.answerOf m.root si n pops pushes := by
  simp only [answerAt, CtxWalk.answerOf, cxPath_eq, cxPos_eq, cxPops_eq, cxPushes_eq]

/-! ### the reader's view of a segment -/

theorem viewOf_fields {d : Delims} {s : Seg} {v : Envelope.SegView} (h : Pipeline.viewOf d s = some v) :
    v.id = s.id ∧ v.n16 = (s.elems.length == 16) := by
  unfold Pipeline.viewOf at h
  cases h1 : Pipeline.fetch d s (Pipeline.cntIdx s.id) with
  | crash => rw [h1] at h; cases h
  | got c =>
    cases h2 : Pipeline.fetch d s (Pipeline.ctlIdx s.id) with
    | crash => rw [h1, h2] at h; cases h
    | got k =>
      rw [h1, h2] at h
      simp only [Pipeline.mkView, Pipeline.mkView2, Option.some.injEq] at h
      rw [← h]
      exact ⟨rfl, rfl⟩

/-- `_parse_segment` on a reader-made segment that is not a short ISA: it returns -/
theorem env_step_ok (d : Delims) (s : Seg) (rs : Envelope.RState) (hs : Pipeline.NonEmptyComps s)
    (h16 : s.id = Envelope.idISA → s.elems.length = 16) :
    ∃ v rs1 es, Pipeline.viewOf d s = some v ∧ Envelope.step Envelope.Fixes.all rs v = .ok (rs1, es) := by
  obtain ⟨v, hv⟩ := Pipeline.viewOf_isSome d s hs
  obtain ⟨hid, hn⟩ := viewOf_fields hv
  obtain ⟨r, hr⟩ := Envelope.step_isOk rs v (by
    intro h
    rw [hn, h16 (by rw [← hid]; exact h)]
    rfl)
  exact ⟨v, r.1, r.2, hv, hr⟩

/-! ### one round on a body segment -/

/-- the loop state while the body is processed: only the node, the counter and the reader state move -/
def bodyC (base : CState) (m : MapX) (cur : List Nat) (cnt : Walker.Counter) (rs : Envelope.RState) : CState :=
  { base with node := some ⟨m, cur⟩, cnt := cnt, rs := rs }

theorem cStep_body (ms : Maps) (control : MapX) (d : Delims) (base : CState) (m : MapX) (cur ip : List Nat)
    (cnt : Walker.Counter) (rs rs1 : Envelope.RState) (es : List Envelope.Err) (k : Nat) (le : List SegText.RErr)
    (s : Seg) (v : Envelope.SegView)
    (h1 : s.id ≠ Envelope.idISA) (h2 : s.id ≠ Envelope.idGS)
    (hv : base.vriic ≠ some v278a ∧ base.vriic ≠ some v278b)
    (hview : Pipeline.viewOf d s = some v) (hstep : Envelope.step Envelope.Fixes.all rs v = .ok (rs1, es))
    (hnode : (Walker.walk ms.consts m.root m.rootId cnt cur (segData ms m d s)).node = some ip) :
    ∃ r, cStepSeg ms control d k le s (bodyC base m cur cnt rs) =
        .next (bodyC base m ip (Walker.walk ms.consts m.root m.rootId cnt cur (segData ms m d s)).st.cnt rs1) r ∧
      r.ans = CtxWalk.answerOf m.root ⟨k, rs1.segCount, k + 1⟩ ip
        (Walker.walk ms.consts m.root m.rootId cnt cur (segData ms m d s)).pops
        (Walker.walk ms.consts m.root m.rootId cnt cur (segData ms m d s)).pushes := by
  have hnv : ¬ ((bodyC base m cur (Walker.walk ms.consts m.root m.rootId cnt cur (segData ms m d s)).st.cnt rs1).vriic =
      some v278a ∨ (bodyC base m cur (Walker.walk ms.consts m.root m.rootId cnt cur (segData ms m d s)).st.cnt rs1).vriic =
      some v278b) := by
    intro h; rcases h with h | h
    · exact hv.1 h
    · exact hv.2 h
  refine ⟨mkRound ⟨m, ip⟩ ms.ids ⟨k, rs1.segCount, k + 1⟩
      (cxPops m.root (Walker.walk ms.consts m.root m.rootId cnt cur (segData ms m d s)).pops)
      (cxPushes m.root (Walker.walk ms.consts m.root m.rootId cnt cur (segData ms m d s)).pushes)
      ((Walker.walk ms.consts m.root m.rootId cnt cur (segData ms m d s)).st.errs.map werrCode)
      (le.map lineErr ++ baseErrs s ++ es.map envErr), ?_, ?_⟩
  · simp only [cStepSeg, hview, cWithView, bodyC, hstep, cAfterReader, cFind, h1, h2, if_false, cWalk, cFoundOf, hnode,
      cNodeOf, cAfterFind, cBranch]
    by_cases hb : s.id = sBHT
    · simp only [hb, if_true, cBhtBranch]
      simp only [bodyC] at hnv
      simp only [hnv, if_false, cAfterBranch]
    · simp only [hb, if_false, cAfterBranch]
  · simp only [mkRound, answerAt_eq]

/-! ### the whole body -/

/-- `src.get_seg_count()` after each segment (the model's reader on reader-made segments) -/
def envNext (d : Delims) (rs : Envelope.RState) (s : Seg) : Envelope.RState :=
  match Pipeline.viewOf d s with
  | some v =>
    (match Envelope.step Envelope.Fixes.all rs v with
     | .ok r => r.1
     | _ => rs)
  | none => rs

def countsFrom (d : Delims) : Envelope.RState → List Seg → List Nat
  | _, [] => []
  | rs, s :: r => (envNext d rs s).segCount :: countsFrom d (envNext d rs s) r

/-- a body segment as the glue needs it: not ISA / GS, composites non-empty -/
def BodySeg (s : Seg) : Prop := s.id ≠ Envelope.idISA ∧ s.id ≠ Envelope.idGS ∧ Pipeline.NonEmptyComps s

theorem glue_body (ms : Maps) (control : MapX) (d : Delims) (base : CState) (m : MapX)
    (hv : base.vriic ≠ some v278a ∧ base.vriic ≠ some v278b) (si : Nat → Ctx.SegInfo) :
    ∀ (ps : List (List SegText.RErr × Seg)) (emits : List WalkerGen.Emit) (k : Nat) (cur : List Nat)
      (cnt : Walker.Counter) (rs : Envelope.RState),
      emits.map (·.2) = ps.map (fun p => segData ms m d p.2) →
      (∀ p ∈ ps, BodySeg p.2) →
      WalkerGen.RunOK ms.consts m.root m.rootId cnt cur emits →
      (∀ i, i < ps.length → si (k + i) = ⟨k + i, (countsFrom d rs (ps.map (·.2))).getD i 0, k + i + 1⟩) →
      ∃ rounds st', GlueRun ms control d k (bodyC base m cur cnt rs) ps rounds st' ∧
        rounds.map (·.ans) = CtxWalk.walkAnswers ms.consts m.root m.rootId si k cnt cur emits := by
  intro ps
  induction ps with
  | nil =>
    intro emits k cur cnt rs hem _ _ _
    cases emits with
    | nil => exact ⟨[], _, ⟨rfl, rfl⟩, by simp [CtxWalk.walkAnswers]⟩
    | cons e es => simp at hem
  | cons p ps ih =>
    intro emits k cur cnt rs hem hbody hrun hsi
    cases emits with
    | nil => simp at hem
    | cons e es =>
      simp only [List.map_cons, List.cons.injEq] at hem
      obtain ⟨he, hes⟩ := hem
      obtain ⟨hb1, hb2, hb3⟩ := hbody p (by simp)
      obtain ⟨v, rs1, ers, hview, hstep⟩ := env_step_ok d p.2 rs hb3 (fun h => absurd h hb1)
      simp only [WalkerGen.RunOK] at hrun
      obtain ⟨hnode, _, _, hrun'⟩ := hrun
      rw [he] at hnode hrun'
      obtain ⟨r, hr, hans⟩ := cStep_body ms control d base m cur e.1 cnt rs rs1 ers k p.1 p.2 v hb1 hb2 hv hview hstep hnode
      have hnext : envNext d rs p.2 = rs1 := by simp only [envNext, hview, hstep]
      have hsi' : ∀ i, i < ps.length →
          si (k + 1 + i) = ⟨k + 1 + i, (countsFrom d rs1 (ps.map (·.2))).getD i 0, k + 1 + i + 1⟩ := by
        intro i hi
        have := hsi (i + 1) (by simp; omega)
        simp only [List.map_cons, countsFrom, hnext, List.getD_cons_succ] at this
        have e1 : k + (i + 1) = k + 1 + i := by omega
        rw [e1] at this
        exact this
      obtain ⟨rounds, st', hg, hmap⟩ := ih es (k + 1) e.1
        (Walker.walk ms.consts m.root m.rootId cnt cur (segData ms m d p.2)).st.cnt rs1 hes
        (fun q hq => hbody q (List.mem_cons_of_mem _ hq)) hrun' hsi'
      refine ⟨r :: rounds, st', ⟨_, r, rounds, hr, rfl, hg⟩, ?_⟩
      have h0 := hsi 0 (by simp)
      simp only [List.map_cons, countsFrom, hnext, List.getD_cons_zero, Nat.add_zero] at h0
      simp only [List.map_cons, CtxWalk.walkAnswers, he, hnode, hmap, hans, h0]

end Pyx12Verif.Doc
