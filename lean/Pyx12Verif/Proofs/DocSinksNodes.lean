/-
Helper lemmas for Props/DocSinks.lean: which node the sinks are handed in a round.

  stepSeg_node        the node reported for a round is `node` at the end of the round; when the walker found no node it is
                      the node of the state before the round (x12n_document: `if node is None: node = orig_node`)
  runSegs_nv          a loop that stops early never stops with a verdict
  validateRead_segs   a run that ends with a verdict reports one result per reader segment, and every unmatched segment
                      carries the node of the previous round (`KeepsNode`; the first round starts from `/ISA_LOOP/ISA`)
-/
import Pyx12Verif.Proofs.DocSinksRounds

namespace Pyx12Verif.Doc
open Pyx12Verif

def NotVerdict : Outcome → Prop
  | .verdict _ => False
  | _ => True

theorem gsTail_nv (ms : Maps) (d : Delims) (s : Seg) (st : LState) (m : MapX) (o : Outcome)
    (h : gsTail ms d s st m = .stop o) : NotVerdict o := by
  unfold gsTail at h
  split at h
  · simp only [Branch.stop.injEq] at h; subst h; trivial
  · simp at h

theorem plainTail_nv (s : Seg) (st : LState) (n : NodeRef) (o : Outcome) (h : plainTail s st n = .stop o) : NotVerdict o := by
  simp [plainTail] at h

theorem bhtSwitch_nv (ms : Maps) (s : Seg) (st : LState) (m : MapX) (o : Outcome)
    (h : bhtSwitch ms s st m = .stop o) : NotVerdict o := by
  unfold bhtSwitch at h
  split at h
  · simp only [Branch.stop.injEq] at h; subst h; trivial
  · exact plainTail_nv _ _ _ _ h

theorem withNewMap_nv (ms : Maps) (st : LState) (file : Option Str) (k : LState → MapX → Branch)
    (hk : ∀ st m o, k st m = .stop o → NotVerdict o) (o : Outcome) (h : withNewMap ms st file k = .stop o) : NotVerdict o := by
  unfold withNewMap at h
  split at h
  · simp only [Branch.stop.injEq] at h; subst h; trivial
  · split at h
    · simp only [Branch.stop.injEq] at h; subst h; trivial
    · exact hk _ _ _ h

theorem gsBranch_nv (ms : Maps) (d : Delims) (s : Seg) (st : LState) (o : Outcome)
    (h : gsBranch ms d s st = .stop o) : NotVerdict o := by
  unfold gsBranch at h
  split at h
  · exact withNewMap_nv ms _ _ _ (fun st m o h => gsTail_nv ms d s st m o h) o h
  · split at h
    · simp only [Branch.stop.injEq] at h; subst h; trivial
    · exact gsTail_nv _ _ _ _ _ _ h

theorem bhtBranch_nv (ms : Maps) (d : Delims) (s : Seg) (st : LState) (n : NodeRef) (o : Outcome)
    (h : bhtBranch ms d s st n = .stop o) : NotVerdict o := by
  unfold bhtBranch at h
  split at h
  · split at h
    · exact withNewMap_nv ms _ _ _ (fun st m o h => bhtSwitch_nv ms s st m o h) o h
    · exact plainTail_nv _ _ _ _ h
  · exact plainTail_nv _ _ _ _ h

theorem branch_nv (ms : Maps) (d : Delims) (s : Seg) (st : LState) (n : NodeRef) (o : Outcome)
    (h : branch ms d s st n = .stop o) : NotVerdict o := by
  unfold branch at h
  split at h
  · simp at h
  · split at h
    · simp at h
    · split at h
      · exact gsBranch_nv _ _ _ _ _ h
      · split at h
        · exact bhtBranch_nv _ _ _ _ _ _ h
        · split at h
          · simp at h
          · split at h
            · simp at h
            · split at h
              · simp at h
              · exact plainTail_nv _ _ _ _ h

theorem validate_nv (ctx : Ctx) (d : Delims) (s : Seg) (mevs : List Event) (popped : List RdErr) (b : Branch)
    (hb : ∀ o, b = .stop o → NotVerdict o) (o : Outcome) (h : validate ctx d s mevs popped b = .stop o) : NotVerdict o := by
  unfold validate at h
  split at h
  · simp only [Step.stop.injEq] at h; subst h; exact hb _ rfl
  · split at h
    · simp only [Step.stop.injEq] at h; subst h; trivial
    · split at h
      · simp only [Step.stop.injEq] at h; subst h; trivial
      · simp at h

theorem stepSeg_nv (ms : Maps) (ctx : Ctx) (control : MapX) (d : Delims) (le : List SegText.RErr) (s : Seg)
    (st : LState) (o : Outcome) (h : stepSeg ms ctx control d le s st = .stop o) : NotVerdict o := by
  unfold stepSeg withView at h
  split at h
  · simp only [Step.stop.injEq] at h; subst h; trivial
  · unfold afterReader at h
    split at h
    · simp only [Step.stop.injEq] at h; subst h; trivial
    · simp only [Step.stop.injEq] at h; subst h; trivial
    · unfold afterStep afterFind at h
      split at h
      · simp only [Step.stop.injEq] at h; subst h; trivial
      · simp at h
      · exact validate_nv _ _ _ _ _ _ (fun o ho => branch_nv _ _ _ _ _ _ ho) o h

theorem runSegs_nv (ms : Maps) (ctx : Ctx) (control : MapX) (d : Delims) :
    ∀ (segs : List (List SegText.RErr × Seg)) (a a' : Acc) (o : Outcome), runSegs ms ctx control d a segs = .stopped o a' →
      NotVerdict o
  | [], a, a', o => by intro h; simp [runSegs] at h
  | p :: ps, a, a', o => by
    intro h
    simp only [runSegs] at h
    split at h
    · rename_i o' hstep
      simp only [LoopEnd.stopped.injEq] at h
      obtain ⟨rfl, _⟩ := h
      exact stepSeg_nv _ _ _ _ _ _ _ _ hstep
    · split at h
      · simp only [LoopEnd.stopped.injEq] at h
        obtain ⟨rfl, _⟩ := h
        trivial
      · exact runSegs_nv ms ctx control d ps _ a' o h
theorem validate_node (ctx : Ctx) (d : Delims) (s : Seg) (mevs : List Event) (popped : List RdErr) (b : Branch)
    (st' : LState) (out : SegOut) (h : validate ctx d s mevs popped b = .next st' out) :
    out.matched = true ∧ out.node = nodeKey st'.node := by
  unfold validate at h
  split at h
  · simp at h
  · split at h
    · simp at h
    · split at h
      · simp at h
      · simp only [Step.next.injEq] at h
        obtain ⟨rfl, rfl⟩ := h
        exact ⟨rfl, rfl⟩

theorem stepSeg_node (ms : Maps) (ctx : Ctx) (control : MapX) (d : Delims) (le : List SegText.RErr) (s : Seg)
    (st st' : LState) (out : SegOut) (h : stepSeg ms ctx control d le s st = .next st' out) :
    out.node = nodeKey st'.node ∧ (out.matched = false → st'.node = st.node) := by
  unfold stepSeg withView at h
  split at h
  · simp at h
  · unfold afterReader at h
    split at h
    · simp at h
    · simp at h
    · unfold afterStep afterFind at h
      split at h
      · simp at h
      · simp only [Step.next.injEq] at h
        obtain ⟨rfl, rfl⟩ := h
        exact ⟨rfl, fun _ => rfl⟩
      · obtain ⟨h1, h2⟩ := validate_node _ _ _ _ _ _ _ _ h
        exact ⟨h2, fun hf => by rw [h1] at hf; cases hf⟩

/-- a segment the walker could not place is handed to the sinks with the node of the previous round -/
def KeepsNode : Option (Str × List Nat) → List SegOut → Prop
  | _, [] => True
  | prev, o :: r => (o.matched = false → o.node = prev) ∧ KeepsNode o.node r

theorem runSegs_outs (ms : Maps) (ctx : Ctx) (control : MapX) (d : Delims) :
    ∀ (segs : List (List SegText.RErr × Seg)) (a a' : Acc), runSegs ms ctx control d a segs = .done a' →
      ∃ new, a'.outs = a.outs ++ new ∧ new.length = segs.length ∧ KeepsNode (nodeKey a.st.node) new
  | [], a, a' => by
    intro h
    simp only [runSegs, LoopEnd.done.injEq] at h
    subst h
    exact ⟨[], by simp, rfl, trivial⟩
  | p :: ps, a, a' => by
    intro h
    simp only [runSegs] at h
    split at h
    · simp at h
    · rename_i st out hstep
      split at h
      · simp at h
      · rename_i est _
        obtain ⟨new, h1, h2, h3⟩ := runSegs_outs ms ctx control d ps _ a' h
        obtain ⟨hn, hk⟩ := stepSeg_node ms ctx control d _ _ _ _ _ hstep
        refine ⟨out :: new, by simp [h1, pushOut], by simp [h2], ?_⟩
        simp only [pushOut] at h3
        refine ⟨fun hf => by rw [hn, hk hf], ?_⟩
        rw [hn]; exact h3

/-- a run that ends with a verdict reports one result per reader segment -/
theorem validateRead_segs (ms : Maps) (ctx : Ctx) (h : Tokenizer.Header) (rr : SegText.ReadResult) (b : Bool)
    (hv : (validateRead ms ctx h rr).outcome = .verdict b) :
    ∃ control, findMap ms (controlFile h) = some control ∧
      (validateRead ms ctx h rr).segs.length = rr.segs.length ∧
      KeepsNode (nodeKey (fetchIn ms control (isaPath ms))) (validateRead ms ctx h rr).segs := by
  unfold validateRead at hv ⊢
  cases hc : findMap ms (controlFile h) with
  | none => simp [hc, emptyResult] at hv
  | some control =>
    simp only [hc] at hv ⊢
    refine ⟨control, rfl, ?_⟩
    cases hl : runSegs ms ctx control (SegText.delimsOf h) (initAcc ms control) rr.segs with
    | stopped o a =>
      simp only [hl, finish] at hv
      have := runSegs_nv ms ctx control _ _ _ _ _ hl
      rw [hv] at this
      exact this.elim
    | done a =>
      obtain ⟨new, h1, h2, h3⟩ := runSegs_outs ms ctx control _ _ _ _ hl
      simp only [initAcc, List.nil_append, initState] at h1 h3
      simp only [hl, finish] at hv ⊢
      split at hv
      · simp at hv
      · split
        · rename_i hcr _; simp_all
        · unfold finishDone at hv ⊢
          split at hv
          · simp at hv
          · simp only [h1]; exact ⟨h2, h3⟩
end Pyx12Verif.Doc
