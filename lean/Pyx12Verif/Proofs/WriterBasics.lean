/-
Helper lemmas for C11: the printed count is read back as the count, the generated trailer is the two-element
segment one expects, what the reader sees of written segments, how `popTo` runs on the stacks of a well-nested history.
-/
import Pyx12Verif.Spec.Writer
import Pyx12Verif.Proofs.EnvelopeMisc

namespace Pyx12Verif.Writer
open Pyx12Verif.Envelope (RState SegView Kind Fixes Str Level Err idISA idIEA idGS idGE idST idSE idHL idLX idCLM decimal
  isEnvId mkISA mkGS mkST mkSE mkGE mkIEA pyInt fieldInt natInt)
open Pyx12Verif.SegText (Seg Delims joinWith normComp splitOn parseSeg stripTerm buildSeg splitComp)

/-! ### `int('{:d}'.format(n)) == n` -/

theorem isDigit_of_core {c : Char} (h : c.isDigit = true) : Envelope.isDigit c = true := by
  simp only [Char.isDigit, Bool.and_eq_true, decide_eq_true_eq] at h
  simp only [Envelope.isDigit, Bool.and_eq_true, decide_eq_true_eq]
  exact ⟨by simpa [Char.le_def] using h.1, by simpa [Char.le_def] using h.2⟩

theorem decimal_digits (n : Nat) : ∀ c ∈ decimal n, c.isDigit = true :=
  fun _ hc => Nat.isDigit_of_mem_toDigits (by decide) (by decide) hc

theorem isAlphanum_of_isDigit {c : Char} (h : c.isDigit = true) : c.isAlphanum = true := by
  simp [Char.isAlphanum, h]

/-- value of a digit string read left to right from an accumulator -/
def valFrom (acc : Nat) (ds : List Char) : Nat := ds.foldl (fun a c => a * 10 + Envelope.digitVal c) acc

theorem scanDigits_digits (ds : List Char) (h : ∀ c ∈ ds, Envelope.isDigit c = true) (acc k : Nat) :
    Envelope.scanDigits false acc k ds = some (valFrom acc ds, k + ds.length) := by
  induction ds generalizing acc k with
  | nil => simp [Envelope.scanDigits, valFrom]
  | cons c r ih =>
    have hc := h c (by simp)
    simp only [Envelope.scanDigits, hc, if_true]
    rw [ih (fun x hx => h x (List.mem_cons_of_mem _ hx))]
    simp [valFrom, Nat.add_assoc, Nat.add_comm 1]

theorem valFrom_append (acc : Nat) (a b : List Char) : valFrom acc (a ++ b) = valFrom (valFrom acc a) b := by
  simp [valFrom, List.foldl_append]

theorem digitVal_digitChar (m : Nat) (h : m < 10) : Envelope.digitVal m.digitChar = m := by
  have := Nat.toNat_digitChar_sub_48_of_lt_ten h
  simpa [Envelope.digitVal] using this

theorem valFrom_decimal (n : Nat) : valFrom 0 (decimal n) = n := by
  induction n using Nat.strongRecOn with
  | _ n ih =>
    unfold decimal
    rw [Nat.toDigits_eq_if (by decide)]
    split
    · rename_i h
      simp [valFrom, digitVal_digitChar n h]
    · rename_i h
      have hlt : n / 10 < n := Nat.div_lt_self (by omega) (by decide)
      have := ih (n / 10) hlt
      unfold decimal at this
      rw [valFrom_append, this]
      simp only [valFrom, List.foldl_cons, List.foldl_nil]
      rw [digitVal_digitChar _ (Nat.mod_lt _ (by decide))]
      omega

theorem decimal_length_le (n : Nat) (h : n < countLimit) : (decimal n).length ≤ Envelope.maxStrDigits :=
  (Nat.length_toDigits_le_iff (by decide) (by decide)).mpr h

theorem pyInt_decimal (n : Nat) (h : n < countLimit) : pyInt (decimal n) = some (natInt n) := by
  have hd := decimal_digits n
  have hne : decimal n ≠ [] := by unfold decimal; exact Nat.toDigits_ne_nil
  cases hds : decimal n with
  | nil => exact absurd hds hne
  | cons c r =>
    have hc : Envelope.isDigit c = true := isDigit_of_core (hd c (by rw [hds]; simp))
    have hr : ∀ x ∈ r, Envelope.isDigit x = true := fun x hx => isDigit_of_core (hd x (by rw [hds]; simp [hx]))
    have hsp : Envelope.isIntSpace c = false := by
      cases hsp : Envelope.isIntSpace c with
      | false => rfl
      | true =>
        exfalso
        simp only [Envelope.isIntSpace, Bool.or_eq_true, beq_iff_eq] at hsp
        simp only [Envelope.isDigit, Bool.and_eq_true, decide_eq_true_eq] at hc
        rcases hsp with ((((h | h) | h) | h) | h) | h <;> (subst h; revert hc; decide)
    have hm : c ≠ '-' := by rintro rfl; revert hc; decide
    have hp : c ≠ '+' := by rintro rfl; revert hc; decide
    have hval : valFrom (Envelope.digitVal c) r = n := by
      have := valFrom_decimal n
      rw [hds] at this
      simpa [valFrom] using this
    have hlen : 1 + r.length ≤ Envelope.maxStrDigits := by
      have := decimal_length_le n h
      rw [hds] at this
      simp at this
      omega
    rw [← hds, Envelope.pyInt_of_digits _ (fun x hx => isDigit_of_core (hd x hx)), hds]
    simp only [Envelope.dropSpace, hsp, Bool.false_eq_true, if_false, Envelope.signedInt, hm, hp,
      Envelope.startDigits, hc, if_true]
    rw [scanDigits_digits r hr]
    simp only [Envelope.finishInt, hval]
    have : ¬ (1 + r.length > Envelope.maxStrDigits) := by omega
    simp [this, natInt]

theorem fieldInt_decimal (n : Nat) (h : n < countLimit) : fieldInt (some (decimal n)) = some (natInt n) := by
  simp [fieldInt, pyInt_decimal n h]

/-! ### the generated trailer -/

theorem not_mem_of_alnum {e : Char} (he : e.isAlphanum = false) {l : List Char} (hl : ∀ c ∈ l, c.isAlphanum = true) :
    e ∉ l := by
  intro hm
  have := hl e hm
  rw [he] at this
  cases this

theorem decimal_free {e : Char} (he : e.isAlphanum = false) (n : Nat) : e ∉ decimal n :=
  not_mem_of_alnum he (fun c hc => isAlphanum_of_isDigit (decimal_digits n c hc))

theorem trailerId_alnum {id : Str} (h : isTrailerId id = true) : ∀ c ∈ id, c.isAlphanum = true := by
  simp only [isTrailerId, Bool.or_eq_true, beq_iff_eq] at h
  rcases h with (h | h) | h <;> subst h <;> decide

theorem trailerId_not_isa {id : Str} (h : isTrailerId id = true) : id ≠ SegText.isaId := by
  simp only [isTrailerId, Bool.or_eq_true, beq_iff_eq] at h
  rcases h with (h | h) | h <;> subst h <;> decide

/-- with delimiters that are no letters or digits and a clean control number, the trailer is
`<id>*<count>*<control number>` as data -/
theorem trailerSeg_eq (d : Delims) (hd : DelimsOk d) (id : Str) (hid : isTrailerId id = true) (n : Nat) (c : Str)
    (hc : CtlOk d c) : trailerSeg d id n (some c) = ⟨id, [[decimal n], [c]]⟩ := by
  obtain ⟨hne, hct, hce, hcs⟩ := hc
  have hide : d.ele ∉ id := not_mem_of_alnum hd.ele (trailerId_alnum hid)
  have hidt : d.term ∉ id := not_mem_of_alnum hd.term (trailerId_alnum hid)
  have htext : trailerText d.ele id n (some c) ≠ [] := by simp [trailerText]
  have hterm : d.term ∉ trailerText d.ele id n (some c) := by
    simp only [trailerText, ctlText, List.mem_append, List.mem_cons, not_or]
    exact ⟨hidt, hd.distinct.1, decimal_free hd.term n, hd.distinct.1, hct⟩
  unfold trailerSeg parseSeg
  simp only [htext, if_false, SegText.stripTerm_of_not_mem _ _ hterm]
  unfold trailerText
  simp only [ctlText]
  rw [SegText.splitOn_append_sep _ _ _ hide, SegText.splitOn_append_sep _ _ _ (decimal_free hd.ele n),
    SegText.splitOn_no_sep _ _ hce]
  simp only [buildSeg, List.map_cons, List.map_nil, splitComp, trailerId_not_isa hid, if_false,
    SegText.splitOn_no_sep _ _ (decimal_free hd.sub n), SegText.splitOn_no_sep _ _ hcs]

/-- whatever the control number, the generated trailer keeps its identifier -/
theorem trailerSeg_id (d : Delims) (hd : DelimsOk d) (id : Str) (hid : isTrailerId id = true) (n : Nat)
    (ctl : Option Str) : (trailerSeg d id n ctl).id = id := by
  have hide : d.ele ∉ id := not_mem_of_alnum hd.ele (trailerId_alnum hid)
  have htext : trailerText d.ele id n ctl ≠ [] := by simp [trailerText]
  have hne : decimal n ≠ [] := by unfold decimal; exact Nat.toDigits_ne_nil
  unfold trailerSeg parseSeg
  simp only [htext, if_false]
  -- stripping a final terminator never reaches the first separator
  have hstrip : ∃ tail, stripTerm d.term (trailerText d.ele id n ctl) = id ++ d.ele :: tail := by
    unfold stripTerm trailerText
    split
    · refine ⟨(decimal n ++ d.ele :: ctlText ctl).dropLast, ?_⟩
      have h2 : decimal n ++ d.ele :: ctlText ctl ≠ [] := by simp
      rw [List.dropLast_append_of_ne_nil (by simp), List.dropLast_cons_of_ne_nil h2]
    · exact ⟨_, rfl⟩
  obtain ⟨tail, ht⟩ := hstrip
  rw [ht, SegText.splitOn_append_sep _ _ _ hide]
  simp [buildSeg]

end Pyx12Verif.Writer
