/- C08 helper lemmas: one `seg()` call and a whole run, in terms of the reader's context. -/
import Pyx12Verif.Proofs.XmlStack

namespace Pyx12Verif.Xml
open Pyx12Verif.Segment (PyIdx pyPred SegObj Comp Got)

/-- the character-wise test of the code (`root_path == cur_path`) says what the component-wise one says -/
def Agree (cur last : List Str) : Prop := rootPath cur last = cur ↔ cur <+: last

/-- how many leading loop instances a segment keeps from its predecessor: all common ones, except that the first
    segment of a loop does not keep the instance of its own loop -/
def sharedDepth (last cur : List Str) (first : Bool) : Nat :=
  if first = true ∧ cur <+: last then cur.length - 1 else pathMatchIdx last cur

def loopStart : Str → Ev := fun l => .start tagLoop (some l)

/-- the events `seg()` writes before the segment itself, as the map structure dictates them -/
def transEvents (last cur : List Str) (first : Bool) : List Ev :=
  List.replicate (last.length - sharedDepth last cur first) (.stop tagLoop)
    ++ (cur.drop (sharedDepth last cur first)).map loopStart

theorem sharedDepth_le_last (last cur : List Str) (first : Bool) : sharedDepth last cur first ≤ last.length := by
  unfold sharedDepth
  split
  · rename_i h; have := h.2.length_le; omega
  · exact pmi_le_left last cur

theorem sharedDepth_le_cur (last cur : List Str) (first : Bool) : sharedDepth last cur first ≤ cur.length := by
  unfold sharedDepth
  split
  · omega
  · exact pmi_le_right last cur

theorem sharedDepth_take (last cur : List Str) (first : Bool) :
    last.take (sharedDepth last cur first) = cur.take (sharedDepth last cur first) := by
  unfold sharedDepth
  split
  · rename_i h
    obtain ⟨t, rfl⟩ := h.2
    exact List.take_append_of_le_length (by omega)
  · exact pmi_take last cur

theorem matchIdx_eq (last cur : List Str) (first : Bool) (hne : first = true → cur ≠ []) (hag : Agree cur last) :
    matchIdx last cur first = .nat (sharedDepth last cur first) := by
  unfold matchIdx sharedDepth
  by_cases hf : first = true
  · by_cases hp : cur <+: last
    · have hr : rootPath cur last = cur := hag.mpr hp
      have hlen : pathMatchIdx last cur = cur.length := pmi_of_prefix last cur hp
      have hc := hne hf
      obtain ⟨n, hn⟩ : ∃ n, cur.length = n + 1 := by
        cases cur with
        | nil => exact absurd rfl hc
        | cons a r => exact ⟨r.length, rfl⟩
      simp [hf, hr, hp, hlen, hn, pyPred]
    · have hr : ¬ rootPath cur last = cur := fun h => hp (hag.mp h)
      simp [hf, hr, hp]
  · simp [hf]

/-- the loop bookkeeping of `seg()` on a stack that spells `last` -/
theorem transition_ok (b : List Str) (last cur : List Str) (first : Bool) (o : List Ev)
    (hne : first = true → cur ≠ []) (hag : Agree cur last) :
    transition last cur first ⟨b ++ loopTags last.length, o⟩ =
      .ok ⟨b ++ loopTags cur.length, o ++ transEvents last cur first⟩ := by
  unfold transition
  by_cases hA : (last == cur && first) = true
  · simp only [hA, if_true]
    simp only [Bool.and_eq_true, beq_iff_eq] at hA
    obtain ⟨rfl, hf⟩ := hA
    have hc := hne hf
    obtain ⟨p, l, rfl⟩ : ∃ p l, last = p ++ [l] := by
      cases h : last.getLast? with
      | none => simp at h; exact absurd h hc
      | some l => exact ⟨_, l, (List.getLast?_eq_some_iff.mp h).choose_spec⟩
    have hd : sharedDepth (p ++ [l]) (p ++ [l]) first = p.length := by
      simp [sharedDepth, hf]
    simp only [List.getLast?_append, List.getLast?_singleton, Option.some_or]
    simp only [transEvents, hd, List.length_append, List.length_singleton]
    rw [loopTags_succ, ← List.append_assoc, pop_snoc]
    simp [W.push, loopStart]
  · simp only [hA]
    rw [matchIdx_eq last cur first hne hag]
    have h1 := sharedDepth_le_last last cur first
    have h2 := sharedDepth_le_cur last cur first
    simp only [popCount, pushFrom, Bool.false_eq_true, if_false]
    rw [popN_loops b _ _ _ (by omega), pushAll_eq]
    have e : last.length - (last.length - sharedDepth last cur first) + (cur.length - sharedDepth last cur first) = cur.length := by
      omega
    simp only [transEvents, List.length_drop, List.append_assoc, loopTags_add, e]
    rfl

/-- what the reader makes of those events -/
theorem transEvents_moves (last cur : List Str) (first : Bool) :
    Moves (transEvents last cur first) (spell last) (spell cur) [] := by
  have hl : last = last.take (sharedDepth last cur first) ++ last.drop (sharedDepth last cur first) :=
    (List.take_append_drop _ _).symm
  have hc : cur = last.take (sharedDepth last cur first) ++ cur.drop (sharedDepth last cur first) := by
    rw [sharedDepth_take]; exact (List.take_append_drop _ _).symm
  have h1 := Moves.stops (last.drop (sharedDepth last cur first)) (last.take (sharedDepth last cur first))
  have h2 := Moves.starts (cur.drop (sharedDepth last cur first)) (last.take (sharedDepth last cur first))
  rw [← hl] at h1
  rw [← hc] at h2
  have := h1.append h2
  unfold transEvents loopStart
  simpa using this

/-! ### the segment itself: the stack comes back, the events are neutral for the context around them -/

/-- `w'` continues `w` with the same stack and events that are neutral -/
def Ext (w w' : W) : Prop := w'.stack = w.stack ∧ ∃ evs, Neutral evs ∧ w'.out = w.out ++ evs

theorem Ext.refl (w : W) : Ext w w := ⟨rfl, [], Neutral.nil, by simp⟩

theorem Ext.trans {a b c : W} (h1 : Ext a b) (h2 : Ext b c) : Ext a c := by
  obtain ⟨s1, e1, n1, o1⟩ := h1
  obtain ⟨s2, e2, n2, o2⟩ := h2
  exact ⟨s2.trans s1, e1 ++ e2, n1.append n2, by rw [o2, o1, List.append_assoc]⟩

theorem Ext.elem (w : W) (t i x : Str) : Ext w (w.elem t i x) := ⟨rfl, [.leaf t i x], Neutral.leaf t i x, rfl⟩

theorem subLoop_ext : ∀ (vs ids : List Str) (w w' : W), subLoop ids vs w = .ok w' → Ext w w'
  | [], ids, w, w' => by
    intro h; cases ids <;> (simp [subLoop] at h; subst h; exact Ext.refl _)
  | v :: vs, [], w, w' => by intro h; simp [subLoop] at h
  | v :: vs, xid :: ids, w, w' => by
    intro h
    simp only [subLoop] at h
    exact (Ext.elem w tagSubele xid v).trans (subLoop_ext vs ids _ _ h)

theorem compOut_ext (sid : Str) (subs : List Str) (c : Comp) (w w' : W) (h : compOut sid subs c w = .ok w') : Ext w w' := by
  unfold compOut at h
  split at h
  · simp at h
  · rename_i w2 h2
    simp only [Except.ok.injEq] at h
    subst h
    obtain ⟨hs, evs, hn, ho⟩ := subLoop_ext _ _ _ _ h2
    obtain ⟨st2, out2⟩ := w2
    simp only [W.push] at hs ho
    subst hs ho
    rw [pop_snoc]
    refine ⟨rfl, .start tagComp (some sid) :: evs ++ [.stop tagComp], hn.wrap tagComp (some sid) tagComp_ne_tagSeg, ?_⟩
    simp

theorem eleOut_ext (xid : Str) (w w' : W) (r : Except Segment.Err (Option Str)) (h : eleOut xid w r = .ok w') : Ext w w' := by
  unfold eleOut at h
  split at h
  · simp at h
  · simp at h
  · split at h
    · simp only [Except.ok.injEq] at h; subst h; exact Ext.refl _
    · simp only [Except.ok.injEq] at h; subst h; exact Ext.elem _ _ _ _

theorem childOut_ext (sid : Str) (seg : SegObj) (ref : Str) (c : ChildDef) (w w' : W) (g : Except Segment.Err Got)
    (h : childOut sid seg ref c w g = .ok w') : Ext w w' := by
  unfold childOut at h
  split at h
  · simp at h
  · simp at h
  · simp at h
  · split at h
    · simp only [Except.ok.injEq] at h; subst h; exact Ext.refl _
    · split at h
      · exact compOut_ext _ _ _ _ _ h
      · exact eleOut_ext _ _ _ _ h

theorem elemStep_ext (node : SegDef) (seg : SegObj) (i : Nat) (w w' : W) (h : elemStep node seg i w = .ok w') : Ext w w' := by
  unfold elemStep at h
  split at h
  · simp at h
  · simp at h
  · split at h
    · simp only [Except.ok.injEq] at h; subst h; exact Ext.refl _
    · exact childOut_ext _ _ _ _ _ _ _ h

theorem elemLoop_ext (node : SegDef) (seg : SegObj) : ∀ (n i : Nat) (w w' : W), elemLoop node seg n i w = .ok w' → Ext w w'
  | 0, i, w, w' => by intro h; simp only [elemLoop, Except.ok.injEq] at h; subst h; exact Ext.refl _
  | n + 1, i, w, w' => by
    intro h
    simp only [elemLoop] at h
    split at h
    · simp at h
    · rename_i w2 h2
      exact (elemStep_ext _ _ _ _ _ h2).trans (elemLoop_ext node seg n (i + 1) _ _ h)

/-- `seg()` from the segment's start tag on: the stack is as before, one `seg` element with neutral content is written -/
theorem segOut_ok (node : SegDef) (seg : SegObj) (s : List Str) (o : List Ev) (w' : W) (h : segOut node seg ⟨s, o⟩ = .ok w') :
    w'.stack = s ∧ ∃ body, Neutral body ∧ w'.out = o ++ (.start tagSeg (some node.sid) :: body ++ [.stop tagSeg]) := by
  unfold segOut at h
  split at h
  · simp at h
  · rename_i w2 h2
    simp only [Except.ok.injEq] at h
    subst h
    obtain ⟨hs, evs, hn, ho⟩ := elemLoop_ext _ _ _ _ _ _ h2
    obtain ⟨st2, out2⟩ := w2
    simp only [W.push] at hs ho
    subst hs ho
    rw [pop_snoc]
    exact ⟨rfl, evs, hn, by simp⟩

end Pyx12Verif.Xml
