/-
C09 ⟵ C02 link, part 3: the shape of one walker answer.

Whatever the counters say, when `walk` returns a node its pop list closes the open loops innermost first up to some
enclosing loop `P`, its push list opens a chain of child loops from `P` down to the loop of the returned node, and the
positions involved do not decrease (`StepFacts`).  Only static map hypotheses are used (`WFMap`, the local parts of
`Unambiguous`, `CtxMapOK`).
-/
import Pyx12Verif.Proofs.CtxWalkDefs

namespace Pyx12Verif.CtxWalk
open Pyx12Verif.MapSkel Pyx12Verif.Walker Pyx12Verif.WalkerGen

/-! ### the child scan -/

/-- where a scan that found something found it -/
theorem scan_found {K : Consts} {s : SegData} (lip : List Nat) (lkey : PathKey) (loopNode : Option Node)
    (loopNid origLoop : NodeId) (fromPos : Nat) (pops : List (List Nat)) :
    ∀ (rest : List Node) (i : Nat) (st : WState) (r : WalkResult) (n : List Nat),
    scanChildren K s lip lkey loopNode loopNid origLoop fromPos pops i st rest = .found r → r.node = some n →
    (∃ (j : Nat) (c : Node), rest[j]? = some c ∧ c.isSeg = true ∧ isMatch K c s = true ∧ ¬ c.pos < fromPos ∧
        ((∃ ln d, loopNode = some ln ∧ lmB K s ln = true ∧ gotoPath K s ln = some d ∧ n = lip ++ d ++ [0] ∧
            (((loopNid == origLoop) = true ∧ r.pops = [lip] ∧ r.pushes = [lip]) ∨
             ((loopNid == origLoop) = false ∧ r.pops = pops ∧ r.pushes = chain lip d))) ∨
         ((loopNode = none ∨ ∃ ln, loopNode = some ln ∧ lmB K s ln = false) ∧ n = lip ++ [i + j] ∧
            r.pops = pops ∧ r.pushes = []))) ∨
    (∃ (j : Nat) (c : Node) (d : List Nat), rest[j]? = some c ∧ c.isSeg = false ∧ ¬ c.pos < fromPos ∧
        lmB K s c = true ∧ gotoPath K s c = some d ∧ n = lip ++ [i + j] ++ d ++ [0] ∧ r.pops = pops ∧
        r.pushes = chain (lip ++ [i + j]) d)
  | [], i, st, r, n, h, _ => by simp [scanChildren] at h
  | c :: rest, i, st, r, n, h, hn => by
    have shift : ∀ st', scanChildren K s lip lkey loopNode loopNid origLoop fromPos pops (i + 1) st' rest = .found r → _ :=
      fun st' h' => scan_found lip lkey loopNode loopNid origLoop fromPos pops rest (i + 1) st' r n h' hn
    have lift : ∀ st', scanChildren K s lip lkey loopNode loopNid origLoop fromPos pops (i + 1) st' rest = .found r →
        (∃ (j : Nat) (c' : Node), (c :: rest)[j]? = some c' ∧ c'.isSeg = true ∧ isMatch K c' s = true ∧ ¬ c'.pos < fromPos ∧
          ((∃ ln d, loopNode = some ln ∧ lmB K s ln = true ∧ gotoPath K s ln = some d ∧ n = lip ++ d ++ [0] ∧
              (((loopNid == origLoop) = true ∧ r.pops = [lip] ∧ r.pushes = [lip]) ∨
               ((loopNid == origLoop) = false ∧ r.pops = pops ∧ r.pushes = chain lip d))) ∨
           ((loopNode = none ∨ ∃ ln, loopNode = some ln ∧ lmB K s ln = false) ∧ n = lip ++ [i + j] ∧
              r.pops = pops ∧ r.pushes = []))) ∨
        (∃ (j : Nat) (c' : Node) (d : List Nat), (c :: rest)[j]? = some c' ∧ c'.isSeg = false ∧ ¬ c'.pos < fromPos ∧
          lmB K s c' = true ∧ gotoPath K s c' = some d ∧ n = lip ++ [i + j] ++ d ++ [0] ∧ r.pops = pops ∧
          r.pushes = chain (lip ++ [i + j]) d) := by
      intro st' h'
      rcases shift st' h' with ⟨j, c', h1, h2, h3, h4, h5⟩ | ⟨j, c', d, h1, h2, h3, h4, h5, h6, h7⟩
      · left
        refine ⟨j + 1, c', by simpa using h1, h2, h3, h4, ?_⟩
        have e : i + 1 + j = i + (j + 1) := by omega
        rw [e] at h5; exact h5
      · right
        have e : i + 1 + j = i + (j + 1) := by omega
        rw [e] at h6 h7
        exact ⟨j + 1, c', d, by simpa using h1, h2, h3, h4, h5, h6, h7⟩
    simp only [scanChildren] at h
    by_cases hpos : c.pos < fromPos
    · simp only [hpos, ↓reduceIte] at h; exact lift _ h
    · simp only [hpos, ↓reduceIte] at h
      cases hseg : c.isSeg with
      | true =>
        simp only [hseg, ↓reduceIte] at h
        cases hm : isMatch K c s with
        | false =>
          simp only [hm, Bool.false_eq_true, ↓reduceIte] at h
          split at h
          · exact lift _ h
          · exact lift _ h
        | true =>
          simp only [hm, ↓reduceIte] at h
          left
          refine ⟨0, c, by simp, hseg, hm, hpos, ?_⟩
          cases loopNode with
          | none =>
            simp only [scanChildren.scanSegMatched, Scan.found.injEq] at h
            subst h
            simp only [Option.some.injEq] at hn
            right
            exact ⟨Or.inl rfl, by simpa using hn.symm, rfl, rfl⟩
          | some ln =>
            simp only at h
            have hb := isLoopMatch_fst (K := K) (s := s) ln lip lkey st
            cases hlm : isLoopMatch K s lip lkey st ln with
            | mk b st1 =>
              rw [hlm] at hb h; simp only at hb
              cases b with
              | false =>
                simp only [scanChildren.scanSegMatched, Scan.found.injEq] at h
                subst h
                simp only [Option.some.injEq] at hn
                right
                exact ⟨Or.inr ⟨ln, rfl, hb.symm⟩, by simpa using hn.symm, rfl, rfl⟩
              | true =>
                simp only at h
                have hg := gotoSegMatch_fst (K := K) (s := s) ln lip lkey st1
                cases hgm : gotoSegMatch K s lip lkey st1 ln with
                | mk res st2 =>
                  rw [hgm] at hg h; simp only at hg
                  cases res with
                  | none =>
                    simp only at h
                    split at h <;> (simp only [Scan.found.injEq] at h; subst h; simp at hn)
                  | some np =>
                    obtain ⟨n', push⟩ := np
                    cases hp : gotoPath K s ln with
                    | none => rw [hp] at hg; simp at hg
                    | some d =>
                      rw [hp] at hg
                      simp only [Option.map_some, Option.some.injEq, gotoRes, Prod.mk.injEq] at hg
                      obtain ⟨hn', hpush⟩ := hg
                      left
                      refine ⟨ln, d, rfl, hb.symm, hp, ?_⟩
                      simp only at h
                      by_cases hid : (loopNid == origLoop) = true
                      · simp only [hid, ↓reduceIte, Scan.found.injEq] at h
                        subst h
                        simp only [Option.some.injEq] at hn
                        exact ⟨by rw [← hn, hn'], Or.inl ⟨hid, rfl, rfl⟩⟩
                      · simp only [hid, Bool.false_eq_true, ↓reduceIte, Scan.found.injEq] at h
                        subst h
                        simp only [Option.some.injEq] at hn
                        exact ⟨by rw [← hn, hn'], Or.inr ⟨by simpa using hid, rfl, hpush⟩⟩
      | false =>
        simp only [hseg, Bool.false_eq_true, ↓reduceIte] at h
        have hb := isLoopMatch_fst (K := K) (s := s) c (lip ++ [i]) (lkey ++ [c.comp]) st
        cases hlm : isLoopMatch K s (lip ++ [i]) (lkey ++ [c.comp]) st c with
        | mk b st1 =>
          rw [hlm] at hb h; simp only at hb
          cases b with
          | false => simp only at h; exact lift _ h
          | true =>
            simp only at h
            have hg := gotoSegMatch_fst (K := K) (s := s) c (lip ++ [i]) (lkey ++ [c.comp]) st1
            cases hgm : gotoSegMatch K s (lip ++ [i]) (lkey ++ [c.comp]) st1 c with
            | mk res st2 =>
              rw [hgm] at hg h; simp only at hg
              cases res with
              | none => simp only [Scan.found.injEq] at h; subst h; simp at hn
              | some np =>
                obtain ⟨n', push⟩ := np
                cases hp : gotoPath K s c with
                | none => rw [hp] at hg; simp at hg
                | some d =>
                  rw [hp] at hg
                  simp only [Option.map_some, Option.some.injEq, gotoRes, Prod.mk.injEq] at hg
                  obtain ⟨hn', hpush⟩ := hg
                  simp only [Scan.found.injEq] at h
                  subst h
                  simp only [Option.some.injEq] at hn
                  right
                  exact ⟨0, c, d, by simp, hseg, hpos, hb.symm, hp, by rw [← hn, hn']; simp, rfl, by simpa using hpush⟩

/-- a scan that found nothing was not accepted by any loop child at or after the start position -/
theorem scan_notHere {K : Consts} {s : SegData} (lip : List Nat) (lkey : PathKey) (loopNode : Option Node)
    (loopNid origLoop : NodeId) (fromPos : Nat) (pops : List (List Nat)) :
    ∀ (rest : List Node) (i : Nat) (st st' : WState),
    scanChildren K s lip lkey loopNode loopNid origLoop fromPos pops i st rest = .notHere st' →
    ∀ (j : Nat) (c : Node), rest[j]? = some c → c.isSeg = false → ¬ c.pos < fromPos → lmB K s c = false
  | [], _, _, _, _, j, c, hc, _, _ => by simp at hc
  | c :: rest, i, st, st', h, j, c', hc, hns, hpos' => by
    have ih := fun st1 h1 => scan_notHere (K := K) (s := s) lip lkey loopNode loopNid origLoop fromPos pops rest (i + 1) st1 st' h1
    simp only [scanChildren] at h
    by_cases hpos : c.pos < fromPos
    · simp only [hpos, ↓reduceIte] at h
      cases j with
      | zero => simp at hc; subst hc; exact absurd hpos hpos'
      | succ m => exact ih _ h m c' (by simpa using hc) hns hpos'
    · simp only [hpos, ↓reduceIte] at h
      cases hseg : c.isSeg with
      | true =>
        simp only [hseg, ↓reduceIte] at h
        have key : ∀ st1, scanChildren K s lip lkey loopNode loopNid origLoop fromPos pops (i + 1) st1 rest = .notHere st' →
            lmB K s c' = false := by
          intro st1 h1
          cases j with
          | zero => simp at hc; subst hc; rw [hseg] at hns; cases hns
          | succ m => exact ih _ h1 m c' (by simpa using hc) hns hpos'
        cases hm : isMatch K c s with
        | false =>
          simp only [hm, Bool.false_eq_true, ↓reduceIte] at h
          split at h
          · exact key _ h
          · exact key _ h
        | true =>
          simp only [hm, ↓reduceIte] at h
          exfalso
          cases loopNode with
          | none => simp [scanChildren.scanSegMatched] at h
          | some ln =>
            simp only at h
            cases hlm : isLoopMatch K s lip lkey st ln with
            | mk b st1 =>
              rw [hlm] at h
              cases b with
              | false => simp [scanChildren.scanSegMatched] at h
              | true =>
                simp only at h
                cases hgm : gotoSegMatch K s lip lkey st1 ln with
                | mk res st2 =>
                  rw [hgm] at h
                  cases res with
                  | none => simp only at h; split at h <;> cases h
                  | some np => simp only at h; split at h <;> cases h
      | false =>
        simp only [hseg, Bool.false_eq_true, ↓reduceIte] at h
        have hb := isLoopMatch_fst (K := K) (s := s) c (lip ++ [i]) (lkey ++ [c.comp]) st
        cases hlm : isLoopMatch K s (lip ++ [i]) (lkey ++ [c.comp]) st c with
        | mk b st1 =>
          rw [hlm] at hb h; simp only at hb
          cases b with
          | false =>
            simp only at h
            cases j with
            | zero => simp at hc; subst hc; exact hb.symm
            | succ m => exact ih _ h m c' (by simpa using hc) hns hpos'
          | true =>
            simp only at h
            cases hgm : gotoSegMatch K s (lip ++ [i]) (lkey ++ [c.comp]) st1 c with
            | mk res st2 =>
              rw [hgm] at h
              cases res <;> cases h

/-! ### the loops pushed on the way down -/

theorem chain_head (ip : List Nat) (d : List Nat) : ∃ t, chain ip d = ip :: t := by
  cases d with
  | nil => exact ⟨[], rfl⟩
  | cons i r => exact ⟨_, rfl⟩

/-- pushing the chain below child `j` of the loop at `q0` leads to the loop `q0 ++ [j] ++ d`, which starts with a
    segment the data segment matches -/
theorem chain_push {K : Consts} {s : SegData} {root : List Node} : ∀ (d : List Nat) (q0 : List Nat) (j : Nat)
    (ch0 : List Node) (c : Node), chAt root q0 = some ch0 → ch0[j]? = some c → c.isSeg = false → EndsAt K s c d →
    Ctx.pushRun (stackAt root q0) (cvPushes root (chain (q0 ++ [j]) d)) = some (stackAt root (q0 ++ [j] ++ d)) ∧
    ∃ sub, chAt root (q0 ++ [j] ++ d) = some sub ∧ headMatches K s sub = true
  | [], q0, j, ch0, c, h0, hc, hns, he => by
    simp only [EndsAt] at he
    cases c with
    | seg => simp [Node.isSeg] at hns
    | loop l p u r w sub =>
      refine ⟨?_, sub, by simp [chAt_snoc h0, hc], by simpa [Node.children] using he⟩
      simp only [chain, cvPushes, List.map_cons, List.map_nil, List.append_nil]
      rw [pushRun_one h0 hc]; simp [Ctx.pushRun]
  | i :: r, q0, j, ch0, c, h0, hc, hns, he => by
    simp only [EndsAt] at he
    obtain ⟨c', hc', hns', he'⟩ := he
    cases c with
    | seg => simp [Node.isSeg] at hns
    | loop l p u rep w sub =>
      have hsub : chAt root (q0 ++ [j]) = some sub := by simp [chAt_snoc h0, hc]
      simp only [Node.children] at hc'
      obtain ⟨ih1, ih2⟩ := chain_push r (q0 ++ [j]) i sub c' hsub hc' hns' he'
      have e : q0 ++ [j] ++ i :: r = q0 ++ [j] ++ [i] ++ r := by simp
      rw [e]
      refine ⟨?_, ih2⟩
      simp only [chain, cvPushes, List.map_cons]
      rw [pushRun_one h0 hc]
      exact ih1

/-- all but the last loop of the chain are wrapper loops -/
theorem chain_transparent {root : List Node} : ∀ (d : List Nat) (q0 : List Nat) (j : Nat)
    (ch0 : List Node) (c : Node), chAt root q0 = some ch0 → ch0[j]? = some c → c.isSeg = false → TransChain c d →
    ∀ p ∈ (chain (q0 ++ [j]) d).dropLast, ∃ sub, chAt root p = some sub ∧ p ≠ [] ∧ firstIsLoop sub = true
  | [], _, _, _, _, _, _, _, _ => by simp [chain]
  | i :: r, q0, j, ch0, c, h0, hc, hns, ht => by
    simp only [TransChain] at ht
    obtain ⟨hT, c', hc', hns', ht'⟩ := ht
    cases c with
    | seg => simp [Node.isSeg] at hns
    | loop l p u rep w sub =>
      have hsub : chAt root (q0 ++ [j]) = some sub := by simp [chAt_snoc h0, hc]
      simp only [Node.children] at hc' hT
      intro q hq
      obtain ⟨t, ht2⟩ := chain_head (q0 ++ [j] ++ [i]) r
      simp only [chain, ht2, List.dropLast_cons_cons, List.mem_cons] at hq
      rcases hq with rfl | hq
      · exact ⟨sub, hsub, by simp, hT⟩
      · apply chain_transparent r (q0 ++ [j]) i sub c' hsub hc' hns' ht'
        rw [ht2]; exact hq

/-! ### static hypotheses at a path -/

structure Static (K : Consts) (root : List Node) : Prop where
  wf : WFAt root
  u : UAt K root
  loops : allLoops root = true
  strict : strictList root = true

theorem static_of {K : Consts} {root : List Node} (hwf : WFMap root = true) (hun : Unambiguous K root = true)
    (hok : CtxMapOK root = true) : Static K root := by
  simp only [CtxMapOK, Bool.and_eq_true] at hok
  exact ⟨wfAt_root hwf, uAt_root hun, hok.1, hok.2⟩

theorem strictList_get {ch : List Node} (h : strictList ch = true) {i : Nat} {c : Node} (hc : ch[i]? = some c) :
    strictNode c = true := by
  induction ch generalizing i with
  | nil => simp at hc
  | cons a r ih =>
    simp only [strictList, Bool.and_eq_true] at h
    cases i with
    | zero => simp at hc; subst hc; exact h.1
    | succ n => simp at hc; exact ih h.2 hc

theorem strict_chAt {root : List Node} (h : strictList root = true) : ∀ (p : List Nat) (ch : List Node),
    chAt root p = some ch → strictList ch = true ∧ (p ≠ [] → strictHead ch = true) := by
  intro p
  induction p generalizing root with
  | nil => intro ch hc; simp only [chAt, Option.some.injEq] at hc; subst hc; exact ⟨h, fun e => absurd rfl e⟩
  | cons i r ih =>
    intro ch hc
    simp only [chAt] at hc
    split at hc
    · rename_i lid pos u rep w sub heq
      have := strictList_get h heq
      simp only [strictNode, Bool.and_eq_true] at this
      obtain ⟨h1, h2⟩ := ih this.2 ch hc
      refine ⟨h1, fun _ => ?_⟩
      cases r with
      | nil => simp only [chAt, Option.some.injEq] at hc; subst hc; exact this.1
      | cons j r' => exact h2 (by simp)
    · cases hc

theorem loopsAfter_get {p : Nat} {r : List Node} (h : loopsAfter p r = true) {i : Nat} {c : Node} (hc : r[i]? = some c)
    (hns : c.isSeg = false) : p < c.pos := by
  induction r generalizing i with
  | nil => simp at hc
  | cons a r ih =>
    simp only [loopsAfter, Bool.and_eq_true, Bool.or_eq_true, decide_eq_true_eq] at h
    cases i with
    | zero =>
      simp at hc; subst hc
      rcases h.1 with h1 | h1
      · rw [hns] at h1; cases h1
      · exact h1
    | succ n => simp at hc; exact ih h.2 hc

theorem idAt_of_nodeAt {root : List Node} {ip : List Nat} {n : Node} (hne : ip ≠ []) (h : nodeAt root ip = some n) :
    idAt root ip = n.ident := by
  cases ip with
  | nil => exact absurd rfl hne
  | cons a r => simp [idAt, h]

/-- a loop that has a segment child starts with a segment -/
theorem first_seg_of_seg_child {u : Nat} {ch : List Node} (hw : transparentOK u ch = true) {j : Nat} {c : Node}
    (hc : ch[j]? = some c) (hseg : c.isSeg = true) : ∃ first rest, ch = first :: rest ∧ first.isSeg = true := by
  cases ch with
  | nil => simp at hc
  | cons first rest =>
    refine ⟨first, rest, rfl, ?_⟩
    cases hfs : first.isSeg with
    | true => rfl
    | false =>
      exfalso
      simp only [transparentOK, firstIsLoop, hfs, Bool.not_false, Bool.not_true, Bool.false_or, Bool.and_eq_true] at hw
      have := allLoops_get hw.2 hc
      rw [hseg] at this; cases this

/-! ### what one answer of the walker looks like to the reader -/

/-- the reader can replay the answer: the pops close open loops innermost first up to the loop at `P` (the node last
    placed there has position `lastC`), the pushes open the chain of child loops from `P` down to the loop `nd` of the
    returned node `n = nd ++ [i]`, which is the first child exactly when something was pushed; positions do not
    decrease; all pushed loops but the innermost are wrappers -/
def StepFacts (root : List Node) (L : List Nat) (curPos : Nat) (n : List Nat) (pops pushes : List (List Nat)) : Prop :=
  ∃ (P nd : List Nat) (lastC i : Nat) (ch : List Node) (c : Node),
    Ctx.popRun (stackAt root L) curPos (cvPops root pops) = some (stackAt root P, lastC) ∧
    Ctx.pushRun (stackAt root P) (cvPushes root pushes) = some (stackAt root nd) ∧
    n = nd ++ [i] ∧ LoopAt root nd ∧ chAt root nd = some ch ∧ ch[i]? = some c ∧ c.isSeg = true ∧
    (pushes = [] → i ≠ 0) ∧ (pushes ≠ [] → i = 0) ∧
    (nd = L → pops.length ≤ 1) ∧
    (∀ p0 rest, pushes = p0 :: rest → lastC ≤ posAt root p0) ∧
    (∀ p ∈ pushes.dropLast, ∃ sub, chAt root p = some sub ∧ p ≠ [] ∧ firstIsLoop sub = true)

/-- what the `while True` of `walk` has accumulated when it scans the loop at `lip` -/
structure Acc (K : Consts) (s : SegData) (root : List Node) (L : List Nat) (curPos : Nat) (lip : List Nat) (fromPos : Nat)
    (pops : List (List Nat)) : Prop where
  pre : lip <+: L
  len : pops.length + lip.length = L.length
  pop : Ctx.popRun (stackAt root L) curPos (cvPops root pops) = some (stackAt root lip, fromPos)
  from_ : lip ≠ L → ∃ iM, lip ++ [iM] <+: L ∧ fromPos = posAt root (lip ++ [iM])
  re : 2 ≤ pops.length → ∃ ln, nodeAt root L = some ln ∧ lmB K s ln = false

theorem lmB_of_headMatches {K : Consts} {s : SegData} {root : List Node} {p : List Nat} {sub : List Node}
    (hne : p ≠ []) (h : chAt root p = some sub) (hm : headMatches K s sub = true) :
    ∃ ln, nodeAt root p = some ln ∧ lmB K s ln = true := by
  obtain ⟨p0, a, ch, lid, pos, u, r, w, sub', rfl, h1, h2, h3⟩ := LoopAt.split ⟨hne, sub, h⟩
  rw [h] at h3; simp only [Option.some.injEq] at h3; subst h3
  exact ⟨_, by rw [nodeAt_snoc h1]; exact h2, by rw [lmB_loop]; exact lmHead_of_headMatches hm⟩

/-- the answer found while scanning the children of the loop at `lip` -/
theorem found_facts {K : Consts} {s : SegData} {root : List Node} (hs : Static K root) {L : List Nat}
    (hL : ∃ chL, chAt root L = some chL) {curPos : Nat} {lip : List Nat} {ch : List Node} (hch : chAt root lip = some ch)
    {loopNode : Option Node}
    (hln : (lip = [] ∧ loopNode = none) ∨
      ∃ p0 a pch l p u r w, lip = p0 ++ [a] ∧ chAt root p0 = some pch ∧ pch[a]? = some (.loop l p u r w ch) ∧
        loopNode = some (.loop l p u r w ch))
    {loopNid origLoop : NodeId} (hid : lip = L → lip ≠ [] → (loopNid == origLoop) = true)
    {fromPos : Nat} {pops : List (List Nat)} (acc : Acc K s root L curPos lip fromPos pops) {lkey : PathKey} {st : WState}
    {r : WalkResult} {n : List Nat}
    (h : scanChildren K s lip lkey loopNode loopNid origLoop fromPos pops 0 st ch = .found r) (hn : r.node = some n) :
    StepFacts root L curPos n r.pops r.pushes := by
  have hwfch := wfAt_chAt hs.wf hch
  have huch := uAt_chAt hs.u hch
  rcases scan_found lip lkey loopNode loopNid origLoop fromPos pops ch 0 st r n h hn with
    ⟨j, c, hc, hseg, hm, hpos, hS | hM⟩ | ⟨j, c, d, hc, hns, hpos, hlm, hg, hnn, hpops, hpushes⟩
  · -- the segment child starts a repeat of the loop being scanned
    obtain ⟨ln, d, hlnode, hlm, hg, hnn, hcase⟩ := hS
    rcases hln with ⟨_, hnone⟩ | ⟨p0, a, pch, l, p, u, rp, w, hlip, hpch, hai, hsome⟩
    · rw [hnone] at hlnode; cases hlnode
    rw [hsome] at hlnode; simp only [Option.some.injEq] at hlnode; subst hlnode
    have hwn := wfNode_at hs.wf hpch hai
    simp only [wfNode, Bool.and_eq_true] at hwn
    obtain ⟨first, rest, hchf, hfs⟩ := first_seg_of_seg_child hwn.1.2 hc hseg
    subst hchf
    have hfm : isMatch K first s = true := by
      cases first with
      | loop => simp [Node.isSeg] at hfs
      | seg => simpa [lmB, lmHead] using hlm
    have hhm : headMatches K s (first :: rest) = true := by simp [headMatches, hfs, hfm]
    have hd : d = [] := by
      rw [gotoPath_loop, hhm] at hg; simpa using hg.symm
    subst hd
    have hne : lip ≠ [] := by rw [hlip]; simp
    by_cases hlL : lip = L
    · -- the enclosing loop of the current node: a repeat
      have hidt := hid hlL hne
      rcases hcase with ⟨_, hpops, hpushes⟩ | ⟨hf, _⟩
      · subst hlL
        refine ⟨p0, lip, p, 0, first :: rest, first, ?_, ?_, by simpa using hnn, ⟨hne, _, hch⟩, hch, by simp, hfs,
          ?_, fun _ => rfl, ?_, ?_, ?_⟩
        · rw [hpops, hlip]; simp only [cvPops, List.map_cons, List.map_nil]
          rw [popRun_one hpch hai]; simp [Ctx.popRun, Node.pos]
        · rw [hpushes, hlip]; simp only [cvPushes, List.map_cons, List.map_nil]
          rw [pushRun_one hpch hai]; simp [Ctx.pushRun]
        · intro e; rw [hpushes] at e; cases e
        · intro _; rw [hpops]; simp
        · intro q0 rest' e
          rw [hpushes] at e; simp only [List.cons.injEq] at e
          rw [← e.1, hlip, posAt_snoc hpch hai]; simp [Node.pos]
        · rw [hpushes]; simp
      · rw [hidt] at hf; cases hf
    · -- an enclosing loop further up: its first segment lies before the child loop the walk came from
      exfalso
      obtain ⟨iM, hiM, hfrom⟩ := acc.from_ hlL
      obtain ⟨chL, hchL⟩ := hL
      obtain ⟨chM, hchM⟩ := chAt_prefix hchL hiM
      rw [chAt_snoc hch] at hchM
      split at hchM
      · rename_i lM pM uM rM wM subM heqM
        have hposM : posAt root (lip ++ [iM]) = pM := by rw [posAt_snoc hch heqM]; rfl
        have hj0 : j = 0 := by
          apply Classical.byContradiction
          intro hj
          have hf0 : (first :: rest)[0]? = some first := by simp
          have hhit : ∃ t, t ∈ entry K c ∧ hits s t := by
            cases c with
            | loop => simp [Node.isSeg] at hseg
            | seg a1 a2 a3 a4 a5 a6 a7 => exact ⟨_, by simp [entry], hit_of_isMatch hm⟩
          obtain ⟨t, hte, ht⟩ := hhit
          have hno := sib_noHit huch.sib hf0 hc (fun e => hj e.symm) hte ht
          cases first with
          | loop => simp [Node.isSeg] at hfs
          | seg a1 a2 a3 a4 a5 a6 a7 => exact hno _ (by simp [entry]) (hit_of_isMatch hfm)
        subst hj0
        simp only [List.getElem?_cons_zero, Option.some.injEq] at hc; subst hc
        have hiM0 : iM ≠ 0 := by
          intro e; subst e
          simp only [List.getElem?_cons_zero, Option.some.injEq] at heqM
          rw [heqM] at hfs; simp [Node.isSeg] at hfs
        have hstr := (strict_chAt hs.strict lip _ hch).2 hne
        simp only [strictHead, hfs, Bool.not_true, Bool.false_or] at hstr
        obtain ⟨m, rfl⟩ : ∃ m, iM = m + 1 := ⟨iM - 1, by omega⟩
        have hlt : first.pos < pM :=
          loopsAfter_get hstr (i := m) (c := .loop lM pM uM rM wM subM) (by simpa using heqM) rfl
        rw [hfrom, hposM] at hpos
        omega
      · cases hchM
  · -- a plain segment child
    obtain ⟨hlno, hnn, hpops, hpushes⟩ := hM
    simp only [Nat.zero_add] at hnn
    rcases hln with ⟨hnil, _⟩ | ⟨p0, a, pch, l, p, u, rp, w, hlip, hpch, hai, hsome⟩
    · subst hnil
      simp only [chAt, Option.some.injEq] at hch; subst hch
      have := allLoops_get hs.loops hc
      rw [hseg] at this; cases this
    have hne : lip ≠ [] := by rw [hlip]; simp
    have hj : j ≠ 0 := by
      intro e; subst e
      rcases hlno with hno | ⟨ln, hlnode, hlm⟩
      · rw [hsome] at hno; cases hno
      · rw [hsome] at hlnode; simp only [Option.some.injEq] at hlnode; subst hlnode
        cases ch with
        | nil => simp at hc
        | cons first rest =>
          simp only [List.getElem?_cons_zero, Option.some.injEq] at hc; subst hc
          cases first with
          | loop => simp [Node.isSeg] at hseg
          | seg => simp only [lmB, lmHead] at hlm; rw [hm] at hlm; cases hlm
    refine ⟨lip, lip, fromPos, j, ch, c, by rw [hpops]; exact acc.pop, by rw [hpushes]; simp [cvPushes, Ctx.pushRun],
      hnn, ⟨hne, _, hch⟩, hch, hc, hseg, fun _ => hj, fun e => absurd hpushes e, ?_, ?_, ?_⟩
    · intro e
      have := acc.len; rw [e] at this
      rw [hpops]; omega
    · intro q0 rest' e; rw [hpushes] at e; cases e
    · rw [hpushes]; simp
  · -- a child loop the segment enters
    simp only [Nat.zero_add] at hnn hpushes
    have he := gotoPath_endsAt d c hg
    obtain ⟨hpush, sub, hsub, hhm⟩ := chain_push d lip j ch c hch hc hns he
    have hloc := localList_get huch.loc hc
    have htr := chain_transparent d lip j ch c hch hc hns (goto_transparent d c hlm hloc hg)
    have hne : lip ++ [j] ++ d ≠ [] := by simp
    obtain ⟨first, rest, hsubf, hfs, _⟩ : ∃ first rest, sub = first :: rest ∧ first.isSeg = true ∧ isMatch K first s = true := by
      cases sub with
      | nil => simp [headMatches] at hhm
      | cons first rest => exact ⟨first, rest, rfl, by simpa [headMatches] using hhm⟩
    refine ⟨lip, lip ++ [j] ++ d, fromPos, 0, sub, first, by rw [hpops]; exact acc.pop, by rw [hpushes]; exact hpush,
      hnn, ⟨hne, _, hsub⟩, hsub, by rw [hsubf]; simp, hfs, ?_, fun _ => rfl, ?_, ?_, by rw [hpushes]; exact htr⟩
    · intro e
      obtain ⟨t, ht⟩ := chain_head (lip ++ [j]) d
      rw [hpushes, ht] at e; cases e
    · intro e
      rw [hpops]
      apply Classical.byContradiction
      intro hlen
      obtain ⟨ln, hln1, hln2⟩ := acc.re (by omega)
      obtain ⟨ln', hln1', hln2'⟩ := lmB_of_headMatches hne hsub hhm
      rw [e, hln1] at hln1'; simp only [Option.some.injEq] at hln1'; subst hln1'
      rw [hln2] at hln2'; cases hln2'
    · intro q0 rest' e
      obtain ⟨t, ht⟩ := chain_head (lip ++ [j]) d
      rw [hpushes, ht] at e; simp only [List.cons.injEq] at e
      rw [← e.1, posAt_snoc hch hc]; omega

/-! ### the `while True` of `walk` -/

theorem walkUp_level' {K : Consts} {root : List Node} {rootId : Nat} {s : SegData} {origLoop : NodeId} {orig : List Nat}
    {p : List Nat} {i : Nat} {ch : List Node} (h : chAt root (p ++ [i]) = some ch)
    (fromPos : Nat) (pops : List (List Nat)) (st : WState) :
    ∃ pch l pos u r w, chAt root p = some pch ∧ pch[i]? = some (.loop l pos u r w ch) ∧
      walkUp K root rootId s origLoop orig (p ++ [i]).reverse fromPos pops st =
      (match scanChildren K s (p ++ [i]) (keyAt root (p ++ [i])) (some (.loop l pos u r w ch)) (l, idAt root p) origLoop
          fromPos pops 0 st ch with
       | .found r => r
       | .notHere st' => walkUp K root rootId s origLoop orig p.reverse pos (pops ++ [p ++ [i]]) st') := by
  obtain ⟨pch, lid, pos, u, r, w, hp, hi, hn⟩ := nodeAt_of_chAt h
  refine ⟨pch, lid, pos, u, r, w, hp, hi, ?_⟩
  have hrev : (p ++ [i]).reverse = i :: p.reverse := by simp
  rw [hrev, walkUp]
  have hrev2 : (i :: p.reverse).reverse = p ++ [i] := by simp
  simp only [hrev2, hn, Node.children, Node.ident, Node.pos, List.reverse_reverse]
  rfl

theorem cvPops_append (root : List Node) (a b : List (List Nat)) : cvPops root (a ++ b) = cvPops root a ++ cvPops root b := by
  simp [cvPops]

theorem walkUp_facts {K : Consts} {s : SegData} {root : List Node} {rootId : Nat} (hs : Static K root) {L : List Nat}
    (hL : ∃ chL, chAt root L = some chL) {curPos : Nat} {orig : List Nat} :
    ∀ (k : Nat) (lip : List Nat) (fromPos : Nat) (pops : List (List Nat)) (st : WState), lip.length = k →
      Acc K s root L curPos lip fromPos pops → ∀ (r : WalkResult) (n : List Nat),
      walkUp K root rootId s (idAt root L, idAt root L.dropLast) orig lip.reverse fromPos pops st = r →
      r.node = some n → StepFacts root L curPos n r.pops r.pushes := by
  intro k
  induction k with
  | zero =>
    intro lip fromPos pops st hlen acc r n hw hn
    have hnil : lip = [] := List.eq_nil_of_length_eq_zero hlen
    subst hnil
    simp only [List.reverse_nil] at hw
    rw [walkUp_root] at hw
    cases hsc : scanChildren K s [] [] none (rootId, 0) (idAt root L, idAt root L.dropLast) fromPos pops 0 st root with
    | found r' =>
      rw [hsc] at hw; simp only at hw; subst hw
      exact found_facts hs hL (lip := []) rfl (Or.inl ⟨rfl, rfl⟩) (fun _ e => absurd rfl e) acc hsc hn
    | notHere st' =>
      rw [hsc] at hw; simp only at hw; subst hw
      simp at hn
  | succ k ih =>
    intro lip fromPos pops st hlen acc r n hw hn
    have hne : lip ≠ [] := by intro e; subst e; simp at hlen
    obtain ⟨p, a, rfl⟩ : ∃ p a, lip = p ++ [a] := ⟨lip.dropLast, lip.getLast hne, (List.dropLast_concat_getLast hne).symm⟩
    obtain ⟨chL, hchL⟩ := hL
    obtain ⟨ch, hch⟩ := chAt_prefix hchL acc.pre
    obtain ⟨pch, l, pos, u, rp, w, hpch, hai, hwu⟩ := walkUp_level' (K := K) (rootId := rootId) (s := s)
      (origLoop := (idAt root L, idAt root L.dropLast)) (orig := orig) hch fromPos pops st
    rw [hwu] at hw
    have hnode : nodeAt root (p ++ [a]) = some (.loop l pos u rp w ch) := by rw [nodeAt_snoc hpch]; exact hai
    cases hsc : scanChildren K s (p ++ [a]) (keyAt root (p ++ [a])) (some (.loop l pos u rp w ch)) (l, idAt root p)
        (idAt root L, idAt root L.dropLast) fromPos pops 0 st ch with
    | found r' =>
      rw [hsc] at hw; simp only at hw; subst hw
      refine found_facts hs ⟨chL, hchL⟩ hch (Or.inr ⟨p, a, pch, l, pos, u, rp, w, rfl, hpch, hai, rfl⟩) ?_ acc hsc hn
      intro e _
      rw [← e, idAt_of_nodeAt hne hnode]
      simp [Node.ident]
    | notHere st' =>
      rw [hsc] at hw; simp only at hw
      have hplen : p.length = k := by simp at hlen; omega
      refine ih p pos (pops ++ [p ++ [a]]) st' hplen ?_ r n hw hn
      have hpL : p <+: L := List.IsPrefix.trans (List.prefix_append _ _) acc.pre
      refine ⟨hpL, ?_, ?_, ?_, ?_⟩
      · have := acc.len; simp at this ⊢; omega
      · rw [cvPops_append, popRun_append, acc.pop]
        simp only [cvPops, List.map_cons, List.map_nil]
        rw [popRun_one hpch hai]; simp [Ctx.popRun, Node.pos]
      · intro _
        exact ⟨a, acc.pre, by rw [posAt_snoc hpch hai]; rfl⟩
      · intro h2
        by_cases h3 : 2 ≤ pops.length
        · exact acc.re h3
        · have hp1 : pops.length = 1 := by simp at h2; omega
          have hlL : p ++ [a] ≠ L := by
            intro e
            have := acc.len; rw [e] at this; omega
          obtain ⟨iM, hiM, hfrom⟩ := acc.from_ hlL
          have heq : p ++ [a] ++ [iM] = L := by
            apply prefix_eq_of_length hiM
            have := acc.len; simp at this ⊢; omega
          rw [← heq] at hchL
          obtain ⟨ch', lM, pM, uM, rM, wM, hch', hcM, hnM⟩ := nodeAt_of_chAt hchL
          rw [hch] at hch'; simp only [Option.some.injEq] at hch'; subst hch'
          refine ⟨_, by rw [← heq]; exact hnM, ?_⟩
          apply scan_notHere _ _ _ _ _ _ _ _ _ _ _ hsc iM _ hcM rfl
          rw [hfrom, posAt_snoc hch hcM]; simp [Node.pos]

/-- an index path that leads to a segment node -/
def SegAt (root : List Node) (cur : List Nat) : Prop :=
  ∃ L i ch c, cur = L ++ [i] ∧ chAt root L = some ch ∧ ch[i]? = some c ∧ c.isSeg = true

/-- **the shape of one walker answer** -/
theorem walk_facts {K : Consts} {s : SegData} {root : List Node} {rootId : Nat} (hs : Static K root) {cur : List Nat}
    (hcur : SegAt root cur) (cnt : Counter) {n : List Nat} (h : (walk K root rootId cnt cur s).node = some n) :
    StepFacts root cur.dropLast (posAt root cur) n (walk K root rootId cnt cur s).pops
      (walk K root rootId cnt cur s).pushes := by
  obtain ⟨L, i, ch, c, rfl, hch, hc, hseg⟩ := hcur
  have hnode : nodeAt root (L ++ [i]) = some c := by rw [nodeAt_snoc hch]; exact hc
  have hdl : (L ++ [i]).dropLast = L := by simp
  have hw : walk K root rootId cnt (L ++ [i]) s =
      walkUp K root rootId s (idAt root L, idAt root L.dropLast) (L ++ [i]) L.reverse c.pos []
        { cnt := cnt, pending := [], errs := [] } := by
    simp only [walk, hnode, hdl]
  rw [hdl]
  refine walkUp_facts hs ⟨ch, hch⟩ L.length L c.pos [] _ rfl ?_ _ n hw.symm h
  refine ⟨List.prefix_refl _, by simp, ?_, fun e => absurd rfl e, fun e => by simp at e⟩
  simp [cvPops, Ctx.popRun, posAt, hnode]

end Pyx12Verif.CtxWalk
