/-
Declarative reading of `get_error_list` / `gen_seg` (which stored error tuples are written for a node handed to
`gen_seg` at a segment with a given identifier) and its equivalence with the list-building model `shown`.
-/
import Pyx12Verif.Model.ErrIter

namespace Pyx12Verif.ErrIter
open Pyx12Verif.ErrTree

/-! ### specification side -/

/-- `p` occurs in `s` (Python `p in s`) -/
def Occurs (p s : Str) : Prop := ∃ u v, s = u ++ p ++ v

/-- which codes `node.get_error_list(sid)` lets through, per node class -/
def NodeSel : Addr → Str → Str → Prop
  | .root, _, _ => False
  | .isa _, sid, c => (sid = sISA ∧ Occurs sISA c) ∨ (sid = sIEA ∧ Occurs sIEA c)
  | .gs _ _, sid, c => (sid = sGS ∧ (c = [] ∨ c = ['6'])) ∨ (sid = sGE ∧ c ≠ [] ∧ c ≠ ['6'])
  | .st _ _ _, sid, c => (sid = sST ∧ c ∈ stCodes) ∨ (sid = sSE ∧ c ∉ stCodes)
  | .seg _ _ _ _, _, _ => True

/-- the code of a stored tuple (`none`: no such tuple in the tree) -/
def codeOf (t : Tree) : ErrRef → Option Str
  | .node a n => (nodeCodes t a)[n]?
  | .ele a e n => ((nodeEles t a)[e]?).bind (fun x => (x.errors[n]?).map (·.code))

/-- the tuple exists in the tree -/
def Stored (t : Tree) (r : ErrRef) : Prop := (codeOf t r).isSome = true

instance (t : Tree) (r : ErrRef) : Decidable (Stored t r) := by unfold Stored; exact inferInstance

/-- the tuple exists and passes the selection of `gen_seg` for a segment with identifier `sid` -/
def Selected (t : Tree) (sid : Str) : ErrRef → Prop
  | .node a n => ∃ c, (nodeCodes t a)[n]? = some c ∧ NodeSel a sid c
  | .ele a e n => ∃ x y, (nodeEles t a)[e]? = some x ∧ x.errors[n]? = some y ∧ ¬ (sid = sGE ∧ Occurs sGS y.msg)

theorem Selected.stored (t : Tree) (sid : Str) (r : ErrRef) (h : Selected t sid r) : Stored t r := by
  cases r with
  | node a n => obtain ⟨c, hc, _⟩ := h; simp [Stored, codeOf, hc]
  | ele a e n => obtain ⟨x, y, hx, hy, _⟩ := h; simp [Stored, codeOf, hx, hy]

/-! ### substring test -/

theorem isPrefix_iff (p s : Str) : isPrefix p s = true ↔ ∃ v, s = p ++ v := by
  induction p generalizing s with
  | nil => simp [isPrefix]
  | cons a p ih =>
    cases s with
    | nil => simp [isPrefix]
    | cons b s =>
      simp only [isPrefix]
      split
      · rename_i hab
        subst hab
        rw [ih]
        simp
      · rename_i hab
        simp only [Bool.false_eq_true, List.cons_append, List.cons.injEq, false_iff, not_exists, not_and]
        intro v h; exact absurd h.symm hab

theorem isInfix_iff (p s : Str) : isInfix p s = true ↔ Occurs p s := by
  unfold Occurs
  induction s with
  | nil =>
    simp only [isInfix, isPrefix_iff]
    constructor
    · rintro ⟨v, hv⟩; exact ⟨[], v, by simpa using hv⟩
    · rintro ⟨u, v, h⟩
      have : u = [] := by
        cases u with
        | nil => rfl
        | cons x u => simp at h
      subst this
      exact ⟨v, by simpa using h⟩
  | cons c s ih =>
    simp only [isInfix]
    split
    · rename_i hp
      simp only [true_iff]
      obtain ⟨v, hv⟩ := (isPrefix_iff _ _).mp hp
      exact ⟨[], v, by simpa using hv⟩
    · rename_i hp
      rw [ih]
      constructor
      · rintro ⟨u, v, h⟩; exact ⟨c :: u, v, by simp [h]⟩
      · rintro ⟨u, v, h⟩
        cases u with
        | nil =>
          exfalso; apply hp; exact (isPrefix_iff _ _).mpr ⟨v, by simpa using h⟩
        | cons x u =>
          simp only [List.cons_append, List.cons.injEq] at h
          exact ⟨u, v, by simpa using h.2⟩

instance (p s : Str) : Decidable (Occurs p s) := decidable_of_iff _ (isInfix_iff p s)

theorem isInfix_six (c : Str) : isInfix c ['6'] = true ↔ (c = [] ∨ c = ['6']) := by
  rw [isInfix_iff]
  constructor
  · rintro ⟨u, v, h⟩
    cases u with
    | nil =>
      cases c with
      | nil => simp
      | cons x c =>
        simp only [List.nil_append, List.cons_append, List.cons.injEq] at h
        obtain ⟨h1, h2⟩ := h
        have : c = [] := by
          cases c with
          | nil => rfl
          | cons y c => simp at h2
        subst this; subst h1; simp
    | cons x u =>
      simp only [List.cons_append, List.cons.injEq] at h
      have h2 := h.2
      have : c = [] := by
        cases c with
        | nil => rfl
        | cons y c =>
          have := congrArg List.length h2
          simp at this
      simp [this]
  · rintro (h | h)
    · subst h; exact ⟨[], ['6'], rfl⟩
    · subst h; exact ⟨[], [], rfl⟩

theorem nodePass_iff (a : Addr) (sid c : Str) : nodePass a sid c = true ↔ NodeSel a sid c := by
  cases a with
  | root => simp [nodePass, NodeSel]
  | isa i =>
    simp only [nodePass, NodeSel, isaPass]
    split
    · rename_i h; subst h; simp [isInfix_iff, sISA, sIEA]
    · rename_i h
      split
      · rename_i h2; subst h2; simp [isInfix_iff, sISA, sIEA]
      · rename_i h2; simp [h, h2]
  | gs i g =>
    simp only [nodePass, NodeSel, gsPass]
    split
    · rename_i h; subst h; simp [isInfix_six, sGS, sGE]
    · rename_i h
      split
      · rename_i h2; subst h2
        have := isInfix_six c
        cases hb : isInfix c ['6'] <;> simp [hb] at this ⊢ <;> simp [sGS, sGE] <;> grind
      · rename_i h2; simp [h, h2]
  | st i g s =>
    simp only [nodePass, NodeSel, stPass]
    split
    · rename_i h; subst h; simp [sST, sSE]
    · rename_i h
      split
      · rename_i h2; subst h2; simp [sST, sSE]
      · rename_i h2; simp [h, h2]
  | seg i g s k => simp [nodePass, NodeSel]

theorem elePass_iff (sid msg : Str) : elePass sid msg = true ↔ ¬ (sid = sGE ∧ Occurs sGS msg) := by
  unfold elePass
  rw [← isInfix_iff]
  cases isInfix sGS msg <;> simp

/-! ### membership in the lists built by `shown` -/

theorem mem_pickNode (a : Addr) (sid : Str) (n0 : Nat) (l : List Str) (e : Err) :
    e ∈ pickNode a sid n0 l ↔ ∃ j c, l[j]? = some c ∧ nodePass a sid c = true ∧ e = ⟨.node a (n0 + j), c⟩ := by
  induction l generalizing n0 with
  | nil => simp [pickNode]
  | cons x r ih =>
    simp only [pickNode]
    have key : (∃ j c, (x :: r)[j]? = some c ∧ nodePass a sid c = true ∧ e = ⟨.node a (n0 + j), c⟩) ↔
        ((nodePass a sid x = true ∧ e = ⟨.node a n0, x⟩) ∨
          ∃ j c, r[j]? = some c ∧ nodePass a sid c = true ∧ e = ⟨.node a (n0 + 1 + j), c⟩) := by
      constructor
      · rintro ⟨j, c, h1, h2, h3⟩
        cases j with
        | zero => simp at h1; subst h1; left; exact ⟨h2, by simpa using h3⟩
        | succ j => right; exact ⟨j, c, by simpa using h1, h2, by rw [h3]; congr 2; omega⟩
      · rintro (⟨h2, h3⟩ | ⟨j, c, h1, h2, h3⟩)
        · exact ⟨0, x, by simp, h2, by simpa using h3⟩
        · exact ⟨j + 1, c, by simpa using h1, h2, by rw [h3]; congr 2; omega⟩
    rw [key]
    split
    · rename_i hp
      simp only [List.mem_cons, ih, hp, true_and]
    · rename_i hp
      rw [ih]
      constructor
      · intro h; exact Or.inr h
      · rintro (⟨h, _⟩ | h)
        · exact absurd h hp
        · exact h

theorem mem_pickEleErrs (a : Addr) (sid : Str) (ei n0 : Nat) (l : List EleErr) (e : Err) :
    e ∈ pickEleErrs a sid ei n0 l ↔
      ∃ j y, l[j]? = some y ∧ elePass sid y.msg = true ∧ e = ⟨.ele a ei (n0 + j), y.code⟩ := by
  induction l generalizing n0 with
  | nil => simp [pickEleErrs]
  | cons x r ih =>
    simp only [pickEleErrs]
    have key : (∃ j y, (x :: r)[j]? = some y ∧ elePass sid y.msg = true ∧ e = ⟨.ele a ei (n0 + j), y.code⟩) ↔
        ((elePass sid x.msg = true ∧ e = ⟨.ele a ei n0, x.code⟩) ∨
          ∃ j y, r[j]? = some y ∧ elePass sid y.msg = true ∧ e = ⟨.ele a ei (n0 + 1 + j), y.code⟩) := by
      constructor
      · rintro ⟨j, c, h1, h2, h3⟩
        cases j with
        | zero => simp at h1; subst h1; left; exact ⟨h2, by simpa using h3⟩
        | succ j => right; exact ⟨j, c, by simpa using h1, h2, by rw [h3]; congr 2; omega⟩
      · rintro (⟨h2, h3⟩ | ⟨j, c, h1, h2, h3⟩)
        · exact ⟨0, x, by simp, h2, by simpa using h3⟩
        · exact ⟨j + 1, c, by simpa using h1, h2, by rw [h3]; congr 2; omega⟩
    rw [key]
    split
    · rename_i hp
      simp only [List.mem_cons, ih, hp, true_and]
    · rename_i hp
      rw [ih]
      constructor
      · intro h; exact Or.inr h
      · rintro (⟨h, _⟩ | h)
        · exact absurd h hp
        · exact h

theorem mem_pickEles (a : Addr) (sid : Str) (e0 : Nat) (l : List Ele) (e : Err) :
    e ∈ pickEles a sid e0 l ↔
      ∃ i x j y, l[i]? = some x ∧ x.errors[j]? = some y ∧ elePass sid y.msg = true ∧
        e = ⟨.ele a (e0 + i) j, y.code⟩ := by
  induction l generalizing e0 with
  | nil => simp [pickEles]
  | cons x r ih =>
    simp only [pickEles, List.mem_append, ih, mem_pickEleErrs]
    constructor
    · rintro (⟨j, y, h1, h2, h3⟩ | ⟨i, x', j, y, h0, h1, h2, h3⟩)
      · exact ⟨0, x, j, y, by simp, h1, h2, by simpa using h3⟩
      · exact ⟨i + 1, x', j, y, by simpa using h0, h1, h2, by rw [h3]; congr 2; omega⟩
    · rintro ⟨i, x', j, y, h0, h1, h2, h3⟩
      cases i with
      | zero => simp at h0; subst h0; left; exact ⟨j, y, h1, h2, by simpa using h3⟩
      | succ i => right; exact ⟨i, x', j, y, by simpa using h0, h1, h2, by rw [h3]; congr 2; omega⟩

/-- `shown` lists exactly the selected tuples of the node, each with its code -/
theorem mem_shown (t : Tree) (a : Addr) (sid : Str) (e : Err) :
    e ∈ shown t a sid ↔ e.ref.addr = a ∧ Selected t sid e.ref ∧ codeOf t e.ref = some e.code := by
  unfold shown nodeShown eleShown
  rw [List.mem_append, mem_pickNode, mem_pickEles]
  constructor
  · rintro (⟨j, c, h1, h2, h3⟩ | ⟨i, x, j, y, h0, h1, h2, h3⟩)
    · subst h3
      simp only [Nat.zero_add, ErrRef.addr, Selected, codeOf, true_and]
      exact ⟨⟨c, h1, (nodePass_iff _ _ _).mp h2⟩, h1⟩
    · subst h3
      simp only [Nat.zero_add, ErrRef.addr, Selected, codeOf, true_and]
      exact ⟨⟨x, y, h0, h1, (elePass_iff _ _).mp h2⟩, by simp [h0, h1]⟩
  · rintro ⟨ha, hs, hc⟩
    cases e with
    | mk r code =>
      cases r with
      | node a' n =>
        simp only [ErrRef.addr] at ha; subst ha
        obtain ⟨c, h1, h2⟩ := hs
        simp only [codeOf, h1, Option.some.injEq] at hc
        subst hc
        left; exact ⟨n, c, h1, (nodePass_iff _ _ _).mpr h2, by simp⟩
      | ele a' ei n =>
        simp only [ErrRef.addr] at ha; subst ha
        obtain ⟨x, y, h0, h1, h2⟩ := hs
        simp only [codeOf, h0, h1, Option.bind_some, Option.map_some, Option.some.injEq] at hc
        subst hc
        right; exact ⟨ei, x, n, y, h0, h1, (elePass_iff _ _).mpr h2, by simp⟩

theorem mem_frame_shown (f : Frame) (e : Err) :
    e ∈ f.shown ↔ e.ref.addr ∈ f.addrs ∧ Selected f.tree f.sid e.ref ∧ codeOf f.tree e.ref = some e.code := by
  unfold Frame.shown
  rw [List.mem_flatMap]
  constructor
  · rintro ⟨a, ha, he⟩
    obtain ⟨h1, h2, h3⟩ := (mem_shown _ _ _ _).mp he
    exact ⟨by rw [h1]; exact ha, h2, h3⟩
  · rintro ⟨h1, h2, h3⟩
    exact ⟨e.ref.addr, h1, (mem_shown _ _ _ _).mpr ⟨rfl, h2, h3⟩⟩

theorem mem_numberFrom (k0 : Nat) (fs : List Frame) (k : Nat) (e : Err) :
    (k, e) ∈ numberFrom k0 fs ↔ ∃ j f, fs[j]? = some f ∧ k = k0 + j ∧ e ∈ f.shown := by
  induction fs generalizing k0 with
  | nil => simp [numberFrom]
  | cons f r ih =>
    simp only [numberFrom, List.mem_append, List.mem_map, Prod.mk.injEq, ih]
    constructor
    · rintro (⟨e', h1, h2, h3⟩ | ⟨j, f', h1, h2, h3⟩)
      · subst h3; exact ⟨0, f, by simp, by omega, h1⟩
      · exact ⟨j + 1, f', by simpa using h1, by omega, h3⟩
    · rintro ⟨j, f', h1, h2, h3⟩
      cases j with
      | zero => simp at h1; subst h1; left; exact ⟨e, h3, by omega, rfl⟩
      | succ j => right; exact ⟨j, f', by simpa using h1, by omega, h3⟩

/-- the messages of `genSeg` are the messages of `shown` for the nodes of the list (in `gen_seg`'s order) -/
theorem mem_genSeg (t : Tree) (l : List Addr) (sid : Str) (e : Err) :
    Line.err e ∈ genSeg t l sid ↔ ∃ a ∈ l, e ∈ shown t a sid := by
  unfold genSeg shown
  simp only [List.mem_append, List.mem_map, Line.err.injEq, exists_eq_right, List.mem_flatMap, List.mem_filter,
    List.mem_cons, List.not_mem_nil, or_false, reduceCtorEq]
  constructor
  · rintro (⟨a, ha, h1, _⟩ | ⟨a, ha, h⟩)
    · exact ⟨a, ha, Or.inl h1⟩
    · rcases h with ⟨h1, _⟩ | h1
      · exact ⟨a, ha, Or.inl h1⟩
      · exact ⟨a, ha, Or.inr h1⟩
  · rintro ⟨a, ha, h | h⟩
    · by_cases h3 : isCode3 e = true
      · left; exact ⟨a, ha, h, h3⟩
      · right; exact ⟨a, ha, Or.inl ⟨h, by simpa using h3⟩⟩
    · right; exact ⟨a, ha, Or.inr h⟩

end Pyx12Verif.ErrIter
