/-
C02 helper lemmas, part 6: the invariant is preserved by a step, and the generator cursor moves as expected.
-/
import Pyx12Verif.Proofs.WalkerStep

namespace Pyx12Verif.WalkerGen
open Pyx12Verif.MapSkel Pyx12Verif.Walker

theorem keyAt_append {root : List Node} {p : List Nat} {ch : List Node} (h : chAt root p = some ch) (t : List Nat) :
    keyAt root (p ++ t) = keyAt root p ++ keyAt ch t := by
  induction p generalizing root with
  | nil => simp only [chAt, Option.some.injEq] at h; subst h; simp [keyAt]
  | cons a r ih =>
    simp only [chAt] at h
    split at h
    · rename_i sub heq
      simp only [List.cons_append, keyAt, heq, Node.children, List.cons_append, List.cons.injEq, true_and]
      exact ih h
    · cases h

theorem keyAt_prefix {root : List Node} {p q : List Nat} {ch : List Node} (h : chAt root p = some ch) (hpq : p <+: q) :
    keyAt root p <+: keyAt root q := by
  obtain ⟨t, rfl⟩ := hpq
  rw [keyAt_append h]; exact List.prefix_append _ _

/-- no key at or below the sibling component `b` is at or below `kk`, which lies below component `a ≠ b` -/
theorem not_under_sibling {lkey kk : PathKey} {a b : Nat × Nat} (hk : lkey ++ [a] <+: kk) (hab : a ≠ b)
    {k' : PathKey} (hb : lkey ++ [b] <+: k') : ¬ kk <+: k' := by
  intro h
  exact hab (prefix_snoc_inj (List.IsPrefix.trans hk h) hb)

theorem transfer_zero {cnt cnt' : Counter} {lkey kk : PathKey} {a b : Nat × Nat} (hz : ZeroUnder cnt (lkey ++ [b]))
    (hag : AgreeOff cnt cnt' kk) (hk : lkey ++ [a] <+: kk) (hab : a ≠ b) : ZeroUnder cnt' (lkey ++ [b]) := by
  intro k' hk'
  rw [hag k' (not_under_sibling hk hab hk')]; exact hz k' hk'

theorem transfer_sat {cnt cnt' : Counter} {lkey kk : PathKey} {a b : Nat × Nat} {c : Node}
    (hs : satisfied cnt (lkey ++ [b]) c = true)
    (hag : AgreeOff cnt cnt' kk) (hk : lkey ++ [a] <+: kk) (hab : a ≠ b) : satisfied cnt' (lkey ++ [b]) c = true := by
  rw [satisfied_congr c _ (fun k' hk' => hag k' (not_under_sibling hk hab hk'))]; exact hs

/-- levels down to `q`, with the path now going through child `j` of `q`, after the counters changed only at or
    below the key of that child -/
theorem inv_levels {K : Consts} {root : List Node} (h : MapOK K root) {cnt cnt' : Counter} {cur : List Nat}
    (hinv : Inv root cnt cur) {q : List Nat} {j : Nat} (hr : ReadyOn root cnt cur q j)
    {ch : List Node} (hch : chAt root q = some ch) {c : Node} (hc : ch[j]? = some c)
    (hag : AgreeOff cnt cnt' (keyAt root q ++ [c.comp]))
    (hhere : counted c = true → 1 ≤ cnt'.get (keyAt root q ++ [c.comp])) :
    ∀ p i', p ++ [i'] <+: q ++ [j] → ∃ ch', chAt root p = some ch' ∧ LevelInv cnt' (keyAt root p) ch' i' := by
  obtain ⟨i, hqi, hij, hmid, hdeep⟩ := hr
  intro p i' hp
  rcases prefix_snoc_cases hp with hpq | heq
  · -- a level above `q`
    have hpcur : p ++ [i'] <+: cur := List.IsPrefix.trans hpq (List.IsPrefix.trans (List.prefix_append _ _) hqi)
    obtain ⟨ch', hch', hl⟩ := hinv.lev p i' hpcur
    refine ⟨ch', hch', ?_⟩
    obtain ⟨pc, hpc⟩ := hl.idx
    have hkp : keyAt root p ++ [pc.comp] <+: keyAt root q ++ [c.comp] := by
      rw [← keyAt_snoc hch' hpc]
      obtain ⟨sub, hsub⟩ := chAt_prefix hch hpq
      exact List.IsPrefix.trans (keyAt_prefix hsub hpq) (List.prefix_append _ _)
    have hwf := wfAt_chAt (wfAt_root h.wf) hch'
    refine ⟨hl.idx, ?_, ?_, ?_⟩
    · intro j'' c'' hj hc''
      exact transfer_zero (hl.later j'' c'' hj hc'') hag hkp (compDistinct_ne hwf.comp hpc hc'' (by omega))
    · intro j'' c'' hj hc''
      exact transfer_sat (hl.earlier j'' c'' hj hc'') hag hkp (compDistinct_ne hwf.comp hpc hc'' (by omega))
    · intro c0 hc0 hcnt
      rw [hpc] at hc0; simp only [Option.some.injEq] at hc0; subst hc0
      have hlen : (keyAt root p ++ [pc.comp]).length < (keyAt root q ++ [c.comp]).length := by
        have hlen1 : (p ++ [i']).length ≤ q.length := List.IsPrefix.length_le hpq
        obtain ⟨sub, hsub⟩ := chAt_prefix hch hpq
        have := List.IsPrefix.length_le (keyAt_prefix hsub hpq)
        rw [keyAt_snoc hch' hpc] at this
        simp at this ⊢; omega
      rw [hag _ (fun hh => by have := List.IsPrefix.length_le hh; omega)]
      exact hl.here _ hpc hcnt
  · -- level `q` itself
    have hpe : p = q ∧ i' = j := by
      have := List.append_inj' heq (by simp)
      exact ⟨this.1, by simpa using this.2⟩
    obtain ⟨rfl, rfl⟩ := hpe
    refine ⟨ch, hch, ?_⟩
    obtain ⟨ch0, hch0, hl⟩ := hinv.lev p i hqi
    rw [hch] at hch0; simp only [Option.some.injEq] at hch0; subst hch0
    have hwf := wfAt_chAt (wfAt_root h.wf) hch
    refine ⟨⟨c, hc⟩, ?_, ?_, ?_⟩
    · intro j'' c'' hj hc''
      exact transfer_zero (hl.later j'' c'' (by omega) hc'') hag (List.prefix_refl _)
        (compDistinct_ne hwf.comp hc hc'' (by omega))
    · intro j'' c'' hj hc''
      have hs : satisfied cnt (keyAt root p ++ [c''.comp]) c'' = true := by
        rcases Nat.lt_trichotomy j'' i with hlt | heq | hgt
        · exact hl.earlier j'' c'' hlt hc''
        · subst heq
          have hlen : (p ++ [j'']).length ≤ cur.length := List.IsPrefix.length_le hqi
          exact path_sat hinv (cur.length - (p.length + 1)) p j'' hqi (by simp at hlen; omega) hdeep _ c'' hch hc''
        · exact hmid _ hch j'' c'' hgt hj hc''
      exact transfer_sat hs hag (List.prefix_refl _) (compDistinct_ne hwf.comp hc hc'' (by omega))
    · intro c0 hc0 hcnt0
      rw [hc] at hc0; simp only [Option.some.injEq] at hc0; subst hc0
      exact hhere hcnt0

/-! ### the generator cursor -/

/-- `ReadyOn` with the path index `i` of level `q` made explicit -/
def ReadyAt (root : List Node) (cnt : Counter) (cur q : List Nat) (i j : Nat) : Prop :=
  q ++ [i] <+: cur ∧ i ≤ j ∧
    (∀ ch, chAt root q = some ch → ∀ (j' : Nat) (c : Node), i < j' → j' < j → ch[j']? = some c →
      satisfied cnt (keyAt root q ++ [c.comp]) c = true) ∧
    (∀ p i', (q ++ [i]) <+: p → p ++ [i'] <+: cur → Complete root cnt p i')

theorem ReadyAt.on {root : List Node} {cnt : Counter} {cur q : List Nat} {i j : Nat} (h : ReadyAt root cnt cur q i j) :
    ReadyOn root cnt cur q j := ⟨i, h⟩

theorem ready_here (root : List Node) (cnt : Counter) (q : List Nat) (i : Nat) : ReadyAt root cnt (q ++ [i]) q i i := by
  refine ⟨List.prefix_refl _, Nat.le_refl _, ?_, ?_⟩
  · intro ch _ j' c h1 h2; omega
  · intro p i' h1 h2
    have l1 := List.IsPrefix.length_le h1
    have l2 := List.IsPrefix.length_le h2
    simp at l1 l2; omega

theorem ready_skip {root : List Node} {cnt : Counter} {cur q : List Nat} {i j : Nat} (h : ReadyAt root cnt cur q i j)
    (hs : i < j → ∀ ch c, chAt root q = some ch → ch[j]? = some c → satisfied cnt (keyAt root q ++ [c.comp]) c = true) :
    ReadyAt root cnt cur q i (j + 1) := by
  obtain ⟨h1, h2, h3, h4⟩ := h
  refine ⟨h1, by omega, ?_, h4⟩
  intro ch hch j' c hij' hj' hc
  rcases Nat.lt_or_ge j' j with hlt | hge
  · exact h3 ch hch j' c hij' hlt hc
  · have : j' = j := by omega
    subst this
    exact hs hij' ch c hch hc

theorem ready_up {root : List Node} {cnt : Counter} {cur q : List Nat} {j i' n : Nat} {sub : List Node}
    (hsub : chAt root (q ++ [j]) = some sub) (h : ReadyAt root cnt cur (q ++ [j]) i' n) (hn : sub.length ≤ n) :
    ReadyAt root cnt cur q j j := by
  obtain ⟨h1, h2, h3, h4⟩ := h
  refine ⟨List.IsPrefix.trans (List.prefix_append _ _) h1, Nat.le_refl _, ?_, ?_⟩
  · intro ch _ j' c h5 h6; omega
  · intro p i'' hp hpc
    by_cases hpe : p = q ++ [j]
    · subst hpe
      have : i'' = i' := path_idx_unique hpc h1
      subst this
      intro ch hch j' c hj' hc
      rw [hsub] at hch; simp only [Option.some.injEq] at hch; subst hch
      have hlt : j' < sub.length := by
        rcases Nat.lt_or_ge j' sub.length with hh | hh
        · exact hh
        · rw [List.getElem?_eq_none hh] at hc; cases hc
      exact h3 _ hsub j' c hj' (by omega) hc
    · apply h4 p i'' _ hpc
      have hpcur : p <+: cur := List.IsPrefix.trans (List.prefix_append _ _) hpc
      have l1 := List.IsPrefix.length_le hp
      have hlenne : (q ++ [j]).length ≠ p.length := fun e => hpe (prefix_eq_of_length hp e).symm
      exact prefix_of_longer h1 hpcur (by simp at l1 hlenne ⊢; omega)

/-- state after a segment step -/
theorem post_seg {K : Consts} {root : List Node} (h : MapOK K root) {cnt : Counter} {cur : List Nat}
    (hinv : Inv root cnt cur) {q : List Nat} {j : Nat} (hr : ReadyOn root cnt cur q j)
    {ch : List Node} (hch : chAt root q = some ch) {c : Node} (hc : ch[j]? = some c) (hseg : c.isSeg = true) :
    Inv root (cnt.incr (keyAt root q ++ [c.comp])) (q ++ [j]) := by
  refine ⟨⟨c, by rw [nodeAt_snoc hch]; exact hc, hseg⟩, ?_⟩
  exact inv_levels h hinv hr hch hc (agreeOff_incr _ _) (by intro _; rw [get_incr_same]; omega)

theorem get_enterCnt_self (cnt : Counter) (kk : PathKey) (fc : Nat × Nat) :
    (enterCnt cnt kk fc).get kk = cnt.get kk + 1 := by
  unfold enterCnt
  rw [get_incr_other _ _ _ (by intro e; have := congrArg List.length e; simp at this), get_incr_same, get_resetTo_self]

theorem get_enterCnt_first (cnt : Counter) (kk : PathKey) (fc : Nat × Nat) :
    1 ≤ (enterCnt cnt kk fc).get (kk ++ [fc]) := by
  unfold enterCnt
  rw [get_incr_same]; omega

theorem zeroUnder_enterCnt (cnt : Counter) (kk : PathKey) (fc b : Nat × Nat) (hb : fc ≠ b) :
    ZeroUnder (enterCnt cnt kk fc) (kk ++ [b]) := by
  intro k' hk'
  unfold enterCnt
  have hkk : kk <+: k' := List.IsPrefix.trans (List.prefix_append _ _) hk'
  have hne : kk ≠ k' := by
    intro e; subst e
    have := List.IsPrefix.length_le hk'; simp at this; omega
  rw [get_incr_other _ _ _ (by intro e; subst e; exact hb (prefix_snoc_inj (List.prefix_refl _) hk')),
    get_incr_other _ _ _ hne]
  exact get_resetTo_below _ _ _ ((isStrictPrefix_iff _ _).mpr ⟨hkk, hne⟩)

/-- state after entering a loop -/
theorem post_loop {K : Consts} {root : List Node} (h : MapOK K root) {cnt : Counter} {cur : List Nat}
    (hinv : Inv root cnt cur) {q : List Nat} {j : Nat} (hr : ReadyOn root cnt cur q j)
    {ch : List Node} (hch : chAt root q = some ch) {lid pos u r : Nat} {w : Bool} {first : Node} {rest : List Node}
    (hc : ch[j]? = some (.loop lid pos u r w (first :: rest))) (hseg : first.isSeg = true) :
    Inv root (enterCnt cnt (keyAt root q ++ [(lid, 0)]) first.comp) (q ++ [j] ++ [0]) := by
  have hsub : chAt root (q ++ [j]) = some (first :: rest) := by rw [chAt_snoc hch, hc]
  have hkey : keyAt root (q ++ [j]) = keyAt root q ++ [(lid, 0)] := keyAt_snoc hch hc
  refine ⟨⟨first, by rw [nodeAt_snoc hsub]; simp, hseg⟩, ?_⟩
  intro p i' hp
  rcases prefix_snoc_cases hp with hpq | heq
  · exact inv_levels h hinv hr hch hc (agreeOff_enter _ _ _)
      (by intro _; simp only [Node.comp]; rw [get_enterCnt_self]; omega)
      p i' hpq
  · have hpe : p = q ++ [j] ∧ i' = 0 := by
      have := List.append_inj' heq (by simp)
      exact ⟨this.1, by simpa using this.2⟩
    obtain ⟨rfl, rfl⟩ := hpe
    refine ⟨first :: rest, hsub, ⟨first, by simp⟩, ?_, ?_, ?_⟩
    · intro j'' c'' hj hc''
      rw [hkey]
      have hwf := wfAt_chAt (wfAt_root h.wf) hsub
      have hf0 : (first :: rest)[0]? = some first := by simp
      exact zeroUnder_enterCnt _ _ _ _ (compDistinct_ne hwf.comp hf0 hc'' (by omega))
    · intro j'' c'' hj; omega
    · intro c0 hc0 _
      simp only [List.getElem?_cons_zero, Option.some.injEq] at hc0; subst hc0
      rw [hkey]; exact get_enterCnt_first _ _ _

end Pyx12Verif.WalkerGen
