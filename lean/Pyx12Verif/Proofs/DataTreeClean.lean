/- C10 helper: cleanliness of segment data (`SegClean`) is an invariant of the API — what the abstract operations
   of the history-level refinement put into the serialisation is clean again. -/
import Pyx12Verif.Proofs.DataTreeCopy
import Pyx12Verif.Proofs.DataTreeSet

namespace Pyx12Verif.DataTree

/-- a sub-element string without the two inner delimiters -/
def StrOK (et sub : Char) (x : Str) : Prop := et ∉ x ∧ sub ∉ x

theorem strOK_nil (et sub : Char) : StrOK et sub [] := by simp [StrOK]

/-! ## `Segment.set` keeps a segment clean -/

theorem mem_padTo {α : Type} (b : α) (n : Nat) (l : List α) (x : α) (h : x ∈ padTo b n l) : x ∈ l ∨ x = b := by
  simp only [padTo, List.mem_append, List.mem_replicate] at h
  rcases h with h | h
  · exact Or.inl h
  · exact Or.inr h.2

theorem mem_setLast {α : Type} (b : α) (l : List α) (x : α) (h : x ∈ setLast b l) : x ∈ l ∨ x = b := by
  simp only [setLast, List.mem_append, List.mem_singleton] at h
  rcases h with h | h
  · exact Or.inl ((List.dropLast_sublist l).subset h)
  · exact Or.inr h

theorem compSet_ok (et sub : Char) (c : List Str) (v : Str) (sb : Option Nat)
    (hc : ∀ x ∈ c, StrOK et sub x) (hv : StrOK et sub v) : ∀ x ∈ compSet sub c v sb, StrOK et sub x := by
  intro x hx
  cases sb with
  | none =>
    simp only [compSet] at hx
    obtain ⟨h1, h2⟩ := splitOn_mem sub v x hx
    exact ⟨fun hm => hv.1 (h2 et hm), h1⟩
  | some k =>
    cases k with
    | zero =>
      simp only [compSet] at hx
      rcases mem_setLast v c x hx with h | h
      · exact hc x h
      · rw [h]; exact hv
    | succ k =>
      simp only [compSet] at hx
      rcases List.mem_or_eq_of_mem_set hx with h | h
      · rcases mem_padTo [] (k + 1) c x h with h | h
        · exact hc x h
        · rw [h]; exact strOK_nil et sub
      · rw [h]; exact hv

theorem segSet_clean (s s2 : Seg) (v : Str) (e sb : Option Nat) (h : SegClean s) (hv : StrOK s.et s.sub v)
    (hs : segSet s v e sb = .ok s2) :
    SegClean s2 ∧ s2.st = s.st ∧ s2.et = s.et ∧ s2.sub = s.sub := by
  obtain ⟨f1, f2, f3, f4, _⟩ := segSet_frame s s2 v e sb hs
  refine ⟨⟨by rw [f3, f4]; exact h.sub_ne_et, by rw [f1, f3]; exact h.id_clean, by rw [f1]; exact h.not_isa, ?_⟩,
    f2, f3, f4⟩
  rw [f3, f4]
  have hold : ∀ c ∈ s.els, ∀ x ∈ c, StrOK s.et s.sub x := fun c hc x hx => h.data_clean c hc x hx
  have hblank : ∀ x ∈ ([[]] : List Str), StrOK s.et s.sub x := by
    intro x hx; simp only [List.mem_singleton] at hx; rw [hx]; exact strOK_nil _ _
  cases e with
  | none => simp [segSet] at hs
  | some e =>
    cases e with
    | zero =>
      simp only [segSet] at hs
      split at hs
      · simp at hs
      · rename_i c hl
        simp at hs; subst hs
        intro c' hc' x hx
        rcases mem_setLast _ _ c' hc' with h1 | h1
        · exact hold c' h1 x hx
        · rw [h1] at hx
          exact compSet_ok s.et s.sub c v sb (hold c (List.mem_of_getLast? hl)) hv x hx
    | succ e =>
      simp only [segSet] at hs
      simp at hs; subst hs
      have hpad : ∀ c ∈ padTo [[]] (e + 1) s.els, ∀ x ∈ c, StrOK s.et s.sub x := by
        intro c hc
        rcases mem_padTo [[]] (e + 1) s.els c hc with h1 | h1
        · exact hold c h1
        · rw [h1]; exact hblank
      intro c' hc' x hx
      rcases List.mem_or_eq_of_mem_set hc' with h1 | h1
      · exact hpad c' h1 x hx
      · rw [h1] at hx
        refine compSet_ok s.et s.sub _ v sb ?_ hv x hx
        intro y hy
        cases hg : (padTo [[]] (e + 1) s.els)[e]? with
        | none =>
          rw [hg] at hy; exact hblank y hy
        | some c0 =>
          rw [hg] at hy; exact hpad c0 (List.mem_of_getElem? hg) y hy

theorem segSetStr_clean (s s2 : Seg) (rd v : Str) (h : SegClean s) (hv : StrOK s.et s.sub v)
    (hs : segSetStr s rd v = .ok s2) :
    SegClean s2 ∧ s2.st = s.st ∧ s2.et = s.et ∧ s2.sub = s.sub := by
  simp only [segSetStr] at hs
  split at hs
  · simp at hs
  · exact segSet_clean s s2 v _ _ h hv hs

/-! ## the terminators of a new segment are those of a segment of the tree -/

theorem mem_segsOfList (cs : List DNode) (d : SegDef) (s : Seg) (h : DNode.seg d s ∈ cs) : s ∈ segsOfList cs := by
  induction cs with
  | nil => simp at h
  | cons c r ih =>
    simp only [List.mem_cons] at h
    simp only [segsOfList, List.mem_append]
    rcases h with h | h
    · left; rw [← h]; simp [segsOf]
    · right; exact ih h

theorem firstSegTerms_sound (cs : List DNode) (x : Char × Char × Char) (h : firstSegTerms cs = some x) :
    ∃ d s, DNode.seg d s ∈ cs ∧ x = (s.st, s.et, s.sub) := by
  induction cs with
  | nil => simp [firstSegTerms] at h
  | cons c r ih =>
    cases c with
    | seg d s => simp [firstSegTerms] at h; exact ⟨d, s, by simp, h.symm⟩
    | loop hd mk cs' =>
      simp only [firstSegTerms] at h
      obtain ⟨d, s, h1, h2⟩ := ih h
      exact ⟨d, s, by simp [h1], h2⟩
    | dead =>
      simp only [firstSegTerms] at h
      obtain ⟨d, s, h1, h2⟩ := ih h
      exact ⟨d, s, by simp [h1], h2⟩

theorem termsFrom_sound (t : DNode) (f : Nat) (a : List Nat) (st et sb : Char)
    (h : termsFrom t f a = .ok (st, et, sb)) : ∃ s ∈ segsOf t, s.st = st ∧ s.et = et ∧ s.sub = sb := by
  induction f generalizing a with
  | zero => simp [termsFrom] at h
  | succ f ih =>
    simp only [termsFrom] at h
    split at h
    · simp at h
    · rename_i cs hcs
      split at h
      · rename_i x hx
        simp at h; subst h
        obtain ⟨d, s, h1, h2⟩ := firstSegTerms_sound cs _ hx
        simp only [Prod.mk.injEq] at h2
        refine ⟨s, ?_, h2.1.symm, h2.2.1.symm, h2.2.2.symm⟩
        cases hg : getAt a t with
        | none => simp [hg, childrenOf] at hcs
        | some n =>
          cases n with
          | seg d' s' => simp [hg, childrenOf] at hcs
          | dead => simp [hg, childrenOf] at hcs
          | loop hd mk cs' =>
            simp [hg, childrenOf] at hcs; subst hcs
            obtain ⟨l1, l2, e1, _⟩ := segsOf_split a t _ hg
            rw [e1]
            simp only [segsOf, List.mem_append]
            exact Or.inl (Or.inr (mem_segsOfList cs' d s h1))
      · split at h
        · simp at h
        · exact ih _ h

end Pyx12Verif.DataTree
