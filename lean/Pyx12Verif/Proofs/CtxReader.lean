/- helper lemmas for Props/C09.lean: zipper algebra of Model/CtxReader.lean -/
import Pyx12Verif.Model.CtxReader

namespace Pyx12Verif.Ctx

theorem leavesL_append (a b : List DNode) : leavesL (a ++ b) = leavesL a ++ leavesL b := by
  induction a with
  | nil => simp [leavesL]
  | cons d r ih => simp [leavesL, ih]

/-- leaves contributed by the ancestors of the open node (all to its left when nothing sits to the right) -/
def preLeaves : List Frame → List Leaf
  | [] => []
  | f :: r => preLeaves r ++ leavesL f.before

def postLeaves : List Frame → List Leaf
  | [] => []
  | f :: r => leavesL f.after ++ postLeaves r

theorem leaves_plug (d : DNode) (up : List Frame) :
    leaves (plug d up) = preLeaves up ++ leaves d ++ postLeaves up := by
  induction up generalizing d with
  | nil => simp [plug, preLeaves, postLeaves]
  | cons f r ih =>
    simp [plug, ih, preLeaves, postLeaves, leaves, leavesL_append, leavesL]

theorem parent_tree {c p : Cursor} (h : parent c = some p) : p.tree = c.tree := by
  unfold parent at h
  cases hu : c.up with
  | nil => simp [hu] at h
  | cons f r =>
    simp [hu] at h
    subst h
    simp [Cursor.tree, hu, plug]

/-- position of the last child is at most `n` (vacuous for no children) -/
def LastLe (ch : List DNode) (n : Nat) : Prop := ∀ d, ch.getLast? = some d → d.pos ≤ n

theorem lastLe_concat (n : Nat) (ch : List DNode) (d : DNode) (i : Nat) (idx : Option Nat) :
    lastLe n (ch ++ [d]) i idx = if d.pos ≤ n then some (i + ch.length) else lastLe n ch i idx := by
  induction ch generalizing i idx with
  | nil => simp [lastLe]
  | cons e r ih =>
    simp only [List.cons_append, lastLe]
    split
    · rw [ih]; simp only [List.length_cons]; split <;> simp <;> omega
    · rw [ih]; simp only [List.length_cons]; split <;> simp <;> omega

theorem insertIdx_end {ch : List DNode} {n : Nat} (h : LastLe ch n) : insertIdx ch n = ch.length := by
  rcases List.eq_nil_or_concat ch with rfl | ⟨r, d, rfl⟩
  · simp [insertIdx, lastLe]
  · have hd : d.pos ≤ n := h d (by simp)
    simp [insertIdx, lastLe_concat, hd]


/-! ### shape: every node sits in the loop its map path names -/

mutual
/-- the node may sit directly inside a loop whose map path is `p` -/
def shaped (p : LPath) : DNode → Prop
  | .seg _ q _ => q = p
  | .loop q _ ch => (∃ x, q = p ++ [x]) ∧ shapedL q ch
def shapedL (p : LPath) : List DNode → Prop
  | [] => True
  | d :: r => shaped p d ∧ shapedL p r
end

theorem shapedL_append (p : LPath) (a b : List DNode) : shapedL p (a ++ b) ↔ shapedL p a ∧ shapedL p b := by
  induction a with
  | nil => simp [shapedL]
  | cons d r ih => simp [shapedL, ih, and_assoc]

/-- the ancestors of an open loop with map path `q`: nothing to the right, left siblings shaped, paths chained -/
def UpOk : LPath → List Frame → Prop
  | _, [] => True
  | q, f :: r => (∃ x, q = f.path ++ [x]) ∧ f.after = [] ∧ shapedL f.path f.before ∧ UpOk f.path r

/-- map path of the tree root -/
def rootPath : LPath → List Frame → LPath
  | q, [] => q
  | _, f :: r => rootPath f.path r

theorem plug_shape (q : LPath) (n : Nat) (ch : List DNode) (up : List Frame)
    (hs : shapedL q ch) (hu : UpOk q up) :
    ∃ m ch', plug (.loop q n ch) up = .loop (rootPath q up) m ch' ∧ shapedL (rootPath q up) ch' := by
  induction up generalizing q n ch with
  | nil => exact ⟨n, ch, by simp [plug, rootPath], by simpa [rootPath] using hs⟩
  | cons f r ih =>
    obtain ⟨hx, ha, hb, hr⟩ := hu
    simp only [plug, rootPath]
    apply ih
    · rw [ha, shapedL_append]
      exact ⟨hb, by simp [shapedL, shaped, hx, hs]⟩
    · exact hr

theorem leaves_plug_ok (d : DNode) (q : LPath) (up : List Frame) (hu : UpOk q up) :
    leaves (plug d up) = preLeaves up ++ leaves d := by
  have : postLeaves up = [] := by
    induction up generalizing q with
    | nil => simp [postLeaves]
    | cons f r ih =>
      obtain ⟨_, ha, _, hr⟩ := hu
      simp [postLeaves, ha, leavesL, ih f.path hr]
  simp [leaves_plug, this]


/-! ### the reader's position in the map (`Where`) against the zipper -/

theorem pathOf_cons (x : LoopId × Nat) (rs : List (LoopId × Nat)) : pathOf (x :: rs) = pathOf rs ++ [x.1] := by
  simp [pathOf]

theorem pathOf_length (rs : List (LoopId × Nat)) : (pathOf rs).length = rs.length := by
  simp [pathOf]

theorem pathOf_nil : pathOf [] = [] := rfl

theorem mem_pathOf {l : LoopId} {rs : List (LoopId × Nat)} : l ∈ pathOf rs ↔ l ∈ rs.map (fun x => x.1) := by
  simp [pathOf]

theorem pathOf_append (a b : List (LoopId × Nat)) : pathOf (a ++ b) = pathOf b ++ pathOf a := by
  simp [pathOf]

def frames (c : Cursor) : List (LPath × Nat) := (c.path, c.pos) :: c.up.map (fun f => (f.path, f.pos))

/-- the open loops of the zipper are the innermost open loops of the reader's position -/
def FramesMatch : List (LoopId × Nat) → List (LPath × Nat) → Prop
  | _, [] => True
  | [], _ :: _ => False
  | x :: rs, f :: fs => f.1 = pathOf (x :: rs) ∧ f.2 = x.2 ∧ FramesMatch rs fs

theorem popRun_spec : ∀ (pops : List LPath) (rs : List (LoopId × Nat)) (last : Nat) (rs1 : List (LoopId × Nat)) (lastC : Nat),
    popRun rs last pops = some (rs1, lastC) → rs1 = rs.drop pops.length ∧ pops.length ≤ rs.length := by
  intro pops
  induction pops with
  | nil => intro rs last rs1 lastC h; simp [popRun] at h; simp [h.1]
  | cons l r ih =>
    intro rs last rs1 lastC h
    cases rs with
    | nil => simp [popRun] at h
    | cons x rs' =>
      simp only [popRun] at h
      split at h
      · obtain ⟨h1, h2⟩ := ih rs' x.2 rs1 lastC h
        simp [h1]; omega
      · simp at h

theorem pushRun_spec : ∀ (pushes : List (LPath × Nat)) (rs rs2 : List (LoopId × Nat)),
    pushRun rs pushes = some rs2 →
    ∃ top, rs2 = top ++ rs ∧ top.length = pushes.length ∧
      top.map (fun x => some x.1) = (pushes.map (fun p => idOf p.1)).reverse := by
  intro pushes
  induction pushes with
  | nil => intro rs rs2 h; simp [pushRun] at h; exact ⟨[], by simp [h]⟩
  | cons l r ih =>
    intro rs rs2 h
    simp only [pushRun] at h
    split at h
    · simp at h
    · rename_i x hx
      split at h
      · obtain ⟨top, h1, h2, h3⟩ := ih _ _ h
        refine ⟨top ++ [(x, l.2)], by simp [h1], by simp [h2], ?_⟩
        simp [h3, idOf, hx]
      · simp at h

structure CInv (rs : List (LoopId × Nat)) (last : Nat) (c : Cursor) : Prop where
  fm : FramesMatch rs (frames c)
  up : UpOk c.path c.up
  sh : shapedL c.path c.ch
  ll : LastLe c.ch last

theorem CInv.path_eq {rs last c} (h : CInv rs last c) : c.path = pathOf rs ∧ rs ≠ [] := by
  have := h.fm
  cases rs with
  | nil => simp [frames, FramesMatch] at this
  | cons x r => simp only [frames, FramesMatch] at this; exact ⟨this.1, by simp⟩

theorem popLoops_ok : ∀ (pops : List LPath) (rs : List (LoopId × Nat)) (last : Nat) (c : Cursor)
    (rs1 : List (LoopId × Nat)) (lastC : Nat),
    CInv rs last c → popRun rs last pops = some (rs1, lastC) → pops.length ≤ c.up.length →
    ∃ c1, popLoops (some c) pops = .ok (some c1) ∧ c1.tree = c.tree ∧ CInv rs1 lastC c1 ∧
      rootPath c1.path c1.up = rootPath c.path c.up ∧ c1.up.length + pops.length = c.up.length := by
  intro pops
  induction pops with
  | nil =>
    intro rs last c rs1 lastC hc hp _
    simp [popRun] at hp
    exact ⟨c, by simp [popLoops], rfl, by rw [← hp.1, ← hp.2]; exact hc, rfl, by simp⟩
  | cons l r ih =>
    intro rs last c rs1 lastC hc hp hlen
    cases rs with
    | nil => simp [popRun] at hp
    | cons x rs' =>
      simp only [popRun] at hp
      split at hp
      · rename_i hl
        cases hup : c.up with
        | nil => simp [hup] at hlen
        | cons f up' =>
          have hfm := hc.fm
          simp only [frames, hup, List.map_cons, FramesMatch] at hfm
          have hupok := hc.up
          simp only [hup, UpOk] at hupok
          obtain ⟨hx, ha, hb, hr⟩ := hupok
          let p : Cursor := { path := f.path, pos := f.pos, ch := f.before ++ DNode.loop c.path c.pos c.ch :: f.after, up := up' }
          have hpar : parent c = some p := by simp [parent, hup, p]
          have hp' : CInv rs' x.2 p := by
            refine ⟨?_, hr, ?_, ?_⟩
            · simpa [frames, p] using hfm.2.2
            · simp only [p, ha]; rw [shapedL_append]
              exact ⟨hb, by simp [shapedL, shaped, hx, hc.sh]⟩
            · intro d hd
              simp [p, ha] at hd
              subst hd
              simp [DNode.pos, hfm.2.1]
          have hlen' : r.length ≤ p.up.length := by simp [hup] at hlen; simpa [p] using hlen
          obtain ⟨c1, h1, h2, h3, h4, h5⟩ := ih rs' x.2 p rs1 lastC hp' hp hlen'
          refine ⟨c1, ?_, ?_, h3, ?_, ?_⟩
          · simp only [popLoops]
            rw [if_pos (by rw [hfm.1, hl]), hpar]
            exact h1
          · rw [h2]; exact parent_tree hpar
          · rw [h4]; simp [p, rootPath]
          · simp [p] at h5; simp; omega
      · simp at hp


theorem pushLoops_ok : ∀ (pushes : List (LPath × Nat)) (rs : List (LoopId × Nat)) (last : Nat) (c : Cursor)
    (rs2 : List (LoopId × Nat)),
    CInv rs last c → (∀ l, pushes.head? = some l → last ≤ l.2) → pushRun rs pushes = some rs2 →
    ∃ c2, pushLoops (some c) pushes = .ok (some c2) ∧ leaves c2.tree = leaves c.tree ∧
      (pushes = [] → c2 = c) ∧ (pushes ≠ [] → CInv rs2 0 c2) ∧
      rootPath c2.path c2.up = rootPath c.path c.up := by
  intro pushes
  induction pushes with
  | nil =>
    intro rs last c rs2 hc _ hp
    exact ⟨c, by simp [pushLoops], rfl, fun _ => rfl, by simp, rfl⟩
  | cons l r ih =>
    intro rs last c rs2 hc hpos hp
    simp only [pushRun] at hp
    split at hp
    · simp at hp
    · rename_i x hx
      split at hp
      · rename_i hl
        have hll : LastLe c.ch l.2 := by
          intro d hd
          exact Nat.le_trans (hc.ll d hd) (hpos l (by simp))
        have hidx := insertIdx_end hll
        let c' : Cursor := addLoopNode c l.1 l.2
        have hc'path : c'.path = l.1 := rfl
        have hc'up : c'.up = { path := c.path, pos := c.pos, before := c.ch, after := [] } :: c.up := by
          simp [c', addLoopNode, hidx]
        have hc'ch : c'.ch = [] := rfl
        have hc' : CInv ((x, l.2) :: rs) 0 c' := by
          refine ⟨?_, ?_, ?_, ?_⟩
          · simp only [frames, hc'up, List.map_cons, FramesMatch]
            refine ⟨by rw [hc'path, hl, pathOf_cons], rfl, ?_⟩
            have := hc.fm
            simpa [frames] using this
          · rw [hc'up]
            simp only [UpOk]
            exact ⟨⟨x, by rw [hc'path, hl, hc.path_eq.1]⟩, by simp, hc.sh, hc.up⟩
          · rw [hc'ch]; simp [shapedL]
          · rw [hc'ch]; intro d hd; simp at hd
        have hleaves : leaves c'.tree = leaves c.tree := by
          simp only [Cursor.tree, hc'up, hc'ch, plug]
          rw [leaves_plug, leaves_plug]
          simp [leaves, leavesL_append, leavesL, hc'path]
        obtain ⟨c2, h1, h2, _, h4, h5⟩ := ih ((x, l.2) :: rs) 0 c' rs2 hc' (by intro l' _; exact Nat.zero_le _) hp
        refine ⟨c2, ?_, by rw [h2, hleaves], by simp, ?_, ?_⟩
        · simp only [pushLoops]; exact h1
        · intro _
          by_cases hr : r = []
          · subst hr
            simp [pushLoops] at h1
            simp [pushRun] at hp
            rw [← h1, ← hp]; exact hc'
          · exact h4 hr
        · rw [h5]; simp [hc'up, rootPath]
      · simp at hp


/-- the leaf an answer becomes -/
def info (a : Answer) : Leaf := (a.seg, a.path, a.pos)

theorem appendSeg_ok {rs : List (LoopId × Nat)} {last : Nat} {c : Cursor} (a : Answer)
    (hc : CInv rs last c) (hp : c.path = a.path) :
    ∃ c', appendSeg (some c) a = .ok c' ∧ CInv rs a.pos c' ∧ leaves c'.tree = leaves c.tree ++ [info a] ∧
      rootPath c'.path c'.up = rootPath c.path c.up := by
  refine ⟨{ c with ch := c.ch ++ [DNode.seg a.seg a.path a.pos] }, rfl, ⟨?_, hc.up, ?_, ?_⟩, ?_, rfl⟩
  · simpa [frames] using hc.fm
  · simp only [shapedL_append]; exact ⟨hc.sh, by simp [shapedL, shaped, hp]⟩
  · intro d hd; simp at hd; subst hd; simp [DNode.pos]
  · simp only [Cursor.tree]
    rw [leaves_plug_ok _ c.path c.up hc.up, leaves_plug_ok _ c.path c.up hc.up]
    simp [leaves, leavesL_append, leavesL, info]

theorem stepOk_spec {lid : Option LoopId} {w w' : Where} {a : Answer} (h : stepOk lid w a = some w') :
    ∃ rs1 lastC rs2, popRun w.open_ w.last (effPops (pathOf w.open_) a) = some (rs1, lastC) ∧
      pushRun rs1 (effPushes a) = some rs2 ∧ pathOf rs2 = a.path ∧ (a.first = true ∨ a.pushes = []) ∧
      (a.first = true → rs2.head?.map (fun x => x.2) = some a.ppos) ∧
      (pathOf w.open_ = a.path → (effPops (pathOf w.open_) a).length ≤ 1) ∧
      (implicitOpen a = true → (pathOf w.open_ = a.path ∨ w.open_ = [])) ∧
      lastC ≤ firstPushPos a lastC ∧ anchoredOk lid a = true ∧ w' = { open_ := rs2, last := a.pos } := by
  unfold stepOk at h
  split at h
  · simp at h
  · rename_i rs1 lastC hpop
    split at h
    · simp at h
    · rename_i rs2 hpush
      split at h
      · rename_i hcond
        obtain ⟨h1, h2, h3, h4, h5, h6, h7⟩ := hcond
        simp at h
        exact ⟨rs1, lastC, rs2, hpop, hpush, h1, h2, h3, h4, h5, h6, h7, h.symm⟩
      · simp at h

theorem rootPath_eq : ∀ (up : List Frame) (q : LPath) (n : Nat) (rs : List (LoopId × Nat)),
    FramesMatch rs ((q, n) :: up.map (fun f => (f.path, f.pos))) →
    rootPath q up = pathOf (rs.drop up.length) ∧ up.length < rs.length := by
  intro up
  induction up with
  | nil =>
    intro q n rs h
    cases rs with
    | nil => simp [FramesMatch] at h
    | cons x r => simp only [FramesMatch] at h; simp [rootPath, h.1]
  | cons f r ih =>
    intro q n rs h
    cases rs with
    | nil => simp [FramesMatch] at h
    | cons x rs' =>
      simp only [List.map_cons, FramesMatch] at h
      obtain ⟨h1, h2⟩ := ih f.path f.pos rs' h.2.2
      simp [rootPath, h1]; omega


theorem getLast_pathOf_cons (x : LoopId × Nat) (rs : List (LoopId × Nat)) : (pathOf (x :: rs)).getLast? = some x.1 := by
  simp [pathOf_cons]

/-- inside a tree of the requested loop, a segment that is still in the loop and does not start a new instance
    never closes the tree root -/
theorem pops_within {lid : LoopId} {rs rs1 rs2 : List (LoopId × Nat)} {path : LPath} {n k : Nat}
    {pushes : List (LPath × Nat)}
    (hn : n < rs.length)
    (hroot : (pathOf (rs.drop n)).getLast? = some lid)
    (hcnt : (pathOf (rs.drop n)).count lid ≤ 1)
    (hrs1 : rs1 = rs.drop k)
    (hpush : pushRun rs1 pushes = some rs2)
    (hpath : pathOf rs2 = path)
    (hin : lid ∈ path)
    (hanch : ¬ some lid ∈ pushes.dropLast.map (fun p => idOf p.1))
    (hstart : pushes ≠ [] → path.getLast? = some lid → False) : k ≤ n := by
  apply Classical.byContradiction
  intro hk
  have hk : n < k := by omega
  -- the root entry and what is below it
  obtain ⟨x, tl, hx⟩ : ∃ x tl, rs.drop n = x :: tl := by
    cases h : rs.drop n with
    | nil => simp at h; omega
    | cons x tl => exact ⟨x, tl, rfl⟩
  rw [hx] at hroot hcnt
  rw [getLast_pathOf_cons] at hroot
  have hxl : x.1 = lid := by simpa using hroot
  have hnot : lid ∉ pathOf tl := by
    rw [pathOf_cons, hxl] at hcnt
    simp [List.count_append] at hcnt
    exact List.count_eq_zero.mp (by omega)
  have htl : tl = rs.drop (n + 1) := by
    have := congrArg (List.drop 1) hx
    simpa [List.drop_drop, Nat.add_comm] using this.symm
  have hrs1' : rs1 = tl.drop (k - (n + 1)) := by
    rw [hrs1, htl, List.drop_drop]; congr 1; omega
  have hnot1 : lid ∉ pathOf rs1 := by
    intro hm
    apply hnot
    rw [mem_pathOf] at hm ⊢
    rw [hrs1'] at hm
    exact List.mem_of_mem_drop (by simpa [List.map_drop] using hm)
  obtain ⟨top, h1, _, h3⟩ := pushRun_spec pushes rs1 rs2 hpush
  rw [← hpath, h1, pathOf_append] at hin
  rw [List.mem_append] at hin
  rcases hin with hin | hin
  · exact hnot1 hin
  · rcases List.eq_nil_or_concat pushes with hp | ⟨init, lp, hp⟩
    · subst hp; simp at h3; subst h3; simp [pathOf] at hin
    · subst hp
      simp only [List.concat_eq_append] at h3 hanch hstart
      simp only [List.map_append, List.map_cons, List.map_nil, List.reverse_append, List.reverse_cons,
        List.reverse_nil, List.nil_append, List.cons_append] at h3
      cases top with
      | nil => simp at h3
      | cons t0 tt =>
        simp only [List.map_cons, List.cons.injEq] at h3
        rw [mem_pathOf] at hin
        simp only [List.map_cons, List.mem_cons] at hin
        rcases hin with hin | hin
        · apply hstart (by simp)
          rw [← hpath, h1]
          simp only [List.cons_append]
          rw [getLast_pathOf_cons, hin]
        · apply hanch
          simp only [List.dropLast_concat]
          have : some lid ∈ tt.map (fun x => some x.1) := by
            simp only [List.mem_map] at hin ⊢
            obtain ⟨y, hy, hy'⟩ := hin
            exact ⟨y, hy, by rw [hy']⟩
          rw [h3.2] at this
          simpa using this


theorem inReq_some {lid : LoopId} {a : Answer} : inReq (some lid) a = true ↔ lid ∈ a.path := by
  simp [inReq]

theorem isStart_some {lid : LoopId} {a : Answer} :
    isStart (some lid) a = true ↔ (a.path.getLast? = some lid ∧ a.first = true) := by
  simp [isStart]

/-- one more segment of the instance under construction: `_add_segment` succeeds, keeps every invariant and
    puts the segment last -/
theorem addSegment_ok {lid : LoopId} {w w' : Where} {a : Answer} {c : Cursor}
    (hc : CInv w.open_ w.last c) (hs : stepOk (some lid) w a = some w')
    (hin : inReq (some lid) a = true) (hns : ¬ isStart (some lid) a = true)
    (hroot : (rootPath c.path c.up).getLast? = some lid) (hcnt : (rootPath c.path c.up).count lid ≤ 1) :
    ∃ c', addSegment c a = .ok c' ∧ CInv w'.open_ w'.last c' ∧ leaves c'.tree = leaves c.tree ++ [info a] ∧
      rootPath c'.path c'.up = rootPath c.path c.up := by
  obtain ⟨rs1, lastC, rs2, hpop, hpush, h3, h4, h5, h6, h7, h8, h9, hw'⟩ := stepOk_spec hs
  subst hw'
  obtain ⟨hcp, hne⟩ := hc.path_eq
  obtain ⟨hrp, hlen⟩ := rootPath_eq c.up c.path c.pos w.open_ (by simpa [frames] using hc.fm)
  rw [inReq_some] at hin
  rw [isStart_some] at hns
  obtain ⟨hrs1, hkle⟩ := popRun_spec _ _ _ _ _ hpop
  obtain ⟨top, htop, htoplen, _⟩ := pushRun_spec _ _ _ hpush
  unfold addSegment
  by_cases heq : c.path = a.path
  · rw [if_pos heq]
    have hk1 := h6 (by rw [← hcp]; exact heq)
    have hlen2 : rs2.length = w.open_.length := by
      rw [← pathOf_length, h3, ← heq, hcp, pathOf_length]
    have hmk : (effPushes a).length = (effPops (pathOf w.open_) a).length := by
      have hl3 : top.length + (w.open_.length - (effPops (pathOf w.open_) a).length) = w.open_.length := by
        rw [htop, hrs1] at hlen2
        simpa using hlen2
      omega
    by_cases hf : a.first = true
    · -- a new instance of the loop we are in: close it, open it again
      have hm1 : (effPushes a).length ≥ 1 := by
        unfold effPushes
        by_cases hi : implicitOpen a = true
        · simp [hi]
        · simp only [hi]
          simp [implicitOpen, hf] at hi
          cases hp : a.pushes with
          | nil => simp [hp] at hi
          | cons _ _ => simp
      have hupne : 1 ≤ c.up.length := by
        cases hup : c.up with
        | nil =>
          exfalso; apply hns
          simp [hup, rootPath] at hroot
          exact ⟨by rw [← heq]; exact hroot, hf⟩
        | cons _ _ => simp
      obtain ⟨l', hl'⟩ : ∃ l', effPops (pathOf w.open_) a = [l'] := by
        cases h : effPops (pathOf w.open_) a with
        | nil => rw [h] at hmk; simp only [List.length_nil] at hmk; omega
        | cons l' r => cases r with
          | nil => exact ⟨l', rfl⟩
          | cons _ _ => simp [h] at hk1
      obtain ⟨l, hl⟩ : ∃ l, effPushes a = [l] := by
        cases h : effPushes a with
        | nil => simp [h] at hm1
        | cons l r => cases r with
          | nil => exact ⟨l, rfl⟩
          | cons _ _ => simp [h, hl'] at hmk
      rw [hl'] at hpop
      rw [hl] at hpush
      obtain ⟨c1, hp1, ht1, hc1, hr1, _⟩ := popLoops_ok [l'] _ _ c _ _ hc hpop (by simpa using hupne)
      have hpar : parent c = some c1 := by
        simp only [popLoops] at hp1
        split at hp1
        · cases hpc : parent c with
          | none => simp [hpc] at hp1
          | some p => simp [hpc] at hp1; simp [hp1]
        · simp at hp1
      have hpos : ∀ l0, [l].head? = some l0 → lastC ≤ l0.2 := by
        intro l0 h0; simp at h0; subst h0
        simpa [firstPushPos, hl] using h8
      obtain ⟨c2, hp2, hlv2, _, hc2, hr2⟩ := pushLoops_ok [l] _ _ c1 _ hc1 hpos hpush
      have hc2 := hc2 (by simp)
      have hc2eq : c2 = addLoopNode c1 l.1 l.2 := by
        simp [pushLoops] at hp2; exact hp2.symm
      have hl1 : l.1 = a.path := by
        have := hc2.path_eq.1
        rw [h3, hc2eq] at this
        simpa [addLoopNode] using this
      have hl2 : l.2 = a.ppos := by
        have hfm := hc2.fm
        cases hrs2 : rs2 with
        | nil => exact absurd hrs2 hc2.path_eq.2
        | cons y r =>
          rw [hrs2] at hfm
          simp only [frames, FramesMatch] at hfm
          have h5' := h5 hf
          rw [hrs2] at h5'
          simp at h5'
          rw [← h5', ← hfm.2.1, hc2eq]
          simp [addLoopNode]
      obtain ⟨c', ha, hci, hlv, hrt⟩ := appendSeg_ok a hc2 (by rw [hc2.path_eq.1, h3])
      refine ⟨c', ?_, hci, ?_, ?_⟩
      · simp only [repeatArm, hpar, hf, if_true]
        rw [← hl1, ← hl2, ← hc2eq]; exact ha
      · rw [hlv, hlv2, ht1]
      · rw [hrt, hr2, hr1]
    · -- same loop instance
      have hf' : a.first = false := by simpa using hf
      have hpu : a.pushes = [] := by rcases h4 with h | h; exact absurd h hf; exact h
      have hni : implicitOpen a = false := by simp [implicitOpen, hf']
      have hepu : effPushes a = [] := by simp [effPushes, hni, hpu]
      have hepo : effPops (pathOf w.open_) a = [] := by
        rw [hepu] at hmk
        exact List.eq_nil_of_length_eq_zero (by simpa using hmk.symm)
      rw [hepo] at hpop
      rw [hepu] at hpush
      simp [popRun] at hpop
      simp [pushRun] at hpush
      obtain ⟨c', ha, hci, hlv, hrt⟩ := appendSeg_ok a hc heq
      refine ⟨c', ?_, ?_, hlv, hrt⟩
      · simp only [repeatArm]
        cases parent c with
        | none => exact ha
        | some p => simp [hf']; exact ha
      · rw [← hpush, ← hpop.1]; exact hci
  · rw [if_neg heq]
    have hni : implicitOpen a = false := by
      cases hi : implicitOpen a with
      | false => rfl
      | true =>
        exfalso
        rcases h7 hi with h | h
        · exact heq (by rw [hcp, h])
        · exact hne h
    have hepo : effPops (pathOf w.open_) a = a.pops := by simp [effPops, hni]
    have hepu : effPushes a = a.pushes := by simp [effPushes, hni]
    rw [hepo] at hpop hrs1 hkle
    rw [hepu] at hpush
    have hstart : a.pushes ≠ [] → a.path.getLast? = some lid → False := by
      intro hp hg
      rcases h4 with h | h
      · exact hns ⟨hg, h⟩
      · exact hp h
    have hanch : ¬ some lid ∈ a.pushes.dropLast.map (fun p => idOf p.1) := by
      simp only [anchoredOk, hepu] at h9
      simp only [Bool.and_eq_true, Bool.not_eq_true', decide_eq_true_eq] at h9
      intro hm
      have := h9.1
      rw [List.contains_eq_mem] at this
      have hm' := hm
      simp at this hm'
      exact this hm'
    have hcnt' : a.path.count lid ≤ 1 := by
      simp only [anchoredOk, Bool.and_eq_true, decide_eq_true_eq] at h9
      exact h9.2
    have hk : a.pops.length ≤ c.up.length :=
      pops_within (lid := lid) hlen (by rw [← hrp]; exact hroot) (by rw [← hrp]; exact hcnt) hrs1 hpush h3 hin hanch hstart
    obtain ⟨c1, hp1, ht1, hc1, hr1, _⟩ := popLoops_ok a.pops _ _ c _ _ hc hpop hk
    have hpos : ∀ l0, a.pushes.head? = some l0 → lastC ≤ l0.2 := by
      intro l0 h0
      cases hp : a.pushes with
      | nil => simp [hp] at h0
      | cons l r =>
        simp [hp] at h0; subst h0
        simpa [firstPushPos, hepu, hp] using h8
    obtain ⟨c2, hp2, hlv2, hnil, hcons, hr2⟩ := pushLoops_ok a.pushes _ _ c1 _ hc1 hpos hpush
    have hc2 : ∃ last', CInv rs2 last' c2 := by
      by_cases hp : a.pushes = []
      · refine ⟨lastC, ?_⟩
        rw [hnil hp]
        rw [hp] at hpush
        simp [pushRun] at hpush
        rw [← hpush]; exact hc1
      · exact ⟨0, hcons hp⟩
    obtain ⟨last', hc2⟩ := hc2
    obtain ⟨c', ha, hci, hlv, hrt⟩ := appendSeg_ok a hc2 (by rw [hc2.path_eq.1, h3])
    refine ⟨c', ?_, hci, ?_, ?_⟩
    · simp only [replay, hp1, hp2]; exact ha
    · rw [hlv, hlv2, ht1]
    · rw [hrt, hr2, hr1]


theorem consistentFrom_cons {lid : Option LoopId} {w : Where} {a : Answer} {r : List Answer}
    (h : consistentFrom lid w (a :: r) = true) : ∃ w', stepOk lid w a = some w' ∧ consistentFrom lid w' r = true := by
  simp only [consistentFrom] at h
  split at h
  · simp at h
  · rename_i w' hw; exact ⟨w', hw, h⟩

/-- a requested id that appears on the path only after the pushes is the id of the innermost pushed loop -/
theorem lid_from_pushes {lid : LoopId} {rs1 rs2 : List (LoopId × Nat)} {pushes : List (LPath × Nat)}
    (hpush : pushRun rs1 pushes = some rs2) (hin : lid ∈ pathOf rs2) (hnot1 : lid ∉ pathOf rs1)
    (hanch : ¬ some lid ∈ pushes.dropLast.map (fun p => idOf p.1)) :
    pushes ≠ [] ∧ (pathOf rs2).getLast? = some lid := by
  obtain ⟨top, h1, _, h3⟩ := pushRun_spec pushes rs1 rs2 hpush
  rw [h1, pathOf_append, List.mem_append] at hin
  rcases hin with hin | hin
  · exact absurd hin hnot1
  · rcases List.eq_nil_or_concat pushes with hp | ⟨init, lp, hp⟩
    · subst hp; simp at h3; subst h3; simp [pathOf] at hin
    · subst hp
      simp only [List.concat_eq_append] at h3 hanch ⊢
      simp only [List.map_append, List.map_cons, List.map_nil, List.reverse_append, List.reverse_cons,
        List.reverse_nil, List.nil_append, List.cons_append] at h3
      cases top with
      | nil => simp at h3
      | cons t0 tt =>
        simp only [List.map_cons, List.cons.injEq] at h3
        rw [mem_pathOf] at hin
        simp only [List.map_cons, List.mem_cons] at hin
        rcases hin with hin | hin
        · refine ⟨by simp, ?_⟩
          rw [h1]
          simp only [List.cons_append]
          rw [getLast_pathOf_cons, hin]
        · exfalso; apply hanch
          simp only [List.dropLast_concat]
          have : some lid ∈ tt.map (fun x => some x.1) := by
            simp only [List.mem_map] at hin ⊢
            obtain ⟨y, hy, hy'⟩ := hin
            exact ⟨y, hy, by rw [hy']⟩
          rw [h3.2] at this
          simpa using this

/-- facts about one consistent step seen from outside every instance of the requested loop -/
theorem outside_step {lid : LoopId} {w w' : Where} {a : Answer}
    (hs : stepOk (some lid) w a = some w') (hout : lid ∉ pathOf w.open_) :
    (inReq (some lid) a = true → isStart (some lid) a = true) ∧
    (inReq (some lid) a = false → ∀ hp, pushAssertFails (some lid) hp a = false) ∧
    pathOf w'.open_ = a.path ∧ a.path.count lid ≤ 1 := by
  obtain ⟨rs1, lastC, rs2, hpop, hpush, h3, h4, h5, h6, h7, h8, h9, hw'⟩ := stepOk_spec hs
  subst hw'
  obtain ⟨hrs1, _⟩ := popRun_spec _ _ _ _ _ hpop
  have hnot1 : lid ∉ pathOf rs1 := by
    intro hm; apply hout
    rw [mem_pathOf] at hm ⊢
    rw [hrs1] at hm
    exact List.mem_of_mem_drop (by simpa [List.map_drop] using hm)
  have h9' := h9
  simp only [anchoredOk, Bool.and_eq_true, Bool.not_eq_true', decide_eq_true_eq] at h9'
  have hanch : ¬ some lid ∈ (effPushes a).dropLast.map (fun p => idOf p.1) := by
    intro hm
    have := h9'.1
    rw [List.contains_eq_mem] at this
    have hm' := hm
    simp at this hm'
    exact this hm'
  refine ⟨?_, ?_, h3, h9'.2⟩
  · intro hin
    rw [inReq_some] at hin
    rw [isStart_some]
    obtain ⟨hne, hg⟩ := lid_from_pushes hpush (by rw [h3]; exact hin) hnot1 hanch
    refine ⟨by rw [← h3]; exact hg, ?_⟩
    by_cases hi : implicitOpen a = true
    · simp [implicitOpen] at hi; exact hi.1
    · rcases h4 with h | h
      · exact h
      · exfalso; apply hne; simp [effPushes, hi, h]
  · intro hnin hp
    have hnin' : lid ∉ a.path := by
      intro hm; rw [← inReq_some] at hm; rw [hm] at hnin; simp at hnin
    simp only [pushAssertFails, Bool.and_eq_false_iff]
    right
    rw [List.contains_eq_mem]
    simp only [decide_eq_false_iff_not]
    intro hm
    by_cases hi : implicitOpen a = true
    · simp [implicitOpen] at hi; simp [hi.2] at hm
    · have hepu : effPushes a = a.pushes := by simp [effPushes, hi]
      rw [hepu] at hpush
      obtain ⟨top, h1, _, h3'⟩ := pushRun_spec _ _ _ hpush
      apply hnin'
      rw [← h3, h1, pathOf_append, List.mem_append]
      right
      rw [mem_pathOf]
      have : some lid ∈ top.map (fun x => some x.1) := by rw [h3']; simpa using hm
      simp only [List.mem_map] at this ⊢
      obtain ⟨y, hy, hy'⟩ := this
      exact ⟨y, hy, by simpa using hy'⟩

theorem start_ok {lid : LoopId} {w w' : Where} {a : Answer}
    (hs : stepOk (some lid) w a = some w') (hst : isStart (some lid) a = true) :
    ∃ c', addSegment (freshTree a) a = .ok c' ∧ CInv w'.open_ w'.last c' ∧ leaves c'.tree = [info a] ∧
      rootPath c'.path c'.up = a.path ∧ a.path.count lid ≤ 1 := by
  obtain ⟨rs1, lastC, rs2, hpop, hpush, h3, h4, h5, h6, h7, h8, h9, hw'⟩ := stepOk_spec hs
  subst hw'
  rw [isStart_some] at hst
  simp only [anchoredOk, Bool.and_eq_true, decide_eq_true_eq] at h9
  refine ⟨{ path := a.path, pos := a.ppos, ch := [DNode.seg a.seg a.path a.pos], up := [] }, ?_, ⟨?_, ?_, ?_, ?_⟩, ?_, ?_, h9.2⟩
  · simp [addSegment, freshTree, repeatArm, parent, appendSeg]
  · cases hrs2 : rs2 with
    | nil => rw [hrs2] at h3; simp [pathOf] at h3; rw [h3] at hst; simp at hst
    | cons y r =>
      have h5' := h5 hst.2
      rw [hrs2] at h5' h3
      simp at h5'
      simp [frames, FramesMatch, h3, h5']
  · simp [UpOk]
  · simp [shapedL, shaped]
  · intro d hd; simp at hd; subst hd; simp [DNode.pos]
  · simp [Cursor.tree, plug, leaves, leavesL, info]
  · simp [rootPath]

end Pyx12Verif.Ctx
