/-
Helper lemmas for C19 (HTML sink): escaping as a per-character map, and "context-free decoding":
`Ctx f a a'` says that the scanner `f` turns the piece `a` into `a'` whatever follows.
-/
import Pyx12Verif.Model.HtmlOut

namespace Pyx12Verif.Html

/-! ### escape is a per-character map -/

/-- the four special characters -/
def special (c : Char) : Prop := c = '&' ∨ c = ' ' ∨ c = '>' ∨ c = '<'

instance (c : Char) : Decidable (special c) := by unfold special; infer_instance

/-- what one input character becomes -/
def escChar (c : Char) : List Char :=
  if c = '&' then entAmp else if c = ' ' then entNbsp else if c = '>' then entGt else if c = '<' then entLt
  else [c]

theorem rep_append (c : Char) (r a b : List Char) : rep c r (a ++ b) = rep c r a ++ rep c r b := by
  induction a with
  | nil => simp [rep]
  | cons x xs ih => simp only [List.cons_append, rep]; split <;> simp [ih]

theorem escape_nil : escape [] = [] := by simp [escape, rep]

theorem escape_cons (x : Char) (xs : List Char) : escape (x :: xs) = escChar x ++ escape xs := by
  unfold escape escChar
  by_cases h1 : x = '&'
  · subst h1; simp [rep, entAmp]
  by_cases h2 : x = ' '
  · subst h2; simp [rep, entNbsp]
  by_cases h3 : x = '>'
  · subst h3; simp [rep, entGt]
  by_cases h4 : x = '<'
  · subst h4; simp [rep, entLt]
  · simp [rep, h1, h2, h3, h4]

theorem escape_eq_flatMap (s : List Char) : escape s = s.flatMap escChar := by
  induction s with
  | nil => simp [escape_nil]
  | cons x xs ih => simp [escape_cons, ih]

theorem escape_append (a b : List Char) : escape (a ++ b) = escape a ++ escape b := by
  simp [escape_eq_flatMap]

theorem escChar_plain {c : Char} (h : ¬ special c) : escChar c = [c] := by
  simp only [special, not_or] at h
  simp [escChar, h.1, h.2.1, h.2.2.1, h.2.2.2]

/-- characters of an escaped character: never an angle bracket -/
theorem escChar_noAngle (x c : Char) (h : c ∈ escChar x) : c ≠ '<' ∧ c ≠ '>' := by
  unfold escChar at h
  split at h
  · simp [entAmp] at h; rcases h with rfl | rfl | rfl | rfl | rfl <;> decide
  split at h
  · simp [entNbsp] at h; rcases h with rfl | rfl | rfl | rfl | rfl | rfl <;> decide
  split at h
  · simp [entGt] at h; rcases h with rfl | rfl | rfl | rfl <;> decide
  split at h
  · simp [entLt] at h; rcases h with rfl | rfl | rfl | rfl <;> decide
  · simp at h; subst h; constructor <;> assumption

theorem escape_noAngle (s : List Char) : ∀ c ∈ escape s, c ≠ '<' ∧ c ≠ '>' := by
  induction s with
  | nil => simp [escape_nil]
  | cons x xs ih =>
    intro c hc
    rw [escape_cons, List.mem_append] at hc
    rcases hc with h | h
    · exact escChar_noAngle x c h
    · exact ih c h

/-! ### context-free decoding -/

/-- `f` turns the piece `a` into `a'` in every right context -/
def Ctx (f : List Char → List Char) (a a' : List Char) : Prop := ∀ r, f (a ++ r) = a' ++ f r

theorem Ctx.nil (f : List Char → List Char) : Ctx f [] [] := by intro r; simp

theorem Ctx.app {f : List Char → List Char} {a a' b b' : List Char} (h1 : Ctx f a a') (h2 : Ctx f b b') :
    Ctx f (a ++ b) (a' ++ b') := by
  intro r; rw [List.append_assoc, h1, h2, List.append_assoc]

theorem Ctx.eval {f : List Char → List Char} {a a' : List Char} (h : Ctx f a a') (h0 : f [] = []) :
    f a = a' := by
  have := h []; simpa [h0] using this

/-- piecewise: the two lists have the same length and corresponding pieces decode context-free -/
inductive Pieces (f : List Char → List Char) : List (List Char) → List (List Char) → Prop
  | nil : Pieces f [] []
  | cons {a a' : List Char} {xs xs' : List (List Char)} : Ctx f a a' → Pieces f xs xs' → Pieces f (a :: xs) (a' :: xs')

theorem Ctx.joinTail {f : List Char → List Char} {sep sep' : List Char} (hs : Ctx f sep sep') :
    ∀ {xs xs' : List (List Char)}, Pieces f xs xs' → Ctx f (joinTail sep xs) (joinTail sep' xs')
  | _, _, .nil => by simpa [Html.joinTail] using Ctx.nil f
  | _, _, .cons h t => by
    simp only [Html.joinTail]
    exact (hs.app h).app (Ctx.joinTail hs t)

theorem Ctx.joinWith {f : List Char → List Char} {sep sep' : List Char} (hs : Ctx f sep sep') :
    ∀ {xs xs' : List (List Char)}, Pieces f xs xs' → Ctx f (joinWith sep xs) (joinWith sep' xs')
  | _, _, .nil => by simpa [Html.joinWith] using Ctx.nil f
  | _, _, .cons h t => by
    simp only [Html.joinWith]
    exact h.app (Ctx.joinTail hs t)

/-! #### stripTags / tags -/

theorem strip_plain (t : List Char) (h : ∀ c ∈ t, c ≠ '<') : Ctx (stripAux false) t t := by
  induction t with
  | nil => exact Ctx.nil _
  | cons x xs ih =>
    intro r
    have hx : x ≠ '<' := h x (by simp)
    have := ih (fun c hc => h c (by simp [hc])) r
    simp [stripAux, hx, this]

theorem tags_plain (t : List Char) (h : ∀ c ∈ t, c ≠ '<') : Ctx (tagsAux false) t [] := by
  induction t with
  | nil => exact Ctx.nil _
  | cons x xs ih =>
    intro r
    have hx : x ≠ '<' := h x (by simp)
    have := ih (fun c hc => h c (by simp [hc])) r
    simp [tagsAux, hx, this]

/-- inside a tag: everything up to the first `>` is dropped -/
theorem strip_inTag (t : List Char) (h : ∀ c ∈ t, c ≠ '>') (r : List Char) :
    stripAux true (t ++ '>' :: r) = stripAux false r := by
  induction t with
  | nil => simp [stripAux]
  | cons x xs ih =>
    have hx : x ≠ '>' := h x (by simp)
    simp [stripAux, hx, ih (fun c hc => h c (by simp [hc]))]

theorem tags_inTag (t : List Char) (h : ∀ c ∈ t, c ≠ '>') (r : List Char) :
    tagsAux true (t ++ '>' :: r) = t ++ '>' :: tagsAux false r := by
  induction t with
  | nil => simp [tagsAux]
  | cons x xs ih =>
    have hx : x ≠ '>' := h x (by simp)
    simp [tagsAux, hx, ih (fun c hc => h c (by simp [hc]))]

/-- a literal tag `<t>` (no `>` inside) disappears -/
theorem strip_tag (t : List Char) (h : ∀ c ∈ t, c ≠ '>') : Ctx (stripAux false) ('<' :: t ++ ['>']) [] := by
  intro r
  simp only [List.cons_append, List.append_assoc, List.nil_append, stripAux, if_true]
  simpa using strip_inTag t h r

theorem tags_tag (t : List Char) (h : ∀ c ∈ t, c ≠ '>') :
    Ctx (tagsAux false) ('<' :: t ++ ['>']) ('<' :: t ++ ['>']) := by
  intro r
  simp only [List.cons_append, List.append_assoc, List.nil_append, tagsAux, if_true]
  simpa using congrArg (List.cons '<') (tags_inTag t h r)

theorem strip_escape (v : List Char) : Ctx (stripAux false) (escape v) (escape v) :=
  strip_plain _ (fun c hc => (escape_noAngle v c hc).1)

theorem tags_escape (v : List Char) : Ctx (tagsAux false) (escape v) [] :=
  tags_plain _ (fun c hc => (escape_noAngle v c hc).1)

/-! #### unescape -/

theorem unesc_plain (t : List Char) (h : ∀ c ∈ t, c ≠ '&') : Ctx (unescAux 0) t t := by
  induction t with
  | nil => exact Ctx.nil _
  | cons x xs ih =>
    intro r
    have hx : x ≠ '&' := h x (by simp)
    have := ih (fun c hc => h c (by simp [hc])) r
    simp [unescAux, hx, this]

theorem unesc_escChar (x : Char) : Ctx (unescAux 0) (escChar x) [x] := by
  intro r
  unfold escChar
  by_cases h1 : x = '&'
  · subst h1; simp [entAmp, unescAux, entityAt, startsWith, decodeAmp]
  by_cases h2 : x = ' '
  · subst h2; simp [entNbsp, unescAux, entityAt, startsWith, decodeAmp]
  by_cases h3 : x = '>'
  · subst h3; simp [entGt, unescAux, entityAt, startsWith, decodeAmp]
  by_cases h4 : x = '<'
  · subst h4; simp [entLt, unescAux, entityAt, startsWith, decodeAmp]
  · simp [h1, h2, h3, h4, unescAux]

theorem unesc_escape (v : List Char) : Ctx (unescAux 0) (escape v) v := by
  induction v with
  | nil => simpa [escape_nil] using Ctx.nil _
  | cons x xs ih =>
    rw [escape_cons]
    exact (unesc_escChar x).app ih

theorem unesc_nbsp : Ctx (unescAux 0) entNbsp [' '] := by
  intro r; simp [entNbsp, unescAux, entityAt, startsWith, decodeAmp]

/-! ### the decimal printer produces digits only -/

def isDec (c : Char) : Prop := '0' ≤ c ∧ c ≤ '9'

instance : DecidablePred isDec := fun c => by unfold isDec; infer_instance

theorem digitChar_isDec : ∀ d, d < 10 → isDec (digitChar d) := by decide

theorem decFuel_isDec : ∀ (f n : Nat) (acc : List Char), (∀ c ∈ acc, isDec c) → ∀ c ∈ decFuel f n acc, isDec c := by
  intro f
  induction f with
  | zero => intro n acc h; simpa [decFuel] using h
  | succ f ih =>
    intro n acc h
    simp only [decFuel]
    split
    · rename_i hn
      intro c hc
      simp at hc
      rcases hc with rfl | hc
      · exact digitChar_isDec n hn
      · exact h c hc
    · apply ih
      intro c hc
      simp at hc
      rcases hc with rfl | hc
      · exact digitChar_isDec _ (Nat.mod_lt _ (by decide))
      · exact h c hc

theorem dec_isDec (n : Nat) : ∀ c ∈ dec n, isDec c := decFuel_isDec _ _ [] (by simp)

theorem isDec_ne {c : Char} (h : isDec c) : c ≠ '<' ∧ c ≠ '>' ∧ c ≠ '&' := by
  unfold isDec at h
  refine ⟨?_, ?_, ?_⟩ <;> (rintro rfl; revert h; decide)

end Pyx12Verif.Html
