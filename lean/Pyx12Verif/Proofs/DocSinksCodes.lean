/-
Where the error CODES written into the HTML report come from (for `docHtml_escaped`, Props/DocSinks.lean).

(1) error tree: every code stored in the tree (node errors and element errors at all five levels, and in the prepared
    nodes `cur_seg_node` / `cur_ele_node` not linked yet) satisfies a predicate `P` as soon as the codes of the
    `err_handler` calls do (`step_P`, `run_P`) — the tree never invents a code;
(2) `err_iter` / `gen_seg` / `footer` selection: every message selected carries a code stored in the tree
    (`shown_P`, `footer_P`).
-/
import Pyx12Verif.Model.ErrIter
import Pyx12Verif.Proofs.ErrTreeLemmas

namespace Pyx12Verif.Doc.Codes
open Pyx12Verif Pyx12Verif.ErrTree

abbrev Str := List Char

section
variable (P : Str → Prop)

def eleP (e : Ele) : Prop := ∀ x ∈ e.errors, P x.code
def elesP (l : List Ele) : Prop := ∀ e ∈ l, eleP P e
def segP (s : Seg) : Prop := (∀ x ∈ s.errors, P x.code) ∧ elesP P s.elements
def stP (s : St) : Prop := (∀ c ∈ s.errors, P c) ∧ elesP P s.elements ∧ ∀ sg ∈ s.children, segP P sg
def gsP (g : Gs) : Prop := (∀ c ∈ g.errors, P c) ∧ elesP P g.elements ∧ ∀ s ∈ g.children, stP P s
def isaP (a : Isa) : Prop := (∀ c ∈ a.errors, P c) ∧ elesP P a.elements ∧ ∀ g ∈ a.children, gsP P g
def treeP (t : Tree) : Prop := ∀ a ∈ t, isaP P a

def segPtrP : SegPtr → Prop
  | .pending sg => segP P sg
  | .host _ => True
  | .none => True

def elePtrP : ElePtr → Prop
  | .pending e => eleP P e
  | .linked _ => True
  | .none => True

def stateP (s : State) : Prop := treeP P s.tree ∧ segPtrP P s.curSeg ∧ elePtrP P s.curEle

/-- the code an `err_handler` call brings -/
def eventP : Event → Prop
  | .isaError c => P c
  | .gsError c => P c
  | .stError c => P c
  | .segError c _ => P c
  | .eleError c _ _ => P c
  | .addIsa _ => True
  | .addGs _ => True
  | .addSt _ => True
  | .addSeg _ _ _ => True
  | .addEle _ _ _ => True
  | .closeSt => True
  | .closeGs _ _ => True
  | .closeIsa => True

variable {P}

theorem snoc_forall {α : Type} {Q : α → Prop} {l : List α} {x : α} (hl : ∀ y ∈ l, Q y) (hx : Q x) : ∀ y ∈ l ++ [x], Q y := by
  intro y hy
  rcases List.mem_append.1 hy with h | h
  · exact hl y h
  · simp only [List.mem_singleton] at h; subst h; exact hx

theorem modLast_forall {α : Type} (Q : α → Prop) (f : α → α) : ∀ (l : List α), (∀ x ∈ l, Q x) → (∀ x, Q x → Q (f x)) →
    ∀ x ∈ modLast f l, Q x
  | [], _, _ => by simp [modLast]
  | [a], hl, hf => by
    intro x hx
    simp only [modLast, List.mem_singleton] at hx
    subst hx
    exact hf a (hl a (by simp))
  | a :: b :: r, hl, hf => by
    intro x hx
    simp only [modLast, List.mem_cons] at hx
    rcases hx with rfl | hx
    · exact hl _ (by simp)
    · exact modLast_forall Q f (b :: r) (fun y hy => hl y (by simp [hy])) hf x (by simpa using hx)

theorem modIsa_P (t : Tree) (i : Nat) (f : Isa → Isa) (h : treeP P t) (hf : ∀ a, isaP P a → isaP P (f a)) :
    treeP P (modIsa t i f) := modNth_forall _ f t i h hf

theorem modGs_P (t : Tree) (i g : Nat) (f : Gs → Gs) (h : treeP P t) (hf : ∀ x, gsP P x → gsP P (f x)) :
    treeP P (modGs t i g f) := by
  apply modIsa_P t i _ h
  intro a ha
  exact ⟨ha.1, ha.2.1, modNth_forall _ f a.children g ha.2.2 hf⟩

theorem modSt_P (t : Tree) (i g s : Nat) (f : St → St) (h : treeP P t) (hf : ∀ x, stP P x → stP P (f x)) :
    treeP P (modSt t i g s f) := by
  apply modGs_P t i g _ h
  intro x hx
  exact ⟨hx.1, hx.2.1, modNth_forall _ f x.children s hx.2.2 hf⟩

theorem modSeg_P (t : Tree) (i g s k : Nat) (f : Seg → Seg) (h : treeP P t) (hf : ∀ x, segP P x → segP P (f x)) :
    treeP P (modSeg t i g s k f) := by
  apply modSt_P t i g s _ h
  intro x hx
  exact ⟨hx.1, hx.2.1, modNth_forall _ f x.children k hx.2.2 hf⟩

theorem appendEle_P (t : Tree) (h : Host) (e : Ele) (ht : treeP P t) (he : eleP P e) : treeP P (appendEle t h e) := by
  cases h with
  | isa i => exact modIsa_P t i _ ht (fun a ha => ⟨ha.1, snoc_forall ha.2.1 he, ha.2.2⟩)
  | gs i g => exact modGs_P t i g _ ht (fun a ha => ⟨ha.1, snoc_forall ha.2.1 he, ha.2.2⟩)
  | st i g s => exact modSt_P t i g s _ ht (fun a ha => ⟨ha.1, snoc_forall ha.2.1 he, ha.2.2⟩)
  | seg i g s k => exact modSeg_P t i g s k _ ht (fun a ha => ⟨ha.1, snoc_forall ha.2 he⟩)

theorem addError_P (e : Ele) (x : EleErr) (he : eleP P e) (hx : P x.code) : eleP P (e.addError x) := by
  unfold eleP Ele.addError
  exact snoc_forall he hx

theorem addErrLastEle_P (t : Tree) (h : Host) (x : EleErr) (ht : treeP P t) (hx : P x.code) : treeP P (addErrLastEle t h x) := by
  have key : ∀ l : List Ele, elesP P l → elesP P (modLast (fun e => e.addError x) l) :=
    fun l hl => modLast_forall _ _ l hl (fun e he => addError_P e x he hx)
  cases h with
  | isa i => exact modIsa_P t i _ ht (fun a ha => ⟨ha.1, key _ ha.2.1, ha.2.2⟩)
  | gs i g => exact modGs_P t i g _ ht (fun a ha => ⟨ha.1, key _ ha.2.1, ha.2.2⟩)
  | st i g s => exact modSt_P t i g s _ ht (fun a ha => ⟨ha.1, key _ ha.2.1, ha.2.2⟩)
  | seg i g s k => exact modSeg_P t i g s k _ ht (fun a ha => ⟨ha.1, key _ ha.2⟩)

theorem addCurSeg_P (s s1 : State) (h : stateP P s) (hs : addCurSeg s = some s1) : stateP P s1 := by
  unfold addCurSeg at hs
  split at hs
  · rename_i sg hsg
    split at hs
    · simp at hs
    · simp only [Option.some.injEq] at hs
      subst hs
      have hp : segP P sg := by have := h.2.1; rw [hsg] at this; exact this
      exact ⟨modSt_P _ _ _ _ _ h.1 (fun x hx => ⟨hx.1, hx.2.1, snoc_forall hx.2.2 hp⟩), trivial, h.2.2⟩
  · simp only [Option.some.injEq] at hs; subst hs; exact h
  · simp at hs

/-- the tree never invents a code -/
theorem step_P (s s' : State) (e : Event) (he : eventP P e) (h : stateP P s) (hs : step s e = .ok s') : stateP P s' := by
  cases e with
  | addIsa d =>
    simp only [step, Res.ok.injEq] at hs
    subst hs
    exact ⟨snoc_forall h.1 ⟨by simp [mkIsa], by simp [mkIsa, elesP], by simp [mkIsa]⟩, trivial, h.2.2⟩
  | addGs d =>
    simp only [step, addGsLoop] at hs
    split at hs
    · cases hs
    · simp only [Res.ok.injEq] at hs
      subst hs
      refine ⟨modIsa_P _ _ _ h.1 (fun a ha => ⟨ha.1, ha.2.1, snoc_forall ha.2.2 ⟨by simp [mkGs], by simp [mkGs, elesP], by simp [mkGs]⟩⟩),
        trivial, h.2.2⟩
  | addSt d =>
    simp only [step, addStLoop] at hs
    split at hs
    · cases hs
    · simp only [Res.ok.injEq] at hs
      subst hs
      refine ⟨modGs_P _ _ _ _ h.1 (fun a ha => ⟨ha.1, ha.2.1, snoc_forall ha.2.2 ⟨by simp [mkSt], by simp [mkSt, elesP], by simp [mkSt]⟩⟩),
        trivial, h.2.2⟩
  | addSeg a b c =>
    simp only [step, addSeg, Res.ok.injEq] at hs
    subst hs
    exact ⟨h.1, ⟨by simp, by simp [elesP]⟩, h.2.2⟩
  | addEle a b c =>
    simp only [step, addEle] at hs
    split at hs
    · cases hs
    · simp only [Res.ok.injEq] at hs; subst hs; exact ⟨h.1, h.2.1, by simp [elePtrP, eleP]⟩
    · simp only [Res.ok.injEq] at hs; subst hs; exact ⟨h.1, h.2.1, by simp [elePtrP, eleP]⟩
  | isaError c =>
    simp only [step, isaError] at hs
    split at hs
    · cases hs
    · simp only [Res.ok.injEq] at hs
      subst hs
      exact ⟨modIsa_P _ _ _ h.1 (fun a ha => ⟨snoc_forall ha.1 he, ha.2⟩), h.2⟩
  | gsError c =>
    simp only [step, gsError] at hs
    split at hs
    · cases hs
    · simp only [Res.ok.injEq] at hs
      subst hs
      exact ⟨modGs_P _ _ _ _ h.1 (fun a ha => ⟨snoc_forall ha.1 he, ha.2⟩), h.2⟩
  | stError c =>
    simp only [step, stError] at hs
    split at hs
    · cases hs
    · simp only [Res.ok.injEq] at hs
      subst hs
      exact ⟨modSt_P _ _ _ _ _ h.1 (fun a ha => ⟨snoc_forall ha.1 he, ha.2⟩), h.2⟩
  | segError c v =>
    simp only [step, Res.ok.injEq] at hs
    subst hs
    unfold segError
    split
    · exact h
    · rename_i s1 h1
      have hp1 := addCurSeg_P s s1 h h1
      split
      · exact hp1
      · rename_i s2 h2
        unfold segAddError at h2
        split at h2
        · simp only [Option.some.injEq] at h2
          subst h2
          exact ⟨modSeg_P _ _ _ _ _ _ hp1.1 (fun a ha => ⟨snoc_forall ha.1 he, ha.2⟩), hp1.2⟩
        all_goals simp at h2
  | eleError c m v =>
    simp only [step, eleError] at hs
    split at hs
    · cases hs
    · rename_i s1 h1
      have hp1 := addCurSeg_P s s1 h h1
      unfold eleErrorLinked at hs
      split at hs
      · cases hs
      · split at hs
        · cases hs
        · simp only [Res.ok.injEq] at hs; subst hs
          exact ⟨addErrLastEle_P _ _ _ hp1.1 he, hp1.2⟩
        · simp only [Res.ok.injEq] at hs; subst hs
          exact ⟨addErrLastEle_P _ _ _ hp1.1 he, hp1.2⟩
      · rename_i e0 he0
        split at hs
        · cases hs
        · simp only [Res.ok.injEq] at hs; subst hs
          have hpe : eleP P e0 := by have := hp1.2.2; rw [he0] at this; exact this
          exact ⟨appendEle_P _ _ _ hp1.1 (addError_P e0 _ hpe he), hp1.2.1, trivial⟩
        · cases hs
  | closeSt =>
    simp only [step, closeStLoop] at hs
    split at hs
    · cases hs
    · simp only [Res.ok.injEq] at hs
      subst hs
      exact ⟨modSt_P _ _ _ _ _ h.1 (fun x hx => hx), trivial, h.2.2⟩
  | closeGs ge recv =>
    simp only [step, closeGsLoop] at hs
    split at hs
    · cases hs
    · simp only [Res.ok.injEq] at hs
      subst hs
      exact ⟨modGs_P _ _ _ _ h.1 (fun x hx => hx), trivial, h.2.2⟩
  | closeIsa =>
    simp only [step, closeIsaLoop] at hs
    split at hs
    · cases hs
    · simp only [Res.ok.injEq] at hs
      subst hs
      exact ⟨modIsa_P _ _ _ h.1 (fun x hx => hx), trivial, h.2.2⟩

theorem run_P : ∀ (evs : List Event) (s s' : State), (∀ e ∈ evs, eventP P e) → stateP P s → run s evs = .ok s' → stateP P s'
  | [], s, s', _, h, hr => by simp only [run, Res.ok.injEq] at hr; subst hr; exact h
  | e :: r, s, s', he, h, hr => by
    simp only [run] at hr
    split at hr
    · rename_i s1 hs1
      exact run_P r s1 s' (fun x hx => he x (by simp [hx])) (step_P s s1 e (he e (by simp)) h hs1) hr
    · cases hr

theorem init_P : stateP P State.init := ⟨(by intro a ha; cases ha), trivial, trivial⟩

end

/-! ### the selection of `gen_seg` / `footer` only hands over stored codes -/
section
open Pyx12Verif.ErrIter
variable {P : Str → Prop}

theorem getGs_P (t : Tree) (h : treeP P t) (i g : Nat) (x : Gs) (hx : getGs t i g = some x) : gsP P x := by
  unfold getGs at hx
  cases ha : t[i]? with
  | none => simp [ha] at hx
  | some a =>
    simp only [ha, Option.bind_some] at hx
    exact (h a (List.mem_of_getElem? ha)).2.2 x (List.mem_of_getElem? hx)

theorem getSt_P (t : Tree) (h : treeP P t) (i g s : Nat) (x : St) (hx : getSt t i g s = some x) : stP P x := by
  unfold getSt at hx
  cases hg : getGs t i g with
  | none => simp [hg] at hx
  | some y =>
    simp only [hg, Option.bind_some] at hx
    exact (getGs_P t h i g y hg).2.2 x (List.mem_of_getElem? hx)

theorem getSeg_P (t : Tree) (h : treeP P t) (i g s k : Nat) (x : Seg) (hx : getSeg t i g s k = some x) : segP P x := by
  unfold getSeg at hx
  cases hg : getSt t i g s with
  | none => simp [hg] at hx
  | some y =>
    simp only [hg, Option.bind_some] at hx
    exact (getSt_P t h i g s y hg).2.2 x (List.mem_of_getElem? hx)

theorem nodeCodes_P (t : Tree) (h : treeP P t) (a : Addr) : ∀ c ∈ nodeCodes t a, P c := by
  cases a with
  | root => intro c hc; simp [nodeCodes] at hc
  | isa i =>
    simp only [nodeCodes]
    cases ha : t[i]? with
    | none => intro c hc; simp at hc
    | some x => exact (h x (List.mem_of_getElem? ha)).1
  | gs i g =>
    simp only [nodeCodes]
    cases ha : getGs t i g with
    | none => intro c hc; simp at hc
    | some x => exact (getGs_P t h i g x ha).1
  | st i g s =>
    simp only [nodeCodes]
    cases ha : getSt t i g s with
    | none => intro c hc; simp at hc
    | some x => exact (getSt_P t h i g s x ha).1
  | seg i g s k =>
    simp only [nodeCodes]
    cases ha : getSeg t i g s k with
    | none => intro c hc; simp at hc
    | some x =>
      intro c hc
      simp only [List.mem_map] at hc
      obtain ⟨e, he, rfl⟩ := hc
      exact (getSeg_P t h i g s k x ha).1 e he

theorem nodeEles_P (t : Tree) (h : treeP P t) (a : Addr) : elesP P (nodeEles t a) := by
  cases a with
  | root => intro c hc; simp [nodeEles] at hc
  | isa i =>
    simp only [nodeEles]
    cases ha : t[i]? with
    | none => intro c hc; simp at hc
    | some x => exact (h x (List.mem_of_getElem? ha)).2.1
  | gs i g =>
    simp only [nodeEles]
    cases ha : getGs t i g with
    | none => intro c hc; simp at hc
    | some x => exact (getGs_P t h i g x ha).2.1
  | st i g s =>
    simp only [nodeEles]
    cases ha : getSt t i g s with
    | none => intro c hc; simp at hc
    | some x => exact (getSt_P t h i g s x ha).2.1
  | seg i g s k =>
    simp only [nodeEles]
    cases ha : getSeg t i g s k with
    | none => intro c hc; simp at hc
    | some x => exact (getSeg_P t h i g s k x ha).2

theorem pickNode_P (a : Addr) (sid : Str) : ∀ (l : List Str) (n : Nat), (∀ c ∈ l, P c) → ∀ e ∈ pickNode a sid n l, P e.code
  | [], _, _ => by intro e he; simp [pickNode] at he
  | c :: r, n, hl => by
    intro e he
    simp only [pickNode] at he
    split at he
    · rcases List.mem_cons.1 he with rfl | he
      · exact hl c (by simp)
      · exact pickNode_P a sid r (n + 1) (fun x hx => hl x (by simp [hx])) e he
    · exact pickNode_P a sid r (n + 1) (fun x hx => hl x (by simp [hx])) e he

theorem pickCode_P (a : Addr) (want : Str) : ∀ (l : List Str) (n : Nat), (∀ c ∈ l, P c) → ∀ e ∈ pickCode a want n l, P e.code
  | [], _, _ => by intro e he; simp [pickCode] at he
  | c :: r, n, hl => by
    intro e he
    simp only [pickCode] at he
    split at he
    · rcases List.mem_cons.1 he with rfl | he
      · exact hl c (by simp)
      · exact pickCode_P a want r (n + 1) (fun x hx => hl x (by simp [hx])) e he
    · exact pickCode_P a want r (n + 1) (fun x hx => hl x (by simp [hx])) e he

theorem pickEleErrs_P (a : Addr) (sid : Str) (k : Nat) : ∀ (l : List EleErr) (n : Nat), (∀ x ∈ l, P x.code) →
    ∀ e ∈ pickEleErrs a sid k n l, P e.code
  | [], _, _ => by intro e he; simp [pickEleErrs] at he
  | x :: r, n, hl => by
    intro e he
    simp only [pickEleErrs] at he
    split at he
    · rcases List.mem_cons.1 he with rfl | he
      · exact hl x (by simp)
      · exact pickEleErrs_P a sid k r (n + 1) (fun y hy => hl y (by simp [hy])) e he
    · exact pickEleErrs_P a sid k r (n + 1) (fun y hy => hl y (by simp [hy])) e he

theorem pickEles_P (a : Addr) (sid : Str) : ∀ (l : List Ele) (k : Nat), elesP P l → ∀ e ∈ pickEles a sid k l, P e.code
  | [], _, _ => by intro e he; simp [pickEles] at he
  | x :: r, k, hl => by
    intro e he
    simp only [pickEles, List.mem_append] at he
    rcases he with he | he
    · exact pickEleErrs_P a sid k x.errors 0 (hl x (by simp)) e he
    · exact pickEles_P a sid r (k + 1) (fun y hy => hl y (by simp [hy])) e he

theorem nodeShown_P (t : Tree) (h : treeP P t) (a : Addr) (sid : Str) : ∀ e ∈ nodeShown t a sid, P e.code :=
  pickNode_P a sid _ 0 (nodeCodes_P t h a)

theorem eleShown_P (t : Tree) (h : treeP P t) (a : Addr) (sid : Str) : ∀ e ∈ eleShown t a sid, P e.code :=
  pickEles_P a sid _ 0 (nodeEles_P t h a)

theorem footer_P (s : State) (h : treeP P s.tree) : ∀ e ∈ ErrIter.footer s, P e.code := by
  intro e he
  simp only [ErrIter.footer, List.mem_append] at he
  rcases he with (he | he) | he
  · unfold footSt at he
    split at he
    · simp at he
    · split at he
      · simp at he
      · exact pickCode_P _ _ _ 0 (nodeCodes_P s.tree h _) e he
  · unfold footGs at he
    split at he
    · simp at he
    · split at he
      · simp at he
      · exact pickCode_P _ _ _ 0 (nodeCodes_P s.tree h _) e he
  · unfold footIsa at he
    split at he
    · simp at he
    · split at he
      · simp at he
      · exact pickCode_P _ _ _ 0 (nodeCodes_P s.tree h _) e he

end
end Pyx12Verif.Doc.Codes
