/-
C06 re-validation, part V (what the writer puts into its own slots): the normal form `toSeg` element by element, and for
every kind of written segment the facts `OwnFacts` — ST01 `997`, ST02 / SE02 `'%04i'`, SE01 / GE01 counts, IEA01 `1`, AK304 /
AK403 codes from the writer's tables, GS01 `FA`, GS08 `004010`, ISA01–04, ISA14, ISA16.
-/
import Pyx12Verif.Proofs.C06RevalAdm2
import Pyx12Verif.Proofs.C06RevalEnv
import Pyx12Verif.Proofs.C06RevalText

namespace Pyx12Verif.C06R
open Pyx12Verif Pyx12Verif.Ack Pyx12Verif.C06 Pyx12Verif.C05

/-! ### the normal form, element by element -/

theorem takeWhile_all {α : Type} (p : α → Bool) : ∀ (l : List α) (x : α), x ∈ l.takeWhile p → p x = true
  | [], x, h => by simp at h
  | a :: r, x, h => by
    simp only [List.takeWhile_cons] at h
    split at h
    · simp only [List.mem_cons] at h
      rcases h with rfl | h
      · assumption
      · exact takeWhile_all p r x h
    · simp at h

theorem mem_trimTrail {α : Type} (p : α → Bool) (l : List α) (x : α) (hx : x ∈ l) (hp : p x = false) :
    x ∈ SegText.trimTrail p l := by
  unfold SegText.trimTrail
  rw [List.mem_reverse]
  have hx' : x ∈ l.reverse := List.mem_reverse.2 hx
  rw [← List.takeWhile_append_dropWhile (p := p) (l := l.reverse)] at hx'
  rcases List.mem_append.1 hx' with h | h
  · have := takeWhile_all p _ x h
    rw [hp] at this; cases this
  · exact h

theorem trimTrail_get {α : Type} (p : α → Bool) (l : List α) (j : Nat) (c : α)
    (h : (SegText.trimTrail p l)[j]? = some c) : l[j]? = some c := by
  rw [← SegText.trimTrail_prefix p l] at h
  rw [List.getElem?_take] at h
  split at h
  · exact h
  · cases h

theorem normElems_get (es : List (List Str)) (j : Nat) (e : List Str)
    (hne : SegText.trimTrail SegText.isEmptyComp es ≠ []) (h : (SegText.normElems es)[j]? = some e) :
    ∃ c, es[j]? = some c ∧ e = SegText.normComp c := by
  unfold SegText.normElems at h
  rw [if_neg hne, List.getElem?_map] at h
  cases hc : (SegText.trimTrail SegText.isEmptyComp es)[j]? with
  | none => rw [hc] at h; cases h
  | some c =>
    rw [hc] at h
    simp only [Option.map_some, Option.some.injEq] at h
    exact ⟨c, trimTrail_get _ _ _ _ hc, h.symm⟩

theorem normElems_comps_ne (es : List (List Str)) : ∀ c ∈ SegText.normElems es, c ≠ [] := by
  intro c hc
  unfold SegText.normElems at hc
  split at hc
  · simp at hc; subst hc; simp
  · simp only [List.mem_map] at hc
    obtain ⟨c', _, rfl⟩ := hc
    exact SegText.normComp_ne_nil c'

theorem toSeg_comps_ne (x : PSeg) : ∀ c ∈ (toSeg x).elems, c ≠ [] := by
  unfold toSeg SegText.normSeg
  exact normElems_comps_ne _

theorem isEmptyComp_false_of (c : List Str) (v : Str) (hv : v ∈ c) (hne : v ≠ []) : SegText.isEmptyComp c = false := by
  cases h : SegText.isEmptyComp c with
  | false => rfl
  | true =>
    simp only [SegText.isEmptyComp, List.all_eq_true] at h
    have := h v hv
    simp [SegText.isEmptyVal] at this
    exact absurd this hne

theorem nonBare_trim (x : PSeg) (h : NonBare x) : SegText.trimTrail SegText.isEmptyComp x.elems ≠ [] := by
  obtain ⟨c, hc, v, hv, hne⟩ := h
  exact List.ne_nil_of_mem (mem_trimTrail _ _ c hc (isEmptyComp_false_of c v hv hne))

theorem toSeg_get (x : PSeg) (hid : x.id ≠ isaId) (hnb : NonBare x) (j : Nat) (e : List Str)
    (h : (toSeg x).elems[j]? = some e) : ∃ c, x.elems[j]? = some c ∧ e = SegText.normComp c := by
  rw [toSeg_of_ne x hid] at h
  exact normElems_get x.elems j e (nonBare_trim x hnb) h

theorem normComp_nonempty (c : List Str) (v : Str) (hv : v ∈ c) (hne : v ≠ []) :
    SegText.isEmptyComp (SegText.normComp c) = false := by
  have hm : v ∈ SegText.trimTrail SegText.isEmptyVal c :=
    mem_trimTrail _ _ v hv (by cases v with | nil => exact absurd rfl hne | cons a b => rfl)
  unfold SegText.normComp
  rw [if_neg (List.ne_nil_of_mem hm)]
  exact isEmptyComp_false_of _ v hm hne

theorem segEmpty_normElems (es : List (List Str)) (h : ∃ c ∈ es, ∃ v ∈ c, v ≠ []) :
    Doc.segEmpty ⟨[], SegText.normElems es⟩ = false := by
  obtain ⟨c, hc, v, hv, hne⟩ := h
  have hm := mem_trimTrail _ _ c hc (isEmptyComp_false_of c v hv hne)
  have hin : SegText.normComp c ∈ SegText.normElems es := by
    unfold SegText.normElems
    rw [if_neg (List.ne_nil_of_mem hm)]
    exact List.mem_map.2 ⟨c, hm, rfl⟩
  simp only [Doc.segEmpty, Bool.or_eq_false_iff]
  refine ⟨by simpa using List.ne_nil_of_mem hin, ?_⟩
  cases hall : (SegText.normElems es).all SegText.isEmptyComp with
  | false => rfl
  | true =>
    have := List.all_eq_true.1 hall _ hin
    rw [normComp_nonempty c v hv hne] at this
    cases this

theorem segEmpty_toSeg (x : PSeg) (hid : x.id ≠ isaId) (hnb : NonBare x) : Doc.segEmpty (toSeg x) = false := by
  rw [toSeg_of_ne x hid]
  have := segEmpty_normElems x.elems hnb
  simpa [Doc.segEmpty] using this

/-! ### digits -/

theorem isDig_of_digitC (c : Char) (h : isDigitC c = true) : isDig c = true := by
  simp only [isDigitC, Bool.and_eq_true, decide_eq_true_eq] at h
  simp only [isDig, Validation.isDigit, Bool.and_eq_true, decide_eq_true_eq]
  exact ⟨h.1, h.2⟩

theorem natStr_isDig (n : Nat) : ∀ c ∈ natStr n, isDig c = true := fun c hc => isDig_of_digitC c (natStr_digits n c hc)

theorem fmt04_isDig (n : Nat) : ∀ c ∈ fmt04 n, isDig c = true := by
  intro c hc
  rcases padZeros_mem 4 _ c hc with rfl | h
  · decide
  · exact natStr_isDig n c h

theorem natStr_len (n L : Nat) (h : n < 10 ^ L) (hL : 1 ≤ L) : 1 ≤ (natStr n).length ∧ (natStr n).length ≤ L := by
  refine ⟨?_, ?_⟩
  · have := natStr_ne_nil n
    exact List.length_pos_iff.2 this
  · rw [natStr_eq_digits]
    obtain ⟨k, rfl⟩ : ∃ k, L = k + 1 := ⟨L - 1, by omega⟩
    exact digits_length k n h

theorem fmt04_len (n : Nat) (h : n < 10 ^ 6) : 4 ≤ (fmt04 n).length ∧ (fmt04 n).length ≤ 6 := by
  have := natStr_len n 6 h (by omega)
  simp only [fmt04, padZeros, List.length_append, List.length_replicate]
  omega

/-! ### own slots, kind by kind -/

theorem own_pair (k : KindSpec) (a b : Str)
    (h0 : k.own 0 [a] = true → [a] ∈ k.tbl 0 ∨ ∃ lo hi, k.num 0 = some (lo, hi) ∧ (∀ c ∈ a, isDig c = true) ∧ lo ≤ a.length ∧ a.length ≤ hi)
    (h1 : k.own 1 [b] = true → [b] ∈ k.tbl 1 ∨ ∃ lo hi, k.num 1 = some (lo, hi) ∧ (∀ c ∈ b, isDig c = true) ∧ lo ≤ b.length ∧ b.length ≤ hi) :
    OwnFacts k 0 [[a], [b]] := by
  intro j e hj ho
  match j with
  | 0 =>
    simp only [List.getElem?_cons_zero, Option.some.injEq] at hj
    subst hj
    rcases h0 ho with h | ⟨lo, hi, hn, hd, hl, hh⟩
    · exact Or.inl h
    · exact Or.inr ⟨lo, hi, a, hn, rfl, hd, hl, hh⟩
  | 1 =>
    simp only [List.getElem?_cons_succ, List.getElem?_cons_zero, Option.some.injEq] at hj
    subst hj
    rcases h1 ho with h | ⟨lo, hi, hn, hd, hl, hh⟩
    · exact Or.inl h
    · exact Or.inr ⟨lo, hi, b, hn, rfl, hd, hl, hh⟩
  | j + 2 => simp at hj

theorem own_st (n : Nat) (hn : n < 10 ^ 6) : OwnFacts kST 0 (toSeg (stSeg997 n)).elems := by
  rw [toSeg_st]
  refine own_pair kST _ _ (fun _ => Or.inl (by simp [kST])) (fun _ => Or.inr ⟨4, 6, by simp [kST], fmt04_isDig n, ?_⟩)
  exact fmt04_len n hn

theorem own_se (c n : Nat) (hc : c < 10 ^ 10) (hn : n < 10 ^ 6) : OwnFacts kSE 0 (toSeg (seSeg997 c n)).elems := by
  rw [toSeg_se]
  refine own_pair kSE _ _ (fun _ => Or.inr ⟨1, 10, by simp [kSE], natStr_isDig c, natStr_len c 10 hc (by omega)⟩)
    (fun _ => Or.inr ⟨4, 6, by simp [kSE], fmt04_isDig n, fmt04_len n hn⟩)

theorem own_ge (n : Nat) (gs : PSeg) (v : Str) (hv : gs.getValue 5 = some v) (hs : Safe v) (hne : v ≠ [])
    (hn : n < 10 ^ 6) : OwnFacts kGE 0 (toSeg (geSeg997 n gs)).elems := by
  rw [toSeg_ge n gs v hv hs hne]
  refine own_pair kGE _ _ (fun _ => Or.inr ⟨1, 6, by simp [kGE], natStr_isDig n, natStr_len n 6 hn (by omega)⟩)
    (fun h => by simp [kGE] at h)

theorem own_iea (p : Params) (hs : Safe (isaCtl p)) (hne : isaCtl p ≠ []) : OwnFacts kIEA 0 (toSeg (ieaSeg997 p)).elems := by
  rw [toSeg_iea p hs hne]
  refine own_pair kIEA _ _ (fun _ => Or.inl (by simp [kIEA]; decide)) (fun h => by simp [kIEA] at h)

theorem own_echo2 (es : List (List Str)) : OwnFacts kEcho2 0 es := by
  intro j e _ ho
  simp [kEcho2] at ho

theorem own_ak5 (es : List (List Str)) : OwnFacts kAK5 0 es := by
  intro j e _ ho
  simp only [kAK5, Bool.and_eq_true, decide_eq_true_eq, List.contains_iff_mem] at ho
  left
  simp only [kAK5, ho.1, if_true]
  exact ho.2

theorem own_ak9 (es : List (List Str)) : OwnFacts kAK9 0 es := by
  intro j e _ ho
  simp only [kAK9, Bool.or_eq_true, Bool.and_eq_true, beq_iff_eq, decide_eq_true_eq, List.contains_iff_mem] at ho
  left
  rcases ho with ⟨h0, he⟩ | ⟨h4, he⟩
  · simp [kAK9, h0, he]
  · have : ¬ (0 + j = 0) := by omega
    simp only [kAK9, this, if_false, h4, if_true]
    exact he

/-! #### AK3 / AK4: `Segment.set` puts the code at its position whatever the base line is -/

theorem setEle_get_self (s : PSeg) (i : Nat) (v : Str) : (s.setEle i v).elems[i]? = some (splitOn ':' v) := by
  simp only [PSeg.setEle]
  rw [List.getElem?_set_self (padComps_length i s.elems)]

theorem setEle_get_lt (s : PSeg) (i j : Nat) (v : Str) (hij : i ≠ j) (hj : j < s.elems.length) :
    (s.setEle i v).elems[j]? = s.elems[j]? := by
  simp only [PSeg.setEle]
  rw [List.getElem?_set_ne hij, padComps_get_lt i s.elems j hj]

theorem setEle_length (s : PSeg) (i : Nat) (v : Str) : i < (s.setEle i v).elems.length := by
  simp only [PSeg.setEle, List.length_set]
  exact padComps_length i s.elems

theorem code_single (tbl : List Str) (htbl : ∀ c ∈ tbl, ':' ∉ c) (c : Str) (hc : c ∈ tbl) :
    SegText.normComp (splitOn ':' c) = [c] := by
  rw [splitOn_no_sep ':' c (htbl c hc), SegText.normComp_single]

theorem validAK3_nocolon : ∀ c ∈ validAK3, ':' ∉ c := by decide
theorem validAK4_nocolon : ∀ c ∈ validAK4, ':' ∉ c := by decide

theorem ak3_code (sg : ErrTree.Seg) (x : PSeg) (hx : x ∈ segLines997 sg) :
    ∃ c ∈ validAK3, x.elems[3]? = some (splitOn ':' c) := by
  simp only [segLines997, segLinesWith, List.mem_append, List.mem_map, List.mem_filter] at hx
  rcases hx with ⟨c, ⟨_, hc⟩, rfl⟩ | hx
  · exact ⟨c, by simpa using hc, setEle_get_self _ _ _⟩
  · split at hx
    · simp only [List.mem_singleton] at hx
      subst hx
      exact ⟨c1 '8', by decide, setEle_get_self _ _ _⟩
    · cases hx

theorem own_ak3 (sg : ErrTree.Seg) (x : PSeg) (hx : x ∈ segLines997 sg) (hnb : NonBare x) :
    OwnFacts kAK3 0 (toSeg x).elems := by
  intro j e hj ho
  have hid : x.id ≠ isaId := by rw [segBase997_id sg x hx]; decide
  simp only [kAK3, Nat.zero_add, beq_iff_eq] at ho
  subst ho
  obtain ⟨c, hc, he⟩ := toSeg_get x hid hnb 3 e hj
  obtain ⟨k, hk, hx3⟩ := ak3_code sg x hx
  rw [hx3] at hc
  simp only [Option.some.injEq] at hc
  subst hc
  rw [code_single validAK3 validAK3_nocolon k hk] at he
  left
  simp only [kAK3, Nat.zero_add, if_true, List.mem_map]
  exact ⟨k, hk, he.symm⟩

theorem ak4_code (el : ErrTree.Ele) (x : PSeg) (hx : x ∈ eleLines997 el) :
    ∃ c ∈ validAK4, x.elems[2]? = some (splitOn ':' c) := by
  simp only [eleLines997, eleLinesWith, List.mem_map, List.mem_filter] at hx
  obtain ⟨er, ⟨_, hc⟩, rfl⟩ := hx
  refine ⟨er.code, by simpa using hc, ?_⟩
  unfold eleErrLine
  split
  · rw [setEle_get_lt _ 3 2 _ (by omega) (setEle_length _ 2 _)]
    exact setEle_get_self _ _ _
  · exact setEle_get_self _ _ _

theorem own_ak4 (el : ErrTree.Ele) (x : PSeg) (hx : x ∈ eleLines997 el) (hnb : NonBare x) :
    OwnFacts kAK4 0 (toSeg x).elems := by
  intro j e hj ho
  have hid : x.id ≠ isaId := by rw [eleBase997_id el x hx]; decide
  simp only [kAK4, Nat.zero_add, Bool.or_eq_true, Bool.and_eq_true, beq_iff_eq] at ho
  rcases ho with ho | ⟨ho, hshape⟩
  · subst ho
    obtain ⟨c, hc, he⟩ := toSeg_get x hid hnb 2 e hj
    obtain ⟨k, hk, hx2⟩ := ak4_code el x hx
    rw [hx2] at hc
    simp only [Option.some.injEq] at hc
    subst hc
    rw [code_single validAK4 validAK4_nocolon k hk] at he
    left
    simp only [kAK4, Nat.zero_add, if_true, List.mem_map]
    exact ⟨k, hk, he.symm⟩
  · -- AK402: own by its shape — empty, or one to four digits
    subst ho
    match e, hshape with
    | [v], hshape =>
      simp only [ownAK402, Bool.or_eq_true, Bool.and_eq_true, List.isEmpty_iff, List.all_eq_true, decide_eq_true_eq] at hshape
      rcases hshape with hv | ⟨hd, hl⟩
      · left
        subst hv
        simp [kAK4]
      · by_cases hv : v = []
        · left
          subst hv
          simp [kAK4]
        · right
          refine ⟨1, 4, v, by simp [kAK4], rfl, hd, ?_, hl⟩
          exact List.length_pos_iff.2 hv

/-! #### GS -/

/-- the GS object of the repaired visitor, element by element -/
theorem gs997_elems (a : ErrTree.Isa) (g : ErrTree.Gs) (p : Params) (gs : PSeg) (h : gsSeg997 fixed a g p = some gs) :
    ∃ w2 w3 w6 w7, g.gs02 = some w2 ∧ g.gs03 = some w3 ∧ g.gs06 = some w6 ∧ g.gs07 = some w7 ∧
      gs = ⟨sGS, [['F', 'A'], rstrip w3, rstrip w2, p.date8, p.time6, w6, w7, v004010].map (splitOn ':')⟩ := by
  unfold gsSeg997 at h
  obtain ⟨y8, w8, k8, e8, q8⟩ := optAppend_some _ _ _ h
  obtain ⟨y7, w7, k7, e7, q7⟩ := optAppend_some _ _ _ k8
  obtain ⟨y6, w6, k6, e6, q6⟩ := optAppend_some _ _ _ k7
  obtain ⟨y5, w5, k5, e5, q5⟩ := optAppend_some _ _ _ k6
  obtain ⟨y4, w4, k4, e4, q4⟩ := optAppend_some _ _ _ k5
  obtain ⟨y3, w3, k3, e3, q3⟩ := optAppend_some _ _ _ k4
  obtain ⟨y2, w2, k2, e2, q2⟩ := optAppend_some _ _ _ k3
  obtain ⟨y1, w1, k1, e1, q1⟩ := optAppend_some _ _ _ k2
  simp only [Option.some.injEq, fixed] at k1 e1 e4 e5 e8
  simp only [Bool.false_eq_true, if_false, Option.some.injEq] at e8
  cases h3 : g.gs03 with
  | none => rw [h3] at e2; cases e2
  | some v3 =>
    cases h2 : g.gs02 with
    | none => rw [h2] at e3; cases e3
    | some v2 =>
      rw [h3] at e2; rw [h2] at e3
      simp only [Option.map_some, Option.some.injEq] at e2 e3
      subst q8 q7 q6 q5 q4 q3 q2 q1 k1 e1 e2 e3 e4 e5 e8
      exact ⟨v2, v3, w6, w7, rfl, rfl, e6, e7, by simp [bare, PSeg.append]⟩

theorem own_gs (a : ErrTree.Isa) (g : ErrTree.Gs) (p : Params) (gs : PSeg) (h : gsSeg997 fixed a g p = some gs)
    (hnb : NonBare gs) : OwnFacts kGS 0 (toSeg gs).elems := by
  obtain ⟨w2, w3, w6, w7, _, _, _, _, hgs⟩ := gs997_elems a g p gs h
  intro j e hj ho
  have hid : gs.id ≠ isaId := by rw [hgs]; show sGS ≠ isaId; decide
  obtain ⟨c, hc, he⟩ := toSeg_get gs hid hnb _ e hj
  simp only [kGS, Nat.zero_add, Bool.or_eq_true, beq_iff_eq] at ho
  left
  rcases ho with rfl | rfl
  · rw [hgs] at hc
    simp only [List.map_cons, List.getElem?_cons_zero, Option.some.injEq] at hc
    subst hc
    have : splitOn ':' ['F', 'A'] = [['F', 'A']] := by decide
    rw [this, SegText.normComp_single] at he
    simp [kGS, he]
  · rw [hgs] at hc
    simp only [List.map_cons, List.getElem?_cons_succ, List.getElem?_cons_zero, Option.some.injEq] at hc
    subst hc
    have : splitOn ':' v004010 = [v004010] := by decide
    rw [this, SegText.normComp_single] at he
    simp [kGS, he]

/-! #### ISA -/

/-- no echoed interchange value (nor the clock) contains the component separator -/
def NoColon (o : Option Str) : Prop := ∀ v, o = some v → ':' ∉ v

/-- the 15 values `visit_root_pre` appends behind `ISA` -/
def isaVals (v07 v08 v05 v06 v11 v12 v15 : Str) (p : Params) : List Str :=
  [['0', '0'], blanks10, ['0', '0'], blanks10, v07, v08, v05, v06, p.date6, p.time4, v11, v12, isaCtl p, ['0'], v15]

theorem isa997_eq_isaOf (a : ErrTree.Isa) (p : Params) (isa : PSeg) (h : isaSeg997 a p = some isa)
    (h05 : NoColon a.e05) (h06 : NoColon a.e06) (h07 : NoColon a.e07) (h08 : NoColon a.e08) (h11 : NoColon a.e11)
    (h12 : NoColon a.e12) (h15 : NoColon a.e15) (hd : ':' ∉ p.date6) (ht : ':' ∉ p.time4) (hc : ':' ∉ isaCtl p) :
    ∃ v07 v08 v05 v06 v11 v12 v15, a.e07 = some v07 ∧ a.e08 = some v08 ∧ a.e05 = some v05 ∧ a.e06 = some v06 ∧
      a.e11 = some v11 ∧ a.e12 = some v12 ∧ a.e15 = some v15 ∧ isa = isaOf (isaVals v07 v08 v05 v06 v11 v12 v15 p) := by
  unfold isaSeg997 at h
  obtain ⟨y12, w12, k12, e12, q12⟩ := optAppend_some _ _ _ h
  obtain ⟨y11, w11, k11, e11, q11⟩ := optAppend_some _ _ _ k12
  obtain ⟨y10, w10, k10, e10, q10⟩ := optAppend_some _ _ _ k11
  obtain ⟨y9, w9, k9, e9, q9⟩ := optAppend_some _ _ _ k10
  obtain ⟨y8, w8, k8, e8, q8⟩ := optAppend_some _ _ _ k9
  obtain ⟨y7, w7, k7, e7, q7⟩ := optAppend_some _ _ _ k8
  obtain ⟨y6, w6, k6, e6, q6⟩ := optAppend_some _ _ _ k7
  obtain ⟨y5, w5, k5, e5, q5⟩ := optAppend_some _ _ _ k6
  obtain ⟨y4, w4, k4, e4, q4⟩ := optAppend_some _ _ _ k5
  obtain ⟨y3, w3, k3, e3, q3⟩ := optAppend_some _ _ _ k4
  obtain ⟨y2, w2, k2, e2, q2⟩ := optAppend_some _ _ _ k3
  obtain ⟨y1, w1, k1, e1, q1⟩ := optAppend_some _ _ _ k2
  simp only [Option.some.injEq] at k1 e5 e6 e9 e10 e12
  subst q12 q11 q10 q9 q8 q7 q6 q5 q4 q3 q2 q1 k1 e5 e6 e9 e10 e12
  refine ⟨w1, w2, w3, w4, w7, w8, w11, e1, e2, e3, e4, e7, e8, e11, ?_⟩
  have s1 := splitOn_no_sep ':' w1 (h07 w1 e1)
  have s2 := splitOn_no_sep ':' w2 (h08 w2 e2)
  have s3 := splitOn_no_sep ':' w3 (h05 w3 e3)
  have s4 := splitOn_no_sep ':' w4 (h06 w4 e4)
  have s7 := splitOn_no_sep ':' w7 (h11 w7 e7)
  have s8 := splitOn_no_sep ':' w8 (h12 w8 e8)
  have s11 := splitOn_no_sep ':' w11 (h15 w11 e11)
  have sd := splitOn_no_sep ':' p.date6 hd
  have st := splitOn_no_sep ':' p.time4 ht
  have sc := splitOn_no_sep ':' (isaCtl p) hc
  have s0 : splitOn ':' (c1 '0') = [['0']] := by decide
  have sl : splitOn ':' (c1 ':') = [[], []] := by decide
  rw [isaHead_mk]
  simp [PSeg.append, isaOf, isaVals, s1, s2, s3, s4, s7, s8, s11, sd, st, sc, s0, sl, blanks10]

/-- the reader's ISA object: the 15 values and the component separator, one component each -/
theorem toSeg_isaOf (vals15 : List Str) (hl : vals15.length = 15) :
    toSeg (isaOf vals15) = ⟨isaId, (vals15 ++ [[':']]).map (fun v => [v])⟩ := by
  unfold toSeg
  rw [asSeg_isaOf vals15 hl]
  unfold SegText.normSeg
  simp only [List.map_append, List.map_cons, List.map_nil]
  rw [normElems_snoc _ _ (by decide)]
  congr 1
  simp only [List.map_append, List.map_map, List.map_cons, List.map_nil, SegText.normComp_single]
  congr 1
  apply List.map_congr_left
  intro v _
  simp [SegText.normComp_single]

theorem own_isa (v07 v08 v05 v06 v11 v12 v15 : Str) (p : Params) :
    OwnFacts kISA 0 (toSeg (isaOf (isaVals v07 v08 v05 v06 v11 v12 v15 p))).elems := by
  rw [toSeg_isaOf _ (by simp [isaVals])]
  intro j e hj ho
  simp only [kISA, Nat.zero_add, Bool.or_eq_true, beq_iff_eq] at ho
  left
  simp only [isaVals, List.cons_append, List.nil_append, List.map_cons, List.map_nil] at hj
  rcases ho with ((((rfl | rfl) | rfl) | rfl) | rfl) | rfl <;>
    (simp only [List.getElem?_cons_succ, List.getElem?_cons_zero, Option.some.injEq] at hj; subst hj; simp [kISA])

end Pyx12Verif.C06R
