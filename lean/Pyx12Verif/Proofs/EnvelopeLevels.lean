/-
The compositional part: running a whole body / set / group / interchange from *any* state restores the stack
and pops exactly the errors of the structural recount; lifted over the lists of sets, groups, interchanges.
-/
import Pyx12Verif.Proofs.EnvelopeBody

namespace Pyx12Verif.Envelope

theorem body_run (rest : List SegView) : ∀ (pre : List SegView) (s : RState), BodyInv pre s →
    (∀ v ∈ rest, isEnvId v.id = false) →
    (s.chk837 = true → ∀ a v b, rest = a ++ v :: b → v.id = idLX → ∃ c ∈ pre ++ a, c.id = idCLM) →
    ∃ s', Runs s rest s' (recountBody s.chk837 pre rest) ∧ BodyInv (pre ++ rest) s' ∧ SameEnv s s' ∧
      s'.segCount = s.segCount + rest.length := by
  induction rest with
  | nil => intro pre s inv _ _; exact ⟨s, Runs.nil s, by simpa using inv, SameEnv.refl s, rfl⟩
  | cons v r ih =>
    intro pre s inv hb hdom
    obtain ⟨s1, hstep, inv1, same1, hseg1⟩ :=
      body_step pre s v inv (hb v (by simp)) (fun hc hlx => by simpa using hdom hc [] v r rfl hlx)
    obtain ⟨s2, hrun, inv2, same2, hseg2⟩ := ih (pre ++ [v]) s1 inv1 (fun w hw => hb w (by simp [hw]))
      (fun hc a w b e hlx => by
        have := hdom (same1.chk837 ▸ hc) (v :: a) w b (by simp [e]) hlx
        simpa using this)
    refine ⟨s2, ?_, by simpa using inv2, same1.trans same2, by rw [hseg2, hseg1]; simp; omega⟩
    rw [same1.chk837] at hrun
    exact Runs.cons hstep hrun

theorem bodyInv_start (s : RState) (h1 : s.hlCount = 0) (h2 : s.hlStack = []) : BodyInv [] s :=
  ⟨by simp [h1], by simp [h2, lastChain, hlParents, chainTable, chainsAux, prevChain],
   fun _ h => by obtain ⟨c, hc, _⟩ := h; cases hc⟩

theorem dupErr_congr (e : Err) (c : Option Str) (l l' : List (Option Str)) (h : ∀ x, x ∈ l ↔ x ∈ l') :
    dupErr e c l = dupErr e c l' := by
  unfold dupErr
  by_cases hc : c ∈ l
  · simp [hc, (h c).mp hc]
  · have : c ∉ l' := fun h' => hc ((h c).mpr h')
    simp [hc, this]

/-- a set after its ST: body, then SE if there is one -/
theorem openSet_run (s : RState) (c : Option Str) (body : List SegView) (hd : BodyDom s.chk837 body) :
    ∃ s', Runs s (mkST c :: body) s' (dupErr Err.st23 c s.stIds :: recountBody s.chk837 [] body) ∧
      s'.loops = (Kind.st, c) :: s.loops ∧ s'.stCount = s.stCount + 1 ∧ s'.stIds = c :: s.stIds ∧
      s'.gsCount = s.gsCount ∧ s'.isaIds = s.isaIds ∧ s'.gsIds = s.gsIds ∧ s'.chk837 = s.chk837 ∧
      s'.segCount = body.length + 1 ∧ BodyInv body s' := by
  obtain ⟨s2, hrun, inv2, same, hseg⟩ := body_run body []
    { s with hlStack := [], hlCount := 0, stCount := s.stCount + 1, stIds := c :: s.stIds,
             loops := (Kind.st, c) :: s.loops, segCount := 1 }
    (bodyInv_start _ rfl rfl) hd.1
    (fun hc a v b e hlx => by simpa using hd.2 hc a v b e hlx)
  refine ⟨s2, Runs.cons (step_ST s c) hrun, same.loops, same.stCount, same.stIds, same.gsCount, same.isaIds,
    same.gsIds, same.chk837, by rw [hseg]; simp; omega, by simpa using inv2⟩

theorem set_run (s : RState) (t : TSet) (hd : BodyDom s.chk837 t.body) :
    ∃ s', Runs s (flattenSet t) s'
        (dupErr Err.st23 t.stCtl s.stIds ::
          (recountBody s.chk837 [] t.body ++ [trailerErrs Err.st3 Err.st4 t.stCtl t.seCtl t.seCnt (t.body.length + 2)])) ∧
      s'.loops = s.loops ∧ s'.stCount = s.stCount + 1 ∧ s'.stIds = t.stCtl :: s.stIds ∧
      s'.gsCount = s.gsCount ∧ s'.isaIds = s.isaIds ∧ s'.gsIds = s.gsIds ∧ s'.chk837 = s.chk837 := by
  obtain ⟨s2, hrun, hl, h1, h2, h3, h4, h5, h6, hseg, _⟩ := openSet_run s t.stCtl t.body hd
  have hse := step_SE s2 t.seCnt t.seCtl t.stCtl s.loops hl
  have e : s2.segCount + 1 = t.body.length + 2 := by omega
  rw [e] at hse
  refine ⟨{ s2 with loops := s.loops }, ?_, rfl, h1, h2, h3, h4, h5, h6⟩
  have := Runs.snoc hrun hse
  simpa [flattenSet] using this

theorem sets_run (chk : Bool) (rest : List TSet) : ∀ (earlier : List TSet) (s : RState),
    s.chk837 = chk → (∀ x, x ∈ s.stIds ↔ x ∈ earlier.map (·.stCtl)) → s.stCount = earlier.length →
    SetsDom chk rest →
    ∃ s', Runs s (flattenSets rest) s' (recountSets chk earlier rest) ∧ s'.loops = s.loops ∧
      s'.stCount = earlier.length + rest.length ∧ (∀ x, x ∈ s'.stIds ↔ x ∈ (earlier ++ rest).map (·.stCtl)) ∧
      s'.gsCount = s.gsCount ∧ s'.isaIds = s.isaIds ∧ s'.gsIds = s.gsIds ∧ s'.chk837 = chk := by
  induction rest with
  | nil => intro earlier s hc hm hn _; exact ⟨s, Runs.nil s, rfl, by simpa using hn, by simpa using hm, rfl, rfl, rfl, hc⟩
  | cons t r ih =>
    intro earlier s hc hm hn hd
    obtain ⟨s1, hrun1, l1, n1, i1, g1, a1, b1, c1⟩ := set_run s t (hc ▸ hd t (by simp))
    obtain ⟨s2, hrun2, l2, n2, i2, g2, a2, b2, c2⟩ := ih (earlier ++ [t]) s1 (c1.trans hc)
      (fun x => by rw [i1]; simp [hm x]; constructor <;> (intro h; rcases h with h | h <;> simp [h]))
      (by rw [n1, hn]; simp) (fun u hu => hd u (by simp [hu]))
    refine ⟨s2, ?_, l2.trans l1, by rw [n2]; simp; omega, by simpa using i2, g2.trans g1, a2.trans a1, b2.trans b1, c2⟩
    have := Runs.append hrun1 hrun2
    rw [hc, dupErr_congr _ _ _ _ hm] at this
    simpa [flattenSets, recountSets, recountSet] using this

/-- a group after its GS and its complete sets -/
theorem openGroup_run (chk : Bool) (s : RState) (c : Option Str) (sets : List TSet) (hc : s.chk837 = chk)
    (hd : SetsDom chk sets) :
    ∃ s', Runs s (mkGS c :: flattenSets sets) s' (dupErr Err.gs6 c s.gsIds :: recountSets chk [] sets) ∧
      s'.loops = (Kind.gs, c) :: s.loops ∧ s'.stCount = sets.length ∧
      (∀ x, x ∈ s'.stIds ↔ x ∈ sets.map (·.stCtl)) ∧
      s'.gsCount = s.gsCount + 1 ∧ s'.gsIds = c :: s.gsIds ∧ s'.isaIds = s.isaIds ∧ s'.chk837 = chk := by
  obtain ⟨s2, hrun, l2, n2, i2, g2, a2, b2, c2⟩ := sets_run chk sets []
    { s with gsCount := s.gsCount + 1, gsIds := c :: s.gsIds, loops := (Kind.gs, c) :: s.loops,
             stCount := 0, stIds := [] }
    hc (by simp) rfl hd
  exact ⟨s2, Runs.cons (step_GS s c) hrun, l2, by simpa using n2, by simpa using i2, g2, b2, a2, c2⟩

theorem group_run (chk : Bool) (s : RState) (g : Group) (hc : s.chk837 = chk) (hd : SetsDom chk g.sets) :
    ∃ s', Runs s (flattenGroup g) s'
        (dupErr Err.gs6 g.gsCtl s.gsIds ::
          (recountSets chk [] g.sets ++ [trailerErrs Err.gs4 Err.gs5 g.gsCtl g.geCtl g.geCnt g.sets.length])) ∧
      s'.loops = s.loops ∧ s'.gsCount = s.gsCount + 1 ∧ s'.gsIds = g.gsCtl :: s.gsIds ∧
      s'.isaIds = s.isaIds ∧ s'.chk837 = chk := by
  obtain ⟨s2, hrun, hl, n2, _, g2, b2, a2, c2⟩ := openGroup_run chk s g.gsCtl g.sets hc hd
  have hge := step_GE s2 g.geCnt g.geCtl g.gsCtl s.loops hl
  refine ⟨{ s2 with loops := s.loops }, ?_, rfl, g2, b2, a2, c2⟩
  have := Runs.snoc hrun hge
  simpa [flattenGroup, n2] using this

theorem groups_run (chk : Bool) (rest : List Group) : ∀ (earlier : List Group) (s : RState),
    s.chk837 = chk → (∀ x, x ∈ s.gsIds ↔ x ∈ earlier.map (·.gsCtl)) → s.gsCount = earlier.length →
    GroupsDom chk rest →
    ∃ s', Runs s (flattenGroups rest) s' (recountGroups chk earlier rest) ∧ s'.loops = s.loops ∧
      s'.gsCount = earlier.length + rest.length ∧ s'.isaIds = s.isaIds ∧ s'.chk837 = chk ∧
      (∀ x, x ∈ s'.gsIds ↔ x ∈ (earlier ++ rest).map (·.gsCtl)) := by
  induction rest with
  | nil => intro earlier s hc hm hn _; exact ⟨s, Runs.nil s, rfl, by simpa using hn, rfl, hc, by simpa using hm⟩
  | cons g r ih =>
    intro earlier s hc hm hn hd
    obtain ⟨s1, hrun1, l1, n1, i1, a1, c1⟩ := group_run chk s g hc (hd g (by simp))
    obtain ⟨s2, hrun2, l2, n2, a2, c2, m2⟩ := ih (earlier ++ [g]) s1 c1
      (fun x => by rw [i1]; simp [hm x]; constructor <;> (intro h; rcases h with h | h <;> simp [h]))
      (by rw [n1, hn]; simp) (fun u hu => hd u (by simp [hu]))
    refine ⟨s2, ?_, l2.trans l1, by rw [n2]; simp; omega, a2.trans a1, c2, by simpa using m2⟩
    have := Runs.append hrun1 hrun2
    rw [dupErr_congr _ _ _ _ hm] at this
    simpa [flattenGroups, recountGroups, recountGroup] using this

/-- an interchange after its ISA and its complete groups -/
theorem openInterchange_run (chk : Bool) (s : RState) (c : Option Str) (groups : List Group) (hc : s.chk837 = chk)
    (hd : GroupsDom chk groups) :
    ∃ s', Runs s (mkISA c :: flattenGroups groups) s' (dupErr Err.isa025 c s.isaIds :: recountGroups chk [] groups) ∧
      s'.loops = (Kind.isa, c) :: s.loops ∧ s'.gsCount = groups.length ∧
      s'.isaIds = c :: s.isaIds ∧ s'.chk837 = chk ∧ (∀ x, x ∈ s'.gsIds ↔ x ∈ groups.map (·.gsCtl)) := by
  obtain ⟨s2, hrun, l2, n2, a2, c2, i2⟩ := groups_run chk groups []
    { s with loops := (Kind.isa, c) :: s.loops, isaIds := c :: s.isaIds, gsCount := 0, gsIds := [] }
    hc (by simp) rfl hd
  exact ⟨s2, Runs.cons (step_ISA s c) hrun, l2, by simpa using n2, a2, c2, by simpa using i2⟩

theorem interchange_run (chk : Bool) (s : RState) (i : Interchange) (hc : s.chk837 = chk)
    (hd : GroupsDom chk i.groups) :
    ∃ s', Runs s (flattenInterchange i) s'
        (dupErr Err.isa025 i.isaCtl s.isaIds ::
          (recountGroups chk [] i.groups ++
            [trailerErrs Err.isa001 Err.isa021 i.isaCtl i.ieaCtl i.ieaCnt i.groups.length])) ∧
      s'.loops = s.loops ∧ s'.isaIds = i.isaCtl :: s.isaIds ∧ s'.chk837 = chk := by
  obtain ⟨s2, hrun, hl, n2, a2, c2, _⟩ := openInterchange_run chk s i.isaCtl i.groups hc hd
  have hiea := step_IEA s2 i.ieaCnt i.ieaCtl i.isaCtl s.loops hl
  refine ⟨{ s2 with loops := s.loops }, ?_, rfl, a2, c2⟩
  have := Runs.snoc hrun hiea
  simpa [flattenInterchange, n2] using this

theorem file_run (chk : Bool) (rest : List Interchange) : ∀ (earlier : List Interchange) (s : RState),
    s.chk837 = chk → (∀ x, x ∈ s.isaIds ↔ x ∈ earlier.map (·.isaCtl)) → InDomain chk rest →
    ∃ s', Runs s (flatten rest) s' (recountFile chk earlier rest) ∧ s'.loops = s.loops ∧
      (∀ x, x ∈ s'.isaIds ↔ x ∈ (earlier ++ rest).map (·.isaCtl)) ∧ s'.chk837 = chk := by
  induction rest with
  | nil => intro earlier s hc hm _; exact ⟨s, Runs.nil s, rfl, by simpa using hm, hc⟩
  | cons i r ih =>
    intro earlier s hc hm hd
    obtain ⟨s1, hrun1, l1, i1, c1⟩ := interchange_run chk s i hc (hd i (by simp))
    obtain ⟨s2, hrun2, l2, i2, c2⟩ := ih (earlier ++ [i]) s1 c1
      (fun x => by rw [i1]; simp [hm x]; constructor <;> (intro h; rcases h with h | h <;> simp [h]))
      (fun u hu => hd u (by simp [hu]))
    refine ⟨s2, ?_, l2.trans l1, by simpa using i2, c2⟩
    have := Runs.append hrun1 hrun2
    rw [dupErr_congr _ _ _ _ hm] at this
    simpa [flatten, recountFile, recountInterchange] using this

end Pyx12Verif.Envelope
