/-
C03 run level, generalised invariant: running the walker over a whole conformant derivation
(fork of `After` of Proofs/WalkerRun.lean and of the simulation of Proofs/WalkerRun3.lean over the invariant of
Proofs/C03RunWInv.lean).
-/
import Pyx12Verif.Proofs.C03RunWOff

namespace Pyx12Verif.WalkerGenW
open Pyx12Verif.MapSkel Pyx12Verif.Walker Pyx12Verif.WalkerGen

/-! ### the simulation, by recursion over the derivation -/

/-- the run over `out` from `(cnt, cur)` is accepted, and the state after it satisfies the invariant and `P` -/
def After (K : Consts) (root : List Node) (rootId : Nat) (cnt : Counter) (cur : List Nat) (out : List Emit)
    (P : Counter → List Nat → Prop) : Prop :=
  RunOK K root rootId cnt cur out ∧ Inv root (runCnt K root rootId cnt cur out) (runCur cur out) ∧
    P (runCnt K root rootId cnt cur out) (runCur cur out)

theorem After.nil {K : Consts} {root : List Node} {rootId : Nat} {cnt : Counter} {cur : List Nat}
    {P : Counter → List Nat → Prop} (hinv : Inv root cnt cur) (hp : P cnt cur) : After K root rootId cnt cur [] P :=
  ⟨trivial, hinv, hp⟩

theorem After.seq {K : Consts} {root : List Node} {rootId : Nat} {cnt : Counter} {cur : List Nat} {o1 o2 : List Emit}
    {P : Counter → List Nat → Prop} {Q : Counter → Counter → List Nat → Prop} (h1 : After K root rootId cnt cur o1 P)
    (h2 : ∀ cnt1 cur1, Inv root cnt1 cur1 → P cnt1 cur1 → After K root rootId cnt1 cur1 o2 (Q cnt1)) :
    After K root rootId cnt cur (o1 ++ o2) (Q (runCnt K root rootId cnt cur o1)) := by
  obtain ⟨r1, i1, p1⟩ := h1
  obtain ⟨r2, i2, p2⟩ := h2 _ _ i1 p1
  refine ⟨(runOK_append K root rootId o1 o2 cnt cur).mpr ⟨r1, r2⟩, ?_, ?_⟩
  · rw [runCnt_append, runCur_append]; exact i2
  · rw [runCnt_append, runCur_append]; exact p2

theorem After.mono {K : Consts} {root : List Node} {rootId : Nat} {cnt : Counter} {cur : List Nat} {o : List Emit}
    {P Q : Counter → List Nat → Prop} (h : After K root rootId cnt cur o P) (hpq : ∀ a b, P a b → Q a b) :
    After K root rootId cnt cur o Q := ⟨h.1, h.2.1, hpq _ _ h.2.2⟩

theorem After.step {K : Consts} {root : List Node} {rootId : Nat} {cnt : Counter} {cur : List Nat} {ip : List Nat}
    {s : SegData} {cnt1 : Counter}
    (hn : (walk K root rootId cnt cur s).node = some ip)
    (hs : (walk K root rootId cnt cur s).st = { cnt := cnt1, pending := [], errs := [] })
    {o : List Emit} {P : Counter → List Nat → Prop} (h : After K root rootId cnt1 ip o P) :
    After K root rootId cnt cur ((ip, s) :: o) P := by
  obtain ⟨r, i, p⟩ := h
  have hc : (walk K root rootId cnt cur s).st.cnt = cnt1 := by rw [hs]
  refine ⟨?_, ?_, ?_⟩
  · simp only [RunOK, hn, hs, true_and]; exact r
  · simp only [runCnt, runCur, hc]; exact i
  · simp only [runCnt, runCur, hc]; exact p

/-! ### the simulation with transparent loops -/

/-- the walk is at `cur`; child `j` of the on-path loop `q` is a transparent loop after the path child `i` -/
structure Anchor (root : List Node) (cnt : Counter) (cur q : List Nat) (i j : Nat) : Prop where
  inv : Inv root cnt cur
  rdy : ReadyAt root cnt cur q i j
  lt : i < j
  tr : ∃ ch l p u r w chT, chAt root q = some ch ∧ ch[j]? = some (.loop l p u r w chT) ∧ firstIsLoop chT = true

theorem Anchor.zero {root : List Node} {cnt : Counter} {cur q : List Nat} {i j : Nat} (a : Anchor root cnt cur q i j)
    {bp : List Nat} (hbp : q ++ [j] <+: bp) {sub : List Node} (hsub : chAt root bp = some sub) (x : Nat × Nat) :
    cnt.get (keyAt root bp ++ [x]) = 0 := by
  obtain ⟨ch, l, p, u, r, w, chT, hch, hT, _⟩ := a.tr
  obtain ⟨ch0, hch0, hl⟩ := a.inv.lev q i a.rdy.1
  rw [hch] at hch0; simp only [Option.some.injEq] at hch0; subst hch0
  have hz := hl.later j _ a.lt hT
  have hsubT : chAt root (q ++ [j]) = some chT := by rw [chAt_snoc hch, hT]
  rw [← keyAt_snoc hch hT] at hz
  exact hz _ (List.IsPrefix.trans (keyAt_prefix hsubT hbp) (List.prefix_append _ _))

set_option linter.unusedSectionVars false
section
variable {K : Consts} {root : List Node} (rootId : Nat) (h : MapOK K root)
include h

mutual
theorem g_one : ∀ {ip : List Nat} {c : Node} {out : List Emit}, GenOne K ip c out →
    ∀ (q : List Nat) (j i : Nat) (ch : List Node) (cnt : Counter) (cur : List Nat),
    ip = q ++ [j] → chAt root q = some ch → ch[j]? = some c → Inv root cnt cur → ReadyAt root cnt cur q i j →
    c.usage ≠ 2 → (c.rep = 0 ∨ cnt.get (keyAt root q ++ [c.comp]) < c.rep) →
    (q = [] ∨ 0 < j ∨ firstIsLoop ch = true) →
    After K root rootId cnt cur out (fun cnt' cur' =>
      ReadyAt root cnt' cur' q j j ∧ AgreeOff cnt cnt' (keyAt root q ++ [c.comp]) ∧
      cnt'.get (keyAt root q ++ [c.comp]) = cnt.get (keyAt root q ++ [c.comp]) + 1)
  | _, _, _, .seg hm, q, j, i, ch, cnt, cur, hip, hch, hc, hinv, hr, hu, hrep, hnf => by
    subst hip
    obtain ⟨hn, hs⟩ := step_seg rootId h hinv hr.on hch hc rfl hm hu hrep hnf
    apply After.step hn hs
    apply After.nil (post_seg h hinv hr.on hch hc rfl)
    exact ⟨ready_here _ _ _ _, agreeOff_incr _ _, get_incr_same _ _⟩
  | _, _, _, .loop (lid := lid) (p := p) (u := u) (r := r) (w := w) (first := first) (rest := rest) hseg hm hl,
      q, j, i, ch, cnt, cur, hip, hch, hc, hinv, hr, hu, hrep, hnf => by
    simp only [Node.usage, Node.rep, Node.comp] at hu hrep ⊢
    obtain ⟨hn, hs⟩ := step_loop rootId h hinv hr.on hch hc hseg hm hu hrep
    have hinv1 := post_loop h hinv hr.on hch hc hseg
    have hsub : chAt root (q ++ [j]) = some (first :: rest) := by rw [chAt_snoc hch, hc]
    have hkey : keyAt root (q ++ [j]) = keyAt root q ++ [(lid, 0)] := keyAt_snoc hch hc
    have hr1 : ReadyAt root (enterCnt cnt (keyAt root q ++ [(lid, 0)]) first.comp) (q ++ [j] ++ [0]) (q ++ [j]) 0 1 :=
      ready_skip (ready_here _ _ _ _) (by intro hh; omega)
    have hrec := g_list hl (q ++ [j]) 0 (first :: rest) _ _ hip hsub (by simp) hinv1 hr1 (by omega)
      (Or.inr (Or.inl (by omega)))
    subst hip
    apply After.step hn hs
    refine After.mono hrec ?_
    intro cnt' cur' ⟨⟨i', hi', hra⟩, hso⟩
    rw [hkey] at hso
    refine ⟨ready_up hsub hra (by simp; omega), AgreeOff.trans (agreeOff_enter _ _ _) hso.agree, ?_⟩
    rw [hso _ (fun hh => hh.2 rfl), get_enterCnt_self]
termination_by structural _ _ _ d => d
theorem g_reps : ∀ {ip : List Nat} {c : Node} {k : Nat} {out : List Emit}, GenReps K ip c k out →
    ∀ (q : List Nat) (j i : Nat) (ch : List Node) (cnt : Counter) (cur : List Nat),
    ip = q ++ [j] → chAt root q = some ch → ch[j]? = some c → counted c = true → Inv root cnt cur →
    ReadyAt root cnt cur q i j → cnt.get (keyAt root q ++ [c.comp]) = k →
    (q = [] ∨ 0 < j ∨ firstIsLoop ch = true) →
    After K root rootId cnt cur out (fun cnt' cur' =>
      (∃ i', i' ≤ j ∧ ReadyAt root cnt' cur' q i' (j + 1)) ∧ AgreeOff cnt cnt' (keyAt root q ++ [c.comp]))
  | _, _, _, _, .stop hk, q, j, i, ch, cnt, cur, hip, hch, hc, hcnt, hinv, hr, hget, hnf => by
    apply After.nil hinv
    refine ⟨⟨i, hr.2.1, ready_skip hr ?_⟩, AgreeOff.refl _ _⟩
    intro _ ch' c' hch' hc'
    rw [hch] at hch'; simp only [Option.some.injEq] at hch'; subst hch'
    rw [hc] at hc'; simp only [Option.some.injEq] at hc'; subst hc'
    exact satisfied_counted hcnt (fun hu0 => by rw [hget]; exact hk hu0)
  | _, _, _, _, .more hu hk hone hreps, q, j, i, ch, cnt, cur, hip, hch, hc, hcnt, hinv, hr, hget, hnf => by
    have h1 := g_one hone q j i ch cnt cur hip hch hc hinv hr hu (by rw [hget]; exact hk) hnf
    have := After.seq h1 (Q := fun cnt1 cnt' cur' =>
        (∃ i', i' ≤ j ∧ ReadyAt root cnt' cur' q i' (j + 1)) ∧ AgreeOff cnt1 cnt' (keyAt root q ++ [_]))
      (fun cnt1 cur1 hinv1 ⟨hr1, _, hg1⟩ =>
        g_reps hreps q j j ch cnt1 cur1 hip hch hc hcnt hinv1 hr1 (by rw [hg1, hget]) hnf)
    refine ⟨this.1, this.2.1, this.2.2.1, ?_⟩
    exact AgreeOff.trans h1.2.2.2.1 this.2.2.2
termination_by structural _ _ _ _ d => d
theorem g_child : ∀ {ip : List Nat} {c : Node} {out : List Emit}, GenChild K ip c out →
    ∀ (q : List Nat) (j i : Nat) (ch : List Node) (cnt : Counter) (cur : List Nat),
    ip = q ++ [j] → chAt root q = some ch → ch[j]? = some c → Inv root cnt cur →
    ReadyAt root cnt cur q i j → i < j → (q = [] ∨ 0 < j ∨ firstIsLoop ch = true) →
    After K root rootId cnt cur out (fun cnt' cur' =>
      (∃ i', i' ≤ j ∧ ReadyAt root cnt' cur' q i' (j + 1)) ∧ AgreeOff cnt cnt' (keyAt root q ++ [c.comp]))
  | _, _, _, .counted hcnt hreps, q, j, i, ch, cnt, cur, hip, hch, hc, hinv, hr, hij, hnf => by
    obtain ⟨ch0, hch0, hl⟩ := hinv.lev q i hr.1
    rw [hch] at hch0; simp only [Option.some.injEq] at hch0; subst hch0
    have hz := hl.later j _ hij hc _ (List.prefix_refl _)
    exact g_reps hreps q j i ch cnt cur hip hch hc hcnt hinv hr hz hnf
  | _, _, _, .empty, q, j, i, ch, cnt, cur, hip, hch, hc, hinv, hr, hij, hnf => by
    apply After.nil hinv
    refine ⟨⟨i, by omega, ready_skip hr ?_⟩, AgreeOff.refl _ _⟩
    intro _ ch' c' hch' hc'
    rw [hch] at hch'; simp only [Option.some.injEq] at hch'; subst hch'
    rw [hc] at hc'; simp only [Option.some.injEq] at hc'; subst hc'
    simp [satisfied, satHead]
  | _, _, _, .wrapper (lid := l) (p := p) (u := u) (r := r) (w := w) (first := first) (rest := rest) hfs hu hl,
      q, j, i, ch, cnt, cur, hip, hch, hc, hinv, hr, hij, hnf => by
    have hTT : firstIsLoop (first :: rest) = true := by simp [firstIsLoop, hfs]
    have hsubT : chAt root (q ++ [j]) = some (first :: rest) := by rw [chAt_snoc hch, hc]
    have hkeyT : keyAt root (q ++ [j]) = keyAt root q ++ [(Node.loop l p u r w (first :: rest)).comp] := keyAt_snoc hch hc
    have ha : Anchor root cnt cur q i j := ⟨hinv, hr, hij, ch, l, p, u, r, w, first :: rest, hch, hc, hTT⟩
    have hrec := o_list hl q i j (q ++ [j]) (first :: rest) cnt cur hip ha (List.prefix_refl _)
      (off_init hsubT hTT) hsubT (by simp)
    rcases hrec with ⟨hnil, hoff⟩ | haft
    · subst hnil
      apply After.nil hinv
      refine ⟨⟨i, by omega, ready_skip hr ?_⟩, AgreeOff.refl _ _⟩
      intro _ ch' c' hch' hc'
      rw [hch] at hch'; simp only [Option.some.injEq] at hch'; subst hch'
      rw [hc] at hc'; simp only [Option.some.injEq] at hc'; subst hc'
      exact off_ascend (tp := q ++ [j]) (bp := q) (m := j) (by simpa using hoff) (List.prefix_refl _) hsubT (by simp) hch hc
    · refine After.mono haft ?_
      intro cnt' cur' ⟨⟨i', hi', hra⟩, hso⟩
      rw [hkeyT] at hso
      exact ⟨⟨j, Nat.le_refl _, ready_skip (ready_up hsubT hra (by simp)) (by intro hh; omega)⟩, hso.agree⟩
  | _, _, _, .wrapperN (lid := l) (p := p) (r := r) (w := w) (first := first) (rest := rest) hfs,
      q, j, i, ch, cnt, cur, hip, hch, hc, hinv, hr, hij, hnf => by
    exfalso
    have hw := wfNode_at (wfAt_root h.wf) hch hc
    simp [wfNode, transparentOK, firstIsLoop, hfs] at hw
termination_by structural _ _ _ d => d
theorem g_list : ∀ {lip : List Nat} {j : Nat} {rest : List Node} {out : List Emit}, GenList K lip j rest out →
    ∀ (q : List Nat) (i : Nat) (ch : List Node) (cnt : Counter) (cur : List Nat),
    lip = q → chAt root q = some ch → ch.drop j = rest → Inv root cnt cur →
    ReadyAt root cnt cur q i j → i < j → (q = [] ∨ 0 < j ∨ firstIsLoop ch = true) →
    After K root rootId cnt cur out (fun cnt' cur' =>
      (∃ i', i' < j + rest.length ∧ ReadyAt root cnt' cur' q i' (j + rest.length)) ∧
      StrictOff cnt cnt' (keyAt root q))
  | _, _, _, _, .nil, q, i, ch, cnt, cur, hip, hch, hd, hinv, hr, hij, hnf => by
    apply After.nil hinv
    exact ⟨⟨i, by simpa using hij, by simpa using hr⟩, StrictOff.refl _ _⟩
  | _, _, _, _, .cons (i := j) (c := c) (r := r) hchild hlist, q, i, ch, cnt, cur, hip, hch, hd, hinv, hr, hij, hnf => by
    obtain ⟨hc, hd'⟩ := drop_cons_get hd
    have h1 := g_child hchild q j i ch cnt cur (by rw [hip]) hch hc hinv hr hij hnf
    have := After.seq h1 (Q := fun cnt1 cnt' cur' =>
        (∃ i', i' < j + 1 + r.length ∧ ReadyAt root cnt' cur' q i' (j + 1 + r.length)) ∧
        StrictOff cnt1 cnt' (keyAt root q))
      (fun cnt1 cur1 hinv1 ⟨⟨i', hi', hr1⟩, _⟩ =>
        g_list hlist q i' ch cnt1 cur1 hip hch hd' hinv1 hr1 (by omega) (Or.inr (Or.inl (by omega))))
    refine ⟨this.1, this.2.1, ?_, ?_⟩
    · have := this.2.2.1
      simpa [Nat.add_assoc, Nat.add_comm 1] using this
    · exact StrictOff.trans h1.2.2.2.strict this.2.2.2
termination_by structural _ _ _ _ d => d
/-- off the path: one instance of the first-seg loop that is child `m` of the transparent loop at `bp` -/
theorem o_one : ∀ {ip : List Nat} {c : Node} {out : List Emit}, GenOne K ip c out →
    ∀ (q : List Nat) (i j : Nat) (bp : List Nat) (m : Nat) (sub : List Node) (cnt : Counter) (cur : List Nat),
    ip = bp ++ [m] → Anchor root cnt cur q i j → q ++ [j] <+: bp → Off root cnt (q ++ [j]) (bp ++ [m]) →
    chAt root bp = some sub → sub[m]? = some c → c.usage ≠ 2 →
    (c.rep = 0 ∨ cnt.get (keyAt root bp ++ [c.comp]) < c.rep) →
    After K root rootId cnt cur out (fun cnt' cur' =>
      ReadyAt root cnt' cur' bp m m ∧ AgreeOff cnt cnt' (keyAt root bp ++ [c.comp]) ∧
      cnt'.get (keyAt root bp ++ [c.comp]) = cnt.get (keyAt root bp ++ [c.comp]) + 1)
  | _, _, _, .seg hm, q, i, j, bp, m, sub, cnt, cur, hip, ha, hbp, hoff, hsub, hc, hu, hrep => by
    exfalso
    have := off_child_loop h hbp hoff hsub hc
    simp [Node.isSeg] at this
  | _, _, _, .loop (lid := lid) (p := p') (u := u') (r := r') (w := w') (first := first) (rest := rest) hseg hm hl,
      q, i, j, bp, m, sub, cnt, cur, hip, ha, hbp, hoff, hsub, hc, hu, hrep => by
    simp only [Node.usage, Node.rep, comp_loop] at hu hrep ⊢
    obtain ⟨ch, l, p, u, r, w, chT, hch, hT, hTT⟩ := ha.tr
    obtain ⟨rel, hrel⟩ := hbp
    subst hrel
    have hsubT : chAt root (q ++ [j]) = some chT := by rw [chAt_snoc hch, hT]
    have hsubL : chAt chT rel = some sub := by
      have := hsub; rw [chAt_append, hsubT] at this; exact this
    obtain ⟨hn, hs⟩ := step_enter rootId h ha.inv ha.rdy ha.lt hch hT hTT hoff hsubL hc hseg hm hu hrep
    have hinv1 := post_enter h ha.inv ha.rdy ha.lt hch hT hTT hoff hsubL hc hseg
    have hsub1 : chAt root (q ++ [j] ++ rel ++ [m]) = some (first :: rest) := by rw [chAt_snoc hsub, hc]
    have hkey : keyAt root (q ++ [j] ++ rel ++ [m]) = keyAt root (q ++ [j] ++ rel) ++ [(lid, 0)] := keyAt_snoc hsub hc
    have hr1 : ReadyAt root (enterCnt cnt (keyAt root (q ++ [j] ++ rel) ++ [(lid, 0)]) first.comp)
        (q ++ [j] ++ rel ++ [m] ++ [0]) (q ++ [j] ++ rel ++ [m]) 0 1 :=
      ready_skip (ready_here _ _ _ _) (by intro hh; omega)
    have hrec := g_list hl (q ++ [j] ++ rel ++ [m]) 0 (first :: rest) _ _ hip hsub1 (by simp) hinv1 hr1 (by omega)
      (Or.inr (Or.inl (by omega)))
    subst hip
    apply After.step hn hs
    refine After.mono hrec ?_
    intro cnt' cur' ⟨⟨i', hi', hra⟩, hso⟩
    rw [hkey] at hso
    refine ⟨ready_up hsub1 hra (by simp; omega), AgreeOff.trans (agreeOff_enter _ _ _) hso.agree, ?_⟩
    rw [hso _ (fun hh => hh.2 rfl), get_enterCnt_self]
termination_by structural _ _ _ d => d
theorem o_reps : ∀ {ip : List Nat} {c : Node} {k : Nat} {out : List Emit}, GenReps K ip c k out →
    ∀ (q : List Nat) (i j : Nat) (bp : List Nat) (m : Nat) (sub : List Node) (cnt : Counter) (cur : List Nat),
    ip = bp ++ [m] → k = 0 → Anchor root cnt cur q i j → q ++ [j] <+: bp → Off root cnt (q ++ [j]) (bp ++ [m]) →
    chAt root bp = some sub → sub[m]? = some c → counted c = true →
    (out = [] ∧ satisfied cnt (keyAt root bp ++ [c.comp]) c = true) ∨
    After K root rootId cnt cur out (fun cnt' cur' =>
      (∃ i', i' ≤ m ∧ ReadyAt root cnt' cur' bp i' (m + 1)) ∧ AgreeOff cnt cnt' (keyAt root bp ++ [c.comp]))
  | _, _, _, _, .stop hk, q, i, j, bp, m, sub, cnt, cur, hip, hk0, ha, hbp, hoff, hsub, hc, hcnt => by
    left
    subst hk0
    exact ⟨rfl, satisfied_counted hcnt (fun hu0 => by have := hk hu0; omega)⟩
  | _, _, _, _, .more (c := c) hu hk hone hreps, q, i, j, bp, m, sub, cnt, cur, hip, hk0, ha, hbp, hoff, hsub, hc, hcnt => by
    right
    have hz := ha.zero hbp hsub c.comp
    have h1 := o_one hone q i j bp m sub cnt cur hip ha hbp hoff hsub hc hu (by rw [hz]; subst hk0; exact hk)
    have hTs : firstIsLoop sub = true := by
      obtain ⟨sub0, hsub0, hT0, _⟩ := hoff bp m hbp (List.prefix_refl _)
      rw [hsub] at hsub0; simp only [Option.some.injEq] at hsub0; subst hsub0; exact hT0
    have := After.seq h1 (Q := fun cnt1 cnt' cur' =>
        (∃ i', i' ≤ m ∧ ReadyAt root cnt' cur' bp i' (m + 1)) ∧ AgreeOff cnt1 cnt' (keyAt root bp ++ [_]))
      (fun cnt1 cur1 hinv1 ⟨hr1, _, hg1⟩ =>
        g_reps hreps bp m m sub cnt1 cur1 hip hsub hc hcnt hinv1 hr1 (by rw [hg1, hz]; subst hk0; rfl)
          (Or.inr (Or.inr hTs)))
    refine ⟨this.1, this.2.1, this.2.2.1, ?_⟩
    exact AgreeOff.trans h1.2.2.2.1 this.2.2.2
termination_by structural _ _ _ _ d => d
theorem o_child : ∀ {ip : List Nat} {c : Node} {out : List Emit}, GenChild K ip c out →
    ∀ (q : List Nat) (i j : Nat) (bp : List Nat) (m : Nat) (sub : List Node) (cnt : Counter) (cur : List Nat),
    ip = bp ++ [m] → Anchor root cnt cur q i j → q ++ [j] <+: bp → Off root cnt (q ++ [j]) (bp ++ [m]) →
    chAt root bp = some sub → sub[m]? = some c →
    (out = [] ∧ satisfied cnt (keyAt root bp ++ [c.comp]) c = true) ∨
    After K root rootId cnt cur out (fun cnt' cur' =>
      (∃ i', i' ≤ m ∧ ReadyAt root cnt' cur' bp i' (m + 1)) ∧ AgreeOff cnt cnt' (keyAt root bp ++ [c.comp]))
  | _, _, _, .counted hcnt hreps, q, i, j, bp, m, sub, cnt, cur, hip, ha, hbp, hoff, hsub, hc => by
    exact o_reps hreps q i j bp m sub cnt cur hip rfl ha hbp hoff hsub hc hcnt
  | _, _, _, .empty, q, i, j, bp, m, sub, cnt, cur, hip, ha, hbp, hoff, hsub, hc => by
    left; exact ⟨rfl, by simp [satisfied, satHead]⟩
  | _, _, _, .wrapper (lid := l) (p := p) (u := u) (r := r) (w := w) (first := first) (rest := rest) hfs hu hl,
      q, i, j, bp, m, sub, cnt, cur, hip, ha, hbp, hoff, hsub, hc => by
    have hTT : firstIsLoop (first :: rest) = true := by simp [firstIsLoop, hfs]
    have hsubT : chAt root (bp ++ [m]) = some (first :: rest) := by rw [chAt_snoc hsub, hc]
    have hkeyT : keyAt root (bp ++ [m]) = keyAt root bp ++ [(Node.loop l p u r w (first :: rest)).comp] := keyAt_snoc hsub hc
    have hrec := o_list hl q i j (bp ++ [m]) (first :: rest) cnt cur hip ha
      (List.IsPrefix.trans hbp (List.prefix_append _ _)) (off_descend hoff hsubT hTT) hsubT (by simp)
    rcases hrec with ⟨hnil, hoff'⟩ | haft
    · left
      exact ⟨hnil, off_ascend (by simpa using hoff') (List.IsPrefix.trans hbp (List.prefix_append _ _)) hsubT (by simp) hsub hc⟩
    · right
      refine After.mono haft ?_
      intro cnt' cur' ⟨⟨i', hi', hra⟩, hso⟩
      rw [hkeyT] at hso
      exact ⟨⟨m, Nat.le_refl _, ready_skip (ready_up hsubT hra (by simp)) (by intro hh; omega)⟩, hso.agree⟩
  | _, _, _, .wrapperN (lid := l) (p := p) (r := r) (w := w) (first := first) (rest := rest) hfs,
      q, i, j, bp, m, sub, cnt, cur, hip, ha, hbp, hoff, hsub, hc => by
    exfalso
    have hw := wfNode_at (wfAt_root h.wf) hsub hc
    simp [wfNode, transparentOK, firstIsLoop, hfs] at hw
termination_by structural _ _ _ d => d
theorem o_list : ∀ {lip : List Nat} {m : Nat} {rest : List Node} {out : List Emit}, GenList K lip m rest out →
    ∀ (q : List Nat) (i j : Nat) (bp : List Nat) (sub : List Node) (cnt : Counter) (cur : List Nat),
    lip = bp → Anchor root cnt cur q i j → q ++ [j] <+: bp → Off root cnt (q ++ [j]) (bp ++ [m]) →
    chAt root bp = some sub → sub.drop m = rest →
    (out = [] ∧ Off root cnt (q ++ [j]) (bp ++ [m + rest.length])) ∨
    After K root rootId cnt cur out (fun cnt' cur' =>
      (∃ i', i' < m + rest.length ∧ ReadyAt root cnt' cur' bp i' (m + rest.length)) ∧
      StrictOff cnt cnt' (keyAt root bp))
  | _, _, _, _, .nil, q, i, j, bp, sub, cnt, cur, hip, ha, hbp, hoff, hsub, hd => by
    left; exact ⟨rfl, by simpa using hoff⟩
  | _, _, _, _, .cons (i := m) (c := c) (r := r) (o1 := o1) (o2 := o2) hchild hlist,
      q, i, j, bp, sub, cnt, cur, hip, ha, hbp, hoff, hsub, hd => by
    obtain ⟨hc, hd'⟩ := drop_cons_get hd
    have h1 := o_child hchild q i j bp m sub cnt cur (by rw [hip]) ha hbp hoff hsub hc
    rcases h1 with ⟨hnil, hsat⟩ | haft
    · -- nothing emitted for this child: still off the path
      have hoff1 : Off root cnt (q ++ [j]) (bp ++ [m + 1]) := off_advance hoff hbp (by
        intro sub' c' hsub' hc'
        rw [hsub] at hsub'; simp only [Option.some.injEq] at hsub'; subst hsub'
        rw [hc] at hc'; simp only [Option.some.injEq] at hc'; subst hc'
        exact hsat)
      have h2 := o_list hlist q i j bp sub cnt cur hip ha hbp hoff1 hsub hd'
      subst hnil
      rcases h2 with ⟨hnil2, hoff2⟩ | haft2
      · left
        refine ⟨by simpa using hnil2, ?_⟩
        have : m + (c :: r).length = m + 1 + r.length := by simp; omega
        rw [this]; exact hoff2
      · right
        have : m + (c :: r).length = m + 1 + r.length := by simp; omega
        rw [this]; simpa using haft2
    · -- the child was entered: the rest of the list is on the path
      right
      have hTs : firstIsLoop sub = true := by
        obtain ⟨sub0, hsub0, hT0, _⟩ := hoff bp m hbp (List.prefix_refl _)
        rw [hsub] at hsub0; simp only [Option.some.injEq] at hsub0; subst hsub0; exact hT0
      have := After.seq haft (Q := fun cnt1 cnt' cur' =>
          (∃ i', i' < m + 1 + r.length ∧ ReadyAt root cnt' cur' bp i' (m + 1 + r.length)) ∧
          StrictOff cnt1 cnt' (keyAt root bp))
        (fun cnt1 cur1 hinv1 ⟨⟨i', hi', hr1⟩, _⟩ =>
          g_list hlist bp i' sub cnt1 cur1 hip hsub hd' hinv1 hr1 (by omega) (Or.inr (Or.inr hTs)))
      refine ⟨this.1, this.2.1, ?_, ?_⟩
      · have := this.2.2.1
        simpa [Nat.add_assoc, Nat.add_comm 1] using this
      · exact StrictOff.trans haft.2.2.2.strict this.2.2.2
termination_by structural _ _ _ _ d => d
end

end

end Pyx12Verif.WalkerGenW
