/-
Helper lemmas for `Props/DocTotal2.lean`, reader side:

* `first_segment_isa`   the first segment the reader yields is the ISA segment — from the tokenizer model: the header line
                        begins with `ISA` followed by the element separator, and the first terminator ends the first piece.
                        It needs the terminator and the element separator not to be one of the letters `I`, `S`, `A`
                        (otherwise the first piece is cut inside the identifier).
* `step_loops_gs`       `_parse_segment` puts a group on the stack of open envelopes only when it reads a GS segment;
* `ge_without_gs`       a GE read while no group is open draws a group-level error (`gs3` / `gs4`).
-/
import Pyx12Verif.Props.C01
import Pyx12Verif.Props.C04
import Pyx12Verif.Model.Document

namespace Pyx12Verif.Doc
open Pyx12Verif Tokenizer SegText

/-- neither the segment terminator nor the element separator is one of the letters of `ISA` -/
def SaneHeader (hd : Header) : Prop := hd.seg ∉ isaId ∧ hd.ele ∉ isaId

theorem headerChars_ok {line : List Char} {hd : Header} (h : headerChars line = .ok hd) :
    line[3]? = some hd.ele ∧ line[105]? = some hd.seg := by
  unfold headerChars at h
  cases h3 : line[3]? with
  | none => rw [h3] at h; cases h
  | some e =>
    cases h82 : line[82]? with
    | none => rw [h3, h82] at h; cases h
    | some r =>
      cases h104 : line[104]? with
      | none => rw [h3, h82, h104] at h; cases h
      | some s =>
        cases h105 : line[105]? with
        | none => rw [h3, h82, h104, h105] at h; cases h
        | some t =>
          rw [h3, h82, h104, h105] at h
          simp only [HeaderRes.ok.injEq] at h
          subst h
          exact ⟨rfl, rfl⟩

theorem parseHeader_ok {line : List Char} {hd : Header} (h : parseHeader line = .ok hd) :
    line.take 3 = ['I', 'S', 'A'] ∧ line[3]? = some hd.ele ∧ line[105]? = some hd.seg := by
  unfold parseHeader at h
  split at h
  · cases h
  · rename_i h1
    split at h
    · cases h
    · split at h
      · cases h
      · exact ⟨by simpa using h1, headerChars_ok h⟩

theorem exists_first_split (t : Char) : ∀ (l : List Char), t ∈ l → ∃ p r, l = p ++ t :: r ∧ t ∉ p := by
  intro l
  induction l with
  | nil => intro h; cases h
  | cons c cs ih =>
    intro h
    by_cases hc : c = t
    · exact ⟨[], cs, by rw [hc]; rfl, by simp⟩
    · have : t ∈ cs := by
        rcases List.mem_cons.1 h with h | h
        · exact absurd h.symm hc
        · exact h
      obtain ⟨p, r, e, hn⟩ := ih this
      refine ⟨c :: p, r, by rw [e]; rfl, ?_⟩
      simp only [List.mem_cons, not_or]
      exact ⟨fun e => hc e.symm, hn⟩

/-- **the first yielded segment is ISA** -/
theorem first_segment_isa (text : List Char) (hd : Header) (hh : parseHeader (text.take ISA_LEN) = .ok hd)
    (hs : SaneHeader hd) :
    ∃ le s rest, (readLines (delimsOf hd) [] (spec hd.seg text)).segs = (le, s) :: rest ∧ s.id = isaId := by
  obtain ⟨h3, he, ht⟩ := parseHeader_ok hh
  have h3' : text.take 3 = ['I', 'S', 'A'] := by
    have : (text.take ISA_LEN).take 3 = text.take 3 := by rw [List.take_take]; rfl
    rw [← this]; exact h3
  have he' : text[3]? = some hd.ele := by
    rw [List.getElem?_take] at he
    simpa [ISA_LEN] using he
  have ht' : text[105]? = some hd.seg := by
    rw [List.getElem?_take] at ht
    simpa [ISA_LEN] using ht
  obtain ⟨hs1, hs2⟩ := hs
  -- shape of the text
  obtain ⟨t4, htext⟩ : ∃ t4, text = 'I' :: 'S' :: 'A' :: hd.ele :: t4 := by
    match text, h3', he' with
    | a :: b :: c :: e :: t4, h3', he' =>
      simp only [List.take_succ_cons, List.take_zero, List.cons.injEq, and_true] at h3'
      simp only [List.getElem?_cons_succ, List.getElem?_cons_zero, Option.some.injEq] at he'
      obtain ⟨rfl, rfl, rfl⟩ := h3'
      subst he'
      exact ⟨t4, rfl⟩
  obtain ⟨p, r, hpr, hnp⟩ := exists_first_split hd.seg text (List.mem_of_getElem? ht')
  -- the first piece begins with ISA
  have hI : hd.seg ≠ 'I' := fun e => hs1 (by rw [e]; simp [isaId])
  have hS : hd.seg ≠ 'S' := fun e => hs1 (by rw [e]; simp [isaId])
  have hA : hd.seg ≠ 'A' := fun e => hs1 (by rw [e]; simp [isaId])
  obtain ⟨p', hp'⟩ : ∃ p', p = 'I' :: 'S' :: 'A' :: p' ∧ (p' = [] ∨ ∃ q, p' = hd.ele :: q) := by
    rw [htext] at hpr
    match p, hpr with
    | [], hpr => simp only [List.nil_append, List.cons.injEq] at hpr; exact absurd hpr.1.symm hI
    | [a], hpr =>
      simp only [List.cons_append, List.nil_append, List.cons.injEq] at hpr
      exact absurd hpr.2.1.symm hS
    | [a, b], hpr =>
      simp only [List.cons_append, List.nil_append, List.cons.injEq] at hpr
      exact absurd hpr.2.2.1.symm hA
    | [a, b, c], hpr =>
      simp only [List.cons_append, List.nil_append, List.cons.injEq] at hpr
      obtain ⟨rfl, rfl, rfl, _⟩ := hpr
      exact ⟨[], rfl, Or.inl rfl⟩
    | a :: b :: c :: e :: q, hpr =>
      simp only [List.cons_append, List.cons.injEq] at hpr
      obtain ⟨rfl, rfl, rfl, rfl, _⟩ := hpr
      exact ⟨_ :: q, rfl, Or.inr ⟨q, rfl⟩⟩
  obtain ⟨hp, hq⟩ := hp'
  -- the tokenizer yields the piece first
  have hspec : spec hd.seg text = p :: spec hd.seg r := by
    unfold spec
    rw [hpr, C01.specAux_piece hd.seg [] p r hnp]
    simp only [List.reverse_nil, List.nil_append, C01.emit_eq, hp]
    simp [lstripCRLF]
  -- the wrapper parses it to a segment with identifier ISA
  have hne : p ≠ [] := by rw [hp]; simp
  have hterm : (delimsOf hd).term = hd.seg := rfl
  have hele : (delimsOf hd).ele = hd.ele := rfl
  have hparse : ∃ s, parseSeg (delimsOf hd) p = some s ∧ s.id = isaId := by
    rw [C01.parseSeg_of_no_term (delimsOf hd) p hne (by rw [hterm]; exact hnp), hele]
    have hnm : hd.ele ∉ ['I', 'S', 'A'] := hs2
    rcases hq with rfl | ⟨q, rfl⟩
    · rw [hp, splitOn_no_sep hd.ele _ hnm]
      exact ⟨_, rfl, rfl⟩
    · rw [hp]
      have : 'I' :: 'S' :: 'A' :: hd.ele :: q = ['I', 'S', 'A'] ++ hd.ele :: q := rfl
      rw [this, splitOn_append_sep hd.ele _ q hnm]
      exact ⟨_, rfl, rfl⟩
  obtain ⟨s, hps, hid⟩ := hparse
  have hhead : p.head? ≠ some ' ' := by rw [hp]; simp
  have hwrap : ∃ e, wrapLine (delimsOf hd) p = .seg e s := by
    unfold wrapLine afterStrip
    simp only [hhead, if_false, hps]
    cases hl : p.getLast? with
    | none => simp [List.getLast?_eq_none_iff] at hl; exact absurd hl hne
    | some c => exact ⟨_, rfl⟩
  obtain ⟨e, hw⟩ := hwrap
  rw [hspec]
  simp only [readLines, hw, ReadResult.push]
  exact ⟨_, s, _, rfl, hid⟩

/-! ### the stack of open envelopes -/

open Envelope in
theorem popLoop_loops (s s' : RState) (es es' : List Err) (h : popLoop Fixes.all s es = .ok (s', es')) :
    es' = es ∧ ∀ p ∈ s'.loops, p ∈ s.loops := by
  unfold popLoop at h
  cases hl : s.loops with
  | nil =>
    rw [hl] at h
    simp only [Fixes.all, if_true, Outcome.ok.injEq, Prod.mk.injEq] at h
    obtain ⟨rfl, rfl⟩ := h
    exact ⟨rfl, fun p hp => by rw [hl] at hp; exact hp⟩
  | cons a r =>
    rw [hl] at h
    simp only [Outcome.ok.injEq, Prod.mk.injEq] at h
    obtain ⟨rfl, rfl⟩ := h
    exact ⟨rfl, fun p hp => List.mem_cons_of_mem _ hp⟩

open Envelope in
theorem checkCount_loops (s s' : RState) (es es' : List Err) (c : Option Str) (n : Nat) (e : Err)
    (h : checkCount Fixes.all s es c n e = .ok (s', es')) :
    (∀ x ∈ es', x ∈ es ∨ x = e) ∧ (∀ x ∈ es, x ∈ es') ∧ ∀ p ∈ s'.loops, p ∈ s.loops := by
  unfold checkCount at h
  rw [pyIntArg_all] at h
  simp only [Outcome.bind] at h
  obtain ⟨h1, h2⟩ := popLoop_loops _ _ _ _ h
  subst h1
  refine ⟨?_, ?_, h2⟩
  · intro x hx
    split at hx
    · exact Or.inl hx
    · rcases List.mem_append.1 hx with hx | hx
      · exact Or.inl hx
      · exact Or.inr (by simpa using hx)
  · intro x hx
    split
    · exact hx
    · exact List.mem_append_left _ hx

open Envelope in
theorem checkId_loops (s s' : RState) (es es' : List Err) (v : SegView) (e1 e2 : Err) (n : Nat)
    (h : checkId Fixes.all s es v e1 e2 n = .ok (s', es')) :
    (∀ x ∈ es', x ∈ es ∨ x = e1 ∨ x = e2) ∧ (∀ x ∈ es, x ∈ es') ∧ (s.loops = [] → e1 ∈ es') ∧
      ∀ p ∈ s'.loops, p ∈ s.loops := by
  unfold checkId at h
  cases hl : s.loops with
  | nil =>
    rw [hl] at h
    simp only [Fixes.all, if_true] at h
    obtain ⟨a, b, c⟩ := checkCount_loops _ _ _ _ _ _ _ h
    refine ⟨?_, fun x hx => b x (List.mem_append_left _ hx), fun _ => b e1 (by simp), (by intro p hp; have := c p hp; rw [hl] at this; exact this)⟩
    intro x hx
    rcases a x hx with hx | hx
    · rcases List.mem_append.1 hx with hx | hx
      · exact Or.inl hx
      · exact Or.inr (Or.inl (by simpa using hx))
    · exact Or.inr (Or.inr hx)
  | cons top r =>
    rw [hl] at h
    simp only at h
    obtain ⟨a, b, c⟩ := checkCount_loops _ _ _ _ _ _ _ h
    refine ⟨?_, ?_, (by intro hn; cases hn), (by intro p hp; have := c p hp; rw [hl] at this; exact this)⟩
    · intro x hx
      rcases a x hx with hx | hx
      · split at hx
        · exact Or.inl hx
        · rcases List.mem_append.1 hx with hx | hx
          · exact Or.inl hx
          · exact Or.inr (Or.inl (by simpa using hx))
      · exact Or.inr (Or.inr hx)
    · intro x hx
      apply b
      split
      · exact hx
      · exact List.mem_append_left _ hx

open Envelope in
theorem closeEnv_loops (k : Kind) (e0 e1 e2 : Err) (n : Nat) (s s' : RState) (v : SegView) (es' : List Err)
    (h : closeEnv Fixes.all k e0 e1 e2 n s v = .ok (s', es')) :
    (∀ x ∈ es', x = e0 ∨ x = e1 ∨ x = e2) ∧ ((∀ p ∈ s.loops, p.1 ≠ k) → e0 ∈ es' ∨ e1 ∈ es') ∧
      ∀ p ∈ s'.loops, p ∈ s.loops := by
  unfold closeEnv at h
  cases hl : s.loops with
  | nil =>
    rw [hl] at h
    simp only [Fixes.all, if_true] at h
    obtain ⟨a, _, c, d⟩ := checkId_loops _ _ _ _ _ _ _ _ h
    refine ⟨?_, fun _ => Or.inr (c hl), (by intro p hp; have := d p hp; rw [hl] at this; exact this)⟩
    intro x hx
    rcases a x hx with hx | hx | hx
    · cases hx
    · exact Or.inr (Or.inl hx)
    · exact Or.inr (Or.inr hx)
  | cons top r =>
    rw [hl] at h
    simp only at h
    split at h
    · rename_i hk
      obtain ⟨a, _, _, d⟩ := checkId_loops _ _ _ _ _ _ _ _ h
      refine ⟨?_, fun hn => absurd hk (hn top (by simp)), (by intro p hp; have := d p hp; rw [hl] at this; exact this)⟩
      intro x hx
      rcases a x hx with hx | hx | hx
      · cases hx
      · exact Or.inr (Or.inl hx)
      · exact Or.inr (Or.inr hx)
    · obtain ⟨a, b, _, d⟩ := checkId_loops _ _ _ _ _ _ _ _ h
      refine ⟨?_, fun _ => Or.inl (b e0 (by simp)), fun p hp => List.mem_cons_of_mem _ (d p hp)⟩
      intro x hx
      rcases a x hx with hx | hx | hx
      · exact Or.inl (by simpa using hx)
      · exact Or.inr (Or.inl hx)
      · exact Or.inr (Or.inr hx)

open Envelope in
theorem closeSet_loops (s s' : RState) (v : SegView) (es' : List Err)
    (h : closeSet Fixes.all s v = .ok (s', es')) : ∀ p ∈ s'.loops, p ∈ s.loops := by
  unfold closeSet at h
  cases hl : s.loops with
  | nil =>
    rw [hl] at h
    simp only [Fixes.all, if_true] at h
    intro p hp
    have := (checkCount_loops _ _ _ _ _ _ _ h).2.2 p hp
    rw [hl] at this
    exact this
  | cons top r =>
    rw [hl] at h
    simp only at h
    intro p hp
    have := (checkCount_loops _ _ _ _ _ _ _ h).2.2 p hp
    rw [hl] at this
    exact this

open Envelope in
theorem trailerStep_loops (s s' : RState) (v : SegView) (es' : List Err)
    (h : trailerStep Fixes.all s v = .ok (s', es')) : ∀ p ∈ s'.loops, p ∈ s.loops := by
  unfold trailerStep at h
  split at h
  · exact (closeEnv_loops _ _ _ _ _ _ _ _ _ h).2.2
  · split at h
    · exact (closeEnv_loops _ _ _ _ _ _ _ _ _ h).2.2
    · split at h
      · exact closeSet_loops _ _ _ _ h
      · simp only [Outcome.ok.injEq, Prod.mk.injEq] at h
        obtain ⟨rfl, _⟩ := h
        exact fun p hp => hp

open Envelope in
theorem hlParent_loops (s s' : RState) (v : SegView) (es es' : List Err)
    (h : hlParent Fixes.all s v es = .ok (s', es')) : s'.loops = s.loops := by
  unfold hlParent at h
  split at h
  · simp only [Outcome.ok.injEq, Prod.mk.injEq] at h
    obtain ⟨rfl, _⟩ := h
    rfl
  · rw [pyIntArg_all] at h
    simp only [Outcome.bind] at h
    split at h
    · simp only [Outcome.ok.injEq, Prod.mk.injEq] at h
      obtain ⟨rfl, _⟩ := h
      rfl
    · split at h
      · cases h
      · simp only [Outcome.ok.injEq, Prod.mk.injEq] at h
        obtain ⟨rfl, _⟩ := h
        rfl

open Envelope in
theorem baseBranch_loops (s s' : RState) (v : SegView) (es' : List Err)
    (h : baseBranch Fixes.all s v = .ok (s', es')) :
    ∀ p ∈ s'.loops, p ∈ s.loops ∨ (p.1 = Kind.gs ∧ v.id = idGS) ∨ (p.1 ≠ Kind.gs) := by
  unfold baseBranch at h
  split at h
  · unfold baseIsa at h
    split at h
    · cases h
    · simp only [Outcome.ok.injEq, Prod.mk.injEq] at h
      obtain ⟨rfl, _⟩ := h
      intro p hp
      rcases List.mem_cons.1 hp with rfl | hp
      · exact Or.inr (Or.inr (by simp))
      · exact Or.inl hp
  · split at h
    · rename_i hgs
      simp only [baseGs, Outcome.ok.injEq, Prod.mk.injEq] at h
      obtain ⟨rfl, _⟩ := h
      intro p hp
      rcases List.mem_cons.1 hp with rfl | hp
      · exact Or.inr (Or.inl ⟨rfl, hgs⟩)
      · exact Or.inl hp
    · split at h
      · simp only [baseSt, Outcome.ok.injEq, Prod.mk.injEq] at h
        obtain ⟨rfl, _⟩ := h
        intro p hp
        rcases List.mem_cons.1 hp with rfl | hp
        · exact Or.inr (Or.inr (by simp))
        · exact Or.inl hp
      · split at h
        · unfold baseHl at h
          rw [pyIntArg_all] at h
          simp only [Outcome.bind] at h
          have := hlParent_loops _ _ _ _ _ h
          intro p hp
          rw [this] at hp
          exact Or.inl hp
        · split at h
          · simp only [Outcome.ok.injEq, Prod.mk.injEq] at h
            obtain ⟨rfl, _⟩ := h
            exact fun p hp => Or.inl hp
          · split at h
            · simp only [baseLx, Outcome.ok.injEq, Prod.mk.injEq] at h
              obtain ⟨rfl, _⟩ := h
              exact fun p hp => Or.inl hp
            · simp only [Outcome.ok.injEq, Prod.mk.injEq] at h
              obtain ⟨rfl, _⟩ := h
              exact fun p hp => Or.inl hp

open Envelope in
/-- a group gets onto the stack of open envelopes only by a GS segment -/
theorem step_loops_gs (s s' : RState) (v : SegView) (es : List Err) (h : step Fixes.all s v = .ok (s', es))
    (hg : ∃ p ∈ s'.loops, p.1 = Kind.gs) : (∃ p ∈ s.loops, p.1 = Kind.gs) ∨ v.id = idGS := by
  unfold step at h
  cases hb : baseStep Fixes.all s v with
  | raised => rw [hb] at h; cases h
  | crash e => rw [hb] at h; cases h
  | ok r =>
    rw [hb] at h
    simp only [Outcome.bind] at h
    cases ht : trailerStep Fixes.all r.1 v with
    | raised => rw [ht] at h; cases h
    | crash e => rw [ht] at h; cases h
    | ok q =>
      rw [ht] at h
      simp only [Outcome.ok.injEq, Prod.mk.injEq] at h
      obtain ⟨rfl, _⟩ := h
      obtain ⟨p, hp, hk⟩ := hg
      have hp1 := trailerStep_loops r.1 q.1 v q.2 ht p hp
      unfold baseStep at hb
      cases hbb : baseBranch Fixes.all s v with
      | raised => rw [hbb] at hb; cases hb
      | crash e => rw [hbb] at hb; cases hb
      | ok w =>
        rw [hbb] at hb
        simp only [Outcome.bind, Outcome.ok.injEq] at hb
        have hl : r.1.loops = w.1.loops := by
          rw [← hb]
          unfold countSeg
          split <;> rfl
        rw [hl] at hp1
        rcases baseBranch_loops s w.1 v w.2 hbb p hp1 with h1 | h1 | h1
        · exact Or.inl ⟨p, h1, hk⟩
        · exact Or.inr h1.2
        · exact absurd hk h1

open Envelope in
/-- a GE read while no group is open draws a group-level error -/
theorem ge_without_gs (s s' : RState) (v : SegView) (es : List Err) (h : step Fixes.all s v = .ok (s', es))
    (hid : v.id = idGE) (hn : ∀ p ∈ s.loops, p.1 ≠ Kind.gs) : ∃ e ∈ es, (envErr e).level = Level.gs := by
  have hk : trailerKind v = some Kind.gs := by
    unfold trailerKind
    simp [hid, show idGE ≠ idIEA by decide]
  unfold step at h
  rw [baseStep_trailer s v Kind.gs hk] at h
  simp only [Outcome.bind] at h
  cases ht : trailerStep Fixes.all s v with
  | raised => rw [ht] at h; cases h
  | crash e => rw [ht] at h; cases h
  | ok q =>
    rw [ht] at h
    simp only [Outcome.ok.injEq, Prod.mk.injEq, List.nil_append] at h
    obtain ⟨_, rfl⟩ := h
    unfold trailerStep at ht
    simp only [hid, show idGE ≠ idIEA by decide, if_false, if_true] at ht
    obtain ⟨_, b, _⟩ := closeEnv_loops _ _ _ _ _ _ _ _ _ ht
    rcases b hn with hx | hx
    · exact ⟨_, hx, rfl⟩
    · exact ⟨_, hx, rfl⟩

end Pyx12Verif.Doc
