/-
Lemmas about the raw reader model: every read loop of `Model/Tokenizer.lean` reconstructs the text, whatever the
read-size oracle (sizes ≥ 1) does.
-/
import Pyx12Verif.Model.Tokenizer

namespace Pyx12Verif.Tokenizer

/-- the oracle never answers with a zero-length read while data remains -/
def Stream.Pos (s : Stream) : Prop := ∀ k ∈ s.sizes, 1 ≤ k

theorem Stream.pos_read {s : Stream} (h : s.Pos) (n : Nat) : (s.read n).2.Pos := by
  intro k hk
  exact h k (List.mem_of_mem_tail hk)

theorem read_append (s : Stream) (n : Nat) : (s.read n).1 ++ (s.read n).2.rest = s.rest := by
  simp [Stream.read, List.take_append_drop]

theorem readLen_pos {s : Stream} (h : s.Pos) {n : Nat} (hn : 0 < n) : 0 < s.readLen n := by
  unfold Stream.readLen
  cases hs : s.sizes with
  | nil => exact hn
  | cons k ks =>
    have := h k (by simp [hs])
    simp only
    omega

theorem readLen_le (s : Stream) (n : Nat) : s.readLen n ≤ n := by
  unfold Stream.readLen
  cases s.sizes with
  | nil => exact Nat.le_refl _
  | cons k ks => exact Nat.min_le_left _ _

theorem read_empty_iff {s : Stream} (h : s.Pos) {n : Nat} (hn : 0 < n) :
    (s.read n).1.isEmpty = true ↔ s.rest = [] := by
  have := readLen_pos h hn
  simp only [Stream.read, List.isEmpty_iff, List.take_eq_nil_iff]
  constructor
  · rintro (h0 | h0)
    · omega
    · exact h0
  · exact Or.inr

theorem read_rest_len {s : Stream} (h : s.Pos) {n : Nat} (hn : 0 < n) (hne : s.rest ≠ []) :
    (s.read n).2.rest.length < s.rest.length := by
  have := readLen_pos h hn
  have : 0 < s.rest.length := List.length_pos_iff.mpr hne
  simp only [Stream.read, List.length_drop]
  omega

theorem read_length_le (s : Stream) (n : Nat) : (s.read n).1.length ≤ n := by
  have := readLen_le s n
  simp only [Stream.read, List.length_take]
  omega

/-! ### splitter lemmas -/

theorem specAux_no_term (t : Char) (acc xs : List Char) (h : xs.contains t = false) :
    specAux t acc xs = [] := by
  induction xs generalizing acc with
  | nil => simp [specAux]
  | cons c cs ih =>
    simp only [List.contains_cons, Bool.or_eq_false_iff] at h
    have hc : ¬ c = t := by
      intro e; subst e; simp at h
    simp only [specAux, hc, if_false]
    exact ih _ h.2

theorem contains_tail_of_ne {t c : Char} {cs : List Char} (hc : ¬ c = t)
    (h : (c :: cs).contains t = true) : cs.contains t = true := by
  simp only [List.contains_cons, Bool.or_eq_true] at h
  rcases h with h | h
  · exact absurd (by simpa using h) (fun e : t = c => hc e.symm)
  · exact h

theorem specAux_split (t : Char) (acc b r : List Char) (h : b.contains t = true) :
    specAux t acc (b ++ r) =
      emit (acc.reverse ++ b.takeWhile (· != t)) (specAux t [] ((b.dropWhile (· != t)).tail ++ r)) := by
  induction b generalizing acc with
  | nil => simp at h
  | cons c cs ih =>
    by_cases hc : c = t
    · subst hc
      simp [specAux, List.takeWhile, List.dropWhile]
    · have h' : cs.contains t = true := contains_tail_of_ne hc h
      have hne : (c != t) = true := by simpa using hc
      simp only [List.cons_append, specAux, hc, if_false, List.takeWhile, List.dropWhile, hne]
      rw [ih _ h']
      simp [List.reverse_cons, List.append_assoc]

theorem length_dropWhile_le' (p : Char → Bool) (l : List Char) : (l.dropWhile p).length ≤ l.length := by
  induction l with
  | nil => simp
  | cons c cs ih =>
    simp only [List.dropWhile]
    split
    · simp; omega
    · simp

theorem dropWhile_ne_nil_of_contains (t : Char) (l : List Char) (h : l.contains t = true) :
    l.dropWhile (· != t) ≠ [] := by
  induction l with
  | nil => simp at h
  | cons c cs ih =>
    simp only [List.dropWhile]
    by_cases hc : c = t
    · subst hc; simp
    · have hne : (c != t) = true := by simpa using hc
      simp only [hne]
      exact ih (contains_tail_of_ne hc h)

/-! ### the loops -/

theorem refill_spec (t : Char) (f : Nat) (b : List Char) (s : Stream) (hp : s.Pos) (hf : s.rest.length < f) :
    (refill t f b s).1 ++ (refill t f b s).2.rest = b ++ s.rest ∧
      ((refill t f b s).1.contains t = true ∨ (refill t f b s).2.rest = []) ∧ (refill t f b s).2.Pos := by
  induction f generalizing b s with
  | zero => omega
  | succ f ih =>
    unfold refill
    split
    · rename_i hb
      exact ⟨rfl, Or.inl hb, hp⟩
    · split
      · rename_i hb he
        have := (read_empty_iff hp (n := BUF) (by decide)).mp he
        exact ⟨rfl, Or.inr this, hp⟩
      · rename_i hb he
        have hne : s.rest ≠ [] := fun e => he ((read_empty_iff hp (n := BUF) (by decide)).mpr e)
        have hl := read_rest_len hp (n := BUF) (by decide) hne
        have := ih (b ++ (s.read BUF).1) (s.read BUF).2 (Stream.pos_read hp BUF) (by omega)
        refine ⟨?_, this.2⟩
        rw [this.1, List.append_assoc, read_append]

theorem iter_eq_spec (t : Char) (f : Nat) (b : List Char) (s : Stream) (hp : s.Pos)
    (hf : (b ++ s.rest).length < f) :
    iter t f b s = spec t (b ++ s.rest) := by
  induction f generalizing b s with
  | zero => omega
  | succ f ih =>
    simp only [iter]
    have hr := refill_spec t (f + 1) b s hp (by simp only [List.length_append] at hf; omega)
    generalize refill t (f + 1) b s = r at hr
    obtain ⟨h1, h2, h3⟩ := hr
    by_cases hc : r.1.contains t = true
    · simp only [hc, if_true]
      unfold spec
      rw [← h1, specAux_split t [] r.1 r.2.rest hc]
      simp only [List.reverse_nil, List.nil_append]
      have hlen : ((r.1.dropWhile (· != t)).tail ++ r.2.rest).length < f := by
        have : (r.1.dropWhile (· != t)).length ≤ r.1.length := length_dropWhile_le' _ _
        have h0 : r.1.dropWhile (· != t) ≠ [] := dropWhile_ne_nil_of_contains t r.1 hc
        have hpos : 0 < (r.1.dropWhile (· != t)).length := List.length_pos_iff.mpr h0
        have hl : (r.1 ++ r.2.rest).length = (b ++ s.rest).length := by rw [h1]
        simp only [List.length_append, List.length_tail] at *
        omega
      have := ih (afterFirst t r.1) r.2 h3 hlen
      unfold spec afterFirst at this
      unfold afterFirst firstLine emit
      rw [this]
    · have hc' : r.1.contains t = false := by simpa using hc
      simp only [hc', Bool.false_eq_true, if_false]
      rcases h2 with h2 | h2
      · exact absurd h2 hc
      · unfold spec
        rw [← h1, h2, List.append_nil]
        exact (specAux_no_term t [] r.1 hc').symm

/-- the header loop returns the first 106 characters (or everything, when the text is shorter) -/
theorem readMore_spec (f : Nat) (l : List Char) (s : Stream) (hp : s.Pos)
    (hl : l.length ≤ ISA_LEN) (hf : ISA_LEN - l.length ≤ f) :
    (readMore f l s).1 = (l ++ s.rest).take ISA_LEN ∧
      (readMore f l s).1 ++ (readMore f l s).2.rest = l ++ s.rest ∧ (readMore f l s).2.Pos := by
  induction f generalizing l s with
  | zero =>
    have : l.length = ISA_LEN := by omega
    show l = (l ++ s.rest).take ISA_LEN ∧ l ++ s.rest = l ++ s.rest ∧ s.Pos
    refine ⟨?_, rfl, hp⟩
    rw [List.take_append_of_le_length (by omega), List.take_of_length_le (by omega)]
  | succ f ih =>
    unfold readMore
    split
    · rename_i hlt
      have hn : 0 < ISA_LEN - l.length := by omega
      split
      · rename_i he
        have := (read_empty_iff hp hn).mp he
        refine ⟨?_, rfl, hp⟩
        rw [this, List.append_nil, List.take_of_length_le (by omega)]
      · rename_i he
        have hne : s.rest ≠ [] := fun e => he ((read_empty_iff hp hn).mpr e)
        have hlen := read_length_le s (ISA_LEN - l.length)
        have hpos : 0 < (s.read (ISA_LEN - l.length)).1.length := by
          apply List.length_pos_iff.mpr
          intro e
          apply he
          simp [e]
        have := ih (l ++ (s.read (ISA_LEN - l.length)).1) (s.read (ISA_LEN - l.length)).2
          (Stream.pos_read hp _) (by simp only [List.length_append]; omega)
          (by simp only [List.length_append]; omega)
        rw [List.append_assoc, read_append] at this
        exact this
    · rename_i hge
      have : l.length = ISA_LEN := by omega
      refine ⟨?_, rfl, hp⟩
      rw [List.take_append_of_le_length (by omega), List.take_of_length_le (by omega)]

theorem readHeader_spec (s : Stream) (hp : s.Pos) :
    (readHeader s).1 = s.rest.take ISA_LEN ∧
      (readHeader s).1 ++ (readHeader s).2.rest = s.rest ∧ (readHeader s).2.Pos := by
  unfold readHeader
  have hl := read_length_le s ISA_LEN
  have := readMore_spec ISA_LEN (s.read ISA_LEN).1 (s.read ISA_LEN).2 (Stream.pos_read hp _) hl (by omega)
  rw [read_append] at this
  exact this

end Pyx12Verif.Tokenizer
