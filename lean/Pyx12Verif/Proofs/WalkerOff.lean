/-
C02 helper lemmas, part 9: the generator cursor inside transparent loops that the walker has not entered yet,
and the step that enters a first-seg loop through them.
-/
import Pyx12Verif.Proofs.WalkerPres
import Pyx12Verif.Proofs.WalkerChain

namespace Pyx12Verif.WalkerGen
open Pyx12Verif.MapSkel Pyx12Verif.Walker

/-- the generator stands at the virtual path `vp` below the transparent loop at `tp` (every loop on the way is
    transparent), and nothing before it is outstanding -/
def Off (root : List Node) (cnt : Counter) (tp vp : List Nat) : Prop :=
  ∀ p i', tp <+: p → p ++ [i'] <+: vp → ∃ sub, chAt root p = some sub ∧ firstIsLoop sub = true ∧
    ∀ (j' : Nat) (c' : Node), j' < i' → sub[j']? = some c' → satisfied cnt (keyAt root p ++ [c'.comp]) c' = true

/-! ### static facts about a transparent loop -/

theorem noDeepWith_get {K : Consts} {c : Node} {r : List Node} (h : noDeepWith K c r = true) {i : Nat} {m : Node}
    (hm : r[i]? = some m) : anyOverlapS (deep K c) (entry K m) = false := by
  induction r generalizing i with
  | nil => simp at hm
  | cons a r ih =>
    simp only [noDeepWith, Bool.and_eq_true, Bool.not_eq_true'] at h
    cases i with
    | zero => simp at hm; subst hm; exact h.1
    | succ n => simp at hm; exact ih h.2 hm

theorem deep_noOverlap {K : Consts} {ch : List Node} (h : deepDisjoint K ch = true) {i j : Nat} {a b : Node}
    (ha : ch[i]? = some a) (hb : ch[j]? = some b) (hij : i < j) : anyOverlapS (deep K a) (entry K b) = false := by
  induction ch generalizing i j with
  | nil => simp at ha
  | cons x r ih =>
    simp only [deepDisjoint, Bool.and_eq_true] at h
    cases i with
    | zero =>
      simp at ha; subst ha
      cases j with
      | zero => omega
      | succ m => simp at hb; exact noDeepWith_get h.1 hb
    | succ n =>
      cases j with
      | zero => omega
      | succ m => simp at ha hb; exact ih h.2 ha hb (by omega)

structure TStatic (K : Consts) (sub : List Node) : Prop where
  sib : sibDisjoint K sub = true
  deep : deepDisjoint K sub = true
  loops : allLoops sub = true
  comp : compDistinct sub = true

theorem transparent_static {K : Consts} {root : List Node} (h : MapOK K root) {p0 : List Nat} {a : Nat} {sub : List Node}
    (hsub : chAt root (p0 ++ [a]) = some sub) (hT : firstIsLoop sub = true) : TStatic K sub := by
  obtain ⟨ch0, lid, pos, u, r, w, hch0, hca, _⟩ := nodeAt_of_chAt hsub
  have hl := localList_get (uAt_chAt (uAt_root h.un) hch0).loc hca
  have hw := wfNode_at (wfAt_root h.wf) hch0 hca
  simp only [localNode, hT, Bool.not_true, Bool.false_or, Bool.and_eq_true] at hl
  simp only [wfNode, transparentOK, hT, Bool.not_true, Bool.false_or, Bool.and_eq_true, bne_iff_ne] at hw
  exact ⟨hl.1.1, hl.1.2, hw.1.2.2, hw.1.1.2⟩

theorem entryLoops_mem {K : Consts} {sub : List Node} {m : Nat} {c : Node} (hc : sub[m]? = some c)
    (hcs : c.isSeg = false) {k : SKey} (hk : k ∈ entry K c) : k ∈ entryLoops K sub := by
  induction sub generalizing m with
  | nil => simp at hc
  | cons x r ih =>
    cases m with
    | zero =>
      simp at hc; subst hc
      cases x with
      | seg => simp [Node.isSeg] at hcs
      | loop l p u r' w ch => simp only [entryLoops, List.mem_append]; left; simpa [entry] using hk
    | succ n =>
      simp at hc
      cases x with
      | seg => simp only [entryLoops]; exact ih hc
      | loop l p u r' w ch => simp only [entryLoops, List.mem_append]; right; exact ih hc

theorem entry_transparent {K : Consts} {l p u r : Nat} {w : Bool} {sub : List Node} (hT : firstIsLoop sub = true) :
    entry K (.loop l p u r w sub) = entryLoops K sub := by
  cases sub with
  | nil => simp [firstIsLoop] at hT
  | cons x rest =>
    cases x with
    | seg => simp [firstIsLoop, Node.isSeg] at hT
    | loop => simp [entry, entryHead, entryLoops]

/-- from the generator's (segment independent) cursor to the conditions the walker functions need -/
theorem chainS_of_off {K : Consts} {root : List Node} (h : MapOK K root) {s : SegData} {cnt : Counter} {m : Nat}
    {target : Node} (htl : target.isSeg = false) {t : SKey} (hte : t ∈ entry K target) (ht : hits s t) :
    ∀ (rel : List Nat) (tp0 : List Nat) (a : Nat) (chT subL : List Node),
      chAt root (tp0 ++ [a]) = some chT → firstIsLoop chT = true →
      Off root cnt (tp0 ++ [a]) (tp0 ++ [a] ++ rel ++ [m]) → chAt chT rel = some subL → subL[m]? = some target →
      ChainS K s cnt (keyAt root (tp0 ++ [a])) chT rel m ∧ t ∈ entryLoops K chT
  | [], tp0, a, chT, subL, hchT, hT, hoff, hsub, htgt => by
    simp only [chAt, Option.some.injEq] at hsub; subst hsub
    have hst := transparent_static h hchT hT
    obtain ⟨sub, hsub, _, hsat⟩ := hoff (tp0 ++ [a]) m (List.prefix_refl _) (by simp)
    rw [hchT] at hsub; simp only [Option.some.injEq] at hsub; subst hsub
    refine ⟨?_, entryLoops_mem htgt htl hte⟩
    intro j' c' hj' hc'
    exact ⟨sib_noHit hst.sib hc' htgt (by omega) hte ht,
      noHit_of_noOverlap (deep_noOverlap hst.deep hc' htgt hj') hte ht, hsat j' c' hj' hc'⟩
  | t0 :: rel, tp0, a, chT, subL, hchT, hT, hoff, hsub, htgt => by
    have hst := transparent_static h hchT hT
    obtain ⟨sub0, hsub0, _, hsat⟩ := hoff (tp0 ++ [a]) t0 (List.prefix_refl _) ⟨rel ++ [m], by simp⟩
    rw [hchT] at hsub0; simp only [Option.some.injEq] at hsub0; subst hsub0
    -- the chain child
    simp only [chAt] at hsub
    split at hsub
    · rename_i l p u r w sub hct
      have hsubX : chAt root (tp0 ++ [a] ++ [t0]) = some sub := by rw [chAt_snoc hchT, hct]
      have hnext : ∃ i', (tp0 ++ [a] ++ [t0]) ++ [i'] <+: tp0 ++ [a] ++ (t0 :: rel) ++ [m] := by
        cases rel with
        | nil => exact ⟨m, by simp⟩
        | cons t1 rel' => exact ⟨t1, ⟨rel' ++ [m], by simp⟩⟩
      obtain ⟨i', hi'⟩ := hnext
      obtain ⟨sub', hsub', hTs, _⟩ := hoff (tp0 ++ [a] ++ [t0]) i' (List.prefix_append _ _) hi'
      rw [hsubX] at hsub'; simp only [Option.some.injEq] at hsub'; subst hsub'
      have hoff' : Off root cnt (tp0 ++ [a] ++ [t0]) (tp0 ++ [a] ++ [t0] ++ rel ++ [m]) := by
        intro p i'' h1 h2
        exact hoff p i'' (List.IsPrefix.trans (List.prefix_append _ _) h1) (by simpa using h2)
      obtain ⟨ih1, ih2⟩ := chainS_of_off h htl hte ht rel (tp0 ++ [a]) t0 sub subL hsubX hTs hoff' hsub htgt
      have hteX : t ∈ entry K (.loop l p u r w sub) := by rw [entry_transparent hTs]; exact ih2
      refine ⟨?_, entryLoops_mem hct rfl hteX⟩
      simp only [ChainS]
      refine ⟨?_, l, p, u, r, w, sub, hct, hTs, ?_⟩
      · intro j' c' hj' hc'
        exact ⟨sib_noHit hst.sib hc' hct (by omega) hteX ht,
          noHit_of_noOverlap (deep_noOverlap hst.deep hc' hct hj') hteX ht, hsat j' c' hj' hc'⟩
      · have hk : keyAt root (tp0 ++ [a] ++ [t0]) = keyAt root (tp0 ++ [a]) ++ [(l, 0)] := keyAt_snoc hchT hct
        rw [← hk]; exact ih1
    · cases hsub

/-- **step, loop target through transparent loops**: child `j` of `q` is a transparent loop the walk has not entered;
    the generator starts an instance of the first-seg loop that is child `m` at the end of the chain `rel` below it -/
theorem step_enter {K : Consts} {root : List Node} (rootId : Nat) (h : MapOK K root) {s : SegData} {cnt : Counter}
    {cur : List Nat} (hinv : Inv root cnt cur) {q : List Nat} {i j : Nat} (hr : ReadyAt root cnt cur q i j) (hij : i < j)
    {ch : List Node} (hch : chAt root q = some ch) {l p u r : Nat} {w : Bool} {chT : List Node}
    (hT : ch[j]? = some (.loop l p u r w chT)) (hTT : firstIsLoop chT = true)
    {rel : List Nat} {m : Nat} (hoff : Off root cnt (q ++ [j]) (q ++ [j] ++ rel ++ [m]))
    {subL : List Node} (hsubL : chAt chT rel = some subL)
    {lid pos' u' r' : Nat} {w' : Bool} {first : Node} {rest : List Node}
    (htgt : subL[m]? = some (.loop lid pos' u' r' w' (first :: rest)))
    (hseg : first.isSeg = true) (hm : isMatch K first s = true) (hu : u' ≠ 2)
    (hrep : r' = 0 ∨ cnt.get (keyAt root (q ++ [j] ++ rel) ++ [(lid, 0)]) < r') :
    (walk K root rootId cnt cur s).node = some (q ++ [j] ++ rel ++ [m] ++ [0]) ∧
    (walk K root rootId cnt cur s).st =
      { cnt := enterCnt cnt (keyAt root (q ++ [j] ++ rel) ++ [(lid, 0)]) first.comp, pending := [], errs := [] } := by
  have hqi := hr.1
  have hte : ∃ t, t ∈ entry K first ∧ hits s t := by
    cases first with
    | loop => simp [Node.isSeg] at hseg
    | seg a b c d e f g =>
      exact ⟨(a, segSKey K a g), by simp [entry], isMatch_hits K _ s hm (a, segSKey K a g) (by simp [nodeSKey])⟩
  obtain ⟨t, hte1, ht⟩ := hte
  have hteT : t ∈ entry K (.loop lid pos' u' r' w' (first :: rest)) := by rw [entry_loop_first hseg]; exact hte1
  have hsubT : chAt root (q ++ [j]) = some chT := by rw [chAt_snoc hch, hT]
  obtain ⟨hchain, hmem⟩ := chainS_of_off h (s := s) (cnt := cnt) (m := m) rfl hteT ht rel q j chT subL hsubT hTT hoff hsubL htgt
  have hteTT : t ∈ entry K (.loop l p u r w chT) := by rw [entry_transparent hTT]; exact hmem
  have hcompl : ∀ p' i', q <+: p' → p' ≠ q → p' ++ [i'] <+: cur → Complete root cnt p' i' := by
    intro p' i' h1 h2 h3
    apply hr.2.2.2 p' i' _ h3
    have hp'cur : p' <+: cur := List.IsPrefix.trans (List.prefix_append _ _) h3
    have hlen1 := List.IsPrefix.length_le h1
    have hlenne : q.length ≠ p'.length := fun e => h2 (prefix_eq_of_length h1 e).symm
    exact prefix_of_longer hqi hp'cur (by simp; omega)
  have hdead := dead_of_later h hinv hcompl ht
    (deeper_levels_later hinv hqi (Nat.le_of_lt hij) hch hT (by omega) hteTT)
  obtain ⟨loopNode, nid, oL, pops, _, hfound⟩ := reach_level (K := K) (rootId := rootId) (s := s) hinv hqi hdead hch hT
    (pre_passes h hinv hr.on hch hT hteTT ht _)
  obtain ⟨ch0, hch0, hl⟩ := hinv.lev q i hqi
  rw [hch] at hch0; simp only [Option.some.injEq] at hch0; subst hch0
  obtain ⟨ci, hci⟩ := hl.idx
  have hwf := wfAt_chAt (wfAt_root h.wf) hch
  have hpos : ¬ (Node.loop l p u r w chT).pos < posAt root (q ++ [i]) := by
    have := posSorted_le hwf.pos hci hT (Nat.le_of_lt hij)
    simp only [posAt, nodeAt_snoc hch, hci]; omega
  have hkeyT : keyAt root (q ++ [j]) = keyAt root q ++ [(l, 0)] := keyAt_snoc hch hT
  have hsubL' : chAt root (q ++ [j] ++ rel) = some subL := by rw [chAt_append, hsubT]; exact hsubL
  have hkk : keyAt root q ++ [(l, 0)] ++ keyAt chT (rel ++ [m]) = keyAt root (q ++ [j] ++ rel) ++ [(lid, 0)] := by
    rw [← hkeyT, ← keyAt_append hsubT, ← List.append_assoc, keyAt_snoc hsubL' htgt]; rfl
  obtain ⟨push, hg⟩ := chain_goto (K := K) (s := s) hseg hm { cnt := cnt, pending := [], errs := [] } rfl hu rel
    (keyAt root q ++ [(l, 0)]) chT (q ++ [j]) subL (by rw [← hkeyT]; exact hchain) hsubL htgt (by rw [hkk]; exact hrep)
  have hmatch := chain_match (K := K) (s := s) hseg hm { cnt := cnt, pending := [], errs := [] } rel
    (keyAt root q ++ [(l, 0)]) chT (q ++ [j]) subL (by rw [← hkeyT]; exact hchain) hsubL htgt
  have hres := scan_hit_loop (K := K) (s := s) q (keyAt root q) loopNode nid oL (posAt root (q ++ [i])) pops
    { cnt := cnt, pending := [], errs := [] } _ (.loop l p u r w chT) (ch.drop (j + 1)) j _ _ hpos rfl
    (by rw [comp_loop, isLoopMatch_transparent hTT]; exact hmatch)
    (by rw [comp_loop, gotoSegMatch_transparent hTT]; exact hg)
  rw [hfound _ hres, hkk]; exact ⟨rfl, rfl⟩

theorem not_counted_of_transparent {l p u r : Nat} {w : Bool} {sub : List Node} (hT : firstIsLoop sub = true) :
    counted (.loop l p u r w sub) = false := by
  cases sub with
  | nil => simp [firstIsLoop] at hT
  | cons x rest =>
    simp only [firstIsLoop, Bool.not_eq_true'] at hT
    simp [counted, firstIsSeg, hT]

/-- the transparent levels between `bp` and the entered loop, after the entry -/
theorem chain_levels {K : Consts} {root : List Node} (h : MapOK K root) {cnt cnt' : Counter} {bp rel : List Nat} {m : Nat}
    {subL : List Node} {lid pos' u' r' : Nat} {w' : Bool} {sub1 : List Node}
    (hz : ZeroUnder cnt (keyAt root bp)) (hoff : Off root cnt bp (bp ++ rel ++ [m]))
    (hsubL : chAt root (bp ++ rel) = some subL) (htgt : subL[m]? = some (.loop lid pos' u' r' w' sub1))
    (hag : AgreeOff cnt cnt' (keyAt root (bp ++ rel) ++ [(lid, 0)]))
    (hhere : 1 ≤ cnt'.get (keyAt root (bp ++ rel) ++ [(lid, 0)])) :
    ∀ p i', bp <+: p → p ++ [i'] <+: bp ++ rel ++ [m] →
      ∃ ch', chAt root p = some ch' ∧ LevelInv cnt' (keyAt root p) ch' i' := by
  intro p i' h1 h2
  obtain ⟨sub, hsub, hTs, hsat⟩ := hoff p i' h1 h2
  refine ⟨sub, hsub, ?_⟩
  have hwf := wfAt_chAt (wfAt_root h.wf) hsub
  have hvp : chAt root (bp ++ rel ++ [m]) = some sub1 := by rw [chAt_snoc hsubL, htgt]
  have hkvp : keyAt root (bp ++ rel ++ [m]) = keyAt root (bp ++ rel) ++ [(lid, 0)] := keyAt_snoc hsubL htgt
  -- the chosen child
  have hchosen : ∃ c, sub[i']? = some c ∧ keyAt root p ++ [c.comp] <+: keyAt root (bp ++ rel) ++ [(lid, 0)] ∧
      (counted c = true → keyAt root p ++ [c.comp] = keyAt root (bp ++ rel) ++ [(lid, 0)]) := by
    by_cases he : p ++ [i'] = bp ++ rel ++ [m]
    · have hpe : p = bp ++ rel ∧ i' = m := by
        have := List.append_inj' he (by simp)
        exact ⟨this.1, by simpa using this.2⟩
      obtain ⟨rfl, rfl⟩ := hpe
      rw [hsubL] at hsub; simp only [Option.some.injEq] at hsub; subst hsub
      exact ⟨_, htgt, by simp [comp_loop], fun _ => by simp [comp_loop]⟩
    · obtain ⟨i'', hi''⟩ := prefix_extend h2 he
      obtain ⟨sub', hsub', hTs', _⟩ := hoff (p ++ [i']) i'' (List.IsPrefix.trans h1 (List.prefix_append _ _)) hi''
      obtain ⟨ch0, lid0, pos0, u0, r0, w0, hch0, hci, _⟩ := nodeAt_of_chAt hsub'
      rw [hsub] at hch0; simp only [Option.some.injEq] at hch0; subst hch0
      refine ⟨_, hci, ?_, ?_⟩
      · rw [← keyAt_snoc hsub hci, ← hkvp]
        exact keyAt_prefix hsub' h2
      · intro hcnt
        rw [not_counted_of_transparent hTs'] at hcnt; cases hcnt
  obtain ⟨c, hc, hkpre, hkeq⟩ := hchosen
  have hbpk : keyAt root bp <+: keyAt root p := by
    obtain ⟨chb, hchb⟩ := chAt_prefix hsub h1
    exact keyAt_prefix hchb h1
  refine ⟨⟨c, hc⟩, ?_, ?_, ?_⟩
  · intro j'' c'' hj hc''
    have hz' : ZeroUnder cnt (keyAt root p ++ [c''.comp]) :=
      hz.mono (List.IsPrefix.trans hbpk (List.prefix_append _ _))
    exact transfer_zero hz' hag hkpre (compDistinct_ne hwf.comp hc hc'' (by omega))
  · intro j'' c'' hj hc''
    exact transfer_sat (hsat j'' c'' hj hc'') hag hkpre (compDistinct_ne hwf.comp hc hc'' (by omega))
  · intro c0 hc0 hcnt
    rw [hc] at hc0; simp only [Option.some.injEq] at hc0; subst hc0
    rw [hkeq hcnt]; exact hhere

/-- state after entering a loop through transparent loops -/
theorem post_enter {K : Consts} {root : List Node} (h : MapOK K root) {cnt : Counter}
    {cur : List Nat} (hinv : Inv root cnt cur) {q : List Nat} {i j : Nat} (hr : ReadyAt root cnt cur q i j) (hij : i < j)
    {ch : List Node} (hch : chAt root q = some ch) {l p u r : Nat} {w : Bool} {chT : List Node}
    (hT : ch[j]? = some (.loop l p u r w chT)) (hTT : firstIsLoop chT = true)
    {rel : List Nat} {m : Nat} (hoff : Off root cnt (q ++ [j]) (q ++ [j] ++ rel ++ [m]))
    {subL : List Node} (hsubL : chAt chT rel = some subL)
    {lid pos' u' r' : Nat} {w' : Bool} {first : Node} {rest : List Node}
    (htgt : subL[m]? = some (.loop lid pos' u' r' w' (first :: rest))) (hseg : first.isSeg = true) :
    Inv root (enterCnt cnt (keyAt root (q ++ [j] ++ rel) ++ [(lid, 0)]) first.comp) (q ++ [j] ++ rel ++ [m] ++ [0]) := by
  have hsubT : chAt root (q ++ [j]) = some chT := by rw [chAt_snoc hch, hT]
  have hsubL' : chAt root (q ++ [j] ++ rel) = some subL := by rw [chAt_append, hsubT]; exact hsubL
  have hvp : chAt root (q ++ [j] ++ rel ++ [m]) = some (first :: rest) := by rw [chAt_snoc hsubL', htgt]
  have hkvp : keyAt root (q ++ [j] ++ rel ++ [m]) = keyAt root (q ++ [j] ++ rel) ++ [(lid, 0)] := keyAt_snoc hsubL' htgt
  have hkeyT : keyAt root (q ++ [j]) = keyAt root q ++ [(l, 0)] := keyAt_snoc hch hT
  obtain ⟨ch0, hch0, hl⟩ := hinv.lev q i hr.1
  rw [hch] at hch0; simp only [Option.some.injEq] at hch0; subst hch0
  have hzT : ZeroUnder cnt (keyAt root (q ++ [j])) := by rw [hkeyT]; exact hl.later j _ hij hT
  have hTkk : keyAt root q ++ [(Node.loop l p u r w chT).comp] <+: keyAt root (q ++ [j] ++ rel) ++ [(lid, 0)] := by
    rw [comp_loop, ← hkeyT, ← hkvp]
    exact keyAt_prefix hsubT ⟨rel ++ [m], by simp⟩
  refine ⟨⟨first, by rw [nodeAt_snoc hvp]; simp, hseg⟩, ?_⟩
  intro p0 i' hp
  rcases prefix_snoc_cases hp with hpv | heq
  · -- a level above the new one
    by_cases hlen : (p0 ++ [i']).length ≤ (q ++ [j]).length
    · have hpq : p0 ++ [i'] <+: q ++ [j] :=
        prefix_of_longer hpv ⟨rel ++ [m], by simp⟩ hlen
      exact inv_levels h hinv hr.on hch hT ((agreeOff_enter _ _ _).mono hTkk)
        (by intro hcnt; rw [not_counted_of_transparent hTT] at hcnt; cases hcnt) p0 i' hpq
    · have hqp : q ++ [j] <+: p0 := by
        have h1 : q ++ [j] <+: q ++ [j] ++ rel ++ [m] := ⟨rel ++ [m], by simp⟩
        have h2 : p0 <+: q ++ [j] ++ rel ++ [m] := List.IsPrefix.trans (List.prefix_append _ _) hpv
        exact prefix_of_longer h1 h2 (by simp at hlen ⊢; omega)
      exact chain_levels h hzT hoff hsubL' htgt (agreeOff_enter _ _ _) (by rw [get_enterCnt_self]; omega) p0 i' hqp hpv
  · have hpe : p0 = q ++ [j] ++ rel ++ [m] ∧ i' = 0 := by
      have := List.append_inj' heq (by simp)
      exact ⟨this.1, by simpa using this.2⟩
    obtain ⟨rfl, rfl⟩ := hpe
    refine ⟨first :: rest, hvp, ⟨first, by simp⟩, ?_, ?_, ?_⟩
    · intro j'' c'' hj hc''
      rw [hkvp]
      have hwf := wfAt_chAt (wfAt_root h.wf) hvp
      have hf0 : (first :: rest)[0]? = some first := by simp
      exact zeroUnder_enterCnt _ _ _ _ (compDistinct_ne hwf.comp hf0 hc'' (by omega))
    · intro j'' c'' hj; omega
    · intro c0 hc0 _
      simp only [List.getElem?_cons_zero, Option.some.injEq] at hc0; subst hc0
      rw [hkvp]; exact get_enterCnt_first _ _ _

end Pyx12Verif.WalkerGen
