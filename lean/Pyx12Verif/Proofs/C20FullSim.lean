/-
C20 (closing the `-f` statements), part 1: two runs of the reader that differ only in what the count checks cannot see.

`Sim s t`: the two reader states have the same counters and the same KINDS of open loops (the control numbers kept
in `loops`, the id lists and the HL parent stack may differ).  `VSim v w`: the two views have the same identifier and
count elements that `int()` reads alike (the control numbers may differ; that is what trimming a trailing empty
element does: `''` becomes `None`).  One step keeps `Sim` and reports the same count errors.
-/
import Pyx12Verif.Proofs.NormStep

namespace Pyx12Verif.Envelope

structure Sim (s t : RState) : Prop where
  kinds : s.loops.map (·.1) = t.loops.map (·.1)
  gs : s.gsCount = t.gsCount
  st : s.stCount = t.stCount
  hl : s.hlCount = t.hlCount
  seg : s.segCount = t.segCount
  chkL : s.chk837 = false
  chkR : t.chk837 = false

theorem Sim.refl (s : RState) (h : s.chk837 = false) : Sim s s := ⟨rfl, rfl, rfl, rfl, rfl, h, h⟩

structure VSim (v w : SegView) : Prop where
  id : v.id = w.id
  cnt : fieldInt v.cnt = fieldInt w.cnt

theorem VSim.refl (v : SegView) : VSim v v := ⟨rfl, rfl⟩

theorem filter_nc (l : List Err) (h : ∀ x ∈ l, isCountErr x = false) : l.filter isCountErr = [] := by
  rw [List.filter_eq_nil_iff]
  intro x hx; simp [h x hx]

theorem dupErr_nc (e : Err) (c : Option Str) (l : List (Option Str)) (he : isCountErr e = false) :
    ∀ x ∈ dupErr e c l, isCountErr x = false := by
  intro x hx; unfold dupErr at hx; split at hx <;> simp at hx; rw [hx]; exact he

theorem sim_env (k : Kind) {s t : RState} (h : Sim s t) : Sim (popped (envState k s)) (popped (envState k t)) := by
  obtain ⟨f1, f2, f3, f4, f5⟩ := envState_fields k s
  obtain ⟨g1, g2, g3, g4, g5⟩ := envState_fields k t
  refine ⟨?_, by rw [f1, g1]; exact h.gs, by rw [f2, g2]; exact h.st, by rw [f3, g3]; exact h.hl,
    by rw [f4, g4]; exact h.seg, by rw [f5]; exact h.chkL, by rw [g5]; exact h.chkR⟩
  have hk := h.kinds
  unfold envState popped
  cases hs : s.loops with
  | nil =>
    cases ht : t.loops with
    | nil => simp [hs, ht]
    | cons b r' => rw [hs, ht] at hk; simp at hk
  | cons a r =>
    cases ht : t.loops with
    | nil => rw [hs, ht] at hk; simp at hk
    | cons b r' =>
      rw [hs, ht] at hk
      simp only [List.map_cons, List.cons.injEq] at hk
      obtain ⟨hab, hrr⟩ := hk
      simp only [hab]
      by_cases hb : b.1 = k
      · simp [hb, hs, ht, hrr]
      · simp only [hb, if_false, List.map_tail]
        rw [hrr]

theorem sim_popped {s t : RState} (h : Sim s t) : Sim (popped s) (popped t) := by
  refine ⟨?_, h.gs, h.st, h.hl, h.seg, h.chkL, h.chkR⟩
  simp only [popped, List.map_tail]
  rw [h.kinds]

theorem cntErrs_congr {c c' : Option Str} (h : fieldInt c = fieldInt c') (n : Nat) (e : Err) :
    cntErrs c n e = cntErrs c' n e := by
  unfold cntErrs; rw [h]

/-- One step of the guarded reader on similar states and similar views: the second does not fail either (unless it
    is an ISA without its 16 elements), ends in a similar state and reports the same count errors. -/
theorem step_sim {s t S : RState} {v w : SegView} {es : List Err} (hst : Sim s t) (hvw : VSim v w)
    (h16 : w.id = idISA → w.n16 = true) (h : step Fixes.all s v = .ok (S, es)) :
    ∃ T es', step Fixes.all t w = .ok (T, es') ∧ Sim S T ∧ es'.filter isCountErr = es.filter isCountErr := by
  have hid := hvw.id
  have hcnt := hvw.cnt
  by_cases h1 : v.id = idISA
  · have h1' : w.id = idISA := hid ▸ h1
    cases hv16 : v.n16 with
    | false => rw [step_ISA_raised s v h1 hv16] at h; cases h
    | true =>
      rw [step_ISA_any s v h1 hv16] at h
      injection h with h; injection h with hS hes
      subst hS; subst hes
      refine ⟨_, _, step_ISA_any t w h1' (h16 h1'), ?_, ?_⟩
      · exact ⟨by simp [hst.kinds], rfl, hst.st, hst.hl, hst.seg, hst.chkL, hst.chkR⟩
      · rw [filter_nc _ (dupErr_nc _ _ _ rfl), filter_nc _ (dupErr_nc _ _ _ rfl)]
  by_cases h2 : v.id = idGS
  · have h2' : w.id = idGS := hid ▸ h2
    rw [step_GS_any s v h2] at h
    injection h with h; injection h with hS hes
    subst hS; subst hes
    refine ⟨_, _, step_GS_any t w h2', ?_, ?_⟩
    · exact ⟨by simp [hst.kinds], by simp [hst.gs], rfl, hst.hl, hst.seg, hst.chkL, hst.chkR⟩
    · rw [filter_nc _ (dupErr_nc _ _ _ rfl), filter_nc _ (dupErr_nc _ _ _ rfl)]
  by_cases h3 : v.id = idST
  · have h3' : w.id = idST := hid ▸ h3
    rw [step_ST_any s v h3] at h
    injection h with h; injection h with hS hes
    subst hS; subst hes
    refine ⟨_, _, step_ST_any t w h3', ?_, ?_⟩
    · exact ⟨by simp [hst.kinds], hst.gs, by simp [hst.st], rfl, rfl, hst.chkL, hst.chkR⟩
    · rw [filter_nc _ (dupErr_nc _ _ _ rfl), filter_nc _ (dupErr_nc _ _ _ rfl)]
  by_cases h4 : v.id = idIEA
  · have h4' : w.id = idIEA := hid ▸ h4
    rw [step_IEA_any s v h4] at h
    injection h with h; injection h with hS hes
    subst hS; subst hes
    refine ⟨_, _, step_IEA_any t w h4', sim_env Kind.isa hst, ?_⟩
    have p1 : ∀ (u : RState) (c : Option Str),
        ∀ x ∈ envPre Kind.isa Err.isa024 u ++ idErrs (envState Kind.isa u) c Err.isa001, isCountErr x = false := by
      intro u c x hx; rcases List.mem_append.mp hx with hx | hx
      · exact envPre_nc _ _ _ rfl x hx
      · exact idErrs_nc _ _ _ rfl x hx
    rw [List.filter_append, List.filter_append (l₁ := _ ++ _), filter_nc _ (p1 t w.ctl), filter_nc _ (p1 s v.ctl),
      ← hst.gs, cntErrs_congr hcnt]
  by_cases h5 : v.id = idGE
  · have h5' : w.id = idGE := hid ▸ h5
    rw [step_GE_any s v h5] at h
    injection h with h; injection h with hS hes
    subst hS; subst hes
    refine ⟨_, _, step_GE_any t w h5', sim_env Kind.gs hst, ?_⟩
    have p1 : ∀ (u : RState) (c : Option Str),
        ∀ x ∈ envPre Kind.gs Err.gs3 u ++ idErrs (envState Kind.gs u) c Err.gs4, isCountErr x = false := by
      intro u c x hx; rcases List.mem_append.mp hx with hx | hx
      · exact envPre_nc _ _ _ rfl x hx
      · exact idErrs_nc _ _ _ rfl x hx
    rw [List.filter_append, List.filter_append (l₁ := _ ++ _), filter_nc _ (p1 t w.ctl), filter_nc _ (p1 s v.ctl),
      ← hst.st, cntErrs_congr hcnt]
  by_cases h6 : v.id = idSE
  · have h6' : w.id = idSE := hid ▸ h6
    rw [step_SE_any s v h6] at h
    injection h with h; injection h with hS hes
    subst hS; subst hes
    refine ⟨_, _, step_SE_any t w h6', sim_popped hst, ?_⟩
    rw [List.filter_append, List.filter_append, filter_nc _ (setIdErrs_nc t w.ctl), filter_nc _ (setIdErrs_nc s v.ctl),
      ← hst.seg, cntErrs_congr hcnt]
  by_cases h7 : v.id = idHL
  · have h7' : w.id = idHL := hid ▸ h7
    rw [step_HL s v h7] at h
    injection h with h; injection h with hS hes
    subst hS; subst hes
    refine ⟨_, _, step_HL t w h7', ?_, ?_⟩
    · exact ⟨hst.kinds, hst.gs, hst.st, by simp [hst.hl], by simp [hst.seg], hst.chkL, hst.chkR⟩
    · have hpost : ∀ (u : RState) (z : SegView),
          ∀ x ∈ (if z.ctl = some [] then [] else if inStack (fieldInt z.ctl) u.hlStack = true then [] else [Err.hl2]),
          isCountErr x = false := by
        intro u z x hx; split at hx
        · simp at hx
        · split at hx
          · simp at hx
          · simp at hx; rw [hx]; rfl
      unfold hlStepErrs
      rw [List.filter_append, List.filter_append, filter_nc _ (hpost t w), filter_nc _ (hpost s v), ← hst.hl, hcnt]
  · have henv : isEnvId v.id = false := by simp [isEnvId, h1, h2, h3, h4, h5, h6]
    rw [step_other s v henv h7 (by rw [hst.chkL]; intro hc; cases hc)] at h
    injection h with h; injection h with hS hes
    subst hS; subst hes
    refine ⟨_, _, step_other t w (hid ▸ henv) (hid ▸ h7) (by rw [hst.chkR]; intro hc; cases hc), ?_, rfl⟩
    exact ⟨hst.kinds, hst.gs, hst.st, hst.hl, by simp [hst.seg], hst.chkL, hst.chkR⟩

/-- pairwise relation of two lists -/
inductive Pairwise2 {α β : Type} (R : α → β → Prop) : List α → List β → Prop
  | nil : Pairwise2 R [] []
  | cons {a b l m} : R a b → Pairwise2 R l m → Pairwise2 R (a :: l) (b :: m)

theorem cleanup_nc (s : RState) : ∀ e ∈ cleanup s, isCountErr e = false := by
  intro e he
  unfold cleanup at he
  obtain ⟨k, _, rfl⟩ := List.mem_map.mp he
  obtain ⟨k1, k2⟩ := k
  cases k1 <;> rfl

/-- A run over similar views, from similar states: it stops with the deliberate X12Error (at an ISA without 16
    elements), or it goes through and reports, segment by segment, the same count errors. -/
theorem runSegs_sim {vs ws : List SegView} (hp : Pairwise2 VSim vs ws) :
    ∀ {s t S : RState} {outs : List (List Err)}, Sim s t → runSegs Fixes.all s vs = .ok (S, outs) →
      runSegs Fixes.all t ws = .raised ∨
      ∃ T outs', runSegs Fixes.all t ws = .ok (T, outs') ∧ Sim S T ∧
        outs'.map (List.filter isCountErr) = outs.map (List.filter isCountErr) := by
  induction hp with
  | nil =>
    intro s t S outs hst h
    simp only [runSegs] at h
    injection h with h; injection h with h1 h2
    subst h1; subst h2
    exact Or.inr ⟨t, [], rfl, hst, rfl⟩
  | @cons v w vs ws hvw _ ih =>
    intro s t S outs hst h
    simp only [runSegs] at h
    cases hs : step Fixes.all s v with
    | raised => rw [hs] at h; cases h
    | crash e => rw [hs] at h; cases h
    | ok a =>
      obtain ⟨S1, es⟩ := a
      rw [hs] at h
      simp only [Outcome.bind] at h
      cases hr : runSegs Fixes.all S1 vs with
      | raised => rw [hr] at h; cases h
      | crash e => rw [hr] at h; cases h
      | ok b =>
        obtain ⟨S2, outs2⟩ := b
        rw [hr] at h
        simp only at h
        injection h with h; injection h with h1 h2
        subst h1; subst h2
        by_cases h16 : w.id = idISA → w.n16 = true
        · obtain ⟨T1, es', k1, k2, k3⟩ := step_sim hst hvw h16 hs
          rcases ih k2 hr with k | ⟨T, outs', k4, k5, k6⟩
          · left; simp [runSegs, k1, k, Outcome.bind]
          · right
            exact ⟨T, es' :: outs', by simp [runSegs, k1, k4, Outcome.bind], k5, by simp [k3, k6]⟩
        · left
          have hid : w.id = idISA := by
            by_cases e : w.id = idISA
            · exact e
            · exact absurd (fun e' => absurd e' e) h16
          have hn : w.n16 = false := by
            cases hw : w.n16 with
            | false => rfl
            | true => exact absurd (fun _ => hw) h16
          simp [runSegs, step_ISA_raised t w hid hn, Outcome.bind]

end Pyx12Verif.Envelope
