/-
One `Write` in lockstep with the reader, for every event the grammar allows at every level, and whole histories.
-/
import Pyx12Verif.Proofs.WriterSim

namespace Pyx12Verif.Writer
open Pyx12Verif.Envelope (RState SegView Kind Fixes Str Level Err idISA idIEA idGS idGE idST idSE idHL idLX idCLM decimal
  isEnvId mkISA mkGS mkST mkSE mkGE mkIEA pyInt fieldInt natInt baseStep step dupErr SameEnv Runs Normal)
open Pyx12Verif.SegText (Seg Delims joinWith normComp splitOn)

/-! ### control numbers seen so far, by scope -/

abbrev Ids := List (Option Str) × List (Option Str) × List (Option Str)

def idsOf (w : RState) : Ids := (w.isaIds, w.gsIds, w.stIds)

/-- the header's control number was not used before within its scope -/
def freshAt (d : Delims) (ids : Ids) (s : Seg) : Prop :=
  (s.id = idISA → ctlOf d s ∉ ids.1) ∧ (s.id = idGS → ctlOf d s ∉ ids.2.1) ∧ (s.id = idST → ctlOf d s ∉ ids.2.2)

/-- an ISA opens a new scope for group numbers, a GS for set numbers -/
def nextIds (d : Delims) (s : Seg) (ids : Ids) : Ids :=
  if s.id = idISA then (ctlOf d s :: ids.1, [], ids.2.2)
  else if s.id = idGS then (ids.1, ctlOf d s :: ids.2.1, [])
  else if s.id = idST then (ids.1, ids.2.1, ctlOf d s :: ids.2.2)
  else ids

def FreshFrom (d : Delims) : Ids → List Seg → Prop
  | _, [] => True
  | ids, s :: r => freshAt d ids s ∧ FreshFrom d (nextIds d s ids) r

/-! ### the reader on a written header -/

theorem dup_errs_ok (e0 : Err) (he : isDupErr e0 = true) (c : Option Str) (l : List (Option Str)) :
    ErrsOk (c ∉ l) [dupErr e0 c l] := by
  refine ⟨?_, ?_⟩
  · intro e hm
    simp only [List.flatten_cons, List.flatten_nil, List.append_nil, dupErr] at hm
    split at hm
    · simp only [List.mem_singleton] at hm; subst hm; exact Or.inr he
    · cases hm
  · intro hf e hm
    simp only [List.flatten_cons, List.flatten_nil, List.append_nil, dupErr, hf, if_false] at hm
    cases hm

theorem read_ISA (r : RState) (c : Option Str) :
    StepOk .top .inIsa r { r with loops := (Kind.isa, c) :: r.loops, isaIds := c :: r.isaIds, gsCount := 0, gsIds := [] }
      [mkISA c] (c ∉ r.isaIds) := by
  refine ⟨⟨_, Runs.cons (Envelope.step_ISA r c) (Runs.nil _), dup_errs_ok _ rfl c _⟩, ?_, ?_⟩
  · simp [Envelope.walk, Envelope.nestStep, mkISA]
  · intro v hv
    simp only [List.mem_singleton] at hv
    subst hv
    simp [Normal, mkISA, idISA, idIEA, idGS, idST, idSE, idGE]

theorem read_GS (r : RState) (c : Option Str) :
    StepOk .inIsa .inGs r { r with gsCount := r.gsCount + 1, gsIds := c :: r.gsIds, loops := (Kind.gs, c) :: r.loops,
                                   stCount := 0, stIds := [] }
      [mkGS c] (c ∉ r.gsIds) := by
  refine ⟨⟨_, Runs.cons (Envelope.step_GS r c) (Runs.nil _), dup_errs_ok _ rfl c _⟩, ?_, ?_⟩
  · simp [Envelope.walk, Envelope.nestStep, mkGS]
  · intro v hv
    simp only [List.mem_singleton] at hv
    subst hv
    simp [Normal, mkGS, idISA, idIEA, idGS, idST, idSE, idGE]

theorem read_ST (r : RState) (c : Option Str) :
    StepOk .inGs .inSt r { r with hlStack := [], hlCount := 0, stCount := r.stCount + 1, stIds := c :: r.stIds,
                                  loops := (Kind.st, c) :: r.loops, segCount := 1 }
      [mkST c] (c ∉ r.stIds) := by
  refine ⟨⟨_, Runs.cons (Envelope.step_ST r c) (Runs.nil _), dup_errs_ok _ rfl c _⟩, ?_, ?_⟩
  · simp [Envelope.walk, Envelope.nestStep, mkST]
  · intro v hv
    simp only [List.mem_singleton] at hv
    subst hv
    simp [Normal, mkST, idISA, idIEA, idGS, idST, idSE, idGE]

theorem read_body (c : Cfg) (rv : Seg → SegView) (hrv : RvOk c rv) (r : RState) (s : Seg) (henv : isEnvId s.id = false)
    (hc : r.chk837 = false) :
    ∃ r', SameEnv r r' ∧ r'.segCount = r.segCount + 1 ∧ StepOk .inSt .inSt r r' [rv s] True := by
  have henv' : isEnvId (rv s).id = false := by rw [hrv.id]; exact henv
  obtain ⟨r', es, hstep, hsame, hcnt, hes⟩ := body_step_env r (rv s) henv' hc
  refine ⟨r', hsame, hcnt, ⟨[es], Runs.cons hstep (Runs.nil _), ?_⟩, ?_, ?_⟩
  · refine ⟨fun e he => Or.inl (hes e (by simpa using he)), fun _ e he => hes e (by simpa using he)⟩
  · obtain ⟨_, _, _, _, _, h6⟩ := Envelope.not_env henv'
    simp [Envelope.walk, Envelope.nestStep, h6, henv']
  · intro v hv
    simp only [List.mem_singleton] at hv
    subst hv
    obtain ⟨h1, h2, h3, h4, h5, h6⟩ := Envelope.not_env henv'
    exact ⟨fun h => absurd h h1, fun h => absurd h h3, fun h => absurd h h5, fun h => absurd h h6,
      fun h => absurd h h4, fun h => absurd h h2⟩

/-! ### one `Write` -/

structure Stepped (c : Cfg) (rv : Seg → SegView) (lvl lvl' : Level) (w r : RState) (seg : Seg) (k : Nat) (w' : RState)
    (outs : List Seg) : Prop where
  sim : ∃ r', Sim c.d lvl' w' r' ∧ StepOk lvl lvl' r r' (outs.map rv) (freshAt c.d (idsOf w) seg)
  bounded : Bounded w' (k + 1)
  ids : idsOf w' = nextIds c.d seg (idsOf w)
  outs : ∀ s ∈ outs, GenTrailer c.d s ∨ (isTrailerId seg.id = false ∧ s = fixISA c seg)

theorem Closed.stepped {c : Cfg} {rv : Seg → SegView} {lvl lvl' : Level} {w r : RState} {k : Nat} {res : RState × List Seg}
    (seg : Seg) (hid : isTrailerId seg.id = true) (h : Closed c rv lvl lvl' w r k res) :
    Stepped c rv lvl lvl' w r seg k res.1 res.2 := by
  obtain ⟨r', hs, ho⟩ := h.sim
  refine ⟨⟨r', hs, ho.mono (fun _ => trivial)⟩, ?_, ?_, fun s hs => Or.inl (h.trailers s hs)⟩
  · obtain ⟨a, b, c'⟩ := h.bounded
    exact ⟨by omega, by omega, by omega⟩
  · have h1 : seg.id ≠ idISA ∧ seg.id ≠ idGS ∧ seg.id ≠ idST := by
      rcases trailer_cases hid with e | e | e <;> rw [e] <;> decide
    simp [idsOf, nextIds, h1.1, h1.2.1, h1.2.2, h.ids.isaIds, h.ids.gsIds, h.ids.stIds]

theorem sim_step (c : Cfg) (hd : DelimsOk c.d) (rv : Seg → SegView) (hrv : RvOk c rv) (lvl lvl' : Level) (w r : RState)
    (seg : Seg) (k : Nat)
    (hs : Sim c.d lvl w r) (hh : histStep lvl seg.id = some lvl') (hdom : SegDom c.d seg) (hb : Bounded w k)
    (hk : k + 1 < countLimit) :
    ∃ w' outs, write c w seg = .ok (w', outs) ∧ Stepped c rv lvl lvl' w r seg k w' outs := by
  obtain ⟨hwf, h16, hctl⟩ := hdom
  have hbk : Bounded w (k + 1) := ⟨by have := hb.1; omega, by have := hb.2.1; omega, by have := hb.2.2; omega⟩
  cases lvl with
  | top =>
    simp only [histStep] at hh
    split at hh
    · rename_i hid
      cases hh
      obtain ⟨x, hx, hxo⟩ := hctl (Or.inl hid)
      have hl : w.loops = [] := hs.shape
      refine ⟨_, _, write_ISA c w seg hwf hid (h16 hid),
        ⟨{ r with loops := (Kind.isa, ctlOf c.d seg) :: r.loops, isaIds := ctlOf c.d seg :: r.isaIds, gsCount := 0,
                  gsIds := [] }, ?_, ?_⟩, ?_, ?_, ?_⟩
      · refine ⟨by simp [hs.loops], by simp [hs.isaIds], hs.chkw, hs.chkr, ⟨_, ⟨x, hx, hxo⟩, by simp [hl]⟩,
          fun _ => ⟨rfl, rfl⟩, (fun h => by rcases h with h | h <;> cases h), fun h => by cases h⟩
      · simp only [List.map_cons, List.map_nil, hrv.isa seg _ hid (h16 hid) hwf ⟨x, hx, hxo⟩]
        refine (read_ISA r (ctlOf c.d seg)).mono ?_
        intro hf
        rw [hs.isaIds]
        exact hf.1 hid
      · exact ⟨Nat.zero_le _, hbk.2.1, hbk.2.2⟩
      · simp [idsOf, nextIds, hid]
      · intro s hs
        simp only [List.mem_singleton] at hs
        exact Or.inr ⟨by rw [hid]; decide, by rw [hs, fixISA, if_pos hid]⟩
    · cases hh
  | inIsa =>
    simp only [histStep] at hh
    split at hh
    · rename_i hid
      cases hh
      obtain ⟨x, hx, hxo⟩ := hctl (Or.inr (Or.inl hid))
      obtain ⟨c1, g1, hl⟩ := hs.shape
      have hgs := hs.gs (by decide)
      refine ⟨_, _, write_GS c w seg hwf hid,
        ⟨{ r with gsCount := r.gsCount + 1, gsIds := ctlOf c.d seg :: r.gsIds,
                  loops := (Kind.gs, ctlOf c.d seg) :: r.loops, stCount := 0, stIds := [] }, ?_, ?_⟩, ?_, ?_, ?_⟩
      · refine ⟨by simp [hs.loops], hs.isaIds, hs.chkw, hs.chkr, ⟨c1, _, g1, ⟨x, hx, hxo⟩, by simp [hl]⟩,
          fun _ => ⟨by simp [hgs.1], by simp [hgs.2]⟩, fun _ => ⟨rfl, rfl⟩, fun h => by cases h⟩
      · simp only [List.map_cons, List.map_nil, hrv.gs seg hid ⟨x, hx, hxo⟩]
        refine (read_GS r (ctlOf c.d seg)).mono ?_
        intro hf
        rw [hgs.2]
        exact hf.2.1 hid
      · exact ⟨by have := hb.1; simp; omega, Nat.zero_le _, hbk.2.2⟩
      · have h1 : idGS ≠ idISA := by decide
        simp [idsOf, nextIds, hid, h1]
      · intro s hs
        simp only [List.mem_singleton] at hs
        have h1 : seg.id ≠ idISA := by rw [hid]; decide
        exact Or.inr ⟨by rw [hid]; decide, by rw [hs, fixISA, if_neg h1]⟩
    · split at hh
      · rename_i hid
        cases hh
        have ht : isTrailerId seg.id = true := by rw [hid]; decide
        refine ⟨_, _, ?_, (pop_isa c hd rv hrv w r k hs hb hk).stepped seg ht⟩
        rw [write_trailer c w seg ht hs.chkw, if_pos hid]
      · cases hh
  | inGs =>
    simp only [histStep] at hh
    split at hh
    · rename_i hid
      cases hh
      obtain ⟨x, hx, hxo⟩ := hctl (Or.inr (Or.inr hid))
      obtain ⟨c1, c2, g1, g2, hl⟩ := hs.shape
      have hgs := hs.gs (by decide)
      have hst := hs.st (Or.inl rfl)
      refine ⟨_, _, write_ST c w seg hwf hid,
        ⟨{ r with hlStack := [], hlCount := 0, stCount := r.stCount + 1, stIds := ctlOf c.d seg :: r.stIds,
                  loops := (Kind.st, ctlOf c.d seg) :: r.loops, segCount := 1 }, ?_, ?_⟩, ?_, ?_, ?_⟩
      · refine ⟨by simp [hs.loops], hs.isaIds, hs.chkw, hs.chkr, ⟨c1, c2, _, g1, g2, ⟨x, hx, hxo⟩, by simp [hl]⟩,
          fun _ => hgs, fun _ => ⟨by simp [hst.1], by simp [hst.2]⟩, fun _ => rfl⟩
      · simp only [List.map_cons, List.map_nil, hrv.st seg hid ⟨x, hx, hxo⟩]
        refine (read_ST r (ctlOf c.d seg)).mono ?_
        intro hf
        rw [hst.2]
        exact hf.2.2 hid
      · exact ⟨hbk.1, by have := hb.2.1; simp; omega, by simp⟩
      · have h1 : idST ≠ idISA := by decide
        have h2 : idST ≠ idGS := by decide
        simp [idsOf, nextIds, hid, h1, h2]
      · intro s hs
        simp only [List.mem_singleton] at hs
        have h1 : seg.id ≠ idISA := by rw [hid]; decide
        exact Or.inr ⟨by rw [hid]; decide, by rw [hs, fixISA, if_neg h1]⟩
    · split at hh
      · rename_i hid
        cases hh
        have ht : isTrailerId seg.id = true := by rw [hid]; decide
        have h1 : seg.id ≠ idIEA := by rw [hid]; decide
        refine ⟨_, _, ?_, (pop_gs c hd rv hrv w r k hs hb hk).stepped seg ht⟩
        rw [write_trailer c w seg ht hs.chkw, if_neg h1, if_pos hid]
      · split at hh
        · rename_i hid
          cases hh
          have ht : isTrailerId seg.id = true := by rw [hid]; decide
          refine ⟨_, _, ?_, (pop_gs_isa c hd rv hrv w r k hs hb hk).stepped seg ht⟩
          rw [write_trailer c w seg ht hs.chkw, if_pos hid]
        · cases hh
  | inSt =>
    simp only [histStep] at hh
    split at hh
    · rename_i hid
      cases hh
      have ht : isTrailerId seg.id = true := by rw [hid]; decide
      have h1 : seg.id ≠ idIEA := by rw [hid]; decide
      have h2 : seg.id ≠ idGE := by rw [hid]; decide
      refine ⟨_, _, ?_, (pop_st c hd rv hrv w r k hs hb hk).stepped seg ht⟩
      rw [write_trailer c w seg ht hs.chkw, if_neg h1, if_neg h2]
    · split at hh
      · rename_i hid
        cases hh
        have ht : isTrailerId seg.id = true := by rw [hid]; decide
        have h1 : seg.id ≠ idIEA := by rw [hid]; decide
        refine ⟨_, _, ?_, (pop_st_gs c hd rv hrv w r k hs hb hk).stepped seg ht⟩
        rw [write_trailer c w seg ht hs.chkw, if_neg h1, if_pos hid]
      · split at hh
        · rename_i hid
          cases hh
          have ht : isTrailerId seg.id = true := by rw [hid]; decide
          refine ⟨_, _, ?_, (pop_st_isa c hd rv hrv w r k hs hb hk).stepped seg ht⟩
          rw [write_trailer c w seg ht hs.chkw, if_pos hid]
        · split at hh
          · cases hh
          · rename_i henv
            cases hh
            have henv' : isEnvId seg.id = false := by simpa using henv
            obtain ⟨w', hw, hsw, hcw⟩ := write_body c w seg hwf henv' hs.chkw
            obtain ⟨r', hsr, hcr, hok⟩ := read_body c rv hrv r seg henv' hs.chkr
            obtain ⟨c1, c2, c3, g1, g2, g3, hl⟩ := hs.shape
            have hgs := hs.gs (by decide)
            have hst := hs.st (Or.inr rfl)
            have hseg := hs.seg rfl
            obtain ⟨e1, _, e3, _, e5, _⟩ := Envelope.not_env henv'
            refine ⟨w', [seg], hw, ⟨r', ?_, ?_⟩, ?_, ?_, ?_⟩
            · refine ⟨by rw [hsr.loops, hsw.loops, hs.loops], by rw [hsr.isaIds, hsw.isaIds, hs.isaIds],
                by rw [hsw.chk837]; exact hs.chkw, by rw [hsr.chk837]; exact hs.chkr,
                ⟨c1, c2, c3, g1, g2, g3, by rw [hsw.loops]; exact hl⟩,
                fun _ => ⟨by rw [hsr.gsCount, hsw.gsCount, hgs.1], by rw [hsr.gsIds, hsw.gsIds, hgs.2]⟩,
                fun _ => ⟨by rw [hsr.stCount, hsw.stCount, hst.1], by rw [hsr.stIds, hsw.stIds, hst.2]⟩,
                fun _ => by rw [hcr, hcw, hseg]⟩
            · exact hok.mono (fun _ => trivial)
            · exact ⟨by rw [hsw.gsCount]; exact hbk.1, by rw [hsw.stCount]; exact hbk.2.1, by rw [hcw]; have := hb.2.2; omega⟩
            · simp [idsOf, nextIds, e1, e3, e5, hsw.isaIds, hsw.gsIds, hsw.stIds]
            · intro s hs
              simp only [List.mem_singleton] at hs
              exact Or.inr ⟨not_trailer_of_not_env henv', by rw [hs, fixISA, if_neg e1]⟩

/-! ### whole histories, then `Close()` -/

structure Accepted (lvl : Level) (r : RState) (vs : List SegView) (fresh : Prop) : Prop where
  run : ∃ r' errs, Runs r vs r' errs ∧ r'.loops = [] ∧ ErrsOk fresh errs
  walk : Envelope.walk lvl vs = some .top
  normal : ∀ v ∈ vs, Normal v

theorem sim_run (c : Cfg) (hd : DelimsOk c.d) (rv : Seg → SegView) (hrv : RvOk c rv) :
    ∀ (rest : List Seg) (lvl : Level) (w r : RState) (k : Nat),
    Sim c.d lvl w r → wellNestedFrom lvl rest = true → (∀ s ∈ rest, SegDom c.d s) → Bounded w k →
    k + rest.length + 1 < countLimit →
    ∃ w' outs, writeAll c w rest = .ok (w', outs) ∧
      Accepted lvl r ((outs ++ (close c w').2).map rv) (FreshFrom c.d (idsOf w) rest) ∧
      ∀ s ∈ outs ++ (close c w').2, GenTrailer c.d s ∨ ∃ x ∈ rest, isTrailerId x.id = false ∧ s = fixISA c x := by
  intro rest
  induction rest with
  | nil =>
    intro lvl w r k hs _ _ hb hk
    have hcl := close_sim c hd rv hrv lvl w r k hs hb (by simpa using hk)
    obtain ⟨r', hs', ho⟩ := hcl.sim
    obtain ⟨errs, hr, he⟩ := ho.run
    refine ⟨w, [], rfl, ⟨⟨r', errs, by simpa using hr, ?_, he.mono (fun _ => trivial)⟩, by simpa using ho.walk,
      by simpa using ho.normal⟩, fun s hs => Or.inl (hcl.trailers s (by simpa using hs))⟩
    have : (close c w).1.loops = [] := hs'.shape
    rw [hs'.loops]; exact this
  | cons seg rest ih =>
    intro lvl w r k hs hwn hdom hb hk
    simp only [wellNestedFrom] at hwn
    cases hh : histStep lvl seg.id with
    | none => simp [hh] at hwn
    | some lvl' =>
      simp only [hh] at hwn
      simp only [List.length_cons] at hk
      obtain ⟨w1, outs1, hw1, hst⟩ := sim_step c hd rv hrv lvl lvl' w r seg k hs hh (hdom seg (by simp)) hb (by omega)
      obtain ⟨r1, hs1, ho1⟩ := hst.sim
      obtain ⟨w2, outs2, hw2, hacc, htr⟩ := ih lvl' w1 r1 (k + 1) hs1 hwn (fun s hm => hdom s (by simp [hm])) hst.bounded
        (by omega)
      refine ⟨w2, outs1 ++ outs2, by simp [writeAll, hw1, hw2, Outcome.bind], ?_, ?_⟩
      rotate_left
      · intro s hs
        rw [List.append_assoc, List.mem_append] at hs
        rcases hs with hs | hs
        · rcases hst.outs s hs with h | ⟨h1, h2⟩
          · exact Or.inl h
          · exact Or.inr ⟨seg, by simp, h1, h2⟩
        · rcases htr s hs with h | ⟨x, hx, h1, h2⟩
          · exact Or.inl h
          · exact Or.inr ⟨x, by simp [hx], h1, h2⟩
      obtain ⟨r2, errs2, hr2, hl2, he2⟩ := hacc.run
      obtain ⟨errs1, hr1, he1⟩ := ho1.run
      have happ : (outs1 ++ outs2 ++ (close c w2).2).map rv =
          outs1.map rv ++ (outs2 ++ (close c w2).2).map rv := by simp
      rw [happ]
      refine ⟨⟨r2, errs1 ++ errs2, Runs.append hr1 hr2, hl2, ?_⟩, Envelope.walk_append ho1.walk hacc.walk, ?_⟩
      · have := he1.append he2
        refine this.mono ?_
        intro hf
        simp only [FreshFrom] at hf
        exact ⟨hf.1, by rw [hst.ids]; exact hf.2⟩
      · intro v hv
        simp only [List.mem_append] at hv
        rcases hv with hv | hv
        · exact ho1.normal v hv
        · exact hacc.normal v hv

end Pyx12Verif.Writer
