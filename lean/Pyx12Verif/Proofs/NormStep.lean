/-
C20 helper lemmas, part 2: the reader's step in closed form for ANY state (the C04 lemmas assume the matching header
on top of the stack), the decimal text of a counter read back by `int()`, and what replacing a count element does
to the step: same next state, the count error gone, every other error kept.
-/
import Pyx12Verif.Proofs.EnvelopeSteps

namespace Pyx12Verif.Envelope

/-! ### `int('%i' % n)` -/

theorem char_le_iff (a b : Char) : a ≤ b ↔ a.toNat ≤ b.toNat := by
  rw [Char.le_def, UInt32.le_iff_toNat_le]; rfl

theorem isDigit_iff (c : Char) : isDigit c = true ↔ 48 ≤ c.toNat ∧ c.toNat ≤ 57 := by
  simp only [isDigit, Bool.and_eq_true, decide_eq_true_eq, char_le_iff]
  rfl

theorem isDigit_of_core {c : Char} (h : c.isDigit = true) : isDigit c = true := by
  rw [isDigit_iff]
  simp only [Char.isDigit, Bool.and_eq_true, decide_eq_true_eq, UInt32.le_iff_toNat_le] at h
  exact h

theorem isDigit_not_space {c : Char} (h : isDigit c = true) : isIntSpace c = false := by
  rw [isDigit_iff] at h
  simp only [isIntSpace, Bool.or_eq_false_iff, beq_eq_false_iff_ne, ne_eq]
  refine ⟨⟨⟨⟨⟨?_, ?_⟩, ?_⟩, ?_⟩, ?_⟩, ?_⟩ <;> (intro e; subst e; revert h; decide)

theorem scanDigits_digits (l : Str) (hl : ∀ c ∈ l, isDigit c = true) (acc n : Nat) :
    scanDigits false acc n l = some (Nat.ofDigitChars 10 l acc, n + l.length) := by
  induction l generalizing acc n with
  | nil => simp [scanDigits]
  | cons c r ih =>
    have hc := hl c (by simp)
    simp only [scanDigits, hc, if_true]
    rw [ih (fun x hx => hl x (List.mem_cons_of_mem _ hx))]
    simp only [Nat.ofDigitChars_cons, digitVal, List.length_cons]
    congr 2
    · rw [Nat.mul_comm]
    · omega

theorem pyInt_decimal (n : Nat) (h : n < 10 ^ maxStrDigits) : pyInt (decimal n) = some (natInt n) := by
  have hd : ∀ c ∈ decimal n, isDigit c = true := fun c hc =>
    isDigit_of_core (Nat.isDigit_of_mem_toDigits (by decide) (by decide) hc)
  have hlen : (decimal n).length ≤ maxStrDigits :=
    (Nat.length_toDigits_le_iff (by decide) (by decide)).mpr h
  rw [pyInt_of_digits _ hd]
  cases hdn : decimal n with
  | nil => exact absurd hdn Nat.toDigits_ne_nil
  | cons c r =>
    rw [hdn] at hd hlen
    have hc := hd c (by simp)
    have hns := isDigit_not_space hc
    have hne1 : c ≠ '-' := by intro e; subst e; revert hc; decide
    have hne2 : c ≠ '+' := by intro e; subst e; revert hc; decide
    simp only [dropSpace, hns, Bool.false_eq_true, if_false, signedInt, hne1, hne2, startDigits, hc, if_true]
    rw [scanDigits_digits r (fun x hx => hd x (List.mem_cons_of_mem _ hx))]
    have hval : Nat.ofDigitChars 10 r (digitVal c) = n := by
      have := Nat.ofDigitChars_ten_toDigits (n := n)
      have hdn' : Nat.toDigits 10 n = c :: r := hdn
      rw [hdn', Nat.ofDigitChars_cons] at this
      simpa [digitVal] using this
    simp only [finishInt, hval]
    have : ¬ (1 + r.length > maxStrDigits) := by
      simp only [List.length_cons] at hlen; omega
    simp [this, natInt]

theorem fieldInt_decimal (n : Nat) (h : n < 10 ^ maxStrDigits) : fieldInt (some (decimal n)) = some (natInt n) :=
  pyInt_decimal n h

/-! ### trailers in closed form -/

/-- the count clause of a trailer -/
def cntErrs (c : Option Str) (n : Nat) (e : Err) : List Err := if fieldInt c = some (natInt n) then [] else [e]

/-- final `del self.loops[-1]` (guarded) -/
def popped (s : RState) : RState := { s with loops := s.loops.tail }

theorem popLoop_eq (s : RState) (es : List Err) : popLoop Fixes.all s es = .ok (popped s, es) := by
  unfold popLoop popped
  cases hl : s.loops with
  | nil => simp only [Fixes.all, if_true, List.tail_nil]; rw [← hl]
  | cons a r => simp

theorem checkCount_eq (s : RState) (es : List Err) (c : Option Str) (n : Nat) (e : Err) :
    checkCount Fixes.all s es c n e = .ok (popped s, es ++ cntErrs c n e) := by
  simp only [checkCount, pyIntArg_all, Outcome.bind, popLoop_eq, cntErrs]
  split <;> simp

/-- the control-number clause of IEA / GE against the innermost open envelope -/
def idErrs (s : RState) (ctl : Option Str) (e : Err) : List Err :=
  match s.loops with
  | [] => [e]
  | top :: _ => if top.2 = ctl then [] else [e]

theorem checkId_eq (s : RState) (es : List Err) (v : SegView) (eId eCnt : Err) (n : Nat) :
    checkId Fixes.all s es v eId eCnt n = .ok (popped s, es ++ idErrs s v.ctl eId ++ cntErrs v.cnt n eCnt) := by
  unfold checkId idErrs
  cases hl : s.loops with
  | nil => simp only [show Fixes.all.d5 = true from rfl, if_true, checkCount_eq]
  | cons top r =>
    simp only [checkCount_eq]
    split <;> simp

/-- the extra pop of IEA / GE when the innermost open envelope is of another kind -/
def envState (k : Kind) (s : RState) : RState :=
  match s.loops with
  | [] => s
  | top :: r => if top.1 = k then s else { s with loops := r }

def envPre (k : Kind) (e : Err) (s : RState) : List Err :=
  match s.loops with
  | [] => []
  | top :: _ => if top.1 = k then [] else [e]

theorem closeEnv_eq (k : Kind) (eOpen eId eCnt : Err) (n : Nat) (s : RState) (v : SegView) :
    closeEnv Fixes.all k eOpen eId eCnt n s v =
      .ok (popped (envState k s), envPre k eOpen s ++ idErrs (envState k s) v.ctl eId ++ cntErrs v.cnt n eCnt) := by
  unfold closeEnv envState envPre
  cases hl : s.loops with
  | nil => simp only [show Fixes.all.d5 = true from rfl, if_true, checkId_eq, idErrs, hl]
  | cons top r =>
    simp only
    split <;> simp [checkId_eq]

def setIdErrs (s : RState) (ctl : Option Str) : List Err :=
  match s.loops with
  | [] => [Err.st3]
  | top :: _ => if top.1 = Kind.st ∧ top.2 = ctl then [] else [Err.st3]

theorem closeSet_eq (s : RState) (v : SegView) :
    closeSet Fixes.all s v = .ok (popped s, setIdErrs s v.ctl ++ cntErrs v.cnt (s.segCount + 1) Err.st4) := by
  unfold closeSet setIdErrs
  cases hl : s.loops with
  | nil => simp only [show Fixes.all.d5 = true from rfl, if_true, checkCount_eq]
  | cons top r => simp [checkCount_eq]

theorem step_IEA_any (s : RState) (v : SegView) (hid : v.id = idIEA) :
    step Fixes.all s v =
      .ok (popped (envState Kind.isa s),
           envPre Kind.isa Err.isa024 s ++ idErrs (envState Kind.isa s) v.ctl Err.isa001 ++
             cntErrs v.cnt s.gsCount Err.isa021) := by
  have h := closeEnv_eq Kind.isa Err.isa024 Err.isa001 Err.isa021 s.gsCount s v
  simp [step, baseStep, baseBranch, trailerStep, countSeg, isEnvId, Outcome.bind, hid,
    idST, idISA, idGS, idIEA, idGE, idSE, idHL, idCLM, idLX] at h ⊢
  simp [h]

theorem step_GE_any (s : RState) (v : SegView) (hid : v.id = idGE) :
    step Fixes.all s v =
      .ok (popped (envState Kind.gs s),
           envPre Kind.gs Err.gs3 s ++ idErrs (envState Kind.gs s) v.ctl Err.gs4 ++
             cntErrs v.cnt s.stCount Err.gs5) := by
  have h := closeEnv_eq Kind.gs Err.gs3 Err.gs4 Err.gs5 s.stCount s v
  simp [step, baseStep, baseBranch, trailerStep, countSeg, isEnvId, Outcome.bind, hid,
    idST, idISA, idGS, idIEA, idGE, idSE, idHL, idCLM, idLX] at h ⊢
  simp [h]

theorem step_SE_any (s : RState) (v : SegView) (hid : v.id = idSE) :
    step Fixes.all s v =
      .ok (popped s, setIdErrs s v.ctl ++ cntErrs v.cnt (s.segCount + 1) Err.st4) := by
  have h := closeSet_eq s v
  simp [step, baseStep, baseBranch, trailerStep, countSeg, isEnvId, Outcome.bind, hid,
    idST, idISA, idGS, idIEA, idGE, idSE, idHL, idCLM, idLX] at h ⊢
  simp [h]


/-! ### headers for any view with that identifier -/

theorem step_ISA_any (s : RState) (v : SegView) (hid : v.id = idISA) (h16 : v.n16 = true) :
    step Fixes.all s v =
      .ok ({ s with loops := (Kind.isa, v.ctl) :: s.loops, isaIds := v.ctl :: s.isaIds, gsCount := 0, gsIds := [] },
           dupErr Err.isa025 v.ctl s.isaIds) := by
  simp [step, baseStep, baseBranch, baseIsa, trailerStep, countSeg, isEnvId, Outcome.bind, hid, h16, dupErr,
    idST, idISA, idGS, idIEA, idGE, idSE]

theorem step_ISA_raised (s : RState) (v : SegView) (hid : v.id = idISA) (h16 : v.n16 = false) :
    step Fixes.all s v = .raised := by
  simp [step, baseStep, baseBranch, baseIsa, Outcome.bind, hid, h16]

theorem step_GS_any (s : RState) (v : SegView) (hid : v.id = idGS) :
    step Fixes.all s v =
      .ok ({ s with gsCount := s.gsCount + 1, gsIds := v.ctl :: s.gsIds, loops := (Kind.gs, v.ctl) :: s.loops,
                    stCount := 0, stIds := [] },
           dupErr Err.gs6 v.ctl s.gsIds) := by
  simp [step, baseStep, baseBranch, baseGs, trailerStep, countSeg, isEnvId, Outcome.bind, hid, dupErr,
    idST, idISA, idGS, idIEA, idGE, idSE]

theorem step_ST_any (s : RState) (v : SegView) (hid : v.id = idST) :
    step Fixes.all s v =
      .ok ({ s with hlStack := [], hlCount := 0, stCount := s.stCount + 1, stIds := v.ctl :: s.stIds,
                    loops := (Kind.st, v.ctl) :: s.loops, segCount := 1 },
           dupErr Err.st23 v.ctl s.stIds) := by
  simp [step, baseStep, baseBranch, baseSt, trailerStep, countSeg, isEnvId, Outcome.bind, hid, dupErr,
    idST, idISA, idGS, idIEA, idGE, idSE]

/-! ### replacing the count element -/

/-- the four errors x12norm -f repairs -/
def isCountErr : Err → Bool
  | .isa021 => true
  | .gs5 => true
  | .st4 => true
  | .hl1 => true
  | _ => false

/-- the count error a segment of this identifier can draw -/
def countErrOf (id : Str) : Option Err :=
  if id = idIEA then some Err.isa021
  else if id = idGE then some Err.gs5
  else if id = idSE then some Err.st4
  else if id = idHL then some Err.hl1
  else none

/-- the reader's own count, read from its state AFTER the segment was parsed -/
def counterOf (S : RState) (id : Str) : Nat :=
  if id = idIEA then S.gsCount
  else if id = idGE then S.stCount
  else if id = idSE then S.segCount + 1
  else S.hlCount

def Bounded (B : Nat) (s : RState) : Prop := s.gsCount ≤ B ∧ s.stCount ≤ B ∧ s.hlCount ≤ B ∧ s.segCount ≤ B

def withCnt (v : SegView) (c : Option Str) : SegView := { v with cnt := c }

theorem filter_dupErr (e : Err) (c : Option Str) (l : List (Option Str)) (he : isCountErr e = false) :
    (dupErr e c l).filter (fun x => !isCountErr x) = dupErr e c l := by
  unfold dupErr; split <;> simp [he]

theorem filter_pre (l : List Err) (h : ∀ x ∈ l, isCountErr x = false) : l.filter (fun x => !isCountErr x) = l := by
  apply List.filter_eq_self.mpr
  intro x hx; simp [h x hx]

theorem envPre_nc (k : Kind) (e : Err) (s : RState) (he : isCountErr e = false) : ∀ x ∈ envPre k e s, isCountErr x = false := by
  intro x hx; unfold envPre at hx
  split at hx
  · simp at hx
  · split at hx
    · simp at hx
    · simp at hx; rw [hx]; exact he

theorem idErrs_nc (s : RState) (c : Option Str) (e : Err) (he : isCountErr e = false) : ∀ x ∈ idErrs s c e, isCountErr x = false := by
  intro x hx; unfold idErrs at hx
  split at hx
  · simp at hx; rw [hx]; exact he
  · split at hx
    · simp at hx
    · simp at hx; rw [hx]; exact he

theorem setIdErrs_nc (s : RState) (c : Option Str) : ∀ x ∈ setIdErrs s c, isCountErr x = false := by
  intro x hx; unfold setIdErrs at hx
  split at hx
  · simp at hx; rw [hx]; rfl
  · split at hx
    · simp at hx
    · simp at hx; rw [hx]; rfl

theorem cntErrs_mem {c : Option Str} {n : Nat} {e x : Err} (h : x ∈ cntErrs c n e) : x = e := by
  unfold cntErrs at h; split at h <;> simp at h; exact h

theorem cntErrs_decimal (n : Nat) (e : Err) (h : n < 10 ^ maxStrDigits) : cntErrs (some (decimal n)) n e = [] := by
  simp [cntErrs, fieldInt_decimal n h]

theorem filter_cnt (c : Option Str) (n : Nat) (e : Err) (he : isCountErr e = true) :
    (cntErrs c n e).filter (fun x => !isCountErr x) = [] := by
  unfold cntErrs; split <;> simp [he]

theorem envState_fields (k : Kind) (s : RState) :
    (popped (envState k s)).gsCount = s.gsCount ∧ (popped (envState k s)).stCount = s.stCount ∧
    (popped (envState k s)).hlCount = s.hlCount ∧ (popped (envState k s)).segCount = s.segCount ∧
    (popped (envState k s)).chk837 = s.chk837 := by
  unfold envState
  split
  · exact ⟨rfl, rfl, rfl, rfl, rfl⟩
  · split <;> exact ⟨rfl, rfl, rfl, rfl, rfl⟩

/-- One step of the reader, for a state without the 837 service-line check (x12norm never enables it):
    the next state keeps that, its counters grow by at most one, a count error can only be the one belonging to the
    segment identifier, and writing the reader's own counter into the count element gives the same next state with
    exactly the count error removed. -/
theorem step_replace (s S : RState) (v : SegView) (es : List Err) (B : Nat) (hchk : s.chk837 = false) (hB : Bounded B s)
    (h : step Fixes.all s v = .ok (S, es)) :
    S.chk837 = false ∧ Bounded (B + 1) S ∧
    (∀ e ∈ es, isCountErr e = true → countErrOf v.id = some e) ∧
    (countErrOf v.id = none → es.filter (fun x => !isCountErr x) = es) ∧
    (∀ e, countErrOf v.id = some e → counterOf S v.id < 10 ^ maxStrDigits →
      step Fixes.all s (withCnt v (some (decimal (counterOf S v.id)))) = .ok (S, es.filter (fun x => !isCountErr x))) := by
  obtain ⟨b1, b2, b3, b4⟩ := hB
  by_cases h1 : v.id = idISA
  · cases h16 : v.n16 with
    | false => rw [step_ISA_raised s v h1 h16] at h; cases h
    | true =>
      rw [step_ISA_any s v h1 h16] at h
      injection h with h; injection h with hS hes
      subst hS; subst hes
      refine ⟨hchk, ⟨by simp, by simp; omega, by simp; omega, by simp; omega⟩, ?_, ?_, ?_⟩
      · intro e he hc; unfold dupErr at he; split at he <;> simp at he; subst he; cases hc
      · intro _; exact filter_dupErr _ _ _ rfl
      · intro e he; simp [countErrOf, h1, idISA, idIEA, idGE, idSE, idHL] at he
  by_cases h2 : v.id = idGS
  · rw [step_GS_any s v h2] at h
    injection h with h; injection h with hS hes
    subst hS; subst hes
    refine ⟨hchk, ⟨by simp; omega, by simp, by simp; omega, by simp; omega⟩, ?_, ?_, ?_⟩
    · intro e he hc; unfold dupErr at he; split at he <;> simp at he; subst he; cases hc
    · intro _; exact filter_dupErr _ _ _ rfl
    · intro e he; simp [countErrOf, h2, idGS, idIEA, idGE, idSE, idHL] at he
  by_cases h3 : v.id = idST
  · rw [step_ST_any s v h3] at h
    injection h with h; injection h with hS hes
    subst hS; subst hes
    refine ⟨hchk, ⟨by simp; omega, by simp; omega, by simp, by simp⟩, ?_, ?_, ?_⟩
    · intro e he hc; unfold dupErr at he; split at he <;> simp at he; subst he; cases hc
    · intro _; exact filter_dupErr _ _ _ rfl
    · intro e he; simp [countErrOf, h3, idST, idIEA, idGE, idSE, idHL] at he
  by_cases h4 : v.id = idIEA
  · rw [step_IEA_any s v h4] at h
    injection h with h; injection h with hS hes
    have hpre : ∀ x ∈ envPre Kind.isa Err.isa024 s ++ idErrs (envState Kind.isa s) v.ctl Err.isa001, isCountErr x = false := by
      intro x hx; rcases List.mem_append.mp hx with hx | hx
      · exact envPre_nc _ _ _ rfl x hx
      · exact idErrs_nc _ _ _ rfl x hx
    obtain ⟨f1, f2, f3, f4, f5⟩ := envState_fields Kind.isa s
    have hg : S.gsCount = s.gsCount := by rw [← hS]; exact f1
    refine ⟨?_, ?_, ?_, ?_, ?_⟩
    · rw [← hS, f5]; exact hchk
    · rw [← hS]; simp only [Bounded, f1, f2, f3, f4]; omega
    · intro e he hc
      rw [← hes] at he
      rcases List.mem_append.mp he with he | he
      · rw [hpre e he] at hc; cases hc
      · rw [cntErrs_mem he]; simp [countErrOf, h4]
    · intro hn; simp [countErrOf, h4] at hn
    · intro e _ hlt
      have hc : counterOf S v.id = s.gsCount := by simp [counterOf, h4, hg]
      rw [hc] at hlt ⊢
      rw [step_IEA_any s _ (by simpa [withCnt] using h4)]
      simp only [withCnt, cntErrs_decimal _ _ hlt, List.append_nil]
      rw [← hes, List.filter_append, filter_pre _ hpre, filter_cnt _ _ _ rfl, List.append_nil, hS]
  by_cases h5 : v.id = idGE
  · rw [step_GE_any s v h5] at h
    injection h with h; injection h with hS hes
    have hpre : ∀ x ∈ envPre Kind.gs Err.gs3 s ++ idErrs (envState Kind.gs s) v.ctl Err.gs4, isCountErr x = false := by
      intro x hx; rcases List.mem_append.mp hx with hx | hx
      · exact envPre_nc _ _ _ rfl x hx
      · exact idErrs_nc _ _ _ rfl x hx
    obtain ⟨f1, f2, f3, f4, f5⟩ := envState_fields Kind.gs s
    have hg : S.stCount = s.stCount := by rw [← hS]; exact f2
    refine ⟨?_, ?_, ?_, ?_, ?_⟩
    · rw [← hS, f5]; exact hchk
    · rw [← hS]; simp only [Bounded, f1, f2, f3, f4]; omega
    · intro e he hc
      rw [← hes] at he
      rcases List.mem_append.mp he with he | he
      · rw [hpre e he] at hc; cases hc
      · rw [cntErrs_mem he]; simp [countErrOf, h5, idGE, idIEA]
    · intro hn; simp [countErrOf, h5, idGE, idIEA] at hn
    · intro e _ hlt
      have hc : counterOf S v.id = s.stCount := by simp [counterOf, h5, hg, idGE, idIEA]
      rw [hc] at hlt ⊢
      rw [step_GE_any s _ (by simpa [withCnt] using h5)]
      simp only [withCnt, cntErrs_decimal _ _ hlt, List.append_nil]
      rw [← hes, List.filter_append, filter_pre _ hpre, filter_cnt _ _ _ rfl, List.append_nil, hS]
  by_cases h6 : v.id = idSE
  · rw [step_SE_any s v h6] at h
    injection h with h; injection h with hS hes
    have hpre := setIdErrs_nc s v.ctl
    have hg : S.segCount = s.segCount := by rw [← hS]; rfl
    refine ⟨?_, ?_, ?_, ?_, ?_⟩
    · rw [← hS]; exact hchk
    · rw [← hS]; simp only [popped, Bounded]; omega
    · intro e he hc
      rw [← hes] at he
      rcases List.mem_append.mp he with he | he
      · rw [hpre e he] at hc; cases hc
      · rw [cntErrs_mem he]; simp [countErrOf, h6, idGE, idIEA, idSE]
    · intro hn; simp [countErrOf, h6, idGE, idIEA, idSE] at hn
    · intro e _ hlt
      have hc : counterOf S v.id = s.segCount + 1 := by simp [counterOf, h6, hg, idGE, idIEA, idSE]
      rw [hc] at hlt ⊢
      rw [step_SE_any s _ (by simpa [withCnt] using h6)]
      simp only [withCnt, cntErrs_decimal _ _ hlt, List.append_nil]
      rw [← hes, List.filter_append, filter_pre _ hpre, filter_cnt _ _ _ rfl, List.append_nil, hS]
  by_cases h7 : v.id = idHL
  · rw [step_HL s v h7] at h
    injection h with h; injection h with hS hes
    have hpost : ∀ x ∈ (if v.ctl = some [] then [] else if inStack (fieldInt v.ctl) s.hlStack = true then [] else [Err.hl2]),
        isCountErr x = false := by
      intro x hx; split at hx
      · simp at hx
      · split at hx
        · simp at hx
        · simp at hx; rw [hx]; rfl
    have hg : S.hlCount = s.hlCount + 1 := by rw [← hS]
    have hes' : es = cntErrs v.cnt (s.hlCount + 1) Err.hl1 ++
        (if v.ctl = some [] then [] else if inStack (fieldInt v.ctl) s.hlStack = true then [] else [Err.hl2]) := by
      rw [← hes]; rfl
    refine ⟨?_, ?_, ?_, ?_, ?_⟩
    · rw [← hS]; exact hchk
    · rw [← hS]; simp only [Bounded]; omega
    · intro e he hc
      rw [hes'] at he
      rcases List.mem_append.mp he with he | he
      · rw [cntErrs_mem he]; simp [countErrOf, h7, idGE, idIEA, idSE, idHL]
      · rw [hpost e he] at hc; cases hc
    · intro hn; simp [countErrOf, h7, idGE, idIEA, idSE, idHL] at hn
    · intro e _ hlt
      have hc : counterOf S v.id = s.hlCount + 1 := by simp [counterOf, h7, hg, idGE, idIEA, idSE, idHL]
      rw [hc] at hlt ⊢
      rw [step_HL s _ (by simpa [withCnt] using h7)]
      have e1 : hlStackAfter s (withCnt v (some (decimal (s.hlCount + 1)))) = hlStackAfter s v := rfl
      have e2 : hlStepErrs s (withCnt v (some (decimal (s.hlCount + 1)))) =
          cntErrs (some (decimal (s.hlCount + 1))) (s.hlCount + 1) Err.hl1 ++
          (if v.ctl = some [] then [] else if inStack (fieldInt v.ctl) s.hlStack = true then [] else [Err.hl2]) := rfl
      rw [e1, e2, cntErrs_decimal _ _ hlt, hes', List.filter_append, filter_cnt _ _ _ rfl, filter_pre _ hpost, hS]
  · have henv : isEnvId v.id = false := by
      simp [isEnvId, h1, h2, h3, h4, h5, h6]
    rw [step_other s v henv h7 (by rw [hchk]; intro hc; cases hc)] at h
    injection h with h; injection h with hS hes
    subst hS; subst hes
    refine ⟨hchk, ⟨by simp; omega, by simp; omega, by simp; omega, by simp; omega⟩, ?_, ?_, ?_⟩
    · intro e he; simp at he
    · intro _; rfl
    · intro e he; simp [countErrOf, h4, h5, h6, h7] at he

end Pyx12Verif.Envelope
