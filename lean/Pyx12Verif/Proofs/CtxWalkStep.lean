/-
C09 ⟵ C02 link, part 4: the reader's consistency check accepts every answer the walker model gives, and hence every
run of the walker in which each segment is found.
-/
import Pyx12Verif.Proofs.CtxWalkShape
import Pyx12Verif.Proofs.WalkerRun

namespace Pyx12Verif.CtxWalk
open Pyx12Verif.MapSkel Pyx12Verif.Walker Pyx12Verif.WalkerGen

/-- the answers for the walked segments: `iter_segments` calls `walker.walk(self.x12_map_node, seg, …)`; when no node is
    found it keeps the previous node (`self.x12_map_node = orig_node`, empty pop / push lists).  `si k` is what the
    source reader reports for the `k`-th segment of the file. -/
def walkAnswers (K : Consts) (root : List Node) (rootId : Nat) (si : Nat → Ctx.SegInfo) :
    Nat → Counter → List Nat → List Emit → List Ctx.Answer
  | _, _, _, [] => []
  | k, cnt, cur, e :: r =>
    match (walk K root rootId cnt cur e.2).node with
    | some n =>
      answerOf root (si k) n (walk K root rootId cnt cur e.2).pops (walk K root rootId cnt cur e.2).pushes ::
        walkAnswers K root rootId si (k + 1) (walk K root rootId cnt cur e.2).st.cnt n r
    | none =>
      answerOf root (si k) cur [] [] ::
        walkAnswers K root rootId si (k + 1) (walk K root rootId cnt cur e.2).st.cnt cur r

theorem firstIs_excl {sub : List Node} (h1 : firstIsLoop sub = true) (h2 : firstIsSeg sub = true) : False := by
  cases sub with
  | nil => simp [firstIsLoop] at h1
  | cons c r => simp only [firstIsLoop, firstIsSeg] at h1 h2; rw [h2] at h1; cases h1

/-- one answer of the walker passes the reader's consistency check -/
theorem step_consistent {root : List Node} (hwf : WFAt root) {lid : Option Nat} (hlid : LidOK? root lid)
    {L : List Nat} {curPos : Nat} {n : List Nat} {pops pushes : List (List Nat)} (hLv : ∃ chL, chAt root L = some chL)
    (hf : StepFacts root L curPos n pops pushes) (si : Ctx.SegInfo) :
    Ctx.stepOk lid { open_ := stackAt root L, last := curPos } (answerOf root si n pops pushes) =
      some { open_ := stackAt root n.dropLast, last := posAt root n } := by
  obtain ⟨P, nd, lastC, i, ch, c, hpop, hpush, hn, hloop, hch, hc, hseg, hi1, hi2, hlen, hpos, htr⟩ := hf
  subst hn
  have hdl : (nd ++ [i]).dropLast = nd := by simp
  have hgl : (nd ++ [i]).getLast? = some i := by simp
  have hfirst : (answerOf root si (nd ++ [i]) pops pushes).first = decide (i = 0) := by
    simp only [answerOf, hgl]
    by_cases h0 : i = 0 <;> simp [h0]
  have hemp : (answerOf root si (nd ++ [i]) pops pushes).pushes.isEmpty = decide (pushes = []) := by
    simp only [answerOf, cvPushes]
    cases pushes <;> simp
  have himp : Ctx.implicitOpen (answerOf root si (nd ++ [i]) pops pushes) = false := by
    simp only [Ctx.implicitOpen, hfirst, hemp, Bool.and_eq_false_iff, decide_eq_false_iff_not]
    by_cases hp : pushes = []
    · left; exact hi1 hp
    · right; exact hp
  have hep : ∀ cur, Ctx.effPops cur (answerOf root si (nd ++ [i]) pops pushes) = cvPops root pops := by
    intro cur; unfold Ctx.effPops; rw [himp]; simp [answerOf]
  have hepu : Ctx.effPushes (answerOf root si (nd ++ [i]) pops pushes) = cvPushes root pushes := by
    unfold Ctx.effPushes; rw [himp]; simp [answerOf]
  simp only [Ctx.stepOk, hep, hepu, hpop, hpush]
  rw [if_pos]
  · simp [answerOf, hdl]
  · refine ⟨?_, ?_, ?_, ?_, ?_, ?_, ?_⟩
    · simp [answerOf, hdl, pathOf_stackAt]
    · by_cases hp : pushes = []
      · right; simp [answerOf, cvPushes, hp]
      · left; rw [hfirst]; simpa using hi2 hp
    · intro _
      simp only [answerOf, hdl]
      exact stackAt_head hloop
    · intro he
      simp only [pathOf_stackAt, answerOf, hdl] at he
      obtain ⟨chL, hchL⟩ := hLv
      have := lpathAt_inj L nd root chL ch hwf hchL hch he
      simpa [cvPops] using hlen this.symm
    · intro h; rw [himp] at h; cases h
    · simp only [Ctx.firstPushPos, hepu]
      cases pushes with
      | nil => simp [cvPushes]
      | cons p0 rest => simpa [cvPushes] using hpos p0 rest rfl
    · cases lid with
      | none => simp [Ctx.anchoredOk]
      | some l =>
        simp only [Ctx.anchoredOk, hepu, Bool.and_eq_true, Bool.not_eq_true', decide_eq_true_eq]
        have hl : LidOK root l := hlid
        refine ⟨?_, ?_⟩
        · rw [List.contains_eq_mem]
          simp only [decide_eq_false_iff_not, cvPushes, ← List.map_dropLast, List.map_map, List.mem_map, Function.comp]
          rintro ⟨p, hp, hid⟩
          obtain ⟨sub, hsub, hne, hT⟩ := htr p hp
          exact firstIs_excl hT ((hl p sub hne hsub).2 (by simpa [Ctx.idOf] using hid))
        · simp only [answerOf, hdl]
          exact (hl nd ch hloop.1 hch).1

theorem segAt_dropLast {root : List Node} {cur : List Nat} (h : SegAt root cur) : ∃ chL, chAt root cur.dropLast = some chL := by
  obtain ⟨L, i, ch, c, rfl, hch, _, _⟩ := h
  exact ⟨ch, by simpa using hch⟩

theorem segAt_of_facts {root : List Node} {L : List Nat} {curPos : Nat} {n : List Nat} {pops pushes : List (List Nat)}
    (hf : StepFacts root L curPos n pops pushes) : SegAt root n := by
  obtain ⟨P, nd, lastC, i, ch, c, _, _, hn, _, hch, hc, hseg, _⟩ := hf
  exact ⟨nd, i, ch, c, hn, hch, hc, hseg⟩

/-- a run in which the walker finds a node for every segment (as `RunOK` says) gives a consistent answer list -/
theorem run_consistent {K : Consts} {root : List Node} {rootId : Nat} (hs : Static K root) {lid : Option Nat}
    (hlid : LidOK? root lid) (si : Nat → Ctx.SegInfo) : ∀ (emits : List Emit) (k : Nat) (cnt : Counter) (cur : List Nat),
    SegAt root cur → RunOK K root rootId cnt cur emits →
    Ctx.consistentFrom lid { open_ := stackAt root cur.dropLast, last := posAt root cur }
      (walkAnswers K root rootId si k cnt cur emits) = true
  | [], _, _, _, _, _ => by simp [walkAnswers, Ctx.consistentFrom]
  | e :: r, k, cnt, cur, hcur, hrun => by
    obtain ⟨hnode, _, _, hrest⟩ := hrun
    have hf := walk_facts hs hcur cnt hnode
    simp only [walkAnswers, hnode, Ctx.consistentFrom]
    rw [step_consistent hs.wf hlid (segAt_dropLast hcur) hf (si k)]
    simp only
    exact run_consistent hs hlid si r (k + 1) _ e.1 (segAt_of_facts hf) hrest

/-- the segments of the walked answers are the source segments, in order -/
theorem walkAnswers_segs {K : Consts} {root : List Node} {rootId : Nat} (si : Nat → Ctx.SegInfo) :
    ∀ (emits : List Emit) (k : Nat) (cnt : Counter) (cur : List Nat),
    (walkAnswers K root rootId si k cnt cur emits).map (fun a => a.seg) = (List.range' k emits.length).map si
  | [], _, _, _ => by simp [walkAnswers]
  | e :: r, k, cnt, cur => by
    simp only [walkAnswers]
    split
    · simp only [List.map_cons, List.length_cons, List.range'_succ, answerOf, List.cons.injEq, true_and]
      exact walkAnswers_segs si r (k + 1) _ _
    · simp only [List.map_cons, List.length_cons, List.range'_succ, answerOf, List.cons.injEq, true_and]
      exact walkAnswers_segs si r (k + 1) _ _

/-! ### where the reader stands after a consistent prefix (needed to chain several groups) -/

/-- the reader's view after the answers, `none` when some step is rejected -/
def whereFrom (lid : Option Nat) : Ctx.Where → List Ctx.Answer → Option Ctx.Where
  | w, [] => some w
  | w, a :: r =>
    match Ctx.stepOk lid w a with
    | none => none
    | some w' => whereFrom lid w' r

theorem consistentFrom_of_where (lid : Option Nat) : ∀ (as : List Ctx.Answer) (w w' : Ctx.Where),
    whereFrom lid w as = some w' → Ctx.consistentFrom lid w as = true
  | [], _, _, _ => by simp [Ctx.consistentFrom]
  | a :: r, w, w', h => by
    simp only [whereFrom] at h
    simp only [Ctx.consistentFrom]
    cases hs : Ctx.stepOk lid w a with
    | none => rw [hs] at h; cases h
    | some w1 => rw [hs] at h; exact consistentFrom_of_where lid r w1 w' h

theorem whereFrom_append (lid : Option Nat) : ∀ (as bs : List Ctx.Answer) (w w1 : Ctx.Where),
    whereFrom lid w as = some w1 → whereFrom lid w (as ++ bs) = whereFrom lid w1 bs
  | [], bs, w, w1, h => by simp only [whereFrom, Option.some.injEq] at h; subst h; rfl
  | a :: r, bs, w, w1, h => by
    simp only [whereFrom] at h
    simp only [List.cons_append, whereFrom]
    cases hs : Ctx.stepOk lid w a with
    | none => rw [hs] at h; cases h
    | some w2 => rw [hs] at h; exact whereFrom_append lid r bs w2 w1 h

theorem consistentFrom_append (lid : Option Nat) : ∀ (as bs : List Ctx.Answer) (w w1 : Ctx.Where),
    whereFrom lid w as = some w1 → Ctx.consistentFrom lid w (as ++ bs) = Ctx.consistentFrom lid w1 bs
  | [], bs, w, w1, h => by simp only [whereFrom, Option.some.injEq] at h; subst h; rfl
  | a :: r, bs, w, w1, h => by
    simp only [whereFrom] at h
    simp only [List.cons_append, Ctx.consistentFrom]
    cases hs : Ctx.stepOk lid w a with
    | none => rw [hs] at h; cases h
    | some w2 => rw [hs] at h; exact consistentFrom_append lid r bs w2 w1 h

/-- `run_consistent` with the reader's final view: it stands at the walker's final node -/
theorem run_where {K : Consts} {root : List Node} {rootId : Nat} (hs : Static K root) {lid : Option Nat}
    (hlid : LidOK? root lid) (si : Nat → Ctx.SegInfo) : ∀ (emits : List Emit) (k : Nat) (cnt : Counter) (cur : List Nat),
    SegAt root cur → RunOK K root rootId cnt cur emits →
    whereFrom lid { open_ := stackAt root cur.dropLast, last := posAt root cur }
      (walkAnswers K root rootId si k cnt cur emits) =
      some { open_ := stackAt root (runCur cur emits).dropLast, last := posAt root (runCur cur emits) } ∧
    SegAt root (runCur cur emits)
  | [], _, _, _, hcur, _ => by simp [walkAnswers, whereFrom, runCur, hcur]
  | e :: r, k, cnt, cur, hcur, hrun => by
    obtain ⟨hnode, _, _, hrest⟩ := hrun
    have hf := walk_facts hs hcur cnt hnode
    simp only [walkAnswers, hnode, whereFrom, runCur]
    rw [step_consistent hs.wf hlid (segAt_dropLast hcur) hf (si k)]
    simp only
    exact run_where hs hlid si r (k + 1) _ e.1 (segAt_of_facts hf) hrest

theorem walkAnswers_length {K : Consts} {root : List Node} {rootId : Nat} (si : Nat → Ctx.SegInfo) :
    ∀ (emits : List Emit) (k : Nat) (cnt : Counter) (cur : List Nat),
    (walkAnswers K root rootId si k cnt cur emits).length = emits.length := by
  intro emits k cnt cur
  have := congrArg List.length (walkAnswers_segs (K := K) (root := root) (rootId := rootId) si emits k cnt cur)
  simpa using this

end Pyx12Verif.CtxWalk
