/-
Helper lemmas for Props/DocSinks.lean, HTML side: the writes of a run are `Html.report` of one (segment, annotation) pair per
reader segment (the classification of the writes is in Proofs/DocSinksPlain.lean).
-/
import Pyx12Verif.Proofs.DocSinksRounds
import Pyx12Verif.Props.C19

namespace Pyx12Verif.Doc
open Pyx12Verif

/-- the reader segments as `gen_seg` walks them (all of them, or `none` when one has 100 or more elements) -/
def htmlSegs : List Seg → Option (List Html.Seg)
  | [] => some []
  | s :: r =>
    match htmlSeg s with
    | none => none
    | some x => consOpt x (htmlSegs r)

theorem htmlElems_spec : ∀ (es : List (List Str)) (xs : List Html.Elem), htmlElems es = some xs → xs.map Html.Elem.subs = es
  | [], xs => by intro h; simp only [htmlElems, Option.some.injEq] at h; subst h; rfl
  | e :: r, xs => by
    intro h
    simp only [htmlElems] at h
    split at h
    · simp at h
    · rename_i x hx
      obtain ⟨t, ht, rfl⟩ := consOpt_eq_some _ _ _ h
      have hx' : x.subs = e := by
        cases e with
        | nil => simp [htmlElem] at hx
        | cons a q => simp only [htmlElem, Option.some.injEq] at hx; subst hx; rfl
      simp [hx', htmlElems_spec r t ht]

theorem htmlSeg_spec (s : Seg) (hs : Html.Seg) (h : htmlSeg s = some hs) :
    hs.id = s.id ∧ hs.elems.map Html.Elem.subs = s.elems := by
  unfold htmlSeg at h
  split at h
  · simp at h
  · split at h
    · simp at h
    · rename_i es he
      simp only [Option.some.injEq] at h
      subst h
      exact ⟨rfl, htmlElems_spec _ _ he⟩

theorem infoOf_spec (sc : SinkCtx) (v : NodeView) (i : Str) (h : infoOf sc v = some i) : ∃ lid, i = loopInfoText sc v lid := by
  unfold infoOf at h
  split at h
  · split at h
    · simp at h
    · rename_i p _
      unfold infoOfLoop at h
      split at h
      · simp at h
      · split at h
        · simp at h
        · rename_i lid _
          simp only [Option.some.injEq] at h
          exact ⟨lid, h.symm⟩
  · simp at h

theorem roundView_spec (sc : SinkCtx) (t : ErrTree.Tree) (c : ErrIter.Cursor) (p : Round) (o : Option NodeView)
    (sa : Html.Seg × Html.Ann) (h : roundView sc t c p o = some sa) :
    htmlSeg p.2 = some sa.1 ∧ ∀ i, sa.2.info = some i → ∃ v lid, i = loopInfoText sc v lid := by
  cases o with
  | none => simp [roundView] at h
  | some v =>
    simp only [roundView] at h
    cases hh : htmlSeg p.2 with
    | none => simp [hh, roundAnn] at h
    | some hs =>
      simp only [hh, roundAnn, Option.some.injEq] at h
      subst h
      refine ⟨rfl, ?_⟩
      intro i hi
      simp only [annOf] at hi
      obtain ⟨lid, hl⟩ := infoOf_spec sc v i hi
      exact ⟨v, lid, hl⟩

/-- the loop hands `gen_seg` every reader segment once, in order; loop information is map text -/
theorem htmlLoop_spec (ms : Maps) (sc : SinkCtx) : ∀ (rounds : List Round) (rs : ErrIter.RState)
    (q : List (Html.Seg × Html.Ann) × ErrIter.RState), htmlLoop ms sc rs rounds = some q →
    htmlSegs (rounds.map (·.2)) = some (q.1.map (·.1)) ∧
      ∀ sa ∈ q.1, ∀ i, sa.2.info = some i → ∃ v lid, i = loopInfoText sc v lid
  | [], rs, q => by
    intro h
    simp only [htmlLoop, Option.some.injEq] at h
    subst h
    exact ⟨rfl, by intro sa hsa; simp at hsa⟩
  | p :: r, rs, q => by
    intro h
    simp only [htmlLoop] at h
    split at h
    · simp at h
    · rename_i st1 _
      split at h
      · simp at h
      · rename_i sa hsa
        split at h
        · simp at h
        · rename_i q' hq'
          simp only [Option.some.injEq] at h
          subst h
          obtain ⟨h1, h2⟩ := roundView_spec sc _ _ p _ sa hsa
          obtain ⟨h3, h4⟩ := htmlLoop_spec ms sc r _ q' hq'
          refine ⟨by simp [htmlSegs, h1, h3, consOpt], ?_⟩
          intro x hx
          rcases List.mem_cons.1 hx with rfl | hx
          · exact h2
          · exact h4 x hx

theorem docHtmlWrites_report (ms : Maps) (ctx : Ctx) (sc : SinkCtx) (text : List Char) (ws : List (List Char))
    (h : docHtmlWrites ms ctx sc text = some ws) :
    ∃ hd rr pairs tail hsegs, SegText.readAll { rest := text, sizes := [] } = .ok hd rr ∧
      ws = Html.report sc.date (htmlDelims (SegText.delimsOf hd)) pairs tail ∧
      htmlSegs (rr.segs.map (·.2)) = some hsegs ∧ pairs.map (·.1) = hsegs ∧
      ∀ sa ∈ pairs, ∀ i, sa.2.info = some i → ∃ v lid, i = loopInfoText sc v lid := by
  unfold docHtmlWrites at h
  split at h
  · simp at h
  · rename_i hd rr hread
    cases hr : roundsOf (validateRead ms ctx hd rr) rr with
    | none => simp [hr, htmlOfRounds] at h
    | some rounds =>
      simp only [hr, htmlOfRounds] at h
      cases hl : htmlLoop ms sc ErrIter.RState.init rounds with
      | none => simp [hl, htmlWritesOf] at h
      | some q =>
        simp only [hl, htmlWritesOf, Option.some.injEq] at h
        obtain ⟨h1, h2⟩ := htmlLoop_spec ms sc rounds _ q hl
        obtain ⟨_, _, h3⟩ := roundsOf_spec _ _ _ hr
        rw [h3] at h1
        exact ⟨hd, rr, q.1, _, q.1.map (·.1), hread, h.symm, h1, rfl, h2⟩

end Pyx12Verif.Doc
