/-
C09 ⟵ C02 link, part 6: what `walk` returns when it finds NO node.

`iter_segments` then keeps the previous node and hands the pop / push lists the walker returned to `_add_segment`.  In the
model those lists are empty: a child scan that reports `found` always carries a node (`_is_loop_match` True implies that
`_goto_seg_match` finds the segment — the two functions test the same first segments), so a result without a node comes
from the not-found exit of the `while True`, which returns `(None, [], [])`.
-/
import Pyx12Verif.Proofs.CtxFound

namespace Pyx12Verif.CtxWalk
open Pyx12Verif.MapSkel Pyx12Verif.Walker Pyx12Verif.WalkerGen

/-- `_is_loop_match` True ⇒ `_goto_seg_match` returns a node -/
theorem lmB_gotoPath {K : Consts} {s : SegData} {c : Node} (h : lmB K s c = true) : (gotoPath K s c).isSome = true := by
  cases c with
  | seg => simp [lmB] at h
  | loop l p u r w ch =>
    rw [lmB_loop] at h
    rw [gotoPath_loop]
    rcases lmHead_goto ch 0 h with h1 | h1
    · simp [h1]
    · by_cases hm : headMatches K s ch = true
      · simp [hm]
      · simp only [hm, Bool.false_eq_true, ↓reduceIte]; exact h1

/-- a scan that reports `found` carries a node -/
theorem scan_found_isSome {K : Consts} {s : SegData} (lip : List Nat) (lkey : PathKey) (loopNode : Option Node)
    (loopNid origLoop : NodeId) (fromPos : Nat) (pops : List (List Nat)) :
    ∀ (rest : List Node) (i : Nat) (st : WState) (r : WalkResult),
    scanChildren K s lip lkey loopNode loopNid origLoop fromPos pops i st rest = .found r → r.node.isSome = true
  | [], i, st, r, h => by simp [scanChildren] at h
  | c :: rest, i, st, r, h => by
    have ih := fun st' h' => scan_found_isSome (K := K) (s := s) lip lkey loopNode loopNid origLoop fromPos pops rest (i + 1) st' r h'
    simp only [scanChildren] at h
    by_cases hpos : c.pos < fromPos
    · simp only [hpos, ↓reduceIte] at h; exact ih _ h
    · simp only [hpos, ↓reduceIte] at h
      cases hseg : c.isSeg with
      | true =>
        simp only [hseg, ↓reduceIte] at h
        cases hm : isMatch K c s with
        | false =>
          simp only [hm, Bool.false_eq_true, ↓reduceIte] at h
          split at h
          · exact ih _ h
          · exact ih _ h
        | true =>
          simp only [hm, ↓reduceIte] at h
          cases loopNode with
          | none =>
            simp only [scanChildren.scanSegMatched, Scan.found.injEq] at h
            subst h; rfl
          | some ln =>
            simp only at h
            have hb := isLoopMatch_fst (K := K) (s := s) ln lip lkey st
            cases hlm : isLoopMatch K s lip lkey st ln with
            | mk b st1 =>
              rw [hlm] at hb h; simp only at hb
              cases b with
              | false =>
                simp only [scanChildren.scanSegMatched, Scan.found.injEq] at h
                subst h; rfl
              | true =>
                simp only at h
                have hg := gotoSegMatch_fst (K := K) (s := s) ln lip lkey st1
                have hsome := lmB_gotoPath hb.symm
                cases hgm : gotoSegMatch K s lip lkey st1 ln with
                | mk res st2 =>
                  rw [hgm] at hg h; simp only at hg
                  cases res with
                  | none =>
                    cases hp : gotoPath K s ln with
                    | none => rw [hp] at hsome; cases hsome
                    | some d => rw [hp] at hg; simp at hg
                  | some np =>
                    simp only at h
                    split at h <;> (simp only [Scan.found.injEq] at h; subst h; rfl)
      | false =>
        simp only [hseg, Bool.false_eq_true, ↓reduceIte] at h
        have hb := isLoopMatch_fst (K := K) (s := s) c (lip ++ [i]) (lkey ++ [c.comp]) st
        cases hlm : isLoopMatch K s (lip ++ [i]) (lkey ++ [c.comp]) st c with
        | mk b st1 =>
          rw [hlm] at hb h; simp only at hb
          cases b with
          | false => simp only at h; exact ih _ h
          | true =>
            simp only at h
            have hg := gotoSegMatch_fst (K := K) (s := s) c (lip ++ [i]) (lkey ++ [c.comp]) st1
            have hsome := lmB_gotoPath hb.symm
            cases hgm : gotoSegMatch K s (lip ++ [i]) (lkey ++ [c.comp]) st1 c with
            | mk res st2 =>
              rw [hgm] at hg h; simp only at hg
              cases res with
              | none =>
                cases hp : gotoPath K s c with
                | none => rw [hp] at hsome; cases hsome
                | some d => rw [hp] at hg; simp at hg
              | some np => simp only [Scan.found.injEq] at h; subst h; rfl

theorem walkUp_none_lists {K : Consts} {root : List Node} {rootId : Nat} {s : SegData} {origLoop : NodeId} {orig : List Nat} :
    ∀ (rev : List Nat) (fromPos : Nat) (pops : List (List Nat)) (st : WState),
    (walkUp K root rootId s origLoop orig rev fromPos pops st).node = none →
    (walkUp K root rootId s origLoop orig rev fromPos pops st).pops = [] ∧
      (walkUp K root rootId s origLoop orig rev fromPos pops st).pushes = []
  | [], fromPos, pops, st, h => by
    simp only [walkUp] at h ⊢
    cases hsc : scanChildren K s [] [] none (rootId, 0) origLoop fromPos pops 0 st root with
    | found r =>
      rw [hsc] at h; simp only at h
      have := scan_found_isSome _ _ _ _ _ _ _ _ _ _ _ hsc
      rw [h] at this; cases this
    | notHere st' => exact ⟨rfl, rfl⟩
  | i :: revParent, fromPos, pops, st, h => by
    simp only [walkUp] at h ⊢
    cases hn : nodeAt root (i :: revParent).reverse with
    | none => exact ⟨rfl, rfl⟩
    | some ln =>
      rw [hn] at h; simp only at h ⊢
      cases hsc : scanChildren K s (i :: revParent).reverse (keyAt root (i :: revParent).reverse) (some ln)
          (ln.ident, idAt root revParent.reverse) origLoop fromPos pops 0 st ln.children with
      | found r =>
        rw [hsc] at h; simp only at h
        have := scan_found_isSome _ _ _ _ _ _ _ _ _ _ _ hsc
        rw [h] at this; cases this
      | notHere st' =>
        rw [hsc] at h; simp only at h ⊢
        exact walkUp_none_lists revParent _ _ _ h

/-- **no node ⇒ no lists**: when `walk` finds no node its pop and push lists are empty, so "the lists the walker
    returned" (`iter_segments`) and "no pops, no pushes" (`walkAnswers`) are the same answer -/
theorem walk_none_lists {K : Consts} {root : List Node} {rootId : Nat} (cnt : Counter) (cur : List Nat) (s : SegData)
    (h : (walk K root rootId cnt cur s).node = none) :
    (walk K root rootId cnt cur s).pops = [] ∧ (walk K root rootId cnt cur s).pushes = [] := by
  simp only [walk] at h ⊢
  cases hn : nodeAt root cur with
  | none => exact ⟨rfl, rfl⟩
  | some n =>
    rw [hn] at h; simp only at h ⊢
    exact walkUp_none_lists _ _ _ _ h

end Pyx12Verif.CtxWalk
