/-
C20 helper lemmas, part 5: what the loop with `-f` writes, segment by segment (unchanged, or element 1 replaced by a
decimal number on an IEA / GE / SE / HL segment), that a rewritten segment is still clean, and that a second pass
over the written segments rewrites nothing.
-/
import Pyx12Verif.Proofs.NormText

namespace Pyx12Verif.Norm
open Pyx12Verif SegText Envelope Tokenizer

/-- how a written segment relates to the one read -/
def Repaired (d : Delims) (s s' : Seg) : Prop :=
  s' = s ∨ (CountId s.id ∧ ∃ n, s' = set01 d s (decimal n))

theorem loop_fix_shape (d : Delims) (hnd : isDigit d.sub = false) (e : Bool) :
    ∀ (inp : List (List RErr × Seg)) (st : RState) (B : Nat) (out : List (Seg × Line)),
      st.chk837 = false → Bounded B st → B + inp.length + 1 < 10 ^ maxStrDigits →
      loop ⟨e, true⟩ d st inp = .ok out →
      All2 (fun x y => Repaired d x.2 y.1 ∧ emit ⟨e, true⟩ d y.1 = .ok y.2) inp out := by
  intro inp
  induction inp with
  | nil =>
    intro st B out _ _ _ h
    simp only [loop] at h
    injection h with h
    subst h
    exact .nil
  | cons x rest ih =>
    intro st B out hchk hB hsmall h
    simp only [loop] at h
    obtain ⟨r, hstep, h⟩ := Res.bind_ok h
    obtain ⟨l, hl, h⟩ := Res.bind_ok h
    obtain ⟨ls, hrest, h⟩ := Res.bind_ok h
    injection h with h
    subst h
    obtain ⟨S1, s'⟩ := r
    simp only [List.length_cons] at hsmall
    obtain ⟨_, _, _, _, _, _, _, g1, g2, g3⟩ := stepSeg_fix d hnd e st S1 x.1 x.2 s' B hchk hB (by omega) hstep
    refine .cons ⟨?_, hl⟩ (ih S1 (B + 1) ls g1 g2 (by omega) hrest)
    rcases g3 with g3 | ⟨g3, g4⟩
    · exact Or.inl g3
    · exact Or.inr ⟨g4, _, g3⟩

theorem isa_ne_of_countId {id : Str} (h : CountId id) : id ≠ isaId := by
  rcases h with e | e | e | e <;> rw [e] <;> decide

/-- a rewritten count segment is as clean as the original: the decimal text contains no delimiter -/
theorem set01_clean (d : Delims) (hnd : NoDigit d) (s : Seg) (n : Nat) (_hid : CountId s.id) (hc : Clean d s) :
    Clean d (set01 d s (decimal n)) := by
  obtain ⟨⟨h1, h2, h3⟩, hh⟩ := hc
  obtain ⟨n1, n2, n3⟩ := hnd
  have hsplit : Path.splitOn d.sub (decimal n) = [decimal n] := Path.splitOn_no_sep _ _ (not_mem_decimal n3 n)
  refine ⟨⟨h1, h2, ?_⟩, hh⟩
  intro c hcm
  simp only [set01, List.mem_cons, hsplit] at hcm
  rcases hcm with rfl | hcm
  · refine ⟨by simp, fun _ => rfl, ?_⟩
    intro v hv
    simp only [List.mem_singleton] at hv
    subst hv
    exact ⟨not_mem_decimal n1 n, not_mem_decimal n2 n, fun _ => not_mem_decimal n3 n⟩
  · exact h3 c (List.mem_of_mem_tail hcm)

theorem repaired_clean (d : Delims) (hnd : NoDigit d) (s s' : Seg) (h : Repaired d s s') (hc : Clean d s) : Clean d s' := by
  rcases h with rfl | ⟨hid, n, rfl⟩
  · exact hc
  · exact set01_clean d hnd s n hid hc

theorem repaired_id (d : Delims) (s s' : Seg) (h : Repaired d s s') : s'.id = s.id := by
  rcases h with rfl | ⟨_, n, rfl⟩ <;> rfl

theorem repaired_tail (d : Delims) (s s' : Seg) (h : Repaired d s s') : s'.elems.tail = s.elems.tail := by
  rcases h with rfl | ⟨_, n, rfl⟩ <;> rfl

theorem isCountErr_of {id : Str} {e : Err} (h : countErrOf id = some e) : isCountErr e = true := by
  unfold countErrOf at h
  split at h
  · injection h with h; rw [← h]; rfl
  · split at h
    · injection h with h; rw [← h]; rfl
    · split at h
      · injection h with h; rw [← h]; rfl
      · split at h
        · injection h with h; rw [← h]; rfl
        · cases h

/-- second pass: the loop with `-f` over the segments a first pass wrote finds no count code and rewrites nothing -/
theorem loop_fix_again (d : Delims) (hnd : isDigit d.sub = false) (e : Bool) :
    ∀ (inp inp2 : List (List RErr × Seg)) (st : RState) (B : Nat) (out : List (Seg × Line)),
      st.chk837 = false → Bounded B st → B + inp.length + 1 < 10 ^ maxStrDigits →
      loop ⟨e, true⟩ d st inp = .ok out → inp2.map (·.2) = out.map (·.1) →
      loop ⟨e, true⟩ d st inp2 = .ok out := by
  intro inp
  induction inp with
  | nil =>
    intro inp2 st B out _ _ _ h h2
    simp only [loop] at h
    injection h with h
    subst h
    cases inp2 with
    | nil => rfl
    | cons a b => simp at h2
  | cons x rest ih =>
    intro inp2 st B out hchk hB hsmall h h2
    simp only [loop] at h
    obtain ⟨r, hstep, h⟩ := Res.bind_ok h
    obtain ⟨l, hl, h⟩ := Res.bind_ok h
    obtain ⟨ls, hrest, h⟩ := Res.bind_ok h
    injection h with h
    subst h
    obtain ⟨S1, s'⟩ := r
    simp only [List.length_cons] at hsmall
    obtain ⟨v, v', es, _, hv', hs, hs', g1, g2, _⟩ := stepSeg_fix d hnd e st S1 x.1 x.2 s' B hchk hB (by omega) hstep
    cases inp2 with
    | nil => simp at h2
    | cons y rest2 =>
      simp only [List.map_cons, List.cons.injEq] at h2
      obtain ⟨hy, h2⟩ := h2
      have ih' := ih rest2 S1 (B + 1) ls g1 g2 (by omega) hrest h2
      have hv'' := hv'
      rw [viewOf_eq] at hv''
      have hvid := viewAt_id d s' v' hv''
      have hse : s'.id = idSE → Err.gs4 ∉ es.filter (fun x => !isCountErr x) :=
        fun hid => step_SE_no_gs4 st S1 v' _ (hvid.trans hid) hs'
      have hrep : repair d S1 (codes y.1 (es.filter (fun x => !isCountErr x))) s' = .ok s' := by
        unfold repair
        rw [target_spec S1 s'.id y.1 _ hse]
        cases hce : countErrOf s'.id with
        | none => rfl
        | some ce =>
          have : ce ∉ es.filter (fun x => !isCountErr x) := by
            intro hm
            have := (List.mem_filter.mp hm).2
            simp [isCountErr_of hce] at this
          simp only [this, if_false]
          rfl
      simp only [loop, stepSeg, hy, hv', Res.bind, hs', afterStep, if_true, hrep, hl, ih']

end Pyx12Verif.Norm
