/-
Helper lemmas for `Props/DocDelim3.lean` (C12 at pipeline level, different component separators):

* the syntax notes see a segment only through its length and the EMPTINESS of its values (`Syn.routeNote_shape`);
* the ISA round of the glue does not change when ISA16 — the component separator itself, which is data — is replaced
  by another value that the ISA16 definition admits (`stepSeg_isa16`).
-/
import Pyx12Verif.Props.DocDelim

namespace Pyx12Verif.Syn

/-- same length, values empty at the same places -/
inductive Shape : Seg → Seg → Prop
  | nil : Shape [] []
  | cons {x y : List Char} {a b : Seg} : nonEmptyStr x = nonEmptyStr y → Shape a b → Shape (x :: a) (y :: b)

inductive GVRel : GV → GV → Prop
  | err : GVRel .indexError .indexError
  | absent : GVRel .absent .absent
  | val (x y : List Char) : nonEmptyStr x = nonEmptyStr y → GVRel (.val x) (.val y)

theorem Shape.refl : ∀ (a : Seg), Shape a a
  | [] => .nil
  | _ :: r => .cons rfl (Shape.refl r)

theorem Shape.append {a b c d : Seg} (h1 : Shape a b) (h2 : Shape c d) : Shape (a ++ c) (b ++ d) := by
  induction h1 with
  | nil => exact h2
  | cons hx _ ih => exact .cons hx ih

theorem Shape.length {a b : Seg} (h : Shape a b) : a.length = b.length := by
  induction h with
  | nil => rfl
  | cons _ _ ih => simp [ih]

theorem lastVal_shape {a b : Seg} (h : Shape a b) : GVRel (lastVal a) (lastVal b) := by
  induction h with
  | nil => exact .err
  | cons hx hr ih =>
    cases hr with
    | nil => exact .val _ _ hx
    | cons hy hr' => simpa [lastVal] using ih

theorem nthVal_shape {a b : Seg} (h : Shape a b) : ∀ i, GVRel (nthVal a i) (nthVal b i) := by
  induction h with
  | nil => intro i; exact .absent
  | cons hx _ ih =>
    intro i
    cases i with
    | zero => exact .val _ _ hx
    | succ j => exact ih j

theorem getValue_shape {a b : Seg} (h : Shape a b) (k : Nat) : GVRel (getValue a k) (getValue b k) := by
  unfold getValue
  by_cases h100 : 100 ≤ k
  · simp only [h100, if_true]; exact .err
  · by_cases h0 : k = 0
    · simp only [h100, h0, if_true, if_false]; exact lastVal_shape h
    · simp only [h100, h0, if_false]; exact nthVal_shape h _

theorem countStep_shape {a b : Seg} (h : Shape a b) (k : Nat) : countStep a k = countStep b k := by
  unfold countStep
  have hl := h.length
  have hr := getValue_shape h k
  revert hr
  generalize getValue a k = ga
  generalize getValue b k = gb
  intro hr
  cases hr with
  | err => rfl
  | absent => simp only [hl]
  | val x y hxy => simp only [hl, hxy]

theorem countPresent_shape {a b : Seg} (h : Shape a b) : ∀ ks, countPresent a ks = countPresent b ks := by
  intro ks
  induction ks with
  | nil => rfl
  | cons k ks ih => simp only [countPresent, ih, countStep_shape h k]

theorem valueTest_shape {a b : Seg} (h : Shape a b) (k : Nat) : valueTest a k = valueTest b k := by
  unfold valueTest
  have hr := getValue_shape h k
  revert hr
  generalize getValue a k = ga
  generalize getValue b k = gb
  intro hr
  cases hr with
  | err => rfl
  | absent => rfl
  | val x y hxy => simp only [hxy]

theorem isSyntaxValid_shape {a b : Seg} (h : Shape a b) (n : Note) : isSyntaxValid a n = isSyntaxValid b n := by
  have hl := h.length
  have hc : evalC a n.idx = evalC b n.idx := by
    cases n.idx with
    | nil => rfl
    | cons k rest => simp only [evalC, headPresentC, hl, valueTest_shape h k, afterGuardC, countPresent_shape h rest]
  have hL : evalL a n.idx = evalL b n.idx := by
    cases n.idx with
    | nil => rfl
    | cons k rest => simp only [evalL, headPresentL, hl, valueTest_shape h k, afterGuardL, countPresent_shape h rest]
  simp only [isSyntaxValid, countPresent_shape h n.idx, hc, hL]

/-- a note is evaluated alike on two segments of the same shape -/
theorem routeNote_shape {a b : Seg} (h : Shape a b) (n : Note) : routeNote a n = routeNote b n := by
  simp only [routeNote, isSyntaxValid_shape h n]

end Pyx12Verif.Syn

namespace Pyx12Verif.Doc
open Pyx12Verif

theorem notesEvents_shape (sd : SegDef) (sid : Str) {a b : List Str} (h : Syn.Shape a b) :
    ∀ ns, notesEvents sd sid a ns = notesEvents sd sid b ns := by
  intro ns
  induction ns with
  | nil => rfl
  | cons n ns ih => simp only [notesEvents, Syn.routeNote_shape h n, ih]

/-! ### the ISA segment with another ISA16 -/

/-- ISA16 (element index 15) replaced by the single character `c` -/
def withIsa16 (s : Seg) (c : Char) : Seg := { s with elems := s.elems.set 15 [[c]] }

/-- the ISA of a document: identifier, 16 single-valued elements, ISA16 = `c` -/
structure IsaWith (s : Seg) (c : Char) : Prop where
  id : s.id = SegText.isaId
  len : s.elems.length = 16
  e16 : s.elems[15]? = some [[c]]
  single : ∀ x ∈ s.elems, x.length = 1

theorem withIsa16_isaWith {s : Seg} {c : Char} (h : IsaWith s c) (c' : Char) : IsaWith (withIsa16 s c') c' := by
  refine ⟨h.id, by simp [withIsa16, h.len], ?_, ?_⟩
  · simp only [withIsa16]
    rw [List.getElem?_set_self (by rw [h.len]; omega)]
  · intro x hx
    simp only [withIsa16] at hx
    rcases List.mem_or_eq_of_mem_set hx with hx | rfl
    · exact h.single x hx
    · rfl

theorem isaWith_split {s : Seg} {c : Char} (h : IsaWith s c) : s.elems = s.elems.take 15 ++ [[[c]]] := by
  have h1 : s.elems = s.elems.take 15 ++ s.elems.drop 15 := (List.take_append_drop 15 s.elems).symm
  have h2 : s.elems.drop 15 = [[[c]]] := by
    have hl : (s.elems.drop 15).length = 1 := by rw [List.length_drop, h.len]
    match hd : s.elems.drop 15, hl with
    | [x], _ =>
      have : (s.elems.drop 15)[0]? = some x := by rw [hd]; rfl
      rw [List.getElem?_drop] at this
      simp only [Nat.add_zero] at this
      rw [h.e16] at this
      rw [Option.some.inj this]
  rw [h2] at h1
  exact h1

theorem withIsa16_split {s : Seg} {c : Char} (h : IsaWith s c) (c' : Char) :
    (withIsa16 s c').elems = s.elems.take 15 ++ [[[c']]] := by
  have h' := isaWith_split (withIsa16_isaWith h c')
  rw [h']
  congr 1
  simp only [withIsa16]
  rw [List.take_set_of_le (by omega)]

/-- an element other than ISA16 reads the same in both -/
theorem getValue_isa16 (d₁ d₂ : Delims) {s : Seg} {c : Char} (h : IsaWith s c) (c' : Char) (k : Nat) (hk : k ≠ 15) :
    Pipeline.getValue d₁ s k = Pipeline.getValue d₂ (withIsa16 s c') k := by
  unfold Pipeline.getValue
  have he : (withIsa16 s c').elems[k]? = s.elems[k]? := by
    simp only [withIsa16]
    rw [List.getElem?_set_ne (fun e => hk e.symm)]
  rw [he]
  cases hx : s.elems[k]? with
  | none => rfl
  | some x =>
    simp only [Pipeline.compFormat]
    rw [formatComp_single _ (Pipeline.sepOf d₂ (withIsa16 s c').id) x (h.single x (List.mem_of_getElem? hx))]

theorem gv_isa16 (d₁ d₂ : Delims) {s : Seg} {c : Char} (h : IsaWith s c) (c' : Char) (k : Nat) (hk : k ≠ 15) :
    gv d₁ s k = gv d₂ (withIsa16 s c') k := by
  simp only [gv, getValue_isa16 d₁ d₂ h c' k hk]

theorem viewOf_isa16 (d₁ d₂ : Delims) {s : Seg} {c : Char} (h : IsaWith s c) (c' : Char) :
    Pipeline.viewOf d₁ s = Pipeline.viewOf d₂ (withIsa16 s c') := by
  have hid : (withIsa16 s c').id = s.id := rfl
  have hlen : (withIsa16 s c').elems.length = s.elems.length := by simp [withIsa16]
  have hi : s.id = Envelope.idISA := h.id
  unfold Pipeline.viewOf
  rw [hid]
  have e1 : Pipeline.cntIdx s.id = none := by rw [hi]; decide
  have e2 : Pipeline.ctlIdx s.id = some 12 := by rw [hi]; decide
  simp only [e1, e2, Pipeline.fetch, getValue_isa16 d₁ d₂ h c' 12 (by decide), Pipeline.mkView]
  cases Pipeline.fetchOf (Pipeline.getValue d₂ (withIsa16 s c') 12) with
  | crash => rfl
  | got k => simp only [Pipeline.mkView2, hid, hlen]

theorem not_segEmpty_isa {s : Seg} {c : Char} (h : IsaWith s c) : segEmpty s = false := by
  unfold segEmpty
  have hne : s.elems ≠ [] := by intro e; have := h.len; rw [e] at this; cases this
  have hmem : [[c]] ∈ s.elems := List.mem_of_getElem? h.e16
  have : s.elems.all SegText.isEmptyComp = false := by
    rw [List.all_eq_false]
    exact ⟨[[c]], hmem, by simp [SegText.isEmptyComp, SegText.isEmptyVal]⟩
  simp [this, hne]

theorem baseErrs_isa16 {s : Seg} {c : Char} (h : IsaWith s c) (c' : Char) : baseErrs s = baseErrs (withIsa16 s c') := by
  unfold baseErrs
  rw [not_segEmpty_isa h, not_segEmpty_isa (withIsa16_isaWith h c')]
  rfl

/-! ### `node.is_valid` on the two ISA segments -/

/-- what the glue needs of the ISA16 element: it is the sixteenth and last child of the ISA definition, a simple element not
    governed by a preceding format qualifier, and the character is a value it accepts without a report -/
def Isa16Admits (ctx : Ctx) (v5 : Bool) (sd : SegDef) (c : Char) : Prop :=
  ∃ pre x, sd.children = pre ++ [ChildX.elem x] ∧ pre.length = 15 ∧ x.dataEle ≠ some s1251 ∧
    elemEvents ctx v5 x.d.seq none x [] (.simple [c]) = .ok true [.addEle x.d.seq none x.dataEle]

theorem pickTl_isa (sid : Str) (i : Nat) (x : ElemX) (dt tl : List Str) (hs : sid ≠ sDTP) (hx : x.dataEle ≠ some s1251) :
    pickTl sid i x dt tl = [] := by
  unfold pickTl
  have h1 : ¬ (i = 2 ∧ sid = sDTP) := fun h => hs h.2
  have h2 : ¬ (x.dataEle = some s1251 ∧ (!tl.isEmpty) = true) := fun h => hx h.1
  simp only [h1, h2, if_false]

/-- same separator, last datum exchanged between two values the last child treats alike -/
theorem childrenEvents_last (ctx : Ctx) (v5 : Bool) (sep : Char) (sid : Str) (v02 : Option Str) (x : ElemX)
    (v₁ v₂ : Str) (hs : sid ≠ sDTP) (hx : x.dataEle ≠ some s1251)
    (hv : elemEvents ctx v5 x.d.seq none x [] (.simple v₁) = elemEvents ctx v5 x.d.seq none x [] (.simple v₂)) :
    ∀ (pre : List ChildX) (E : List (List Str)) (i : Nat) (dt tl : List Str), pre.length = E.length →
      childrenEvents ctx v5 sep sid v02 i dt tl (pre ++ [.elem x]) (E ++ [[v₁]]) =
        childrenEvents ctx v5 sep sid v02 i dt tl (pre ++ [.elem x]) (E ++ [[v₂]]) := by
  intro pre
  induction pre with
  | nil =>
    intro E i dt tl hl
    cases E with
    | cons e r => cases hl
    | nil =>
      simp only [List.nil_append, childrenEvents, childPresent, elemAt, elemIn, pickTl_isa sid i x _ _ hs hx, hv]
  | cons c cs ih =>
    intro E i dt tl hl
    cases E with
    | nil => cases hl
    | cons e r =>
      simp only [List.cons_append, childrenEvents]
      rw [ih r _ _ _ (by simpa using hl)]

theorem formatComps_singles (sep : Char) : ∀ (es : List (List Str)), (∀ e ∈ es, e.length = 1) →
    ∃ vals, SegText.formatComps sep es = some vals ∧ vals.length = es.length := by
  intro es
  induction es with
  | nil => intro _; exact ⟨[], rfl, rfl⟩
  | cons e r ih =>
    intro h
    obtain ⟨vals, hv, hl⟩ := ih (fun x hx => h x (List.mem_cons_of_mem _ hx))
    have he := h e (by simp)
    match e, he with
    | [v], _ =>
      have : SegText.formatComp sep [v] = some v := by
        rw [SegText.formatComp_eq sep [v] (by simp), SegText.normComp_single]
        rfl
      exact ⟨v :: vals, by simp only [SegText.formatComps, this, hv, SegText.both], by simp [hl]⟩

theorem formatComps_append_single (sep : Char) (E : List (List Str)) (v : Str) (vals : List Str)
    (h : SegText.formatComps sep E = some vals) : SegText.formatComps sep (E ++ [[v]]) = some (vals ++ [v]) := by
  induction E generalizing vals with
  | nil =>
    simp only [SegText.formatComps, Option.some.injEq] at h
    subst h
    have : SegText.formatComp sep [v] = some v := by
      rw [SegText.formatComp_eq sep [v] (by simp), SegText.normComp_single]
      rfl
    simp only [List.nil_append, SegText.formatComps, this, SegText.both]
  | cons e r ih =>
    simp only [SegText.formatComps] at h
    cases he : SegText.formatComp sep e with
    | none => rw [he] at h; cases h
    | some w =>
      cases hr : SegText.formatComps sep r with
      | none => rw [he, hr] at h; cases h
      | some ws =>
        rw [he, hr] at h
        simp only [SegText.both, Option.some.injEq] at h
        subst h
        simp only [List.cons_append, SegText.formatComps, he, ih ws hr, SegText.both]

/-- `segment_if.is_valid` on the ISA segment does not notice which admitted character ISA16 holds, nor how the segment
    was delimited -/
theorem segEvents_isa16 (ctx : Ctx) (v5 : Bool) (d₁ d₂ : Delims) (sd : SegDef) {s : Seg} {c : Char} (h : IsaWith s c)
    (c' : Char) (h1 : Isa16Admits ctx v5 sd c) (h2 : Isa16Admits ctx v5 sd c') :
    segEvents ctx v5 d₁ sd s = segEvents ctx v5 d₂ sd (withIsa16 s c') := by
  obtain ⟨pre, x, hch, hpl, hx, hv1⟩ := h1
  obtain ⟨pre', x', hch', _, _, hv2⟩ := h2
  have hsame : pre = pre' ∧ x = x' := by
    rw [hch] at hch'
    have := List.append_inj' hch' rfl
    have h3 : ChildX.elem x = ChildX.elem x' := by simpa using this.2
    injection h3 with h3
    exact ⟨this.1, h3⟩
  obtain ⟨rfl, rfl⟩ := hsame
  have hid : (withIsa16 s c').id = s.id := rfl
  have hnd : s.id ≠ sDTP := by rw [h.id]; decide
  have hE : ∀ e ∈ s.elems.take 15, e.length = 1 := fun e he => h.single e (List.mem_of_mem_take he)
  have hlenE : pre.length = (s.elems.take 15).length := by rw [List.length_take, h.len, hpl]; rfl
  -- too many elements: no
  have htm₁ : tooManyEvents d₁ sd s = .ok true [] := by
    unfold tooManyEvents
    have : ¬ s.elems.length > sd.children.length := by rw [h.len, hch]; simp [hpl]
    simp only [this, if_false]
  have htm₂ : tooManyEvents d₂ sd (withIsa16 s c') = .ok true [] := by
    unfold tooManyEvents
    have : ¬ (withIsa16 s c').elems.length > sd.children.length := by
      rw [(withIsa16_isaWith h c').len, hch]; simp [hpl]
    simp only [this, if_false]
  -- the children
  have hchildren : childrenEvents ctx v5 (Pipeline.sepOf d₁ s.id) s.id (gv d₁ s 1) 0 [] [] sd.children s.elems =
      childrenEvents ctx v5 (Pipeline.sepOf d₂ s.id) s.id (gv d₂ (withIsa16 s c') 1) 0 [] [] sd.children
        (withIsa16 s c').elems := by
    rw [← gv_isa16 d₁ d₂ h c' 1 (by decide), hch, isaWith_split h, withIsa16_split h c']
    rw [childrenEvents_congr ctx v5 (Pipeline.sepOf d₁ s.id) (Pipeline.sepOf d₂ s.id) s.id (gv d₁ s 1) _ 0 [] []
      (s.elems.take 15 ++ [[[c]]])]
    · exact childrenEvents_last ctx v5 _ s.id _ x [c] [c'] hnd hx (by rw [hv1, hv2]) pre _ 0 [] [] hlenE
    · intro e he
      apply formatComp_single
      rcases List.mem_append.1 he with he | he
      · exact hE e he
      · simp only [List.mem_singleton] at he; subst he; rfl
  -- the notes
  have hnotes : notesOn sd s.id (SegText.formatComps (Pipeline.sepOf d₁ s.id) s.elems) =
      notesOn sd s.id (SegText.formatComps (Pipeline.sepOf d₂ s.id) (withIsa16 s c').elems) := by
    obtain ⟨vals, hvals, _⟩ := formatComps_singles (Pipeline.sepOf d₁ s.id) (s.elems.take 15) hE
    have hvals₂ : SegText.formatComps (Pipeline.sepOf d₂ s.id) (s.elems.take 15) = some vals := by
      rw [← formatComps_congr (Pipeline.sepOf d₁ s.id) (Pipeline.sepOf d₂ s.id) _
        (fun e he => formatComp_single _ _ e (hE e he))]
      exact hvals
    rw [isaWith_split h, withIsa16_split h c', formatComps_append_single _ _ [c] vals hvals,
      formatComps_append_single _ _ [c'] vals hvals₂]
    simp only [notesOn]
    exact notesEvents_shape sd s.id (Syn.Shape.append (Syn.Shape.refl vals) (.cons (x := [c]) (y := [c']) rfl .nil)) sd.notes
  simp only [segEvents, hid, htm₁, htm₂, hchildren, hnotes]

/-- **the ISA round**: the same step for the ISA written with `d₁` and the ISA with another admitted ISA16 written with `d₂` -/
theorem stepSeg_isa16 (ms : Maps) (ctx : Ctx) (control : MapX) (d₁ d₂ : Delims) (le : List SegText.RErr)
    {s : Seg} {c : Char} (h : IsaWith s c) (c' : Char) (st : LState)
    (hadm : ∀ n sd, fetchIn ms control (isaPath ms) = some n → lookupDef n.map n.ip = some sd →
      Isa16Admits ctx n.map.v5010 sd c ∧ Isa16Admits ctx n.map.v5010 sd c') :
    stepSeg ms ctx control d₁ le s st = stepSeg ms ctx control d₂ le (withIsa16 s c') st := by
  have hid : (withIsa16 s c').id = s.id := rfl
  have hi : s.id = Envelope.idISA := h.id
  have hg : ∀ k, k ≠ 15 → gv d₁ s k = gv d₂ (withIsa16 s c') k := fun k hk => gv_isa16 d₁ d₂ h c' k hk
  have hb : baseErrs (withIsa16 s c') = baseErrs s := (baseErrs_isa16 h c').symm
  simp only [stepSeg, ← viewOf_isa16 d₁ d₂ h c']
  cases Pipeline.viewOf d₁ s with
  | none => rfl
  | some v =>
    simp only [withView, hb]
    cases Envelope.step Envelope.Fixes.all st.rs v with
    | crash e => rfl
    | raised => rfl
    | ok r =>
      simp only [afterReader, afterStep, findNode, hid, hi, if_true]
      cases hf : fetchIn ms control (isaPath ms) with
      | none => simp only [afterFind, hid]
      | some n =>
        simp only [afterFind, branch, hid, hi, if_true, isaData, ← hg 4 (by decide), ← hg 5 (by decide),
          ← hg 6 (by decide), ← hg 7 (by decide), ← hg 8 (by decide), ← hg 9 (by decide), ← hg 10 (by decide),
          ← hg 11 (by decide), ← hg 12 (by decide), ← hg 13 (by decide), ← hg 14 (by decide), validate]
        cases hl : lookupDef n.map n.ip with
        | none => rfl
        | some sd =>
          obtain ⟨a1, a2⟩ := hadm n sd hf hl
          simp only [← segEvents_isa16 ctx n.map.v5010 d₁ d₂ sd h c' a1 a2, hid]

end Pyx12Verif.Doc
