/- helper lemmas for C17: split / join, digit printing (core Lean only) -/
import Pyx12Verif.Model.Path

namespace Pyx12Verif.Path

/-! ### split / join -/

theorem splitOn_ne_nil (sep : Char) (s : List Char) : splitOn sep s ≠ [] := by
  induction s with
  | nil => simp [splitOn]
  | cons c r ih =>
    simp only [splitOn]; split
    · simp
    · cases h : splitOn sep r with
      | nil => exact absurd h ih
      | cons a b => simp [consHead]

theorem consHead_append (c : Char) (a b : List (List Char)) (h : a ≠ []) :
    consHead c (a ++ b) = consHead c a ++ b := by
  cases a with
  | nil => exact absurd rfl h
  | cons x t => simp [consHead]

theorem splitOn_no_sep (sep : Char) (s : List Char) (h : sep ∉ s) : splitOn sep s = [s] := by
  induction s with
  | nil => simp [splitOn]
  | cons c r ih =>
    have hc : c ≠ sep := by intro e; apply h; simp [e]
    have hr : sep ∉ r := by intro e; apply h; simp [e]
    simp [splitOn, hc, ih hr, consHead]

theorem splitOn_append_sep (sep : Char) (a b : List Char) :
    splitOn sep (a ++ sep :: b) = splitOn sep a ++ splitOn sep b := by
  induction a with
  | nil => simp [splitOn]
  | cons c r ih =>
    simp only [List.cons_append, splitOn]; split
    · simp [ih]
    · rw [ih, consHead_append _ _ _ (splitOn_ne_nil sep r)]

theorem joinWith_cons_cons (sep : Char) (x y : List Char) (r : List (List Char)) :
    joinWith sep (x :: y :: r) = x ++ sep :: joinWith sep (y :: r) := rfl

theorem joinWith_cons (sep : Char) (x : List Char) (r : List (List Char)) (h : r ≠ []) :
    joinWith sep (x :: r) = x ++ sep :: joinWith sep r := by
  cases r with
  | nil => exact absurd rfl h
  | cons y t => rfl

theorem splitOn_join (sep : Char) (parts : List (List Char)) (hne : parts ≠ [])
    (h : ∀ p ∈ parts, sep ∉ p) : splitOn sep (joinWith sep parts) = parts := by
  induction parts with
  | nil => exact absurd rfl hne
  | cons x r ih =>
    cases r with
    | nil => simpa [joinWith] using splitOn_no_sep sep x (h x (by simp))
    | cons y t =>
      rw [joinWith_cons_cons, splitOn_append_sep, splitOn_no_sep sep x (h x (by simp)),
        ih (by simp) (fun p hp => h p (by simp [hp]))]
      rfl

theorem joinWith_snoc (sep : Char) (parts : List (List Char)) (x : List Char) (hne : parts ≠ []) :
    joinWith sep (parts ++ [x]) = joinWith sep parts ++ sep :: x := by
  induction parts with
  | nil => exact absurd rfl hne
  | cons a r ih =>
    cases r with
    | nil => simp [joinWith]
    | cons b t =>
      have := ih (by simp)
      simp only [List.cons_append] at this ⊢
      rw [joinWith_cons_cons, this, joinWith_cons_cons]; simp

theorem joinWith_no_sep (sep : Char) (c : Char) (parts : List (List Char))
    (h : ∀ p ∈ parts, c ∉ p) (hc : c ≠ sep) : c ∉ joinWith sep parts := by
  induction parts with
  | nil => simp [joinWith]
  | cons x r ih =>
    cases r with
    | nil => simpa [joinWith] using h x (by simp)
    | cons y t =>
      rw [joinWith_cons_cons]
      have h1 := h x (by simp)
      have h2 := ih (fun p hp => h p (by simp [hp]))
      simp only [List.mem_append, List.mem_cons, not_or]
      exact ⟨h1, hc, h2⟩

/-- the first character of a join is the first character of the first part -/
theorem joinWith_head (sep : Char) (x : List Char) (r : List (List Char)) (c : Char) (t : List Char)
    (hx : x = c :: t) : ∃ t', joinWith sep (x :: r) = c :: t' := by
  cases r with
  | nil => exact ⟨t, by simp [joinWith, hx]⟩
  | cons y s => exact ⟨t ++ sep :: joinWith sep (y :: s), by rw [joinWith_cons_cons, hx]; rfl⟩

/-! ### decimal printing -/

theorem digitVal_digitChar (n : Nat) (h : n < 10) : digitVal (digitChar n) = n := by
  have : n = 0 ∨ n = 1 ∨ n = 2 ∨ n = 3 ∨ n = 4 ∨ n = 5 ∨ n = 6 ∨ n = 7 ∨ n = 8 ∨ n = 9 := by omega
  rcases this with h | h | h | h | h | h | h | h | h | h <;> subst h <;> decide

theorem isDigit_digitChar (n : Nat) (h : n < 10) : isDigit (digitChar n) = true := by
  have : n = 0 ∨ n = 1 ∨ n = 2 ∨ n = 3 ∨ n = 4 ∨ n = 5 ∨ n = 6 ∨ n = 7 ∨ n = 8 ∨ n = 9 := by omega
  rcases this with h | h | h | h | h | h | h | h | h | h <;> subst h <;> decide

def numFrom (a : Nat) (s : List Char) : Nat := s.foldl (fun a c => a * 10 + digitVal c) a

theorem num_eq (s : List Char) : num s = numFrom 0 s := rfl

theorem numFrom_digitsAux (fuel n : Nat) (acc : List Char) (h : n < fuel) :
    numFrom 0 (digitsAux fuel n acc) = numFrom n acc := by
  induction fuel generalizing n acc with
  | zero => omega
  | succ f ih =>
    simp only [digitsAux]; split
    · rename_i h10; simp [numFrom, digitVal_digitChar n h10]
    · rename_i h10
      rw [ih (n / 10) _ (by omega)]
      simp only [numFrom, List.foldl_cons]
      rw [digitVal_digitChar _ (Nat.mod_lt _ (by omega))]
      congr 1; omega

theorem num_natDigits (n : Nat) : num (natDigits n) = n := by
  rw [num_eq, natDigits, numFrom_digitsAux _ _ _ (by omega)]; rfl

theorem digitsAux_allDigits (fuel n : Nat) (acc : List Char) (h : ∀ c ∈ acc, isDigit c = true) :
    ∀ c ∈ digitsAux fuel n acc, isDigit c = true := by
  induction fuel generalizing n acc with
  | zero => simpa [digitsAux] using h
  | succ f ih =>
    simp only [digitsAux]; split
    · rename_i h10
      intro c hc; simp only [List.mem_cons] at hc
      rcases hc with rfl | hc
      · exact isDigit_digitChar n h10
      · exact h c hc
    · apply ih
      intro c hc; simp only [List.mem_cons] at hc
      rcases hc with rfl | hc
      · exact isDigit_digitChar _ (Nat.mod_lt _ (by omega))
      · exact h c hc

theorem natDigits_allDigits (n : Nat) : ∀ c ∈ natDigits n, isDigit c = true :=
  digitsAux_allDigits _ _ _ (by simp)

theorem natDigits_small (n : Nat) (h : n < 10) : natDigits n = [digitChar n] := by
  simp [natDigits, digitsAux, h]

theorem natDigits_two (n : Nat) (h10 : ¬ n < 10) (h : n < 100) :
    natDigits n = [digitChar (n / 10), digitChar (n % 10)] := by
  obtain ⟨k, rfl⟩ : ∃ k, n = k + 1 := ⟨n - 1, by omega⟩
  have : (k + 1) / 10 < 10 := by omega
  simp [natDigits, digitsAux, h10, this]

theorem natDigits_ne_nil (n : Nat) : natDigits n ≠ [] := by
  unfold natDigits; simp only [digitsAux]; split
  · simp
  · intro h
    have aux : ∀ (fu m : Nat) (a : List Char), a.length ≤ (digitsAux fu m a).length := by
      intro fu; induction fu with
      | zero => intro m a; simp [digitsAux]
      | succ k ihk =>
        intro m a; simp only [digitsAux]; split
        · simp
        · exact Nat.le_trans (by simp) (ihk _ _)
    have := aux n (n / 10) [digitChar (n % 10)]
    rw [h] at this; simp at this

/-- `'%02i'` of 0..99 is two digits whose value is the number -/
theorem pad2_two (e : Nat) (h : e ≤ 99) :
    ∃ d1 d2, pad2 e = [d1, d2] ∧ isDigit d1 = true ∧ isDigit d2 = true ∧ num [d1, d2] = e := by
  unfold pad2; split
  · rename_i h10
    refine ⟨'0', digitChar e, by rw [natDigits_small e h10], by decide, isDigit_digitChar e h10, ?_⟩
    have hz : digitVal '0' = 0 := by decide
    simp only [num, List.foldl_cons, List.foldl_nil, digitVal_digitChar e h10, hz]
    omega
  · rename_i h10
    have h1 : e / 10 < 10 := by omega
    have h2 : e % 10 < 10 := Nat.mod_lt _ (by omega)
    refine ⟨digitChar (e / 10), digitChar (e % 10), natDigits_two e h10 (by omega),
      isDigit_digitChar _ h1, isDigit_digitChar _ h2, ?_⟩
    simp only [num, List.foldl_cons, List.foldl_nil, digitVal_digitChar _ h1, digitVal_digitChar _ h2]
    omega

/-! ### spans -/

theorem spanP_append (p : Char → Bool) (d rest : List Char) (hd : ∀ c ∈ d, p c = true)
    (hr : ∀ c r', rest = c :: r' → p c = false) : spanP p (d ++ rest) = (d, rest) := by
  induction d with
  | nil =>
    cases rest with
    | nil => simp [spanP]
    | cons c r' => simp [spanP, hr c r' rfl]
  | cons c cs ih =>
    have hc : p c = true := hd c (by simp)
    have := ih (fun x hx => hd x (by simp [hx]))
    simp [spanP, hc, this]

end Pyx12Verif.Path
