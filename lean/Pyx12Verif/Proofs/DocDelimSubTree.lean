/-
C12 at pipeline level, DIFFERENT component separators — the error tree is PARAMETRIC in the reported values.

`err_handler` stores the strings it is handed (envelope fields, reported values, message texts) and never looks inside
them.  So for ANY two functions `f` (values) and `g` (message texts): running the handler on renamed events from a renamed
state is renaming the result (`run_ren`) — same crash site, same pointers, same tree shape — and the error count that the
verdict reads is not changed by the renaming (`errorCount_ren`).
-/
import Pyx12Verif.Model.ErrTree

namespace Pyx12Verif.ErrTree

/-! ### renaming the stored strings -/

def EleErr.ren (f g : Str → Str) (x : EleErr) : EleErr := { code := x.code, msg := g x.msg, value := x.value.map f }

def Ele.ren (f g : Str → Str) (e : Ele) : Ele :=
  { pos := e.pos, subpos := e.subpos, refNum := e.refNum, errors := e.errors.map (EleErr.ren f g) }

def SegErr.ren (f : Str → Str) (x : SegErr) : SegErr := { code := x.code, value := x.value.map f }

def Seg.ren (f g : Str → Str) (s : Seg) : Seg :=
  { segId := s.segId, segCount := s.segCount, lsId := s.lsId, errors := s.errors.map (SegErr.ren f),
    elements := s.elements.map (Ele.ren f g) }

def St.ren (f g : Str → Str) (s : St) : St :=
  { trnSetId := s.trnSetId.map f, ctlNum := s.ctlNum.map f, vriic := s.vriic.map f, ackCode := s.ackCode,
    closed := s.closed, errors := s.errors, elements := s.elements.map (Ele.ren f g),
    children := s.children.map (Seg.ren f g) }

def Gs.ren (f g : Str → Str) (x : Gs) : Gs :=
  { fic := x.fic.map f, gs02 := x.gs02.map f, gs03 := x.gs03.map f, gs06 := x.gs06.map f, gs07 := x.gs07.map f,
    vriic := x.vriic.map f, ctlNum := x.ctlNum.map f, ackCode := x.ackCode, countOrig := x.countOrig,
    countRecv := x.countRecv, closed := x.closed, errors := x.errors, elements := x.elements.map (Ele.ren f g),
    children := x.children.map (St.ren f g) }

def Isa.ren (f g : Str → Str) (a : Isa) : Isa :=
  { e05 := a.e05.map f, e06 := a.e06.map f, e07 := a.e07.map f, e08 := a.e08.map f, origDate := a.origDate.map f,
    origTime := a.origTime.map f, e11 := a.e11.map f, e12 := a.e12.map f, trnSetId := a.trnSetId.map f,
    ta1Req := a.ta1Req.map f, e15 := a.e15.map f, closed := a.closed, errors := a.errors,
    elements := a.elements.map (Ele.ren f g), children := a.children.map (Gs.ren f g) }

def renTree (f g : Str → Str) (t : Tree) : Tree := t.map (Isa.ren f g)

def SegPtr.ren (f g : Str → Str) : SegPtr → SegPtr
  | .none => .none
  | .host h => .host h
  | .pending s => .pending (s.ren f g)

def ElePtr.ren (f g : Str → Str) : ElePtr → ElePtr
  | .none => .none
  | .pending e => .pending (e.ren f g)
  | .linked h => .linked h

def State.ren (f g : Str → Str) (s : State) : State :=
  { tree := renTree f g s.tree, curIsa := s.curIsa, curGs := s.curGs, curSt := s.curSt, curSeg := s.curSeg.ren f g,
    curEle := s.curEle.ren f g, lost := s.lost }

def IsaData.ren (f : Str → Str) (d : IsaData) : IsaData :=
  { e05 := d.e05.map f, e06 := d.e06.map f, e07 := d.e07.map f, e08 := d.e08.map f, e09 := d.e09.map f,
    e10 := d.e10.map f, e11 := d.e11.map f, e12 := d.e12.map f, e13 := d.e13.map f, e14 := d.e14.map f,
    e15 := d.e15.map f }

def GsData.ren (f : Str → Str) (d : GsData) : GsData :=
  { e01 := d.e01.map f, e02 := d.e02.map f, e03 := d.e03.map f, e06 := d.e06.map f, e07 := d.e07.map f,
    e08 := d.e08.map f, ctl := d.ctl.map f }

def StData.ren (f : Str → Str) (d : StData) : StData := { e01 := d.e01.map f, e03 := d.e03.map f, ctl := d.ctl.map f }

/-- an event with every data string renamed by `f` and every message text by `g`; codes, positions, data-element
    numbers, segment identifiers and counts stay -/
def Event.ren (f g : Str → Str) : Event → Event
  | .addIsa d => .addIsa (d.ren f)
  | .addGs d => .addGs (d.ren f)
  | .addSt d => .addSt (d.ren f)
  | .segError c v => .segError c (v.map f)
  | .eleError c m v => .eleError c (g m) (v.map f)
  | .addSeg a b c => .addSeg a b c
  | .addEle a b c => .addEle a b c
  | .isaError c => .isaError c
  | .gsError c => .gsError c
  | .stError c => .stError c
  | .closeSt => .closeSt
  | .closeGs ge r => .closeGs ge r
  | .closeIsa => .closeIsa

def Res.map {α β : Type} (h : α → β) : Res α → Res β
  | .ok a => .ok (h a)
  | .crash s => .crash s

/-! ### list helpers -/

theorem modNth_map {α β : Type} (h : α → β) (F : α → α) (F' : β → β) (hc : ∀ x, F' (h x) = h (F x)) :
    ∀ (l : List α) (n : Nat), modNth F' (l.map h) n = (modNth F l n).map h := by
  intro l
  induction l with
  | nil => intro n; rfl
  | cons x xs ih =>
    intro n
    cases n with
    | zero => simp [modNth, hc]
    | succ k => simp [modNth, ih]

theorem modLast_map {α β : Type} (h : α → β) (F : α → α) (F' : β → β) (hc : ∀ x, F' (h x) = h (F x)) :
    ∀ (l : List α), modLast F' (l.map h) = (modLast F l).map h := by
  intro l
  induction l with
  | nil => rfl
  | cons x xs ih =>
    cases xs with
    | nil => simp [modLast, hc]
    | cons y r =>
      simp only [List.map_cons, modLast] at ih ⊢
      rw [ih]

section
variable (f g : Str → Str)

/-! ### counting does not look at the strings -/

theorem Ele.errCount_ren (e : Ele) : (e.ren f g).errCount = e.errCount := by simp [Ele.errCount, Ele.ren]

theorem eleChildErrCount_ren (l : List Ele) : eleChildErrCount (l.map (Ele.ren f g)) = eleChildErrCount l := by
  induction l with
  | nil => rfl
  | cons e r ih => simp only [List.map_cons, eleChildErrCount, Ele.errCount_ren, ih]

theorem sumEleErrors_ren (l : List Ele) : sumEleErrors (l.map (Ele.ren f g)) = sumEleErrors l := by
  induction l with
  | nil => rfl
  | cons e r ih => simp only [List.map_cons, sumEleErrors, Ele.errCount_ren, ih]

theorem Seg.errCount_ren (s : Seg) : (s.ren f g).errCount = s.errCount := by
  simp [Seg.errCount, Seg.childErrCount, Seg.ren, eleChildErrCount_ren]

theorem segChildErrCount_ren (l : List Seg) : segChildErrCount (l.map (Seg.ren f g)) = segChildErrCount l := by
  induction l with
  | nil => rfl
  | cons e r ih => simp only [List.map_cons, segChildErrCount, Seg.errCount_ren, ih]

theorem St.errCount_ren (s : St) : (s.ren f g).errCount = s.errCount := by
  simp [St.errCount, St.childErrCount, St.ren, segChildErrCount_ren]

theorem sumStErrors_ren (l : List St) : sumStErrors (l.map (St.ren f g)) = sumStErrors l := by
  induction l with
  | nil => rfl
  | cons e r ih => simp only [List.map_cons, sumStErrors, St.errCount_ren, ih]

theorem Gs.errorCount_ren (x : Gs) : (x.ren f g).errorCount = x.errorCount := by
  simp [Gs.errorCount, Gs.ren, sumEleErrors_ren, sumStErrors_ren]

theorem sumGsErrors_ren (l : List Gs) : sumGsErrors (l.map (Gs.ren f g)) = sumGsErrors l := by
  induction l with
  | nil => rfl
  | cons e r ih => simp only [List.map_cons, sumGsErrors, Gs.errorCount_ren, ih]

theorem Isa.errorCount_ren (a : Isa) : (a.ren f g).errorCount = a.errorCount := by
  simp [Isa.errorCount, Isa.ren, sumEleErrors_ren, sumGsErrors_ren]

/-- **the error count the verdict reads is that of the renamed tree** -/
theorem errorCount_ren (t : Tree) : errorCount (renTree f g t) = errorCount t := by
  induction t with
  | nil => rfl
  | cons a r ih =>
    simp only [renTree, List.map_cons, errorCount, Isa.errorCount_ren] at ih ⊢
    rw [ih]

theorem verdict_ren (valid : Bool) (t : Tree) : verdict valid (renTree f g t) = verdict valid t := by
  simp only [verdict, errorCount_ren]

theorem anyStHasErrors_ren (l : List St) : anyStHasErrors (l.map (St.ren f g)) = anyStHasErrors l := by
  induction l with
  | nil => rfl
  | cons e r ih => simp only [List.map_cons, anyStHasErrors, St.errCount_ren, ih]

theorem Gs.getAckCode_ren (x : Gs) : (x.ren f g).getAckCode = x.getAckCode := by
  simp [Gs.getAckCode, Gs.ren, anyStHasErrors_ren]

theorem St.close_ren (s : St) : (s.ren f g).close = (s.close).ren f g := by
  simp only [St.close, St.errCount_ren]
  rfl

theorem Gs.closeWith_ren (x : Gs) (o : Int) (r : Nat) : (x.ren f g).closeWith o r = (x.closeWith o r).ren f g := by
  simp only [Gs.closeWith, Gs.getAckCode_ren]
  rfl

/-! ### tree access -/

theorem renTree_get (t : Tree) (i : Nat) : (renTree f g t)[i]? = (t[i]?).map (Isa.ren f g) := by
  simp [renTree]

theorem getGs_ren (t : Tree) (i k : Nat) : getGs (renTree f g t) i k = (getGs t i k).map (Gs.ren f g) := by
  simp only [getGs, renTree_get]
  cases t[i]? with
  | none => rfl
  | some a => simp [Isa.ren]

theorem getSt_ren (t : Tree) (i k s : Nat) : getSt (renTree f g t) i k s = (getSt t i k s).map (St.ren f g) := by
  simp only [getSt, getGs_ren]
  cases getGs t i k with
  | none => rfl
  | some a => simp [Gs.ren]

theorem gsChildCount_ren (t : Tree) (i : Nat) : gsChildCount (renTree f g t) i = gsChildCount t i := by
  simp only [gsChildCount, renTree_get]
  cases t[i]? with
  | none => rfl
  | some a => simp [Isa.ren]

theorem stChildCountGs_ren (t : Tree) (p : Nat × Nat) : stChildCountGs (renTree f g t) p = stChildCountGs t p := by
  simp only [stChildCountGs, getGs_ren]
  cases getGs t p.1 p.2 with
  | none => rfl
  | some a => simp [Gs.ren]

theorem stChildCount_ren (t : Tree) (p : Nat × Nat × Nat) : stChildCount (renTree f g t) p = stChildCount t p := by
  simp only [stChildCount, getSt_ren]
  cases getSt t p.1 p.2.1 p.2.2 with
  | none => rfl
  | some a => simp [St.ren]

theorem modIsa_ren (t : Tree) (i : Nat) (F F' : Isa → Isa) (hc : ∀ a, F' (a.ren f g) = (F a).ren f g) :
    modIsa (renTree f g t) i F' = renTree f g (modIsa t i F) :=
  modNth_map (Isa.ren f g) F F' hc t i

theorem modGs_ren (t : Tree) (i k : Nat) (F F' : Gs → Gs) (hc : ∀ a, F' (a.ren f g) = (F a).ren f g) :
    modGs (renTree f g t) i k F' = renTree f g (modGs t i k F) := by
  apply modIsa_ren
  intro a
  simp only [Isa.ren]
  rw [modNth_map (Gs.ren f g) F F' hc]

theorem modSt_ren (t : Tree) (i k s : Nat) (F F' : St → St) (hc : ∀ a, F' (a.ren f g) = (F a).ren f g) :
    modSt (renTree f g t) i k s F' = renTree f g (modSt t i k s F) := by
  apply modGs_ren
  intro a
  simp only [Gs.ren]
  rw [modNth_map (St.ren f g) F F' hc]

theorem modSeg_ren (t : Tree) (i k s n : Nat) (F F' : Seg → Seg) (hc : ∀ a, F' (a.ren f g) = (F a).ren f g) :
    modSeg (renTree f g t) i k s n F' = renTree f g (modSeg t i k s n F) := by
  apply modSt_ren
  intro a
  simp only [St.ren]
  rw [modNth_map (Seg.ren f g) F F' hc]

theorem appendEle_ren (t : Tree) (h : Host) (e : Ele) :
    appendEle (renTree f g t) h (e.ren f g) = renTree f g (appendEle t h e) := by
  cases h with
  | isa i => exact modIsa_ren f g t i _ _ (by intro a; simp [Isa.ren])
  | gs i k => exact modGs_ren f g t i k _ _ (by intro a; simp [Gs.ren])
  | st i k s => exact modSt_ren f g t i k s _ _ (by intro a; simp [St.ren])
  | seg i k s n => exact modSeg_ren f g t i k s n _ _ (by intro a; simp [Seg.ren])

theorem Ele.addError_ren (e : Ele) (x : EleErr) : (e.ren f g).addError (x.ren f g) = (e.addError x).ren f g := by
  simp [Ele.addError, Ele.ren]

theorem addErrLastEle_ren (t : Tree) (h : Host) (x : EleErr) :
    addErrLastEle (renTree f g t) h (x.ren f g) = renTree f g (addErrLastEle t h x) := by
  have hl : ∀ l : List Ele, modLast (fun e => e.addError (x.ren f g)) (l.map (Ele.ren f g)) =
      (modLast (fun e => e.addError x) l).map (Ele.ren f g) :=
    modLast_map (Ele.ren f g) _ _ (fun e => Ele.addError_ren f g e x)
  cases h with
  | isa i => exact modIsa_ren f g t i _ _ (by intro a; simp [Isa.ren, hl])
  | gs i k => exact modGs_ren f g t i k _ _ (by intro a; simp [Gs.ren, hl])
  | st i k s => exact modSt_ren f g t i k s _ _ (by intro a; simp [St.ren, hl])
  | seg i k s n => exact modSeg_ren f g t i k s n _ _ (by intro a; simp [Seg.ren, hl])

/-! ### the methods -/

theorem addCurSeg_ren (s : State) : addCurSeg (s.ren f g) = (addCurSeg s).map (State.ren f g) := by
  unfold addCurSeg
  cases hs : s.curSeg with
  | none => simp [State.ren, hs, SegPtr.ren]
  | host h => simp [State.ren, hs, SegPtr.ren]
  | pending sg =>
    cases hp : s.curSt with
    | none => simp [State.ren, hs, SegPtr.ren, hp]
    | some p =>
      simp only [State.ren, hs, SegPtr.ren, hp, Option.map_some, stChildCount_ren]
      rw [modSt_ren f g s.tree p.1 p.2.1 p.2.2 (fun x => { x with children := x.children ++ [sg] })]
      intro a
      simp [St.ren]

theorem segAddError_ren (s : State) (x : SegErr) :
    segAddError (s.ren f g) (x.ren f) = (segAddError s x).map (State.ren f g) := by
  unfold segAddError
  cases hs : s.curSeg with
  | none => simp [State.ren, hs, SegPtr.ren]
  | pending sg => simp [State.ren, hs, SegPtr.ren]
  | host h =>
    cases h with
    | isa i => simp [State.ren, hs, SegPtr.ren]
    | gs i k => simp [State.ren, hs, SegPtr.ren]
    | st i k n => simp [State.ren, hs, SegPtr.ren]
    | seg i k n m =>
      simp only [State.ren, hs, SegPtr.ren, Option.map_some]
      rw [modSeg_ren f g s.tree i k n m (fun a => { a with errors := a.errors ++ [x] })]
      intro a
      simp [Seg.ren]

theorem segError_ren (s : State) (c : Str) (v : Option Str) :
    segError (s.ren f g) c (v.map f) = (segError s c v).ren f g := by
  unfold segError
  rw [addCurSeg_ren]
  cases addCurSeg s with
  | none => simp [State.ren]
  | some s1 =>
    simp only [Option.map_some]
    have := segAddError_ren f g s1 { code := c, value := v }
    simp only [SegErr.ren] at this
    rw [this]
    cases segAddError s1 { code := c, value := v } with
    | none => simp [State.ren]
    | some s2 => rfl

theorem eleErrorLinked_ren (s : State) (x : EleErr) :
    eleErrorLinked (s.ren f g) (x.ren f g) = (eleErrorLinked s x).map (State.ren f g) := by
  unfold eleErrorLinked
  cases he : s.curEle with
  | none => simp [State.ren, he, ElePtr.ren, Res.map]
  | linked h =>
    cases hs : s.curSeg with
    | none => simp [State.ren, he, hs, ElePtr.ren, SegPtr.ren, Res.map]
    | host h2 => simp [State.ren, he, hs, ElePtr.ren, SegPtr.ren, Res.map, addErrLastEle_ren]
    | pending sg => simp [State.ren, he, hs, ElePtr.ren, SegPtr.ren, Res.map, addErrLastEle_ren]
  | pending e =>
    cases hs : s.curSeg with
    | none => simp [State.ren, he, hs, ElePtr.ren, SegPtr.ren, Res.map]
    | host h2 =>
      simp only [State.ren, he, hs, ElePtr.ren, SegPtr.ren, Res.map, Ele.addError_ren, appendEle_ren]
    | pending sg => simp [State.ren, he, hs, ElePtr.ren, SegPtr.ren, Res.map]

theorem eleError_ren (s : State) (c m : Str) (v : Option Str) :
    eleError (s.ren f g) c (g m) (v.map f) = (eleError s c m v).map (State.ren f g) := by
  unfold eleError
  rw [addCurSeg_ren]
  cases addCurSeg s with
  | none => rfl
  | some s1 => exact eleErrorLinked_ren f g s1 { code := c, msg := m, value := v }

/-- **one call of the handler commutes with the renaming** -/
theorem step_ren (s : State) (e : Event) : step (s.ren f g) (e.ren f g) = (step s e).map (State.ren f g) := by
  cases e with
  | addIsa d =>
    simp only [step, Event.ren, Res.map, addIsaLoop, State.ren, renTree, List.length_map, SegPtr.ren, List.map_append,
      List.map_cons, List.map_nil]
    rfl
  | addGs d =>
    simp only [step, Event.ren, addGsLoop]
    cases hi : s.curIsa with
    | none => simp [State.ren, hi, Res.map]
    | some i =>
      simp only [State.ren, hi, Res.map, gsChildCount_ren, SegPtr.ren]
      rw [modIsa_ren f g s.tree i (fun a => { a with children := a.children ++ [mkGs d] })]
      intro a
      simp [Isa.ren, mkGs, Gs.ren, GsData.ren]
  | addSt d =>
    simp only [step, Event.ren, addStLoop]
    cases hi : s.curGs with
    | none => simp [State.ren, hi, Res.map]
    | some p =>
      simp only [State.ren, hi, Res.map, stChildCountGs_ren, SegPtr.ren]
      rw [modGs_ren f g s.tree p.1 p.2 (fun a => { a with children := a.children ++ [mkSt d] })]
      intro a
      simp [Gs.ren, mkSt, St.ren, StData.ren]
  | addSeg a b c => simp [step, Event.ren, Res.map, addSeg, State.ren, SegPtr.ren, Seg.ren]
  | addEle a b c =>
    simp only [step, Event.ren, addEle]
    cases hs : s.curSeg with
    | none => simp [State.ren, hs, SegPtr.ren, Res.map]
    | host h => simp [State.ren, hs, SegPtr.ren, Res.map, ElePtr.ren, Ele.ren]
    | pending sg => simp [State.ren, hs, SegPtr.ren, Res.map, ElePtr.ren, Ele.ren]
  | isaError c =>
    simp only [step, Event.ren, isaError]
    cases hi : s.curIsa with
    | none => simp [State.ren, hi, Res.map]
    | some i =>
      simp only [State.ren, hi, Res.map]
      rw [modIsa_ren f g s.tree i (fun a => { a with errors := a.errors ++ [c] })]
      intro a
      simp [Isa.ren]
  | gsError c =>
    simp only [step, Event.ren, gsError]
    cases hi : s.curGs with
    | none => simp [State.ren, hi, Res.map]
    | some p =>
      simp only [State.ren, hi, Res.map]
      rw [modGs_ren f g s.tree p.1 p.2 (fun a => { a with errors := a.errors ++ [c] })]
      intro a
      simp [Gs.ren]
  | stError c =>
    simp only [step, Event.ren, stError]
    cases hi : s.curSt with
    | none => simp [State.ren, hi, Res.map]
    | some p =>
      simp only [State.ren, hi, Res.map]
      rw [modSt_ren f g s.tree p.1 p.2.1 p.2.2 (fun a => { a with errors := a.errors ++ [c] })]
      intro a
      simp [St.ren]
  | segError c v => simp only [step, Event.ren, Res.map, segError_ren]
  | eleError c m v => simp only [step, Event.ren, eleError_ren]
  | closeSt =>
    simp only [step, Event.ren, closeStLoop]
    cases hi : s.curSt with
    | none => simp [State.ren, hi, Res.map]
    | some p =>
      simp only [State.ren, hi, Res.map, SegPtr.ren]
      rw [modSt_ren f g s.tree p.1 p.2.1 p.2.2 St.close St.close (St.close_ren f g)]
  | closeGs ge recv =>
    simp only [step, Event.ren, closeGsLoop]
    cases hi : s.curGs with
    | none => simp [State.ren, hi, Res.map]
    | some p =>
      simp only [State.ren, hi, Res.map, SegPtr.ren]
      rw [modGs_ren f g s.tree p.1 p.2 (fun x => x.closeWith ge.value recv) (fun x => x.closeWith ge.value recv)
        (fun x => Gs.closeWith_ren f g x _ _)]
  | closeIsa =>
    simp only [step, Event.ren, closeIsaLoop]
    cases hi : s.curIsa with
    | none => simp [State.ren, hi, Res.map]
    | some i =>
      simp only [State.ren, hi, Res.map, SegPtr.ren]
      rw [modIsa_ren f g s.tree i (fun a => { a with closed := true })]
      intro a
      simp [Isa.ren]

/-- **a run of the handler commutes with the renaming** -/
theorem run_ren (evs : List Event) : ∀ (s : State),
    run (s.ren f g) (evs.map (Event.ren f g)) = (run s evs).map (State.ren f g) := by
  induction evs with
  | nil => intro s; rfl
  | cons e r ih =>
    intro s
    simp only [List.map_cons, run, step_ren]
    cases step s e with
    | crash c => rfl
    | ok s1 => simp only [Res.map, ih]

/-- two runs from states with the same renaming, over event lists with the same renaming, end alike: the same crash
    site, or states with the same renaming -/
theorem run_ren_eq {s₁ s₂ : State} {e₁ e₂ : List Event} (hs : s₁.ren f g = s₂.ren f g)
    (he : e₁.map (Event.ren f g) = e₂.map (Event.ren f g)) :
    (run s₁ e₁).map (State.ren f g) = (run s₂ e₂).map (State.ren f g) := by
  rw [← run_ren, ← run_ren, hs, he]

end

end Pyx12Verif.ErrTree
