/-
Helper lemmas for `Props/DocAccept.lean`: one round of the segment loop on a conforming body segment, and the run over a
whole conforming body (simulation: walker state as in C02 `RunOK`, reader state quiet as in C04, error tree clean as in C05).
-/
import Pyx12Verif.Proofs.DocEvents
import Pyx12Verif.Spec.WalkerGen

namespace Pyx12Verif.Doc
open Pyx12Verif

/-! ### error tree: pointer invariant -/

def isAddSt : Event → Bool
  | .addSt _ => true
  | _ => false

theorem Ptr.weaken {s : ErrTree.State} {a b : Bool} (h : Ptr s (a || b)) : Ptr s a :=
  ⟨h.1, h.2.1, h.2.2.1, fun ha => h.2.2.2 (by simp [ha])⟩

/-- an error-free handler call with the pointers set does not raise and keeps them set -/
theorem step_ptr (s : ErrTree.State) (seen : Bool) (e : Event) (hq : ErrTree.Event.isError e = false)
    (hse : e = .closeSt → seen = true) (hp : Ptr s seen) :
    ∃ s', ErrTree.step s e = .ok s' ∧ Ptr s' (seen || isAddSt e) := by
  obtain ⟨h1, h2, h3, h4⟩ := hp
  obtain ⟨i, hi⟩ := isSome_of_ne_none h1
  obtain ⟨g, hg⟩ := isSome_of_ne_none h2
  cases e with
  | addIsa d =>
    refine ⟨_, rfl, ?_, ?_, ?_, ?_⟩
    · simp [ErrTree.addIsaLoop]
    · simpa [ErrTree.addIsaLoop] using h2
    · simp [ErrTree.addIsaLoop]
    · intro hs; simp only [isAddSt, Bool.or_false] at hs; simpa [ErrTree.addIsaLoop] using h4 hs
  | addGs d =>
    simp only [ErrTree.step, ErrTree.addGsLoop, hi]
    refine ⟨_, rfl, ?_, ?_, ?_, ?_⟩
    · simp [hi]
    · simp
    · simp
    · intro hs; simp only [isAddSt, Bool.or_false] at hs; exact h4 hs
  | addSt d =>
    simp only [ErrTree.step, ErrTree.addStLoop, hg]
    refine ⟨_, rfl, ?_, ?_, ?_, ?_⟩
    · simp [hi]
    · simp [hg]
    · simp
    · intro _; simp
  | addSeg a b c =>
    refine ⟨_, rfl, ?_, ?_, ?_, ?_⟩
    · simpa [ErrTree.addSeg] using h1
    · simpa [ErrTree.addSeg] using h2
    · simp [ErrTree.addSeg]
    · intro hs; simp only [isAddSt, Bool.or_false] at hs; simpa [ErrTree.addSeg] using h4 hs
  | addEle p sp r =>
    obtain ⟨s', hs', _, _, a3, a4, a5, a6⟩ := step_addEle s p sp r h3
    refine ⟨s', hs', ?_, ?_, ?_, ?_⟩
    · rw [a3]; exact h1
    · rw [a4]; exact h2
    · rw [a6]; exact h3
    · intro hs; simp only [isAddSt, Bool.or_false] at hs; rw [a5]; exact h4 hs
  | closeSt =>
    obtain ⟨t, ht⟩ := isSome_of_ne_none (h4 (hse rfl))
    simp only [ErrTree.step, ErrTree.closeStLoop, ht]
    refine ⟨_, rfl, ?_, ?_, ?_, ?_⟩
    · simp [hi]
    · simp [hg]
    · simp
    · intro _; simp [ht]
  | closeGs ge recv =>
    simp only [ErrTree.step, ErrTree.closeGsLoop, hg]
    refine ⟨_, rfl, ?_, ?_, ?_, ?_⟩
    · simp [hi]
    · simp [hg]
    · simp
    · intro hs; simp only [isAddSt, Bool.or_false] at hs; exact h4 hs
  | closeIsa =>
    simp only [ErrTree.step, ErrTree.closeIsaLoop, hi]
    refine ⟨_, rfl, ?_, ?_, ?_, ?_⟩
    · simp [hi]
    · simp [hg]
    · simp
    · intro hs; simp only [isAddSt, Bool.or_false] at hs; exact h4 hs
  | isaError c => simp [ErrTree.Event.isError] at hq
  | gsError c => simp [ErrTree.Event.isError] at hq
  | stError c => simp [ErrTree.Event.isError] at hq
  | segError c v => simp [ErrTree.Event.isError] at hq
  | eleError c m v => simp [ErrTree.Event.isError] at hq

/-- the events of one matched, conforming segment: one structural call, then `add_ele` calls -/
theorem run_seg_events (s : ErrTree.State) (seen : Bool) (hd : Event) (tl : List Event)
    (hq : ErrTree.Event.isError hd = false) (hse : hd = .closeSt → seen = true) (h1 : EleOnly tl) (h2 : Quiet tl)
    (hp : Ptr s seen) (hc : ErrTree.NoError s.tree ∧ s.lost = 0) :
    ∃ s', ErrTree.run s (hd :: tl) = .ok s' ∧ Ptr s' (seen || isAddSt hd) ∧ ErrTree.NoError s'.tree ∧ s'.lost = 0 := by
  obtain ⟨s1, hs1, hp1⟩ := step_ptr s seen hd hq hse hp
  obtain ⟨s2, hs2, a1, a2, a3, a4, a5, a6⟩ := run_addEles tl s1 h1 h2 hp1.2.2.1
  have hrun : ErrTree.run s (hd :: tl) = .ok s2 := by simp only [ErrTree.run, hs1, hs2]
  have hclean := ErrTree.run_clean (hd :: tl) s s2
    (by intro e he; rcases List.mem_cons.1 he with rfl | h; exact hq; exact h2 e h) hc hrun
  refine ⟨s2, hrun, ⟨?_, ?_, ?_, ?_⟩, hclean.1, hclean.2⟩
  · rw [a3]; exact hp1.1
  · rw [a4]; exact hp1.2.1
  · rw [a6]; exact hp1.2.2.1
  · intro h; rw [a5]; exact hp1.2.2.2 h

/-! ### one round of the loop on a body segment -/

/-- the loop state while a conforming body is processed: only `node`, the counter and the reader state move -/
def bodyState (base : LState) (m : MapX) (cur : List Nat) (cnt : Walker.Counter) (rs : Envelope.RState) : LState :=
  { base with node := some ⟨m, cur⟩, cnt := cnt, rs := rs, pend := [], valid := true }

/-- the structural handler call made for a matched segment other than ISA / GS when no reader error is pending -/
def headEvent (d : Delims) (s : Seg) (rs : Envelope.RState) : Event :=
  if s.id = Envelope.idIEA then .closeIsa
  else if s.id = sBHT then .addSeg s.id rs.segCount none
  else if s.id = Envelope.idGE then .closeGs (geCount (gv d s 0)) rs.stCount
  else if s.id = Envelope.idST then .addSt (stData d s rs)
  else if s.id = Envelope.idSE then .closeSt
  else .addSeg s.id rs.segCount none

theorem headEvent_quiet (d : Delims) (s : Seg) (rs : Envelope.RState) :
    ErrTree.Event.isError (headEvent d s rs) = false := by
  unfold headEvent
  repeat' split
  all_goals rfl

theorem headEvent_closeSt (d : Delims) (s : Seg) (rs : Envelope.RState) (h : headEvent d s rs = .closeSt) :
    s.id = Envelope.idSE := by
  unfold headEvent at h
  split at h
  · cases h
  · split at h
    · cases h
    · split at h
      · cases h
      · split at h
        · cases h
        · split at h
          · assumption
          · cases h

theorem headEvent_st (d : Delims) (s : Seg) (rs : Envelope.RState) (h : s.id = Envelope.idST) :
    isAddSt (headEvent d s rs) = true := by
  unfold headEvent
  have h1 : ¬ s.id = Envelope.idIEA := by rw [h]; decide
  have h2 : ¬ s.id = sBHT := by rw [h]; decide
  have h3 : ¬ s.id = Envelope.idGE := by rw [h]; decide
  simp only [h1, h2, h3, h, if_false, if_true]
  rfl

theorem branch_body (ms : Maps) (d : Delims) (s : Seg) (base : LState) (m : MapX) (cur : List Nat) (cnt : Walker.Counter)
    (rs : Envelope.RState) (n : NodeRef) (h1 : s.id ≠ Envelope.idISA) (h2 : s.id ≠ Envelope.idGS)
    (hv : base.vriic ≠ some v278a ∧ base.vriic ≠ some v278b) :
    branch ms d s (bodyState base m cur cnt rs) n = .go (bodyState base m cur cnt rs) n [headEvent d s rs] := by
  unfold branch headEvent
  simp only [h1, h2, if_false]
  split
  · rfl
  · split
    · unfold bhtBranch
      have : ¬ ((bodyState base m cur cnt rs).vriic = some v278a ∨ (bodyState base m cur cnt rs).vriic = some v278b) := by
        intro h; rcases h with h | h
        · exact hv.1 h
        · exact hv.2 h
      simp only [this, if_false]
      rfl
    · split
      · rfl
      · split
        · rfl
        · split
          · rfl
          · rfl

/-- what one round does on a body segment that the walker places at `ip`, the reader accepts silently and that
    conforms to the definition of `ip` -/
theorem step_body (ms : Maps) (ctx : Ctx) (control : MapX) (d : Delims) (base : LState) (m : MapX) (cur ip : List Nat)
    (cnt : Walker.Counter) (rs rs1 : Envelope.RState) (s : Seg) (v : Envelope.SegView) (sd : SegDef)
    (h1 : s.id ≠ Envelope.idISA) (h2 : s.id ≠ Envelope.idGS)
    (hv : base.vriic ≠ some v278a ∧ base.vriic ≠ some v278b)
    (hview : Pipeline.viewOf d s = some v) (hbase : baseErrs s = [])
    (hstep : Envelope.step Envelope.Fixes.all rs v = .ok (rs1, []))
    (hnode : (Walker.walk ms.consts m.root m.rootId cnt cur (segData ms m d s)).node = some ip)
    (herrs : (Walker.walk ms.consts m.root m.rootId cnt cur (segData ms m d s)).st.errs = [])
    (hdef : lookupDef m ip = some sd) (hadm : SegAdm ctx m.v5010 d sd s) :
    ∃ out tl, stepSeg ms ctx control d [] s (bodyState base m cur cnt rs) =
        .next (bodyState base m ip (Walker.walk ms.consts m.root m.rootId cnt cur (segData ms m d s)).st.cnt rs1) out ∧
      out.events = headEvent d s rs1 :: tl ∧ EleOnly tl ∧ Quiet tl := by
  obtain ⟨evs, hev, hquiet⟩ := segEvents_clean ctx m.v5010 d sd s hadm
  have hele := segEvents_eleOnly ctx m.v5010 d sd s
  rw [hev] at hele
  refine ⟨{ sid := s.id, matched := true, node := some (m.file, ip), popped := [], events := headEvent d s rs1 :: evs },
    evs, ?_, rfl, hele, hquiet⟩
  simp only [stepSeg, hview, withView, hbase, bodyState, List.map_nil, List.append_nil, hstep, afterReader, afterStep,
    findNode, h1, h2, if_false, walkFound, foundOf, hnode, herrs, List.flatten_nil, afterFind]
  have hb := branch_body ms d s base m cur
    (Walker.walk ms.consts m.root m.rootId cnt cur (segData ms m d s)).st.cnt rs1 ⟨m, ip⟩ h1 h2 hv
  simp only [bodyState] at hb
  rw [hb]
  simp only [validate, hdef, hev, List.nil_append, Bool.and_self, NodeRef.key, List.cons_append]

/-! ### a whole conforming body -/

/-- the reader (`_parse_segment` after the line wrapper) reports nothing on these segments -/
def EnvQuiet (d : Delims) : Envelope.RState → List Seg → Envelope.RState → Prop
  | rs, [], rs' => rs' = rs
  | rs, s :: r, rs' =>
    ∃ v rs1, Pipeline.viewOf d s = some v ∧ Envelope.step Envelope.Fixes.all rs v = .ok (rs1, []) ∧ EnvQuiet d rs1 r rs'

/-- no SE before the first ST (`seen` = an ST has been processed) -/
def SeOk : Bool → List Str → Prop
  | _, [] => True
  | seen, i :: r => (i = Envelope.idSE → seen = true) ∧ SeOk (seen || decide (i = Envelope.idST)) r

/-- a body segment with the node it instantiates: not ISA / GS, well-formed identifier and not empty, the node has a
    definition and the segment conforms to it -/
def BodyOk (ctx : Ctx) (m : MapX) (d : Delims) (b : Seg × List Nat) : Prop :=
  b.1.id ≠ Envelope.idISA ∧ b.1.id ≠ Envelope.idGS ∧ baseErrs b.1 = [] ∧
    ∃ sd, lookupDef m b.2 = some sd ∧ SegAdm ctx m.v5010 d sd b.1

def emitsOf (ms : Maps) (m : MapX) (d : Delims) (body : List (Seg × List Nat)) : List WalkerGen.Emit :=
  body.map (fun b => (b.2, segData ms m d b.1))

theorem run_body (ms : Maps) (ctx : Ctx) (control : MapX) (d : Delims) (base : LState) (m : MapX)
    (hv : base.vriic ≠ some v278a ∧ base.vriic ≠ some v278b) :
    ∀ (body : List (Seg × List Nat)) (cur : List Nat) (cnt : Walker.Counter) (rs rs' : Envelope.RState) (seen : Bool) (a : Acc),
      a.st = bodyState base m cur cnt rs →
      WalkerGen.RunOK ms.consts m.root m.rootId cnt cur (emitsOf ms m d body) →
      EnvQuiet d rs (body.map (·.1)) rs' →
      (∀ b ∈ body, BodyOk ctx m d b) →
      SeOk seen (body.map (·.1.id)) →
      Ptr a.est seen → ErrTree.NoError a.est.tree ∧ a.est.lost = 0 → Quiet a.events →
      ∃ a' cur' cnt' seen', runSegs ms ctx control d a (body.map (fun b => ([], b.1))) = .done a' ∧
        a'.st = bodyState base m cur' cnt' rs' ∧ Ptr a'.est seen' ∧ ErrTree.NoError a'.est.tree ∧ a'.est.lost = 0 ∧
        Quiet a'.events := by
  intro body
  induction body with
  | nil =>
    intro cur cnt rs rs' seen a hst _ henv _ _ hp hc hq
    simp only [EnvQuiet, List.map_nil] at henv
    subst henv
    exact ⟨a, cur, cnt, seen, rfl, hst, hp, hc.1, hc.2, hq⟩
  | cons b body ih =>
    intro cur cnt rs rs' seen a hst hrun henv hok hse hp hc hq
    obtain ⟨hb1, hb2, hb3, sd, hdef, hadm⟩ := hok b (by simp)
    simp only [List.map_cons, EnvQuiet] at henv
    obtain ⟨v, rs1, hview, hstep, henv'⟩ := henv
    simp only [emitsOf, List.map_cons, WalkerGen.RunOK] at hrun
    obtain ⟨hnode, herrs, _, hrun'⟩ := hrun
    obtain ⟨out, tl, hstepseg, hout, hele, hquiet⟩ :=
      step_body ms ctx control d base m cur b.2 cnt rs rs1 b.1 v sd hb1 hb2 hv hview hb3 hstep hnode herrs hdef hadm
    simp only [List.map_cons, SeOk] at hse
    obtain ⟨est', hest, hp', hc1, hc2⟩ := run_seg_events a.est seen (headEvent d b.1 rs1) tl
      (headEvent_quiet d b.1 rs1) (fun h => hse.1 (headEvent_closeSt d b.1 rs1 h)) hele hquiet hp hc
    have hp'' : Ptr est' (seen || decide (b.1.id = Envelope.idST)) := by
      by_cases hid : b.1.id = Envelope.idST
      · have := headEvent_st d b.1 rs1 hid
        rw [this] at hp'
        simp only [hid, decide_true, Bool.or_true] at hp' ⊢
        exact hp'
      · simp only [hid, decide_false, Bool.or_false]
        exact hp'.weaken
    have hquiet' : Quiet (a.events ++ out.events) := by
      refine hq.append ?_
      rw [hout]
      intro e he
      rcases List.mem_cons.1 he with rfl | h
      · exact headEvent_quiet d b.1 rs1
      · exact hquiet e h
    simp only [List.map_cons, runSegs, hst, hstepseg, hout, hest]
    have := ih b.2 (Walker.walk ms.consts m.root m.rootId cnt cur (segData ms m d b.1)).st.cnt rs1 rs'
      (seen || decide (b.1.id = Envelope.idST))
      (pushOut a (bodyState base m b.2 (Walker.walk ms.consts m.root m.rootId cnt cur (segData ms m d b.1)).st.cnt rs1) est' out)
      rfl hrun' henv' (fun x hx => hok x (List.mem_cons_of_mem _ hx)) hse.2 hp'' ⟨hc1, hc2⟩ hquiet'
    exact this

end Pyx12Verif.Doc
