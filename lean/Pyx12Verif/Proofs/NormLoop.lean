/-
C20 helper lemmas, part 3: the main loop of x12norm with `-f`, related to two runs of the reader model:
over the views of the input segments and over the views of the segments written.  Both runs pass through the same
states; the second one reports the errors of the first minus the four count errors.
-/
import Pyx12Verif.Proofs.NormSeg
import Pyx12Verif.Proofs.NormStep
import Pyx12Verif.Proofs.PathSplit

namespace Pyx12Verif.Norm
open Pyx12Verif SegText Envelope
open Pyx12Verif.Segment hiding Seg Err

/-! ### `Res` plumbing -/

theorem Res.bind_ok {α β : Type} {r : Res α} {f : α → Res β} {b : β} (h : r.bind f = .ok b) :
    ∃ a, r = .ok a ∧ f a = .ok b := by
  cases r with
  | ok a => exact ⟨a, rfl, h⟩
  | raised => cases h
  | crash => cases h

/-- `R` holds between the elements of two lists, position by position -/
inductive All2 {α β : Type} (R : α → β → Prop) : List α → List β → Prop
  | nil : All2 R [] []
  | cons {a : α} {b : β} {l : List α} {m : List β} : R a b → All2 R l m → All2 R (a :: l) (b :: m)

theorem All2.length_eq {α β : Type} {R : α → β → Prop} {l : List α} {m : List β} (h : All2 R l m) :
    l.length = m.length := by
  induction h with
  | nil => rfl
  | cons _ _ ih => simp [ih]

theorem All2.of_mem_right {α β : Type} {R : α → β → Prop} {l : List α} {m : List β} (h : All2 R l m) :
    ∀ b ∈ m, ∃ a ∈ l, R a b := by
  induction h with
  | nil => intro b hb; simp at hb
  | cons hr _ ih =>
    intro b hb
    rcases List.mem_cons.mp hb with rfl | hb
    · exact ⟨_, by simp, hr⟩
    · obtain ⟨a, ha, hab⟩ := ih b hb
      exact ⟨a, List.mem_cons_of_mem _ ha, hab⟩

theorem All2.imp {α β : Type} {R Q : α → β → Prop} {l : List α} {m : List β} (h : All2 R l m)
    (hi : ∀ a ∈ l, ∀ b, R a b → Q a b) : All2 Q l m := by
  induction h with
  | nil => exact .nil
  | cons hr _ ih =>
    exact .cons (hi _ (by simp) _ hr) (ih (fun a ha b hab => hi a (List.mem_cons_of_mem _ ha) b hab))

/-- the views of a list of segments, as `_parse_segment` reads them -/
def viewsOf (d : Delims) : List Seg → Res (List SegView)
  | [] => .ok []
  | s :: r => (viewOf d s).bind fun v => (viewsOf d r).bind fun vs => .ok (v :: vs)

/-! ### which repair `main()` chooses -/

def des01 (id : Str) : Str :=
  if id = idIEA then desIEA01 else if id = idGE then desGE01 else if id = idSE then desSE01 else desHL01

theorem rcode_ne (re : List RErr) (c : Str) (h1 : c ≠ ['1']) (h2 : c ≠ ['S', 'E', 'G', '1']) : c ∉ re.map rcodeOf := by
  intro hm
  obtain ⟨r, _, hr⟩ := List.mem_map.mp hm
  cases r
  · exact h1 hr.symm
  · exact h2 hr.symm

theorem code_mem (re : List RErr) (es : List Err) (c : Str) (h1 : c ≠ ['1']) (h2 : c ≠ ['S', 'E', 'G', '1']) :
    c ∈ codes re es ↔ ∃ e ∈ es, codeOf e = c := by
  unfold codes
  rw [List.mem_append]
  constructor
  · rintro (h | h)
    · exact absurd h (rcode_ne re c h1 h2)
    · obtain ⟨e, he, hc⟩ := List.mem_map.mp h; exact ⟨e, he, hc⟩
  · rintro ⟨e, he, hc⟩; exact Or.inr (List.mem_map.mpr ⟨e, he, hc⟩)

theorem code_021 (re : List RErr) (es : List Err) : ['0', '2', '1'] ∈ codes re es ↔ Err.isa021 ∈ es := by
  rw [code_mem re es _ (by decide) (by decide)]
  constructor
  · rintro ⟨e, he, hc⟩; cases e <;> first | exact he | exact absurd hc (by decide)
  · intro h; exact ⟨_, h, rfl⟩

theorem code_5 (re : List RErr) (es : List Err) : ['5'] ∈ codes re es ↔ Err.gs5 ∈ es := by
  rw [code_mem re es _ (by decide) (by decide)]
  constructor
  · rintro ⟨e, he, hc⟩; cases e <;> first | exact he | exact absurd hc (by decide)
  · intro h; exact ⟨_, h, rfl⟩

theorem code_HL1 (re : List RErr) (es : List Err) : ['H', 'L', '1'] ∈ codes re es ↔ Err.hl1 ∈ es := by
  rw [code_mem re es _ (by decide) (by decide)]
  constructor
  · rintro ⟨e, he, hc⟩; cases e <;> first | exact he | exact absurd hc (by decide)
  · intro h; exact ⟨_, h, rfl⟩

/-- `'4'` is the code of two errors; on an SE segment only the set error can have been popped -/
theorem code_4 (re : List RErr) (es : List Err) (hno : Err.gs4 ∉ es) : ['4'] ∈ codes re es ↔ Err.st4 ∈ es := by
  rw [code_mem re es _ (by decide) (by decide)]
  constructor
  · rintro ⟨e, he, hc⟩; cases e <;> first | exact he | exact absurd he hno | exact absurd hc (by decide)
  · intro h; exact ⟨_, h, rfl⟩

theorem target_spec (S : RState) (id : Str) (re : List RErr) (es : List Err) (hse : id = idSE → Err.gs4 ∉ es) :
    target S id (codes re es) =
      match countErrOf id with
      | none => none
      | some e => if e ∈ es then some (des01 id, counterOf S id) else none := by
  unfold target countErrOf des01 counterOf
  by_cases h1 : id = idIEA
  · subst h1
    simp only [true_and, if_true, code_021, (by decide : idIEA ≠ idGE), (by decide : idIEA ≠ idSE),
      (by decide : idIEA ≠ idHL), false_and, if_false]
  · by_cases h2 : id = idGE
    · subst h2
      simp only [true_and, if_true, code_5, (by decide : idGE ≠ idIEA), (by decide : idGE ≠ idSE),
        (by decide : idGE ≠ idHL), false_and, if_false]
    · by_cases h3 : id = idSE
      · subst h3
        simp only [true_and, if_true, code_4 re es (hse rfl), (by decide : idSE ≠ idIEA), (by decide : idSE ≠ idGE),
          (by decide : idSE ≠ idHL), false_and, if_false]
      · by_cases h4 : id = idHL
        · subst h4
          simp only [true_and, if_true, code_HL1, (by decide : idHL ≠ idIEA), (by decide : idHL ≠ idGE),
            (by decide : idHL ≠ idSE), false_and, if_false]
        · simp only [h1, h2, h3, h4, false_and, if_false]

theorem step_SE_no_gs4 (s S : RState) (v : SegView) (es : List Err) (hid : v.id = idSE)
    (h : step Fixes.all s v = .ok (S, es)) : Err.gs4 ∉ es := by
  rw [step_SE_any s v hid] at h
  injection h with h; injection h with _ hes
  rw [← hes]
  intro hm
  rcases List.mem_append.mp hm with hm | hm
  · have := setIdErrs_nc s v.ctl _ hm
    unfold setIdErrs at hm
    split at hm
    · simp at hm
    · split at hm <;> simp at hm
  · have := cntErrs_mem hm; cases this

/-! ### views -/

theorem viewAt_id (d : Delims) (s : Seg) (v : SegView) (h : viewAt d s = .ok v) : v.id = s.id := by
  unfold viewAt at h
  repeat' split at h
  all_goals
    first
    | (injection h with h; rw [← h])
    | (obtain ⟨a, _, h⟩ := Res.bind_ok h
       first
       | (injection h with h; rw [← h])
       | (obtain ⟨b, _, h⟩ := Res.bind_ok h; injection h with h; rw [← h]))

/-- no delimiter is a decimal digit -/
def NoDigit (d : Delims) : Prop := isDigit d.term = false ∧ isDigit d.ele = false ∧ isDigit d.sub = false

theorem decimal_digits (n : Nat) : ∀ c ∈ decimal n, isDigit c = true := fun c hc =>
  isDigit_of_core (Nat.isDigit_of_mem_toDigits (by decide) (by decide) hc)

theorem not_mem_decimal {c : Char} (h : isDigit c = false) (n : Nat) : c ∉ decimal n := by
  intro hm; rw [decimal_digits n c hm] at h; cases h

theorem isCount_id {id : Str} {e : Err} (h : countErrOf id = some e) :
    id = idIEA ∨ id = idGE ∨ id = idSE ∨ id = idHL := by
  unfold countErrOf at h
  by_cases h1 : id = idIEA
  · exact Or.inl h1
  · by_cases h2 : id = idGE
    · exact Or.inr (Or.inl h2)
    · by_cases h3 : id = idSE
      · exact Or.inr (Or.inr (Or.inl h3))
      · by_cases h4 : id = idHL
        · exact Or.inr (Or.inr (Or.inr h4))
        · simp [h1, h2, h3, h4] at h

theorem valAt_set01_zero (d : Delims) (s : Seg) (x : Str) (hx : d.sub ∉ x) (hisa : isISA s.id = false) :
    valAt d (set01 d s x) 0 = .ok (some x) := by
  simp [valAt, set01, termOf, hisa, Path.splitOn_no_sep _ _ hx, fmtComp, fmtRes, dropTrailingEmpty, Path.joinWith]

theorem valAt_set01_one (d : Delims) (s : Seg) (x : Str) : valAt d (set01 d s x) 1 = valAt d s 1 := by
  unfold valAt set01
  cases he : s.elems with
  | nil => simp
  | cons a r => simp

/-- the view of a count segment after its element 1 was rewritten -/
theorem viewAt_set01 (d : Delims) (s : Seg) (v : SegView) (x : Str) (hx : d.sub ∉ x)
    (hid : s.id = idIEA ∨ s.id = idGE ∨ s.id = idSE ∨ s.id = idHL) (h : viewAt d s = .ok v) :
    viewAt d (set01 d s x) = .ok (withCnt v (some x)) := by
  have hisa : isISA s.id = false := by
    rcases hid with e | e | e | e <;> rw [e] <;> decide
  have h1 : s.id ≠ idISA := by rcases hid with e | e | e | e <;> rw [e] <;> decide
  have h2 : s.id ≠ idGS := by rcases hid with e | e | e | e <;> rw [e] <;> decide
  have h3 : s.id ≠ idST := by rcases hid with e | e | e | e <;> rw [e] <;> decide
  have hid' : s.id = idHL ∨ s.id = idIEA ∨ s.id = idGE ∨ s.id = idSE := by
    rcases hid with e | e | e | e <;> simp [e]
  unfold viewAt at h ⊢
  have hset : (set01 d s x).id = s.id := rfl
  simp only [hset, h1, h2, h3, hid', if_true, if_false] at h ⊢
  obtain ⟨n, _, h⟩ := Res.bind_ok h
  obtain ⟨c, hc, h⟩ := Res.bind_ok h
  injection h with h
  rw [valAt_set01_zero d s x hx hisa, valAt_set01_one, hc, ← h]
  rfl

theorem des01_eq {id : Str} (hid : id = idIEA ∨ id = idGE ∨ id = idSE ∨ id = idHL) :
    des01 id = refText (some id) 0 none ∧ WFDesig (some id) 0 := by
  rcases hid with e | e | e | e <;> subst e
  · exact ⟨by decide, wf_IEA 0 (by decide)⟩
  · exact ⟨by decide, wf_GE 0 (by decide)⟩
  · exact ⟨by decide, wf_SE 0 (by decide)⟩
  · exact ⟨by decide, wf_HL 0 (by decide)⟩


/-! ### one round of the loop with `-f` -/

def CountId (id : Str) : Prop := id = idIEA ∨ id = idGE ∨ id = idSE ∨ id = idHL

theorem counterOf_le (B : Nat) (S : RState) (id : Str) (h : Bounded B S) : counterOf S id ≤ B + 1 := by
  obtain ⟨a, b, c, e⟩ := h
  unfold counterOf
  split
  · omega
  · split
    · omega
    · split <;> omega

theorem stepSeg_fix (d : Delims) (hnd : isDigit d.sub = false) (e : Bool) (st S : RState) (re : List RErr)
    (s s' : Seg) (B : Nat) (hchk : st.chk837 = false) (hB : Bounded B st) (hsmall : B + 2 < 10 ^ maxStrDigits)
    (h : stepSeg ⟨e, true⟩ d st re s = .ok (S, s')) :
    ∃ v v' es, viewOf d s = .ok v ∧ viewOf d s' = .ok v' ∧ step Fixes.all st v = .ok (S, es) ∧
      step Fixes.all st v' = .ok (S, es.filter (fun x => !isCountErr x)) ∧ S.chk837 = false ∧ Bounded (B + 1) S ∧
      (s' = s ∨ (s' = set01 d s (decimal (counterOf S s.id)) ∧ CountId s.id)) := by
  unfold stepSeg at h
  obtain ⟨v, hv, h⟩ := Res.bind_ok h
  cases hs : step Fixes.all st v with
  | raised => rw [hs] at h; cases h
  | crash x => rw [hs] at h; cases h
  | ok r =>
    obtain ⟨S1, es⟩ := r
    rw [hs] at h
    simp only [afterStep, if_true] at h
    obtain ⟨s'', hrep, h⟩ := Res.bind_ok h
    injection h with h
    injection h with hS hs'
    subst hS; subst hs'
    have hv' := hv
    rw [viewOf_eq] at hv'
    have hvid := viewAt_id d s v hv'
    obtain ⟨g1, g2, g3, g4, g5⟩ := step_replace st S1 v es B hchk hB hs
    have hse : s.id = idSE → Err.gs4 ∉ es := fun hid => step_SE_no_gs4 st S1 v es (hvid.trans hid) hs
    unfold repair at hrep
    rw [target_spec S1 s.id re es hse] at hrep
    cases hce : countErrOf s.id with
    | none =>
      rw [hce] at hrep
      simp only [repairWith] at hrep
      injection hrep with hrep
      subst hrep
      refine ⟨v, v, es, hv, hv, hs, ?_, g1, g2, Or.inl rfl⟩
      rw [g4 (by rw [hvid]; exact hce)]; exact hs
    | some ce =>
      rw [hce] at hrep
      simp only at hrep
      by_cases hm : ce ∈ es
      · simp only [hm, if_true, repairWith] at hrep
        have hcid : CountId s.id := isCount_id hce
        obtain ⟨hdes, hwf⟩ := des01_eq hcid
        have hisa : isISA s.id = false := by
          rcases hcid with e | e | e | e <;> rw [e] <;> decide
        rw [hdes, setVal_eq d s _ hwf hisa] at hrep
        injection hrep with hrep
        subst hrep
        have hx : d.sub ∉ decimal (counterOf S1 s.id) := not_mem_decimal hnd _
        have hview := viewAt_set01 d s v _ hx hcid hv'
        have hlt : counterOf S1 v.id < 10 ^ maxStrDigits := by
          have := counterOf_le (B + 1) S1 v.id g2; omega
        have := g5 ce (by rw [hvid]; exact hce) hlt
        rw [hvid] at this
        refine ⟨v, _, es, hv, by rw [viewOf_eq]; exact hview, hs, this, g1, g2, Or.inr ⟨rfl, hcid⟩⟩
      · simp only [hm, if_false, repairWith] at hrep
        injection hrep with hrep
        subst hrep
        refine ⟨v, v, es, hv, hv, hs, ?_, g1, g2, Or.inl rfl⟩
        rw [filter_pre es]
        · exact hs
        · intro x hx
          cases hc : isCountErr x with
          | false => rfl
          | true =>
            have := g3 x hx hc
            rw [hvid, hce] at this
            injection this with this
            exact absurd (this ▸ hx) hm

/-! ### the whole loop with `-f` -/

theorem loop_fix (d : Delims) (hnd : isDigit d.sub = false) (e : Bool) :
    ∀ (inp : List (List RErr × Seg)) (st : RState) (B : Nat) (out : List (Seg × Line)),
      st.chk837 = false → Bounded B st → B + inp.length + 1 < 10 ^ maxStrDigits →
      loop ⟨e, true⟩ d st inp = .ok out →
      ∃ vs vs' S outs,
        viewsOf d (inp.map (·.2)) = .ok vs ∧ viewsOf d (out.map (·.1)) = .ok vs' ∧
        runSegs Fixes.all st vs = .ok (S, outs) ∧
        runSegs Fixes.all st vs' = .ok (S, outs.map (List.filter (fun x => !isCountErr x))) := by
  intro inp
  induction inp with
  | nil =>
    intro st B out _ _ _ h
    simp only [loop] at h
    injection h with h
    subst h
    exact ⟨[], [], st, [], rfl, rfl, rfl, rfl⟩
  | cons x rest ih =>
    intro st B out hchk hB hsmall h
    simp only [loop] at h
    obtain ⟨r, hstep, h⟩ := Res.bind_ok h
    obtain ⟨l, _, h⟩ := Res.bind_ok h
    obtain ⟨ls, hrest, h⟩ := Res.bind_ok h
    injection h with h
    subst h
    obtain ⟨S1, s'⟩ := r
    simp only [List.length_cons] at hsmall
    obtain ⟨v, v', es, hv, hv', hs, hs', g1, g2, _⟩ :=
      stepSeg_fix d hnd e st S1 x.1 x.2 s' B hchk hB (by omega) hstep
    obtain ⟨vs, vs', S, outs, k1, k2, k3, k4⟩ := ih S1 (B + 1) ls g1 g2 (by omega) hrest
    refine ⟨v :: vs, v' :: vs', S, es :: outs, ?_, ?_, ?_, ?_⟩
    · simp [viewsOf, hv, k1, Res.bind]
    · simp [viewsOf, hv', k2, Res.bind]
    · simp [runSegs, hs, k3, Outcome.bind]
    · simp [runSegs, hs', k4, Outcome.bind]

end Pyx12Verif.Norm
