/- C08 helper lemmas: the element tree of a whole document and the `seg` nodes `convert` meets on its walk. -/
import Pyx12Verif.Proofs.XmlPlumb
import Pyx12Verif.Proofs.XmlRun

namespace Pyx12Verif.Xml
open Pyx12Verif.Path Pyx12Verif.Segment

def isSegNode (n : XNode) : Bool := n.tag == tagSeg

/-- the `seg` nodes of a list of nodes -/
def segView (l : List XNode) : List XNode := l.filter isSegNode

/-- open frames (innermost first) that spell the context `c` (outermost first) -/
def FramesFor (c : Ctx) (fs : List Frame) : Prop := fs.reverse.map (fun f => (f.tag, f.id)) = c

/-- every node finished so far inside the open frames, in document order -/
def flat : List Frame → List XNode
  | [] => []
  | f :: fs => flat fs ++ iterList f.kids

theorem iterList_append : ∀ (a b : List XNode), iterList (a ++ b) = iterList a ++ iterList b
  | [], b => rfl
  | x :: r, b => by simp [iterList, iterList_append r b]

theorem iterNode_eq (n : XNode) : iterNode n = n :: iterList n.kids := by
  cases n with
  | mk t i x k => simp [iterNode, XNode.kids]

/-- the builder is led from frames spelling `c` to frames spelling `c'`, finishing the `seg` nodes `segs` on the way -/
def TB (evs : List Ev) (c c' : Ctx) (segs : List XNode) : Prop :=
  ∀ fs, FramesFor c fs → ∀ roots rest, ∃ fs', FramesFor c' fs' ∧
    buildFrom fs roots (evs ++ rest) = buildFrom fs' roots rest ∧ segView (flat fs') = segView (flat fs) ++ segs

theorem TB.nil (c : Ctx) : TB [] c c [] := by
  intro fs h roots rest; exact ⟨fs, h, rfl, by simp⟩

theorem TB.append {e1 e2 : List Ev} {c c' c'' : Ctx} {s1 s2 : List XNode} (h1 : TB e1 c c' s1) (h2 : TB e2 c' c'' s2) :
    TB (e1 ++ e2) c c'' (s1 ++ s2) := by
  intro fs hf roots rest
  obtain ⟨fs1, a1, a2, a3⟩ := h1 fs hf roots (e2 ++ rest)
  obtain ⟨fs2, b1, b2, b3⟩ := h2 fs1 a1 roots rest
  exact ⟨fs2, b1, by rw [List.append_assoc, a2, b2], by rw [b3, a3, List.append_assoc]⟩

theorem TB.start (c : Ctx) (t : Str) (i : Option Str) : TB [.start t i] c (c ++ [(t, i)]) [] := by
  intro fs hf roots rest
  refine ⟨⟨t, i, []⟩ :: fs, ?_, by simp [buildFrom], by simp [flat, iterList]⟩
  simp [FramesFor] at hf ⊢
  exact hf

theorem framesFor_snoc (c : Ctx) (x : Str × Option Str) (fs : List Frame) (h : FramesFor (c ++ [x]) fs) :
    ∃ f fs0, fs = f :: fs0 ∧ (f.tag, f.id) = x ∧ FramesFor c fs0 := by
  cases fs with
  | nil => simp [FramesFor] at h
  | cons f fs0 =>
    simp only [FramesFor, List.reverse_cons, List.map_append, List.map_cons, List.map_nil] at h
    have := List.append_inj' h (by simp)
    exact ⟨f, fs0, rfl, by simpa using this.2, this.1⟩

theorem segView_append (a b : List XNode) : segView (a ++ b) = segView a ++ segView b := by simp [segView]

theorem TB.stop (c : Ctx) (hc : c ≠ []) (t : Str) (i : Option Str) (ht : t ≠ tagSeg) : TB [.stop t] (c ++ [(t, i)]) c [] := by
  intro fs hf roots rest
  obtain ⟨f, fs0, rfl, hx, hf0⟩ := framesFor_snoc c (t, i) fs hf
  cases fs0 with
  | nil => simp [FramesFor] at hf0; exact absurd hf0 hc
  | cons p fs1 =>
    have htag : f.tag = t := by simpa using congrArg Prod.fst hx
    refine ⟨⟨p.tag, p.id, p.kids ++ [.mk f.tag f.id none f.kids]⟩ :: fs1, ?_, ?_, ?_⟩
    · simpa [FramesFor] using hf0
    · simp [buildFrom, htag, attach]
    · have hns : isSegNode (.mk f.tag f.id none f.kids) = false := by simp [isSegNode, XNode.tag, htag, ht]
      simp only [flat, iterList_append, iterList, iterNode, List.append_nil, segView_append, List.append_assoc]
      simp [segView, hns]

theorem segView_items (sid : Str) : ∀ (items : List Item), segView (iterList (items.map (itemNode sid))) = []
  | [] => rfl
  | .ele xid v :: r => by
    have : isSegNode (.mk tagEle (some xid) (textOf v) []) = false := by
      simp [isSegNode, XNode.tag]; decide
    simp only [List.map_cons, iterList, itemNode, iterNode, segView_append, List.cons_append, List.nil_append]
    simp only [segView, List.filter_cons, this] at *
    exact segView_items sid r
  | .comp subs :: r => by
    have h0 : isSegNode (.mk tagComp (some sid) none (subs.map subNode)) = false := by
      simp [isSegNode, XNode.tag]; decide
    have hs : (subs.map subNode).filter isSegNode = [] := by
      rw [List.filter_eq_nil_iff]
      intro n hn
      obtain ⟨p, _, rfl⟩ := List.mem_map.mp hn
      simp [isSegNode, subNode, XNode.tag]; decide
    simp only [List.map_cons, iterList, itemNode, iterNode, iterList_subs, segView_append, List.cons_append]
    have := segView_items sid r
    simp only [segView, List.filter_cons, h0, List.filter_append, hs] at *
    simpa using this

/-- a whole `seg` element (as `segOut_evs` describes it) -/
theorem TB.segElem (c : Ctx) (hc : c ≠ []) (sid : Str) (items : List Item) :
    TB (.start tagSeg (some sid) :: itemsEvs sid items ++ [.stop tagSeg]) c c
      [.mk tagSeg (some sid) none (items.map (itemNode sid))] := by
  intro fs hf roots rest
  cases fs with
  | nil => simp [FramesFor] at hf; exact absurd hf hc
  | cons p fs1 =>
    refine ⟨⟨p.tag, p.id, p.kids ++ [.mk tagSeg (some sid) none (items.map (itemNode sid))]⟩ :: fs1, ?_, ?_, ?_⟩
    · simpa [FramesFor] using hf
    · simp only [List.cons_append, List.append_assoc, buildFrom]
      rw [build_items sid items]
      simp [buildFrom, attach]
    · have hseg : isSegNode (.mk tagSeg (some sid) none (items.map (itemNode sid))) = true := by simp [isSegNode, XNode.tag]
      simp only [flat, iterList_append, iterList, iterNode, List.append_nil, segView_append, List.append_assoc]
      have := segView_items sid items
      simp only [segView, List.filter_cons, hseg, if_true] at *
      simp [this]

theorem TB.stops (q : List Str) : ∀ p : List Str, TB (List.replicate q.length (.stop tagLoop)) (spell (p ++ q)) (spell p) [] := by
  induction q with
  | nil => intro p; simpa using TB.nil (spell p)
  | cons a r ih =>
    intro p
    have h1 := ih (p ++ [a])
    have h2 := TB.stop (spell p) (spell_ne_nil p) tagLoop (some a) tagLoop_ne_tagSeg
    rw [← spell_snoc] at h2
    have := h1.append h2
    simpa [List.replicate_succ'] using this

theorem TB.starts (q : List Str) : ∀ p : List Str, TB (q.map loopStart) (spell p) (spell (p ++ q)) [] := by
  induction q with
  | nil => intro p; simpa using TB.nil (spell p)
  | cons a r ih =>
    intro p
    have h1 := TB.start (spell p) tagLoop (some a)
    rw [← spell_snoc] at h1
    have h2 := ih (p ++ [a])
    simpa [loopStart] using h1.append h2

theorem TB.trans (last cur : List Str) (first : Bool) : TB (transEvents last cur first) (spell last) (spell cur) [] := by
  have hl : last = last.take (sharedDepth last cur first) ++ last.drop (sharedDepth last cur first) :=
    (List.take_append_drop _ _).symm
  have hc : cur = last.take (sharedDepth last cur first) ++ cur.drop (sharedDepth last cur first) := by
    rw [sharedDepth_take]; exact (List.take_append_drop _ _).symm
  have h1 := TB.stops (last.drop (sharedDepth last cur first)) (last.take (sharedDepth last cur first))
  have h2 := TB.starts (cur.drop (sharedDepth last cur first)) (last.take (sharedDepth last cur first))
  rw [← hl] at h1
  rw [← hc] at h2
  have := h1.append h2
  unfold transEvents
  simpa using this

/-! ### `convert`'s walk sees only the `seg` nodes -/

theorem segsOf_filter : ∀ (l : List XNode), segsOf l = segsOf (segView l)
  | [] => rfl
  | n :: r => by
    by_cases h : n.tag = tagSeg
    · have hs : isSegNode n = true := by simp [isSegNode, h]
      simp only [segView, List.filter_cons, hs, if_true, segsOf, h]
      have := segsOf_filter r
      simp only [segView] at this
      rw [this]
    · have hs : isSegNode n = false := by simp [isSegNode, h]
      simp only [segView, List.filter_cons, hs, segsOf, h, if_false]
      exact segsOf_filter r

end Pyx12Verif.Xml
