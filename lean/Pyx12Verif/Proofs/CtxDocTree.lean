/-
Link between the per-round formulation of the tree part in `Model/CtxDoc.lean` (`treeStep`, folded by `cRunSegs`) and the
recursive `Ctx.runFrom` of `Model/CtxReader.lean` about which `Props/C09.lean` speaks:

`runFrom_round`       one unfolding of `Ctx.runFrom` is one `treeStep`
`cRunSegs_of_glue`    when the glue produces one round per segment (`GlueRun`) and `Ctx.runFrom` on the answers of those
                      rounds does not crash, the loop of `ctxDoc` runs to its end; what it has yielded, plus the tree still
                      open, is what `Ctx.runFrom` yields.
-/
import Pyx12Verif.Model.CtxDoc

namespace Pyx12Verif.Doc
open Pyx12Verif

theorem prepend_crash (ys : List Ctx.Yield) (r : Ctx.Run) : (r.prepend ys).crash = r.crash := rfl
theorem prepend_yields (ys : List Ctx.Yield) (r : Ctx.Run) : (r.prepend ys).yields = ys ++ r.yields := rfl

/-- one round of `Ctx.runFrom` that does not end in an exception is one `treeStep`; `hnp`: a node was yielded or stored
    before, or the matched node is the ISA node (so that the `has no parent` assertion holds) -/
theorem runFrom_round (lid : Option Ctx.LoopId) (cur : Option Ctx.Cursor) (hp : Bool) (r : CtxRound) (rest : List Ctx.Answer)
    (hnp : hp = true ∨ r.isaNode = true) (hc : (Ctx.runFrom lid cur hp (r.ans :: rest)).crash = none) :
    ∃ cur', (treeStep lid cur hp r).2 = .ok cur' ∧
      Ctx.runFrom lid cur hp (r.ans :: rest) = (Ctx.runFrom lid cur' true rest).prepend (treeStep lid cur hp r).1 := by
  simp only [Ctx.runFrom] at hc ⊢
  unfold treeStep
  cases h1 : Ctx.inReq lid r.ans with
  | true =>
    simp only [h1, if_true] at hc ⊢
    cases h2 : Ctx.isStart lid r.ans with
    | true =>
      simp only [h2, if_true] at hc ⊢
      cases ha : Ctx.addSegment (Ctx.freshTree r.ans) r.ans with
      | error e => rw [ha] at hc; cases hc
      | ok c => exact ⟨some c, rfl, rfl⟩
    | false =>
      simp only [h2, Bool.false_eq_true, if_false] at hc ⊢
      cases cur with
      | none => cases hc
      | some c =>
        simp only at hc ⊢
        cases ha : Ctx.addSegment c r.ans with
        | error e => rw [ha] at hc; cases hc
        | ok c' =>
          refine ⟨some c', rfl, ?_⟩
          simp only [Ctx.Run.prepend, List.nil_append]
  | false =>
    simp only [h1, Bool.false_eq_true, if_false] at hc ⊢
    cases h3 : Ctx.pushAssertFails lid hp r.ans with
    | true => simp only [h3, if_true] at hc; cases hc
    | false =>
      have hno : ¬ (hp = false ∧ r.isaNode = false) := by
        intro hh
        rcases hnp with h | h
        · rw [h] at hh; cases hh.1
        · rw [h] at hh; cases hh.2
      simp only [Bool.false_eq_true, if_false, hno]
      exact ⟨none, rfl, rfl⟩

/-- the glue produces one round per segment (no refusal, no exception) -/
def GlueRun (ms : Maps) (control : MapX) (d : Delims) :
    Nat → CState → List (List SegText.RErr × Seg) → List CtxRound → CState → Prop
  | _, st, [], rs, st' => rs = [] ∧ st' = st
  | k, st, p :: ps, rs, st' =>
    ∃ st1 r rs', cStepSeg ms control d k p.1 p.2 st = .next st1 r ∧ rs = r :: rs' ∧ GlueRun ms control d (k + 1) st1 ps rs' st'

def firstIsIsa : List CtxRound → Prop
  | [] => True
  | r :: _ => r.isaNode = true

/-- **the loop of `ctxDoc` against `Ctx.runFrom`** -/
theorem cRunSegs_of_glue (ms : Maps) (control : MapX) (d : Delims) (lid : Option Ctx.LoopId) :
    ∀ (ps : List (List SegText.RErr × Seg)) (k : Nat) (a : CAcc) (rs : List CtxRound) (st' : CState),
      GlueRun ms control d k a.st ps rs st' →
      (a.hasPrev = true ∨ firstIsIsa rs) →
      (Ctx.runFrom lid a.cur a.hasPrev (rs.map (·.ans))).crash = none →
      ∃ a', cRunSegs ms control d lid k a ps = .done a' ∧
        a'.yields ++ Ctx.emit a'.cur = a.yields ++ (Ctx.runFrom lid a.cur a.hasPrev (rs.map (·.ans))).yields ∧
        a'.segs = a.segs ++ ps.map (·.2) ∧ a'.rounds = a.rounds ++ rs ∧ a'.st = st' := by
  intro ps
  induction ps with
  | nil =>
    intro k a rs st' hg _ _
    obtain ⟨rfl, rfl⟩ := hg
    refine ⟨a, rfl, ?_, by simp, by simp, rfl⟩
    simp [Ctx.runFrom]
  | cons p ps ih =>
    intro k a rs st' hg hnp hc
    obtain ⟨st1, r, rs', hstep, rfl, hg'⟩ := hg
    simp only [List.map_cons] at hc ⊢
    have hnp' : a.hasPrev = true ∨ r.isaNode = true := hnp
    obtain ⟨cur', ht, hrun⟩ := runFrom_round lid a.cur a.hasPrev r (rs'.map (·.ans)) hnp' hc
    have hread1 : (a.read p.2).cur = a.cur := rfl
    have hread2 : (a.read p.2).hasPrev = a.hasPrev := rfl
    simp only [cRunSegs, hstep, cRound, hread1, hread2, ht, cAfterTree]
    rw [hrun, prepend_crash] at hc
    obtain ⟨a', h1, h2, h3, h4, h5⟩ := ih (k + 1)
      { a.read p.2 with st := st1, cur := cur', hasPrev := true,
                        yields := (a.read p.2).yields ++ (treeStep lid a.cur a.hasPrev r).1,
                        rounds := (a.read p.2).rounds ++ [r] } rs' st' hg' (Or.inl rfl) hc
    refine ⟨a', h1, ?_, ?_, ?_, h5⟩
    · rw [h2, hrun, prepend_yields]
      simp [CAcc.read, List.append_assoc]
    · rw [h3]; simp [CAcc.read, List.append_assoc]
    · rw [h4]; simp [CAcc.read, List.append_assoc]

end Pyx12Verif.Doc
