/-
HL bookkeeping: the reader's pop loop on `hl_stack` computes the ancestor chain that the table of chains
(`chainTable`, built by following parent links) assigns to the same HL.
-/
import Pyx12Verif.Spec.Envelope

namespace Pyx12Verif.Envelope

theorem chainsAux_snoc (tbl : List (List Nat)) (ps : List (Option Str)) (f : Option Str) :
    chainsAux tbl (ps ++ [f]) = chainsAux tbl ps ++ [nextChain (chainsAux tbl ps) f] := by
  induction ps generalizing tbl with
  | nil => simp [chainsAux]
  | cons g r ih => simp [chainsAux, ih]

theorem chainTable_snoc (ps : List (Option Str)) (f : Option Str) :
    chainTable (ps ++ [f]) = chainTable ps ++ [nextChain (chainTable ps) f] :=
  chainsAux_snoc [] ps f

theorem chainsAux_length (tbl : List (List Nat)) (ps : List (Option Str)) :
    (chainsAux tbl ps).length = tbl.length + ps.length := by
  induction ps generalizing tbl with
  | nil => simp [chainsAux]
  | cons g r ih => simp [chainsAux, ih]; omega

theorem chainTable_length (ps : List (Option Str)) : (chainTable ps).length = ps.length := by
  simp [chainTable, chainsAux_length]

/-- every suffix of a chain in the table is itself the table's chain of its first member -/
def Good (T : List (List Nat)) : Prop :=
  ∀ c ∈ T, ∀ k r, (k :: r) <:+ c → T[k - 1]? = some (k :: r)

theorem good_nil : Good [] := by intro c hc; simp at hc

theorem prevChain_mem (T : List (List Nat)) : prevChain T = [] ∨ prevChain T ∈ T := by
  unfold prevChain
  cases h : T.getLast? with
  | none => simp
  | some c => right; simpa using List.mem_of_getLast? h

theorem parentChain_mem (T : List (List Nat)) (f : Option Str) :
    parentChain T f = [] ∨ parentChain T f ∈ T := by
  unfold parentChain
  split
  · exact prevChain_mem T
  · split
    · simp
    · split
      · rename_i p _ _
        cases h : T[p.toNat - 1]? with
        | none => simp
        | some c => right; simpa using List.mem_of_getElem? h
      · simp

theorem good_snoc (T : List (List Nat)) (f : Option Str) (hT : Good T) : Good (T ++ [nextChain T f]) := by
  have old : ∀ c ∈ T, ∀ k r, (k :: r) <:+ c → (T ++ [nextChain T f])[k - 1]? = some (k :: r) := by
    intro c hc k r hs
    have h := hT c hc k r hs
    have hlt : k - 1 < T.length := by
      rcases Nat.lt_or_ge (k - 1) T.length with h' | h'
      · exact h'
      · rw [List.getElem?_eq_none h'] at h; cases h
    rw [List.getElem?_append_left hlt]; exact h
  intro c hc k r hs
  rcases List.mem_append.mp hc with hc | hc
  · exact old c hc k r hs
  · simp at hc
    subst hc
    unfold nextChain at hs
    rcases List.suffix_cons_iff.mp hs with heq | hs
    · injection heq with h1 h2
      subst h1; subst h2
      simp [nextChain]
    · rcases parentChain_mem T f with he | hm
      · rw [he] at hs; simp at hs
      · exact old _ hm k r hs

theorem good_chainsAux (tbl : List (List Nat)) (ps : List (Option Str)) (h : Good tbl) :
    Good (chainsAux tbl ps) := by
  induction ps generalizing tbl with
  | nil => simpa [chainsAux] using h
  | cons g r ih => simp only [chainsAux]; exact ih _ (good_snoc tbl g h)

theorem good_chainTable (ps : List (Option Str)) : Good (chainTable ps) :=
  good_chainsAux [] ps good_nil

/-! the reader's loop -/

theorem popUntil_none (l : List Nat) : popUntil none l = [] := by
  induction l with
  | nil => rfl
  | cons k r ih => simp [popUntil, ih]

theorem popUntil_not_mem (p : Int) (l : List Nat) (h : p ∉ l.map natInt) : popUntil (some p) l = [] := by
  induction l with
  | nil => rfl
  | cons k r ih =>
    simp only [List.map_cons, List.mem_cons, not_or] at h
    simp [popUntil, h.1, ih h.2]

theorem popUntil_mem (k : Nat) (l : List Nat) (h : k ∈ l) :
    ∃ r, (k :: r) <:+ l ∧ popUntil (some (natInt k)) l = k :: r := by
  induction l with
  | nil => cases h
  | cons j r ih =>
    by_cases e : k = j
    · subst e; exact ⟨r, List.suffix_refl _, by simp [popUntil]⟩
    · have hm : k ∈ r := by
        rcases List.mem_cons.mp h with h | h
        · exact absurd h e
        · exact h
      obtain ⟨r', hs, hp⟩ := ih hm
      refine ⟨r', List.IsSuffix.trans hs (List.suffix_cons _ _), ?_⟩
      have : ¬ (natInt k = natInt j) := by intro h'; exact e (natInt_inj h')
      simp only [popUntil, Option.some.injEq, this, if_false]
      exact hp

theorem inStack_iff (st : List Nat) (f : Option Str) :
    inStack (fieldInt f) st = true ↔ ValidParent st f := by
  unfold inStack ValidParent
  cases h : fieldInt f with
  | none => simp
  | some i =>
    simp only [decide_eq_true_eq, List.mem_map]
    constructor
    · rintro ⟨k, hk, e⟩; exact ⟨k, hk, by rw [e]⟩
    · rintro ⟨k, hk, e⟩; exact ⟨k, hk, by injection e with e; exact e.symm⟩

/-- the pop loop lands on the table's chain of the parent -/
theorem popUntil_eq_parentChain (T : List (List Nat)) (f : Option Str) (hT : Good T) (hf : f ≠ some []) :
    popUntil (fieldInt f) (prevChain T) = parentChain T f := by
  unfold parentChain
  rw [if_neg hf]
  cases h : fieldInt f with
  | none => simp [popUntil_none]
  | some p =>
    simp only
    by_cases hm : p ∈ (prevChain T).map natInt
    · rw [if_pos hm]
      obtain ⟨k, hk, e⟩ := List.mem_map.mp hm
      subst e
      obtain ⟨r, hs, hp⟩ := popUntil_mem k (prevChain T) hk
      rw [hp]
      have hin : prevChain T ∈ T := by
        rcases prevChain_mem T with h0 | h1
        · rw [h0] at hk; cases hk
        · exact h1
      have := hT _ hin k r hs
      simp [natInt_toNat, this]
    · rw [if_neg hm]; exact popUntil_not_mem p _ hm

theorem prevChain_snoc (T : List (List Nat)) (c : List Nat) : prevChain (T ++ [c]) = c := by
  simp [prevChain]

end Pyx12Verif.Envelope
