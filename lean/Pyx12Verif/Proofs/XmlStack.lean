/- C08 helper lemmas: the writer's stack and the reader's context over the events of one `seg()` call. -/
import Pyx12Verif.Spec.XmlSpec

namespace Pyx12Verif.Xml
open Pyx12Verif.Segment (PyIdx pyPred SegObj Comp Got)

/-! ### writer stack -/

def loopTags (n : Nat) : List Str := List.replicate n tagLoop

theorem loopTags_succ (n : Nat) : loopTags (n + 1) = loopTags n ++ [tagLoop] := by
  simp [loopTags, List.replicate_succ']

theorem pop_snoc (s : List Str) (t : Str) (o : List Ev) : W.pop ⟨s ++ [t], o⟩ = ⟨s, o ++ [.stop t]⟩ := by
  simp [W.pop]

theorem popN_loops (b : List Str) (k : Nat) : ∀ (n : Nat) (o : List Ev), k ≤ n →
    popN k ⟨b ++ loopTags n, o⟩ = ⟨b ++ loopTags (n - k), o ++ List.replicate k (.stop tagLoop)⟩ := by
  induction k with
  | zero => intro n o _; simp [popN]
  | succ k ih =>
    intro n o h
    obtain ⟨m, rfl⟩ : ∃ m, n = m + 1 := ⟨n - 1, by omega⟩
    rw [popN, loopTags_succ, ← List.append_assoc, pop_snoc, ih m _ (by omega)]
    simp [List.replicate_succ]

theorem pushAll_eq (ls : List Str) : ∀ (s : List Str) (o : List Ev),
    pushAll ls ⟨s, o⟩ = ⟨s ++ loopTags ls.length, o ++ ls.map (fun l => Ev.start tagLoop (some l))⟩ := by
  induction ls with
  | nil => intro s o; simp [pushAll, loopTags]
  | cons l r ih =>
    intro s o
    rw [pushAll, W.push, ih]
    simp [loopTags, List.replicate_succ]

theorem loopTags_add (a b : Nat) : loopTags a ++ loopTags b = loopTags (a + b) := by
  simp [loopTags]

/-! ### `_get_path_match_idx` -/

theorem pmi_le_left : ∀ (last cur : List Str), pathMatchIdx last cur ≤ last.length
  | [], _ => by simp [pathMatchIdx]
  | _ :: _, [] => by simp [pathMatchIdx]
  | a :: r, b :: s => by
    simp only [pathMatchIdx]
    split
    · have := pmi_le_left r s; simp; omega
    · simp

theorem pmi_le_right : ∀ (last cur : List Str), pathMatchIdx last cur ≤ cur.length
  | [], _ => by simp [pathMatchIdx]
  | _ :: _, [] => by simp [pathMatchIdx]
  | a :: r, b :: s => by
    simp only [pathMatchIdx]
    split
    · have := pmi_le_right r s; simp; omega
    · simp

theorem pmi_take : ∀ (last cur : List Str), last.take (pathMatchIdx last cur) = cur.take (pathMatchIdx last cur)
  | [], _ => by simp [pathMatchIdx]
  | _ :: _, [] => by simp [pathMatchIdx]
  | a :: r, b :: s => by
    simp only [pathMatchIdx]
    split
    · rename_i h; subst h; simp [pmi_take r s]
    · simp

theorem pmi_of_prefix : ∀ (last cur : List Str), cur <+: last → pathMatchIdx last cur = cur.length
  | [], cur => by intro h; have := List.prefix_nil.mp h; subst this; simp [pathMatchIdx]
  | _ :: _, [] => by simp [pathMatchIdx]
  | a :: r, b :: s => by
    intro h
    rw [List.cons_prefix_cons] at h
    obtain ⟨h1, h2⟩ := h
    subst h1
    simp [pathMatchIdx, pmi_of_prefix r s h2]

/-- the two paths differ right after the matched part (when both go on) -/
theorem pmi_differ : ∀ (last cur : List Str), pathMatchIdx last cur < last.length → pathMatchIdx last cur < cur.length →
    last[pathMatchIdx last cur]? ≠ cur[pathMatchIdx last cur]?
  | [], _ => by simp [pathMatchIdx]
  | _ :: _, [] => by simp [pathMatchIdx]
  | a :: r, b :: s => by
    simp only [pathMatchIdx]
    split
    · intro h1 h2
      simp only [List.length_cons] at h1 h2
      simpa using pmi_differ r s (by omega) (by omega)
    · rename_i h; intro _ _; simpa using h

/-! ### the reader's context -/

/-- `evs` leads a reader from context `c` to `c'`, meeting the `seg` elements `segs`; contexts never run empty -/
def Moves (evs : List Ev) (c c' : Ctx) (segs : List (Ctx × Option Str)) : Prop :=
  ∀ rest, ctxAfter c (evs ++ rest) = ctxAfter c' rest ∧ segCtxs c (evs ++ rest) = segs ++ segCtxs c' rest
    ∧ wfInside c (evs ++ rest) = wfInside c' rest

theorem Moves.nil (c : Ctx) : Moves [] c c [] := by intro rest; simp

theorem Moves.append {e1 e2 : List Ev} {c c' c'' : Ctx} {s1 s2 : List (Ctx × Option Str)}
    (h1 : Moves e1 c c' s1) (h2 : Moves e2 c' c'' s2) : Moves (e1 ++ e2) c c'' (s1 ++ s2) := by
  intro rest
  obtain ⟨a1, a2, a3⟩ := h1 (e2 ++ rest)
  obtain ⟨b1, b2, b3⟩ := h2 rest
  simp only [List.append_assoc]
  exact ⟨a1.trans b1, by rw [a2, b2], a3.trans b3⟩

theorem Moves.leaf (c : Ctx) (hc : c ≠ []) (t i x : Str) : Moves [.leaf t i x] c c [] := by
  intro rest
  have : c.isEmpty = false := by cases c <;> simp_all
  simp [ctxAfter, ctxStep, segCtxs, wfInside, this]

theorem Moves.start (c : Ctx) (t : Str) (i : Option Str) (ht : t ≠ tagSeg) : Moves [.start t i] c (c ++ [(t, i)]) [] := by
  intro rest
  simp [ctxAfter, ctxStep, segCtxs, wfInside, ht]

theorem Moves.startSeg (c : Ctx) (i : Option Str) : Moves [.start tagSeg i] c (c ++ [(tagSeg, i)]) [(c, i)] := by
  intro rest
  simp [ctxAfter, ctxStep, segCtxs, wfInside]

theorem Moves.stop (c : Ctx) (hc : c ≠ []) (t : Str) (i : Option Str) : Moves [.stop t] (c ++ [(t, i)]) c [] := by
  intro rest
  have : c.isEmpty = false := by cases c <;> simp_all
  simp [ctxAfter, ctxStep, segCtxs, wfInside, this]

/-- events that change nothing for the reader in any non-empty context -/
def Neutral (evs : List Ev) : Prop := ∀ c : Ctx, c ≠ [] → Moves evs c c []

theorem Neutral.nil : Neutral [] := fun c _ => Moves.nil c

theorem Neutral.append {a b : List Ev} (ha : Neutral a) (hb : Neutral b) : Neutral (a ++ b) :=
  fun c hc => by simpa using (ha c hc).append (hb c hc)

theorem Neutral.leaf (t i x : Str) : Neutral [.leaf t i x] := fun c hc => Moves.leaf c hc t i x

theorem Neutral.wrap {body : List Ev} (hb : Neutral body) (t : Str) (i : Option Str) (ht : t ≠ tagSeg) :
    Neutral (.start t i :: body ++ [.stop t]) := by
  intro c hc
  have h1 := Moves.start c t i ht
  have h2 := hb (c ++ [(t, i)]) (by simp)
  have h3 := Moves.stop c hc t i
  simpa using (h1.append h2).append h3

/-- a whole `seg` element in context `c` -/
theorem Moves.segElem {body : List Ev} (hb : Neutral body) (c : Ctx) (hc : c ≠ []) (i : Option Str) :
    Moves (.start tagSeg i :: body ++ [.stop tagSeg]) c c [(c, i)] := by
  have h1 := Moves.startSeg c i
  have h2 := hb (c ++ [(tagSeg, i)]) (by simp)
  have h3 := Moves.stop c hc tagSeg i
  simpa using (h1.append h2).append h3

theorem spell_ne_nil (p : List Str) : spell p ≠ [] := by simp [spell]

theorem spell_snoc (p : List Str) (a : Str) : spell (p ++ [a]) = spell p ++ [(tagLoop, some a)] := by
  simp [spell]

theorem tagLoop_ne_tagSeg : tagLoop ≠ tagSeg := by decide
theorem tagComp_ne_tagSeg : tagComp ≠ tagSeg := by decide

/-- `q.length` end tags of `loop` close the loops `q` -/
theorem Moves.stops (q : List Str) : ∀ p : List Str,
    Moves (List.replicate q.length (.stop tagLoop)) (spell (p ++ q)) (spell p) [] := by
  induction q with
  | nil => intro p; simpa using Moves.nil (spell p)
  | cons a r ih =>
    intro p
    have h1 := ih (p ++ [a])
    have h2 := Moves.stop (spell p) (spell_ne_nil p) tagLoop (some a)
    rw [← spell_snoc] at h2
    have := h1.append h2
    simpa [List.replicate_succ'] using this

/-- start tags of the loops `q` open them -/
theorem Moves.starts (q : List Str) : ∀ p : List Str,
    Moves (q.map (fun l => Ev.start tagLoop (some l))) (spell p) (spell (p ++ q)) [] := by
  induction q with
  | nil => intro p; simpa using Moves.nil (spell p)
  | cons a r ih =>
    intro p
    have h1 := Moves.start (spell p) tagLoop (some a) tagLoop_ne_tagSeg
    rw [← spell_snoc] at h1
    have h2 := ih (p ++ [a])
    simpa using h1.append h2

end Pyx12Verif.Xml
