/-
Helper lemmas for Props/DocSinks.lean: what the rounds of a completed run are, what a node view is, how the XML steps and
the HTML (segment, annotation) pairs follow the rounds one to one.
-/
import Pyx12Verif.Model.DocSinks

namespace Pyx12Verif.Doc
open Pyx12Verif

theorem consOpt_eq_some {α : Type} (a : α) (o : Option (List α)) (l : List α) (h : consOpt a o = some l) :
    ∃ r, o = some r ∧ l = a :: r := by
  cases o with
  | none => simp [consOpt] at h
  | some r => simp only [consOpt, Option.some.injEq] at h; exact ⟨r, rfl, h.symm⟩

/-- two lists of the same length whose entries are related position by position -/
inductive Paired {α β : Type} (R : α → β → Prop) : List α → List β → Prop
  | nil : Paired R [] []
  | cons {a : α} {b : β} {as : List α} {bs : List β} : R a b → Paired R as bs → Paired R (a :: as) (b :: bs)

/-! ### node views -/

theorem nodeView_spec (ms : Maps) (k : Option (Str × List Nat)) (v : NodeView) (h : nodeView ms k = some v) :
    k = some (v.file, v.ip) ∧ findMap ms v.file = some v.map ∧ lookupDef v.map v.ip = some v.sd ∧
      loopsTo v.map.root v.ip = some v.loops ∧ strsOf v.map v.loops = some v.path := by
  cases k with
  | none => simp [nodeView] at h
  | some k =>
    obtain ⟨file, ip⟩ := k
    simp only [nodeView] at h
    cases hm : findMap ms file with
    | none => simp [hm, viewMap] at h
    | some m =>
      simp only [hm, viewMap] at h
      cases hd : lookupDef m ip with
      | none => simp [hd, viewDef] at h
      | some sd =>
        simp only [hd, viewDef] at h
        cases hl : loopsTo m.root ip with
        | none => simp [hl, viewLoops] at h
        | some l =>
          simp only [hl, viewLoops] at h
          cases hp : strsOf m l with
          | none => simp [hp, viewFrom] at h
          | some p =>
            simp only [hp, viewFrom, Option.some.injEq] at h
            subst h
            exact ⟨rfl, hm, hd, hl, hp⟩

theorem findMap_in_maps (ms : Maps) (file : Str) (m : MapX) (h : findMap ms file = some m) : m ∈ ms.maps :=
  List.mem_of_find?_eq_some h

/-! ### rounds -/

theorem zipExact_fst {α β : Type} : ∀ (as : List α) (bs : List β) (l : List (α × β)), zipExact as bs = some l →
    l.map (·.1) = as ∧ l.map (·.2) = bs
  | [], [], l => by intro h; simp only [zipExact, Option.some.injEq] at h; subst h; simp
  | [], _ :: _, l => by intro h; simp [zipExact] at h
  | _ :: _, [], l => by intro h; simp [zipExact] at h
  | a :: r, b :: s, l => by
    intro h
    simp only [zipExact] at h
    obtain ⟨t, ht, rfl⟩ := consOpt_eq_some _ _ _ h
    obtain ⟨h1, h2⟩ := zipExact_fst r s t ht
    simp [h1, h2]

theorem zipExact_some_of_length {α β : Type} : ∀ (as : List α) (bs : List β), as.length = bs.length →
    ∃ l, zipExact as bs = some l
  | [], [], _ => ⟨[], rfl⟩
  | [], _ :: _, h => by simp at h
  | _ :: _, [], h => by simp at h
  | a :: r, b :: s, h => by
    obtain ⟨l, hl⟩ := zipExact_some_of_length r s (by simpa using h)
    exact ⟨(a, b) :: l, by simp [zipExact, hl, consOpt]⟩

/-- the rounds of a completed run: a verdict, one round per reader segment, carrying the model's per-segment results -/
theorem roundsOf_spec (r : DocResult) (rr : SegText.ReadResult) (rounds : List Round) (h : roundsOf r rr = some rounds) :
    (∃ b, r.outcome = .verdict b) ∧ rounds.map (·.1) = r.segs ∧ rounds.map (·.2) = rr.segs.map (·.2) := by
  unfold roundsOf at h
  split at h
  · rename_i b hb
    exact ⟨⟨b, hb⟩, zipExact_fst _ _ _ h⟩
  · simp at h

/-! ### the XML steps follow the rounds -/

theorem xmlSteps_spec (ms : Maps) (d : Delims) : ∀ (rounds : List Round) (steps : List Xml.Step),
    xmlSteps ms d rounds = some steps →
    Paired (fun (p : Round) (x : Xml.Step) => ∃ v, nodeView ms p.1.node = some v ∧ x = xmlStepOf d p.2 v) rounds steps
  | [], steps => by intro h; simp only [xmlSteps, Option.some.injEq] at h; subst h; exact .nil
  | p :: r, steps => by
    intro h
    simp only [xmlSteps] at h
    split at h
    · simp at h
    · rename_i v hv
      obtain ⟨t, ht, rfl⟩ := consOpt_eq_some _ _ _ h
      exact .cons ⟨v, hv, rfl⟩ (xmlSteps_spec ms d r t ht)

/-- `docSteps` unfolded: header, reader result, rounds, one `seg()` call per round with the view of the round's node -/
theorem docSteps_spec (ms : Maps) (ctx : Ctx) (text : List Char) (steps : List Xml.Step) (h : docSteps ms ctx text = some steps) :
    ∃ hd rr rounds, SegText.readAll { rest := text, sizes := [] } = .ok hd rr ∧
      roundsOf (validateRead ms ctx hd rr) rr = some rounds ∧
      Paired (fun (p : Round) (x : Xml.Step) =>
        ∃ v, nodeView ms p.1.node = some v ∧ x = xmlStepOf (SegText.delimsOf hd) p.2 v) rounds steps := by
  unfold docSteps at h
  split at h
  · simp at h
  · rename_i hd rr hread
    cases hr : roundsOf (validateRead ms ctx hd rr) rr with
    | none => simp [hr, stepsOfRounds] at h
    | some rounds =>
      simp only [hr, stepsOfRounds] at h
      exact ⟨hd, rr, rounds, hread, hr, xmlSteps_spec ms _ rounds steps h⟩

theorem Paired.mem_right {α β : Type} {R : α → β → Prop} : ∀ {as : List α} {bs : List β}, Paired R as bs →
    ∀ b ∈ bs, ∃ a ∈ as, R a b
  | _, _, .nil => by intro b hb; simp at hb
  | _, _, .cons h t => by
    intro b hb
    rcases List.mem_cons.1 hb with rfl | hb
    · exact ⟨_, by simp, h⟩
    · obtain ⟨a, ha, hr⟩ := Paired.mem_right t b hb
      exact ⟨a, by simp [ha], hr⟩

end Pyx12Verif.Doc
