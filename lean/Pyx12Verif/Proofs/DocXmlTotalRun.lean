/-
The whole XML sink never raises on a run whose nodes have well-formed ids and in which no first-in-loop segment has an
empty loop path:

  transition_total  the loop bookkeeping of `seg()` raises only at `cur_path[-1]` of an empty path, and only for a
                    first-in-loop segment — whatever the writer's stack is (no use of C08's `Agree` / `GoodFrom`: where the
                    character-wise `commonprefix` test misfires the output is wrong, but nothing raises)
  segStepG_total    one `seg()` call (with `XmlG.segOutG_total`)
  runG_total        all calls of a document, from any state
  docEventsG_total  `x12xml_simple(fd)`, the calls, `del xmldoc`
  docEventsG_total_of_good   the same from C08's run hypothesis `GoodFrom`
-/
import Pyx12Verif.Proofs.DocXmlTotalSeg

namespace Pyx12Verif.Doc.XmlG
open Pyx12Verif Pyx12Verif.Xml

theorem getLast?_of_ne_nil {α : Type} (l : List α) (h : l ≠ []) : ∃ a, l.getLast? = some a := by
  cases hl : l.getLast? with
  | none => exact absurd (List.getLast?_eq_none_iff.1 hl) h
  | some a => exact ⟨a, rfl⟩

/-- `seg()` before the segment itself: IndexError needs a first-in-loop segment with an empty loop path -/
theorem transition_total (last cur : List Str) (first : Bool) (w : W) (hne : first = true → cur ≠ []) :
    ∃ w', transition last cur first w = .ok w' := by
  unfold transition
  split
  · rename_i hA
    simp only [Bool.and_eq_true] at hA
    obtain ⟨l, hl⟩ := getLast?_of_ne_nil cur (hne hA.2)
    exact ⟨w.pop.push tagLoop (some l), by simp only [hl]⟩
  · cases hm : matchIdx last cur first with
    | nat k => exact ⟨pushAll (cur.drop k) (popN (popCount last.length (.nat k)) w), by simp only [pushFrom]⟩
    | neg1 =>
      have hf : first = true := by
        unfold matchIdx at hm
        split at hm
        · rename_i hc
          simp only [Bool.and_eq_true] at hc
          exact hc.1
        · cases hm
      obtain ⟨l, hl⟩ := getLast?_of_ne_nil cur (hne hf)
      exact ⟨pushAll cur ((popN (popCount last.length .neg1) w).push tagLoop (some l)), by simp only [pushFrom, hl]⟩

theorem segStepG_total (st : Xml.St) (x : Xml.Step) (hne : x.first = true → x.path ≠ []) (hw : wfIds x.node = true) :
    ∃ r, segStepG st x = .ok r := by
  obtain ⟨w, ht⟩ := transition_total st.lastPath x.path x.first ⟨st.stack, []⟩ hne
  obtain ⟨w', hw'⟩ := segOutG_total x.node hw x.seg w
  exact ⟨(⟨x.path, w'.stack⟩, w'.out), by simp only [segStepG, ht, hw']⟩

theorem runG_total : ∀ (steps : List Xml.Step) (st : Xml.St),
    (∀ x ∈ steps, (x.first = true → x.path ≠ []) ∧ wfIds x.node = true) → ∃ r, runG st steps = .ok r
  | [], _, _ => ⟨_, rfl⟩
  | x :: r, st, h => by
    obtain ⟨⟨st1, evs⟩, h1⟩ := segStepG_total st x (h x (by simp)).1 (h x (by simp)).2
    obtain ⟨⟨st2, evs2⟩, h2⟩ := runG_total r st1 (fun y hy => h y (by simp [hy]))
    exact ⟨(st2, evs ++ evs2), by simp only [runG, h1, h2]⟩

/-- **the XML sink completes**: well-formed ids of every node and a non-empty loop path of every first-in-loop segment
    suffice — the data is arbitrary -/
theorem docEventsG_total (steps : List Xml.Step)
    (h : ∀ x ∈ steps, (x.first = true → x.path ≠ []) ∧ wfIds x.node = true) : ∃ evs, docEventsG steps = .ok evs := by
  obtain ⟨⟨st, evs⟩, h'⟩ := runG_total steps initSt h
  exact ⟨initEvs ++ evs ++ delEvs st, by simp only [docEventsG, h']⟩

theorem first_of_good : ∀ (steps : List Xml.Step) (last : List Str), GoodFrom last steps →
    ∀ x ∈ steps, x.first = true → x.path ≠ []
  | [], _, _ => by intro x hx; cases hx
  | y :: r, _, hg => by
    intro x hx
    rcases List.mem_cons.1 hx with rfl | hx
    · exact hg.1
    · exact first_of_good r y.path hg.2.2 x hx

/-- … in particular on C08's run hypothesis -/
theorem docEventsG_total_of_good (steps : List Xml.Step) (hg : GoodFrom [] steps) (hw : ∀ x ∈ steps, wfIds x.node = true) :
    ∃ evs, docEventsG steps = .ok evs :=
  docEventsG_total steps (fun x hx => ⟨first_of_good steps [] hg x hx, hw x hx⟩)

end Pyx12Verif.Doc.XmlG

namespace Pyx12Verif.Doc.XmlG
open Pyx12Verif Pyx12Verif.Xml

/-- … and that IndexError is there: a first-in-loop segment with an empty loop path always raises -/
theorem transition_empty_first (last : List Str) (w : W) : transition last [] true w = .error .index := by
  cases last with
  | nil => rfl
  | cons a r =>
    have h1 : ((a :: r) == ([] : List Str) && true) = false := rfl
    have h2 : matchIdx (a :: r) [] true = .neg1 := by
      simp [matchIdx, rootPath, pathMatchIdx, Segment.pyPred, Path.joinWith, commonPrefix, pathList, Path.splitOn]
    simp only [transition, h1, h2, pushFrom]
    rfl

/-- the exact condition under which the loop bookkeeping of `seg()` completes -/
theorem transition_ok_iff (last cur : List Str) (first : Bool) (w : W) :
    (∃ w', transition last cur first w = .ok w') ↔ (first = true → cur ≠ []) := by
  refine ⟨?_, transition_total last cur first w⟩
  rintro ⟨w', h⟩ hf hc
  subst hf hc
  rw [transition_empty_first] at h
  cases h

end Pyx12Verif.Doc.XmlG
