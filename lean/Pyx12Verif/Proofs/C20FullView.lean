/-
C20 (closing the `-f` statements), part 2: what the reader's bookkeeping sees of a segment after `Segment.format`
trimmed it (`normSeg`).

`get_value` prints a composite without its trailing empty components (`fmtComp`), so trimming changes no value that is
still there; the only change is that an element at the end that was `''` is now absent (`None`) — and an element 1
that was absent in a segment without elements is now `''`.  `int()` reads neither.  Hence the view of the trimmed
segment is `VSim`-related to the view of the segment.
-/
import Pyx12Verif.Proofs.NormNormal
import Pyx12Verif.Proofs.C20FullSim

namespace Pyx12Verif.Norm
open Pyx12Verif SegText Envelope
open Pyx12Verif.Segment hiding Seg Err

theorem trimTrail_cons {α : Type} (p : α → Bool) (y : α) (r : List α) :
    trimTrail p (y :: r) = if (trimTrail p r).isEmpty && p y then [] else y :: trimTrail p r := by
  unfold trimTrail
  rw [List.reverse_cons, List.dropWhile_append]
  by_cases h : (List.dropWhile p r.reverse).isEmpty = true
  · have h' : List.dropWhile p r.reverse = [] := List.isEmpty_iff.mp h
    simp only [if_true, h', List.reverse_nil, List.isEmpty_nil, Bool.true_and]
    by_cases hy : p y = true
    · simp [hy]
    · simp [hy]
  · simp [h]

theorem dte_eq_trim (r : List (List Char)) : dropTrailingEmpty r = trimTrail isEmptyVal r := by
  induction r with
  | nil => rfl
  | cons y r ih =>
    rw [trimTrail_cons, dropTrailingEmpty, ih]
    rfl

theorem cons_dte (x : List Char) (r : List (List Char)) : x :: dropTrailingEmpty r = normComp (x :: r) := by
  rw [dte_eq_trim]
  unfold normComp
  rw [trimTrail_cons]
  by_cases h : ((trimTrail isEmptyVal r).isEmpty && isEmptyVal x) = true
  · simp only [h, if_true]
    simp only [Bool.and_eq_true] at h
    obtain ⟨h1, h2⟩ := h
    have hx : x = [] := List.isEmpty_iff.mp h2
    have hr : trimTrail isEmptyVal r = [] := List.isEmpty_iff.mp h1
    rw [hx, hr]
  · simp [h]

/-- `get_value` of a composite prints its normal form -/
theorem fmtComp_norm (t : Char) (c : List (List Char)) (hc : c ≠ []) :
    fmtComp ⟨t, c⟩ = .ok (Path.joinWith t (normComp c)) := by
  cases c with
  | nil => exact absurd rfl hc
  | cons x r => simp only [fmtComp]; rw [cons_dte]

theorem fmtComp_normComp (t : Char) (c : List (List Char)) (hc : c ≠ []) :
    fmtComp ⟨t, normComp c⟩ = fmtComp ⟨t, c⟩ := by
  rw [fmtComp_norm t c hc, fmtComp_norm t _ (normComp_ne_nil c), normComp_idem]

/-- element 1 of the trimmed segment is the normal form of element 1 -/
theorem normElems_head (c : List (List Char)) (r : List (List (List Char))) :
    (normElems (c :: r))[0]? = some (normComp c) := by
  unfold normElems
  by_cases ht : trimTrail isEmptyComp (c :: r) = []
  · simp only [ht, if_true]
    rw [normComp_of_empty c (head_empty_of_trim_nil c r ht)]
    rfl
  · simp only [ht, if_false]
    rw [trimTrail_cons] at ht ⊢
    by_cases h : ((trimTrail isEmptyComp r).isEmpty && isEmptyComp c) = true
    · simp [h] at ht
    · simp [h]

/-- `get_value` of element 1 before and after trimming: the same text, except that the absent element 1 of a segment
    without elements becomes `''`; `int()` reads neither -/
theorem valAt_zero_norm (d : Delims) (s : Seg) (hc : ∀ c ∈ s.elems, c ≠ []) :
    ∃ x y, valAt d s 0 = .ok x ∧ valAt d (normSeg s) 0 = .ok y ∧ fieldInt x = fieldInt y := by
  cases he : s.elems with
  | nil =>
    refine ⟨none, some [], ?_, ?_, rfl⟩
    · simp [valAt, he]
    · simp [valAt, normSeg, he, normElems, trimTrail, fmtComp, fmtRes, dropTrailingEmpty, Path.joinWith]
  | cons c r =>
    have hcne : c ≠ [] := hc c (by rw [he]; simp)
    obtain ⟨x, hx⟩ := valAt_ok d s 0 hc
    refine ⟨x, x, hx, ?_, rfl⟩
    unfold valAt at hx ⊢
    have h0 : (normSeg s).elems[0]? = some (normComp c) := by
      simp only [normSeg, he]; exact normElems_head c r
    have h0' : s.elems[0]? = some c := by rw [he]; rfl
    rw [h0'] at hx
    rw [h0]
    simp only [normSeg] at hx ⊢
    rw [fmtComp_normComp _ c hcne]
    exact hx

theorem viewAt_cnt (d : Delims) (s : Seg) (v : SegView) (h : viewAt d s = .ok v) :
    (¬ (s.id = idHL ∨ s.id = idIEA ∨ s.id = idGE ∨ s.id = idSE) ∧ v.cnt = none) ∨
    ((s.id = idHL ∨ s.id = idIEA ∨ s.id = idGE ∨ s.id = idSE) ∧ valAt d s 0 = .ok v.cnt) := by
  unfold viewAt at h
  by_cases h1 : s.id = idISA
  · left
    refine ⟨by rw [h1]; decide, ?_⟩
    simp only [h1, if_true] at h
    split at h
    · obtain ⟨a, _, h⟩ := Res.bind_ok h; injection h with h; rw [← h]
    · injection h with h; rw [← h]
  simp only [h1, if_false] at h
  by_cases h2 : s.id = idGS
  · left
    refine ⟨by rw [h2]; decide, ?_⟩
    simp only [h2, if_true] at h
    obtain ⟨a, _, h⟩ := Res.bind_ok h; injection h with h; rw [← h]
  simp only [h2, if_false] at h
  by_cases h3 : s.id = idST
  · left
    refine ⟨by rw [h3]; decide, ?_⟩
    simp only [h3, if_true] at h
    obtain ⟨a, _, h⟩ := Res.bind_ok h; injection h with h; rw [← h]
  simp only [h3, if_false] at h
  by_cases h4 : s.id = idHL ∨ s.id = idIEA ∨ s.id = idGE ∨ s.id = idSE
  · right
    refine ⟨h4, ?_⟩
    simp only [h4, if_true] at h
    obtain ⟨a, ha, h⟩ := Res.bind_ok h
    obtain ⟨b, _, h⟩ := Res.bind_ok h
    injection h with h
    rw [← h]; exact ha
  · left
    refine ⟨h4, ?_⟩
    simp only [h4, if_false] at h
    injection h with h; rw [← h]

/-- the view of the trimmed segment: same identifier, a count element that `int()` reads alike -/
theorem view_norm (d : Delims) (s : Seg) (v : SegView) (hc : ∀ c ∈ s.elems, c ≠ []) (h : viewAt d s = .ok v) :
    ∃ w, viewAt d (normSeg s) = .ok w ∧ VSim v w ∧
      (w.id = idISA → (w.n16 = true ↔ (normSeg s).elems.length = 16)) := by
  obtain ⟨w, hw, hn⟩ := viewAt_ok d (normSeg s) (normSeg_comps_ne_nil s)
  refine ⟨w, hw, ⟨?_, ?_⟩, hn⟩
  · rw [viewAt_id d s v h, viewAt_id d _ w hw]; rfl
  · obtain ⟨x, y, hx, hy, hxy⟩ := valAt_zero_norm d s hc
    rcases viewAt_cnt d s v h with ⟨n1, e1⟩ | ⟨p1, e1⟩
    · rcases viewAt_cnt d _ w hw with ⟨_, e2⟩ | ⟨p2, _⟩
      · rw [e1, e2]
      · exact absurd p2 n1
    · rcases viewAt_cnt d _ w hw with ⟨n2, _⟩ | ⟨_, e2⟩
      · exact absurd p1 n2
      · rw [hx] at e1
        rw [hy] at e2
        injection e1 with e1
        injection e2 with e2
        rw [← e1, ← e2]; exact hxy

end Pyx12Verif.Norm
