/-
Helper lemmas for `Props/CtxDoc.lean` (a): which exceptions can leave the end-to-end context-reader model `Doc.ctxDoc`.

Glue side (`cStepSeg`): assembled from C01 `reader_never_crashes` / `reader_segments_nonEmpty`, C04 `Envelope.step_noCrash`
and the `get_value` lemmas of Props/C07.lean — the only crash the glue can produce is `nodeNone`.
Tree side (`treeStep`): the sites are `Ctx.Crash` and the `noParent` assertion by construction; with no loop id requested
none of them is reachable except `noParent`.
-/
import Pyx12Verif.Model.CtxDoc
import Pyx12Verif.Props.C07

namespace Pyx12Verif.Doc
open Pyx12Verif

/-- the crash sites the model leaves possible -/
def CSite.Allowed (s : CSite) : Prop := s = .nodeNone ∨ s = .noParent ∨ ∃ c, s = .reader c

def CStop.Ok : CStop → Prop
  | .crash s => s.Allowed
  | _ => True

/-! ### the glue -/

def CFound.Ok : CFound → Prop
  | .crash s => s = .nodeNone
  | _ => True

theorem cFind_ok (ms : Maps) (control : MapX) (d : Delims) (s : Seg) (st : CState) : (cFind ms control d s st).Ok := by
  unfold cFind
  split
  · trivial
  · split
    · trivial
    · cases st.node with
      | none => rfl
      | some cur => simp only [cWalk, cFoundOf]; trivial

def CBranch.Ok : CBranch → Prop
  | .stop (.crash s) => s = .nodeNone
  | _ => True

theorem cWithNewMap_ok (ms : Maps) (st : CState) (file : Option Str) (k : CState → MapX → CBranch)
    (hk : ∀ st m, (k st m).Ok) : (cWithNewMap ms st file k).Ok := by
  unfold cWithNewMap
  cases file with
  | none => trivial
  | some f =>
    simp only
    cases findMap ms f with
    | none => trivial
    | some m => exact hk _ m

theorem cGsTail_ok (ms : Maps) (orig : NodeRef) (st : CState) (m : MapX) : (cGsTail ms orig st m).Ok := by
  unfold cGsTail
  cases fetchIn ms m (gsPath ms) with
  | none => rfl
  | some n => trivial

theorem cGsBranch_ok (ms : Maps) (d : Delims) (s : Seg) (orig : NodeRef) (st : CState) : (cGsBranch ms d s orig st).Ok := by
  unfold cGsBranch
  split
  · exact cWithNewMap_ok ms _ _ _ (fun st m => cGsTail_ok ms orig _ m)
  · cases st.curMap with
    | none => rfl
    | some m => exact cGsTail_ok ms orig _ m

theorem cBhtSwitch_ok (ms : Maps) (pops : List Ctx.LPath) (pushes : List (Ctx.LPath × Nat)) (st : CState) (m : MapX) :
    (cBhtSwitch ms pops pushes st m).Ok := by
  unfold cBhtSwitch
  cases fetchIn ms m (bhtPath ms) with
  | none => rfl
  | some n => trivial

theorem cBranch_ok (ms : Maps) (d : Delims) (s : Seg) (orig : Option NodeRef) (st : CState) (n : NodeRef)
    (pops : List Ctx.LPath) (pushes : List (Ctx.LPath × Nat)) : (cBranch ms d s orig st n pops pushes).Ok := by
  unfold cBranch
  split
  · trivial
  · split
    · cases orig with
      | none => rfl
      | some o => exact cGsBranch_ok ms d s o st
    · split
      · unfold cBhtBranch
        split
        · split
          · exact cWithNewMap_ok ms _ _ _ (fun st m => cBhtSwitch_ok ms pops pushes st m)
          · trivial
        · trivial
      · trivial

def CStep.Ok : CStep → Prop
  | .stop (.crash s) => s = .nodeNone
  | _ => True

theorem cAfterBranch_ok (ms : Maps) (si : Ctx.SegInfo) (we : List Str) (re : List RdErr) (b : CBranch) (hb : b.Ok) :
    (cAfterBranch ms si we re b).Ok := by
  cases b with
  | go st n pops pushes => trivial
  | stop o =>
    cases o with
    | crash site => exact hb
    | _ => trivial

theorem cAfterFind_ok (ms : Maps) (d : Delims) (s : Seg) (si : Ctx.SegInfo) (re : List RdErr) (st : CState) (f : CFound)
    (hf : f.Ok) : (cAfterFind ms d s si re st f).Ok := by
  cases f with
  | crash site => exact hf
  | res n pops pushes cnt we =>
    cases n with
    | none =>
      simp only [cAfterFind]
      cases st.node with
      | none => rfl
      | some o => trivial
    | some x => exact cAfterBranch_ok ms si we re _ (cBranch_ok ms d s _ _ x pops pushes)

/-- the glue part of a round raises nothing but `nodeNone` -/
theorem cStepSeg_ok (ms : Maps) (control : MapX) (d : Delims) (k : Nat) (le : List SegText.RErr) (s : Seg) (st : CState)
    (hs : Pipeline.NonEmptyComps s) : (cStepSeg ms control d k le s st).Ok := by
  obtain ⟨v, hv⟩ := Pipeline.viewOf_isSome d s hs
  simp only [cStepSeg, hv, cWithView]
  have hstep := Envelope.step_noCrash st.rs v
  cases hr : Envelope.step Envelope.Fixes.all st.rs v with
  | crash e => exact absurd hr (hstep e)
  | raised => trivial
  | ok r => exact cAfterFind_ok ms d s _ _ _ _ (cFind_ok ms control d s _)

/-! ### the tree part -/

def TRes.Ok : TRes → Prop
  | .crash s => s = .noParent ∨ ∃ c, s = .reader c
  | .ok _ => True

theorem treeStep_ok (lid : Option Ctx.LoopId) (cur : Option Ctx.Cursor) (hp : Bool) (r : CtxRound) :
    (treeStep lid cur hp r).2.Ok := by
  unfold treeStep
  split
  · split
    · cases Ctx.addSegment (Ctx.freshTree r.ans) r.ans with
      | error e => exact Or.inr ⟨e, rfl⟩
      | ok c => trivial
    · cases cur with
      | none => exact Or.inr ⟨_, rfl⟩
      | some c =>
        simp only
        cases Ctx.addSegment c r.ans with
        | error e => exact Or.inr ⟨e, rfl⟩
        | ok c' => trivial
  · split
    · exact Or.inr ⟨_, rfl⟩
    · split
      · exact Or.inl rfl
      · trivial

/-- with no loop id requested only the `noParent` assertion is left -/
theorem treeStep_none_ok (cur : Option Ctx.Cursor) (hp : Bool) (r : CtxRound) (site : CSite)
    (h : (treeStep none cur hp r).2 = .crash site) : site = .noParent := by
  unfold treeStep at h
  simp only [Ctx.inReq, Bool.false_eq_true, if_false, Ctx.pushAssertFails] at h
  split at h
  · injection h with h; exact h.symm
  · cases h

/-! ### the loop -/

def CLoopEnd.Ok : CLoopEnd → Prop
  | .done _ => True
  | .stopped o _ => o.Ok

theorem cRound_ok (lid : Option Ctx.LoopId) (a : CAcc) (s : CStep) (hs : s.Ok) :
    match cRound lid a s with
    | .inl e => e.Ok
    | .inr _ => True := by
  cases s with
  | stop o =>
    cases o with
    | crash site => exact Or.inl hs
    | _ => trivial
  | next st r =>
    simp only [cRound]
    have ht := treeStep_ok lid a.cur a.hasPrev r
    cases hr : (treeStep lid a.cur a.hasPrev r).2 with
    | ok cur => trivial
    | crash site =>
      rw [hr] at ht
      simp only [cAfterTree]
      rcases ht with h | h
      · exact Or.inr (Or.inl h)
      · exact Or.inr (Or.inr h)

theorem cRunSegs_ok (ms : Maps) (control : MapX) (d : Delims) (lid : Option Ctx.LoopId) :
    ∀ (ps : List (List SegText.RErr × Seg)) (k : Nat) (a : CAcc), (∀ p ∈ ps, Pipeline.NonEmptyComps p.2) →
      (cRunSegs ms control d lid k a ps).Ok := by
  intro ps
  induction ps with
  | nil => intro k a _; trivial
  | cons p ps ih =>
    intro k a hps
    have h1 := cRound_ok lid (a.read p.2) _ (cStepSeg_ok ms control d k p.1 p.2 a.st (hps p (by simp)))
    simp only [cRunSegs]
    cases hr : cRound lid (a.read p.2) (cStepSeg ms control d k p.1 p.2 a.st) with
    | inl e => rw [hr] at h1; exact h1
    | inr a' => exact ih _ _ (fun q hq => hps q (List.mem_cons_of_mem _ hq))

theorem cFinish_ok (lid : Option Ctx.LoopId) (rr : SegText.ReadResult) (hcr : rr.crashed = false) (e : CLoopEnd)
    (he : e.Ok) : (cFinish lid rr e).stop.Ok := by
  cases e with
  | stopped o a => exact he
  | done a => simp only [cFinish, hcr, Bool.false_eq_true, if_false, outcomeOf]; trivial

/-! ### no loop id -/

def CStop.OkNone : CStop → Prop
  | .crash s => s = .nodeNone ∨ s = .noParent
  | _ => True

def CLoopEnd.OkNone : CLoopEnd → Prop
  | .done _ => True
  | .stopped o _ => o.OkNone

theorem cRunSegs_okNone (ms : Maps) (control : MapX) (d : Delims) :
    ∀ (ps : List (List SegText.RErr × Seg)) (k : Nat) (a : CAcc), (∀ p ∈ ps, Pipeline.NonEmptyComps p.2) →
      (cRunSegs ms control d none k a ps).OkNone := by
  intro ps
  induction ps with
  | nil => intro k a _; trivial
  | cons p ps ih =>
    intro k a hps
    have h0 := cStepSeg_ok ms control d k p.1 p.2 a.st (hps p (by simp))
    simp only [cRunSegs]
    cases hs : cStepSeg ms control d k p.1 p.2 a.st with
    | stop o =>
      rw [hs] at h0
      simp only [cRound]
      cases o with
      | crash site => exact Or.inl h0
      | _ => trivial
    | next st r =>
      simp only [cRound]
      cases hr : (treeStep none (a.read p.2).cur (a.read p.2).hasPrev r).2 with
      | ok cur => simp only [cAfterTree]; exact ih _ _ (fun q hq => hps q (List.mem_cons_of_mem _ hq))
      | crash site => simp only [cAfterTree]; exact Or.inr (treeStep_none_ok _ _ _ _ hr)

theorem cFinish_okNone (rr : SegText.ReadResult) (hcr : rr.crashed = false) (e : CLoopEnd)
    (he : e.OkNone) : (cFinish none rr e).stop.OkNone := by
  cases e with
  | stopped o a => exact he
  | done a => simp only [cFinish, hcr, Bool.false_eq_true, if_false, outcomeOf]; trivial

end Pyx12Verif.Doc
