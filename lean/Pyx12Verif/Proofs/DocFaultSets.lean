/-
Helper lemmas for `Props/DocFault.lean` (C03 at pipeline level): the error handler over whole lists of rounds.

* `BRound.Clean`  a round answered as for a conforming segment; `cleanSets` = what a list of such rounds does to the list of
                 set nodes (ST appends a fresh node, SE closes the last one); `clean_rounds_run`: no exception, `GS` kept.
* `BRound.FaultAt` a matched plain segment whose validation reports on ONE element node; `fault_round_run`.
* `BRound.WErrAt`  a round in which the walker reports one error that comes with `add_seg` (max use, repeat, mandatory
                 missing, not found), the segment itself — when a node was found — conforming; `werr_round_run`.
* `OneFault sg sets`: exactly one set holds a segment node, namely `sg`; no other error below the group.  Stable under
  everything conforming rounds do (`cleanSets_stable`).
* set by set: `cleanSets_set`, `cleanSets_sets`, `cleanSets_tail`.
-/
import Pyx12Verif.Proofs.DocFaultRun
import Pyx12Verif.Proofs.DocFaultSeg

namespace Pyx12Verif.Doc
open Pyx12Verif

/-! ### conforming rounds -/

/-- answered as for a conforming segment: a node, no walker report, `is_valid` true with error-free `add_ele` calls only -/
def BRound.Clean (r : BRound) : Prop :=
  r.node.isSome = true ∧ r.werrs = [] ∧ r.valid = true ∧ EleOnly r.evs ∧ Quiet r.evs

theorem BRound.Clean.events {r : BRound} (h : r.Clean) (m : MapX) (d : Delims) :
    r.events m d = headEvent d r.seg r.rs :: r.evs := by
  obtain ⟨h1, h2, _⟩ := h
  cases hn : r.node with
  | none => rw [hn] at h1; cases h1
  | some ip => simp [BRound.events, hn, h2, werrEvs]

theorem BRound.Clean.quiet {r : BRound} (h : r.Clean) (m : MapX) (d : Delims) : Quiet (r.events m d) := by
  rw [h.events m d]
  intro e he
  rcases List.mem_cons.1 he with rfl | he
  · exact headEvent_quiet d r.seg r.rs
  · exact h.2.2.2.2 e he

/-- the set nodes after conforming rounds -/
def cleanSets (d : Delims) : List ErrTree.St → List BRound → List ErrTree.St
  | sets, [] => sets
  | sets, r :: rest => cleanSets d (headSets d r.seg r.rs sets) rest

theorem cleanSets_append (d : Delims) : ∀ (r1 r2 : List BRound) (sets : List ErrTree.St),
    cleanSets d sets (r1 ++ r2) = cleanSets d (cleanSets d sets r1) r2
  | [], _, _ => rfl
  | r :: r1, r2, sets => by simp only [List.cons_append, cleanSets, cleanSets_append d r1 r2]

def seenAfter (seen : Bool) (ids : List Str) : Bool := seen || ids.any (fun i => decide (i = Envelope.idST))

theorem seOk_append : ∀ (a b : List Str) (seen : Bool), SeOk seen (a ++ b) ↔ SeOk seen a ∧ SeOk (seenAfter seen a) b
  | [], b, seen => by simp [SeOk, seenAfter]
  | i :: a, b, seen => by
    simp only [List.cons_append, SeOk, seOk_append a b, seenAfter, List.any_cons, and_assoc, Bool.or_assoc]

theorem seenAfter_append (seen : Bool) (a b : List Str) : seenAfter seen (a ++ b) = seenAfter (seenAfter seen a) b := by
  simp [seenAfter, Bool.or_assoc]

theorem modLast_ne_nil {α : Type} (f : α → α) (l : List α) (h : l ≠ []) : ErrTree.modLast f l ≠ [] := by
  obtain ⟨done, x, rfl⟩ : ∃ done x, l = done ++ [x] := ⟨l.dropLast, l.getLast h, (List.dropLast_concat_getLast h).symm⟩
  rw [modLast_append_single]; simp

theorem headSets_ne_nil (d : Delims) (seg : Seg) (rs : Envelope.RState) (sets : List ErrTree.St)
    (h : sets ≠ [] ∨ seg.id = Envelope.idST) : headSets d seg rs sets ≠ [] := by
  unfold headSets
  split
  · simp
  · rename_i hst
    have hs : sets ≠ [] := by
      rcases h with h | h
      · exact h
      · exact absurd h hst
    split
    · exact modLast_ne_nil _ _ hs
    · exact hs

/-- **conforming rounds**: the handler does not raise, the set list moves as `cleanSets` says -/
theorem clean_rounds_run (m : MapX) (d : Delims) : ∀ (rounds : List BRound) (s : ErrTree.State) (sets : List ErrTree.St)
    (seen : Bool), GS s sets → (∀ r ∈ rounds, r.Clean) → SeOk seen (rounds.map (·.seg.id)) → (seen = true → sets ≠ []) →
    ∃ s', ErrTree.run s (eventsOf m d rounds) = .ok s' ∧ GS s' (cleanSets d sets rounds) ∧
      (seenAfter seen (rounds.map (·.seg.id)) = true → cleanSets d sets rounds ≠ []) := by
  intro rounds
  induction rounds with
  | nil =>
    intro s sets seen h _ _ hs
    exact ⟨s, rfl, h, by simpa [seenAfter, cleanSets] using hs⟩
  | cons r rest ih =>
    intro s sets seen h hc hse hs
    have hr := hc r (by simp)
    simp only [List.map_cons, SeOk] at hse
    obtain ⟨s1, hs1, hg1⟩ := quiet_round h d r.seg r.rs r.evs hr.2.2.2.1 hr.2.2.2.2 (fun hid => hs (hse.1 hid))
    have hs' : (seen || decide (r.seg.id = Envelope.idST)) = true → headSets d r.seg r.rs sets ≠ [] := by
      intro hx
      apply headSets_ne_nil
      cases hseen : seen with
      | true => exact Or.inl (hs hseen)
      | false => rw [hseen] at hx; simp at hx; exact Or.inr hx
    obtain ⟨s2, hs2, hg2, hn2⟩ := ih s1 _ _ hg1 (fun x hx => hc x (List.mem_cons_of_mem _ hx)) hse.2 hs'
    refine ⟨s2, ?_, hg2, ?_⟩
    · rw [eventsOf_cons, hr.events m d, run_append, hs1]
      exact hs2
    · intro hx
      apply hn2
      simpa [seenAfter, Bool.or_assoc] using hx

theorem cleanSets_stable (P : List ErrTree.St → Prop) (h1 : ∀ sets x, P sets → P (sets ++ [ErrTree.mkSt x]))
    (h2 : ∀ sets, P sets → P (ErrTree.modLast ErrTree.St.close sets)) (d : Delims) :
    ∀ (rounds : List BRound) (sets : List ErrTree.St), P sets → P (cleanSets d sets rounds) := by
  intro rounds
  induction rounds with
  | nil => intro sets h; exact h
  | cons r rest ih =>
    intro sets h
    apply ih
    unfold headSets
    split
    · exact h1 _ _ h
    · split
      · exact h2 _ h
      · exact h

/-! ### predicates on the set list -/

/-- no set holds a segment node or an error of its own -/
def NoFault (sets : List ErrTree.St) : Prop := ∀ st ∈ sets, st.children = [] ∧ st.errors = []

theorem NoFault.nil : NoFault [] := by intro st h; cases h

theorem NoFault.append {a b : List ErrTree.St} (ha : NoFault a) (hb : NoFault b) : NoFault (a ++ b) := by
  intro st h
  rcases List.mem_append.1 h with h | h
  · exact ha st h
  · exact hb st h

theorem NoFault.single_mkSt (x : ErrTree.StData) : NoFault [ErrTree.mkSt x] := by
  intro st h; simp at h; subst h; exact ⟨rfl, rfl⟩

theorem NoFault.modLast_close : ∀ (sets : List ErrTree.St), NoFault sets → NoFault (ErrTree.modLast ErrTree.St.close sets) := by
  intro sets h
  by_cases hs : sets = []
  · subst hs; exact h
  · obtain ⟨done, x, rfl⟩ : ∃ done x, sets = done ++ [x] :=
      ⟨sets.dropLast, sets.getLast hs, (List.dropLast_concat_getLast hs).symm⟩
    rw [modLast_append_single]
    intro st hst
    rcases List.mem_append.1 hst with h' | h'
    · exact h st (List.mem_append_left _ h')
    · simp at h'; subst h'
      exact h x (by simp)

theorem noFault_cleanSets (d : Delims) (rounds : List BRound) (sets : List ErrTree.St) (h : NoFault sets) :
    NoFault (cleanSets d sets rounds) :=
  cleanSets_stable NoFault (fun _ x hs => hs.append (NoFault.single_mkSt x)) NoFault.modLast_close d rounds sets h

/-- exactly one set holds a segment node, `sg`, and nothing else is wrong below the group -/
def OneFault (sg : ErrTree.Seg) (sets : List ErrTree.St) : Prop :=
  ∃ done x more, sets = done ++ x :: more ∧ x.children = [sg] ∧ x.errors = [] ∧ NoFault (done ++ more)

theorem OneFault.modLast_close (sg : ErrTree.Seg) (sets : List ErrTree.St) (h : OneFault sg sets) :
    OneFault sg (ErrTree.modLast ErrTree.St.close sets) := by
  obtain ⟨done, x, more, rfl, hx1, hx2, hn⟩ := h
  by_cases hm : more = []
  · subst hm
    rw [modLast_append_single]
    exact ⟨done, x.close, [], rfl, hx1, hx2, hn⟩
  · obtain ⟨more', y, rfl⟩ : ∃ more' y, more = more' ++ [y] :=
      ⟨more.dropLast, more.getLast hm, (List.dropLast_concat_getLast hm).symm⟩
    have e : done ++ x :: (more' ++ [y]) = (done ++ x :: more') ++ [y] := by simp
    rw [e, modLast_append_single]
    refine ⟨done, x, more' ++ [y.close], by simp, hx1, hx2, ?_⟩
    intro st hst
    have hy := hn y (by simp)
    simp only [List.mem_append, List.mem_singleton] at hst
    rcases hst with h' | h' | h'
    · exact hn st (by simp [h'])
    · exact hn st (by simp [h'])
    · subst h'; exact hy

theorem OneFault.append_mkSt (sg : ErrTree.Seg) (sets : List ErrTree.St) (x : ErrTree.StData) (h : OneFault sg sets) :
    OneFault sg (sets ++ [ErrTree.mkSt x]) := by
  obtain ⟨done, y, more, rfl, hx1, hx2, hn⟩ := h
  refine ⟨done, y, more ++ [ErrTree.mkSt x], by simp, hx1, hx2, ?_⟩
  have := hn.append (NoFault.single_mkSt x)
  simpa [List.append_assoc] using this

theorem oneFault_cleanSets (sg : ErrTree.Seg) (d : Delims) (rounds : List BRound) (sets : List ErrTree.St)
    (h : OneFault sg sets) : OneFault sg (cleanSets d sets rounds) :=
  cleanSets_stable (OneFault sg) (fun s x hs => hs.append_mkSt sg s x) (fun s hs => hs.modLast_close sg s) d rounds sets h

theorem oneFault_headSets (sg : ErrTree.Seg) (d : Delims) (seg : Seg) (rs : Envelope.RState) (sets : List ErrTree.St)
    (h : OneFault sg sets) : OneFault sg (headSets d seg rs sets) := by
  unfold headSets
  split
  · exact h.append_mkSt sg _ _
  · split
    · exact h.modLast_close sg _
    · exact h

theorem oneFault_of_noFault (sg : ErrTree.Seg) (done : List ErrTree.St) (x : ErrTree.St) (h : NoFault (done ++ [x])) :
    OneFault sg (done ++ [addChild x sg]) := by
  have hx := h x (by simp)
  refine ⟨done, addChild x sg, [], rfl, by simp [addChild, hx.1], hx.2, ?_⟩
  intro st hst
  exact h st (by simp at hst; simp [hst])

/-! ### counting -/

theorem segChildErrCount_append (a b : List ErrTree.Seg) :
    ErrTree.segChildErrCount (a ++ b) = ErrTree.segChildErrCount a + ErrTree.segChildErrCount b := by
  induction a with
  | nil => simp [ErrTree.segChildErrCount]
  | cons x r ih => simp only [List.cons_append, ErrTree.segChildErrCount, ih]; omega

theorem sumStErrors_zero_of_noFault (sets : List ErrTree.St) (h : NoFault sets) : ErrTree.sumStErrors sets = 0 := by
  rw [ErrTree.sumStErrors_zero]
  intro st hst
  obtain ⟨h1, h2⟩ := h st hst
  exact ⟨h2, by rw [h1]; intro sg hsg; cases hsg⟩

/-- one faulty segment node makes the count positive -/
theorem sumStErrors_pos_of_oneFault (sg : ErrTree.Seg) (sets : List ErrTree.St) (h : OneFault sg sets)
    (hsg : 0 < sg.errCount) : 0 < ErrTree.sumStErrors sets := by
  obtain ⟨done, x, more, rfl, hx1, _, _⟩ := h
  rw [sumStErrors_append]
  simp only [ErrTree.sumStErrors]
  have : 0 < x.errCount := by
    unfold ErrTree.St.errCount ErrTree.St.childErrCount
    rw [hx1]
    simp [ErrTree.segChildErrCount, hsg]
  omega

theorem faultSeg_errCount (sid : Str) (n p : Nat) (sp : Option Nat) (de : Option Str) (errs : List ErrTree.EleErr)
    (h : errs ≠ []) : 0 < (faultSeg sid n p sp de errs).errCount := by
  have hl : 0 < errs.length := List.length_pos_iff.2 h
  simp [ErrTree.Seg.errCount, ErrTree.Seg.childErrCount, faultSeg, ErrTree.eleChildErrCount, ErrTree.Ele.errCount, hl]

theorem werrSeg_errCount (sid : Str) (n : Nat) (c : Str) : 0 < (werrSeg sid n c).errCount := by
  simp only [ErrTree.Seg.errCount, werrSeg, List.length_singleton]; omega

/-! ### the faulty round -/

theorem headEvent_plain (d : Delims) (seg : Seg) (rs : Envelope.RState) (h1 : seg.id ≠ Envelope.idIEA)
    (h2 : seg.id ≠ Envelope.idGE) (h3 : seg.id ≠ Envelope.idST) (h4 : seg.id ≠ Envelope.idSE) :
    headEvent d seg rs = .addSeg seg.id rs.segCount none := by
  unfold headEvent
  rw [if_neg h1]
  split
  · rfl
  · rfl

theorem headSets_plain (d : Delims) (seg : Seg) (rs : Envelope.RState) (sets : List ErrTree.St)
    (h3 : seg.id ≠ Envelope.idST) (h4 : seg.id ≠ Envelope.idSE) : headSets d seg rs sets = sets := by
  unfold headSets; rw [if_neg h3, if_neg h4]

/-- a plain segment (`add_seg` is its structural call) -/
def PlainBodySeg (s : Seg) : Prop :=
  s.id ≠ Envelope.idIEA ∧ s.id ≠ Envelope.idGE ∧ s.id ≠ Envelope.idST ∧ s.id ≠ Envelope.idSE

/-- a matched plain segment whose validation returns `False` with reports on the one element node `(p, sp)` -/
def BRound.FaultAt (r : BRound) (p : Nat) (sp : Option Nat) (de : Option Str) (errs : List ErrTree.EleErr) : Prop :=
  r.node.isSome = true ∧ r.werrs = [] ∧ r.valid = false ∧ PlainBodySeg r.seg ∧ FaultForm r.evs p sp de errs ∧ errs ≠ []

theorem BRound.FaultAt.events {r : BRound} {p : Nat} {sp : Option Nat} {de : Option Str} {errs : List ErrTree.EleErr}
    (h : r.FaultAt p sp de errs) (m : MapX) (d : Delims) :
    r.events m d = .addSeg r.seg.id r.rs.segCount none :: r.evs := by
  obtain ⟨h1, h2, _, hp, _⟩ := h
  cases hn : r.node with
  | none => rw [hn] at h1; cases h1
  | some ip => simp [BRound.events, hn, h2, werrEvs, headEvent_plain d r.seg r.rs hp.1 hp.2.1 hp.2.2.1 hp.2.2.2]

theorem fault_round_run {s : ErrTree.State} {done : List ErrTree.St} {x : ErrTree.St} (h : GS s (done ++ [x]))
    (m : MapX) (d : Delims) (r : BRound) (p : Nat) (sp : Option Nat) (de : Option Str) (errs : List ErrTree.EleErr)
    (hr : r.FaultAt p sp de errs) :
    ∃ s', ErrTree.run s (r.events m d) = .ok s' ∧
      GS s' (done ++ [addChild x (faultSeg r.seg.id r.rs.segCount p sp de errs)]) := by
  rw [hr.events m d]
  obtain ⟨_, _, _, _, ⟨preE, postE, hev, h1, h2, h3, h4⟩, hne⟩ := hr
  cases errs with
  | nil => exact absurd rfl hne
  | cons e1 rest =>
    obtain ⟨s', hs', hg⟩ := fault_round h r.seg.id r.rs.segCount p sp de e1 rest preE postE h1 h2 h3 h4
    refine ⟨s', ?_, hg⟩
    rw [hev]
    have e : preE ++ (ErrTree.Event.addEle p sp de :: ((e1 :: rest).map eleErrEvent ++ postE)) =
        preE ++ ErrTree.Event.addEle p sp de :: (e1 :: rest).map eleErrEvent ++ postE := by simp
    rw [e]
    exact hs'

/-! ### a round with a walker report -/

/-- the kinds the walker reports after `add_seg` -/
def WithSeg (e : Walker.WErr) : Prop :=
  e.1 = .segMaxCount ∨ e.1 = .loopMaxCount ∨ e.1 = .mandatoryMissing ∨ e.1 = .notFound

/-- segment id of the node the report is attached to: the missing segment's for "mandatory missing", else the data segment's -/
def werrSid (m : MapX) (sid : Str) (e : Walker.WErr) : Str :=
  match e.1 with
  | .mandatoryMissing => sidAt m e.2
  | _ => sid

/-- the 997 AK304 code of the report -/
def werrCodeOf (e : Walker.WErr) : Str :=
  match e.1 with
  | .segNotUsed => ['2']
  | .segMaxCount => ['5']
  | .loopNotUsed => ['2']
  | .loopMaxCount => ['4']
  | .mandatoryMissing => ['3']
  | .notFound => ['1']

theorem werrEvents_eq (m : MapX) (sid : Str) (n : Nat) (e : Walker.WErr) (h : WithSeg e) :
    werrEvents m sid n e = [.addSeg (werrSid m sid e) n none, .segError (werrCodeOf e) none] := by
  unfold werrEvents werrSid werrCodeOf
  rcases h with h | h | h | h <;> rw [h]

/-- the walker reports `e`; the segment — when a node was found — conforms -/
def BRound.WErrAt (r : BRound) (e : Walker.WErr) : Prop :=
  r.werrs = [e] ∧ WithSeg e ∧ r.valid = true ∧ EleOnly r.evs ∧ Quiet r.evs

theorem BRound.WErrAt.events {r : BRound} {e : Walker.WErr} (h : r.WErrAt e) (m : MapX) (d : Delims) :
    r.events m d = [.addSeg (werrSid m r.seg.id e) r.rs.segCount none, .segError (werrCodeOf e) none] ++
      (match r.node with
       | some _ => headEvent d r.seg r.rs :: r.evs
       | none => []) := by
  obtain ⟨h1, h2, _⟩ := h
  cases hn : r.node with
  | none => simp [BRound.events, hn, h1, werrEvs, werrEvents_eq m _ _ e h2]
  | some ip => simp [BRound.events, hn, h1, werrEvs, werrEvents_eq m _ _ e h2]

/-- the set list after the round, given the list with the report linked -/
def werrSets (d : Delims) (r : BRound) (sets : List ErrTree.St) : List ErrTree.St :=
  match r.node with
  | some _ => headSets d r.seg r.rs sets
  | none => sets

theorem werr_round_run {s : ErrTree.State} {done : List ErrTree.St} {x : ErrTree.St} (h : GS s (done ++ [x]))
    (m : MapX) (d : Delims) (r : BRound) (e : Walker.WErr) (hr : r.WErrAt e) :
    ∃ s', ErrTree.run s (r.events m d) = .ok s' ∧
      GS s' (werrSets d r (done ++ [addChild x (werrSeg (werrSid m r.seg.id e) r.rs.segCount (werrCodeOf e))])) := by
  rw [hr.events m d, run_append]
  obtain ⟨s1, hs1, hg1, _, hc1⟩ := werr_events h (werrSid m r.seg.id e) r.rs.segCount (werrCodeOf e)
  rw [hs1]
  unfold werrSets
  cases hn : r.node with
  | none => exact ⟨s1, rfl, hg1⟩
  | some ip =>
    simp only
    exact quiet_round hg1 d r.seg r.rs r.evs hr.2.2.2.1 hr.2.2.2.2 (fun _ => by simp)

/-- … with no set open (finding D27): the report is dropped -/
theorem werr_round_run_noSet {s : ErrTree.State} (h : GS s []) (m : MapX) (d : Delims) (r : BRound) (e : Walker.WErr)
    (hr : r.WErrAt e) (hn : r.node = none) :
    ∃ s', ErrTree.run s (r.events m d) = .ok s' ∧ GS s' [] ∧ s'.lost = s.lost + 1 := by
  rw [hr.events m d, hn]
  obtain ⟨s1, hs1, hg1, hl, _⟩ := werr_events_noSet h (werrSid m r.seg.id e) r.rs.segCount (werrCodeOf e)
  exact ⟨s1, by simpa using hs1, hg1, hl⟩

theorem oneFault_werrSets (sg : ErrTree.Seg) (d : Delims) (r : BRound) (sets : List ErrTree.St) (h : OneFault sg sets) :
    OneFault sg (werrSets d r sets) := by
  unfold werrSets
  cases r.node with
  | none => exact h
  | some ip => exact oneFault_headSets sg d r.seg r.rs sets h

/-! ### set by set -/

/-- rounds of one transaction set: ST, plain segments, SE -/
structure SetRounds (st : BRound) (mids : List BRound) (se : BRound) : Prop where
  st : st.seg.id = Envelope.idST
  mids : ∀ r ∈ mids, PlainBodySeg r.seg
  se : se.seg.id = Envelope.idSE

theorem cleanSets_plain (d : Delims) : ∀ (mids : List BRound) (sets : List ErrTree.St),
    (∀ r ∈ mids, PlainBodySeg r.seg) → cleanSets d sets mids = sets
  | [], _, _ => rfl
  | r :: rest, sets, h => by
    have hr := h r (by simp)
    simp only [cleanSets, headSets_plain d r.seg r.rs sets hr.2.2.1 hr.2.2.2]
    exact cleanSets_plain d rest sets (fun x hx => h x (List.mem_cons_of_mem _ hx))

theorem headSets_st (d : Delims) (seg : Seg) (rs : Envelope.RState) (sets : List ErrTree.St) (h : seg.id = Envelope.idST) :
    headSets d seg rs sets = sets ++ [ErrTree.mkSt (stData d seg rs)] := by
  unfold headSets; rw [if_pos h]

theorem headSets_se (d : Delims) (seg : Seg) (rs : Envelope.RState) (sets : List ErrTree.St) (h : seg.id = Envelope.idSE) :
    headSets d seg rs sets = ErrTree.modLast ErrTree.St.close sets := by
  have hne : seg.id ≠ Envelope.idST := by rw [h]; decide
  unfold headSets; rw [if_neg hne, if_pos h]

/-- the node of a conforming set after its SE -/
def cleanSt (d : Delims) (st : BRound) : ErrTree.St := (ErrTree.mkSt (stData d st.seg st.rs)).close

/-- one conforming set appends its closed, accepted node -/
theorem cleanSets_set (d : Delims) (st : BRound) (mids : List BRound) (se : BRound) (h : SetRounds st mids se)
    (sets : List ErrTree.St) : cleanSets d sets (st :: (mids ++ [se])) = sets ++ [cleanSt d st] := by
  simp only [cleanSets, headSets_st d _ _ _ h.st, cleanSets_append, cleanSets_plain d mids _ h.mids, headSets_se d _ _ _ h.se,
    modLast_append_single, cleanSt]

/-- a set given as its three parts -/
structure SetOf where
  st : BRound
  mids : List BRound
  se : BRound

def SetOf.rounds (x : SetOf) : List BRound := x.st :: (x.mids ++ [x.se])

theorem cleanSets_sets (d : Delims) : ∀ (l : List SetOf) (sets : List ErrTree.St),
    (∀ x ∈ l, SetRounds x.st x.mids x.se) →
    cleanSets d sets (l.map SetOf.rounds).flatten = sets ++ l.map (fun x => cleanSt d x.st)
  | [], sets, _ => by simp [cleanSets]
  | x :: l, sets, h => by
    simp only [List.map_cons, List.flatten_cons, cleanSets_append, SetOf.rounds,
      cleanSets_set d x.st x.mids x.se (h x (by simp))]
    rw [cleanSets_sets d l _ (fun y hy => h y (List.mem_cons_of_mem _ hy))]
    simp

/-- rounds after the last set (GE, IEA …): no ST, no SE -/
theorem cleanSets_tail (d : Delims) : ∀ (tail : List BRound) (sets : List ErrTree.St),
    (∀ r ∈ tail, r.seg.id ≠ Envelope.idST ∧ r.seg.id ≠ Envelope.idSE) → cleanSets d sets tail = sets
  | [], _, _ => rfl
  | r :: rest, sets, h => by
    have hr := h r (by simp)
    simp only [cleanSets, headSets_plain d r.seg r.rs sets hr.1 hr.2]
    exact cleanSets_tail d rest sets (fun x hx => h x (List.mem_cons_of_mem _ hx))

theorem cleanSt_ackCode (d : Delims) (st : BRound) : (cleanSt d st).ackCode = ['A'] := by
  simp [cleanSt, ErrTree.St.close, ErrTree.mkSt, ErrTree.St.errCount, ErrTree.St.childErrCount, ErrTree.segChildErrCount]

/-- the node of the set that holds the faulty segment node, after its SE -/
def faultSt (d : Delims) (st : BRound) (sg : ErrTree.Seg) : ErrTree.St :=
  (addChild (ErrTree.mkSt (stData d st.seg st.rs)) sg).close

theorem faultSt_ackCode (d : Delims) (st : BRound) (sg : ErrTree.Seg) (h : 0 < sg.errCount) :
    (faultSt d st sg).ackCode = ['R'] := by
  have : 0 < (addChild (ErrTree.mkSt (stData d st.seg st.rs)) sg).errCount := by
    simp [addChild, ErrTree.mkSt, ErrTree.St.errCount, ErrTree.St.childErrCount, ErrTree.segChildErrCount, h]
  simp [faultSt, ErrTree.St.close, this]

theorem faultSt_children (d : Delims) (st : BRound) (sg : ErrTree.Seg) : (faultSt d st sg).children = [sg] := by
  simp [faultSt, ErrTree.St.close, addChild, ErrTree.mkSt]

end Pyx12Verif.Doc
