/-
C09 ⟵ C02 link, part 5a: `walk_facts` under WEAKER map hypotheses.

`Proofs/CtxWalkShape.lean` proves the shape of a walker answer (`StepFacts`) under `Static` = `WFMap` + the local part of
`Unambiguous` + `CtxMapOK`.  The proof uses much less: of `WFMap` only "a loop that has a segment child starts with a
segment" (`trList`), of `Unambiguous` only `ShapeUnamb` (Proofs/CtxFoundUnamb.lean).  The local part of `Unambiguous` FAILS for
the four 837 maps (sibling REF / PWK / CLM nodes with overlapping keys — the listed C02 map findings), `ShapeUnamb` holds
for every shipped map.  This file repeats `found_facts`, `walkUp_facts`, `walk_facts` (and `goto_transparent`) with the
weaker hypotheses `Static2`; the statements are otherwise unchanged.
-/
import Pyx12Verif.Proofs.CtxFoundUnamb

namespace Pyx12Verif.CtxWalk
open Pyx12Verif.MapSkel Pyx12Verif.Walker Pyx12Verif.WalkerGen

/-! ### the weaker hypotheses at a path -/

theorem trList_get {ch : List Node} (h : trList ch = true) {i : Nat} {c : Node} (hc : ch[i]? = some c) : trNode c = true := by
  induction ch generalizing i with
  | nil => simp at hc
  | cons a r ih =>
    simp only [trList, Bool.and_eq_true] at h
    cases i with
    | zero => simp at hc; subst hc; exact h.1
    | succ n => simp at hc; exact ih h.2 hc

theorem tr_chAt {root : List Node} (h : trList root = true) : ∀ (p : List Nat) (ch : List Node),
    chAt root p = some ch → trList ch = true := by
  intro p
  induction p generalizing root with
  | nil => intro ch hc; simp only [chAt, Option.some.injEq] at hc; subst hc; exact h
  | cons i r ih =>
    intro ch hc
    simp only [chAt] at hc
    split at hc
    · rename_i lid pos u rep w sub heq
      have := trList_get h heq
      simp only [trNode, Bool.and_eq_true] at this
      exact ih this.2 ch hc
    · cases hc

theorem tr_at {root : List Node} (h : trList root = true) {p : List Nat} {pch : List Node} (hp : chAt root p = some pch)
    {a l pos u r : Nat} {w : Bool} {ch : List Node} (ha : pch[a]? = some (.loop l pos u r w ch)) :
    transparentOK u ch = true := by
  have := trList_get (tr_chAt h p pch hp) ha
  simp only [trNode, Bool.and_eq_true] at this
  exact this.1

theorem shapeList_get {K : Consts} {ch : List Node} (h : shapeList K ch = true) {i : Nat} {c : Node}
    (hc : ch[i]? = some c) : shapeNode K c = true := by
  induction ch generalizing i with
  | nil => simp at hc
  | cons a r ih =>
    simp only [shapeList, Bool.and_eq_true] at h
    cases i with
    | zero => simp at hc; subst hc; exact h.1
    | succ n => simp at hc; exact ih h.2 hc

theorem shape_chAt {K : Consts} {root : List Node} (h : shapeList K root = true) : ∀ (p : List Nat) (ch : List Node),
    chAt root p = some ch → shapeList K ch = true ∧ (p ≠ [] → headDisjoint K ch = true) := by
  intro p
  induction p generalizing root with
  | nil => intro ch hc; simp only [chAt, Option.some.injEq] at hc; subst hc; exact ⟨h, fun e => absurd rfl e⟩
  | cons i r ih =>
    intro ch hc
    simp only [chAt] at hc
    split at hc
    · rename_i lid pos u rep w sub heq
      have := shapeList_get h heq
      simp only [shapeNode, Bool.and_eq_true] at this
      obtain ⟨h1, h2⟩ := ih this.2 ch hc
      refine ⟨h1, fun _ => ?_⟩
      cases r with
      | nil => simp only [chAt, Option.some.injEq] at hc; subst hc; exact this.1.1
      | cons j r' => exact h2 (by simp)
    · cases hc

theorem headFresh_get {K : Consts} {first : Node} {r : List Node} (h : headFresh K first r = true) {i : Nat} {c : Node}
    (hc : r[i]? = some c) (hseg : c.isSeg = true) : anyOverlapS (entry K first) (entry K c) = false := by
  induction r generalizing i with
  | nil => simp at hc
  | cons a r ih =>
    simp only [headFresh, Bool.and_eq_true, Bool.or_eq_true, Bool.not_eq_true'] at h
    cases i with
    | zero =>
      simp at hc; subst hc
      rcases h.1 with h1 | h1
      · rw [hseg] at h1; cases h1
      · exact h1
    | succ n => simp at hc; exact ih h.2 hc

/-- a data segment that matches a later segment child of a loop does not match the loop's first segment -/
theorem head_noHit {K : Consts} {s : SegData} {first : Node} {rest : List Node} (h : headDisjoint K (first :: rest) = true)
    (hfs : first.isSeg = true) {j : Nat} {c : Node} (hc : (first :: rest)[j]? = some c) (hj : j ≠ 0) (hseg : c.isSeg = true)
    {t : SKey} (ht : t ∈ entry K c) (hs : hits s t) : NoHit s (entry K first) := by
  simp only [headDisjoint, hfs, Bool.not_true, Bool.false_or] at h
  obtain ⟨m, rfl⟩ : ∃ m, j = m + 1 := ⟨j - 1, by omega⟩
  exact noHit_of_noOverlap (headFresh_get h (by simpa using hc) hseg) ht hs

/-- (`goto_transparent` under `shapeNode` instead of `localNode`) a loop `_is_loop_match` accepted is entered by `_goto_seg_match`
    through wrapper loops only -/
theorem goto_transparent2 {K : Consts} {s : SegData} : ∀ (d : List Nat) (c : Node), lmB K s c = true →
    shapeNode K c = true → gotoPath K s c = some d → TransChain c d := by
  intro d
  induction d with
  | nil => intro c _ _ _; trivial
  | cons i r ih =>
    intro c hlm hloc h
    obtain ⟨l, p, u, r', w, ch, rfl, h1 | h1⟩ := gotoPath_cases h
    · cases h1.2
    · obtain ⟨hnm, j, c', d', hd, hc', hns, hg, hbefore⟩ := h1
      simp only [List.cons.injEq] at hd
      obtain ⟨rfl, rfl⟩ := hd
      rw [lmB_loop] at hlm
      -- the first child is a loop
      have hT : firstIsLoop ch = true := by
        cases ch with
        | nil => simp [lmHead] at hlm
        | cons x rest =>
          cases x with
          | seg a b c d e f g =>
            have : headMatches K s (.seg a b c d e f g :: rest) = true := by
              simpa [headMatches, Node.isSeg, lmHead] using hlm
            rw [this] at hnm; cases hnm
          | loop => simp [firstIsLoop, Node.isSeg]
      rw [lmHead_firstLoop hT] at hlm
      obtain ⟨j', c'', hc'', hns'', hlm''⟩ := lmAny_spec ch hlm
      simp only [shapeNode, hT, Bool.not_true, Bool.false_or, Bool.and_eq_true] at hloc
      have hjj : i = j' := by
        rcases Nat.lt_trichotomy i j' with hlt | heq | hgt
        · exfalso
          obtain ⟨t, ht, hh⟩ := gotoPath_hit r c' hg
          obtain ⟨t', ht', hh'⟩ := lmB_hit hlm''
          exact noHit_of_noOverlap (deep_noOverlap hloc.1.2 hc' hc'' hlt) ht' hh' t ht hh
        · exact heq
        · exfalso
          have := hbefore j' c'' hgt hc'' hns''
          have h2 := lmB_goto hlm''
          rw [this] at h2; simp at h2
      subst hjj
      rw [hc'] at hc''; simp only [Option.some.injEq] at hc''; subst hc''
      exact ⟨hT, c', hc', hns, ih c' hlm'' (shapeList_get hloc.2 hc') hg⟩


/-- the static hypotheses the shape of an answer really depends on -/
structure Static2 (K : Consts) (root : List Node) : Prop where
  tr : trList root = true
  su : shapeList K root = true
  loops : allLoops root = true
  strict : strictList root = true

/-! ### `found_facts`, `walkUp_facts`, `walk_facts` again -/

/-- the answer found while scanning the children of the loop at `lip` -/
theorem found_facts2 {K : Consts} {s : SegData} {root : List Node} (hs : Static2 K root) {L : List Nat}
    (hL : ∃ chL, chAt root L = some chL) {curPos : Nat} {lip : List Nat} {ch : List Node} (hch : chAt root lip = some ch)
    {loopNode : Option Node}
    (hln : (lip = [] ∧ loopNode = none) ∨
      ∃ p0 a pch l p u r w, lip = p0 ++ [a] ∧ chAt root p0 = some pch ∧ pch[a]? = some (.loop l p u r w ch) ∧
        loopNode = some (.loop l p u r w ch))
    {loopNid origLoop : NodeId} (hid : lip = L → lip ≠ [] → (loopNid == origLoop) = true)
    {fromPos : Nat} {pops : List (List Nat)} (acc : Acc K s root L curPos lip fromPos pops) {lkey : PathKey} {st : WState}
    {r : WalkResult} {n : List Nat}
    (h : scanChildren K s lip lkey loopNode loopNid origLoop fromPos pops 0 st ch = .found r) (hn : r.node = some n) :
    StepFacts root L curPos n r.pops r.pushes := by
  have hsh := shape_chAt hs.su lip ch hch
  rcases scan_found lip lkey loopNode loopNid origLoop fromPos pops ch 0 st r n h hn with
    ⟨j, c, hc, hseg, hm, hpos, hS | hM⟩ | ⟨j, c, d, hc, hns, hpos, hlm, hg, hnn, hpops, hpushes⟩
  · -- the segment child starts a repeat of the loop being scanned
    obtain ⟨ln, d, hlnode, hlm, hg, hnn, hcase⟩ := hS
    rcases hln with ⟨_, hnone⟩ | ⟨p0, a, pch, l, p, u, rp, w, hlip, hpch, hai, hsome⟩
    · rw [hnone] at hlnode; cases hlnode
    rw [hsome] at hlnode; simp only [Option.some.injEq] at hlnode; subst hlnode
    have hwn := tr_at hs.tr hpch hai
    obtain ⟨first, rest, hchf, hfs⟩ := first_seg_of_seg_child hwn hc hseg
    subst hchf
    have hfm : isMatch K first s = true := by
      cases first with
      | loop => simp [Node.isSeg] at hfs
      | seg => simpa [lmB, lmHead] using hlm
    have hhm : headMatches K s (first :: rest) = true := by simp [headMatches, hfs, hfm]
    have hd : d = [] := by
      rw [gotoPath_loop, hhm] at hg; simpa using hg.symm
    subst hd
    have hne : lip ≠ [] := by rw [hlip]; simp
    by_cases hlL : lip = L
    · -- the enclosing loop of the current node: a repeat
      have hidt := hid hlL hne
      rcases hcase with ⟨_, hpops, hpushes⟩ | ⟨hf, _⟩
      · subst hlL
        refine ⟨p0, lip, p, 0, first :: rest, first, ?_, ?_, by simpa using hnn, ⟨hne, _, hch⟩, hch, by simp, hfs,
          ?_, fun _ => rfl, ?_, ?_, ?_⟩
        · rw [hpops, hlip]; simp only [cvPops, List.map_cons, List.map_nil]
          rw [popRun_one hpch hai]; simp [Ctx.popRun, Node.pos]
        · rw [hpushes, hlip]; simp only [cvPushes, List.map_cons, List.map_nil]
          rw [pushRun_one hpch hai]; simp [Ctx.pushRun]
        · intro e; rw [hpushes] at e; cases e
        · intro _; rw [hpops]; simp
        · intro q0 rest' e
          rw [hpushes] at e; simp only [List.cons.injEq] at e
          rw [← e.1, hlip, posAt_snoc hpch hai]; simp [Node.pos]
        · rw [hpushes]; simp
      · rw [hidt] at hf; cases hf
    · -- an enclosing loop further up: its first segment lies before the child loop the walk came from
      exfalso
      obtain ⟨iM, hiM, hfrom⟩ := acc.from_ hlL
      obtain ⟨chL, hchL⟩ := hL
      obtain ⟨chM, hchM⟩ := chAt_prefix hchL hiM
      rw [chAt_snoc hch] at hchM
      split at hchM
      · rename_i lM pM uM rM wM subM heqM
        have hposM : posAt root (lip ++ [iM]) = pM := by rw [posAt_snoc hch heqM]; rfl
        have hj0 : j = 0 := by
          apply Classical.byContradiction
          intro hj
          have hf0 : (first :: rest)[0]? = some first := by simp
          have hhit : ∃ t, t ∈ entry K c ∧ hits s t := by
            cases c with
            | loop => simp [Node.isSeg] at hseg
            | seg a1 a2 a3 a4 a5 a6 a7 => exact ⟨_, by simp [entry], hit_of_isMatch hm⟩
          obtain ⟨t, hte, ht⟩ := hhit
          have hno := head_noHit (hsh.2 hne) hfs hc hj hseg hte ht
          cases first with
          | loop => simp [Node.isSeg] at hfs
          | seg a1 a2 a3 a4 a5 a6 a7 => exact hno _ (by simp [entry]) (hit_of_isMatch hfm)
        subst hj0
        simp only [List.getElem?_cons_zero, Option.some.injEq] at hc; subst hc
        have hiM0 : iM ≠ 0 := by
          intro e; subst e
          simp only [List.getElem?_cons_zero, Option.some.injEq] at heqM
          rw [heqM] at hfs; simp [Node.isSeg] at hfs
        have hstr := (strict_chAt hs.strict lip _ hch).2 hne
        simp only [strictHead, hfs, Bool.not_true, Bool.false_or] at hstr
        obtain ⟨m, rfl⟩ : ∃ m, iM = m + 1 := ⟨iM - 1, by omega⟩
        have hlt : first.pos < pM :=
          loopsAfter_get hstr (i := m) (c := .loop lM pM uM rM wM subM) (by simpa using heqM) rfl
        rw [hfrom, hposM] at hpos
        omega
      · cases hchM
  · -- a plain segment child
    obtain ⟨hlno, hnn, hpops, hpushes⟩ := hM
    simp only [Nat.zero_add] at hnn
    rcases hln with ⟨hnil, _⟩ | ⟨p0, a, pch, l, p, u, rp, w, hlip, hpch, hai, hsome⟩
    · subst hnil
      simp only [chAt, Option.some.injEq] at hch; subst hch
      have := allLoops_get hs.loops hc
      rw [hseg] at this; cases this
    have hne : lip ≠ [] := by rw [hlip]; simp
    have hj : j ≠ 0 := by
      intro e; subst e
      rcases hlno with hno | ⟨ln, hlnode, hlm⟩
      · rw [hsome] at hno; cases hno
      · rw [hsome] at hlnode; simp only [Option.some.injEq] at hlnode; subst hlnode
        cases ch with
        | nil => simp at hc
        | cons first rest =>
          simp only [List.getElem?_cons_zero, Option.some.injEq] at hc; subst hc
          cases first with
          | loop => simp [Node.isSeg] at hseg
          | seg => simp only [lmB, lmHead] at hlm; rw [hm] at hlm; cases hlm
    refine ⟨lip, lip, fromPos, j, ch, c, by rw [hpops]; exact acc.pop, by rw [hpushes]; simp [cvPushes, Ctx.pushRun],
      hnn, ⟨hne, _, hch⟩, hch, hc, hseg, fun _ => hj, fun e => absurd hpushes e, ?_, ?_, ?_⟩
    · intro e
      have := acc.len; rw [e] at this
      rw [hpops]; omega
    · intro q0 rest' e; rw [hpushes] at e; cases e
    · rw [hpushes]; simp
  · -- a child loop the segment enters
    simp only [Nat.zero_add] at hnn hpushes
    have he := gotoPath_endsAt d c hg
    obtain ⟨hpush, sub, hsub, hhm⟩ := chain_push d lip j ch c hch hc hns he
    have hloc := shapeList_get hsh.1 hc
    have htr := chain_transparent d lip j ch c hch hc hns (goto_transparent2 d c hlm hloc hg)
    have hne : lip ++ [j] ++ d ≠ [] := by simp
    obtain ⟨first, rest, hsubf, hfs, _⟩ : ∃ first rest, sub = first :: rest ∧ first.isSeg = true ∧ isMatch K first s = true := by
      cases sub with
      | nil => simp [headMatches] at hhm
      | cons first rest => exact ⟨first, rest, rfl, by simpa [headMatches] using hhm⟩
    refine ⟨lip, lip ++ [j] ++ d, fromPos, 0, sub, first, by rw [hpops]; exact acc.pop, by rw [hpushes]; exact hpush,
      hnn, ⟨hne, _, hsub⟩, hsub, by rw [hsubf]; simp, hfs, ?_, fun _ => rfl, ?_, ?_, by rw [hpushes]; exact htr⟩
    · intro e
      obtain ⟨t, ht⟩ := chain_head (lip ++ [j]) d
      rw [hpushes, ht] at e; cases e
    · intro e
      rw [hpops]
      apply Classical.byContradiction
      intro hlen
      obtain ⟨ln, hln1, hln2⟩ := acc.re (by omega)
      obtain ⟨ln', hln1', hln2'⟩ := lmB_of_headMatches hne hsub hhm
      rw [e, hln1] at hln1'; simp only [Option.some.injEq] at hln1'; subst hln1'
      rw [hln2] at hln2'; cases hln2'
    · intro q0 rest' e
      obtain ⟨t, ht⟩ := chain_head (lip ++ [j]) d
      rw [hpushes, ht] at e; simp only [List.cons.injEq] at e
      rw [← e.1, posAt_snoc hch hc]; omega

theorem walkUp_facts2 {K : Consts} {s : SegData} {root : List Node} {rootId : Nat} (hs : Static2 K root) {L : List Nat}
    (hL : ∃ chL, chAt root L = some chL) {curPos : Nat} {orig : List Nat} :
    ∀ (k : Nat) (lip : List Nat) (fromPos : Nat) (pops : List (List Nat)) (st : WState), lip.length = k →
      Acc K s root L curPos lip fromPos pops → ∀ (r : WalkResult) (n : List Nat),
      walkUp K root rootId s (idAt root L, idAt root L.dropLast) orig lip.reverse fromPos pops st = r →
      r.node = some n → StepFacts root L curPos n r.pops r.pushes := by
  intro k
  induction k with
  | zero =>
    intro lip fromPos pops st hlen acc r n hw hn
    have hnil : lip = [] := List.eq_nil_of_length_eq_zero hlen
    subst hnil
    simp only [List.reverse_nil] at hw
    rw [walkUp_root] at hw
    cases hsc : scanChildren K s [] [] none (rootId, 0) (idAt root L, idAt root L.dropLast) fromPos pops 0 st root with
    | found r' =>
      rw [hsc] at hw; simp only at hw; subst hw
      exact found_facts2 hs hL (lip := []) rfl (Or.inl ⟨rfl, rfl⟩) (fun _ e => absurd rfl e) acc hsc hn
    | notHere st' =>
      rw [hsc] at hw; simp only at hw; subst hw
      simp at hn
  | succ k ih =>
    intro lip fromPos pops st hlen acc r n hw hn
    have hne : lip ≠ [] := by intro e; subst e; simp at hlen
    obtain ⟨p, a, rfl⟩ : ∃ p a, lip = p ++ [a] := ⟨lip.dropLast, lip.getLast hne, (List.dropLast_concat_getLast hne).symm⟩
    obtain ⟨chL, hchL⟩ := hL
    obtain ⟨ch, hch⟩ := chAt_prefix hchL acc.pre
    obtain ⟨pch, l, pos, u, rp, w, hpch, hai, hwu⟩ := walkUp_level' (K := K) (rootId := rootId) (s := s)
      (origLoop := (idAt root L, idAt root L.dropLast)) (orig := orig) hch fromPos pops st
    rw [hwu] at hw
    have hnode : nodeAt root (p ++ [a]) = some (.loop l pos u rp w ch) := by rw [nodeAt_snoc hpch]; exact hai
    cases hsc : scanChildren K s (p ++ [a]) (keyAt root (p ++ [a])) (some (.loop l pos u rp w ch)) (l, idAt root p)
        (idAt root L, idAt root L.dropLast) fromPos pops 0 st ch with
    | found r' =>
      rw [hsc] at hw; simp only at hw; subst hw
      refine found_facts2 hs ⟨chL, hchL⟩ hch (Or.inr ⟨p, a, pch, l, pos, u, rp, w, rfl, hpch, hai, rfl⟩) ?_ acc hsc hn
      intro e _
      rw [← e, idAt_of_nodeAt hne hnode]
      simp [Node.ident]
    | notHere st' =>
      rw [hsc] at hw; simp only at hw
      have hplen : p.length = k := by simp at hlen; omega
      refine ih p pos (pops ++ [p ++ [a]]) st' hplen ?_ r n hw hn
      have hpL : p <+: L := List.IsPrefix.trans (List.prefix_append _ _) acc.pre
      refine ⟨hpL, ?_, ?_, ?_, ?_⟩
      · have := acc.len; simp at this ⊢; omega
      · rw [cvPops_append, popRun_append, acc.pop]
        simp only [cvPops, List.map_cons, List.map_nil]
        rw [popRun_one hpch hai]; simp [Ctx.popRun, Node.pos]
      · intro _
        exact ⟨a, acc.pre, by rw [posAt_snoc hpch hai]; rfl⟩
      · intro h2
        by_cases h3 : 2 ≤ pops.length
        · exact acc.re h3
        · have hp1 : pops.length = 1 := by simp at h2; omega
          have hlL : p ++ [a] ≠ L := by
            intro e
            have := acc.len; rw [e] at this; omega
          obtain ⟨iM, hiM, hfrom⟩ := acc.from_ hlL
          have heq : p ++ [a] ++ [iM] = L := by
            apply prefix_eq_of_length hiM
            have := acc.len; simp at this ⊢; omega
          rw [← heq] at hchL
          obtain ⟨ch', lM, pM, uM, rM, wM, hch', hcM, hnM⟩ := nodeAt_of_chAt hchL
          rw [hch] at hch'; simp only [Option.some.injEq] at hch'; subst hch'
          refine ⟨_, by rw [← heq]; exact hnM, ?_⟩
          apply scan_notHere _ _ _ _ _ _ _ _ _ _ _ hsc iM _ hcM rfl
          rw [hfrom, posAt_snoc hch hcM]; simp [Node.pos]

/-- **the shape of one walker answer** -/
theorem walk_facts2 {K : Consts} {s : SegData} {root : List Node} {rootId : Nat} (hs : Static2 K root) {cur : List Nat}
    (hcur : SegAt root cur) (cnt : Counter) {n : List Nat} (h : (walk K root rootId cnt cur s).node = some n) :
    StepFacts root cur.dropLast (posAt root cur) n (walk K root rootId cnt cur s).pops
      (walk K root rootId cnt cur s).pushes := by
  obtain ⟨L, i, ch, c, rfl, hch, hc, hseg⟩ := hcur
  have hnode : nodeAt root (L ++ [i]) = some c := by rw [nodeAt_snoc hch]; exact hc
  have hdl : (L ++ [i]).dropLast = L := by simp
  have hw : walk K root rootId cnt (L ++ [i]) s =
      walkUp K root rootId s (idAt root L, idAt root L.dropLast) (L ++ [i]) L.reverse c.pos []
        { cnt := cnt, pending := [], errs := [] } := by
    simp only [walk, hnode, hdl]
  rw [hdl]
  refine walkUp_facts2 hs ⟨ch, hch⟩ L.length L c.pos [] _ rfl ?_ _ n hw.symm h
  refine ⟨List.prefix_refl _, by simp, ?_, fun e => absurd rfl e, fun e => by simp at e⟩
  simp [cvPops, Ctx.popRun, posAt, hnode]

end Pyx12Verif.CtxWalk
