/-
`ctxDoc_total_full`, part 4: the decidable hypotheses on the loaded maps and what they mean.

`mapGoodB ms m`  `trList` (the one conjunct of `WFMap` that matters), `ShapeUnamb` (a small part of `Unambiguous`), `CtxMapOK`
                 (Proofs/CtxFoundUnamb.lean, Proofs/CtxWalkDefs.lean); the three nodes `iter_segments` fetches
                 by path — `/ISA_LOOP/ISA`, `/ISA_LOOP/GS_LOOP/GS`, `/ISA_LOOP/GS_LOOP/ST_LOOP/HEADER/BHT` — are, when
                 present, segment nodes, the FIRST child of their loop, and that loop has the path the name says (`pinOK`);
                 every segment node called BHT is the first child of a loop with path ISA_LOOP/GS_LOOP/ST_LOOP/HEADER
                 (`bhtNodesOK`: at the 278 map switch the node is replaced by the BHT node of the other map while the pop /
                 push lists stay those of the walk over the old map)
-/
import Pyx12Verif.Proofs.CtxFullMatch
import Pyx12Verif.Proofs.CtxDocRun

namespace Pyx12Verif.Doc
open Pyx12Verif

/-- the index path leads to a segment node -/
def segAtB (root : List MapSkel.Node) (ip : List Nat) : Bool :=
  match Walker.nodeAt root ip with
  | some n => n.isSeg
  | none => false

def isaLoopPath (ms : Maps) : Ctx.LPath := [ms.ids.isaLoop]
def gsLoopPath (ms : Maps) : Ctx.LPath := [ms.ids.isaLoop, ms.ids.gsLoop]
def bhtLoopPath (ms : Maps) : Ctx.LPath := [ms.ids.isaLoop, ms.ids.gsLoop, ms.ids.stLoop, ms.ids.header]

/-- the node fetched by `path` (if any) is a segment node, the first child of a loop whose path is `loopPath` -/
def pinOK (ms : Maps) (m : MapX) (path : List (Nat × Nat)) (loopPath : Ctx.LPath) : Bool :=
  match fetchIn ms m path with
  | none => true
  | some n => segAtB m.root n.ip && (n.ip.getLast? == some 0) && (cxPath m.root n.ip.dropLast == loopPath)

mutual
/-- `f ip sid` for every segment node of the subtree (`ip` = its index path, `sid` = its id) -/
def segsAllNode (f : List Nat → Nat → Bool) (ip : List Nat) : MapSkel.Node → Bool
  | .seg sid _ _ _ _ _ _ => f ip sid
  | .loop _ _ _ _ _ ch => segsAllList f ip 0 ch
def segsAllList (f : List Nat → Nat → Bool) (ip : List Nat) (i : Nat) : List MapSkel.Node → Bool
  | [] => true
  | c :: r => segsAllNode f (ip ++ [i]) c && segsAllList f ip (i + 1) r
end

/-- every segment node called BHT is the first child of a loop with path ISA_LOOP/GS_LOOP/ST_LOOP/HEADER -/
def bhtNodesOK (ms : Maps) (m : MapX) : Bool :=
  segsAllList (fun ip sid => sid != internV m ms.unk (some sBHT) ||
    ((ip.getLast? == some 0) && (cxPath m.root ip.dropLast == bhtLoopPath ms))) [] 0 m.root

def mapGoodB (ms : Maps) (m : MapX) : Bool :=
  CtxWalk.trList m.root && CtxWalk.ShapeUnamb ms.consts m.root && CtxWalk.CtxMapOK m.root &&
    pinOK ms m (isaPath ms) (isaLoopPath ms) && pinOK ms m (gsPath ms) (gsLoopPath ms) &&
    pinOK ms m (bhtPath ms) (bhtLoopPath ms) && bhtNodesOK ms m

/-- all loaded maps pass the decidable checks -/
def MapsGood (ms : Maps) : Prop := ∀ m ∈ ms.maps, mapGoodB ms m = true

/-! ### index paths -/

theorem nodeAt_split : ∀ (ip : List Nat) (root : List MapSkel.Node) (c : MapSkel.Node), Walker.nodeAt root ip = some c →
    ∃ L i ch, ip = L ++ [i] ∧ WalkerGen.chAt root L = some ch ∧ ch[i]? = some c
  | [], _, _, h => by simp [Walker.nodeAt] at h
  | [i], root, c, h => ⟨[], i, root, rfl, rfl, by simpa [Walker.nodeAt] using h⟩
  | i :: j :: r, root, c, h => by
    rw [WalkerGen.nodeAt_cons_cons] at h
    split at h
    · rename_i l p u rep w sub heq
      obtain ⟨L, i', ch, h1, h2, h3⟩ := nodeAt_split (j :: r) sub c h
      refine ⟨i :: L, i', ch, by rw [h1]; rfl, ?_, h3⟩
      simp only [WalkerGen.chAt, heq]
      exact h2
    · cases h

theorem segAt_of_bool {root : List MapSkel.Node} {ip : List Nat} (h : segAtB root ip = true) : CtxWalk.SegAt root ip := by
  unfold segAtB at h
  cases hn : Walker.nodeAt root ip with
  | none => rw [hn] at h; cases h
  | some c =>
    rw [hn] at h
    obtain ⟨L, i, ch, h1, h2, h3⟩ := nodeAt_split ip root c hn
    exact ⟨L, i, ch, c, h1, h2, h3, h⟩

theorem segsAllList_get {f : List Nat → Nat → Bool} {ip : List Nat} : ∀ (ch : List MapSkel.Node) (i : Nat),
    segsAllList f ip i ch = true → ∀ (j : Nat) (c : MapSkel.Node), ch[j]? = some c → segsAllNode f (ip ++ [i + j]) c = true
  | [], _, _, j, c, hc => by simp at hc
  | a :: r, i, h, j, c, hc => by
    simp only [segsAllList, Bool.and_eq_true] at h
    cases j with
    | zero => simp at hc; subst hc; simpa using h.1
    | succ n =>
      have := segsAllList_get r (i + 1) h.2 n c (by simpa using hc)
      have e : i + 1 + n = i + (n + 1) := by omega
      rw [e] at this; exact this

/-- what the Boolean traversal means -/
theorem segsAll_sound {f : List Nat → Nat → Bool} : ∀ (q : List Nat) (ip : List Nat) (ch : List MapSkel.Node),
    segsAllList f ip 0 ch = true → ∀ sid a b c d e g, Walker.nodeAt ch q = some (.seg sid a b c d e g) →
    f (ip ++ q) sid = true
  | [], _, _, _, _, _, _, _, _, _, _, h => by simp [Walker.nodeAt] at h
  | [i], ip, ch, hall, sid, a, b, c, d, e, g, h => by
    have hc : ch[i]? = some (.seg sid a b c d e g) := by simpa [Walker.nodeAt] using h
    have := segsAllList_get ch 0 hall i _ hc
    simpa [segsAllNode] using this
  | i :: j :: r, ip, ch, hall, sid, a, b, c, d, e, g, h => by
    rw [WalkerGen.nodeAt_cons_cons] at h
    split at h
    · rename_i l p u rep w sub heq
      have h1 := segsAllList_get ch 0 hall i _ heq
      simp only [Nat.zero_add, segsAllNode] at h1
      have := segsAll_sound (j :: r) (ip ++ [i]) sub h1 sid a b c d e g h
      simpa using this
    · cases h

/-! ### fetched nodes -/

theorem fetchIn_map {ms : Maps} {m : MapX} {path : List (Nat × Nat)} {n : NodeRef} (h : fetchIn ms m path = some n) :
    n.map = m := by
  unfold fetchIn at h
  cases hh : MapSkel.fetch ms.consts.ent ms.consts.hl m.root path with
  | none => rw [hh] at h; cases h
  | some ip => rw [hh] at h; injection h with h; rw [← h]

theorem findMap_mem {ms : Maps} {f : Str} {m : MapX} (h : findMap ms f = some m) : m ∈ ms.maps :=
  List.mem_of_find?_eq_some h

theorem pinOK_spec {ms : Maps} {m : MapX} {path : List (Nat × Nat)} {lp : Ctx.LPath} (h : pinOK ms m path lp = true)
    {n : NodeRef} (hf : fetchIn ms m path = some n) :
    n.map = m ∧ CtxWalk.SegAt m.root n.ip ∧ n.ip.getLast? = some 0 ∧ cxPath m.root n.ip.dropLast = lp := by
  unfold pinOK at h
  rw [hf] at h
  simp only [Bool.and_eq_true, beq_iff_eq] at h
  exact ⟨fetchIn_map hf, segAt_of_bool h.1.1, h.1.2, h.2⟩

/-! ### the conjuncts of `mapGoodB` -/

structure MapGood (ms : Maps) (m : MapX) : Prop where
  static : CtxWalk.Static2 ms.consts m.root
  isa : pinOK ms m (isaPath ms) (isaLoopPath ms) = true
  gs : pinOK ms m (gsPath ms) (gsLoopPath ms) = true
  bht : pinOK ms m (bhtPath ms) (bhtLoopPath ms) = true
  bhtAll : bhtNodesOK ms m = true

theorem mapGood_of_bool {ms : Maps} {m : MapX} (h : mapGoodB ms m = true) : MapGood ms m := by
  simp only [mapGoodB, Bool.and_eq_true] at h
  obtain ⟨⟨⟨⟨⟨⟨h1, h2⟩, h3⟩, h4⟩, h5⟩, h6⟩, h7⟩ := h
  exact ⟨CtxWalk.static2_of h1 h2 h3, h4, h5, h6, h7⟩

/-- the walker found a BHT segment: the node is the first child of `…/HEADER` -/
theorem bht_node {ms : Maps} {m : MapX} (hg : MapGood ms m) {cur : List Nat} (hcur : CtxWalk.SegAt m.root cur)
    (cnt : Walker.Counter) (d : Delims) (s : Seg) (hs : s.id = sBHT) {ip : List Nat}
    (h : (Walker.walk ms.consts m.root m.rootId cnt cur (segData ms m d s)).node = some ip) :
    ip.getLast? = some 0 ∧ cxPath m.root ip.dropLast = bhtLoopPath ms := by
  obtain ⟨c, hc, hm⟩ := CtxWalk.walk_found_matches hcur cnt h
  obtain ⟨q, p, u, mx, notes, ch, rfl⟩ := CtxWalk.isMatch_sid hm
  have := segsAll_sound ip [] m.root hg.bhtAll _ _ _ _ _ _ _ hc
  simp only [List.nil_append, segData, hs, Bool.or_eq_true, bne_iff_ne, ne_eq, not_true_eq_false, false_or,
    Bool.and_eq_true, beq_iff_eq] at this
  exact this

end Pyx12Verif.Doc
