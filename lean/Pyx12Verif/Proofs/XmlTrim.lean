/- C08 helper lemmas: writing the non-empty items of a list at their positions into a list that is padded with blanks
   on demand (what a sequence of `Segment.set` calls does) yields the list with its trailing empties dropped. -/
import Pyx12Verif.Spec.XmlSpec

namespace Pyx12Verif.Xml

variable {α : Type}

/-- `xs` padded with blanks up to position `k`, then `item` -/
def padSet (blank : α) (xs : List α) (k : Nat) (item : α) : List α :=
  xs ++ List.replicate (k - xs.length) blank ++ [item]

theorem set_pad (blank : α) (item : α) : ∀ (xs : List α) (k : Nat), xs.length ≤ k →
    (xs ++ List.replicate (k + 1 - xs.length) blank).set k item = padSet blank xs k item
  | [], k, _ => by
    induction k with
    | zero => simp [padSet]
    | succ k ih =>
      simp only [padSet, List.length_nil, Nat.sub_zero, List.nil_append] at ih ⊢
      rw [List.replicate_succ, List.set_cons_succ, ih (Nat.zero_le _)]
      simp [List.replicate_succ]
  | x :: r, 0, h => by simp at h
  | x :: r, k + 1, h => by
    have := set_pad blank item r k (by simpa using h)
    simp only [padSet, List.length_cons, List.cons_append, List.set_cons_succ] at this ⊢
    rw [show k + 1 + 1 - (r.length + 1) = k + 1 - r.length from by omega, this]
    rw [show k + 1 - (r.length + 1) = k - r.length from by omega]

/-- all trailing empties dropped -/
def trimGen (isE : α → Bool) : List α → List α
  | [] => []
  | x :: r => if (trimGen isE r).isEmpty && isE x then [] else x :: trimGen isE r

theorem trimGen_all_empty (isE : α → Bool) : ∀ (xs : List α), xs.all isE = true → trimGen isE xs = []
  | [], _ => rfl
  | x :: r, h => by
    simp only [List.all_cons, Bool.and_eq_true] at h
    simp [trimGen, trimGen_all_empty isE r h.2, h.1]

theorem trimGen_snoc_empty (isE : α → Bool) (b : α) (hb : isE b = true) : ∀ (xs : List α), trimGen isE (xs ++ [b]) = trimGen isE xs
  | [] => by simp [trimGen, hb]
  | x :: r => by simp [trimGen, trimGen_snoc_empty isE b hb r]

theorem trimGen_snoc_full (isE : α → Bool) (v : α) (hv : isE v = false) : ∀ (xs : List α), trimGen isE (xs ++ [v]) = xs ++ [v]
  | [] => by simp [trimGen, hv]
  | x :: r => by simp [trimGen, trimGen_snoc_full isE v hv r]

/-- a list whose empty items are all the blank is its trimmed form followed by blanks -/
theorem trimGen_decomp (isE : α → Bool) (blank : α) : ∀ (xs : List α), (∀ x ∈ xs, isE x = true → x = blank) →
    xs = trimGen isE xs ++ List.replicate (xs.length - (trimGen isE xs).length) blank
  | [], _ => by simp [trimGen]
  | x :: r, h => by
    have hr := trimGen_decomp isE blank r (fun y hy => h y (by simp [hy]))
    simp only [trimGen]
    split
    · rename_i hc
      simp only [Bool.and_eq_true, List.isEmpty_iff] at hc
      have hx : x = blank := h x (by simp) hc.2
      rw [hc.1] at hr
      simp only [List.nil_append, List.length_nil, Nat.sub_zero] at hr ⊢
      rw [List.length_cons, List.replicate_succ, ← hr, hx]
    · simp only [List.cons_append, List.length_cons]
      rw [show r.length + 1 - ((trimGen isE r).length + 1) = r.length - (trimGen isE r).length from by omega, ← hr]

theorem trimGen_length_le (isE : α → Bool) : ∀ (xs : List α), (trimGen isE xs).length ≤ xs.length
  | [] => by simp [trimGen]
  | x :: r => by
    have := trimGen_length_le isE r
    simp only [trimGen]; split <;> simp <;> omega

/-- **the key step**: after the items `pre` have been written (in trimmed form), writing a non-empty `v` at position
    `pre.length` gives `pre ++ [v]`, which is its own trimmed form -/
theorem padSet_trim (isE : α → Bool) (blank : α) (pre : List α) (h : ∀ x ∈ pre, isE x = true → x = blank) (v : α)
    (hv : isE v = false) :
    padSet blank (trimGen isE pre) pre.length v = pre ++ [v] ∧ trimGen isE (pre ++ [v]) = pre ++ [v] := by
  refine ⟨?_, trimGen_snoc_full isE v hv pre⟩
  unfold padSet
  rw [← trimGen_decomp isE blank pre h]

/-! ### the spec's trimming functions are instances -/

theorem allEmpty_eq (subs : List Str) : allEmpty subs = subs.all (fun v => v.isEmpty) := rfl

theorem trimElems_eq (es : List (List Str)) : trimElems es = trimGen allEmpty es := by
  induction es with
  | nil => rfl
  | cons e r ih => simp [trimElems, trimGen, ih]

theorem trimSubs_eq : ∀ (subs : List Str), allEmpty subs = false → trimSubs subs = trimGen (fun v => v.isEmpty) subs
  | [], h => by simp [allEmpty] at h
  | v :: r, h => by
    simp only [trimSubs, trimGen]
    by_cases hr : allEmpty r = true
    · have hv : v.isEmpty = false := by
        cases hv : v.isEmpty
        · rfl
        · simp [allEmpty, hv] at h hr; exact absurd hr (by simpa using h)
      simp [hr, trimGen_all_empty _ r hr, hv]
    · have hr' : allEmpty r = false := by simpa using hr
      have := trimSubs_eq r hr'
      have hne : (trimGen (fun v => v.isEmpty) r).isEmpty = false := by
        cases hx : trimGen (fun v : Str => v.isEmpty) r with
        | nil =>
          exfalso
          have hd := trimGen_decomp (fun v : Str => v.isEmpty) [] r (fun x _ hx => by simpa using hx)
          rw [hx] at hd
          simp only [List.nil_append, List.length_nil, Nat.sub_zero] at hd
          rw [hd] at hr'
          simp [allEmpty] at hr'
        | cons a b => rfl
      simp [hr', this, hne]

end Pyx12Verif.Xml
