/-
One step of the (guarded) reader on each kind of segment of a flattened document, and the plumbing for
composing runs.
-/
import Pyx12Verif.Proofs.EnvelopeHL
import Pyx12Verif.Proofs.EnvelopeInt

namespace Pyx12Verif.Envelope

/-! ### composing runs -/

/-- `Runs s segs s' out`: the guarded reader, started in `s`, consumes `segs`, ends in `s'` and pops `out` -/
def Runs (s : RState) (segs : List SegView) (s' : RState) (out : List (List Err)) : Prop :=
  runSegs Fixes.all s segs = .ok (s', out)

theorem Runs.nil (s : RState) : Runs s [] s [] := rfl

theorem Runs.cons {s s1 s2 : RState} {v : SegView} {r : List SegView} {es : List Err} {out : List (List Err)}
    (h1 : step Fixes.all s v = .ok (s1, es)) (h2 : Runs s1 r s2 out) : Runs s (v :: r) s2 (es :: out) := by
  unfold Runs at *
  simp [runSegs, h1, h2, Outcome.bind]

theorem Runs.append {s s1 s2 : RState} {a b : List SegView} {o1 o2 : List (List Err)}
    (h1 : Runs s a s1 o1) (h2 : Runs s1 b s2 o2) : Runs s (a ++ b) s2 (o1 ++ o2) := by
  induction a generalizing s o1 with
  | nil =>
    unfold Runs at h1; simp [runSegs] at h1
    obtain ⟨e1, e2⟩ := h1; subst e1; subst e2; simpa using h2
  | cons v r ih =>
    unfold Runs at h1
    simp only [runSegs] at h1
    cases hs : step Fixes.all s v with
    | raised => simp [hs, Outcome.bind] at h1
    | crash e => simp [hs, Outcome.bind] at h1
    | ok a =>
      simp only [hs, Outcome.bind] at h1
      cases hr : runSegs Fixes.all a.1 r with
      | raised => simp [hr] at h1
      | crash e => simp [hr] at h1
      | ok b' =>
        simp only [hr] at h1
        injection h1 with h1
        injection h1 with e1 e2
        subst e1; subst e2
        have := ih (s := a.1) (o1 := b'.2) hr
        exact Runs.cons (s1 := a.1) (es := a.2) hs this

theorem Runs.snoc {s s1 s2 : RState} {a : List SegView} {v : SegView} {o1 : List (List Err)} {es : List Err}
    (h1 : Runs s a s1 o1) (h2 : step Fixes.all s1 v = .ok (s2, es)) : Runs s (a ++ [v]) s2 (o1 ++ [es]) :=
  Runs.append h1 (Runs.cons h2 (Runs.nil s2))

/-! ### headers -/

theorem step_ISA (s : RState) (c : Option Str) :
    step Fixes.all s (mkISA c) =
      .ok ({ s with loops := (Kind.isa, c) :: s.loops, isaIds := c :: s.isaIds, gsCount := 0, gsIds := [] },
           dupErr Err.isa025 c s.isaIds) := by
  simp [step, baseStep, baseBranch, baseIsa, trailerStep, countSeg, isEnvId, Outcome.bind, mkISA, dupErr,
    idST, idISA, idGS, idIEA, idGE, idSE]
  rfl

theorem step_GS (s : RState) (c : Option Str) :
    step Fixes.all s (mkGS c) =
      .ok ({ s with gsCount := s.gsCount + 1, gsIds := c :: s.gsIds, loops := (Kind.gs, c) :: s.loops,
                    stCount := 0, stIds := [] },
           dupErr Err.gs6 c s.gsIds) := by
  simp [step, baseStep, baseBranch, baseGs, trailerStep, countSeg, isEnvId, Outcome.bind, mkGS, dupErr,
    idST, idISA, idGS, idIEA, idGE, idSE]
  rfl

theorem step_ST (s : RState) (c : Option Str) :
    step Fixes.all s (mkST c) =
      .ok ({ s with hlStack := [], hlCount := 0, stCount := s.stCount + 1, stIds := c :: s.stIds,
                    loops := (Kind.st, c) :: s.loops, segCount := 1 },
           dupErr Err.st23 c s.stIds) := by
  simp [step, baseStep, baseBranch, baseSt, trailerStep, countSeg, isEnvId, Outcome.bind, mkST, dupErr,
    idST, idISA, idGS, idIEA, idGE, idSE]
  rfl

/-! ### trailers that meet their own header on top of the stack -/

theorem pyIntArg_all (f : Option Str) : pyIntArg Fixes.all f = .ok (fieldInt f) := by
  cases f <;> simp [pyIntArg, fieldInt, Fixes.all]

theorem checkCount_all (s : RState) (es : List Err) (cnt : Option Str) (n : Nat) (e : Err)
    (k : Kind × Option Str) (L : List (Kind × Option Str)) (hl : s.loops = k :: L) :
    checkCount Fixes.all s es cnt n e =
      .ok ({ s with loops := L }, es ++ (if fieldInt cnt = some (natInt n) then [] else [e])) := by
  simp only [checkCount, pyIntArg_all, Outcome.bind, popLoop, hl]
  split <;> simp

theorem closeSet_all (s : RState) (v : SegView) (c0 : Option Str) (L : List (Kind × Option Str))
    (hl : s.loops = (Kind.st, c0) :: L) :
    closeSet Fixes.all s v =
      .ok ({ s with loops := L }, trailerErrs Err.st3 Err.st4 c0 v.ctl v.cnt (s.segCount + 1)) := by
  unfold closeSet
  rw [hl]
  simp only
  rw [checkCount_all s _ v.cnt (s.segCount + 1) Err.st4 _ L hl]
  simp only [trailerErrs, true_and]
  by_cases h : c0 = v.ctl
  · simp [h]
  · have h' : ¬ v.ctl = c0 := fun e => h e.symm
    simp [h, h']

theorem step_SE (s : RState) (n c c0 : Option Str) (L : List (Kind × Option Str))
    (hl : s.loops = (Kind.st, c0) :: L) :
    step Fixes.all s (mkSE n c) =
      .ok ({ s with loops := L }, trailerErrs Err.st3 Err.st4 c0 c n (s.segCount + 1)) := by
  have h := closeSet_all s (mkSE n c) c0 L hl
  simp [step, baseStep, baseBranch, trailerStep, countSeg, isEnvId, Outcome.bind, mkSE,
    idST, idISA, idGS, idIEA, idGE, idSE, idHL, idCLM, idLX] at h ⊢
  simp [h]

theorem closeEnv_all (k : Kind) (eOpen eId eCnt : Err) (n : Nat) (s : RState) (v : SegView) (c0 : Option Str)
    (L : List (Kind × Option Str)) (hl : s.loops = (k, c0) :: L) :
    closeEnv Fixes.all k eOpen eId eCnt n s v =
      .ok ({ s with loops := L }, trailerErrs eId eCnt c0 v.ctl v.cnt n) := by
  unfold closeEnv
  rw [hl]
  simp only [if_true]
  unfold checkId
  rw [hl]
  simp only
  rw [checkCount_all s _ v.cnt n eCnt _ L hl]
  simp only [trailerErrs]
  by_cases h : c0 = v.ctl
  · simp [h]
  · have h' : ¬ v.ctl = c0 := fun e => h e.symm
    simp [h, h']

theorem step_GE (s : RState) (n c c0 : Option Str) (L : List (Kind × Option Str))
    (hl : s.loops = (Kind.gs, c0) :: L) :
    step Fixes.all s (mkGE n c) =
      .ok ({ s with loops := L }, trailerErrs Err.gs4 Err.gs5 c0 c n s.stCount) := by
  have h := closeEnv_all Kind.gs Err.gs3 Err.gs4 Err.gs5 s.stCount s (mkGE n c) c0 L hl
  simp [step, baseStep, baseBranch, trailerStep, countSeg, isEnvId, Outcome.bind, mkGE,
    idST, idISA, idGS, idIEA, idGE, idSE, idHL, idCLM, idLX] at h ⊢
  simp [h]

theorem step_IEA (s : RState) (n c c0 : Option Str) (L : List (Kind × Option Str))
    (hl : s.loops = (Kind.isa, c0) :: L) :
    step Fixes.all s (mkIEA n c) =
      .ok ({ s with loops := L }, trailerErrs Err.isa001 Err.isa021 c0 c n s.gsCount) := by
  have h := closeEnv_all Kind.isa Err.isa024 Err.isa001 Err.isa021 s.gsCount s (mkIEA n c) c0 L hl
  simp [step, baseStep, baseBranch, trailerStep, countSeg, isEnvId, Outcome.bind, mkIEA,
    idST, idISA, idGS, idIEA, idGE, idSE, idHL, idCLM, idLX] at h ⊢
  simp [h]

/-! ### body segments -/

theorem not_env {i : Str} (h : isEnvId i = false) :
    i ≠ idISA ∧ i ≠ idIEA ∧ i ≠ idGS ∧ i ≠ idGE ∧ i ≠ idST ∧ i ≠ idSE := by
  simp [isEnvId] at h
  obtain ⟨⟨⟨⟨⟨a, b⟩, c⟩, d⟩, e⟩, f⟩ := h
  exact ⟨a, b, c, d, e, f⟩

theorem trailerStep_body (s : RState) (v : SegView) (h : isEnvId v.id = false) :
    trailerStep Fixes.all s v = .ok (s, []) := by
  obtain ⟨_, h2, _, h4, _, h6⟩ := not_env h
  simp [trailerStep, h2, h4, h6]

/-- what the HL branch does to the stack and which errors it raises -/
def hlStackAfter (s : RState) (v : SegView) : List Nat :=
  (s.hlCount + 1) :: (if v.ctl = some [] then s.hlStack else popUntil (fieldInt v.ctl) s.hlStack)

def hlStepErrs (s : RState) (v : SegView) : List Err :=
  (if fieldInt v.cnt = some (natInt (s.hlCount + 1)) then [] else [Err.hl1]) ++
  (if v.ctl = some [] then [] else if inStack (fieldInt v.ctl) s.hlStack = true then [] else [Err.hl2])

theorem step_HL (s : RState) (v : SegView) (hid : v.id = idHL) :
    step Fixes.all s v =
      .ok ({ s with hlCount := s.hlCount + 1, hlStack := hlStackAfter s v, segCount := s.segCount + 1 },
           hlStepErrs s v) := by
  have henv : isEnvId v.id = false := by rw [hid]; decide
  simp only [step, baseStep, trailerStep_body _ _ henv]
  simp only [baseBranch, hid, idST, idISA, idGS, idHL, List.cons.injEq, Char.reduceEq, false_and, and_false,
    if_false, if_true, baseHl, pyIntArg_all, Outcome.bind, hlParent, hlStackAfter, hlStepErrs]
  by_cases hb : v.ctl = some []
  · simp [hb, countSeg, hid, isEnvId, idST, idISA, idGS, idIEA, idGE, idSE, idHL]
  · by_cases hin : inStack (fieldInt v.ctl) s.hlStack = true
    · simp [hb, hin, countSeg, hid, isEnvId, idST, idISA, idGS, idIEA, idGE, idSE, idHL]
    · simp [hb, hin, countSeg, hid, isEnvId, idST, idISA, idGS, idIEA, idGE, idSE, idHL, Fixes.all]

theorem step_CLM (s : RState) (v : SegView) (hid : v.id = idCLM) (hc : s.chk837 = true) :
    step Fixes.all s v = .ok ({ s with lxCount := 0, segCount := s.segCount + 1 }, []) := by
  have henv : isEnvId v.id = false := by rw [hid]; decide
  simp only [step, baseStep, trailerStep_body _ _ henv]
  simp [baseBranch, hid, hc, idST, idISA, idGS, idHL, idCLM, countSeg, isEnvId, idIEA, idGE, idSE, Outcome.bind]

theorem step_LX (s : RState) (v : SegView) (hid : v.id = idLX) (hc : s.chk837 = true) :
    step Fixes.all s v =
      .ok ({ s with lxCount := s.lxCount + 1, segCount := s.segCount + 1 },
           if v.cnt = some (decimal (s.lxCount + 1)) then [] else [Err.lx]) := by
  have henv : isEnvId v.id = false := by rw [hid]; decide
  simp only [step, baseStep, trailerStep_body _ _ henv]
  simp [baseBranch, baseLx, hid, hc, idST, idISA, idGS, idHL, idCLM, idLX, countSeg, isEnvId, idIEA, idGE, idSE,
    Outcome.bind]

theorem step_other (s : RState) (v : SegView) (henv : isEnvId v.id = false) (h1 : v.id ≠ idHL)
    (h2 : s.chk837 = true → v.id ≠ idCLM ∧ v.id ≠ idLX) :
    step Fixes.all s v = .ok ({ s with segCount := s.segCount + 1 }, []) := by
  obtain ⟨e1, _, e3, _, e5, _⟩ := not_env henv
  simp only [step, baseStep, trailerStep_body _ _ henv]
  by_cases hc : s.chk837 = true
  · obtain ⟨e7, e8⟩ := h2 hc
    simp [baseBranch, e1, e3, e5, h1, e7, e8, countSeg, henv, Outcome.bind]
  · simp [baseBranch, e1, e3, e5, h1, hc, countSeg, henv, Outcome.bind]

end Pyx12Verif.Envelope
