/-
`xmlx12_simple.convert` up to the text (`Model/Convert.lean`), unfolded:
  * `convLoop` (get_segment / Write / print alternating) is `Writer.writeAll` over `Xml.segsOf` followed by one `render`;
  * what it leaves on the stream for a complete structured document (`Proofs/C08TextWriter.lean`);
  * the real reader of C01 (`RawX12File` header parse, buffered tokeniser under any read sizes, `X12Reader.__iter__`) on
    that text.
-/
import Pyx12Verif.Model.Convert
import Pyx12Verif.Proofs.C08TextWriter
import Pyx12Verif.Proofs.WriterHeader
import Pyx12Verif.Proofs.WriterText
import Pyx12Verif.Props.C11

namespace Pyx12Verif.Convert
open Pyx12Verif.Envelope (RState SegView Kind Fixes Str idISA idIEA idGS idGE idST idSE isEnvId)
open Pyx12Verif.SegText (Seg Delims normSeg Clean)
open Pyx12Verif.Writer

/-! ### printing -/

theorem encode_append (d : Delims) (b : List Char) : ∀ (x y : List Seg) (tx ty : List Char),
    SegText.encode d b x = some tx → SegText.encode d b y = some ty → SegText.encode d b (x ++ y) = some (tx ++ ty)
  | [], y, tx, ty, hx, hy => by
    simp only [SegText.encode, Option.some.injEq] at hx
    subst hx
    simpa using hy
  | s :: r, y, tx, ty, hx, hy => by
    simp only [SegText.encode, List.cons_append] at hx ⊢
    cases hs : SegText.formatSeg d s with
    | none => simp [hs, SegText.both] at hx
    | some t =>
      cases hr : SegText.encode d b r with
      | none => simp [hs, hr, SegText.both] at hx
      | some u =>
        simp only [hs, hr, SegText.both, Option.some.injEq] at hx
        simp only [encode_append d b r y u ty hr hy, SegText.both, ← hx, List.append_assoc]

theorem encode_split (d : Delims) (b : List Char) : ∀ (x y : List Seg) (t : List Char),
    SegText.encode d b (x ++ y) = some t →
    ∃ tx ty, SegText.encode d b x = some tx ∧ SegText.encode d b y = some ty ∧ t = tx ++ ty
  | [], y, t, h => ⟨[], t, rfl, by simpa using h, rfl⟩
  | s :: r, y, t, h => by
    simp only [SegText.encode, List.cons_append] at h ⊢
    cases hs : SegText.formatSeg d s with
    | none => simp [hs, SegText.both] at h
    | some u =>
      cases hr : SegText.encode d b (r ++ y) with
      | none => simp [hs, hr, SegText.both] at h
      | some v =>
        simp only [hs, hr, SegText.both, Option.some.injEq] at h
        obtain ⟨tx, ty, h1, h2, h3⟩ := encode_split d b r y v hr
        exact ⟨u ++ b ++ tx, ty, by simp [h1, SegText.both], h2, by rw [← h, h3]; simp⟩

/-! ### the loop of `convert` = all `get_segment`s, all `Write`s, one print -/

theorem convLoop_ok (c : Cfg) : ∀ (nodes : List Xml.XNode) (w w' : RState) (segs : List Segment.SegObj) (outs : List Seg)
    (txt : List Char), Xml.segsOf nodes = .ok segs → writeAll c w (segs.map Segment.toSeg) = .ok (w', outs) →
    render c outs = some txt → convLoop c w nodes = .ok txt
  | [], w, w', segs, outs, txt, h1, h2, h3 => by
    simp only [Xml.segsOf] at h1
    injection h1 with h1
    subst h1
    simp only [List.map_nil, writeAll] at h2
    injection h2 with h2
    injection h2 with _ e2
    subst e2
    simp only [render, SegText.encode, Option.some.injEq] at h3
    subst h3
    rfl
  | n :: r, w, w', segs, outs, txt, h1, h2, h3 => by
    simp only [Xml.segsOf] at h1
    simp only [convLoop]
    split
    · rename_i ht
      simp only [ht, if_true] at h1
      cases hg : Xml.getSegment n with
      | error e => simp [hg] at h1
      | ok s =>
        cases hr : Xml.segsOf r with
        | error e => simp [hg, hr] at h1
        | ok ss =>
          simp only [hg, hr] at h1
          injection h1 with h1
          subst h1
          simp only [List.map_cons, writeAll] at h2
          cases hw : write c w (Segment.toSeg s) with
          | raised => simp [hw, Outcome.bind] at h2
          | crash e => simp [hw, Outcome.bind] at h2
          | ok a =>
            simp only [hw, Outcome.bind] at h2
            cases hq : writeAll c a.1 (ss.map Segment.toSeg) with
            | raised => simp [hq] at h2
            | crash e => simp [hq] at h2
            | ok q =>
              simp only [hq] at h2
              injection h2 with h2
              injection h2 with e1 e2
              subst e2
              obtain ⟨t1, t2, g1, g2, g3⟩ := encode_split c.d c.eol a.2 q.2 txt h3
              have ih := convLoop_ok c r a.1 q.1 ss q.2 t2 hr (by rw [hq]) g2
              simp only [afterWrite, hw, render, g1, emitThen, ih, g3]
    · rename_i ht
      simp only [ht, if_false] at h1
      exact convLoop_ok c r w w' segs outs txt h1 h2 h3

/-- `convert` on an XML document that is one element tree, whose `seg` elements rebuild to `segs`, which the writer
accepts with output `outs`: the text on `fd_out` is the print of `outs` -/
theorem convertText_ok (evs : List Xml.Ev) (root : Xml.XNode) (segs : List Segment.SegObj) (w' : RState) (outs : List Seg)
    (txt : List Char) (h1 : Xml.buildTree evs = some [root]) (h2 : Xml.convertSegs root = .ok segs)
    (h3 : writeAll convCfg (RState.init false) (segs.map Segment.toSeg) = .ok (w', outs))
    (h4 : render convCfg outs = some txt) : convertText evs = .ok txt := by
  simp only [convertText, h1, convTree]
  exact convLoop_ok convCfg _ _ w' segs outs txt h2 h3 h4

/-! ### what is written is printable -/

theorem trailerSeg_wf (d : Delims) (id : Str) (n : Nat) (ctl : Option Str) : WfSeg (trailerSeg d id n ctl) := by
  unfold trailerSeg
  cases h : SegText.parseSeg d (trailerText d.ele id n ctl) with
  | none => intro c hc; simp at hc
  | some s =>
    simp only
    unfold SegText.parseSeg at h
    split at h
    · cases h
    · unfold SegText.buildSeg at h
      split at h
      · cases h
      · injection h with h
        subst h
        intro c hc
        simp only [List.mem_map] at hc
        obtain ⟨e, _, rfl⟩ := hc
        unfold SegText.splitComp
        split <;> exact SegText.splitOn_ne_nil _ _

theorem fixISA_wf (c : Cfg) (s : Seg) (h : WfSeg s) : WfSeg (fixISA c s) := by
  unfold fixISA
  split
  · intro comp hm
    unfold isaOut at hm
    rcases List.mem_or_eq_of_mem_set hm with hm | hm
    · split at hm
      · rcases List.mem_or_eq_of_mem_set hm with hm | hm
        · exact h comp hm
        · rw [hm]; exact SegText.splitOn_ne_nil _ _
      · exact h comp hm
    · rw [hm]; exact SegText.splitOn_ne_nil _ _
  · exact h

theorem mem_flatSets {ts : List XSet} {s : Seg} (h : s ∈ flatSets ts) : ∃ t ∈ ts, s ∈ t.flat := by
  induction ts with
  | nil => simp [flatSets] at h
  | cons t r ih =>
    simp only [flatSets, List.mem_append] at h
    rcases h with h | h
    · exact ⟨t, by simp, h⟩
    · obtain ⟨t', h1, h2⟩ := ih h
      exact ⟨t', by simp [h1], h2⟩

theorem mem_flatGroups {gs : List XGroup} {s : Seg} (h : s ∈ flatGroups gs) : ∃ g ∈ gs, s ∈ g.flat := by
  induction gs with
  | nil => simp [flatGroups] at h
  | cons g r ih =>
    simp only [flatGroups, List.mem_append] at h
    rcases h with h | h
    · exact ⟨g, by simp, h⟩
    · obtain ⟨g', h1, h2⟩ := ih h
      exact ⟨g', by simp [h1], h2⟩

theorem mem_flatInters {is : List XInter} {s : Seg} (h : s ∈ flatInters is) : ∃ i ∈ is, s ∈ i.flat := by
  induction is with
  | nil => simp [flatInters] at h
  | cons i r ih =>
    simp only [flatInters, List.mem_append] at h
    rcases h with h | h
    · exact ⟨i, by simp, h⟩
    · obtain ⟨i', h1, h2⟩ := ih h
      exact ⟨i', by simp [h1], h2⟩

/-- a property of all segments of the written document, from what it says of headers, body segments and generated
trailers -/
theorem written_all (c : Cfg) (P : Seg → Prop) (is : List XInter)
    (hisa : ∀ i ∈ is, P (fixISA c i.isa)) (hiea : ∀ i ∈ is, P (i.trueIEA c.d))
    (hgs : ∀ i ∈ is, ∀ g ∈ i.groups, P g.gs) (hge : ∀ i ∈ is, ∀ g ∈ i.groups, P (g.trueGE c.d))
    (hst : ∀ i ∈ is, ∀ g ∈ i.groups, ∀ t ∈ g.sets, P t.st) (hse : ∀ i ∈ is, ∀ g ∈ i.groups, ∀ t ∈ g.sets, P (t.trueSE c.d))
    (hb : ∀ i ∈ is, ∀ g ∈ i.groups, ∀ t ∈ g.sets, ∀ b ∈ t.body, P b) :
    ∀ s ∈ flatInters (is.map (XInter.written c)), P s := by
  intro s hs
  obtain ⟨i', hi', hs⟩ := mem_flatInters hs
  obtain ⟨i, hi, rfl⟩ := List.mem_map.1 hi'
  simp only [XInter.flat, XInter.written, List.mem_cons, List.mem_append, List.not_mem_nil, or_false] at hs
  rcases hs with rfl | hs | rfl
  · exact hisa i hi
  · obtain ⟨g', hg', hs⟩ := mem_flatGroups hs
    obtain ⟨g, hg, rfl⟩ := List.mem_map.1 hg'
    simp only [XGroup.flat, XGroup.retrailer, List.mem_cons, List.mem_append, List.not_mem_nil, or_false] at hs
    rcases hs with rfl | hs | rfl
    · exact hgs i hi g hg
    · obtain ⟨t', ht', hs⟩ := mem_flatSets hs
      obtain ⟨t, ht, rfl⟩ := List.mem_map.1 ht'
      simp only [XSet.flat, XSet.retrailer, List.mem_cons, List.mem_append, List.not_mem_nil, or_false] at hs
      rcases hs with rfl | hs | rfl
      · exact hst i hi g hg t ht
      · exact hb i hi g hg t ht s hs
      · exact hse i hi g hg t ht
    · exact hge i hi g hg
  · exact hiea i hi

theorem written_wf (c : Cfg) (is : List XInter) (hok : ∀ i ∈ is, i.Ok) :
    ∀ s ∈ flatInters (is.map (XInter.written c)), WfSeg s :=
  written_all c WfSeg is (fun i hi => fixISA_wf c _ (hok i hi).2.1) (fun _ _ => trailerSeg_wf _ _ _ _)
    (fun i hi g hg => ((hok i hi).2.2.2.1 g hg).2.1) (fun _ _ _ _ => trailerSeg_wf _ _ _ _)
    (fun i hi g hg t ht => (((hok i hi).2.2.2.1 g hg).2.2.1 t ht).2.1) (fun _ _ _ _ _ _ => trailerSeg_wf _ _ _ _)
    (fun i hi g hg t ht b hb => ((((hok i hi).2.2.2.1 g hg).2.2.1 t ht).2.2.1 b hb).2)

/-- **`convert` on a complete structured document**: it returns normally and leaves on `fd_out`, one segment per line,
the document with every trailer regenerated and the writer's separators in the ISA -/
theorem convertText_complete (evs : List Xml.Ev) (root : Xml.XNode) (segs : List Segment.SegObj) (is : List XInter)
    (h1 : Xml.buildTree evs = some [root]) (h2 : Xml.convertSegs root = .ok segs)
    (h3 : segs.map Segment.toSeg = flatInters is) (hok : ∀ i ∈ is, i.Ok) :
    convertText evs = .ok (C01.encText convCfg.d convCfg.eol (flatInters (is.map (XInter.written convCfg)))) := by
  obtain ⟨w', hw, _⟩ := session_complete convCfg is hok
  rw [← h3] at hw
  exact convertText_ok evs root segs w' _ _ h1 h2 hw
    (C01.encode_eq _ _ _ (fun s hs => written_wf convCfg is hok s hs))

/-! ### the reader on a printed document that begins with a standard ISA -/

theorem convCfg_ok : CfgOk convCfg :=
  ⟨⟨⟨by decide, by decide, by decide⟩, by decide, by decide, by decide⟩, by decide, by decide, by decide,
   by intro ch hch; simp [convCfg] at hch; exact Or.inl hch⟩

/-- the header `RawX12File` parses from a text `convert` wrote for an interchange of version `icvn` -/
def convHeader (icvn : Str) : Tokenizer.Header :=
  ⟨'~', '*', ':', if icvn = Tokenizer.v5010 then some '^' else none, icvn⟩

/-- C01's whole reader on the print of `fixISA c isa :: rest` (ISA of the standard field widths, clean values): the
writer's delimiters are recovered, nothing raises, the segments come back (trailing empties trimmed: `normSeg`) -/
theorem read_printed (c : Cfg) (hc : CfgOk c) (isa : Seg) (rest : List Seg) (vals : List Str) (icvn : Str)
    (hid : isa.id = idISA) (hel : isa.elems = vals.map (fun v => [v])) (hwid : vals.map List.length = isaWidths)
    (hicvn : vals[11]? = some icvn) (hver : icvn = Tokenizer.v4010 ∨ icvn = Tokenizer.v5010)
    (hclean : ∀ s ∈ fixISA c isa :: rest, Clean c.d s) (sizes : List Nat) (hsz : ∀ k ∈ sizes, 1 ≤ k) :
    ∃ res, SegText.readAll { rest := C01.encText c.d c.eol (fixISA c isa :: rest), sizes := sizes } =
        .ok ⟨c.d.term, c.d.ele, c.d.sub, if icvn = Tokenizer.v5010 then some c.rep else none, icvn⟩ res ∧
      res.crashed = false ∧ res.segs.map (·.2) = (fixISA c isa :: rest).map normSeg := by
  obtain ⟨txt, henc, hseg⟩ := C01.segments_encode c.d hc.delims.distinct c.eol hc.eol (fixISA c isa :: rest) hclean
  have hwf : ∀ s ∈ fixISA c isa :: rest, ∀ comp ∈ s.elems, comp ≠ [] := fun s hs comp hm => ((hclean s hs).1.2.2 comp hm).1
  rw [C01.encode_eq _ _ _ hwf] at henc
  injection henc with henc
  subst henc
  obtain ⟨itxt, hfmt, hhdr⟩ := isa_header c isa vals hid hel hwid hc.repSub (fun e => hc.delims.distinct.2.2 e.symm) icvn
    hicvn hver
  have hfix : fixISA c isa = isaOut c isa (valueAt c.d.ele isa 11) := by simp [fixISA, hid]
  have hitxt : itxt = SegText.bodyOf c.d (fixISA c isa) ++ [c.d.term] := by
    rw [← hfix, SegText.formatSeg_eq c.d _ (hwf _ (by simp))] at hfmt
    exact (Option.some.inj hfmt).symm
  have htxt : ∃ more, C01.encText c.d c.eol (fixISA c isa :: rest) = itxt ++ more :=
    ⟨c.eol ++ C01.encText c.d c.eol rest, by simp [C01.encText, hitxt]⟩
  obtain ⟨more, hmore⟩ := htxt
  have hlen : Tokenizer.ISA_LEN ≤ itxt.length := by
    unfold Tokenizer.parseHeader at hhdr
    split at hhdr
    · cases hhdr
    · split at hhdr
      · cases hhdr
      · rename_i _ hl
        have hl' : (itxt.take Tokenizer.ISA_LEN).length = Tokenizer.ISA_LEN := by simpa using hl
        rw [List.length_take] at hl'
        omega
  have htake : (C01.encText c.d c.eol (fixISA c isa :: rest)).take Tokenizer.ISA_LEN = itxt.take Tokenizer.ISA_LEN := by
    rw [hmore, List.take_append_of_le_length hlen]
  have hraw : Tokenizer.rawRead { rest := C01.encText c.d c.eol (fixISA c isa :: rest), sizes := sizes } =
      .ok ⟨c.d.term, c.d.ele, c.d.sub, if icvn = Tokenizer.v5010 then some c.rep else none, icvn⟩
        (Tokenizer.spec c.d.term (C01.encText c.d c.eol (fixISA c isa :: rest))) := by
    rw [C01.raw_chunk_independent _ sizes hsz]
    simp only [Tokenizer.rawSpec, htake, hhdr]
  refine ⟨SegText.readLines c.d [] (Tokenizer.spec c.d.term (C01.encText c.d c.eol (fixISA c isa :: rest))), ?_, ?_, ?_⟩
  · simp only [SegText.readAll, hraw, SegText.delimsOf]
  · exact C01.reader_never_crashes c.d _
  · exact hseg

/-! ### what the reader yielded for the source, said with the declarative front end -/

/-- the segments `X12Reader` yields for a text are `SegText.segments` under the delimiters of its header -/
theorem segments_of_readAll (text : List Char) (sizes : List Nat) (hsz : ∀ k ∈ sizes, 1 ≤ k) (h : Tokenizer.Header)
    (rr : SegText.ReadResult) (hread : SegText.readAll { rest := text, sizes := sizes } = .ok h rr) :
    SegText.segments (SegText.delimsOf h) text = rr.segs.map (·.2) := by
  unfold SegText.readAll at hread
  rw [C01.raw_chunk_independent text sizes hsz] at hread
  unfold Tokenizer.rawSpec at hread
  cases hp : Tokenizer.parseHeader (text.take Tokenizer.ISA_LEN) with
  | error e => simp [hp] at hread
  | ok h' =>
    simp only [hp] at hread
    injection hread with e1 e2
    subst e1
    rw [← e2]
    rfl

end Pyx12Verif.Convert
