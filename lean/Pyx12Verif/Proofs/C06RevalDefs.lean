/-
C06, last sentence: "Fed back to the validator, the acknowledgement selects the 997 map and, when the echoed values fit the
acknowledgement's own element definitions, is accepted."  Definitions shared by Proofs/C06Reval*.lean and Props/C06Reval.lean.

  `renderText`      the 997 as `error_997_visitor._write` sends it to the file
  `asSeg` / `toSeg` the `Segment` object the reader builds for one written line (element lists as written / normal form)
  `ipOf`            index path of the 997-map node a written segment instantiates (by segment identifier)
  `S997`, `view997`, `shape997`   DECIDABLE shape predicate on a map skeleton: the nesting
                        ISA_LOOP[ISA, GS_LOOP[GS, ST_LOOP[ST, HEADER[AK1, AK2[AK2, AK3[AK3, AK4], AK5], AK9], DETAIL[], FOOTER[], SE], GE], TA1, IEA]
                    with the usages / repeat limits / identifiers the derivation needs
  `WithinRepeats`   the repeat limits of that skeleton are not exceeded by what the writer emits for the tree
-/
import Pyx12Verif.Props.C06
import Pyx12Verif.Props.DocEnv
import Pyx12Verif.Proofs.DocCheck
import Pyx12Verif.Proofs.DocDelimRead

namespace Pyx12Verif.C06R
open Pyx12Verif Pyx12Verif.Ack Pyx12Verif.C06 Pyx12Verif.MapSkel Pyx12Verif.WalkerGen

abbrev Str := List Char

/-- the delimiters the 997 visitor hard-codes -/
def d997 : Doc.Delims := ⟨'~', '*', ':'⟩

/-- what `_write` sends to the file: every segment followed by a line feed -/
def renderText (out : List PSeg) : List Char := (out.map (fun x => render997 x ++ ['\n'])).flatten

/-- the element lists of a written segment as the text carries them: the 16th element of the ISA is the component
    separator itself (`_write` replaces the tail of the formatted ISA by `*:~`) -/
def asSeg (x : PSeg) : Doc.Seg :=
  if x.id = isaId then ⟨x.id, x.elems.take 15 ++ [[[':']]]⟩ else ⟨x.id, x.elems⟩

/-- the `Segment` the reader yields for the written line (trailing empty elements / components are not printed) -/
def toSeg (x : PSeg) : Doc.Seg := SegText.normSeg (asSeg x)

/-! ### index paths in the 997 map -/

def ipST : List Nat := [0, 1, 1, 0]
def ipAK1 : List Nat := [0, 1, 1, 1, 0]
def ipAK2 : List Nat := [0, 1, 1, 1, 1, 0]
def ipAK3 : List Nat := [0, 1, 1, 1, 1, 1, 0]
def ipAK4 : List Nat := [0, 1, 1, 1, 1, 1, 1]
def ipAK5 : List Nat := [0, 1, 1, 1, 1, 2]
def ipAK9 : List Nat := [0, 1, 1, 1, 2]
def ipSE : List Nat := [0, 1, 1, 4]
def ipGE : List Nat := [0, 1, 2]
def ipIEA : List Nat := [0, 3]

/-- the map node a written segment is meant for, by its identifier -/
def ipOf (id : Str) : List Nat :=
  if id = sST then ipST else if id = sAK1 then ipAK1 else if id = sAK2 then ipAK2 else if id = sAK3 then ipAK3
  else if id = sAK4 then ipAK4 else if id = sAK5 then ipAK5 else if id = sAK9 then ipAK9 else if id = sSE then ipSE
  else if id = sGE then ipGE else if id = sIEA then ipIEA else []

/-- the body of the document (everything after ISA, GS) with the intended nodes -/
def bodyOf (rest : List PSeg) : List (Doc.Seg × List Nat) := rest.map (fun x => (toSeg x, ipOf x.id))

/-! ### the shape of the 997 skeleton -/

structure SegN where
  sid : Nat
  q : Nat
  pos : Nat
  usage : Nat
  maxUse : Nat
  notes : List Note
  ch : List Child

def SegN.node (s : SegN) : Node := .seg s.sid s.q s.pos s.usage s.maxUse s.notes s.ch

structure LoopN where
  lid : Nat
  pos : Nat
  usage : Nat
  rep : Nat
  w : Bool

def LoopN.node (l : LoopN) (ch : List Node) : Node := .loop l.lid l.pos l.usage l.rep l.w ch

/-- the parts of a 997 skeleton that may vary -/
structure S997 where
  isaL : LoopN
  gsL : LoopN
  stL : LoopN
  hdrL : LoopN
  ak2L : LoopN
  ak3L : LoopN
  detL : LoopN
  ftrL : LoopN
  isa : SegN
  gs : SegN
  st : SegN
  ak1 : SegN
  ak2 : SegN
  ak3 : SegN
  ak4 : SegN
  ak5 : SegN
  ak9 : SegN
  se : SegN
  ge : SegN
  ta1 : SegN
  iea : SegN

def S997.ak3Loop (S : S997) : Node := S.ak3L.node [S.ak3.node, S.ak4.node]
def S997.ak2Loop (S : S997) : Node := S.ak2L.node [S.ak2.node, S.ak3Loop, S.ak5.node]
def S997.header (S : S997) : Node := S.hdrL.node [S.ak1.node, S.ak2Loop, S.ak9.node]
def S997.stLoop (S : S997) : Node := S.stL.node [S.st.node, S.header, S.detL.node [], S.ftrL.node [], S.se.node]
def S997.gsLoop (S : S997) : Node := S.gsL.node [S.gs.node, S.stLoop, S.ge.node]
def S997.isaLoop (S : S997) : Node := S.isaL.node [S.isa.node, S.gsLoop, S.ta1.node, S.iea.node]
def S997.root (S : S997) : List Node := [S.isaLoop]

/-- read the varying parts off a skeleton of the 997 nesting; `none` = another nesting -/
def view997 : List Node → Option S997
  | [.loop a1 a2 a3 a4 a5
      [.seg b1 b2 b3 b4 b5 b6 b7,
       .loop c1 c2 c3 c4 c5
         [.seg d1 d2 d3 d4 d5 d6 d7,
          .loop e1 e2 e3 e4 e5
            [.seg f1 f2 f3 f4 f5 f6 f7,
             .loop g1 g2 g3 g4 g5
               [.seg h1 h2 h3 h4 h5 h6 h7,
                .loop i1 i2 i3 i4 i5
                  [.seg j1 j2 j3 j4 j5 j6 j7,
                   .loop k1 k2 k3 k4 k5 [.seg l1 l2 l3 l4 l5 l6 l7, .seg m1 m2 m3 m4 m5 m6 m7],
                   .seg n1 n2 n3 n4 n5 n6 n7],
                .seg o1 o2 o3 o4 o5 o6 o7],
             .loop p1 p2 p3 p4 p5 [],
             .loop q1 q2 q3 q4 q5 [],
             .seg r1 r2 r3 r4 r5 r6 r7],
          .seg s1 s2 s3 s4 s5 s6 s7],
       .seg t1 t2 t3 t4 t5 t6 t7,
       .seg u1 u2 u3 u4 u5 u6 u7]] =>
    some { isaL := ⟨a1, a2, a3, a4, a5⟩, gsL := ⟨c1, c2, c3, c4, c5⟩, stL := ⟨e1, e2, e3, e4, e5⟩,
           hdrL := ⟨g1, g2, g3, g4, g5⟩, ak2L := ⟨i1, i2, i3, i4, i5⟩, ak3L := ⟨k1, k2, k3, k4, k5⟩,
           detL := ⟨p1, p2, p3, p4, p5⟩, ftrL := ⟨q1, q2, q3, q4, q5⟩,
           isa := ⟨b1, b2, b3, b4, b5, b6, b7⟩, gs := ⟨d1, d2, d3, d4, d5, d6, d7⟩, st := ⟨f1, f2, f3, f4, f5, f6, f7⟩,
           ak1 := ⟨h1, h2, h3, h4, h5, h6, h7⟩, ak2 := ⟨j1, j2, j3, j4, j5, j6, j7⟩, ak3 := ⟨l1, l2, l3, l4, l5, l6, l7⟩,
           ak4 := ⟨m1, m2, m3, m4, m5, m6, m7⟩, ak5 := ⟨n1, n2, n3, n4, n5, n6, n7⟩, ak9 := ⟨o1, o2, o3, o4, o5, o6, o7⟩,
           se := ⟨r1, r2, r3, r4, r5, r6, r7⟩, ge := ⟨s1, s2, s3, s4, s5, s6, s7⟩, ta1 := ⟨t1, t2, t3, t4, t5, t6, t7⟩,
           iea := ⟨u1, u2, u3, u4, u5, u6, u7⟩ }
  | _ => none

theorem view997_root (root : List Node) (S : S997) (h : view997 root = some S) : root = S.root := by
  unfold view997 at h
  split at h
  · simp only [Option.some.injEq] at h
    subst h
    rfl
  · cases h

/-- interned identifiers of the segments the 997 writer emits (as the map's string table has them) -/
structure AckIds where
  st : Nat
  ak1 : Nat
  ak2 : Nat
  ak3 : Nat
  ak4 : Nat
  ak5 : Nat
  ak9 : Nat
  se : Nat
  ge : Nat
  iea : Nat

/-- a counted child that may be emitted (`usage` not N) -/
def usable (u : Nat) : Bool := u != 2
/-- a counted child that may be left out -/
def skippable (u : Nat) : Bool := u != 0

/-- what the derivation needs of the varying parts: the identifiers the glue pins and the writer emits, usages that admit
    what the writer always / sometimes / never emits, no repeat limit on the set loop, and the two `getnodebypath` results
    the glue relies on -/
def S997.ok (S : S997) (K : Walker.Consts) (ids : Doc.EnvIds) (A : AckIds) : Bool :=
  S.isaL.lid == ids.isaLoop && S.isa.sid == ids.isa && S.isa.q == 0 &&
  S.gsL.lid == ids.gsLoop && S.gs.sid == ids.gs && S.gs.q == 0 &&
  usable S.stL.usage && S.stL.rep == 0 && S.st.sid == A.st &&
  usable S.hdrL.usage && S.ak1.sid == A.ak1 &&
  usable S.ak2L.usage && skippable S.ak2L.usage && S.ak2.sid == A.ak2 &&
  usable S.ak3L.usage && skippable S.ak3L.usage && S.ak3.sid == A.ak3 &&
  usable S.ak4.usage && skippable S.ak4.usage && S.ak4.sid == A.ak4 &&
  usable S.ak5.usage && S.ak5.sid == A.ak5 &&
  usable S.ak9.usage && S.ak9.sid == A.ak9 &&
  usable S.se.usage && S.se.sid == A.se &&
  usable S.ge.usage && S.ge.sid == A.ge &&
  skippable S.ta1.usage &&
  usable S.iea.usage && S.iea.sid == A.iea &&
  (MapSkel.fetch K.ent K.hl S.root [(ids.isaLoop, 0), (ids.gsLoop, 0), (ids.gs, 0)] == some [0, 1, 0])

/-- **the decidable shape predicate** (`decide +kernel` on the generated map term) -/
def shape997 (K : Walker.Consts) (ids : Doc.EnvIds) (A : AckIds) (root : List Node) : Bool :=
  match view997 root with
  | some S => S.ok K ids A
  | none => false

theorem shape997_elim {K : Walker.Consts} {ids : Doc.EnvIds} {A : AckIds} {root : List Node}
    (h : shape997 K ids A root = true) : ∃ S : S997, root = S.root ∧ S.ok K ids A = true := by
  unfold shape997 at h
  cases hv : view997 root with
  | none => rw [hv] at h; cases h
  | some S => rw [hv] at h; exact ⟨S, view997_root root S hv, h⟩

/-! ### what the writer emits, counted -/

/-- AK3 lines written for one segment node -/
def ak3Count (sg : ErrTree.Seg) : Nat := (segLines997 sg).length
/-- AK4 lines written behind the last AK3 line of one segment node -/
def ak4Count (sg : ErrTree.Seg) : Nat := (elesLines eleLines997 sg.elements).length

def ak3CountAll : List ErrTree.Seg → Nat
  | [] => 0
  | sg :: r => ak3Count sg + ak3CountAll r

/-- `n` stays within the repeat limit `r` (0 = unbounded) -/
def within (r n : Nat) : Prop := r = 0 ∨ n ≤ r

/-- the repeat limits of the skeleton are not exceeded: AK2 loops per set of the acknowledgement (= sets of the group),
    AK3 loops per AK2 loop (= AK3 lines of the set), AK4 segments per AK3 loop (= element errors with a standard code of
    one segment node) -/
structure WithinRepeats (S : S997) (s : ErrTree.State) : Prop where
  ak2 : ∀ g ∈ allGs s.tree, within S.ak2L.rep g.children.length
  ak3 : ∀ g ∈ allGs s.tree, ∀ st ∈ g.children, within S.ak3L.rep (ak3CountAll st.children)
  ak4 : ∀ g ∈ allGs s.tree, ∀ st ∈ g.children, ∀ sg ∈ st.children, within S.ak4.maxUse (ak4Count sg)

/-- the counters the writer prints stay within the X12 maxima of their elements (GE01 six digits, SE01 ten digits;
    ST02 / SE02 are `'%04i'` of a number below the group count) -/
structure SizesFit (s : ErrTree.State) : Prop where
  groups : (allGs s.tree).length < 10 ^ 6
  segs : ∀ g ∈ allGs s.tree, (gsLines fixed g).segs.length + 4 < 10 ^ 10

/-! ### values without delimiters (the domain outside the listed finding `pred:ack-echo-contains-delimiter`) -/

/-- no value of the written segment contains `~`, `*` or `:`, and no element is an empty composite object -/
def PSegClean (x : PSeg) : Prop :=
  ∀ c ∈ x.elems, c ≠ [] ∧ ∀ v ∈ c, '~' ∉ v ∧ '*' ∉ v ∧ ':' ∉ v

/-- at least one element of the written segment is not empty (else the line ends with the element separator and the
    reader reports `SEG1`) -/
def NonBare (x : PSeg) : Prop := ∃ c ∈ x.elems, ∃ v ∈ c, v ≠ []

/-- every written value is free of delimiters -/
def EchoSafe (s : ErrTree.State) (p : Params) : Prop :=
  ∀ x ∈ (ack997 fixed s p).out, PSegClean x ∧ NonBare x

end Pyx12Verif.C06R
