/-
AK402 / IK402 as the visitors write it (`error_997.py` / `error_999.py`, `visit_ele`): `err_ele.ele_ref_num` is copied only
when it is a non-empty string of ASCII digits (`Ack.asciiDigits`); otherwise the slot stays empty.  For an element error on a
COMPOSITE node `ele_ref_num` is the composite's id (`C022`), which the numeric element AK402 / IK402 (N0 1..4) cannot carry.

  `mkSeg_format_tight`   `Segment(seg.format())` gives back `seg` when no value is empty or contains `*`, `:`
  `ak402_written`        element 2 of every AK4 line: `[ele_ref_num]` when that is a digit string, else `['']`
  `ik402_written`        the same for every IK4 line of the 999
  `ak402_digits` / `ik402_digits`   so the slot is empty or consists of ASCII digits only — whatever the error tree holds
-/
import Pyx12Verif.Props.C05

namespace Pyx12Verif.Ack
open Pyx12Verif.ErrTree Pyx12Verif.C05

/-! ### `Segment(seg.format())` for a segment without empty values -/

/-- no element list is empty, no value is empty or contains an element / component separator -/
def Tight (B : PSeg) : Prop :=
  B.elems ≠ [] ∧ ∀ c ∈ B.elems, c ≠ [] ∧ ∀ v ∈ c, v ≠ [] ∧ '*' ∉ v ∧ ':' ∉ v

theorem trimR_of_ne : ∀ c : List Str, (∀ v ∈ c, v ≠ []) → trimR c = c
  | [], _ => rfl
  | x :: r, h => by
    have hx : x.isEmpty = false := by simpa using h x (by simp)
    simp only [trimR, trimCons, hx, Bool.and_false, Bool.false_eq_true, if_false,
      trimR_of_ne r (fun v hv => h v (by simp [hv]))]

theorem fmtComp_of_ne (c : List Str) (hc : c ≠ []) (h : ∀ v ∈ c, v ≠ []) : fmtComp c = joinWith ':' c := by
  unfold fmtComp
  rw [trimR_of_ne c h]
  have : c.isEmpty = false := by simpa using hc
  simp only [this, Bool.false_eq_true, if_false]

theorem compEmpty_of_ne (c : List Str) (hc : c ≠ []) (h : ∀ v ∈ c, v ≠ []) : compEmpty c = false := by
  cases c with
  | nil => exact absurd rfl hc
  | cons x r =>
    have hx : x.isEmpty = false := by simpa using h x (by simp)
    simp [compEmpty, hx]

theorem trimRC_of_ne : ∀ es : List Comp, (∀ c ∈ es, c ≠ [] ∧ ∀ v ∈ c, v ≠ []) → trimRC es = es
  | [], _ => rfl
  | x :: r, h => by
    have hx := compEmpty_of_ne x (h x (by simp)).1 (h x (by simp)).2
    simp only [trimRC, trimConsC, hx, Bool.and_false, Bool.false_eq_true, if_false,
      trimRC_of_ne r (fun c hc => h c (by simp [hc]))]

theorem fmtFields_tight (B : PSeg) (h : Tight B) : fmtFields B = B.elems.map (joinWith ':') := by
  have h2 : ∀ c ∈ B.elems, c ≠ [] ∧ ∀ v ∈ c, v ≠ [] := fun c hc => ⟨(h.2 c hc).1, fun v hv => ((h.2 c hc).2 v hv).1⟩
  unfold fmtFields
  rw [trimRC_of_ne B.elems h2]
  have : B.elems.isEmpty = false := by simpa using h.1
  simp only [this, Bool.false_eq_true, if_false]
  apply List.map_congr_left
  intro c hc
  exact fmtComp_of_ne c (h2 c hc).1 (h2 c hc).2

/-- **`Segment(seg.format('~', '*', ':'), '~', '*', ':')` is `seg`** when no value is empty or carries a separator -/
theorem mkSeg_format_tight (B : PSeg) (hid : '*' ∉ B.id) (hisa : B.id ≠ isaId) (h : Tight B) : mkSeg B.format = B := by
  have hf := fmtFields_tight B h
  rw [mkSeg_format_safe B hid hisa (by rw [hf]; simpa using h.1) ?_, hf]
  · have : (B.elems.map (joinWith ':')).map (splitOn ':') = B.elems := by
      rw [List.map_map]
      conv => rhs; rw [← List.map_id B.elems]
      apply List.map_congr_left
      intro c hc
      exact splitOn_joinWith ':' c (h.2 c hc).1 (fun v hv => ((h.2 c hc).2 v hv).2.2)
    rw [this]
  · intro f hfm
    rw [hf] at hfm
    obtain ⟨c, hc, rfl⟩ := List.mem_map.1 hfm
    intro hm
    rcases mem_joinWith ':' c '*' hm with e | ⟨v, hv, hcv⟩
    · revert e; decide
    · exact ((h.2 c hc).2 v hv).2.1 hcv

/-! ### digit strings -/

theorem isAsciiDigit_eq (c : Char) : isAsciiDigit c = isDigitC c := rfl

theorem asciiDigits_some {o : Option Str} (h : asciiDigits o = true) :
    ∃ r, o = some r ∧ r ≠ [] ∧ ∀ c ∈ r, isDigitC c = true := by
  cases o with
  | none => cases h
  | some r =>
    simp only [asciiDigits, Bool.and_eq_true, Bool.not_eq_true', List.isEmpty_eq_false_iff, List.all_eq_true] at h
    exact ⟨r, rfl, h.1, fun c hc => by rw [← isAsciiDigit_eq]; exact h.2 c hc⟩

theorem digits_no (r : Str) (h : ∀ c ∈ r, isDigitC c = true) (x : Char) (hx : x = '*' ∨ x = ':' ∨ x = '~' ∨ x = '\n') :
    x ∉ r := by
  intro hm
  have := digit_not_special x (h x hm)
  rcases hx with rfl | rfl | rfl | rfl <;> simp_all

/-! ### the base lines -/

/-- the position element of an AK4 line: `'%i'` or `'%i:%i'` -/
def posComp (e : Ele) : Comp :=
  if subTruthy e.subpos then [natStr e.pos, natStr (subVal e.subpos)] else [natStr e.pos]

theorem posComp_ok (e : Ele) : posComp e ≠ [] ∧ ∀ v ∈ posComp e, v ≠ [] ∧ '*' ∉ v ∧ ':' ∉ v := by
  unfold posComp
  split
  · refine ⟨by simp, ?_⟩
    intro v hv
    simp only [List.mem_cons, List.not_mem_nil, or_false] at hv
    rcases hv with rfl | rfl <;> exact ⟨natStr_ne_nil _, natStr_no _ '*' (by simp), natStr_no _ ':' (by simp)⟩
  · refine ⟨by simp, ?_⟩
    intro v hv
    simp only [List.mem_cons, List.not_mem_nil, or_false] at hv
    subst hv
    exact ⟨natStr_ne_nil _, natStr_no _ '*' (by simp), natStr_no _ ':' (by simp)⟩

/-- the `Segment` object `visit_ele` formats into `seg_str` -/
def eleBaseSeg (id : Str) (e : Ele) : PSeg :=
  { id := id, elems := if asciiDigits e.refNum then [posComp e, [pyStr e.refNum]] else [posComp e] }

theorem eleBaseSeg_tight (id : Str) (e : Ele) : Tight (eleBaseSeg id e) := by
  unfold eleBaseSeg
  by_cases h : asciiDigits e.refNum = true
  · obtain ⟨r, hr, hne, hd⟩ := asciiDigits_some h
    rw [hr] at h
    simp only [hr, h, if_true, pyStr]
    refine ⟨by simp, ?_⟩
    intro c hc
    simp only [List.mem_cons, List.not_mem_nil, or_false] at hc
    rcases hc with rfl | rfl
    · exact posComp_ok e
    · refine ⟨by simp, ?_⟩
      intro v hv
      simp only [List.mem_cons, List.not_mem_nil, or_false] at hv
      subst hv
      exact ⟨hne, digits_no v hd '*' (by simp), digits_no v hd ':' (by simp)⟩
  · simp only [h, Bool.false_eq_true, if_false]
    refine ⟨by simp, ?_⟩
    intro c hc
    simp only [List.mem_cons, List.not_mem_nil, or_false] at hc
    subst hc
    exact posComp_ok e

theorem eleBase997_eq (e : Ele) : eleBase997 e = (eleBaseSeg sAK4 e).format := by
  unfold eleBase997 eleBaseSeg posComp
  congr 1
  by_cases hs : subTruthy e.subpos = true
  · have h1 : splitOn ':' (natStr e.pos ++ ':' :: natStr (subVal e.subpos)) = [natStr e.pos, natStr (subVal e.subpos)] := by
      rw [splitOn_append_sep ':' _ _ (natStr_no _ ':' (by simp)), splitOn_no_sep ':' _ (natStr_no _ ':' (by simp))]
    by_cases h : asciiDigits e.refNum = true
    · obtain ⟨r, hr, _, hd⟩ := asciiDigits_some h
      rw [hr] at h
      simp [hs, h, hr, pyStr, bare, PSeg.append, h1, splitOn_no_sep ':' r (digits_no r hd ':' (by simp))]
    · simp [hs, h, bare, PSeg.append, h1]
  · have h1 : splitOn ':' (natStr e.pos) = [natStr e.pos] := splitOn_no_sep ':' _ (natStr_no _ ':' (by simp))
    by_cases h : asciiDigits e.refNum = true
    · obtain ⟨r, hr, _, hd⟩ := asciiDigits_some h
      rw [hr] at h
      simp [hs, h, hr, pyStr, bare, PSeg.append, h1, splitOn_no_sep ':' r (digits_no r hd ':' (by simp))]
    · simp [hs, h, bare, PSeg.append, h1]

theorem eleBase999_eq (e : Ele) : eleBase999 e = (eleBaseSeg sIK4 e).format := by
  unfold eleBase999 eleBaseSeg posComp
  congr 1
  by_cases hs : subTruthy e.subpos = true
  · by_cases h : asciiDigits e.refNum = true
    · obtain ⟨r, hr, _, hd⟩ := asciiDigits_some h
      rw [hr] at h
      simp [hs, h, hr, pyStr, bare, PSeg.setSub, PSeg.setEle, padComps, padStrs, modNth,
        splitOn_no_sep ':' r (digits_no r hd ':' (by simp))]
    · simp [hs, h, bare, PSeg.setSub, padComps, padStrs, modNth]
  · by_cases h : asciiDigits e.refNum = true
    · obtain ⟨r, hr, _, hd⟩ := asciiDigits_some h
      rw [hr] at h
      simp [hs, h, hr, pyStr, bare, PSeg.setSub, PSeg.setEle, padComps, padStrs, modNth,
        splitOn_no_sep ':' r (digits_no r hd ':' (by simp))]
    · simp [hs, h, bare, PSeg.setSub, padComps, padStrs, modNth]

/-! ### element 2 of the written lines -/

/-- what the writer leaves in AK402 / IK402 -/
def refSlot (e : Ele) : Comp := if asciiDigits e.refNum then [pyStr e.refNum] else [[]]

theorem eleErrLine_slot1 (id : Str) (e : Ele) (er : EleErr) (hid : '*' ∉ id) (hisa : id ≠ isaId) :
    (eleErrLine (eleBaseSeg id e).format er).elems[1]? = some (refSlot e) := by
  rw [eleErrLine, mkSeg_format_tight _ hid hisa (eleBaseSeg_tight id e)]
  unfold eleBaseSeg refSlot
  by_cases h : asciiDigits e.refNum = true
  · by_cases ht : truthy er.value = true <;> simp [h, ht, PSeg.setEle, padComps]
  · by_cases ht : truthy er.value = true <;> simp [h, ht, PSeg.setEle, padComps, List.replicate]

/-- **AK402 of every AK4 line**: `ele_ref_num` when it is a non-empty string of ASCII digits, else empty -/
theorem ak402_written (e : Ele) (x : PSeg) (hx : x ∈ eleLines997 e) : x.elems[1]? = some (refSlot e) := by
  simp only [eleLines997, eleLinesWith, List.mem_map, List.mem_filter] at hx
  obtain ⟨er, _, rfl⟩ := hx
  rw [eleBase997_eq]
  exact eleErrLine_slot1 sAK4 e er (by decide) (by decide)

/-- **IK402 of every IK4 line** of the 999 -/
theorem ik402_written (e : Ele) (x : PSeg) (hx : x ∈ eleLines999 e) : x.elems[1]? = some (refSlot e) := by
  simp only [eleLines999, eleLinesWith, List.mem_map, List.mem_filter] at hx
  obtain ⟨er, _, rfl⟩ := hx
  rw [eleBase999_eq]
  exact eleErrLine_slot1 sIK4 e er (by decide) (by decide)

theorem refSlot_digits (e : Ele) :
    refSlot e = [[]] ∨ ∃ r, e.refNum = some r ∧ refSlot e = [r] ∧ r ≠ [] ∧ ∀ c ∈ r, isDigitC c = true := by
  unfold refSlot
  by_cases h : asciiDigits e.refNum = true
  · obtain ⟨r, hr, hne, hd⟩ := asciiDigits_some h
    rw [hr] at h
    exact Or.inr ⟨r, hr, by simp [h, hr, pyStr], hne, hd⟩
  · exact Or.inl (by simp [h])

/-- whatever the error tree holds (a composite's id, `None`, a non-ASCII string), AK402 is empty or a string of ASCII
    digits: the numeric type of the element cannot be violated by the writer -/
theorem ak402_digits (e : Ele) (x : PSeg) (hx : x ∈ eleLines997 e) :
    x.elems[1]? = some [[]] ∨ ∃ r, e.refNum = some r ∧ x.elems[1]? = some [r] ∧ r ≠ [] ∧ ∀ c ∈ r, isDigitC c = true := by
  rw [ak402_written e x hx]
  rcases refSlot_digits e with h | ⟨r, h1, h2, h3, h4⟩
  · exact Or.inl (by rw [h])
  · exact Or.inr ⟨r, h1, by rw [h2], h3, h4⟩

theorem ik402_digits (e : Ele) (x : PSeg) (hx : x ∈ eleLines999 e) :
    x.elems[1]? = some [[]] ∨ ∃ r, e.refNum = some r ∧ x.elems[1]? = some [r] ∧ r ≠ [] ∧ ∀ c ∈ r, isDigitC c = true := by
  rw [ik402_written e x hx]
  rcases refSlot_digits e with h | ⟨r, h1, h2, h3, h4⟩
  · exact Or.inl (by rw [h])
  · exact Or.inr ⟨r, h1, by rw [h2], h3, h4⟩

/-- non-vacuity: an error on composite `C022` leaves AK402 empty, an error on data element `1271` is referenced -/
example : refSlot { pos := 1, subpos := none, refNum := some ['C', '0', '2', '2'], errors := [] } = [[]] := by decide
example : refSlot { pos := 1, subpos := some 2, refNum := some ['1', '2', '7', '1'], errors := [] } = [['1', '2', '7', '1']] := by
  decide

def exComp : Ele := { pos := 1, subpos := none, refNum := some ['C', '0', '2', '2'], errors := [{ code := ['3'], msg := [], value := none }] }
def exSub : Ele := { pos := 1, subpos := some 2, refNum := some ['1', '2', '7', '1'], errors := [{ code := ['7'], msg := [], value := some ['Z'] }] }

/-- the lines written for "too many sub-elements in composite C022" reported at element 1: no reference number -/
example : (eleLines997 exComp).map render997 = ["AK4*1**3~".toList] := by decide
example : (eleLines999 exComp).map render999 = ["IK4*1**3~".toList] := by decide
/-- an error on sub-element 2 (data element 1271) of the same composite keeps its reference number -/
example : (eleLines997 exSub).map render997 = ["AK4*1:2*1271*7*Z~".toList] := by decide
example : (eleLines999 exSub).map render999 = ["IK4*1:2*1271*7*Z~".toList] := by decide

end Pyx12Verif.Ack
