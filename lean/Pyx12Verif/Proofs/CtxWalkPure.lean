/-
C09 ⟵ C02 link, part 1: the state-independent part of `_is_loop_match` and `_goto_seg_match`.

`lmB` = does `_is_loop_match` answer True; `gotoPath` = the (relative) index path `_goto_seg_match` descends to the loop
whose first segment it returns.  Both results of the model functions are functions of the map node and the data
segment alone (the walker state only collects pending errors and counts).
-/
import Pyx12Verif.Proofs.WalkerOff

namespace Pyx12Verif.CtxWalk
open Pyx12Verif.MapSkel Pyx12Verif.Walker Pyx12Verif.WalkerGen

/-- the first child is a segment and the data segment matches it -/
def headMatches (K : Consts) (s : SegData) : List Node → Bool
  | [] => false
  | first :: _ => first.isSeg && isMatch K first s

mutual
/-- the Boolean `_is_loop_match` returns -/
def lmB (K : Consts) (s : SegData) : Node → Bool
  | .seg .. => false
  | .loop _ _ _ _ _ ch => lmHead K s ch
def lmHead (K : Consts) (s : SegData) : List Node → Bool
  | [] => false
  | .seg a b c d e f g :: _ => isMatch K (.seg a b c d e f g) s
  | .loop _ _ _ _ _ ch :: r => lmHead K s ch || lmAny K s r
def lmAny (K : Consts) (s : SegData) : List Node → Bool
  | [] => false
  | .seg .. :: r => lmAny K s r
  | .loop _ _ _ _ _ ch :: r => lmHead K s ch || lmAny K s r
end

mutual
/-- relative index path from a loop down to the loop `_goto_seg_match` enters (`[]` = this loop itself) -/
def gotoPath (K : Consts) (s : SegData) : Node → Option (List Nat)
  | .seg .. => none
  | .loop _ _ _ _ _ ch => if headMatches K s ch then some [] else gotoList K s 0 ch
def gotoList (K : Consts) (s : SegData) (i : Nat) : List Node → Option (List Nat)
  | [] => none
  | c :: r =>
    if c.isSeg then gotoList K s (i + 1) r
    else
      match gotoPath K s c with
      | some d => some (i :: d)
      | none => gotoList K s (i + 1) r
end

/-- the push list `_goto_seg_match` builds: the loop at `ip` and every loop on the way down along `d` -/
def chain (ip : List Nat) : List Nat → List (List Nat)
  | [] => [ip]
  | i :: r => ip :: chain (ip ++ [i]) r

/-! ### the model functions compute these -/

mutual
theorem isLoopMatch_fst {K : Consts} {s : SegData} : ∀ (c : Node) (ip : List Nat) (key : PathKey) (st : WState),
    (isLoopMatch K s ip key st c).1 = lmB K s c
  | .seg .., _, _, _ => by simp [isLoopMatch, lmB]
  | .loop lid p u r w [], _, _, _ => by simp [isLoopMatch, lmB, lmHead]
  | .loop lid p u r w (.seg a b c d e f g :: rest), ip, key, st => by
    simp only [isLoopMatch, Node.isSeg, ↓reduceIte, lmB, lmHead]
    split
    · rename_i h; rw [h]
    · rename_i h
      have : isMatch K (.seg a b c d e f g) s = false := by simpa using h
      rw [this]; split <;> rfl
  | .loop lid p u r w (.loop a b c d e ch :: rest), ip, key, st => by
    simp only [isLoopMatch, Node.isSeg, lmB, lmHead, Bool.false_eq_true, ↓reduceIte]
    have := anyLoopMatch_fst (K := K) (s := s) (.loop a b c d e ch :: rest) ip key 0 st
    simpa [lmAny] using this
theorem anyLoopMatch_fst {K : Consts} {s : SegData} : ∀ (ch : List Node) (ip : List Nat) (key : PathKey) (i : Nat)
    (st : WState), (anyLoopMatch K s ip key i st ch).1 = lmAny K s ch
  | [], _, _, _, _ => by simp [anyLoopMatch, lmAny]
  | .seg .. :: r, ip, key, i, st => by
    simp only [anyLoopMatch, Node.isSeg, ↓reduceIte, lmAny]
    exact anyLoopMatch_fst r ip key (i + 1) st
  | .loop l a u b w ch :: r, ip, key, i, st => by
    have h1 := isLoopMatch_fst (K := K) (s := s) (.loop l a u b w ch) (ip ++ [i]) (key ++ [(Node.loop l a u b w ch).comp]) st
    simp only [anyLoopMatch, Node.isSeg, Bool.false_eq_true, ↓reduceIte, lmAny]
    simp only [lmB] at h1
    cases hm : isLoopMatch K s (ip ++ [i]) (key ++ [(Node.loop l a u b w ch).comp]) st (.loop l a u b w ch) with
    | mk bb st' =>
      rw [hm] at h1; simp only at h1
      cases bb with
      | true => simp [← h1]
      | false =>
        simp only [← h1, Bool.false_or]
        exact anyLoopMatch_fst r ip key (i + 1) st'
end

def gotoRes (ip : List Nat) (d : List Nat) : List Nat × List (List Nat) := (ip ++ d ++ [0], chain ip d)

mutual
theorem gotoSegMatch_fst {K : Consts} {s : SegData} : ∀ (c : Node) (ip : List Nat) (key : PathKey) (st : WState),
    (gotoSegMatch K s ip key st c).1 = (gotoPath K s c).map (gotoRes ip)
  | .seg .., _, _, _ => by simp [gotoSegMatch, gotoPath]
  | .loop lid p u r w [], _, _, _ => by simp [gotoSegMatch, gotoPath, headMatches, gotoList]
  | .loop lid p u r w (first :: rest), ip, key, st => by
    by_cases h : (first.isSeg && isMatch K first s) = true
    · simp [gotoSegMatch, gotoPath, headMatches, h, gotoRes, chain]
    · simp only [gotoSegMatch, gotoPath, headMatches, h, ↓reduceIte]
      exact gotoChildren_fst (first :: rest) ip key 0 st
theorem gotoChildren_fst {K : Consts} {s : SegData} : ∀ (ch : List Node) (ip : List Nat) (key : PathKey) (i : Nat)
    (st : WState), (gotoChildren K s ip key i st ch).1 = (gotoList K s i ch).map (gotoRes ip)
  | [], _, _, _, _ => by simp [gotoChildren, gotoList]
  | c :: r, ip, key, i, st => by
    simp only [gotoChildren, gotoList]
    split
    · exact gotoChildren_fst r ip key (i + 1) st
    · have h1 := gotoSegMatch_fst (K := K) (s := s) c (ip ++ [i]) (key ++ [c.comp]) st
      cases hg : gotoSegMatch K s (ip ++ [i]) (key ++ [c.comp]) st c with
      | mk res st' =>
        rw [hg] at h1; simp only at h1
        cases hp : gotoPath K s c with
        | none =>
          rw [hp] at h1; simp only [Option.map_none] at h1; subst h1
          simp only
          exact gotoChildren_fst r ip key (i + 1) st'
        | some d =>
          rw [hp] at h1; simp only [Option.map_some] at h1; subst h1
          simp [gotoRes, chain]
end

/-! ### what a positive answer says about the data segment -/

theorem hit_of_isMatch {K : Consts} {s : SegData} {a b c d e : Nat} {f : List Note} {g : List Child}
    (h : isMatch K (.seg a b c d e f g) s = true) : hits s (a, segSKey K a g) :=
  isMatch_hits K _ s h (a, segSKey K a g) (by simp [nodeSKey])

mutual
theorem lmHead_hit {K : Consts} {s : SegData} : ∀ (ch : List Node), lmHead K s ch = true →
    ∃ t, t ∈ entryHead K ch ∧ hits s t
  | [], h => by simp [lmHead] at h
  | .seg a b c d e f g :: _, h => by
    simp only [lmHead] at h
    exact ⟨_, by simp [entryHead], hit_of_isMatch h⟩
  | .loop _ _ _ _ _ ch :: r, h => by
    simp only [lmHead, Bool.or_eq_true] at h
    simp only [entryHead, List.mem_append]
    rcases h with h | h
    · obtain ⟨t, h1, h2⟩ := lmHead_hit ch h; exact ⟨t, Or.inl h1, h2⟩
    · obtain ⟨t, h1, h2⟩ := lmAny_hit r h; exact ⟨t, Or.inr h1, h2⟩
theorem lmAny_hit {K : Consts} {s : SegData} : ∀ (ch : List Node), lmAny K s ch = true →
    ∃ t, t ∈ entryLoops K ch ∧ hits s t
  | [], h => by simp [lmAny] at h
  | .seg .. :: r, h => by
    simp only [lmAny] at h
    simpa [entryLoops] using lmAny_hit r h
  | .loop _ _ _ _ _ ch :: r, h => by
    simp only [lmAny, Bool.or_eq_true] at h
    simp only [entryLoops, List.mem_append]
    rcases h with h | h
    · obtain ⟨t, h1, h2⟩ := lmHead_hit ch h; exact ⟨t, Or.inl h1, h2⟩
    · obtain ⟨t, h1, h2⟩ := lmAny_hit r h; exact ⟨t, Or.inr h1, h2⟩
end

/-- `_is_loop_match` True ⇒ the data segment hits one of the node's entry keys -/
theorem lmB_hit {K : Consts} {s : SegData} {c : Node} (h : lmB K s c = true) : ∃ t, t ∈ entry K c ∧ hits s t := by
  cases c with
  | seg => simp [lmB] at h
  | loop l p u r w ch => simpa [entry] using lmHead_hit ch (by simpa [lmB] using h)

theorem lmB_loop {K : Consts} {s : SegData} {l p u r : Nat} {w : Bool} {ch : List Node} :
    lmB K s (.loop l p u r w ch) = lmHead K s ch := by simp [lmB]

theorem lmHead_of_headMatches {K : Consts} {s : SegData} {ch : List Node} (h : headMatches K s ch = true) :
    lmHead K s ch = true := by
  cases ch with
  | nil => simp [headMatches] at h
  | cons first rest =>
    cases first with
    | loop => simp [headMatches, Node.isSeg] at h
    | seg a b c d e f g => simpa [headMatches, Node.isSeg, lmHead] using h

/-- which child `lmAny` found -/
theorem lmAny_spec {K : Consts} {s : SegData} : ∀ (ch : List Node), lmAny K s ch = true →
    ∃ (j : Nat) (c : Node), ch[j]? = some c ∧ c.isSeg = false ∧ lmB K s c = true
  | [], h => by simp [lmAny] at h
  | .seg .. :: r, h => by
    simp only [lmAny] at h
    obtain ⟨j, c, h1, h2⟩ := lmAny_spec r h
    exact ⟨j + 1, c, by simpa using h1, h2⟩
  | .loop l p u r' w ch :: r, h => by
    simp only [lmAny, Bool.or_eq_true] at h
    rcases h with h | h
    · exact ⟨0, .loop l p u r' w ch, by simp, rfl, by simpa [lmB] using h⟩
    · obtain ⟨j, c, h1, h2⟩ := lmAny_spec r h
      exact ⟨j + 1, c, by simpa using h1, h2⟩

/-- a loop whose first child is a loop matches through `lmAny` over all its children -/
theorem lmHead_firstLoop {K : Consts} {s : SegData} {ch : List Node} (hT : firstIsLoop ch = true) :
    lmHead K s ch = lmAny K s ch := by
  cases ch with
  | nil => simp [firstIsLoop] at hT
  | cons x rest =>
    cases x with
    | seg => simp [firstIsLoop, Node.isSeg] at hT
    | loop => simp [lmHead, lmAny]

/-- which child `gotoList` descended into; the loop children before it gave nothing -/
theorem gotoList_spec {K : Consts} {s : SegData} : ∀ (ch : List Node) (i : Nat) (p : List Nat),
    gotoList K s i ch = some p →
    ∃ (j : Nat) (c : Node) (d : List Nat), p = (i + j) :: d ∧ ch[j]? = some c ∧ c.isSeg = false ∧ gotoPath K s c = some d ∧
      ∀ (j0 : Nat) (c0 : Node), j0 < j → ch[j0]? = some c0 → c0.isSeg = false → gotoPath K s c0 = none
  | [], _, _, h => by simp [gotoList] at h
  | c :: r, i, p, h => by
    simp only [gotoList] at h
    by_cases hs : c.isSeg = true
    · simp only [hs, ↓reduceIte] at h
      obtain ⟨j, c', d, h1, h2, h3, h4, h5⟩ := gotoList_spec r (i + 1) p h
      refine ⟨j + 1, c', d, by rw [h1]; congr 1; omega, by simpa using h2, h3, h4, ?_⟩
      intro j0 c0 hj0 hc0 hns
      cases j0 with
      | zero => simp at hc0; subst hc0; rw [hs] at hns; cases hns
      | succ n => exact h5 n c0 (by omega) (by simpa using hc0) hns
    · have hs' : c.isSeg = false := by simpa using hs
      simp only [hs', Bool.false_eq_true, ↓reduceIte] at h
      cases hp : gotoPath K s c with
      | some d =>
        rw [hp] at h; simp only [Option.some.injEq] at h
        exact ⟨0, c, d, by rw [← h]; simp, by simp, hs', hp, by intro j0 c0 hj0; omega⟩
      | none =>
        rw [hp] at h; simp only at h
        obtain ⟨j, c', d, h1, h2, h3, h4, h5⟩ := gotoList_spec r (i + 1) p h
        refine ⟨j + 1, c', d, by rw [h1]; congr 1; omega, by simpa using h2, h3, h4, ?_⟩
        intro j0 c0 hj0 hc0 hns
        cases j0 with
        | zero => simp at hc0; subst hc0; exact hp
        | succ n => exact h5 n c0 (by omega) (by simpa using hc0) hns

theorem gotoPath_loop {K : Consts} {s : SegData} {l p u r : Nat} {w : Bool} {ch : List Node} :
    gotoPath K s (.loop l p u r w ch) = if headMatches K s ch then some [] else gotoList K s 0 ch := by
  simp [gotoPath]

/-- the shape of a positive `gotoPath` answer -/
theorem gotoPath_cases {K : Consts} {s : SegData} {c : Node} {d : List Nat} (h : gotoPath K s c = some d) :
    ∃ l p u r w ch, c = .loop l p u r w ch ∧
      ((headMatches K s ch = true ∧ d = []) ∨
       (headMatches K s ch = false ∧ ∃ (j : Nat) (c' : Node) (d' : List Nat), d = j :: d' ∧ ch[j]? = some c' ∧ c'.isSeg = false ∧
          gotoPath K s c' = some d' ∧
          ∀ (j0 : Nat) (c0 : Node), j0 < j → ch[j0]? = some c0 → c0.isSeg = false → gotoPath K s c0 = none)) := by
  cases c with
  | seg => simp [gotoPath] at h
  | loop l p u r w ch =>
    refine ⟨l, p, u, r, w, ch, rfl, ?_⟩
    rw [gotoPath_loop] at h
    by_cases hm : headMatches K s ch = true
    · left; simp only [hm, ↓reduceIte, Option.some.injEq] at h; exact ⟨hm, h.symm⟩
    · right
      have hm' : headMatches K s ch = false := by simpa using hm
      simp only [hm', Bool.false_eq_true, ↓reduceIte] at h
      obtain ⟨j, c', d', h1, h2⟩ := gotoList_spec ch 0 d h
      exact ⟨hm', j, c', d', by simpa using h1, h2⟩

theorem deepList_mem {K : Consts} {ch : List Node} {j : Nat} {c : Node} (hc : ch[j]? = some c) {k : SKey}
    (hk : k ∈ deep K c) : k ∈ deepList K ch := by
  induction ch generalizing j with
  | nil => simp at hc
  | cons a r ih =>
    simp only [deepList, List.mem_append]
    cases j with
    | zero => simp at hc; subst hc; left; exact hk
    | succ n => simp at hc; right; exact ih hc

theorem headMatches_hit {K : Consts} {s : SegData} {ch : List Node} (h : headMatches K s ch = true) :
    ∃ t, t ∈ firstSegKey K ch ∧ hits s t := by
  cases ch with
  | nil => simp [headMatches] at h
  | cons first rest =>
    cases first with
    | loop => simp [headMatches, Node.isSeg] at h
    | seg a b c d e f g =>
      simp only [headMatches, Node.isSeg, Bool.true_and] at h
      exact ⟨_, by simp [firstSegKey, nodeSKey], hit_of_isMatch h⟩

/-- `_goto_seg_match` finds something ⇒ the data segment hits the first-segment key of a loop in the subtree -/
theorem gotoPath_hit {K : Consts} {s : SegData} : ∀ (d : List Nat) (c : Node), gotoPath K s c = some d →
    ∃ t, t ∈ deep K c ∧ hits s t := by
  intro d
  induction d with
  | nil =>
    intro c h
    obtain ⟨l, p, u, r, w, ch, rfl, h1 | h1⟩ := gotoPath_cases h
    · obtain ⟨t, ht, hh⟩ := headMatches_hit h1.1
      exact ⟨t, by simp [deep, ht], hh⟩
    · obtain ⟨_, j, c', d', hd, _⟩ := h1; cases hd
  | cons i r ih =>
    intro c h
    obtain ⟨l, p, u, r', w, ch, rfl, h1 | h1⟩ := gotoPath_cases h
    · cases h1.2
    · obtain ⟨_, j, c', d', hd, hc', _, hg, _⟩ := h1
      simp only [List.cons.injEq] at hd
      obtain ⟨rfl, rfl⟩ := hd
      obtain ⟨t, ht, hh⟩ := ih c' hg
      exact ⟨t, by simp only [deep, List.mem_append]; right; exact deepList_mem hc' ht, hh⟩

mutual
theorem lmHead_goto {K : Consts} {s : SegData} : ∀ (ch : List Node) (i : Nat), lmHead K s ch = true →
    headMatches K s ch = true ∨ (gotoList K s i ch).isSome = true
  | [], _, h => by simp [lmHead] at h
  | .seg a b c d e f g :: _, _, h => by
    left; simpa [lmHead, headMatches, Node.isSeg] using h
  | .loop l p u r' w ch :: r, i, h => by
    right
    exact lmAny_goto (.loop l p u r' w ch :: r) i (by simpa [lmHead, lmAny] using h)
theorem lmAny_goto {K : Consts} {s : SegData} : ∀ (ch : List Node) (i : Nat), lmAny K s ch = true →
    (gotoList K s i ch).isSome = true
  | [], _, h => by simp [lmAny] at h
  | .seg .. :: r, i, h => by
    simp only [lmAny] at h
    simpa [gotoList, Node.isSeg] using lmAny_goto r (i + 1) h
  | .loop l p u r' w ch :: r, i, h => by
    simp only [lmAny, Bool.or_eq_true] at h
    simp only [gotoList, Node.isSeg, Bool.false_eq_true, ↓reduceIte, gotoPath_loop]
    by_cases hm : headMatches K s ch = true
    · simp [hm]
    · have hm' : headMatches K s ch = false := by simpa using hm
      simp only [hm', Bool.false_eq_true, ↓reduceIte]
      rcases h with h | h
      · rcases lmHead_goto ch 0 h with h1 | h1
        · rw [h1] at hm'; cases hm'
        · cases hg : gotoList K s 0 ch with
          | none => rw [hg] at h1; simp at h1
          | some d => simp
      · cases hg : gotoList K s 0 ch with
        | none => simpa using lmAny_goto r (i + 1) h
        | some d => simp
end

/-- `_is_loop_match` True ⇒ `_goto_seg_match` finds a segment node -/
theorem lmB_goto {K : Consts} {s : SegData} {c : Node} (h : lmB K s c = true) : (gotoPath K s c).isSome = true := by
  cases c with
  | seg => simp [lmB] at h
  | loop l p u r w ch =>
    rw [lmB_loop] at h
    rw [gotoPath_loop]
    rcases lmHead_goto ch 0 h with h1 | h1
    · simp [h1]
    · by_cases hm : headMatches K s ch = true
      · simp [hm]
      · simpa [hm] using h1

/-! ### the loops `_goto_seg_match` pushes -/

/-- the path ends at a loop whose first child is a segment the data segment matches; every step is a loop child -/
def EndsAt (K : Consts) (s : SegData) : Node → List Nat → Prop
  | c, [] => headMatches K s c.children = true
  | c, i :: r => ∃ c', c.children[i]? = some c' ∧ c'.isSeg = false ∧ EndsAt K s c' r

theorem gotoPath_endsAt {K : Consts} {s : SegData} : ∀ (d : List Nat) (c : Node), gotoPath K s c = some d →
    EndsAt K s c d := by
  intro d
  induction d with
  | nil =>
    intro c h
    obtain ⟨l, p, u, r, w, ch, rfl, h1 | h1⟩ := gotoPath_cases h
    · exact h1.1
    · obtain ⟨_, j, c', d', hd, _⟩ := h1; cases hd
  | cons i r ih =>
    intro c h
    obtain ⟨l, p, u, r', w, ch, rfl, h1 | h1⟩ := gotoPath_cases h
    · cases h1.2
    · obtain ⟨_, j, c', d', hd, hc', hns, hg, _⟩ := h1
      simp only [List.cons.injEq] at hd
      obtain ⟨rfl, rfl⟩ := hd
      exact ⟨c', hc', hns, ih c' hg⟩

/-- every loop on the path except the last has a loop as first child ("wrapper") -/
def TransChain : Node → List Nat → Prop
  | _, [] => True
  | c, i :: r => firstIsLoop c.children = true ∧ ∃ c', c.children[i]? = some c' ∧ c'.isSeg = false ∧ TransChain c' r

/-- under the local unambiguity conditions (a)/(e), a loop `_is_loop_match` accepted is entered by `_goto_seg_match`
    through wrapper loops only -/
theorem goto_transparent {K : Consts} {s : SegData} : ∀ (d : List Nat) (c : Node), lmB K s c = true →
    localNode K c = true → gotoPath K s c = some d → TransChain c d := by
  intro d
  induction d with
  | nil => intro c _ _ _; trivial
  | cons i r ih =>
    intro c hlm hloc h
    obtain ⟨l, p, u, r', w, ch, rfl, h1 | h1⟩ := gotoPath_cases h
    · cases h1.2
    · obtain ⟨hnm, j, c', d', hd, hc', hns, hg, hbefore⟩ := h1
      simp only [List.cons.injEq] at hd
      obtain ⟨rfl, rfl⟩ := hd
      rw [lmB_loop] at hlm
      -- the first child is a loop
      have hT : firstIsLoop ch = true := by
        cases ch with
        | nil => simp [lmHead] at hlm
        | cons x rest =>
          cases x with
          | seg a b c d e f g =>
            have : headMatches K s (.seg a b c d e f g :: rest) = true := by
              simpa [headMatches, Node.isSeg, lmHead] using hlm
            rw [this] at hnm; cases hnm
          | loop => simp [firstIsLoop, Node.isSeg]
      rw [lmHead_firstLoop hT] at hlm
      obtain ⟨j', c'', hc'', hns'', hlm''⟩ := lmAny_spec ch hlm
      simp only [localNode, hT, Bool.not_true, Bool.false_or, Bool.and_eq_true] at hloc
      have hjj : i = j' := by
        rcases Nat.lt_trichotomy i j' with hlt | heq | hgt
        · exfalso
          obtain ⟨t, ht, hh⟩ := gotoPath_hit r c' hg
          obtain ⟨t', ht', hh'⟩ := lmB_hit hlm''
          exact noHit_of_noOverlap (deep_noOverlap hloc.1.2 hc' hc'' hlt) ht' hh' t ht hh
        · exact heq
        · exfalso
          have := hbefore j' c'' hgt hc'' hns''
          have h2 := lmB_goto hlm''
          rw [this] at h2; simp at h2
      subst hjj
      rw [hc'] at hc''; simp only [Option.some.injEq] at hc''; subst hc''
      exact ⟨hT, c', hc', hns, ih c' hlm'' (localList_get hloc.2 hc') hg⟩

end Pyx12Verif.CtxWalk
