/-
Helper lemmas for Props/DocSinksTotalHtml.lean: when the HTML sink of `x12n_document` completes (`docHtmlWrites = some _`).

  htmlSeg_some             a segment with fewer than 100 elements and no composite without sub-elements has its `gen_seg` view
  readAll_nonEmpty         … and the reader never yields such a composite (C01 / C07 `reader_segments_nonEmpty`)
  validateRead_done        a verdict run: the control map loaded, the loop ran through (`runSegs = .done`), the reader
                           did not crash, the final `handle_errors` did not raise
  htmlLoop_of_runSegs      THE REPLAY: `htmlLoop` feeds the error handler, round by round, the event lists `runSegs` fed it,
                           from the same state (`ErrIter.RState.init.st = ErrTree.State.init`): it raises in no round
                           in which validation did not; it completes iff every round has a node view and a segment view
  htmlLoop_views           conversely a completed loop had both views in every round
  docHtmlWrites_iff        for a verdict run: the writes exist  <=>  every reader segment has < 100 elements and every
                           round's node has a view in `Maps`
-/
import Pyx12Verif.Proofs.DocSinksNodes
import Pyx12Verif.Proofs.DocSinksHtml
import Pyx12Verif.Props.C07

namespace Pyx12Verif.Doc
open Pyx12Verif

/-! ### ingredient 3: the segment view -/

theorem htmlElems_some : ∀ (es : List (List Str)), (∀ c ∈ es, c ≠ []) → ∃ xs, htmlElems es = some xs
  | [], _ => ⟨[], rfl⟩
  | e :: r, h => by
    obtain ⟨xs, hxs⟩ := htmlElems_some r (fun c hc => h c (List.mem_cons_of_mem _ hc))
    cases e with
    | nil => exact absurd rfl (h [] (by simp))
    | cons a q => exact ⟨⟨a, q⟩ :: xs, by simp [htmlElems, htmlElem, hxs, consOpt]⟩

theorem htmlSeg_some (s : Seg) (hlt : s.elems.length < 100) (hne : Pipeline.NonEmptyComps s) : ∃ hs, htmlSeg s = some hs := by
  obtain ⟨xs, hxs⟩ := htmlElems_some s.elems hne
  refine ⟨⟨s.id, xs⟩, ?_⟩
  unfold htmlSeg
  rw [if_neg (by omega), hxs]

theorem htmlSeg_lt (s : Seg) (hs : Html.Seg) (h : htmlSeg s = some hs) : s.elems.length < 100 := by
  unfold htmlSeg at h
  split at h
  · simp at h
  · omega

/-- every segment the reader yields for a text has non-empty composites -/
theorem readAll_nonEmpty (text : List Char) (hd : Tokenizer.Header) (rr : SegText.ReadResult)
    (h : SegText.readAll { rest := text, sizes := [] } = .ok hd rr) : ∀ p ∈ rr.segs, Pipeline.NonEmptyComps p.2 := by
  rw [Pipeline.readAll_of_text text [] (by intro k hk; cases hk)] at h
  unfold Tokenizer.rawSpec at h
  cases hp : Tokenizer.parseHeader (text.take Tokenizer.ISA_LEN) with
  | error e => rw [hp] at h; cases h
  | ok hd' =>
    rw [hp] at h
    simp only [SegText.ReaderOutcome.ok.injEq] at h
    obtain ⟨rfl, rfl⟩ := h
    have hne := Pipeline.reader_segments_nonEmpty (SegText.delimsOf hd') text
    exact hne

/-! ### what a verdict says about the run -/

theorem validateRead_done (ms : Maps) (ctx : Ctx) (h : Tokenizer.Header) (rr : SegText.ReadResult) (b : Bool)
    (hv : (validateRead ms ctx h rr).outcome = .verdict b) :
    ∃ control a est, findMap ms (controlFile h) = some control ∧
      runSegs ms ctx control (SegText.delimsOf h) (initAcc ms control) rr.segs = .done a ∧ rr.crashed = false ∧
      ErrTree.run a.est ((finalErrs rr a.st).map rdEvent) = .ok est ∧
      (validateRead ms ctx h rr).segs = a.outs ∧ (validateRead ms ctx h rr).final = est := by
  unfold validateRead at hv
  cases hc : findMap ms (controlFile h) with
  | none => simp [hc, emptyResult] at hv
  | some control =>
    simp only [hc] at hv
    cases hl : runSegs ms ctx control (SegText.delimsOf h) (initAcc ms control) rr.segs with
    | stopped o a =>
      simp only [hl, finish] at hv
      have := runSegs_nv ms ctx control _ _ _ _ _ hl
      rw [hv] at this
      exact this.elim
    | done a =>
      simp only [hl, finish] at hv
      cases hcr : rr.crashed with
      | true => simp [hcr] at hv
      | false =>
        simp only [hcr] at hv
        cases hr : ErrTree.run a.est ((finalErrs rr a.st).map rdEvent) with
        | crash site => simp [hr, finishDone] at hv
        | ok est =>
          refine ⟨control, a, est, rfl, hl, rfl, hr, ?_, ?_⟩
          · simp [validateRead, hc, hl, finish, hcr, hr, finishDone]
          · simp [validateRead, hc, hl, finish, hcr, hr, finishDone]

/-! ### ingredient 1: the replay of the `err_handler` calls -/

theorem roundView_some (sc : SinkCtx) (t : ErrTree.Tree) (c : ErrIter.Cursor) (p : Round) (o : Option NodeView)
    (hv : ∃ v, o = some v) (hs : ∃ hs, htmlSeg p.2 = some hs) : ∃ sa, roundView sc t c p o = some sa := by
  obtain ⟨v, rfl⟩ := hv
  obtain ⟨x, hx⟩ := hs
  simp only [roundView, hx, roundAnn]
  exact ⟨_, rfl⟩

/-- **the replay.**  A loop of `x12n_document` that ran through (`.done`) from accumulator `a`, and an HTML loop started in
    a state whose error tree is that of `a`: when every round has a node view and a segment view the HTML loop completes
    — `ErrTree.run` is applied to the same state and the same events as in `runSegs`, where it did not raise — and ends
    with the error tree of the validation loop. -/
theorem htmlLoop_of_runSegs (ms : Maps) (ctx : Ctx) (control : MapX) (d : Delims) (sc : SinkCtx) :
    ∀ (segs : List (List SegText.RErr × Seg)) (a a' : Acc) (rs : ErrIter.RState) (new : List SegOut),
      runSegs ms ctx control d a segs = .done a' → a'.outs = a.outs ++ new → rs.st = a.est →
      (∀ o ∈ new, ∃ v, nodeView ms o.node = some v) → (∀ p ∈ segs, ∃ hs, htmlSeg p.2 = some hs) →
      ∃ rounds q, zipExact new (segs.map (·.2)) = some rounds ∧ htmlLoop ms sc rs rounds = some q ∧ q.2.st = a'.est
  | [], a, a', rs, new => by
    intro h ho hst _ _
    simp only [runSegs, LoopEnd.done.injEq] at h
    subst h
    have : new = [] := by
      have := congrArg List.length ho
      simp only [List.length_append] at this
      exact List.eq_nil_of_length_eq_zero (by omega)
    subst this
    exact ⟨[], ([], rs), rfl, rfl, hst⟩
  | p :: ps, a, a', rs, new => by
    intro h ho hst hviews hsegs
    simp only [runSegs] at h
    split at h
    · simp at h
    · rename_i st out hstep
      split at h
      · simp at h
      · rename_i est hrun
        obtain ⟨new', h1, _, _⟩ := runSegs_outs ms ctx control d ps _ a' h
        have h2 := h1
        simp only [pushOut, List.append_assoc] at h2
        rw [ho] at h2
        have hnew : new = out :: new' := by simpa using List.append_cancel_left h2
        subst hnew
        obtain ⟨rounds, q, hz, hl, hq⟩ := htmlLoop_of_runSegs ms ctx control d sc ps (pushOut a st est out) a'
          { st := est, cur := (ErrIter.drainV est.tree rs.cur).2 } new' h h1 rfl
          (fun o ho => hviews o (List.mem_cons_of_mem _ ho)) (fun x hx => hsegs x (List.mem_cons_of_mem _ hx))
        obtain ⟨sa, hsa⟩ := roundView_some sc est.tree rs.cur (out, p.2) (nodeView ms out.node)
          (hviews out (by simp)) (hsegs p (by simp))
        refine ⟨(out, p.2) :: rounds, (sa :: q.1, q.2), ?_, ?_, hq⟩
        · simp [zipExact, hz, consOpt]
        · simp only [htmlLoop, hst, hrun, hsa, hl]

/-- conversely: a completed HTML loop had a node view and a segment view in every round -/
theorem htmlLoop_views (ms : Maps) (sc : SinkCtx) : ∀ (rounds : List Round) (rs : ErrIter.RState)
    (q : List (Html.Seg × Html.Ann) × ErrIter.RState), htmlLoop ms sc rs rounds = some q →
    ∀ p ∈ rounds, (∃ v, nodeView ms p.1.node = some v) ∧ ∃ hs, htmlSeg p.2 = some hs
  | [], _, _ => by intro _ p hp; cases hp
  | p :: r, rs, q => by
    intro h
    simp only [htmlLoop] at h
    split at h
    · simp at h
    · rename_i st1 _
      split at h
      · simp at h
      · rename_i sa hsa
        split at h
        · simp at h
        · rename_i q' hq'
          intro x hx
          rcases List.mem_cons.1 hx with rfl | hx
          · cases hv : nodeView ms x.1.node with
            | none => rw [hv] at hsa; simp [roundView] at hsa
            | some v =>
              rw [hv] at hsa
              simp only [roundView] at hsa
              cases hh : htmlSeg x.2 with
              | none => rw [hh] at hsa; simp [roundAnn] at hsa
              | some hs => exact ⟨⟨v, rfl⟩, ⟨hs, rfl⟩⟩
          · exact htmlLoop_views ms sc r _ q' hq' x hx

theorem mem_zipExact {α β : Type} : ∀ (as : List α) (bs : List β) (l : List (α × β)), zipExact as bs = some l →
    (∀ p ∈ l, p.1 ∈ as ∧ p.2 ∈ bs) ∧ (∀ a ∈ as, ∃ p ∈ l, p.1 = a) ∧ (∀ b ∈ bs, ∃ p ∈ l, p.2 = b) := by
  intro as bs l h
  obtain ⟨h1, h2⟩ := zipExact_fst as bs l h
  refine ⟨?_, ?_, ?_⟩
  · intro p hp
    exact ⟨h1 ▸ List.mem_map.2 ⟨p, hp, rfl⟩, h2 ▸ List.mem_map.2 ⟨p, hp, rfl⟩⟩
  · intro a ha
    rw [← h1] at ha
    obtain ⟨p, hp, rfl⟩ := List.mem_map.1 ha
    exact ⟨p, hp, rfl⟩
  · intro b hb
    rw [← h2] at hb
    obtain ⟨p, hp, rfl⟩ := List.mem_map.1 hb
    exact ⟨p, hp, rfl⟩

/-- **when the HTML sink completes**, for a run that ends with a verdict: exactly when every reader segment has fewer
    than 100 elements and the node of every round has a view in `Maps`.  Nothing else stops it: the replay of the
    `err_handler` calls does not raise (`htmlLoop_of_runSegs`), reader composites are non-empty (`readAll_nonEmpty`). -/
theorem docHtmlWrites_iff (ms : Maps) (ctx : Ctx) (sc : SinkCtx) (text : List Char) (hd : Tokenizer.Header)
    (rr : SegText.ReadResult) (hread : SegText.readAll { rest := text, sizes := [] } = .ok hd rr) (b : Bool)
    (hv : (validateRead ms ctx hd rr).outcome = .verdict b) :
    (∃ ws, docHtmlWrites ms ctx sc text = some ws) ↔
      (∀ p ∈ rr.segs, p.2.elems.length < 100) ∧ ∀ o ∈ (validateRead ms ctx hd rr).segs, ∃ v, nodeView ms o.node = some v := by
  obtain ⟨control, a, est, hc, hrun, _, _, hsegs, _⟩ := validateRead_done ms ctx hd rr b hv
  have hne := readAll_nonEmpty text hd rr hread
  constructor
  · rintro ⟨ws, hws⟩
    unfold docHtmlWrites at hws
    simp only [hread] at hws
    cases hr : roundsOf (validateRead ms ctx hd rr) rr with
    | none => simp [hr, htmlOfRounds] at hws
    | some rounds =>
      simp only [hr, htmlOfRounds] at hws
      cases hl : htmlLoop ms sc ErrIter.RState.init rounds with
      | none => simp [hl, htmlWritesOf] at hws
      | some q =>
        have hall := htmlLoop_views ms sc rounds _ q hl
        have hz : zipExact (validateRead ms ctx hd rr).segs (rr.segs.map (·.2)) = some rounds := by
          simpa only [roundsOf, hv] using hr
        obtain ⟨_, m1, m2⟩ := mem_zipExact _ _ _ hz
        constructor
        · intro p hp
          obtain ⟨x, hx, hxe⟩ := m2 p.2 (List.mem_map.2 ⟨p, hp, rfl⟩)
          obtain ⟨hs, hhs⟩ := (hall x hx).2
          rw [hxe] at hhs
          exact htmlSeg_lt _ _ hhs
        · intro o ho
          obtain ⟨x, hx, hxe⟩ := m1 o ho
          rw [← hxe]
          exact (hall x hx).1
  · rintro ⟨hshort, hviews⟩
    obtain ⟨rounds, q, hz, hl, _⟩ := htmlLoop_of_runSegs ms ctx control (SegText.delimsOf hd) sc rr.segs (initAcc ms control) a
      ErrIter.RState.init a.outs hrun (by simp [initAcc]) rfl (by rw [← hsegs]; exact hviews)
      (fun p hp => htmlSeg_some p.2 (hshort p hp) (hne p hp))
    unfold docHtmlWrites
    simp only [hread, roundsOf, hv, hsegs, hz, htmlOfRounds, hl, htmlWritesOf]
    exact ⟨_, rfl⟩

end Pyx12Verif.Doc
