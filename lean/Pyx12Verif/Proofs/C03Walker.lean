/-
Walker lemmas for C03 (structural fault kinds) over Model/Walker.lean — that file is not modified.

Main result: `walk_unknown_segment` — when no segment node of the map carries the id of the data segment, the
walk ends at the root with `node = none`, no pops, no pushes, the counter untouched and exactly one error:
`notFound` attached to the start node.  Plus the three local "reported" steps (max_use, loop repeat, pending
mandatory segment) that the full structural statements rest on.
-/
import Pyx12Verif.Model.Walker

namespace Pyx12Verif.Walker
open Pyx12Verif.MapSkel

/-! ### "no segment node of the map has this id" -/

mutual
def noSeg (sid : Nat) : Node → Bool
  | .seg s _ _ _ _ _ _ => s != sid
  | .loop _ _ _ _ _ ch => noSegList sid ch
def noSegList (sid : Nat) : List Node → Bool
  | [] => true
  | n :: r => noSeg sid n && noSegList sid r
end

theorem noSeg_children (sid : Nat) (n : Node) (h : noSeg sid n = true) : noSegList sid n.children = true := by
  cases n with
  | seg => simp [Node.children, noSegList]
  | loop lid pos u r w ch => simpa [Node.children, noSeg] using h

theorem noSegList_get (sid : Nat) (l : List Node) (i : Nat) (n : Node) (h : noSegList sid l = true)
    (hn : l[i]? = some n) : noSeg sid n = true := by
  induction l generalizing i with
  | nil => simp at hn
  | cons a r ih =>
    simp only [noSegList, Bool.and_eq_true] at h
    cases i with
    | zero => simp at hn; subst hn; exact h.1
    | succ j => exact ih j h.2 (by simpa using hn)

theorem isMatch_noSeg (k : Consts) (n : Node) (s : SegData) (h : noSeg s.sid n = true) : isMatch k n s = false := by
  cases n with
  | loop => simp [isMatch]
  | seg sid q p u m notes ch =>
    simp only [noSeg, bne_iff_ne, ne_eq] at h
    have : (s.sid == sid) = false := by
      simp only [beq_eq_false_iff_ne, ne_eq]; exact fun e => h e.symm
    simp [isMatch, this]

/-- the part of the walker state the outside sees (pending entries are reset on every call) -/
def Same (a b : WState) : Prop := a.cnt = b.cnt ∧ a.errs = b.errs

theorem Same.rfl' (a : WState) : Same a a := ⟨rfl, rfl⟩
theorem Same.trans' {a b c : WState} (h1 : Same a b) (h2 : Same b c) : Same a c :=
  ⟨h1.1.trans h2.1, h1.2.trans h2.2⟩

mutual
theorem isLoopMatch_noSeg (k : Consts) (s : SegData) (ip : List Nat) (key : PathKey) (st : WState) :
    (n : Node) → noSeg s.sid n = true →
      (isLoopMatch k s ip key st n).1 = false ∧ Same (isLoopMatch k s ip key st n).2 st
  | .seg .., _ => by simp [isLoopMatch, Same]
  | .loop lid pos usage rep w [], _ => by simp [isLoopMatch, Same]
  | .loop lid pos usage rep w (first :: rest), h => by
    have hch : noSegList s.sid (first :: rest) = true := by simpa [noSeg] using h
    have hfirst : noSeg s.sid first = true := by
      simp only [noSegList, Bool.and_eq_true] at hch; exact hch.1
    have hm := isMatch_noSeg k first s hfirst
    unfold isLoopMatch
    by_cases hs : first.isSeg = true
    · simp only [hs, if_true, hm, Bool.false_eq_true, if_false]
      split <;> simp [Same]
    · simp only [hs, Bool.false_eq_true, if_false]
      exact anyLoopMatch_noSeg k s ip key 0 st (first :: rest) hch
theorem anyLoopMatch_noSeg (k : Consts) (s : SegData) (ip : List Nat) (key : PathKey) (i : Nat) (st : WState) :
    (l : List Node) → noSegList s.sid l = true →
      (anyLoopMatch k s ip key i st l).1 = false ∧ Same (anyLoopMatch k s ip key i st l).2 st
  | [], _ => by simp [anyLoopMatch, Same]
  | c :: r, h => by
    have hc : noSeg s.sid c = true ∧ noSegList s.sid r = true := by
      simpa [noSegList] using h
    unfold anyLoopMatch
    by_cases hs : c.isSeg = true
    · simp only [hs, if_true]
      exact anyLoopMatch_noSeg k s ip key (i + 1) st r hc.2
    · simp only [hs, Bool.false_eq_true, if_false]
      have h1 := isLoopMatch_noSeg k s (ip ++ [i]) (key ++ [c.comp]) st c hc.1
      have e : isLoopMatch k s (ip ++ [i]) (key ++ [c.comp]) st c =
          (false, (isLoopMatch k s (ip ++ [i]) (key ++ [c.comp]) st c).2) := by
        rw [← h1.1]
      rw [e]
      have h2 := anyLoopMatch_noSeg k s ip key (i + 1) (isLoopMatch k s (ip ++ [i]) (key ++ [c.comp]) st c).2 r hc.2
      exact ⟨h2.1, h2.2.trans' h1.2⟩
end

/-- scanning the children of one loop finds nothing and leaves counter and errors alone -/
theorem scanChildren_noSeg (k : Consts) (s : SegData) (lip : List Nat) (lkey : PathKey) (loopNode : Option Node)
    (loopNid origLoop : NodeId) (fromPos : Nat) (pops : List (List Nat)) (ch : List Node)
    (h : noSegList s.sid ch = true) (i : Nat) (st : WState) :
    ∃ st', scanChildren k s lip lkey loopNode loopNid origLoop fromPos pops i st ch = .notHere st' ∧ Same st' st := by
  induction ch generalizing i st with
  | nil => exact ⟨st, by simp [scanChildren], Same.rfl' st⟩
  | cons c r ih =>
    have hc : noSeg s.sid c = true ∧ noSegList s.sid r = true := by
      simpa [noSegList] using h
    have hm := isMatch_noSeg k c s hc.1
    unfold scanChildren
    by_cases hp : c.pos < fromPos
    · simp only [hp, if_true]
      exact ih hc.2 (i + 1) st
    · simp only [hp, if_false]
      by_cases hs : c.isSeg = true
      · simp only [hs, if_true, hm, Bool.false_eq_true, if_false]
        split
        · obtain ⟨st', e, hsame⟩ := ih hc.2 (i + 1)
            { st with pending := st.pending ++ [{ ip := lip ++ [i], nid := (c.ident, loopNid.1), pos := c.pos }] }
          exact ⟨st', e, hsame.trans' ⟨rfl, rfl⟩⟩
        · exact ih hc.2 (i + 1) st
      · simp only [hs, Bool.false_eq_true, if_false]
        have h1 := isLoopMatch_noSeg k s (lip ++ [i]) (lkey ++ [c.comp]) st c hc.1
        have e : isLoopMatch k s (lip ++ [i]) (lkey ++ [c.comp]) st c =
            (false, (isLoopMatch k s (lip ++ [i]) (lkey ++ [c.comp]) st c).2) := by
          rw [← h1.1]
        rw [e]
        obtain ⟨st', e2, hsame⟩ := ih hc.2 (i + 1) (isLoopMatch k s (lip ++ [i]) (lkey ++ [c.comp]) st c).2
        exact ⟨st', e2, hsame.trans' h1.2⟩

/-! ### index paths -/

theorem nodeAt_single (ch : List Node) (i : Nat) : nodeAt ch [i] = ch[i]? := by
  simp [nodeAt]

theorem nodeAt_cons2 (ch : List Node) (i j : Nat) (r : List Nat) :
    nodeAt ch (i :: j :: r) =
      (match ch[i]? with
       | some (.loop _ _ _ _ _ sub) => nodeAt sub (j :: r)
       | _ => none) := by
  rw [nodeAt]
  · cases h : ch[i]? with
    | none => rfl
    | some c => cases c <;> rfl
  · simp

theorem nodeAt_nil (p : List Nat) : nodeAt [] p = none := by
  cases p with
  | nil => simp [nodeAt]
  | cons i r =>
    cases r with
    | nil => simp [nodeAt_single]
    | cons j r' => rw [nodeAt_cons2]; simp

theorem nodeAt_noSeg (sid : Nat) (p : List Nat) : ∀ (ch : List Node) (n : Node),
    noSegList sid ch = true → nodeAt ch p = some n → noSeg sid n = true := by
  induction p with
  | nil => intro ch n _ h; simp [nodeAt] at h
  | cons i r ih =>
    intro ch n hch h
    cases r with
    | nil => rw [nodeAt_single] at h; exact noSegList_get sid ch i n hch h
    | cons j r' =>
      rw [nodeAt_cons2] at h
      cases hci : ch[i]? with
      | none => rw [hci] at h; simp at h
      | some c =>
        rw [hci] at h
        cases c with
        | seg => simp at h
        | loop lid pos u rep w sub =>
          simp only at h
          have := noSegList_get sid ch i _ hch hci
          exact ih sub n (by simpa [noSeg] using this) h

/-- the parent path of a resolvable path resolves -/
theorem nodeAt_parent (q : List Nat) : ∀ (ch : List Node) (i : Nat) (n : Node), q ≠ [] →
    nodeAt ch (q ++ [i]) = some n → ∃ ln, nodeAt ch q = some ln := by
  induction q with
  | nil => intro ch i n h; exact absurd rfl h
  | cons j r ih =>
    intro ch i n _ h
    cases r with
    | nil =>
      simp only [List.cons_append, List.nil_append] at h
      rw [nodeAt_cons2] at h
      rw [nodeAt_single]
      cases hcj : ch[j]? with
      | none => rw [hcj] at h; simp at h
      | some c => exact ⟨c, rfl⟩
    | cons j2 r' =>
      simp only [List.cons_append] at h
      rw [nodeAt_cons2] at h
      rw [nodeAt_cons2]
      cases hcj : ch[j]? with
      | none => rw [hcj] at h; simp at h
      | some c =>
        rw [hcj] at h
        cases c with
        | seg => simp at h
        | loop lid pos u rep w sub =>
          simp only at h ⊢
          exact ih sub i n (by simp) (by simpa using h)

/-- every loop on the way up resolves (what `walkUp` needs in order not to fall out of the map) -/
def Resolves (root : List Node) : List Nat → Prop
  | [] => True
  | i :: rp => (∃ ln, nodeAt root (i :: rp).reverse = some ln) ∧ Resolves root rp

theorem resolves_of_nodeAt (root : List Node) (rp : List Nat) :
    (∃ n, nodeAt root rp.reverse = some n) → Resolves root rp := by
  induction rp with
  | nil => intro _; trivial
  | cons i rp' ih =>
    intro h
    refine ⟨h, ?_⟩
    cases rp' with
    | nil => trivial
    | cons j rp'' =>
      apply ih
      obtain ⟨n, hn⟩ := h
      have : (i :: j :: rp'').reverse = (j :: rp'').reverse ++ [i] := by simp
      rw [this] at hn
      exact nodeAt_parent _ root i n (by simp) hn

/-! ### the climb to the root -/

theorem walkUp_noSeg (k : Consts) (root : List Node) (rootId : Nat) (s : SegData) (origLoop : NodeId)
    (orig : List Nat) (hno : noSegList s.sid root = true) (rl : List Nat) (hres : Resolves root rl)
    (fromPos : Nat) (pops : List (List Nat)) (st : WState) :
    (walkUp k root rootId s origLoop orig rl fromPos pops st).node = none ∧
    (walkUp k root rootId s origLoop orig rl fromPos pops st).pops = [] ∧
    (walkUp k root rootId s origLoop orig rl fromPos pops st).pushes = [] ∧
    (walkUp k root rootId s origLoop orig rl fromPos pops st).st.cnt = st.cnt ∧
    (walkUp k root rootId s origLoop orig rl fromPos pops st).st.errs = st.errs ++ [(ErrKind.notFound, orig)] := by
  induction rl generalizing fromPos pops st with
  | nil =>
    obtain ⟨st', e, hsame⟩ := scanChildren_noSeg k s [] [] none (rootId, 0) origLoop fromPos pops root hno 0 st
    simp only [walkUp, e]
    simp [hsame.1, hsame.2]
  | cons i rp ih =>
    obtain ⟨⟨ln, hln⟩, hrp⟩ := hres
    have hnl : noSegList s.sid ln.children = true :=
      noSeg_children _ _ (nodeAt_noSeg s.sid _ root ln hno hln)
    obtain ⟨st', e, hsame⟩ := scanChildren_noSeg k s (i :: rp).reverse (keyAt root (i :: rp).reverse) (some ln)
      (ln.ident, idAt root rp.reverse) origLoop fromPos pops ln.children hnl 0 st
    simp only [walkUp, hln, e]
    have := ih hrp ln.pos (pops ++ [(i :: rp).reverse]) st'
    rw [hsame.1, hsame.2] at this
    exact this

/-- **unknown segment.**  If no segment node of the map has the id of the data segment, `walk` from any segment
    node returns no node, no pops, no pushes, leaves the counter as it was and reports exactly one error:
    `notFound` (997 code 1) attached to the start node. -/
theorem walk_unknown_segment (k : Consts) (root : List Node) (rootId : Nat) (cnt : Counter) (cur : List Nat)
    (s : SegData) (n : Node) (hno : noSegList s.sid root = true) (hcur : nodeAt root cur = some n) :
    (walk k root rootId cnt cur s).node = none ∧ (walk k root rootId cnt cur s).pops = [] ∧
    (walk k root rootId cnt cur s).pushes = [] ∧ (walk k root rootId cnt cur s).st.cnt = cnt ∧
    (walk k root rootId cnt cur s).st.errs = [(ErrKind.notFound, cur)] := by
  have hres : Resolves root cur.dropLast.reverse := by
    have h1 : Resolves root cur.reverse := resolves_of_nodeAt root cur.reverse ⟨n, by simpa using hcur⟩
    cases hc : cur.reverse with
    | nil =>
      have : cur = [] := by simpa using hc
      rw [this] at hcur; simp [nodeAt] at hcur
    | cons i rp =>
      rw [hc] at h1
      have : cur = rp.reverse ++ [i] := by
        have := congrArg List.reverse hc; simpa using this
      rw [this]; simpa using h1.2
  simp only [walk, hcur]
  have := walkUp_noSeg k root rootId s (idAt root cur.dropLast, idAt root cur.dropLast.dropLast) cur hno
    cur.dropLast.reverse hres n.pos [] { cnt := cnt, pending := [], errs := [] }
  simpa using this

/-! ### the spec-side reading of the hypothesis -/

/-- no segment node reachable by an index path carries the id -/
def NoSegWithId (root : List Node) (sid : Nat) : Prop :=
  ∀ ip n, nodeAt root ip = some n → n.isSeg = true → n.ident ≠ sid

theorem nodeAt_cons_loop (ch : List Node) (i : Nat) (lid pos u rep : Nat) (w : Bool) (sub : List Node)
    (p : List Nat) (hp : p ≠ []) (hi : ch[i]? = some (.loop lid pos u rep w sub)) :
    nodeAt ch (i :: p) = nodeAt sub p := by
  cases p with
  | nil => exact absurd rfl hp
  | cons j r => rw [nodeAt_cons2, hi]

mutual
theorem noSeg_of_spec (sid : Nat) : (n : Node) → (n.isSeg = true → n.ident ≠ sid) →
    (∀ ip m, nodeAt n.children ip = some m → m.isSeg = true → m.ident ≠ sid) → noSeg sid n = true
  | .seg s q p u m notes ch, h, _ => by
    have := h rfl
    simp only [Node.ident] at this
    simp [noSeg, this]
  | .loop lid pos u rep w ch, _, h => by
    simp only [noSeg]
    exact noSegList_of_spec sid ch (fun ip m => by simpa [Node.children] using h ip m)
theorem noSegList_of_spec (sid : Nat) : (l : List Node) → NoSegWithId l sid → noSegList sid l = true
  | [], _ => rfl
  | a :: r, h => by
    simp only [noSegList, Bool.and_eq_true]
    constructor
    · apply noSeg_of_spec sid a
      · exact h [0] a (by simp [nodeAt])
      · intro ip m hm
        cases a with
        | seg => simp [Node.children, nodeAt_nil] at hm
        | loop lid pos u rep w sub =>
          have hne : ip ≠ [] := by
            intro e; rw [e] at hm; simp [nodeAt] at hm
          have := nodeAt_cons_loop (.loop lid pos u rep w sub :: r) 0 lid pos u rep w sub ip hne (by simp)
          exact h (0 :: ip) m (by rw [this]; simpa [Node.children] using hm)
    · apply noSegList_of_spec sid r
      intro ip m hm
      cases ip with
      | nil => simp [nodeAt] at hm
      | cons i p =>
        apply h ((i + 1) :: p) m
        cases p with
        | nil => rw [nodeAt_single] at hm ⊢; simpa using hm
        | cons j p' => rw [nodeAt_cons2] at hm ⊢; simpa using hm
end

/-! ### the local steps behind the other structural kinds -/

/-- a matched plain segment whose count is already at `max_use` draws `segMaxCount` (997 code 5) at its node -/
theorem segMatched_max_use (lip : List Nat) (lkey : PathKey) (loopNid : NodeId) (c : Node) (i : Nat)
    (pops : List (List Nat)) (st : WState) (hu : (c.usage == 2) = false)
    (hx : exceeds ((st.cnt.incr (lkey ++ [c.comp])).get (lkey ++ [c.comp])) c.rep = true) :
    ∃ r, scanChildren.scanSegMatched lip lkey loopNid c i pops st = .found r ∧ r.node = some (lip ++ [i]) ∧
      (ErrKind.segMaxCount, lip ++ [i]) ∈ r.st.errs := by
  refine ⟨_, rfl, rfl, ?_⟩
  simp [flush, hu, hx]

/-- … and within the limit it draws no count error -/
theorem segMatched_within (lip : List Nat) (lkey : PathKey) (loopNid : NodeId) (c : Node) (i : Nat)
    (pops : List (List Nat)) (st : WState) (hu : (c.usage == 2) = false) (hp : st.pending = [])
    (hx : exceeds ((st.cnt.incr (lkey ++ [c.comp])).get (lkey ++ [c.comp])) c.rep = false) :
    ∃ r, scanChildren.scanSegMatched lip lkey loopNid c i pops st = .found r ∧ r.st.errs = st.errs := by
  refine ⟨_, rfl, ?_⟩
  simp [flush, hu, hx, hp]

/-- `exceeds` spelled out: a finite limit and a count above it -/
theorem exceeds_iff (count r : Nat) : exceeds count r = true ↔ r ≠ 0 ∧ r < count := by
  unfold exceeds maxRepeat
  by_cases h : r = 0
  · simp [h]
  · have : (r == 0) = false := by simpa using h
    simp [this, h]

/-- entering a loop whose instance count is already at `repeat` draws `loopMaxCount` (997 code 4) at the loop -/
theorem loopUsage_repeat (ip : List Nat) (key : PathKey) (usage rep : Nat) (st : WState) (hu : (usage == 2) = false)
    (hx : exceeds (((st.cnt.resetTo key).incr key).get key) rep = true) :
    (ErrKind.loopMaxCount, ip) ∈ (checkLoopUsage ip key usage rep st).errs := by
  simp [checkLoopUsage, hu, hx]

/-- a pending mandatory segment is reported (997 code 3) as soon as the walk settles at another position -/
theorem flush_reports (st : WState) (curPos : Option Nat) (p : Pending) (hp : p ∈ st.pending)
    (hpos : some p.pos ≠ curPos) : (ErrKind.mandatoryMissing, p.ip) ∈ (flush st curPos).errs := by
  simp only [flush, List.mem_append, List.mem_map, List.mem_filter]
  right
  exact ⟨p, ⟨hp, by simpa using hpos⟩, rfl⟩

/-- while the walk stays at the same position the entry is kept, not reported -/
theorem flush_keeps (st : WState) (curPos : Option Nat) (p : Pending) (hp : p ∈ st.pending)
    (hpos : some p.pos = curPos) : p ∈ (flush st curPos).pending := by
  simp only [flush, List.mem_filter]
  exact ⟨hp, by simpa using hpos⟩

end Pyx12Verif.Walker
