/-
C03 run level, generalised invariant: the invariant is preserved by a step
(fork of Proofs/WalkerPres.lean over the invariant of Proofs/C03RunWInv.lean; the generator cursor `ReadyAt` is reused).
-/
import Pyx12Verif.Proofs.C03RunWStep

namespace Pyx12Verif.WalkerGenW
open Pyx12Verif.MapSkel Pyx12Verif.Walker Pyx12Verif.WalkerGen

/-- levels down to `q`, with the path now going through child `j` of `q`, after the counters changed only at or
    below the key of that child -/
theorem inv_levels {K : Consts} {root : List Node} (h : MapOK K root) {cnt cnt' : Counter} {cur : List Nat}
    (hinv : Inv root cnt cur) {q : List Nat} {j : Nat} (hr : ReadyOn root cnt cur q j)
    {ch : List Node} (hch : chAt root q = some ch) {c : Node} (hc : ch[j]? = some c)
    (hag : AgreeOff cnt cnt' (keyAt root q ++ [c.comp]))
    (hhere : counted c = true → 1 ≤ cnt'.get (keyAt root q ++ [c.comp])) :
    ∀ p i', p ++ [i'] <+: q ++ [j] → ∃ ch', chAt root p = some ch' ∧ LevelInv cnt' (keyAt root p) ch' i' := by
  obtain ⟨i, hqi, hij, hmid, hdeep⟩ := hr
  intro p i' hp
  rcases prefix_snoc_cases hp with hpq | heq
  · -- a level above `q`
    have hpcur : p ++ [i'] <+: cur := List.IsPrefix.trans hpq (List.IsPrefix.trans (List.prefix_append _ _) hqi)
    obtain ⟨ch', hch', hl⟩ := hinv.lev p i' hpcur
    refine ⟨ch', hch', ?_⟩
    obtain ⟨pc, hpc⟩ := hl.idx
    have hkp : keyAt root p ++ [pc.comp] <+: keyAt root q ++ [c.comp] := by
      rw [← keyAt_snoc hch' hpc]
      obtain ⟨sub, hsub⟩ := chAt_prefix hch hpq
      exact List.IsPrefix.trans (keyAt_prefix hsub hpq) (List.prefix_append _ _)
    have hwf := wfAt_chAt (wfAt_root h.wf) hch'
    refine ⟨hl.idx, ?_, ?_, ?_⟩
    · intro j'' c'' hj hc''
      exact transfer_zero (hl.later j'' c'' hj hc'') hag hkp (compDistinct_ne hwf.comp hpc hc'' (by omega))
    · intro j'' c'' hj hc''
      rcases hl.earlier j'' c'' hj hc'' with hs | hx
      · exact Or.inl (transfer_sat hs hag hkp (compDistinct_ne hwf.comp hpc hc'' (by omega)))
      · exact Or.inr hx
    · intro c0 hc0 hcnt
      rw [hpc] at hc0; simp only [Option.some.injEq] at hc0; subst hc0
      have hlen : (keyAt root p ++ [pc.comp]).length < (keyAt root q ++ [c.comp]).length := by
        have hlen1 : (p ++ [i']).length ≤ q.length := List.IsPrefix.length_le hpq
        obtain ⟨sub, hsub⟩ := chAt_prefix hch hpq
        have := List.IsPrefix.length_le (keyAt_prefix hsub hpq)
        rw [keyAt_snoc hch' hpc] at this
        simp at this ⊢; omega
      rw [hag _ (fun hh => by have := List.IsPrefix.length_le hh; omega)]
      exact hl.here _ hpc hcnt
  · -- level `q` itself
    have hpe : p = q ∧ i' = j := by
      have := List.append_inj' heq (by simp)
      exact ⟨this.1, by simpa using this.2⟩
    obtain ⟨rfl, rfl⟩ := hpe
    refine ⟨ch, hch, ?_⟩
    obtain ⟨ch0, hch0, hl⟩ := hinv.lev p i hqi
    rw [hch] at hch0; simp only [Option.some.injEq] at hch0; subst hch0
    have hwf := wfAt_chAt (wfAt_root h.wf) hch
    refine ⟨⟨c, hc⟩, ?_, ?_, ?_⟩
    · intro j'' c'' hj hc''
      exact transfer_zero (hl.later j'' c'' (by omega) hc'') hag (List.prefix_refl _)
        (compDistinct_ne hwf.comp hc hc'' (by omega))
    · intro j'' c'' hj hc''
      have hs : satisfied cnt (keyAt root p ++ [c''.comp]) c'' = true ∨
          (c''.isSeg = true ∧ ∀ ci, ch[i]? = some ci → c''.pos < ci.pos) := by
        rcases Nat.lt_trichotomy j'' i with hlt | heq | hgt
        · exact hl.earlier j'' c'' hlt hc''
        · subst heq
          have hlen : (p ++ [j'']).length ≤ cur.length := List.IsPrefix.length_le hqi
          exact Or.inl (path_sat hinv (cur.length - (p.length + 1)) p j'' hqi (by simp at hlen; omega) hdeep _ c'' hch hc'')
        · exact Or.inl (hmid _ hch j'' c'' hgt hj hc'')
      rcases hs with hs | ⟨hseg, hpos⟩
      · exact Or.inl (transfer_sat hs hag (List.prefix_refl _) (compDistinct_ne hwf.comp hc hc'' (by omega)))
      · right
        refine ⟨hseg, ?_⟩
        intro cj hcj
        obtain ⟨ci, hci⟩ := hl.idx
        have h1 := hpos ci hci
        have h2 := posSorted_le hwf.pos hci hcj hij
        omega
    · intro c0 hc0 hcnt0
      rw [hc] at hc0; simp only [Option.some.injEq] at hc0; subst hc0
      exact hhere hcnt0

/-- state after a segment step -/
theorem post_seg {K : Consts} {root : List Node} (h : MapOK K root) {cnt : Counter} {cur : List Nat}
    (hinv : Inv root cnt cur) {q : List Nat} {j : Nat} (hr : ReadyOn root cnt cur q j)
    {ch : List Node} (hch : chAt root q = some ch) {c : Node} (hc : ch[j]? = some c) (hseg : c.isSeg = true) :
    Inv root (cnt.incr (keyAt root q ++ [c.comp])) (q ++ [j]) := by
  refine ⟨⟨c, by rw [nodeAt_snoc hch]; exact hc, hseg⟩, ?_⟩
  exact inv_levels h hinv hr hch hc (agreeOff_incr _ _) (by intro _; rw [get_incr_same]; omega)

/-- state after entering a loop -/
theorem post_loop {K : Consts} {root : List Node} (h : MapOK K root) {cnt : Counter} {cur : List Nat}
    (hinv : Inv root cnt cur) {q : List Nat} {j : Nat} (hr : ReadyOn root cnt cur q j)
    {ch : List Node} (hch : chAt root q = some ch) {lid pos u r : Nat} {w : Bool} {first : Node} {rest : List Node}
    (hc : ch[j]? = some (.loop lid pos u r w (first :: rest))) (hseg : first.isSeg = true) :
    Inv root (enterCnt cnt (keyAt root q ++ [(lid, 0)]) first.comp) (q ++ [j] ++ [0]) := by
  have hsub : chAt root (q ++ [j]) = some (first :: rest) := by rw [chAt_snoc hch, hc]
  have hkey : keyAt root (q ++ [j]) = keyAt root q ++ [(lid, 0)] := keyAt_snoc hch hc
  refine ⟨⟨first, by rw [nodeAt_snoc hsub]; simp, hseg⟩, ?_⟩
  intro p i' hp
  rcases prefix_snoc_cases hp with hpq | heq
  · exact inv_levels h hinv hr hch hc (agreeOff_enter _ _ _)
      (by intro _; simp only [Node.comp]; rw [get_enterCnt_self]; omega)
      p i' hpq
  · have hpe : p = q ++ [j] ∧ i' = 0 := by
      have := List.append_inj' heq (by simp)
      exact ⟨this.1, by simpa using this.2⟩
    obtain ⟨rfl, rfl⟩ := hpe
    refine ⟨first :: rest, hsub, ⟨first, by simp⟩, ?_, ?_, ?_⟩
    · intro j'' c'' hj hc''
      rw [hkey]
      have hwf := wfAt_chAt (wfAt_root h.wf) hsub
      have hf0 : (first :: rest)[0]? = some first := by simp
      exact zeroUnder_enterCnt _ _ _ _ (compDistinct_ne hwf.comp hf0 hc'' (by omega))
    · intro j'' c'' hj; omega
    · intro c0 hc0 _
      simp only [List.getElem?_cons_zero, Option.some.injEq] at hc0; subst hc0
      rw [hkey]; exact get_enterCnt_first _ _ _

end Pyx12Verif.WalkerGenW
