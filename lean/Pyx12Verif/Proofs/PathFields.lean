/- C17 helper: the written-out regex search returns exactly the fields of the declarative decomposition
   (fields-level completeness; strengthens `matchLast_complete`, which only shows that a match exists). -/
import Pyx12Verif.Proofs.PathSound

namespace Pyx12Verif.Path

/-! ### the fields a decomposition `seg ++ q ++ ee ++ cc ++ nl` denotes -/

/-- segment id group: absent when the part is empty -/
def segField (seg : List Char) : Option (List Char) := if seg = [] then none else some seg
/-- qualifier group: the text between the brackets -/
def qualField (q : List Char) : Option (List Char) := if q = [] then none else some (q.drop 1).dropLast
/-- element index group: the value of the two digits -/
def eleField (ee : List Char) : Option Nat := if ee = [] then none else some (num ee)
/-- component index group: the value of the digits after the `-` -/
def subField (cc : List Char) : Option Nat := if cc = [] then none else some (num (cc.drop 1))

/-- what a `cc ++ nl` tail starts with -/
theorem ccnl_cases (cc nl : List Char) (hcc : CCOk cc) (hnl : NLOk nl) :
    cc ++ nl = [] ∨ ∃ x r, cc ++ nl = x :: r ∧ isDigit x = false ∧ isIdChar x = false ∧ x ≠ '[' ∧
      isUpper x = false := by
  rcases hcc with rfl | ⟨ds, rfl, _, _⟩
  · rcases hnl with rfl | rfl
    · left; rfl
    · right; exact ⟨'\n', [], rfl, by decide, by decide, by decide, by decide⟩
  · right; exact ⟨'-', ds ++ nl, rfl, by decide, by decide, by decide, by decide⟩

/-- what an `ee ++ cc ++ nl` tail starts with -/
theorem eeccnl_cases (ee cc nl : List Char) (hee : EEOk ee) (hcc : CCOk cc) (hnl : NLOk nl) :
    ee ++ (cc ++ nl) = [] ∨ ∃ x r, ee ++ (cc ++ nl) = x :: r ∧ x ≠ '[' ∧ isUpper x = false := by
  rcases hee with rfl | ⟨d1, d2, rfl, h1, _⟩
  · rcases ccnl_cases cc nl hcc hnl with h | ⟨x, r, h, _, _, h3, h4⟩
    · left; simpa using h
    · right; exact ⟨x, r, by simpa using h, h3, h4⟩
  · right
    exact ⟨d1, d2 :: (cc ++ nl), rfl, digit_ne d1 '[' h1 (by decide), digit_not_upper d1 h1⟩

/-! ### `(-digits)?$` -/

theorem matchSub_fields (cc nl : List Char) (hcc : CCOk cc) (hnl : NLOk nl) :
    matchSub (cc ++ nl) = some (subField cc) := by
  have hend : atEnd nl = true := (atEnd_iff nl).mpr hnl
  rcases hcc with rfl | ⟨ds, rfl, hne, hd⟩
  · have : subGroup nl = none := by
      rcases hnl with rfl | rfl <;> simp [subGroup]
    simp [matchSub, this, hend, subField]
  · have hs := spanP_append isDigit ds nl hd (nl_head_not isDigit (by decide) nl hnl)
    have hemp : ds.isEmpty = false := by
      cases ds with
      | nil => exact absurd rfl hne
      | cons a b => rfl
    simp [matchSub, subGroup, hs, hemp, hend, subField]

/-! ### `(dd)?(-digits)?$` -/

theorem eleGroup_ccnl (cc nl : List Char) (hcc : CCOk cc) (hnl : NLOk nl) : eleGroup (cc ++ nl) = none := by
  rcases ccnl_cases cc nl hcc hnl with h | ⟨x, r, h, hx, _⟩
  · rw [h]; rfl
  · rw [h]
    cases r with
    | nil => rfl
    | cons y t => simp [eleGroup, hx]

theorem matchEle_fields (ee cc nl : List Char) (hee : EEOk ee) (hcc : CCOk cc) (hnl : NLOk nl) :
    matchEle (ee ++ (cc ++ nl)) = some (eleField ee, subField cc) := by
  have hc := matchSub_fields cc nl hcc hnl
  rcases hee with rfl | ⟨d1, d2, rfl, h1, h2⟩
  · simp [matchEle, eleGroup_ccnl cc nl hcc hnl, hc, eleField]
  · simp [matchEle, eleGroup, h1, h2, hc, eleField]

/-! ### `(\[q\])?(dd)?(-digits)?$` -/

theorem qualGroup_eeccnl (ee cc nl : List Char) (hee : EEOk ee) (hcc : CCOk cc) (hnl : NLOk nl) :
    qualGroup (ee ++ (cc ++ nl)) = none := by
  rcases eeccnl_cases ee cc nl hee hcc hnl with h | ⟨x, r, h, hx, _⟩
  · rw [h]; rfl
  · rw [h]; simp [qualGroup, hx]

theorem matchQual_fields (q ee cc nl : List Char) (hq : QOk q) (hee : EEOk ee) (hcc : CCOk cc)
    (hnl : NLOk nl) :
    matchQual (q ++ (ee ++ (cc ++ nl))) = some ⟨none, qualField q, eleField ee, subField cc⟩ := by
  have hec := matchEle_fields ee cc nl hee hcc hnl
  rcases hq with rfl | ⟨t, rfl, hne, ht⟩
  · simp [matchQual, qualGroup_eeccnl ee cc nl hee hcc hnl, hec, qualField]
  · have hs : spanP isIdChar (t ++ (']' :: (ee ++ (cc ++ nl)))) = (t, ']' :: (ee ++ (cc ++ nl))) :=
      spanP_append isIdChar t _ ht (by
        intro ch r' h; simp only [List.cons.injEq] at h; rw [← h.1]; decide)
    have hemp : t.isEmpty = false := by
      cases t with
      | nil => exact absurd rfl hne
      | cons a b => rfl
    simp [matchQual, qualGroup, hs, qualClose, hemp, hec, qualField]

/-- a digit followed by a `cc ++ nl` tail is not matched by the tail of the pattern -/
theorem matchQual_digit_ccnl (d : Char) (hd : isDigit d = true) (cc nl : List Char) (hcc : CCOk cc)
    (hnl : NLOk nl) : matchQual (d :: (cc ++ nl)) = none := by
  have h1 : d ≠ '[' := digit_ne d '[' hd (by decide)
  have h2 : d ≠ '-' := digit_ne d '-' hd (by decide)
  have h3 : d ≠ '\n' := digit_ne d '\n' hd (by decide)
  rcases ccnl_cases cc nl hcc hnl with h | ⟨x, r, h, hx, _⟩
  · rw [h]; simp [matchQual, qualGroup, h1, matchEle, eleGroup, matchSub, subGroup, h2, atEnd, h3]
  · rw [h]
    simp [matchQual, qualGroup, h1, matchEle, eleGroup, matchSub, subGroup, h2, atEnd, hx]

/-- the text after the segment id starts with no capital letter -/
theorem rest_not_upper (q ee cc nl : List Char) (hq : QOk q) (hee : EEOk ee) (hcc : CCOk cc)
    (hnl : NLOk nl) : ∀ ch r, q ++ (ee ++ (cc ++ nl)) = ch :: r → isUpper ch = false := by
  intro ch r h
  rcases hq with rfl | ⟨t, rfl, _, _⟩
  · rcases eeccnl_cases ee cc nl hee hcc hnl with h0 | ⟨x, r', h0, _, hx⟩
    · simp only [List.nil_append] at h; rw [h0] at h; cases h
    · simp only [List.nil_append] at h; rw [h0] at h
      simp only [List.cons.injEq] at h; rw [← h.1]; exact hx
  · simp only [List.cons_append, List.cons.injEq] at h; rw [← h.1]; decide

/-- after a two-character id the greedy three-character attempt fails -/
theorem trySeg3_two (a b : Char) (ha : isUpper a = true) (hb : isIdChar b = true)
    (q ee cc nl : List Char) (hq : QOk q) (hee : EEOk ee) (hcc : CCOk cc) (hnl : NLOk nl) :
    trySeg 3 ([a, b] ++ (q ++ (ee ++ (cc ++ nl)))) = none := by
  rcases hq with rfl | ⟨t, rfl, _, _⟩
  · rcases hee with rfl | ⟨d1, d2, rfl, h1, h2⟩
    · rcases ccnl_cases cc nl hcc hnl with h | ⟨x, r, h, _, hx, _⟩
      · simp [h, trySeg]
      · simp [h, trySeg, segShape, ha, hb, hx]
    · simp [trySeg, segShape, ha, hb, digit_isIdChar d1 h1, matchQual_digit_ccnl d2 h2 cc nl hcc hnl]
  · simp [trySeg, segShape, ha, hb, show isIdChar '[' = false by decide]

/-- **fields-level completeness of the matcher**: on a text decomposed as the documented language says, the
search returns exactly the four fields of that decomposition -/
theorem matchLast_decomp (seg q ee cc nl : List Char)
    (hseg : seg = [] ∨ SegIdOK seg) (hq : QOk q) (hee : EEOk ee) (hcc : CCOk cc) (hnl : NLOk nl) :
    matchLast (seg ++ (q ++ (ee ++ (cc ++ nl)))) =
      some ⟨segField seg, qualField q, eleField ee, subField cc⟩ := by
  have hm := matchQual_fields q ee cc nl hq hee hcc hnl
  rcases hseg with rfl | ⟨hlen, hall, a, r, rfl, ha⟩
  · simp only [List.nil_append]
    rw [matchLast_no_seg _ (rest_not_upper q ee cc nl hq hee hcc hnl), hm]
    simp [segField]
  · rcases hlen with h2 | h3
    · match r, h2 with
      | [b], _ =>
        have hb : isIdChar b = true := hall b (by simp)
        have t3 := trySeg3_two a b ha hb q ee cc nl hq hee hcc hnl
        have t2 : trySeg 2 ([a, b] ++ (q ++ (ee ++ (cc ++ nl)))) =
            some ⟨some [a, b], qualField q, eleField ee, subField cc⟩ := by
          simp [trySeg, segShape, ha, hb, hm, withSeg]
        simp only [matchLast, t3, t2]
        simp [segField]
    · match r, h3 with
      | [b, c3], _ =>
        have hb : isIdChar b = true := hall b (by simp)
        have hc3 : isIdChar c3 = true := hall c3 (by simp)
        simp [matchLast, trySeg, segShape, ha, hb, hc3, hm, withSeg, segField]

/-! ### no part of a designator contains `/` -/

theorem designator_no_slash (seg q ee cc nl : List Char)
    (hseg : seg = [] ∨ SegIdOK seg) (hq : QOk q) (hee : EEOk ee) (hcc : CCOk cc) (hnl : NLOk nl) :
    '/' ∉ seg ++ (q ++ (ee ++ (cc ++ nl))) := by
  simp only [List.mem_append, not_or]
  refine ⟨?_, ?_, ?_, ?_, ?_⟩
  · rcases hseg with rfl | ⟨_, hall, _⟩
    · simp
    · intro h; exact idChar_ne _ '/' (hall _ h) (by decide) rfl
  · rcases hq with rfl | ⟨t, rfl, _, ht⟩
    · simp
    · intro h
      simp only [List.mem_cons, List.mem_append, List.not_mem_nil, or_false] at h
      rcases h with h | h | h
      · revert h; decide
      · exact idChar_ne _ '/' (ht _ h) (by decide) rfl
      · revert h; decide
  · rcases hee with rfl | ⟨d1, d2, rfl, h1, h2⟩
    · simp
    · intro h
      simp only [List.mem_cons, List.not_mem_nil, or_false] at h
      rcases h with h | h
      · exact digit_ne d1 '/' h1 (by decide) h.symm
      · exact digit_ne d2 '/' h2 (by decide) h.symm
  · rcases hcc with rfl | ⟨ds, rfl, _, hd⟩
    · simp
    · intro h
      simp only [List.mem_cons] at h
      rcases h with h | h
      · revert h; decide
      · exact digit_ne _ '/' (hd _ h) (by decide) rfl
  · rcases hnl with rfl | rfl
    · simp
    · decide

end Pyx12Verif.Path
