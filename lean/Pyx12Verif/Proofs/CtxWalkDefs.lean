/-
C09 ⟵ C02 link, part 2: from the walker model's index paths to the loop records the context reader works with.

`recsAt root p`   (id, pos) of every loop on the index path `p`, outermost first
`lpathAt root p`  the ids alone = `x12path.loop_list` of the loop at `p` (what `Ctx.LPath` stands for)
`stackAt root p`  the same innermost first = the reader's stack of open loops (`Ctx.Where.open_`)
`answerOf`        the `Ctx.Answer` the reader derives from one walker result
`CtxMapOK`, `LidOK`  the (decidable) map hypotheses of the link theorem
-/
import Pyx12Verif.Proofs.CtxWalkPure
import Pyx12Verif.Model.CtxReader

namespace Pyx12Verif.CtxWalk
open Pyx12Verif.MapSkel Pyx12Verif.Walker Pyx12Verif.WalkerGen

def recsAt : List Node → List Nat → List (Nat × Nat)
  | _, [] => []
  | ch, i :: r =>
    match ch[i]? with
    | some n => (n.ident, n.pos) :: recsAt n.children r
    | none => []

def lpathAt (root : List Node) (p : List Nat) : Ctx.LPath := (recsAt root p).map (fun x => x.1)

def stackAt (root : List Node) (p : List Nat) : List (Nat × Nat) := (recsAt root p).reverse

/-- `pop_loops` as the reader sees them: loop nodes, identified by their paths -/
def cvPops (root : List Node) (pops : List (List Nat)) : List Ctx.LPath := pops.map (lpathAt root)

/-- `push_loops` as the reader sees them: loop nodes with their `pos` -/
def cvPushes (root : List Node) (pushes : List (List Nat)) : List (Ctx.LPath × Nat) :=
  pushes.map (fun p => (lpathAt root p, posAt root p))

/-- what `iter_segments` holds once the map node `n` (a segment node) is fixed: `x12path.loop_list` of the node,
    `is_first_seg_in_loop()` (the node is the first child of its parent), `pos`, `parent.pos`, the pop and push lists -/
def answerOf (root : List Node) (si : Ctx.SegInfo) (n : List Nat) (pops pushes : List (List Nat)) : Ctx.Answer :=
  { seg := si, path := lpathAt root n.dropLast, first := n.getLast? == some 0, pos := posAt root n,
    ppos := posAt root n.dropLast, pops := cvPops root pops, pushes := cvPushes root pushes }

/-! ### map hypotheses -/

def loopsAfter (p : Nat) : List Node → Bool
  | [] => true
  | c :: r => (c.isSeg || decide (p < c.pos)) && loopsAfter p r

/-- in a loop that starts with a segment every child loop lies at a strictly later position than that segment -/
def strictHead : List Node → Bool
  | [] => true
  | c :: r => !c.isSeg || loopsAfter c.pos r

mutual
def strictNode : Node → Bool
  | .seg .. => true
  | .loop _ _ _ _ _ ch => strictHead ch && strictList ch
def strictList : List Node → Bool
  | [] => true
  | c :: r => strictNode c && strictList r
end

/-- no segment directly under the map root; child loops strictly after the first segment of their parent.
    (With a child loop AT the position of the first segment the walker reports the repeat of the parent without
    popping it, and the reader nests the new instance inside the old one.) -/
def CtxMapOK (root : List Node) : Bool := allLoops root && strictList root

mutual
def lidNode (lid : Nat) (seen : Bool) : Node → Bool
  | .seg .. => true
  | .loop l _ _ _ _ ch => (l != lid || (!seen && firstIsSeg ch)) && lidList lid (seen || l == lid) ch
def lidList (lid : Nat) (seen : Bool) : List Node → Bool
  | [] => true
  | c :: r => lidNode lid seen c && lidList lid seen r
end

/-- decidable form of `LidOK` -/
def lidOKb (root : List Node) (lid : Nat) : Bool := lidList lid false root

/-- the requested loop id names segment-anchored loops only, and at most one loop on any path -/
def LidOK (root : List Node) (lid : Nat) : Prop :=
  ∀ p ch, p ≠ [] → chAt root p = some ch →
    (lpathAt root p).count lid ≤ 1 ∧ ((lpathAt root p).getLast? = some lid → firstIsSeg ch = true)

def LidOK? (root : List Node) : Option Nat → Prop
  | none => True
  | some l => LidOK root l

/-! ### index paths -/

theorem recsAt_snoc {root : List Node} {p : List Nat} {ch : List Node} (h : chAt root p = some ch) {i : Nat} {c : Node}
    (hc : ch[i]? = some c) : recsAt root (p ++ [i]) = recsAt root p ++ [(c.ident, c.pos)] := by
  induction p generalizing root with
  | nil => simp only [chAt, Option.some.injEq] at h; subst h; simp [recsAt, hc]
  | cons a r ih =>
    simp only [chAt] at h
    split at h
    · rename_i sub heq
      simp only [List.cons_append, recsAt, heq, Node.children, List.cons.injEq, true_and]
      exact ih h
    · cases h

theorem posAt_snoc {root : List Node} {p : List Nat} {ch : List Node} (h : chAt root p = some ch) {i : Nat} {c : Node}
    (hc : ch[i]? = some c) : posAt root (p ++ [i]) = c.pos := by
  simp [posAt, nodeAt_snoc h, hc]

theorem lpathAt_snoc {root : List Node} {p : List Nat} {ch : List Node} (h : chAt root p = some ch) {i : Nat} {c : Node}
    (hc : ch[i]? = some c) : lpathAt root (p ++ [i]) = lpathAt root p ++ [c.ident] := by
  simp [lpathAt, recsAt_snoc h hc]

theorem stackAt_snoc {root : List Node} {p : List Nat} {ch : List Node} (h : chAt root p = some ch) {i : Nat} {c : Node}
    (hc : ch[i]? = some c) : stackAt root (p ++ [i]) = (c.ident, c.pos) :: stackAt root p := by
  simp [stackAt, recsAt_snoc h hc]

theorem pathOf_stackAt (root : List Node) (p : List Nat) : Ctx.pathOf (stackAt root p) = lpathAt root p := by
  simp [Ctx.pathOf, stackAt, lpathAt, List.map_reverse]

theorem stackAt_nil (root : List Node) : stackAt root [] = [] := by simp [stackAt, recsAt]

/-- a (non-root) index path that leads to a loop -/
def LoopAt (root : List Node) (p : List Nat) : Prop := p ≠ [] ∧ ∃ ch, chAt root p = some ch

theorem LoopAt.split {root : List Node} {p : List Nat} (h : LoopAt root p) :
    ∃ p0 a ch lid pos u r w sub, p = p0 ++ [a] ∧ chAt root p0 = some ch ∧ ch[a]? = some (.loop lid pos u r w sub) ∧
      chAt root p = some sub := by
  obtain ⟨hne, sub, hsub⟩ := h
  obtain ⟨p0, a, rfl⟩ : ∃ p0 a, p = p0 ++ [a] := ⟨p.dropLast, p.getLast hne, (List.dropLast_concat_getLast hne).symm⟩
  obtain ⟨ch, lid, pos, u, r, w, h1, h2, _⟩ := nodeAt_of_chAt hsub
  exact ⟨p0, a, ch, lid, pos, u, r, w, sub, rfl, h1, h2, hsub⟩

/-- the innermost open loop is the loop at the path -/
theorem stackAt_head {root : List Node} {p : List Nat} (h : LoopAt root p) :
    (stackAt root p).head?.map (fun x => x.2) = some (posAt root p) := by
  obtain ⟨p0, a, ch, lid, pos, u, r, w, sub, rfl, h1, h2, _⟩ := h.split
  rw [stackAt_snoc h1 h2, posAt_snoc h1 h2]; simp

theorem lpathAt_getLast {root : List Node} {p0 : List Nat} {a : Nat} {ch : List Node} (h1 : chAt root p0 = some ch)
    {c : Node} (h2 : ch[a]? = some c) : (lpathAt root (p0 ++ [a])).getLast? = some c.ident := by
  rw [lpathAt_snoc h1 h2]; simp

/-! ### the reader's pop / push runs along index paths -/

theorem popRun_append : ∀ (a b : List Ctx.LPath) (rs : List (Nat × Nat)) (last : Nat),
    Ctx.popRun rs last (a ++ b) =
      (match Ctx.popRun rs last a with
       | some x => Ctx.popRun x.1 x.2 b
       | none => none)
  | [], b, rs, last => by simp [Ctx.popRun]
  | l :: a, b, rs, last => by
    cases rs with
    | nil => simp [Ctx.popRun]
    | cons x rs' =>
      simp only [List.cons_append, Ctx.popRun]
      split
      · exact popRun_append a b rs' x.2
      · rfl

/-- popping the innermost open loop -/
theorem popRun_one {root : List Node} {p : List Nat} {ch : List Node} (h : chAt root p = some ch) {i : Nat} {c : Node}
    (hc : ch[i]? = some c) (last : Nat) (rest : List Ctx.LPath) :
    Ctx.popRun (stackAt root (p ++ [i])) last (lpathAt root (p ++ [i]) :: rest) = Ctx.popRun (stackAt root p) c.pos rest := by
  have hp := pathOf_stackAt root (p ++ [i])
  rw [stackAt_snoc h hc] at hp ⊢
  simp only [Ctx.popRun, hp, ↓reduceIte]

/-- pushing a child loop of the innermost open loop -/
theorem pushRun_one {root : List Node} {p : List Nat} {ch : List Node} (h : chAt root p = some ch) {i : Nat} {c : Node}
    (hc : ch[i]? = some c) (rest : List (Ctx.LPath × Nat)) :
    Ctx.pushRun (stackAt root p) ((lpathAt root (p ++ [i]), posAt root (p ++ [i])) :: rest) =
      Ctx.pushRun (stackAt root (p ++ [i])) rest := by
  rw [stackAt_snoc h hc, posAt_snoc h hc]
  simp [Ctx.pushRun, pathOf_stackAt, lpathAt_snoc h hc]

/-! ### loop paths are determined by their ids -/

theorem recsAt_ne_nil {root : List Node} {i : Nat} {r : List Nat} {ch : List Node} (h : chAt root (i :: r) = some ch) :
    ∃ l p u rep w sub, root[i]? = some (.loop l p u rep w sub) ∧ chAt sub r = some ch ∧
      lpathAt root (i :: r) = l :: lpathAt sub r := by
  simp only [chAt] at h
  split at h
  · rename_i l p u rep w sub heq
    exact ⟨l, p, u, rep, w, sub, heq, h, by simp [lpathAt, recsAt, heq, Node.ident, Node.children]⟩
  · cases h

theorem lpathAt_inj : ∀ (p q : List Nat) (root : List Node) (a b : List Node), WFAt root → chAt root p = some a →
    chAt root q = some b → lpathAt root p = lpathAt root q → p = q
  | [], [], _, _, _, _, _, _, _ => rfl
  | [], i :: r, root, a, b, _, _, hq, he => by
    obtain ⟨l, p, u, rep, w, sub, _, _, h3⟩ := recsAt_ne_nil hq
    rw [h3] at he; simp [lpathAt, recsAt] at he
  | i :: r, [], root, a, b, _, hp, _, he => by
    obtain ⟨l, p, u, rep, w, sub, _, _, h3⟩ := recsAt_ne_nil hp
    rw [h3] at he; simp [lpathAt, recsAt] at he
  | i :: r, i' :: r', root, a, b, hwf, hp, hq, he => by
    obtain ⟨l, p, u, rep, w, sub, h1, h2, h3⟩ := recsAt_ne_nil hp
    obtain ⟨l', p', u', rep', w', sub', h1', h2', h3'⟩ := recsAt_ne_nil hq
    rw [h3, h3'] at he
    simp only [List.cons.injEq] at he
    obtain ⟨hl, he⟩ := he
    subst hl
    have hii : i = i' := by
      apply Classical.byContradiction
      intro hne
      exact compDistinct_ne hwf.comp h1 h1' hne (by simp [Node.comp])
    subst hii
    rw [h1] at h1'; simp only [Option.some.injEq, Node.loop.injEq] at h1'
    obtain ⟨_, _, _, _, _, hs⟩ := h1'
    subst hs
    have hsub : chAt root [i] = some sub := by simp [chAt, h1]
    rw [lpathAt_inj r r' sub a b (wfAt_chAt hwf hsub) h2 h2' he]

/-! ### the requested loop id -/

theorem lidList_get {lid : Nat} {seen : Bool} {ch : List Node} (h : lidList lid seen ch = true) {i : Nat} {c : Node}
    (hc : ch[i]? = some c) : lidNode lid seen c = true := by
  induction ch generalizing i with
  | nil => simp at hc
  | cons a r ih =>
    simp only [lidList, Bool.and_eq_true] at h
    cases i with
    | zero => simp at hc; subst hc; exact h.1
    | succ n => simp at hc; exact ih h.2 hc

theorem lid_paths (lid : Nat) : ∀ (p : List Nat) (root : List Node) (seen : Bool) (ch : List Node),
    lidList lid seen root = true → p ≠ [] → chAt root p = some ch →
    (lpathAt root p).count lid + (if seen then 1 else 0) ≤ 1 ∧
      ((lpathAt root p).getLast? = some lid → firstIsSeg ch = true)
  | [], _, _, _, _, hne, _ => absurd rfl hne
  | i :: r, root, seen, ch, hl, _, hch => by
    obtain ⟨l, p, u, rep, w, sub, h1, h2, h3⟩ := recsAt_ne_nil hch
    have hn := lidList_get hl h1
    simp only [lidNode, Bool.and_eq_true, Bool.or_eq_true, bne_iff_ne, Bool.not_eq_true', beq_iff_eq] at hn
    obtain ⟨hn1, hn2⟩ := hn
    rw [h3]
    cases r with
    | nil =>
      simp only [chAt, Option.some.injEq] at h2; subst h2
      simp only [lpathAt, recsAt, List.map_nil, List.count_cons, List.count_nil, beq_iff_eq, Nat.zero_add,
        List.getLast?_singleton, Option.some.injEq]
      rcases hn1 with hn1 | hn1
      · simp only [hn1, ↓reduceIte]
        exact ⟨by split <;> omega, fun e => by simp_all⟩
      · simp only [hn1.1, Bool.false_eq_true, ↓reduceIte, Nat.add_zero]
        exact ⟨by split <;> omega, fun _ => hn1.2⟩
    | cons j r' =>
      obtain ⟨ih1, ih2⟩ := lid_paths lid (j :: r') sub (seen || l == lid) ch hn2 (by simp) h2
      obtain ⟨l2, _, _, _, _, _, _, _, h3'⟩ := recsAt_ne_nil h2
      refine ⟨?_, ?_⟩
      · simp only [List.count_cons, beq_iff_eq]
        rcases hn1 with hn1 | hn1
        · have : (l == lid) = false := by simpa using hn1
          simp only [this, Bool.or_false] at ih1
          simp only [hn1, ↓reduceIte]; omega
        · simp only [hn1.1, Bool.false_eq_true, ↓reduceIte, Nat.add_zero]
          simp only [hn1.1, Bool.false_or] at ih1
          by_cases hll : l = lid
          · simp only [hll, beq_self_eq_true, ↓reduceIte] at ih1 ⊢; omega
          · simp only [hll, ↓reduceIte]; omega
      · intro hg
        apply ih2
        rw [h3'] at hg ⊢
        simpa using hg
termination_by p => p.length

theorem lidOK_of_bool {root : List Node} {lid : Nat} (h : lidOKb root lid = true) : LidOK root lid := by
  intro p ch hne hch
  have := lid_paths lid p root false ch h hne hch
  simpa using this

theorem lidOK?_of_bool {root : List Node} : ∀ (lid : Option Nat),
    (match lid with | none => true | some l => lidOKb root l) = true → LidOK? root lid
  | none, _ => trivial
  | some _, h => lidOK_of_bool h

end Pyx12Verif.CtxWalk
