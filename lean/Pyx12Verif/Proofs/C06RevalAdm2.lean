/-
C06 re-validation, part V (the kinds of segment the 997 writer emits): for each kind, which slots are the writer's own, the
finite tables / digit-length bounds of its own values, and the decidable check `kindOk` of a segment definition against
them.  `segAdm_of_kind`: a written segment whose echoed slots fit (`EchoAdm`) and whose own slots carry table values
(`OwnFacts`) conforms to a definition that passes `kindOk` (`Doc.SegAdm`).
-/
import Pyx12Verif.Proofs.C06RevalAdm1

namespace Pyx12Verif.C06R
open Pyx12Verif Pyx12Verif.Doc Pyx12Verif.ElemValid Pyx12Verif.Ack

/-- what is known of the writer's own slots of one kind of segment -/
structure KindSpec where
  /-- elements the writer always writes -/
  minLen : Nat
  own : Own
  /-- finite table of own element values (as component lists) at a position -/
  tbl : Nat → List (List Str)
  /-- own numeric value at a position: between `lo` and `hi` ASCII digits -/
  num : Nat → Option (Nat × Nat)

def numOkB (c : ChildX) : Option (Nat × Nat) → Bool
  | none => true
  | some p =>
    match c with
    | .elem x => numDefOk x p.1 p.2
    | .comp .. => false

def slotsOk (v5 : Bool) (k : KindSpec) : Nat → List ChildX → Bool
  | _, [] => true
  | i, c :: cs =>
    (k.tbl i).all (fun e => presentOkB v5 e c) && numOkB c (k.num i) && (decide (i < k.minLen) || absentOkB c) &&
      slotsOk v5 k (i + 1) cs

/-- the writer's own values are those of the table, or digit strings within the length bounds -/
def OwnFacts (k : KindSpec) (i : Nat) (es : List (List Str)) : Prop :=
  ∀ j e, es[j]? = some e → k.own (i + j) e = true →
    e ∈ k.tbl (i + j) ∨ ∃ lo hi v, k.num (i + j) = some (lo, hi) ∧ e = [v] ∧ (∀ c ∈ v, isDig c = true) ∧ lo ≤ v.length ∧ v.length ≤ hi

theorem ownAdm_of_slotsOk (ctx : Doc.Ctx) (v5 : Bool) (k : KindSpec) :
    ∀ (cs : List ChildX) (i : Nat) (es : List (List Str)), slotsOk v5 k i cs = true → OwnFacts k i es →
      OwnAdm ctx v5 k.own k.minLen i cs es := by
  intro cs
  induction cs with
  | nil => intro i es _ _; trivial
  | cons c cs ih =>
    intro i es hs hf
    simp only [slotsOk, Bool.and_eq_true, Bool.or_eq_true, decide_eq_true_eq, List.all_eq_true] at hs
    obtain ⟨⟨⟨h1, h2⟩, h3⟩, h4⟩ := hs
    cases es with
    | nil =>
      refine ⟨?_, ih (i + 1) [] h4 (by intro j e hj; simp at hj)⟩
      intro hmin
      rcases h3 with h3 | h3
      · omega
      · exact childAbsentAdm_of_ok ctx v5 c h3
    | cons e es =>
      refine ⟨?_, ih (i + 1) es h4 ?_⟩
      · intro hown
        rcases hf 0 e (by simp) (by simpa using hown) with hm | ⟨lo, hi, v, hn, rfl, hd, hlo, hhi⟩
        · exact presentAdm0_of_ok ctx v5 e c (h1 e (by simpa using hm))
        · simp only [Nat.add_zero] at hn
          rw [hn] at h2
          cases c with
          | comp u seq nm rd de kids => cases h2
          | elem x => exact ⟨v, rfl, elemAdm_digits ctx v5 x lo hi h2 v hd hlo hhi⟩
      · intro j e' hj ho
        have e1 : i + 1 + j = i + (j + 1) := by omega
        rw [e1] at ho ⊢
        exact hf (j + 1) e' (by simpa using hj) ho

/-- the definition has no syntax note, selects no type list, and its children pass the slot checks -/
def kindOk (v5 : Bool) (k : KindSpec) (sd : SegDef) : Bool :=
  sd.notes.isEmpty && noTl sd.children && slotsOk v5 k 0 sd.children

theorem segAdm_of_kind (ctx : Doc.Ctx) (v5 : Bool) (d : Doc.Delims) (sd : SegDef) (s : Doc.Seg) (k : KindSpec)
    (hk : kindOk v5 k sd = true) (hsid : s.id ≠ sDTP)
    (hecho : EchoAdm ctx v5 k.own k.minLen 0 sd.children s.elems) (hown : OwnFacts k 0 s.elems)
    (hfmt : ∀ c ∈ s.elems, c ≠ []) :
    SimpleAdm ctx v5 sd.children s.elems ∧ SegAdm ctx v5 d sd s := by
  simp only [kindOk, Bool.and_eq_true, List.isEmpty_iff] at hk
  obtain ⟨⟨hnotes, hntl⟩, hslots⟩ := hk
  have ho := ownAdm_of_slotsOk ctx v5 k sd.children 0 s.elems hslots hown
  obtain ⟨hs, hlen⟩ := simpleAdm_of_echo_own ctx v5 k.own k.minLen sd.children 0 s.elems hecho ho
  refine ⟨hs, hlen, childrenAdm_of_simple ctx v5 s.id _ hsid sd.children 0 s.elems hntl hs, ?_⟩
  refine ⟨_, SegText.formatComps_eq _ _ hfmt, ?_⟩
  rw [hnotes]
  intro n hn
  cases hn

/-! ### the kinds -/

def blanks10 : Str := List.replicate 10 ' '

def kISA : KindSpec :=
  { minLen := 16
    own := fun i _ => i == 0 || i == 1 || i == 2 || i == 3 || i == 13 || i == 15
    tbl := fun i => if i = 0 ∨ i = 2 then [[['0', '0']]] else if i = 1 ∨ i = 3 then [[blanks10]]
                    else if i = 13 then [[['0']]] else if i = 15 then [[[':']]] else []
    num := fun _ => none }

def kGS : KindSpec :=
  { minLen := 8
    own := fun i _ => i == 0 || i == 7
    tbl := fun i => if i = 0 then [[['F', 'A']]] else if i = 7 then [[v004010]] else []
    num := fun _ => none }

def kST : KindSpec :=
  { minLen := 2
    own := fun _ _ => true
    tbl := fun i => if i = 0 then [[['9', '9', '7']]] else []
    num := fun i => if i = 1 then some (4, 6) else none }

/-- AK1, AK2: everything is echoed -/
def kEcho2 : KindSpec := { minLen := 2, own := fun _ _ => false, tbl := fun _ => [], num := fun _ => none }

def kAK3 : KindSpec :=
  { minLen := 4
    own := fun i _ => i == 3
    tbl := fun i => if i = 3 then validAK3.map (fun c => [c]) else []
    num := fun _ => none }

/-- AK402 as the writer leaves it: empty (no reference number, or `ele_ref_num` is not a digit string — the id of a composite,
    `C022`) or one to four ASCII digits (a data element number) -/
def ownAK402 (e : List Str) : Bool :=
  match e with
  | [v] => v.isEmpty || (v.all isDig && decide (v.length ≤ 4))
  | _ => false

/-- AK403 is a code of the writer's table; AK402 is the writer's own when it has the shape `ownAK402` (the writer copies
    `ele_ref_num` only when it is a string of ASCII digits: `ak402_written`), else it counts as echoed -/
def kAK4 : KindSpec :=
  { minLen := 3
    own := fun i e => i == 2 || (i == 1 && ownAK402 e)
    tbl := fun i => if i = 2 then validAK4.map (fun c => [c]) else if i = 1 then [[[]]] else []
    num := fun i => if i = 1 then some (1, 4) else none }

/-- AK502..: `'5'` (a child has an error), `'6'` / `'7'` (ST/SE element positions) come from the writer, the rest from the tree -/
def ownAK5 : List (List Str) := [[['5']], [['6']], [['7']]]
def kAK5 : KindSpec :=
  { minLen := 1
    own := fun i e => decide (1 ≤ i) && ownAK5.contains e
    tbl := fun i => if 1 ≤ i then ownAK5 else []
    num := fun _ => none }

/-- AK901: the fall-back `'R'`; AK905..: `'1'`, `'2'`, `'6'` (GS/GE element positions) come from the writer -/
def ownAK9 : List (List Str) := [[['1']], [['2']], [['6']]]
def kAK9 : KindSpec :=
  { minLen := 4
    own := fun i e => (i == 0 && e == [['R']]) || (decide (4 ≤ i) && ownAK9.contains e)
    tbl := fun i => if i = 0 then [[['R']]] else if 4 ≤ i then ownAK9 else []
    num := fun _ => none }

def kSE : KindSpec :=
  { minLen := 2
    own := fun _ _ => true
    tbl := fun _ => []
    num := fun i => if i = 0 then some (1, 10) else if i = 1 then some (4, 6) else none }

def kGE : KindSpec :=
  { minLen := 2
    own := fun i _ => i == 0
    tbl := fun _ => []
    num := fun i => if i = 0 then some (1, 6) else none }

def kIEA : KindSpec :=
  { minLen := 2
    own := fun i _ => i == 0
    tbl := fun i => if i = 0 then [[['1']]] else []
    num := fun _ => none }

/-- the kind of a body segment of the 997, by identifier -/
def kindOf (id : Str) : KindSpec :=
  if id = sST then kST else if id = sAK1 then kEcho2 else if id = sAK2 then kEcho2 else if id = sAK3 then kAK3
  else if id = sAK4 then kAK4 else if id = sAK5 then kAK5 else if id = sAK9 then kAK9 else if id = sSE then kSE
  else if id = sGE then kGE else kIEA

end Pyx12Verif.C06R
