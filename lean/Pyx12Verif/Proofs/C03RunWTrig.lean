/-
C03 run level, missing mandatory segment: how the walk gets to the next matched node when exactly one required
segment child (the "hole": child `j0` of the open loop instance at `q0`) has not been seen.

`scan_hole`: the child scan passes the hole and records it in `mandatory_segs_missing`;
`reach_hole`: the whole way from the current node to the scan position of the target, with that one entry pending.
-/
import Pyx12Verif.Proofs.C03RunWRun

namespace Pyx12Verif.WalkerGenW
open Pyx12Verif.MapSkel Pyx12Verif.Walker Pyx12Verif.WalkerGen

/-- the entry the scan of the loop at `lip` (id pair `nid`) appends for its unmatched required segment child `c` at
    index `i` -/
def holeEntry (lip : List Nat) (nid : NodeId) (i : Nat) (c : Node) : Pending :=
  { ip := lip ++ [i], nid := (c.ident, nid.1), pos := c.pos }

/-- the scan steps over a required segment child that does not match and has not been seen: it is recorded -/
theorem scan_miss {K : Consts} {s : SegData} (lip : List Nat) (lkey : PathKey) (loopNode : Option Node)
    (loopNid origLoop : NodeId) (fromPos : Nat) (pops : List (List Nat)) (st : WState) (c : Node) (r : List Node) (i : Nat)
    (hpos : ¬ c.pos < fromPos) (hseg : c.isSeg = true) (hm : isMatch K c s = false) (hu : c.usage = 0)
    (hz : st.cnt.get (lkey ++ [c.comp]) = 0) :
    scanChildren K s lip lkey loopNode loopNid origLoop fromPos pops i st (c :: r) =
      scanChildren K s lip lkey loopNode loopNid origLoop fromPos pops (i + 1)
        { st with pending := st.pending ++ [holeEntry lip loopNid i c] } r := by
  conv => lhs; simp only [scanChildren]
  simp [hpos, hseg, hm, hu, hz, holeEntry]

/-- a child list with the hole at index `j0`: everything else is passed, the hole is recorded -/
theorem scan_hole {K : Consts} {s : SegData} (lip : List Nat) (lkey : PathKey) (loopNode : Option Node)
    (loopNid origLoop : NodeId) (fromPos : Nat) (pops : List (List Nat)) (st : WState) (ch : List Node) {j0 : Nat} {c0 : Node}
    (hc0 : ch[j0]? = some c0)
    (hpass : ∀ (j : Nat) (c : Node), ch[j]? = some c → j ≠ j0 → Passes K s st.cnt lkey fromPos c)
    (hpos : ¬ c0.pos < fromPos) (hseg : c0.isSeg = true) (hm : isMatch K c0 s = false) (hu : c0.usage = 0)
    (hz : st.cnt.get (lkey ++ [c0.comp]) = 0) :
    scanChildren K s lip lkey loopNode loopNid origLoop fromPos pops 0 st ch =
      .notHere { st with pending := st.pending ++ [holeEntry lip loopNid j0 c0] } := by
  obtain ⟨hsplit, hlen⟩ := split_at hc0
  have h1 : ∀ c ∈ ch.take j0, Passes K s st.cnt lkey fromPos c := by
    intro c hc
    obtain ⟨j', hj', hc'⟩ := mem_take_get hc
    exact hpass j' c hc' (by omega)
  have h2 : ∀ c ∈ ch.drop (j0 + 1), Passes K s st.cnt lkey fromPos c := by
    intro c hc
    obtain ⟨j', hj'⟩ := List.mem_iff_getElem?.mp hc
    rw [List.getElem?_drop] at hj'
    exact hpass _ c hj' (by omega)
  have e1 := scan_skips_nonmatching (K := K) (s := s) lip lkey loopNode loopNid origLoop fromPos pops st (ch.take j0)
    (c0 :: ch.drop (j0 + 1)) 0 h1
  rw [← hsplit, hlen, Nat.zero_add] at e1
  rw [e1, scan_miss lip lkey loopNode loopNid origLoop fromPos pops st c0 _ j0 hpos hseg hm hu hz]
  exact scan_all_pass lip lkey loopNode loopNid origLoop fromPos pops _ _ _ h2

/-- the prefix of a child list up to the target `j`, with the hole at `j0 < j` -/
theorem scan_hole_prefix {K : Consts} {s : SegData} (lip : List Nat) (lkey : PathKey) (loopNode : Option Node)
    (loopNid origLoop : NodeId) (fromPos : Nat) (pops : List (List Nat)) (st : WState) (ch : List Node) {j0 j : Nat}
    {c0 c : Node} (hc0 : ch[j0]? = some c0) (hc : ch[j]? = some c) (hj : j0 < j)
    (hpass : ∀ (j' : Nat) (c' : Node), ch[j']? = some c' → j' < j → j' ≠ j0 → Passes K s st.cnt lkey fromPos c')
    (hpos : ¬ c0.pos < fromPos) (hseg : c0.isSeg = true) (hm : isMatch K c0 s = false) (hu : c0.usage = 0)
    (hz : st.cnt.get (lkey ++ [c0.comp]) = 0) :
    scanChildren K s lip lkey loopNode loopNid origLoop fromPos pops 0 st ch =
      scanChildren K s lip lkey loopNode loopNid origLoop fromPos pops j
        { st with pending := st.pending ++ [holeEntry lip loopNid j0 c0] } (c :: ch.drop (j + 1)) := by
  obtain ⟨hsplit, hlen⟩ := split_at hc0
  have h1 : ∀ c' ∈ ch.take j0, Passes K s st.cnt lkey fromPos c' := by
    intro c' hc'
    obtain ⟨j', hj', hc''⟩ := mem_take_get hc'
    exact hpass j' c' hc'' (by omega) (by omega)
  have hc2 : (ch.drop (j0 + 1))[j - (j0 + 1)]? = some c := by
    rw [List.getElem?_drop, ← hc]; congr 1; omega
  obtain ⟨hsplit2, hlen2⟩ := split_at hc2
  have h2 : ∀ c' ∈ (ch.drop (j0 + 1)).take (j - (j0 + 1)), Passes K s st.cnt lkey fromPos c' := by
    intro c' hc'
    obtain ⟨j', hj', hc''⟩ := mem_take_get hc'
    rw [List.getElem?_drop] at hc''
    exact hpass _ c' hc'' (by omega) (by omega)
  have hd : (ch.drop (j0 + 1)).drop (j - (j0 + 1) + 1) = ch.drop (j + 1) := by
    rw [List.drop_drop]; congr 1; omega
  rw [hd] at hsplit2
  have e1 := scan_skips_nonmatching (K := K) (s := s) lip lkey loopNode loopNid origLoop fromPos pops st (ch.take j0)
    (c0 :: ch.drop (j0 + 1)) 0 h1
  rw [← hsplit, hlen, Nat.zero_add] at e1
  have e3 := scan_skips_nonmatching (K := K) (s := s) lip lkey loopNode loopNid origLoop fromPos pops
    { st with pending := st.pending ++ [holeEntry lip loopNid j0 c0] } ((ch.drop (j0 + 1)).take (j - (j0 + 1)))
    (c :: ch.drop (j + 1)) (j0 + 1) h2
  rw [← hsplit2, hlen2] at e3
  rw [e1, scan_miss lip lkey loopNode loopNid origLoop fromPos pops st c0 _ j0 hpos hseg hm hu hz, e3]
  congr 1; omega

/-! ### the way up from an intermediate level -/

/-- from the scan of level `p` (state `st`, counter as at the start of the walk) the walk leaves the levels below `P`,
    all of whose children are passed, and scans the children of `P` -/
theorem reach_from {K : Consts} {root : List Node} {rootId : Nat} {s : SegData} {cnt : Counter} {cur : List Nat}
    (hinv : Inv root cnt cur) (oL : NodeId) (orig : List Nat) (st : WState) (hst : st.cnt = cnt)
    {p : List Nat} {i : Nat} (hp : p ++ [i] <+: cur) (pops : List (List Nat))
    {P : List Nat} {iP : Nat} (hP : P ++ [iP] <+: cur) (hPp : P <+: p)
    (hdead : ∀ p' i' ch', P <+: p' → p' ≠ P → p' ++ [i'] <+: p ++ [i] → chAt root p' = some ch' →
      ∀ c ∈ ch', Passes K s cnt (keyAt root p') (posAt root (p' ++ [i'])) c)
    {ch : List Node} (hch : chAt root P = some ch) :
    ∃ loopNode nid pops',
      (P = [] ∧ loopNode = none ∨
        ∃ P0 a ln, P = P0 ++ [a] ∧ loopNode = some ln ∧ nodeAt root P = some ln ∧ ln.children = ch ∧ ln.isSeg = false) ∧
      (∀ r, scanChildren K s P (keyAt root P) loopNode nid oL (posAt root (P ++ [iP])) pops' 0 st ch = .found r →
        walkUp K root rootId s oL orig p.reverse (posAt root (p ++ [i])) pops st = r) ∧
      (∀ P0 a st', P = P0 ++ [a] →
        scanChildren K s P (keyAt root P) loopNode nid oL (posAt root (P ++ [iP])) pops' 0 st ch = .notHere st' →
        walkUp K root rootId s oL orig p.reverse (posAt root (p ++ [i])) pops st =
          walkUp K root rootId s oL orig P0.reverse (posAt root P) (pops' ++ [P]) st') := by
  obtain ⟨iP', pops', hP', hpop⟩ := walkUp_pop (K := K) (rootId := rootId) (s := s) (origLoop := oL) (orig := orig)
    hinv st hst P (p.length - P.length) p i hPp
    (by have := List.IsPrefix.length_le hPp; omega) hp hdead pops
  have hiP : iP' = iP := path_idx_unique hP' hP
  subst hiP
  rcases List.eq_nil_or_concat P with hnil | ⟨P0, a, hPa⟩
  · subst hnil
    refine ⟨none, (rootId, 0), pops', Or.inl ⟨rfl, rfl⟩, ?_, ?_⟩
    · intro r hr
      rw [hpop]
      simp only [List.reverse_nil]
      rw [walkUp_root]
      simp only [chAt, Option.some.injEq] at hch
      subst hch
      have hk : keyAt root [] = [] := by simp [keyAt]
      rw [hk] at hr
      rw [hr]
    · intro P0 a st' hPa; simp at hPa
  · rw [List.concat_eq_append] at hPa
    subst hPa
    obtain ⟨ln, nid, hln, hlnch, hlnseg, hw⟩ := walkUp_level (K := K) (rootId := rootId) (s := s) (origLoop := oL)
      (orig := orig) hch (posAt root (P0 ++ [a] ++ [iP'])) pops' st
    refine ⟨some ln, nid, pops', Or.inr ⟨P0, a, ln, rfl, rfl, hln, hlnch, hlnseg⟩, ?_, ?_⟩
    · intro r hr
      rw [hpop, hw, hr]
    · intro P0' a' st' hPa hr
      obtain ⟨rfl, rfl⟩ : P0 = P0' ∧ a = a' := by
        have := List.append_inj' hPa (by simp)
        exact ⟨this.1, by simpa using this.2⟩
      rw [hpop, hw, hr]

/-! ### the hole -/

/-- the hole: the required segment child `j0` of the open loop instance at `q0` has not been seen, and the walk
    stands at or below an earlier child `i0` of that instance -/
structure Hole (root : List Node) (cur : List Nat) (q0 : List Nat) (i0 j0 : Nat) (ch0 : List Node) (c0 : Node) : Prop where
  path : q0 ++ [i0] <+: cur
  lt : i0 < j0
  ch : chAt root q0 = some ch0
  get : ch0[j0]? = some c0
  seg : c0.isSeg = true
  req : c0.usage = 0

theorem Hole.zero {root : List Node} {cnt : Counter} {cur q0 : List Nat} {i0 j0 : Nat} {ch0 : List Node} {c0 : Node}
    (H : Hole root cur q0 i0 j0 ch0 c0) (hinv : Inv root cnt cur) : cnt.get (keyAt root q0 ++ [c0.comp]) = 0 := by
  obtain ⟨ch, hch, hl⟩ := hinv.lev q0 i0 H.path
  rw [H.ch] at hch; simp only [Option.some.injEq] at hch; subst hch
  exact hl.later j0 c0 H.lt H.get _ (List.prefix_refl _)

theorem Hole.notBefore {K : Consts} {root : List Node} (h : MapOK K root) {cur q0 : List Nat} {i0 j0 : Nat}
    {ch0 : List Node} {c0 : Node} (H : Hole root cur q0 i0 j0 ch0 c0) : ¬ c0.pos < posAt root (q0 ++ [i0]) := by
  have hwf := wfAt_chAt (wfAt_root h.wf) H.ch
  cases hci : ch0[i0]? with
  | none => simp [posAt, nodeAt_snoc H.ch, hci]
  | some ci =>
    have := posSorted_le hwf.pos hci H.get (Nat.le_of_lt H.lt)
    simp only [posAt, nodeAt_snoc H.ch, hci]; omega

/-- the level of the hole starts with a segment -/
theorem Hole.notTransparent {K : Consts} {root : List Node} (h : MapOK K root) {cur q0 : List Nat} {i0 j0 : Nat}
    {ch0 : List Node} {c0 : Node} (H : Hole root cur q0 i0 j0 ch0 c0) (hq0 : q0 ≠ []) : firstIsLoop ch0 = false := by
  cases hT : firstIsLoop ch0 with
  | false => rfl
  | true =>
    exfalso
    obtain ⟨P0, a, hPa⟩ : ∃ P0 a, q0 = P0 ++ [a] := ⟨q0.dropLast, q0.getLast hq0, (List.dropLast_concat_getLast hq0).symm⟩
    subst hPa
    have := allLoops_get (transparent_static h H.ch hT).loops H.get
    rw [H.seg] at this; cases this

/-- **reaching the target past the hole**: the walk from `cur` gets to the scan position of child `j` of the loop at
    `q` (on the path, `q` at or above the level of the hole) having passed every other child on its way and recorded
    the hole -/
theorem reach_hole {K : Consts} {root : List Node} (rootId : Nat) (h : MapOK K root) {s : SegData} {cnt : Counter}
    {cur : List Nat} (hinv : Inv root cnt cur) {q0 : List Nat} {i0 j0 : Nat} {ch0 : List Node} {c0 : Node}
    (H : Hole root cur q0 i0 j0 ch0 c0) (hm0 : isMatch K c0 s = false)
    {q : List Nat} {i : Nat} (hqi : q ++ [i] <+: cur) (hqq : q <+: q0)
    {ch : List Node} (hch : chAt root q = some ch) {j : Nat} {c : Node} (hc : ch[j]? = some c) (hjq : q = q0 → j0 < j)
    (hdead : ∀ p' i' ch' (jc : Nat) (c' : Node), q <+: p' → p' ≠ q → p' ++ [i'] <+: cur → chAt root p' = some ch' →
      ch'[jc]? = some c' → p' ++ [jc] ≠ q0 ++ [j0] → Passes K s cnt (keyAt root p') (posAt root (p' ++ [i'])) c')
    (hpre : ∀ (j' : Nat) (c' : Node), j' < j → ch[j']? = some c' → q ++ [j'] ≠ q0 ++ [j0] →
      Passes K s cnt (keyAt root q) (posAt root (q ++ [i])) c') :
    ∃ loopNode nid nid0 oL pops,
      (q = [] ∧ loopNode = none ∨
        ∃ P0 a ln, q = P0 ++ [a] ∧ loopNode = some ln ∧ nodeAt root q = some ln ∧ ln.children = ch ∧ ln.isSeg = false) ∧
      ∀ r, scanChildren K s q (keyAt root q) loopNode nid oL (posAt root (q ++ [i])) pops j
          { cnt := cnt, pending := [holeEntry q0 nid0 j0 c0], errs := [] } (c :: ch.drop (j + 1)) = .found r →
        walk K root rootId cnt cur s = r := by
  obtain ⟨oL, ilast, hcur, hwalk⟩ := walk_unfold (K := K) (rootId := rootId) hinv s
  have hcd : cur.dropLast ++ [ilast] <+: cur := by rw [← hcur]; exact List.prefix_refl _
  have hz := H.zero hinv
  have hnb := H.notBefore h
  have hpcd : ∀ {P : List Nat} {iP : Nat}, P ++ [iP] <+: cur → P <+: cur.dropLast := by
    intro P iP hP
    have h1 : P <+: cur := List.IsPrefix.trans (List.prefix_append _ _) hP
    have hlen : (P ++ [iP]).length ≤ cur.length := List.IsPrefix.length_le hP
    have h2 : cur.dropLast <+: cur := List.dropLast_prefix cur
    exact prefix_of_longer h1 h2 (by simp at hlen ⊢; omega)
  have memget : ∀ {l : List Node} {c' : Node}, c' ∈ l → ∃ jc : Nat, l[jc]? = some c' := fun hc' => List.mem_iff_getElem?.mp hc'
  by_cases hq : q = q0
  · -- the hole is at the level of the target
    subst hq
    have hii : i = i0 := path_idx_unique hqi H.path
    subst hii
    rw [H.ch] at hch; simp only [Option.some.injEq] at hch; subst hch
    obtain ⟨loopNode, nid, pops', hln, hfound, _⟩ := reach_from (K := K) (rootId := rootId) (s := s) hinv oL cur
      { cnt := cnt, pending := [], errs := [] } rfl hcd [] hqi (hpcd hqi)
      (by
        intro p' i' ch' h1 h2 h3 h4 c' hc'
        obtain ⟨jc, hjc⟩ := memget hc'
        refine hdead p' i' ch' jc c' h1 h2 (List.IsPrefix.trans h3 hcd) h4 hjc ?_
        intro e
        have := List.append_inj' e (by simp)
        exact h2 this.1) H.ch
    refine ⟨loopNode, nid, nid, oL, pops', hln, ?_⟩
    intro r hr
    rw [hwalk]
    apply hfound r
    rw [scan_hole_prefix (K := K) (s := s) q (keyAt root q) loopNode nid oL _ pops' _ ch0 H.get hc (hjq rfl)
      (fun j' c' hc' hj' hne => hpre j' c' hj' hc' (by intro e; exact hne (by simpa using List.append_inj' e (by simp))))
      hnb H.seg hm0 H.req hz]
    exact hr
  · -- the hole is at a deeper level, which is left first
    have hq0ne : q0 ≠ [] := by
      intro e; subst e
      have := List.IsPrefix.length_le hqq
      have : q = [] := by simpa using this
      exact hq this
    obtain ⟨P0, a, hPa⟩ : ∃ P0 a, q0 = P0 ++ [a] := ⟨q0.dropLast, q0.getLast hq0ne, (List.dropLast_concat_getLast hq0ne).symm⟩
    subst hPa
    have hqP0 : q <+: P0 := by
      rcases prefix_snoc_cases hqq with h1 | h1
      · exact h1
      · exact absurd h1 hq
    have hP0a : P0 ++ [a] <+: cur := List.IsPrefix.trans (List.prefix_append _ _) H.path
    obtain ⟨loopNode0, nid0, pops0, hln0, _, hnot0⟩ := reach_from (K := K) (rootId := rootId) (s := s) hinv oL cur
      { cnt := cnt, pending := [], errs := [] } rfl hcd [] H.path (hpcd H.path)
      (by
        intro p' i' ch' h1 h2 h3 h4 c' hc'
        obtain ⟨jc, hjc⟩ := memget hc'
        refine hdead p' i' ch' jc c' (List.IsPrefix.trans hqq h1) ?_ (List.IsPrefix.trans h3 hcd) h4 hjc ?_
        · intro e; subst e
          have l1 := List.IsPrefix.length_le hqq
          have l2 := List.IsPrefix.length_le h1
          exact hq (prefix_eq_of_length hqq (by omega))
        · intro e
          have := List.append_inj' e (by simp)
          exact h2 this.1) H.ch
    have hlevel := hnot0 P0 a _ rfl
      (scan_hole (K := K) (s := s) (P0 ++ [a]) (keyAt root (P0 ++ [a])) loopNode0 nid0 oL _ pops0
        { cnt := cnt, pending := [], errs := [] } ch0 H.get
        (fun jc c' hjc hne => hdead (P0 ++ [a]) i0 ch0 jc c' hqq (fun e => hq e.symm) H.path H.ch hjc
          (by intro e; exact hne (by simpa using (List.append_inj' e (by simp)).2)))
        hnb H.seg hm0 H.req hz)
    obtain ⟨loopNode, nid, pops', hln, hfound, _⟩ := reach_from (K := K) (rootId := rootId) (s := s) hinv oL cur
      { cnt := cnt, pending := [] ++ [holeEntry (P0 ++ [a]) nid0 j0 c0], errs := [] } rfl hP0a (pops0 ++ [P0 ++ [a]]) hqi hqP0
      (by
        intro p' i' ch' h1 h2 h3 h4 c' hc'
        obtain ⟨jc, hjc⟩ := memget hc'
        refine hdead p' i' ch' jc c' h1 h2 (List.IsPrefix.trans h3 hP0a) h4 hjc ?_
        intro e
        have hl1 := List.IsPrefix.length_le h3
        have hl2 := congrArg List.length e
        simp at hl1 hl2; omega) hch
    refine ⟨loopNode, nid, nid0, oL, pops', hln, ?_⟩
    intro r hr
    rw [hwalk, hlevel]
    apply hfound r
    obtain ⟨hsplit, hlen⟩ := split_at hc
    have hpass : ∀ c' ∈ ch.take j, Passes K s cnt (keyAt root q) (posAt root (q ++ [i])) c' := by
      intro c' hc'
      obtain ⟨j', hj', hc''⟩ := mem_take_get hc'
      refine hpre j' c' hj' hc'' ?_
      intro e
      have := List.append_inj' e (by simp)
      exact hq this.1
    have hsk := scan_skips_nonmatching (K := K) (s := s) q (keyAt root q) loopNode nid oL (posAt root (q ++ [i])) pops'
      { cnt := cnt, pending := [] ++ [holeEntry (P0 ++ [a]) nid0 j0 c0], errs := [] } (ch.take j)
      (c :: ch.drop (j + 1)) 0 hpass
    rw [← hsplit, hlen, Nat.zero_add] at hsk
    rw [hsk]
    simpa using hr

end Pyx12Verif.WalkerGenW
