/-
C06, last sentence — the envelope hypothesis of `Doc.doc_accepts_generated_consistent` for the written 997.

The acknowledgement `Ack.ack997 fixed s p`, seen through the reader's segment views (`Pipeline.viewOf` of `toSeg`), is the
flattening of ONE interchange with ONE group (`ackInterchange`) that is `Consistent` and in C04's domain:

  `toSeg_st` … `toSeg_iea`      the reader's `Segment` for the written ST / SE / GE / IEA lines, explicitly
  `view_st` … `view_isa`        `Pipeline.viewOf d997 (toSeg x)` for each kind of line; every other line (AK1 … AK9) has the
                                view `bview x = ⟨id, none, none, _⟩` whatever its elements (`view_plain`)
  `views_blocks`                the set blocks are the flattening of `setsOf`
  `setOf_consistent`, `setOf_dom`, `setsOf_nodup`   SE01 = body + 2 read back as a number, no HL / LX / envelope id in a
                                body, ST02 pairwise different
  `ack_env_consistent`          the statement
-/
import Pyx12Verif.Proofs.C06RevalEnvAux

namespace Pyx12Verif.C06R
open Pyx12Verif Pyx12Verif.Ack Pyx12Verif.C06
open Pyx12Verif.ErrTree Pyx12Verif.C05

/-! ### the reader's `Segment` for each written line -/

theorem toSeg_id (x : PSeg) : (toSeg x).id = x.id := by
  unfold toSeg asSeg SegText.normSeg
  split <;> rfl

theorem toSeg_of_ne (x : PSeg) (h : x.id ≠ isaId) : toSeg x = ⟨x.id, SegText.normElems x.elems⟩ := by
  unfold toSeg asSeg SegText.normSeg
  rw [if_neg h]

theorem toSeg_mk (id : Str) (es : List (List Str)) (h : id ≠ isaId) :
    toSeg ⟨id, es⟩ = ⟨id, SegText.normElems es⟩ := toSeg_of_ne ⟨id, es⟩ h

theorem seSeg997_eq (c n : Nat) : seSeg997 c n = { id := sSE, elems := [[natStr c], [fmt04 n]] } := by
  simp [seSeg997, bare, PSeg.append, splitOn_no_sep ':' _ (natStr_no c ':' (by simp)),
    splitOn_no_sep ':' _ (fmt04_no n ':' (by simp))]

theorem toSeg_st (n : Nat) : toSeg (stSeg997 n) = ⟨sST, [[['9', '9', '7']], [fmt04 n]]⟩ := by
  rw [stSeg997_eq, toSeg_mk _ _ (by decide)]
  simp only [normElems_pair _ _ (fmt04_ne_nil n)]

theorem toSeg_se (c n : Nat) : toSeg (seSeg997 c n) = ⟨sSE, [[natStr c], [fmt04 n]]⟩ := by
  rw [seSeg997_eq, toSeg_mk _ _ (by decide)]
  simp only [normElems_pair _ _ (fmt04_ne_nil n)]

theorem toSeg_ge (n : Nat) (gs : PSeg) (v : Str) (hv : gs.getValue 5 = some v) (hs : Safe v) (hne : v ≠ []) :
    toSeg (geSeg997 n gs) = ⟨sGE, [[natStr n], [v]]⟩ := by
  rw [geSeg997_eq n gs v hv hs, toSeg_mk _ _ (by decide)]
  simp only [normElems_pair _ _ hne]

theorem toSeg_iea (p : Params) (hs : Safe (isaCtl p)) (hne : isaCtl p ≠ []) :
    toSeg (ieaSeg997 p) = ⟨sIEA, [[natStr 1], [isaCtl p]]⟩ := by
  rw [ieaSeg997_eq p hs, toSeg_mk _ _ (by decide)]
  simp only [normElems_pair _ _ hne]

/-! ### the reader's view of each written line -/

/-- view of a line whose identifier the reader's envelope bookkeeping does not know -/
def bview (x : PSeg) : Envelope.SegView := ⟨x.id, none, none, (toSeg x).elems.length == 16⟩

theorem view_plain (x : PSeg) (h : Plain x.id) : Pipeline.viewOf d997 (toSeg x) = some (bview x) := by
  rw [viewOf_plain d997 (toSeg x) (by rw [toSeg_id]; exact h), toSeg_id]
  rfl

theorem view_st (n : Nat) : Pipeline.viewOf d997 (toSeg (stSeg997 n)) = some (Envelope.mkST (some (fmt04 n))) := by
  rw [toSeg_st]
  exact viewOf_at d997 sST [[['9', '9', '7']], [fmt04 n]] 1 (fmt04 n) (by decide) (by decide) rfl

theorem view_se (c n : Nat) :
    Pipeline.viewOf d997 (toSeg (seSeg997 c n)) = some (Envelope.mkSE (some (natStr c)) (some (fmt04 n))) := by
  rw [toSeg_se]
  exact viewOf_pair d997 sSE _ _ (Or.inr (Or.inr rfl))

theorem view_ge (n : Nat) (gs : PSeg) (v : Str) (hv : gs.getValue 5 = some v) (hs : Safe v) (hne : v ≠ []) :
    Pipeline.viewOf d997 (toSeg (geSeg997 n gs)) = some (Envelope.mkGE (some (natStr n)) (some v)) := by
  rw [toSeg_ge n gs v hv hs hne]
  exact viewOf_pair d997 sGE _ _ (Or.inr (Or.inl rfl))

theorem view_iea (p : Params) (hs : Safe (isaCtl p)) (hne : isaCtl p ≠ []) :
    Pipeline.viewOf d997 (toSeg (ieaSeg997 p)) = some (Envelope.mkIEA (some (natStr 1)) (some (isaCtl p))) := by
  rw [toSeg_iea p hs hne]
  exact viewOf_pair d997 sIEA _ _ (Or.inl rfl)

/-! ### GS and ISA -/

/-- the GS of the repaired visitor: eight elements, the sixth the echoed GS06, the last `004010` -/
theorem gs997_shape (a : Isa) (g : Gs) (p : Params) (gs : PSeg) (h : gsSeg997 fixed a g p = some gs) :
    ∃ v pre, g.gs06 = some v ∧ gs.elems = pre ++ [[v004010]] ∧ pre.length = 7 ∧ pre[5]? = some (splitOn ':' v) := by
  unfold gsSeg997 at h
  obtain ⟨y8, w8, k8, e8, q8⟩ := optAppend_some _ _ _ h
  obtain ⟨y7, w7, k7, _, q7⟩ := optAppend_some _ _ _ k8
  obtain ⟨y6, w6, k6, e6, q6⟩ := optAppend_some _ _ _ k7
  obtain ⟨y5, w5, k5, _, q5⟩ := optAppend_some _ _ _ k6
  obtain ⟨y4, w4, k4, _, q4⟩ := optAppend_some _ _ _ k5
  obtain ⟨y3, w3, k3, _, q3⟩ := optAppend_some _ _ _ k4
  obtain ⟨y2, w2, k2, _, q2⟩ := optAppend_some _ _ _ k3
  obtain ⟨y1, w1, k1, _, q1⟩ := optAppend_some _ _ _ k2
  simp only [Option.some.injEq, fixed] at k1 e8
  simp only [Bool.false_eq_true, if_false, Option.some.injEq] at e8
  subst q8 q7 q6 q5 q4 q3 q2 q1 k1 e8
  have h0 : splitOn ':' v004010 = [v004010] := by decide
  refine ⟨w6, [splitOn ':' w1, splitOn ':' w2, splitOn ':' w3, splitOn ':' w4, splitOn ':' w5, splitOn ':' w6,
    splitOn ':' w7], e6, ?_, rfl, rfl⟩
  simp [bare, h0]

theorem isa997_shape (a : Isa) (p : Params) (isa : PSeg) (h : isaSeg997 a p = some isa) :
    isa.elems.length = 16 ∧ isa.elems[12]? = some (splitOn ':' (isaCtl p)) := by
  refine ⟨?_, isa997_ctl a p isa h⟩
  unfold isaSeg997 at h
  obtain ⟨y12, w12, k12, _, q12⟩ := optAppend_some _ _ _ h
  obtain ⟨y11, w11, k11, _, q11⟩ := optAppend_some _ _ _ k12
  obtain ⟨y10, w10, k10, _, q10⟩ := optAppend_some _ _ _ k11
  obtain ⟨y9, w9, k9, _, q9⟩ := optAppend_some _ _ _ k10
  obtain ⟨y8, w8, k8, _, q8⟩ := optAppend_some _ _ _ k9
  obtain ⟨y7, w7, k7, _, q7⟩ := optAppend_some _ _ _ k8
  obtain ⟨y6, w6, k6, _, q6⟩ := optAppend_some _ _ _ k7
  obtain ⟨y5, w5, k5, _, q5⟩ := optAppend_some _ _ _ k6
  obtain ⟨y4, w4, k4, _, q4⟩ := optAppend_some _ _ _ k5
  obtain ⟨y3, w3, k3, _, q3⟩ := optAppend_some _ _ _ k4
  obtain ⟨y2, w2, k2, _, q2⟩ := optAppend_some _ _ _ k3
  obtain ⟨y1, w1, k1, _, q1⟩ := optAppend_some _ _ _ k2
  simp only [Option.some.injEq] at k1
  subst q12 q11 q10 q9 q8 q7 q6 q5 q4 q3 q2 q1 k1
  have hl := isaHead_elems.1
  simp [hl]

theorem view_gs (a : Isa) (g : Gs) (p : Params) (gs : PSeg) (h : gsSeg997 fixed a g p = some gs) (v : Str)
    (hv : g.gs06 = some v) (hs : Safe v) :
    Pipeline.viewOf d997 (toSeg gs) = some (Envelope.mkGS (some v)) := by
  obtain ⟨v', pre, hv', he, hl, h5⟩ := gs997_shape a g p gs h
  have : v' = v := by rw [hv] at hv'; exact (Option.some.inj hv').symm
  subst this
  have hid := gsSeg997_id fixed a g p gs h
  have hne : gs.id ≠ isaId := by rw [hid]; decide
  rw [toSeg_of_ne gs hne, he, normElems_snoc pre [v004010] (by decide), hid]
  have hlen : ((pre ++ [[v004010]]).map SegText.normComp).length = 8 := by simp [hl]
  have h5' : ((pre ++ [[v004010]]).map SegText.normComp)[5]? = some [v'] := by
    rw [List.getElem?_map, List.getElem?_append_left (by omega), h5, splitOn_no_sep ':' v' hs.2.1]
    simp [SegText.normComp_single]
  have := viewOf_at d997 sGS ((pre ++ [[v004010]]).map SegText.normComp) 5 v' (by decide) (by decide) h5'
  rw [this]
  simp only [hlen]
  rfl

theorem view_isa (a : Isa) (p : Params) (isa : PSeg) (h : isaSeg997 a p = some isa) (hs : Safe (isaCtl p)) :
    Pipeline.viewOf d997 (toSeg isa) = some (Envelope.mkISA (some (isaCtl p))) := by
  obtain ⟨hl, h12⟩ := isa997_shape a p isa h
  have hid := isaSeg997_id a p isa h
  have e : toSeg isa = ⟨isaId, (isa.elems.take 15 ++ [[[':']]]).map SegText.normComp⟩ := by
    unfold toSeg asSeg SegText.normSeg
    rw [if_pos hid]
    simp only [normElems_snoc (isa.elems.take 15) [[':']] (by decide), hid]
  rw [e]
  have hlen : ((isa.elems.take 15 ++ [[[':']]]).map SegText.normComp).length = 16 := by simp [hl]
  have h12' : ((isa.elems.take 15 ++ [[[':']]]).map SegText.normComp)[12]? = some [isaCtl p] := by
    rw [List.getElem?_map, List.getElem?_append_left (by simp [hl]), List.getElem?_take_of_lt (by omega), h12,
      splitOn_no_sep ':' _ hs.2.1]
    simp [SegText.normComp_single]
  have := viewOf_at d997 isaId ((isa.elems.take 15 ++ [[[':']]]).map SegText.normComp) 12 (isaCtl p)
    (by decide) (by decide) h12'
  rw [this]
  simp only [hlen]
  rfl

/-! ### the structured document -/

/-- the `k`-th set of the acknowledgement: the block written for group `g` -/
def setOf (k : Nat) (g : ErrTree.Gs) : Envelope.TSet :=
  { stCtl := some (fmt04 k),
    body := (ak1Seg997 g :: ((gsLines fixed g).segs ++ [ak9Seg997 g])).map bview,
    seCnt := some (natStr ((gsLines fixed g).segs.length + 4)),
    seCtl := some (fmt04 k) }

def setsOf (n : Nat) : List ErrTree.Gs → List Envelope.TSet
  | [] => []
  | g :: r => setOf (n + 1) g :: setsOf (n + 1) r

/-- the structured group / interchange the written 997 is the flattening of: `v` = the echoed GS06 -/
def ackGroup (s : ErrTree.State) (v : Str) : Envelope.Group :=
  ⟨some v, setsOf 0 (allGs s.tree), some (natStr (allGs s.tree).length), some v⟩

def ackInterchange (s : ErrTree.State) (p : Params) (v : Str) : Envelope.Interchange :=
  ⟨some (isaCtl p), [ackGroup s v], some (natStr 1), some (isaCtl p)⟩

theorem setsOf_length (n : Nat) (l : List ErrTree.Gs) : (setsOf n l).length = l.length := by
  induction l generalizing n with
  | nil => rfl
  | cons g r ih => simp [setsOf, ih]

theorem setsOf_ctls (n : Nat) (l : List ErrTree.Gs) : (setsOf n l).map (·.stCtl) = ctlList n l.length := by
  induction l generalizing n with
  | nil => rfl
  | cons g r ih => simp [setsOf, ctlList, ih, setOf]

theorem setsOf_nodup (n : Nat) (l : List ErrTree.Gs) : ((setsOf n l).map (·.stCtl)).Nodup := by
  rw [setsOf_ctls]
  exact ctlList_pairwise n l.length

theorem setsOf_mem (n : Nat) (l : List ErrTree.Gs) (t : Envelope.TSet) (h : t ∈ setsOf n l) :
    ∃ k, ∃ g ∈ l, t = setOf k g := by
  induction l generalizing n with
  | nil => simp [setsOf] at h
  | cons g r ih =>
    simp only [setsOf, List.mem_cons] at h
    rcases h with rfl | h
    · exact ⟨n + 1, g, by simp, rfl⟩
    · obtain ⟨k, g', hg', e⟩ := ih (n + 1) h
      exact ⟨k, g', by simp [hg'], e⟩

/-! ### the body lines: AK1 … AK9 -/

theorem plain_ak1 (g : ErrTree.Gs) : Plain (ak1Seg997 g).id := by
  have : (ak1Seg997 g).id = sAK1 := mkSeg_starJoin_id _ _ _ (by decide)
  rw [this]; decide

theorem plain_ak9 (g : ErrTree.Gs) : Plain (ak9Seg997 g).id := by
  rw [ak9Seg997_id]; decide

theorem plain_lines (g : ErrTree.Gs) (hg : GsOk fixed g) : ∀ x ∈ (gsLines fixed g).segs, Plain x.id := by
  intro x hx
  rcases gsLines_ids fixed g.children hg x hx with h | h | h | h <;> (rw [h]; decide)

theorem plain_body (k : Nat) (g : ErrTree.Gs) (hg : GsOk fixed g) : ∀ v ∈ (setOf k g).body, Plain v.id := by
  intro v hv
  simp only [setOf, List.map_cons, List.map_append, List.map_nil, List.mem_cons, List.mem_append, List.mem_map,
    List.not_mem_nil, or_false] at hv
  rcases hv with rfl | ⟨x, hx, rfl⟩ | rfl
  · exact plain_ak1 g
  · exact plain_lines g hg x hx
  · exact plain_ak9 g

theorem plain_not_env {id : Str} (h : Plain id) :
    Envelope.isEnvId id = false ∧ id ≠ Envelope.idHL ∧ id ≠ Envelope.idLX := by
  obtain ⟨h1, h2, h3, h4, h5, h6, h7, h8⟩ := h
  refine ⟨?_, h7, h8⟩
  simp [Envelope.isEnvId, h1, h2, h3, h4, h5, h6]

theorem setOf_dom (chk : Bool) (k : Nat) (g : ErrTree.Gs) (hg : GsOk fixed g) : Envelope.BodyDom chk (setOf k g).body := by
  refine ⟨fun v hv => (plain_not_env (plain_body k g hg v hv)).1, ?_⟩
  intro _ a v b e hv
  have hm : v ∈ (setOf k g).body := by rw [e]; simp
  exact absurd hv (plain_not_env (plain_body k g hg v hm)).2.2

theorem setOf_consistent (chk : Bool) (k : Nat) (g : ErrTree.Gs) (hg : GsOk fixed g)
    (hsz : (gsLines fixed g).segs.length + 4 < 10 ^ 10) : Envelope.SetConsistent chk (setOf k g) := by
  refine ⟨rfl, ?_, ?_⟩
  · have hl : (setOf k g).body.length + 2 = (gsLines fixed g).segs.length + 4 := by
      simp [setOf]
    rw [hl]
    exact fieldInt_natStr _ hsz
  · intro pre v post e
    have hm : v ∈ (setOf k g).body := by rw [e]; simp
    have hp := plain_not_env (plain_body k g hg v hm)
    exact ⟨fun h => absurd h hp.2.1, fun _ h => absurd h hp.2.2⟩

/-! ### the set blocks are the flattening of `setsOf` -/

theorem views_block (k : Nat) (g : ErrTree.Gs) (hg : GsOk fixed g) :
    Doc.ViewsAre d997 ((block997 fixed k g).map toSeg) (Envelope.flattenSet (setOf k g)) := by
  have e1 : (block997 fixed k g).map toSeg = toSeg (stSeg997 k) :: toSeg (ak1Seg997 g) ::
      ((gsLines fixed g).segs.map toSeg ++
        [toSeg (ak9Seg997 g), toSeg (seSeg997 ((gsLines fixed g).segs.length + 4) k)]) := by
    simp [block997]
  have e2 : Envelope.flattenSet (setOf k g) = Envelope.mkST (some (fmt04 k)) :: bview (ak1Seg997 g) ::
      ((gsLines fixed g).segs.map bview ++
        [bview (ak9Seg997 g), Envelope.mkSE (some (natStr ((gsLines fixed g).segs.length + 4))) (some (fmt04 k))]) := by
    simp [Envelope.flattenSet, setOf]
  rw [e1, e2]
  refine ⟨view_st k, view_plain _ (plain_ak1 g), ?_⟩
  apply viewsAre_append
  · exact viewsAre_map d997 toSeg bview _ (fun x hx => view_plain x (plain_lines g hg x hx))
  · exact ⟨view_plain _ (plain_ak9 g), view_se _ _, trivial⟩

theorem views_blocks (n : Nat) (l : List ErrTree.Gs) (hl : ∀ g ∈ l, GsOk fixed g) :
    Doc.ViewsAre d997 ((blocks997 fixed n l).map toSeg) (Envelope.flattenSets (setsOf n l)) := by
  induction l generalizing n with
  | nil => trivial
  | cons g r ih =>
    simp only [blocks997, setsOf, Envelope.flattenSets, List.map_append]
    exact viewsAre_append d997 _ _ _ _ (views_block (n + 1) g (hl g (by simp)))
      (ih (n + 1) (fun x hx => hl x (List.mem_cons_of_mem _ hx)))

theorem bodyOf_fst (rest : List PSeg) : (bodyOf rest).map (·.1) = rest.map toSeg := by
  simp [bodyOf, List.map_map, Function.comp_def]

/-! ### the statement -/

set_option linter.unusedVariables false in
/-- **The written 997 is, for the reader, a consistent one-group interchange.**  `isa :: gs :: rest` = the lines of a complete
    acknowledgement (`Complete`), with delimiter-free control numbers (`TrailerSafe`) that are not empty (`hctl`, `hgs06`: an
    empty ISA13 / GS06 echo is not printed in the two-element trailers, which then carry no control number at all) and
    counters within `SizesFit`.  Seen through `Pipeline.viewOf` with the 997's own delimiters, the lines are the flattening
    of `ackInterchange` — one interchange, one group, one set per acknowledged group — which lies in C04's domain and is
    `Consistent` for either value of `check_837_lx`.  (`hclean` is not needed: no view of a written line depends on the
    echoed element values other than ISA13 / GS06, which `TrailerSafe` covers.) -/
theorem ack_env_consistent (s : ErrTree.State) (p : Params) (hC : Complete s) (hsafe : TrailerSafe s p)
    (hctl : isaCtl p ≠ []) (hgs06 : ∀ g, curGsNode s = some g → g.gs06 ≠ some [])
    (hsz : SizesFit s) (hclean : EchoSafe s p) (chk : Bool) (isa gs : PSeg) (rest : List PSeg)
    (hout : (ack997 fixed s p).out = isa :: gs :: rest) :
    ∃ (i : Envelope.Interchange) (grp : Envelope.Group), i.groups = [grp] ∧
      Doc.ViewsAre d997 (toSeg isa :: toSeg gs :: (bodyOf rest).map (·.1)) (Envelope.flatten [i]) ∧
      Envelope.InDomain chk [i] ∧ Envelope.Consistent chk [i] ∧
      (∃ v, (∃ g, curGsNode s = some g ∧ g.gs06 = some v) ∧ i = ackInterchange s p v ∧ grp = ackGroup s v) := by
  obtain ⟨a, g, isa', gs', ha, hg, hi, hgs, hok, _, hout'⟩ := ack997_ok fixed s p (ack_complete s p hC)
  -- no TA1
  have hta1 : (ta1Lines (getIsaErrors997 a) a).segs = [] := by
    obtain ⟨a', ha', _, _, _, _, _, _, _, hta⟩ := hC.isa
    have : a' = a := by rw [ha] at ha'; exact (Option.some.inj ha').symm
    subst this
    have : ta1Lines (getIsaErrors997 a') a' = Lines.ok [] := by simp [ta1Lines, c1, hta]
    rw [this]; rfl
  rw [hout', hta1] at hout
  simp only [List.cons_append, List.nil_append, List.append_nil, List.cons.injEq] at hout
  obtain ⟨e1, e2, hrest⟩ := hout
  subst e1 e2
  -- the echoed control numbers
  obtain ⟨v, hv, _, hv5⟩ := gs997_ctl fixed a g p gs' hgs
  have hvs : Safe v := hsafe.2 g hg v hv
  have hps : Safe (isaCtl p) := hsafe.1
  have hvne : v ≠ [] := fun e => hgs06 g hg (by rw [hv, e])
  have hgs5 : gs'.getValue 5 = some v := by
    simp [PSeg.getValue, hv5, fmtComp_split_safe _ hvs.2.1]
  refine ⟨ackInterchange s p v, ackGroup s v, rfl, ?_, ?_, ?_, v, ⟨g, hg, hv⟩, rfl, rfl⟩
  · -- the views
    have hflat : Envelope.flatten [ackInterchange s p v] =
        Envelope.mkISA (some (isaCtl p)) :: Envelope.mkGS (some v) ::
          (Envelope.flattenSets (setsOf 0 (allGs s.tree)) ++
            [Envelope.mkGE (some (natStr (allGs s.tree).length)) (some v),
             Envelope.mkIEA (some (natStr 1)) (some (isaCtl p))]) := by
      simp [Envelope.flatten, Envelope.flattenInterchange, ackInterchange, ackGroup, Envelope.flattenGroups,
        Envelope.flattenGroup]
    have hrest' : rest = blocks997 fixed 0 (allGs s.tree) ++ [geSeg997 (allGs s.tree).length gs', ieaSeg997 p] := by
      rw [← hrest]; simp
    rw [hflat, bodyOf_fst, hrest']
    refine ⟨view_isa a p isa' hi hps, view_gs a g p gs' hgs v hv hvs, ?_⟩
    rw [List.map_append]
    apply viewsAre_append
    · exact views_blocks 0 (allGs s.tree) hok
    · exact ⟨view_ge _ gs' v hgs5 hvs hvne, view_iea p hps hctl, trivial⟩
  · -- C04's domain
    intro i hi'
    simp only [List.mem_singleton] at hi'
    subst hi'
    intro grp hgrp
    simp only [ackInterchange, List.mem_singleton] at hgrp
    subst hgrp
    intro t ht
    obtain ⟨k, g', hg', rfl⟩ := setsOf_mem 0 _ t ht
    exact setOf_dom chk k g' (hok g' hg')
  · -- consistency
    refine ⟨by simp, ?_⟩
    intro i hi'
    simp only [List.mem_singleton] at hi'
    subst hi'
    refine ⟨rfl, fieldInt_natStr 1 (by decide), by simp [ackInterchange], ?_⟩
    intro grp hgrp
    simp only [ackInterchange, List.mem_singleton] at hgrp
    subst hgrp
    refine ⟨rfl, ?_, setsOf_nodup 0 _, ?_⟩
    · show Envelope.fieldInt (some (natStr (allGs s.tree).length)) = _
      rw [show (ackGroup s v).sets.length = (allGs s.tree).length from setsOf_length 0 _]
      exact fieldInt_natStr _ (Nat.lt_trans hsz.groups (by decide))
    · intro t ht
      obtain ⟨k, g', hg', rfl⟩ := setsOf_mem 0 _ t ht
      exact setOf_consistent chk k g' (hok g' hg') (hsz.segs g' hg')

end Pyx12Verif.C06R
