import Pyx12Verif.Proofs.C06RevalDefs
import Pyx12Verif.Proofs.WriterHeader
namespace Pyx12Verif.C06R
open Pyx12Verif Pyx12Verif.Ack Pyx12Verif.C06

/-! ### the visitor's `format` is the `format` of the text layer -/

theorem joinWith_eq (sep : Char) : ∀ l : List Str, Ack.joinWith sep l = SegText.joinWith sep l
  | [] => rfl
  | [_] => rfl
  | x :: y :: r => by
    simp only [Ack.joinWith, SegText.joinWith, joinWith_eq sep (y :: r)]

theorem trimTrail_cons {α : Type} (p : α → Bool) (x : α) (r : List α) :
    SegText.trimTrail p (x :: r) =
      if (SegText.trimTrail p r).isEmpty && p x then [] else x :: SegText.trimTrail p r := by
  unfold SegText.trimTrail
  rw [List.reverse_cons, List.dropWhile_append]
  by_cases h : (List.dropWhile p r.reverse).isEmpty
  · have h' : List.dropWhile p r.reverse = [] := List.isEmpty_iff.1 h
    by_cases hx : p x <;> simp [List.dropWhile, hx, h']
  · simp [h]

theorem trimR_eq : ∀ c : List Str, trimR c = SegText.trimTrail SegText.isEmptyVal c
  | [] => rfl
  | x :: r => by
    rw [trimR, trimCons, trimTrail_cons, trimR_eq r]
    rfl

theorem compEmpty_eq (c : Comp) : compEmpty c = SegText.isEmptyComp c := rfl

theorem trimRC_eq : ∀ es : List Comp, trimRC es = SegText.trimTrail SegText.isEmptyComp es
  | [] => rfl
  | x :: r => by
    rw [trimRC, trimConsC, trimTrail_cons, trimRC_eq r]
    rfl

/-- `Composite.format` of the visitor model = the text layer's, for every composite (the empty one included) -/
theorem fmtComp_eq (c : Comp) : fmtComp c = SegText.joinWith ':' (SegText.normComp c) := by
  unfold fmtComp SegText.normComp
  rw [trimR_eq, joinWith_eq, joinWith_eq]
  by_cases ht : SegText.trimTrail SegText.isEmptyVal c = []
  · simp only [ht, List.isEmpty_nil, if_true]
    cases c with
    | nil => rfl
    | cons v vs =>
      have h1 : (v :: vs).reverse.dropWhile SegText.isEmptyVal = [] := by
        have := congrArg List.reverse ht
        simpa [SegText.trimTrail] using this
      have h2 := SegText.dropWhile_nil_all h1 v (by simp)
      have hv : v = [] := by simpa [SegText.isEmptyVal] using h2
      subst hv
      rfl
  · have : (SegText.trimTrail SegText.isEmptyVal c).isEmpty = false := by
      cases h : SegText.trimTrail SegText.isEmptyVal c with
      | nil => exact absurd h ht
      | cons _ _ => rfl
    simp only [this, ht, if_false, Bool.false_eq_true]

theorem fmtFields_eq (x : PSeg) :
    fmtFields x = (SegText.keptSpec x.elems).map (fun c => SegText.joinWith ':' (SegText.normComp c)) := by
  have hf : fmtComp = fun c => SegText.joinWith ':' (SegText.normComp c) := funext fmtComp_eq
  unfold fmtFields SegText.keptSpec
  rw [trimRC_eq, hf]
  by_cases ht : SegText.trimTrail SegText.isEmptyComp x.elems = []
  · simp only [ht, List.isEmpty_nil, if_true]
  · have : (SegText.trimTrail SegText.isEmptyComp x.elems).isEmpty = false := by
      cases h : SegText.trimTrail SegText.isEmptyComp x.elems with
      | nil => exact absurd h ht
      | cons _ _ => rfl
    simp only [this, ht, if_false, Bool.false_eq_true]

/-- **`Segment.format('~', '*', ':')` of the visitor model is the text layer's body followed by the terminator** (every
segment, no hypothesis) -/
theorem format_eq_body (x : PSeg) : x.format = SegText.bodyOf d997 ⟨x.id, x.elems⟩ ++ ['~'] := by
  unfold PSeg.format SegText.bodyOf
  rw [fmtFields_eq, joinWith_eq]
  simp [d997]

/-! ### the written ISA -/

/-- the ISA object `visit_root_pre` builds from 15 plain values: each `append(v)` gives the one-component element `[v]`, the final `append(':')` the two empty components -/
def isaOf (vals15 : List Str) : PSeg := ⟨isaId, vals15.map (fun v => [v]) ++ [[[], []]]⟩

/-- a segment identifier that cannot be mistaken by the tokenizer -/
def IdOk (id : Str) : Prop := '~' ∉ id ∧ '*' ∉ id ∧ id ≠ isaId ∧ ∀ c, id.head? = some c → c ≠ '\n' ∧ c ≠ '\r' ∧ c ≠ ' '

/-- the repetition separator the reader takes from a 5010 header: the character of ISA11 -/
def repChar (vals15 : List Str) : Char := ((vals15[10]?).getD []).headD 'U'

theorem trimTrail_snoc_true {α : Type} (p : α → Bool) (l : List α) (y : α) (hy : p y = true) :
    SegText.trimTrail p (l ++ [y]) = SegText.trimTrail p l := by
  simp [SegText.trimTrail, hy]

theorem vals15_shape {vals15 : List Str}
    (hw : vals15.map List.length = [2, 10, 2, 10, 2, 15, 2, 15, 6, 4, 1, 5, 9, 1, 1]) :
    ∃ vs k o, vals15 = vs ++ [[o]] ∧ vals15[10]? = some [k] := by
  have hl : vals15.length = 15 := by simpa using congrArg List.length hw
  match vals15, hl, hw with
  | [v1, v2, v3, v4, v5, v6, v7, v8, v9, v10, v11, v12, v13, v14, v15], _, hw =>
    simp only [List.map_cons, List.map_nil, List.cons.injEq, and_true] at hw
    obtain ⟨k, rfl⟩ := Writer.len1 hw.2.2.2.2.2.2.2.2.2.2.1
    obtain ⟨o, rfl⟩ := Writer.len1 hw.2.2.2.2.2.2.2.2.2.2.2.2.2.2
    exact ⟨[v1, v2, v3, v4, v5, v6, v7, v8, v9, v10, [k], v12, v13, v14], k, o, rfl, rfl⟩

/-- the element list of the ISA as the text carries it: the 15 values and the component separator -/
theorem asSeg_isaOf (vals15 : List Str) (hl : vals15.length = 15) :
    asSeg (isaOf vals15) = ⟨isaId, (vals15 ++ [[':']]).map (fun v => [v])⟩ := by
  unfold asSeg isaOf
  simp only [if_true, List.map_append, List.map_cons, List.map_nil]
  rw [List.take_left' (by simpa using hl)]

/-- what `_write` sends for the ISA (tail replaced by `*:~`) is the text layer's print of `asSeg` of it -/
theorem render_isa (vs : List Str) (o : Char) :
    render997 (isaOf (vs ++ [[o]])) =
      SegText.bodyOf d997 ⟨isaId, ((vs ++ [[o]]) ++ [[':']]).map (fun v => [v])⟩ ++ ['~'] := by
  have hk1 : SegText.keptSpec ((vs ++ [[o]]).map (fun v => [v]) ++ [[[], []]]) = (vs ++ [[o]]).map (fun v => [v]) := by
    have ht : SegText.trimTrail SegText.isEmptyComp ((vs ++ [[o]]).map (fun v => [v]) ++ [[[], []]]) =
        (vs ++ [[o]]).map (fun v => [v]) := by
      rw [trimTrail_snoc_true _ _ _ (by decide)]
      simp [SegText.trimTrail, SegText.isEmptyComp, SegText.isEmptyVal]
    unfold SegText.keptSpec
    rw [ht]
    simp
  have hk2 : SegText.keptSpec (((vs ++ [[o]]) ++ [[':']]).map (fun v => [v])) = ((vs ++ [[o]]) ++ [[':']]).map (fun v => [v]) := by
    have := Writer.keptSpec_last ((vs ++ [[o]]).map (fun v => [v])) [[':']] (Writer.isEmptyComp_single ':')
    simpa using this
  have hid : (isaOf (vs ++ [[o]])).id = isaId := rfl
  unfold render997
  rw [if_pos hid, format_eq_body, List.dropLast_concat]
  unfold SegText.bodyOf
  simp only [isaOf, hk1, hk2]
  rw [← joinWith_eq, ← joinWith_eq]
  have hw : vs ++ [[o]] ≠ [] := by simp
  generalize vs ++ [[o]] = w at hw ⊢
  simp only [List.map_append, List.map_cons, List.map_nil]
  rw [joinWith_concat _ _ _ (by simpa using hw)]
  simp [d997, SegText.normComp_single, SegText.joinWith]

theorem render_other (x : PSeg) (h : x.id ≠ isaId) : render997 x = SegText.bodyOf d997 (asSeg x) ++ ['~'] := by
  unfold render997 asSeg
  rw [if_neg h, if_neg h, format_eq_body]

/-- the written text is the text layer's encoding of the `asSeg`s with a line feed behind every terminator -/
theorem renderText_eq (out : List PSeg) (h : ∀ x ∈ out, render997 x = SegText.bodyOf d997 (asSeg x) ++ ['~']) :
    renderText out = C01.encText d997 ['\n'] (out.map asSeg) := by
  unfold renderText C01.encText
  rw [List.map_map]
  congr 1
  apply List.map_congr_left
  intro x hx
  simp [h x hx, d997]

/-! ### cleanliness -/

theorem clean_other (x : PSeg) (hid : IdOk x.id) (hc : PSegClean x) : SegText.Clean d997 (asSeg x) := by
  obtain ⟨h1, h2, h3, h4⟩ := hid
  have has : asSeg x = ⟨x.id, x.elems⟩ := by unfold asSeg; rw [if_neg h3]
  rw [has]
  refine ⟨⟨h1, h2, ?_⟩, ?_⟩
  · intro c hm
    refine ⟨(hc c hm).1, fun e => absurd e h3, ?_⟩
    intro v hv
    exact ⟨((hc c hm).2 v hv).1, ((hc c hm).2 v hv).2.1, fun _ => ((hc c hm).2 v hv).2.2⟩
  · intro c hcd
    cases hx : x.id with
    | nil =>
      simp only [hx, List.nil_append, List.head?_cons, Option.some.injEq] at hcd
      subst hcd
      decide
    | cons a r =>
      simp only [hx, List.cons_append, List.head?_cons, Option.some.injEq] at hcd
      subst hcd
      exact h4 a (by rw [hx]; rfl)

theorem clean_isa (vals : List Str) (h : ∀ v ∈ vals, '~' ∉ v ∧ '*' ∉ v) :
    SegText.Clean d997 ⟨isaId, vals.map (fun v => [v])⟩ := by
  refine ⟨⟨by show '~' ∉ isaId; decide, by show '*' ∉ isaId; decide, ?_⟩, ?_⟩
  · intro c hm
    simp only [List.mem_map] at hm
    obtain ⟨v, hv, rfl⟩ := hm
    refine ⟨by simp, fun _ => rfl, ?_⟩
    intro w hw
    simp only [List.mem_singleton] at hw
    subst hw
    exact ⟨(h w hv).1, (h w hv).2, fun e => absurd rfl e⟩
  · intro c hcd
    simp only [isaId, List.cons_append, List.head?_cons, Option.some.injEq] at hcd
    subst hcd
    decide

/-! ### no line-level report -/

theorem lineReports_nil (s : Doc.Seg) (h : ∃ c ∈ s.elems, SegText.isEmptyComp c = false) : C12.lineReports s = [] := by
  obtain ⟨c, hc, he⟩ := h
  have hne : SegText.trimTrail SegText.isEmptyComp s.elems ≠ [] := by
    intro h0
    have h1 : s.elems.reverse.dropWhile SegText.isEmptyComp = [] := by
      have := congrArg List.reverse h0
      simpa [SegText.trimTrail] using this
    have := SegText.dropWhile_nil_all h1 c (by simp [hc])
    rw [he] at this
    cases this
  have hk : SegText.keptSpec s.elems = SegText.trimTrail SegText.isEmptyComp s.elems := by
    simp [SegText.keptSpec, hne]
  unfold C12.lineReports C12.trailEmpty
  rw [hk]
  cases hl : (SegText.trimTrail SegText.isEmptyComp s.elems).getLast? with
  | none =>
    rw [List.getLast?_eq_none_iff] at hl
    exact absurd hl hne
  | some k =>
    have hkE : SegText.isEmptyComp k = false := by
      unfold SegText.trimTrail at hl
      rw [List.getLast?_reverse] at hl
      have := List.head?_dropWhile_not SegText.isEmptyComp s.elems.reverse
      rw [hl] at this
      simpa using this
    have hkne : k ≠ [] := by
      intro h
      subst h
      simp [SegText.isEmptyComp] at hkE
    have hn : SegText.normComp k ≠ [[]] := by
      intro hn
      have := SegText.isEmptyComp_normComp k hkne
      rw [hn, hkE] at this
      simp [SegText.isEmptyComp, SegText.isEmptyVal] at this
    simp [hn]

theorem lineReports_other (x : PSeg) (hid : x.id ≠ isaId) (hb : NonBare x) : C12.lineReports (asSeg x) = [] := by
  have has : asSeg x = ⟨x.id, x.elems⟩ := by unfold asSeg; rw [if_neg hid]
  rw [has]
  obtain ⟨c, hc, v, hv, hne⟩ := hb
  refine lineReports_nil _ ⟨c, hc, ?_⟩
  cases hE : SegText.isEmptyComp c with
  | false => rfl
  | true =>
    have := (List.all_eq_true.1 hE) v hv
    cases v with
    | nil => exact absurd rfl hne
    | cons a r => simp [SegText.isEmptyVal] at this

theorem readSpec_quiet : ∀ segs : List Doc.Seg, (∀ s ∈ segs, C12.lineReports s = []) →
    C12.readSpec [] segs = { segs := segs.map (fun s => ([], SegText.normSeg s)), crashed := false, pending := [] }
  | [], _ => rfl
  | s :: r, h => by
    simp only [C12.readSpec, h s (by simp), List.append_nil,
      readSpec_quiet r (fun x hx => h x (List.mem_cons_of_mem _ hx)), SegText.ReadResult.push, List.map_cons]

theorem set_same {α : Type} : ∀ (l : List α) (n : Nat) (x : α), l[n]? = some x → l.set n x = l
  | [], _, _, h => by simp at h
  | a :: r, 0, x, h => by
    simp only [List.getElem?_cons_zero, Option.some.injEq] at h
    simp [h]
  | a :: r, n + 1, x, h => by
    simp only [List.getElem?_cons_succ] at h
    simp [set_same r n x h]

/-! ### the acknowledgement text, read back -/

/-- **the written 997 read by `X12Reader`**: the header declares `~ * :` (and, for 00501, the character of ISA11 as
repetition separator), every written segment comes back in normal form with an empty line-level report, nothing is
pending, nothing crashes -/
theorem read_ack_text (vals15 : List Str) (gs : PSeg) (rest : List PSeg) (icvn : Str)
    (hw : vals15.map List.length = [2, 10, 2, 10, 2, 15, 2, 15, 6, 4, 1, 5, 9, 1, 1])
    (hicvn : vals15[11]? = some icvn) (hver : icvn = Tokenizer.v4010 ∨ icvn = Tokenizer.v5010)
    (hrep : repChar vals15 ≠ ':')
    (hisa : ∀ v ∈ vals15, '~' ∉ v ∧ '*' ∉ v)
    (hids : ∀ x ∈ gs :: rest, IdOk x.id)
    (hclean : ∀ x ∈ gs :: rest, PSegClean x ∧ NonBare x) :
    SegText.readAll { rest := renderText (isaOf vals15 :: gs :: rest), sizes := [] } =
      .ok ⟨'~', '*', ':', if icvn = Tokenizer.v5010 then some (repChar vals15) else none, icvn⟩
        (Doc.readOf (toSeg (isaOf vals15)) (toSeg gs) (bodyOf rest)) := by
  have hl : vals15.length = 15 := by simpa using congrArg List.length hw
  obtain ⟨vs, k, o, hvs, h10⟩ := vals15_shape hw
  have hk : repChar vals15 = k := by simp [repChar, h10]
  have hasI := asSeg_isaOf vals15 hl
  let c : Writer.Cfg := ⟨d997, repChar vals15, ['\n']⟩
  -- the segments as the text carries them
  have hsegs : (isaOf vals15 :: gs :: rest).map asSeg =
      ⟨isaId, (vals15 ++ [[':']]).map (fun v => [v])⟩ :: (gs :: rest).map asSeg := by
    rw [List.map_cons, hasI]
  -- the text
  have hrI : render997 (isaOf vals15) = SegText.bodyOf d997 (asSeg (isaOf vals15)) ++ ['~'] := by
    rw [hasI, hvs]
    exact render_isa vs o
  have htext : renderText (isaOf vals15 :: gs :: rest) = C01.encText d997 ['\n'] ((isaOf vals15 :: gs :: rest).map asSeg) := by
    apply renderText_eq
    intro x hx
    rcases List.mem_cons.1 hx with rfl | hx
    · exact hrI
    · exact render_other x (hids x hx).2.2.1
  -- cleanliness
  have hcl : ∀ s ∈ (isaOf vals15 :: gs :: rest).map asSeg, SegText.Clean d997 s := by
    intro s hs
    rw [hsegs] at hs
    rcases List.mem_cons.1 hs with rfl | hs
    · apply clean_isa
      intro v hv
      rcases List.mem_append.1 hv with hv | hv
      · exact hisa v hv
      · simp only [List.mem_singleton] at hv
        subst hv
        decide
    · obtain ⟨x, hx, rfl⟩ := List.mem_map.1 hs
      exact clean_other x (hids x hx) (hclean x hx).1
  have hwf : ∀ s ∈ (isaOf vals15 :: gs :: rest).map asSeg, ∀ comp ∈ s.elems, comp ≠ [] :=
    fun s hs comp hm => ((hcl s hs).1.2.2 comp hm).1
  have henc := C01.encode_eq d997 ['\n'] _ hwf
  rw [← htext] at henc
  -- the header
  have hw16 : (vals15 ++ [[':']]).map List.length = Writer.isaWidths := by
    rw [List.map_append, hw]; rfl
  have hicvn16 : (vals15 ++ [[':']])[11]? = some icvn := by
    rw [List.getElem?_append_left (by omega)]; exact hicvn
  obtain ⟨itxt, hfmt, hhdr⟩ := Writer.isa_header c ⟨isaId, (vals15 ++ [[':']]).map (fun v => [v])⟩ (vals15 ++ [[':']]) rfl rfl
    hw16 hrep (by show (':' : Char) ≠ '*'; decide) icvn hicvn16 hver
  have hsame : Writer.isaOut c ⟨isaId, (vals15 ++ [[':']]).map (fun v => [v])⟩
      (Writer.valueAt c.d.ele ⟨isaId, (vals15 ++ [[':']]).map (fun v => [v])⟩ 11) =
      ⟨isaId, (vals15 ++ [[':']]).map (fun v => [v])⟩ := by
    have h11 : ((vals15 ++ [[':']]).map (fun v => [v]))[11]? = some [icvn] := by
      rw [List.getElem?_map, hicvn16]; rfl
    have e10 : ((vals15 ++ [[':']]).map (fun v => [v]))[10]? = some [[repChar vals15]] := by
      rw [List.getElem?_map, List.getElem?_append_left (by omega), h10, hk]; rfl
    have e15 : ((vals15 ++ [[':']]).map (fun v => [v]))[15]? = some [[':']] := by
      rw [List.getElem?_map, List.getElem?_append_right (by omega), hl]; rfl
    have s1 : SegText.splitOn c.d.ele [c.d.sub] = [[':']] := by show SegText.splitOn '*' [':'] = [[':']]; decide
    have s2 : SegText.splitOn c.d.sub [c.rep] = [[repChar vals15]] := Writer.splitOn_single_ne hrep
    rw [Writer.valueAt_single_elem _ _ _ _ h11]
    simp only [Writer.isaOut, s1, s2]
    split
    · rw [set_same _ 10 _ e10, set_same _ 15 _ e15]
    · rw [set_same _ 15 _ e15]
  rw [hsame, SegText.formatSeg_eq d997 _ (hwf _ (by rw [hsegs]; simp))] at hfmt
  have hitxt : itxt = SegText.bodyOf d997 ⟨isaId, (vals15 ++ [[':']]).map (fun v => [v])⟩ ++ ['~'] :=
    (Option.some.inj hfmt).symm
  have hmore : renderText (isaOf vals15 :: gs :: rest) = itxt ++ (['\n'] ++ C01.encText d997 ['\n'] ((gs :: rest).map asSeg)) := by
    rw [htext, hsegs, hitxt]
    simp [C01.encText, d997]
  have hlen : Tokenizer.ISA_LEN ≤ itxt.length := by
    unfold Tokenizer.parseHeader at hhdr
    split at hhdr
    · cases hhdr
    · split at hhdr
      · cases hhdr
      · rename_i _ hl'
        have hl'' : (itxt.take Tokenizer.ISA_LEN).length = Tokenizer.ISA_LEN := by simpa using hl'
        rw [List.length_take] at hl''
        omega
  have htake : (renderText (isaOf vals15 :: gs :: rest)).take Tokenizer.ISA_LEN = itxt.take Tokenizer.ISA_LEN := by
    rw [hmore, List.take_append_of_le_length hlen]
  rw [← htake] at hhdr
  have hread := C12.read_encoded_reports d997 ⟨by decide, by decide, by decide⟩ ['\n']
    (by intro ch hch; simp at hch; subst hch; exact Or.inl rfl)
    _ hcl _ henc [] (by intro k hk; cases hk) _ hhdr rfl
  rw [hread]
  -- nothing to report
  have hquiet : ∀ s ∈ (isaOf vals15 :: gs :: rest).map asSeg, C12.lineReports s = [] := by
    intro s hs
    rw [hsegs] at hs
    rcases List.mem_cons.1 hs with rfl | hs
    · exact lineReports_nil _ ⟨[[':']], by simp, by decide⟩
    · obtain ⟨x, hx, rfl⟩ := List.mem_map.1 hs
      exact lineReports_other x (hids x hx).2.2.1 (hclean x hx).2
  rw [readSpec_quiet _ hquiet]
  simp only [Doc.readOf, toSeg, bodyOf, List.map_cons, List.map_map]
  rfl

/-! non-vacuity: the hypotheses hold for a concrete acknowledgement -/

def exVals : List Str :=
  ["00".toList, "          ".toList, "00".toList, "          ".toList, "ZZ".toList, "RECEIVER       ".toList, "ZZ".toList,
   "SENDER         ".toList, "260927".toList, "1200".toList, "^".toList, "00501".toList, "000000001".toList, "0".toList,
   "P".toList]
def exGs : PSeg := ⟨['G', 'S'], [["FA".toList], ["R".toList], ["S".toList]]⟩
def exRest : List PSeg := [⟨sST, [["997".toList], ["0001".toList]]⟩, ⟨sAK4, [["2".toList, "1".toList], [[]], ["7".toList]]⟩,
  ⟨sIEA, [["1".toList], ["000000001".toList]]⟩]

example : SegText.readAll { rest := renderText (isaOf exVals :: exGs :: exRest), sizes := [] } =
    .ok ⟨'~', '*', ':', some '^', Tokenizer.v5010⟩ (Doc.readOf (toSeg (isaOf exVals)) (toSeg exGs) (bodyOf exRest)) :=
  read_ack_text exVals exGs exRest Tokenizer.v5010 (by decide) (by decide) (Or.inr rfl) (by decide) (by decide)
    (by
      intro x hx
      simp only [exGs, exRest, List.mem_cons, List.not_mem_nil, or_false] at hx
      rcases hx with rfl | rfl | rfl | rfl <;> refine ⟨by decide, by decide, by decide, ?_⟩ <;> intro c hc <;> cases hc <;>
        decide)
    (by
      intro x hx
      simp only [exGs, exRest, List.mem_cons, List.not_mem_nil, or_false] at hx
      rcases hx with rfl | rfl | rfl | rfl <;> exact ⟨by unfold PSegClean; decide, by unfold NonBare; decide⟩)

example : render997 (isaOf exVals) =
    "ISA*00*          *00*          *ZZ*RECEIVER       *ZZ*SENDER         *260927*1200*^*00501*000000001*0*P*:~".toList := by
  decide
example : exRest.map render997 = ["ST*997*0001~".toList, "AK4*2:1**7~".toList, "IEA*1*000000001~".toList] := by decide

end Pyx12Verif.C06R
