/-
Helper lemmas for Props/DocSinks.lean: how `node` moves from one round of `x12n_document` to the next.

`node` after a round is (`Trans`)
  * the node of the previous round (the walker found nothing), or
  * a node of the SAME map as the previous node (the walker's answer), or
  * a node fetched by path, independent of where the run stood (`EnvNode`): `/ISA_LOOP/ISA` of the control map at an ISA
    segment, `/ISA_LOOP/GS_LOOP/GS` of the (possibly new) transaction map at a GS segment, `…/HEADER/BHT` of the map the
    two 278 releases switch to at BHT.
So two consecutive `xmldoc.seg` calls use nodes of one map unless the second is one of these three envelope nodes: the
per-map side condition of C08 only has to be complemented by a condition on the envelope paths (`Props/DocSinks.lean : MapsOK2`).
-/
import Pyx12Verif.Proofs.DocTotal
import Pyx12Verif.Proofs.DocSinksNodes

namespace Pyx12Verif.Doc
open Pyx12Verif

/-- a node reached by path, not by the walker -/
def EnvNode (ms : Maps) (n : NodeRef) : Prop :=
  fetchIn ms n.map (isaPath ms) = some n ∨ fetchIn ms n.map (gsPath ms) = some n ∨ fetchIn ms n.map (bhtPath ms) = some n

def Trans (ms : Maps) (prev cur : Option NodeRef) : Prop :=
  cur = prev ∨ ∃ n, cur = some n ∧ n.map ∈ ms.maps ∧ ((∃ p, prev = some p ∧ n.map = p.map) ∨ EnvNode ms n)

theorem fetchIn_self {ms : Maps} {m : MapX} {p : List (Nat × Nat)} {n : NodeRef} (h : fetchIn ms m p = some n) :
    fetchIn ms n.map p = some n := by
  rw [fetchIn_map h]; exact h

/-- a node the branch does not take from the search was fetched by path -/
def Fetched (ms : Maps) (n n' : NodeRef) : Prop :=
  n' = n ∨ fetchIn ms n'.map (gsPath ms) = some n' ∨ fetchIn ms n'.map (bhtPath ms) = some n'

theorem gsTail_go (ms : Maps) (d : Delims) (s : Seg) (st : LState) (m : MapX) (n : NodeRef) (st1 : LState) (n' : NodeRef)
    (evs : List Event) (h : gsTail ms d s st m = .go st1 n' evs) : Fetched ms n n' := by
  unfold gsTail at h
  split at h
  · simp at h
  · rename_i x hx
    simp only [Branch.go.injEq] at h
    obtain ⟨_, rfl, _⟩ := h
    exact Or.inr (Or.inl (fetchIn_self hx))

theorem plainTail_go (ms : Maps) (s : Seg) (st : LState) (n : NodeRef) (st1 : LState) (n' : NodeRef) (evs : List Event)
    (h : plainTail s st n = .go st1 n' evs) : Fetched ms n n' := by
  simp only [plainTail, Branch.go.injEq] at h
  exact Or.inl h.2.1.symm

theorem bhtSwitch_go (ms : Maps) (s : Seg) (st : LState) (m : MapX) (n : NodeRef) (st1 : LState) (n' : NodeRef)
    (evs : List Event) (h : bhtSwitch ms s st m = .go st1 n' evs) : Fetched ms n n' := by
  unfold bhtSwitch at h
  split at h
  · simp at h
  · rename_i x hx
    simp only [plainTail, Branch.go.injEq] at h
    obtain ⟨_, rfl, _⟩ := h
    exact Or.inr (Or.inr (fetchIn_self hx))

theorem withNewMap_go (ms : Maps) (st : LState) (file : Option Str) (k : LState → MapX → Branch) (st1 : LState) (n' : NodeRef)
    (evs : List Event) (h : withNewMap ms st file k = .go st1 n' evs) : ∃ st0 m, k st0 m = .go st1 n' evs := by
  unfold withNewMap at h
  split at h
  · simp at h
  · split at h
    · simp at h
    · exact ⟨_, _, h⟩

theorem branch_go (ms : Maps) (d : Delims) (s : Seg) (st : LState) (n : NodeRef) (st1 : LState) (n' : NodeRef) (evs : List Event)
    (h : branch ms d s st n = .go st1 n' evs) : Fetched ms n n' := by
  unfold branch at h
  split at h
  · simp only [Branch.go.injEq] at h; exact Or.inl h.2.1.symm
  · split at h
    · simp only [Branch.go.injEq] at h; exact Or.inl h.2.1.symm
    · split at h
      · unfold gsBranch at h
        split at h
        · obtain ⟨st0, m, hk⟩ := withNewMap_go _ _ _ _ _ _ _ h
          exact gsTail_go ms d s st0 m n _ _ _ hk
        · split at h
          · simp at h
          · exact gsTail_go ms d s _ _ n _ _ _ h
      · split at h
        · unfold bhtBranch at h
          split at h
          · split at h
            · obtain ⟨st0, m, hk⟩ := withNewMap_go _ _ _ _ _ _ _ h
              exact bhtSwitch_go ms s st0 m n _ _ _ hk
            · exact plainTail_go ms s _ n _ _ _ h
          · exact plainTail_go ms s _ n _ _ _ h
        · split at h
          · simp only [Branch.go.injEq] at h; exact Or.inl h.2.1.symm
          · split at h
            · simp only [Branch.go.injEq] at h; exact Or.inl h.2.1.symm
            · split at h
              · simp only [Branch.go.injEq] at h; exact Or.inl h.2.1.symm
              · exact plainTail_go ms s _ n _ _ _ h

theorem validate_next (ctx : Ctx) (d : Delims) (s : Seg) (mevs : List Event) (popped : List RdErr) (b : Branch)
    (st' : LState) (out : SegOut) (h : validate ctx d s mevs popped b = .next st' out) :
    ∃ st1 n' evs, b = .go st1 n' evs ∧ st'.node = some n' ∧ st'.curMap = st1.curMap := by
  unfold validate at h
  split at h
  · simp at h
  · rename_i st1 n' evs
    split at h
    · simp at h
    · split at h
      · simp at h
      · simp only [Step.next.injEq] at h
        obtain ⟨rfl, _⟩ := h
        exact ⟨st1, n', evs, rfl, rfl, rfl⟩

/-- what the node search returns: the pinned ISA / GS node of the control map, or a node of the current node's map -/
theorem findNode_res (ms : Maps) (control : MapX) (d : Delims) (s : Seg) (k : Nat) (st : LState) (n : NodeRef)
    (cnt : Walker.Counter) (evs : List Event) (h : findNode ms control d s k st = .res (some n) cnt evs) :
    fetchIn ms n.map (isaPath ms) = some n ∨ fetchIn ms n.map (gsPath ms) = some n ∨ ∃ p, st.node = some p ∧ n.map = p.map := by
  unfold findNode at h
  split at h
  · simp only [Found.res.injEq] at h
    exact Or.inl (fetchIn_self h.1)
  · split at h
    · simp only [Found.res.injEq] at h
      exact Or.inr (Or.inl (fetchIn_self h.1))
    · split at h
      · simp at h
      · rename_i cur hcur
        simp only [walkFound, foundOf, Found.res.injEq] at h
        obtain ⟨h1, _, _⟩ := h
        split at h1
        · simp only [Option.some.injEq] at h1
          subst h1
          exact Or.inr (Or.inr ⟨cur, hcur, rfl⟩)
        · simp at h1

/-- **one round**: the loop state stays consistent with `Maps`, and `node` moves as `Trans` says -/
theorem stepSeg_trans (ms : Maps) (ctx : Ctx) (control : MapX) (hc : control ∈ ms.maps) (d : Delims)
    (le : List SegText.RErr) (s : Seg) (st st' : LState) (out : SegOut) (hst : st.Ok ms)
    (h : stepSeg ms ctx control d le s st = .next st' out) : st'.Ok ms ∧ Trans ms st.node st'.node := by
  unfold stepSeg withView at h
  split at h
  · simp at h
  · unfold afterReader at h
    split at h
    · simp at h
    · simp at h
    · rename_i r _
      unfold afterStep at h
      have hst0 : LState.Ok ms { st with rs := r.1, pend := st.pend ++ List.map lineErr le ++ baseErrs s ++ List.map envErr r.2 } := hst
      generalize hst1 : ({ st with rs := r.1, pend := st.pend ++ List.map lineErr le ++ baseErrs s ++ List.map envErr r.2 } : LState) = st1 at h hst0
      have hnode : st1.node = st.node := by rw [← hst1]
      have hfok := findNode_ok ms control d s st1.rs.segCount st1 hc hst0
      cases hf : findNode ms control d s st1.rs.segCount st1 with
      | crash site => simp [hf, afterFind] at h
      | res no cnt evs =>
        rw [hf] at h hfok
        cases no with
        | none =>
          simp only [afterFind, Step.next.injEq] at h
          obtain ⟨rfl, _⟩ := h
          exact ⟨⟨hst0.1, hst0.2⟩, Or.inl hnode⟩
        | some n =>
          simp only [afterFind] at h
          have hn : n.map ∈ ms.maps := hfok n rfl
          have hbok := branch_ok ms d s { st1 with cnt := cnt } n ⟨hst0.1, hst0.2⟩ hn
          obtain ⟨st2, n', evs2, hb, hnode', hcur'⟩ := validate_next _ _ _ _ _ _ _ _ h
          rw [hb] at hbok
          obtain ⟨hok2, hn'⟩ := hbok
          refine ⟨⟨?_, ?_⟩, Or.inr ⟨n', hnode', hn', ?_⟩⟩
          · intro x hx; rw [hnode'] at hx; injection hx with hx; rw [← hx]; exact hn'
          · intro m hm; rw [hcur'] at hm; exact hok2.2 m hm
          · rcases branch_go ms d s _ n st2 n' evs2 hb with rfl | hg | hbht
            · rcases findNode_res ms control d s _ st1 _ cnt evs hf with hi | hg | ⟨p, hp, hm⟩
              · exact Or.inr (Or.inl hi)
              · exact Or.inr (Or.inr (Or.inl hg))
              · exact Or.inl ⟨p, by rw [← hnode]; exact hp, hm⟩
            · exact Or.inr (Or.inr (Or.inl hg))
            · exact Or.inr (Or.inr (Or.inr hbht))

/-- the nodes of a run, round by round -/
def ChainT (ms : Maps) : Option NodeRef → List (Option NodeRef) → Prop
  | _, [] => True
  | prev, c :: r => Trans ms prev c ∧ ChainT ms c r

theorem runSegs_chain (ms : Maps) (ctx : Ctx) (control : MapX) (hc : control ∈ ms.maps) (d : Delims) :
    ∀ (segs : List (List SegText.RErr × Seg)) (a a' : Acc), a.st.Ok ms → runSegs ms ctx control d a segs = .done a' →
      ∃ new nodes, a'.outs = a.outs ++ new ∧ new.map (fun o => o.node) = nodes.map nodeKey ∧ ChainT ms a.st.node nodes
  | [], a, a', _ => by
    intro h
    simp only [runSegs, LoopEnd.done.injEq] at h
    subst h
    exact ⟨[], [], by simp, rfl, trivial⟩
  | p :: ps, a, a', hok => by
    intro h
    simp only [runSegs] at h
    split at h
    · simp at h
    · rename_i st out hstep
      split at h
      · simp at h
      · rename_i est _
        obtain ⟨hok', htr⟩ := stepSeg_trans ms ctx control hc d _ _ _ _ _ hok hstep
        obtain ⟨new, nodes, h1, h2, h3⟩ := runSegs_chain ms ctx control hc d ps _ a' (by simpa [pushOut] using hok') h
        obtain ⟨hn, _⟩ := stepSeg_node ms ctx control d _ _ _ _ _ hstep
        refine ⟨out :: new, st.node :: nodes, by simp [h1, pushOut], by simp [hn, h2], ?_⟩
        simp only [pushOut] at h3
        exact ⟨htr, h3⟩

/-- the nodes of a completed run: the reported keys are those of a chain that starts at the control map's ISA node -/
theorem validateRead_chain (ms : Maps) (ctx : Ctx) (h : Tokenizer.Header) (rr : SegText.ReadResult) (b : Bool)
    (hv : (validateRead ms ctx h rr).outcome = .verdict b) :
    ∃ control nodes, findMap ms (controlFile h) = some control ∧
      (validateRead ms ctx h rr).segs.map (fun o => o.node) = nodes.map nodeKey ∧
      ChainT ms (fetchIn ms control (isaPath ms)) nodes := by
  unfold validateRead at hv ⊢
  cases hc : findMap ms (controlFile h) with
  | none => simp [hc, emptyResult] at hv
  | some control =>
    simp only [hc] at hv ⊢
    have hcm : control ∈ ms.maps := findMap_mem hc
    cases hl : runSegs ms ctx control (SegText.delimsOf h) (initAcc ms control) rr.segs with
    | stopped o a =>
      simp only [hl, finish] at hv
      have := runSegs_nv ms ctx control _ _ _ _ _ hl
      rw [hv] at this
      exact this.elim
    | done a =>
      obtain ⟨new, nodes, h1, h2, h3⟩ := runSegs_chain ms ctx control hcm _ _ _ _ (initState_ok ms control hcm) hl
      simp only [initAcc, List.nil_append, initState] at h1 h3
      refine ⟨control, nodes, rfl, ?_, h3⟩
      simp only [hl, finish] at hv ⊢
      split at hv
      · simp at hv
      · split
        · rename_i hcr _; simp_all
        · unfold finishDone at hv ⊢
          split at hv
          · simp at hv
          · simp only [h1]; exact h2

end Pyx12Verif.Doc
