/-
`x12xml_simple.seg` as it is now (`XmlG.segOutG`, the two `break`s) never raises on a node with well-formed ids —
for EVERY segment object, also one with more elements / sub-elements than the node defines, with empty composites, with
elements that carry several values where the node has a simple element.

Every `.error` branch of the element loop, at an index `i < len(seg_data)`:
  childByIdx       `children.length ≤ i`: `.ok none` = the first `break`; else the unique child with `seq = i + 1`
                   (`childrenIdsOK`, C08 `childByIdx_ok`) — no EngineError
  Segment.get      `'%02i' % (i + 1)` with `i < children.length ≤ 99` is a designator (`get_pad2`), the element exists:
                   `.ok (.comp e)` — neither `.seg _` nor the two `attribute` branches of `childOutG`
  composite child  `subLoopG` is total (second `break`)
  simple child     `get_value` formats the composite: `UnboundLocalError` needs a composite WITHOUT sub-elements, and that one
                   `is_empty()` — the branch is not reached; `eleOut` on `.ok (some v)` never fails
The bound `children.length ≤ 99` of `wfIds` is what keeps `'%02i' % (i + 1)` two digits long.
-/
import Pyx12Verif.Proofs.DocSinksXml

namespace Pyx12Verif.Doc.XmlG
open Pyx12Verif Pyx12Verif.Xml
open Pyx12Verif.Segment (SegObj Comp Got)

/-- `Composite.format()` fails only on a composite without sub-elements, which `is_empty()` -/
theorem getValue_of_nonempty (s : SegObj) (i : Nat) (hi : i < 99) (e : Comp) (he : s.elements[i]? = some e)
    (hne : compIsEmpty e = false) : ∃ v, Segment.getValue s (Path.pad2 (i + 1)) = .ok (some v) := by
  cases hs : e.subs with
  | nil => simp [compIsEmpty, hs] at hne
  | cons x r =>
    exact ⟨Path.joinWith e.term (x :: Segment.dropTrailingEmpty r),
      by simp only [Segment.getValue, get_pad2 s i hi e he, Segment.valueOf, Segment.fmtComp, hs]⟩

theorem eleOut_total (xid : Str) (w : W) (v : Str) : ∃ w', eleOut xid w (.ok (some v)) = .ok w' := by
  simp only [eleOut]
  split
  · exact ⟨_, rfl⟩
  · exact ⟨_, rfl⟩

/-- one iteration of the element loop at an index that has data -/
theorem elemStepG_total (node : Xml.SegDef) (hw : wfIds node = true) (seg : SegObj) (i : Nat) (hi : i < seg.elements.length)
    (w : W) : ∃ r, elemStepG node seg i w = .ok r := by
  simp only [wfIds, Bool.and_eq_true, decide_eq_true_eq] at hw
  obtain ⟨⟨_, hlen⟩, hid⟩ := hw
  by_cases hle : node.children.length ≤ i
  · exact ⟨none, by simp [elemStepG, childByIdx, hle]⟩
  · have hlt : i < node.children.length := by omega
    have hc : node.children[i]? = some node.children[i] := List.getElem?_eq_getElem hlt
    have he : seg.elements[i]? = some seg.elements[i] := List.getElem?_eq_getElem hi
    have hi99 : i < 99 := by omega
    generalize node.children[i] = c at hc
    generalize seg.elements[i] = e at he
    simp only [elemStepG, childByIdx_ok node.sid node.children hid i c hc]
    by_cases hnu : c.notUsed = true
    · exact ⟨some w, by simp [hnu]⟩
    · simp only [hnu, Bool.false_eq_true, if_false, get_pad2 seg i hi99 e he, childOutG]
      by_cases hce : compIsEmpty e = true
      · exact ⟨some w, by simp [hce]⟩
      · simp only [hce, Bool.false_eq_true, if_false]
        cases c with
        | comp seq nu subs => exact ⟨_, rfl⟩
        | elem seq xid nu =>
          obtain ⟨v, hv⟩ := getValue_of_nonempty seg i hi99 e he (by simpa using hce)
          obtain ⟨w', hw'⟩ := eleOut_total xid w v
          exact ⟨some w', by simp only [hv, hw']⟩

theorem elemLoopG_total (node : Xml.SegDef) (hw : wfIds node = true) (seg : SegObj) :
    ∀ (n i : Nat) (w : W), i + n ≤ seg.elements.length → ∃ w', elemLoopG node seg n i w = .ok w'
  | 0, _, w, _ => ⟨w, rfl⟩
  | n + 1, i, w, h => by
    obtain ⟨r, hr⟩ := elemStepG_total node hw seg i (by omega) w
    cases r with
    | none => exact ⟨w, by simp only [elemLoopG, hr]⟩
    | some w1 =>
      obtain ⟨w', hw'⟩ := elemLoopG_total node hw seg n (i + 1) w1 (by omega)
      exact ⟨w', by simp only [elemLoopG, hr, hw']⟩

/-- **`seg()` writes every segment**: on a node with well-formed ids the segment part of `x12xml_simple.seg` never raises -/
theorem segOutG_total (node : Xml.SegDef) (hw : wfIds node = true) (seg : SegObj) (w : W) :
    ∃ w', segOutG node seg w = .ok w' := by
  obtain ⟨w1, h1⟩ := elemLoopG_total node hw seg seg.elements.length 0 (w.push tagSeg (some node.sid)) (by omega)
  exact ⟨w1.pop, by simp only [segOutG, h1]⟩

end Pyx12Verif.Doc.XmlG
