/- `'%i' % n` and `'%04i' % n` are injective (value of the digit string = n). -/
import Pyx12Verif.Proofs.AckStrings

namespace Pyx12Verif.Ack
open Pyx12Verif.ErrTree

def dv (c : Char) : Nat := c.toNat - 48

def valAcc (a : Nat) : Str → Nat
  | [] => a
  | c :: r => valAcc (a * 10 + dv c) r

theorem valAcc_append (a : Nat) (s t : Str) : valAcc a (s ++ t) = valAcc (valAcc a s) t := by
  induction s generalizing a with
  | nil => rfl
  | cons c r ih => exact ih (a * 10 + dv c)

theorem dv_digitChar (n : Nat) : dv (digitChar n) = n % 10 := by
  have h0 : dv '0' = 0 := by decide
  have h1 : dv '1' = 1 := by decide
  have h2 : dv '2' = 2 := by decide
  have h3 : dv '3' = 3 := by decide
  have h4 : dv '4' = 4 := by decide
  have h5 : dv '5' = 5 := by decide
  have h6 : dv '6' = 6 := by decide
  have h7 : dv '7' = 7 := by decide
  have h8 : dv '8' = 8 := by decide
  have h9 : dv '9' = 9 := by decide
  unfold digitChar
  repeat' split
  all_goals simp only [h0, h1, h2, h3, h4, h5, h6, h7, h8, h9]
  all_goals omega

/-- most significant digit first -/
def digits (n : Nat) : Str := if n < 10 then [digitChar n] else digits (n / 10) ++ [digitChar n]
termination_by n
decreasing_by omega

theorem natDigitsAux_eq (f n : Nat) (acc : Str) (h : n < f) : natDigitsAux f n acc = digits n ++ acc := by
  induction f generalizing n acc with
  | zero => omega
  | succ f ih =>
    rw [digits]
    simp only [natDigitsAux]
    split
    · simp
    · rw [ih (n / 10) _ (by omega)]; simp

theorem natStr_eq_digits (n : Nat) : natStr n = digits n := by
  unfold natStr; rw [natDigitsAux_eq _ _ _ (by omega)]; simp

theorem valAcc_digits (n : Nat) : valAcc 0 (digits n) = n := by
  induction n using Nat.strongRecOn with
  | _ n ih =>
    rw [digits]
    split
    · show 0 * 10 + dv (digitChar n) = n
      rw [dv_digitChar]; omega
    · rw [valAcc_append, ih (n / 10) (by omega)]
      show (n / 10) * 10 + dv (digitChar n) = n
      rw [dv_digitChar]; omega

theorem valAcc_zeros (k : Nat) : valAcc 0 (List.replicate k '0') = 0 := by
  induction k with
  | zero => rfl
  | succ k ih =>
    have h0 : dv '0' = 0 := by decide
    rw [List.replicate_succ]
    show valAcc (0 * 10 + dv '0') (List.replicate k '0') = 0
    rw [h0]; exact ih

theorem valAcc_natStr (n : Nat) : valAcc 0 (natStr n) = n := by rw [natStr_eq_digits, valAcc_digits]

theorem valAcc_fmt04 (n : Nat) : valAcc 0 (fmt04 n) = n := by
  unfold fmt04 padZeros
  rw [valAcc_append, valAcc_zeros, valAcc_natStr]

theorem natStr_injective (a b : Nat) (h : natStr a = natStr b) : a = b := by
  have := congrArg (valAcc 0) h; simpa [valAcc_natStr] using this

theorem fmt04_injective (a b : Nat) (h : fmt04 a = fmt04 b) : a = b := by
  have := congrArg (valAcc 0) h; simpa [valAcc_fmt04] using this

end Pyx12Verif.Ack
