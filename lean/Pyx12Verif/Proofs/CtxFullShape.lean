/-
`ctxDoc_total_full`, part 2: every answer of the Walker model has the `Regular` shape of Proofs/CtxFullTree.lean.

`regular_of_facts`     from `StepFacts` (`walk_facts`: any walk that returns a node, whatever the counters say)
`regular_notfound`     the not-found fallback: the previous node again, nothing popped, nothing pushed
`lidOK_not_wrap`, `lidOK_count`   what `LidOK` gives the tree part: the requested id names no wrapper, occurs once on a path
`NoAnchor`, `noAnchor_noStart`    the other kind of requested id: it names no segment-anchored loop, so no tree ever starts
-/
import Pyx12Verif.Proofs.CtxFoundNone
import Pyx12Verif.Proofs.CtxFullTree

namespace Pyx12Verif.CtxWalk
open Pyx12Verif.MapSkel Pyx12Verif.Walker Pyx12Verif.WalkerGen

/-- the id names a transparent ("wrapper") loop of the map: a loop whose first child is a loop -/
def WrapIn (root : List Node) (x : Nat) : Prop :=
  ∃ p sub, chAt root p = some sub ∧ p ≠ [] ∧ firstIsLoop sub = true ∧ (lpathAt root p).getLast? = some x

/-- the id names no segment-anchored loop of the map -/
def NoAnchor (root : List Node) (l : Nat) : Prop :=
  ∀ p ch, p ≠ [] → chAt root p = some ch → (lpathAt root p).getLast? = some l → firstIsSeg ch = false

mutual
def noAnchorNode (l : Nat) : Node → Bool
  | .seg .. => true
  | .loop id _ _ _ _ ch => (id != l || !firstIsSeg ch) && noAnchorList l ch
def noAnchorList (l : Nat) : List Node → Bool
  | [] => true
  | c :: r => noAnchorNode l c && noAnchorList l r
end

/-- decidable form of `NoAnchor` -/
def noAnchorB (root : List Node) (l : Nat) : Bool := noAnchorList l root

theorem noAnchorList_get {l : Nat} {ch : List Node} (h : noAnchorList l ch = true) {i : Nat} {c : Node}
    (hc : ch[i]? = some c) : noAnchorNode l c = true := by
  induction ch generalizing i with
  | nil => simp at hc
  | cons a r ih =>
    simp only [noAnchorList, Bool.and_eq_true] at h
    cases i with
    | zero => simp at hc; subst hc; exact h.1
    | succ n => simp at hc; exact ih h.2 hc

theorem noAnchor_paths (l : Nat) : ∀ (p : List Nat) (root : List Node) (ch : List Node),
    noAnchorList l root = true → p ≠ [] → chAt root p = some ch → (lpathAt root p).getLast? = some l → firstIsSeg ch = false
  | [], _, _, _, hne, _, _ => absurd rfl hne
  | i :: r, root, ch, hl, _, hch, hg => by
    obtain ⟨id, p, u, rep, w, sub, h1, h2, h3⟩ := recsAt_ne_nil hch
    have hn := noAnchorList_get hl h1
    simp only [noAnchorNode, Bool.and_eq_true, Bool.or_eq_true, bne_iff_ne, Bool.not_eq_true'] at hn
    cases r with
    | nil =>
      simp only [chAt, Option.some.injEq] at h2; subst h2
      rw [h3] at hg
      simp only [lpathAt, recsAt, List.map_nil, List.getLast?_singleton, Option.some.injEq] at hg
      rcases hn.1 with h | h
      · exact absurd hg h
      · exact h
    | cons j r' =>
      apply noAnchor_paths l (j :: r') sub ch hn.2 (by simp) h2
      obtain ⟨l2, _, _, _, _, _, _, _, h3'⟩ := recsAt_ne_nil h2
      rw [h3] at hg
      rw [h3'] at hg ⊢
      simpa using hg

theorem noAnchor_of_bool {root : List Node} {l : Nat} (h : noAnchorB root l = true) : NoAnchor root l :=
  fun p ch hne hch hg => noAnchor_paths l p root ch h hne hch hg

/-! ### the reader's pop / push runs, as paths -/

theorem popRun_path : ∀ (ps : List Ctx.LPath) (rs : List (Nat × Nat)) (last : Nat) (rs1 : List (Nat × Nat)) (l1 : Nat),
    Ctx.popRun rs last ps = some (rs1, l1) →
    ps = Ctx.popsOf (Ctx.pathOf rs) ps.length ∧
      Ctx.pathOf rs1 = (Ctx.pathOf rs).take ((Ctx.pathOf rs).length - ps.length)
  | [], rs, last, rs1, l1, h => by
    simp only [Ctx.popRun, Option.some.injEq, Prod.mk.injEq] at h
    simp [Ctx.popsOf, h.1]
  | l :: r, rs, last, rs1, l1, h => by
    cases rs with
    | nil => simp [Ctx.popRun] at h
    | cons x rs' =>
      simp only [Ctx.popRun] at h
      split at h
      · rename_i hl
        obtain ⟨ih1, ih2⟩ := popRun_path r rs' x.2 rs1 l1 h
        have hp : Ctx.pathOf (x :: rs') = Ctx.pathOf rs' ++ [x.1] := by simp [Ctx.pathOf]
        have hdl : (Ctx.pathOf (x :: rs')).dropLast = Ctx.pathOf rs' := by rw [hp]; simp
        refine ⟨?_, ?_⟩
        · simp only [List.length_cons, Ctx.popsOf, hdl, ← ih1, hl]
        · rw [ih2, hp]
          have e : (Ctx.pathOf rs' ++ [x.1]).length - (l :: r).length = (Ctx.pathOf rs').length - r.length := by simp
          rw [e, List.take_append_of_le_length (Nat.sub_le _ _)]
      · cases h

theorem pushRun_path : ∀ (ps : List (Ctx.LPath × Nat)) (rs rs2 : List (Nat × Nat)),
    Ctx.pushRun rs ps = some rs2 →
    ∃ ids, ps.map (fun p => p.1) = Ctx.pushesOf (Ctx.pathOf rs) ids ∧ Ctx.pathOf rs2 = Ctx.pathOf rs ++ ids ∧
      ids.map some = ps.map (fun p => Ctx.idOf p.1)
  | [], rs, rs2, h => by
    simp only [Ctx.pushRun, Option.some.injEq] at h
    exact ⟨[], by simp [Ctx.pushesOf], by simp [h], by simp⟩
  | l :: r, rs, rs2, h => by
    simp only [Ctx.pushRun] at h
    split at h
    · cases h
    · rename_i x hx
      split at h
      · rename_i hl
        obtain ⟨ids, h1, h2, h3⟩ := pushRun_path r ((x, l.2) :: rs) rs2 h
        have hp : Ctx.pathOf ((x, l.2) :: rs) = Ctx.pathOf rs ++ [x] := by simp [Ctx.pathOf]
        rw [hp] at h1 h2
        refine ⟨x :: ids, ?_, ?_, ?_⟩
        · simp only [List.map_cons, Ctx.pushesOf, h1, hl]
        · rw [h2]; simp
        · simp only [List.map_cons, h3, Ctx.idOf, hx]
      · cases h

/-! ### the walker's answers are `Regular` -/

/-- **found**: whatever `walk` returns together with a node is a `Regular` answer relative to the loop of the start node -/
theorem regular_of_facts {root : List Node} {L : List Nat} {curPos : Nat} {n : List Nat} {pops pushes : List (List Nat)}
    (hf : StepFacts root L curPos n pops pushes) (si : Ctx.SegInfo) :
    ∃ j ids, Ctx.Regular (WrapIn root) (lpathAt root L) (answerOf root si n pops pushes) j ids := by
  obtain ⟨P, nd, lastC, i, ch, c, hpop, hpush, hn, hloop, hch, hc, hseg, hi1, hi2, hlen, hpos, htr⟩ := hf
  subst hn
  obtain ⟨hp1, hp2⟩ := popRun_path _ _ _ _ _ hpop
  obtain ⟨ids, hq1, hq2, hq3⟩ := pushRun_path _ _ _ hpush
  simp only [pathOf_stackAt] at hp1 hp2 hq1 hq2
  have hdl : (nd ++ [i]).dropLast = nd := by simp
  refine ⟨(cvPops root pops).length, ids, ⟨?_, ?_, ?_, ?_, ?_⟩⟩
  · simpa [answerOf] using hp1
  · simp only [answerOf]
    rw [hq1, hp2]
  · simp only [answerOf, hdl]
    rw [hq2, hp2]
  · intro hne
    have hpn : pushes ≠ [] := by
      intro e
      subst e
      simp only [cvPushes, List.map_nil, List.map_eq_nil_iff] at hq3
      exact hne hq3
    simp [answerOf, hi2 hpn]
  · intro x hx
    have h1 : some x ∈ (ids.map some).dropLast := by
      rw [← List.map_dropLast]; exact List.mem_map_of_mem hx
    rw [hq3, ← List.map_dropLast] at h1
    simp only [cvPushes, ← List.map_dropLast, List.map_map, List.mem_map, Function.comp] at h1
    obtain ⟨p, hp, hid⟩ := h1
    obtain ⟨sub, hsub, hne, hT⟩ := htr p hp
    exact ⟨p, sub, hsub, hne, hT, by simpa [Ctx.idOf] using hid⟩

/-- **not found**: the previous node once more -/
theorem regular_notfound (wrap : Nat → Prop) (root : List Node) (cur : List Nat) (si : Ctx.SegInfo) :
    Ctx.Regular wrap (lpathAt root cur.dropLast) (answerOf root si cur [] []) 0 [] :=
  ⟨by simp [answerOf, cvPops, Ctx.popsOf], by simp [answerOf, cvPushes, Ctx.pushesOf], by simp [answerOf],
    fun h => absurd rfl h, by simp⟩

/-! ### what the hypotheses on the requested id give -/

theorem lidOK_not_wrap {root : List Node} {l : Nat} (h : LidOK root l) : ¬ WrapIn root l := by
  rintro ⟨p, sub, hsub, hne, hT, hl⟩
  exact firstIs_excl hT ((h p sub hne hsub).2 hl)

theorem lidOK_count {K : Consts} {root : List Node} (hs : Static2 K root) {l : Nat} (h : LidOK root l) {n : List Nat}
    (hn : SegAt root n) : (lpathAt root n.dropLast).count l ≤ 1 := by
  obtain ⟨hne, ch, hch⟩ := segAt_loopAt hs hn
  exact (h _ ch hne hch).1

theorem noAnchor_noStart {K : Consts} {root : List Node} (hs : Static2 K root) {l : Nat} (h : NoAnchor root l)
    {n : List Nat} (hn : SegAt root n) :
    ¬ ((lpathAt root n.dropLast).getLast? = some l ∧ (n.getLast? == some 0) = true) := by
  rintro ⟨h1, h2⟩
  have hloop := segAt_loopAt hs hn
  obtain ⟨L, i, ch, c, rfl, hch, hc, hseg⟩ := hn
  have hdl : (L ++ [i]).dropLast = L := by simp
  rw [hdl] at h1 hloop
  have hi : i = 0 := by simpa using h2
  subst hi
  have := h L ch hloop.1 hch h1
  cases ch with
  | nil => simp at hc
  | cons c0 r =>
    simp only [List.getElem?_cons_zero, Option.some.injEq] at hc
    subst hc
    simp only [firstIsSeg] at this
    rw [hseg] at this; cases this

end Pyx12Verif.CtxWalk
