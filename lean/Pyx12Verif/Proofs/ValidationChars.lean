/-
Character-class lemmas for C13: the complemented regex classes are the X12 character sets.
-/
import Pyx12Verif.Spec.Validation

namespace Pyx12Verif.Validation

/-! ### character sets (`ID`, `AN`) -/

theorem char_le_iff (a c : Char) : a ≤ c ↔ a.toNat ≤ c.toNat := by
  rw [Char.le_def, UInt32.le_iff_toNat_le]; rfl

theorem isUpper_iff (c : Char) : isUpper c = true ↔ 65 ≤ c.toNat ∧ c.toNat ≤ 90 := by
  simp only [isUpper, Bool.and_eq_true, decide_eq_true_eq, char_le_iff]; rfl
theorem isLower_iff (c : Char) : isLower c = true ↔ 97 ≤ c.toNat ∧ c.toNat ≤ 122 := by
  simp only [isLower, Bool.and_eq_true, decide_eq_true_eq, char_le_iff]; rfl
theorem isDigit_iff (c : Char) : isDigit c = true ↔ 48 ≤ c.toNat ∧ c.toNat ≤ 57 := by
  simp only [isDigit, Bool.and_eq_true, decide_eq_true_eq, char_le_iff]; rfl

theorem char_eq_iff (c d : Char) : c = d ↔ c.toNat = d.toNat := by
  constructor
  · intro h; rw [h]
  · intro h; exact Char.toNat_inj.mp h

theorem contains_iff_codes (l : List Char) (c : Char) :
    l.contains c = true ↔ c.toNat ∈ l.map Char.toNat := by
  induction l with
  | nil => simp
  | cons d ds ih =>
    simp only [List.contains_cons, Bool.or_eq_true, beq_iff_eq, List.map_cons, List.mem_cons, ih]
    rw [char_eq_iff]

theorem basicPunct_codes : basicPunct.map Char.toNat = [33,34,38,39,40,41,42,43,44,45,46,47,58,59,63,61,32] := by
  decide
theorem extPunct_codes : extPunct.map Char.toNat = [37,126,64,91,93,95,123,125,92,124,60,62,35,36] := by
  decide
theorem ext5Punct_codes : ext5Punct.map Char.toNat = [94, 96] := by decide

/-- the class the recogniser uses is exactly the X12 character set, for every character -/
theorem inClass_iff (cs : Charset) (c : Char) : inClass cs c = true ↔ c.toNat ∈ specCodes cs := by
  cases cs <;>
  simp only [inClass, specCodes, Bool.or_eq_true, isUpper_iff, isDigit_iff, isLower_iff,
    contains_iff_codes, basicPunct_codes, extPunct_codes, ext5Punct_codes, basicCodes, extCodes,
    ext5Codes, List.mem_append, List.mem_cons, List.not_mem_nil, or_false] <;> omega

theorem idOk_iff (cs : Charset) (s : List Char) : idOk cs s = true ↔ InCharset cs s := by
  induction s with
  | nil => simp [idOk, InCharset]
  | cons c r ih =>
    simp only [idOk, Bool.and_eq_true, ih, inClass_iff, InCharset, List.mem_cons, forall_eq_or_imp]

end Pyx12Verif.Validation
