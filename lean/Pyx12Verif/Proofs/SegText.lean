/-
Lemmas about `Model/SegText.lean`: split/join inverses, the trimming loops of `format`, parse after format.
The declarative side (`trimTrail`, `normComp`, `normSeg`, `Clean`) is defined here, in a style different from the code
(`reverse / dropWhile / reverse` instead of the index loop).
-/
import Pyx12Verif.Model.SegText

namespace Pyx12Verif.SegText

/-! ### split / join -/

theorem splitOn_ne_nil (e : Char) (l : List Char) : splitOn e l ≠ [] := by
  cases l with
  | nil => simp [splitOn]
  | cons c cs =>
    simp only [splitOn]
    split
    · simp
    · cases splitOn e cs <;> simp [consHead]

theorem joinWith_cons_ne (e : Char) (p : List Char) (ps : List (List Char)) (h : ps ≠ []) :
    joinWith e (p :: ps) = p ++ e :: joinWith e ps := by
  cases ps with
  | nil => exact absurd rfl h
  | cons q r => rfl

theorem joinWith_consHead (e c : Char) (ps : List (List Char)) (h : ps ≠ []) :
    joinWith e (consHead c ps) = c :: joinWith e ps := by
  cases ps with
  | nil => exact absurd rfl h
  | cons p r =>
    cases r with
    | nil => rfl
    | cons q r => rfl

/-- every value character for character: joining the pieces gives the string back -/
theorem split_join (e : Char) (l : List Char) : joinWith e (splitOn e l) = l := by
  induction l with
  | nil => rfl
  | cons c cs ih =>
    simp only [splitOn]
    split
    · rename_i h
      rw [joinWith_cons_ne _ _ _ (splitOn_ne_nil e cs), ih, h]
      rfl
    · rw [joinWith_consHead _ _ _ (splitOn_ne_nil e cs), ih]

theorem mem_consHead {c : Char} {ps : List (List Char)} {p : List Char} (h : p ∈ consHead c ps) :
    p = [c] ∨ (∃ q, q ∈ ps ∧ p = c :: q) ∨ p ∈ ps := by
  cases ps with
  | nil => simp [consHead] at h; exact Or.inl h
  | cons q r =>
    simp only [consHead, List.mem_cons] at h
    rcases h with h | h
    · exact Or.inr (Or.inl ⟨q, by simp, h⟩)
    · exact Or.inr (Or.inr (by simp [h]))

/-- no piece contains the separator -/
theorem sep_not_mem_piece (e : Char) (l : List Char) : ∀ p ∈ splitOn e l, e ∉ p := by
  induction l with
  | nil => simp [splitOn]
  | cons c cs ih =>
    intro p hp
    simp only [splitOn] at hp
    split at hp
    · simp only [List.mem_cons] at hp
      rcases hp with hp | hp
      · simp [hp]
      · exact ih p hp
    · rename_i hc
      rcases mem_consHead hp with h | ⟨q, hq, h⟩ | h
      · subst h; simp; exact fun e' => hc e'.symm
      · subst h
        simp only [List.mem_cons, not_or]
        exact ⟨fun e' => hc e'.symm, ih q hq⟩
      · exact ih p h

/-- pieces consist of characters of the string -/
theorem piece_subset (e : Char) (l : List Char) : ∀ p ∈ splitOn e l, ∀ c ∈ p, c ∈ l := by
  induction l with
  | nil => simp [splitOn]
  | cons a cs ih =>
    intro p hp c hc
    simp only [splitOn] at hp
    split at hp
    · simp only [List.mem_cons] at hp
      rcases hp with hp | hp
      · subst hp; simp at hc
      · exact List.mem_cons_of_mem _ (ih p hp c hc)
    · rcases mem_consHead hp with h | ⟨q, hq, h⟩ | h
      · subst h; simp at hc; simp [hc]
      · subst h
        simp only [List.mem_cons] at hc
        rcases hc with hc | hc
        · simp [hc]
        · exact List.mem_cons_of_mem _ (ih q hq c hc)
      · exact List.mem_cons_of_mem _ (ih p h c hc)

theorem splitOn_no_sep (e : Char) (l : List Char) (h : e ∉ l) : splitOn e l = [l] := by
  induction l with
  | nil => rfl
  | cons c cs ih =>
    simp only [List.mem_cons, not_or] at h
    have hc : ¬ c = e := fun h' => h.1 h'.symm
    simp only [splitOn, hc, if_false, ih h.2, consHead]

theorem splitOn_append_sep (e : Char) (p r : List Char) (h : e ∉ p) :
    splitOn e (p ++ e :: r) = p :: splitOn e r := by
  induction p with
  | nil => simp [splitOn]
  | cons c cs ih =>
    simp only [List.mem_cons, not_or] at h
    have hc : ¬ c = e := fun h' => h.1 h'.symm
    simp only [List.cons_append, splitOn, hc, if_false, ih h.2, consHead]

/-- splitting a joined list of separator-free pieces gives the pieces back -/
theorem join_split (e : Char) (ps : List (List Char)) (hne : ps ≠ []) (h : ∀ p ∈ ps, e ∉ p) :
    splitOn e (joinWith e ps) = ps := by
  induction ps with
  | nil => exact absurd rfl hne
  | cons p r ih =>
    cases r with
    | nil => exact splitOn_no_sep e p (h p (by simp))
    | cons q r =>
      rw [joinWith_cons_ne _ _ _ (by simp), splitOn_append_sep _ _ _ (h p (by simp)),
        ih (by simp) (fun x hx => h x (List.mem_cons_of_mem _ hx))]

theorem mem_joinWith {e c : Char} {ps : List (List Char)} (h : c ∈ joinWith e ps) : c = e ∨ ∃ p ∈ ps, c ∈ p := by
  induction ps with
  | nil => simp [joinWith] at h
  | cons p r ih =>
    cases r with
    | nil => exact Or.inr ⟨p, by simp, by simpa [joinWith] using h⟩
    | cons q r =>
      rw [joinWith_cons_ne _ _ _ (by simp)] at h
      simp only [List.mem_append, List.mem_cons] at h
      rcases h with h | h | h
      · exact Or.inr ⟨p, by simp, h⟩
      · exact Or.inl h
      · rcases ih h with h | ⟨x, hx, hc⟩
        · exact Or.inl h
        · exact Or.inr ⟨x, List.mem_cons_of_mem _ hx, hc⟩

/-! ### trimming -/

/-- trailing elements satisfying `p` removed -/
def trimTrail {α : Type} (p : α → Bool) (l : List α) : List α := (l.reverse.dropWhile p).reverse

theorem trimTrail_prefix {α : Type} (p : α → Bool) (l : List α) :
    l.take (trimTrail p l).length = trimTrail p l := by
  have h : l = trimTrail p l ++ (l.reverse.takeWhile p).reverse := by
    have := List.takeWhile_append_dropWhile (p := p) (l := l.reverse)
    have h2 := congrArg List.reverse this
    simp only [List.reverse_append, List.reverse_reverse] at h2
    exact h2.symm
  have h3 : l.take (trimTrail p l).length =
      (trimTrail p l ++ (l.reverse.takeWhile p).reverse).take (trimTrail p l).length :=
    congrArg (fun x => List.take (trimTrail p l).length x) h
  rw [h3]
  simp

theorem dropWhile_nil_all {α : Type} {p : α → Bool} {l : List α} (h : l.dropWhile p = []) :
    ∀ x ∈ l, p x = true := by
  induction l with
  | nil => simp
  | cons a r ih =>
    simp only [List.dropWhile_cons] at h
    split at h
    · rename_i ha
      intro x hx
      simp only [List.mem_cons] at hx
      rcases hx with hx | hx
      · rw [hx]; exact ha
      · exact ih h x hx
    · simp at h

theorem dropWhile_all_nil {α : Type} {p : α → Bool} {l : List α} (h : ∀ x ∈ l, p x = true) :
    l.dropWhile p = [] := by
  induction l with
  | nil => rfl
  | cons a r ih =>
    simp only [List.dropWhile_cons, h a (by simp), if_true]
    exact ih (fun x hx => h x (List.mem_cons_of_mem _ hx))

theorem dropWhile_cons_head {α : Type} {p : α → Bool} {l : List α} {a : α} {r : List α}
    (h : l.dropWhile p = a :: r) : p a = false := by
  induction l with
  | nil => simp at h
  | cons b bs ih =>
    simp only [List.dropWhile_cons] at h
    split at h
    · exact ih h
    · rename_i hb
      simp only [List.cons.injEq] at h
      rw [← h.1]
      simpa using hb

theorem scanDown_rev {α : Type} (empty : α → Bool) (rl : List α) (cur : Option Nat) :
    scanDown empty rl (rl.length - 1) cur =
      if rl.dropWhile empty = [] then (if rl = [] then cur else some 0)
      else some ((rl.dropWhile empty).length - 1) := by
  induction rl generalizing cur with
  | nil => simp [scanDown]
  | cons x xs ih =>
    simp only [scanDown, List.length_cons, Nat.add_sub_cancel, List.dropWhile_cons]
    by_cases hx : empty x = true
    · simp only [hx, if_true]
      rw [ih]
      by_cases hd : xs.dropWhile empty = []
      · simp only [hd, if_true]
        by_cases hn : xs = []
        · simp [hn]
        · simp [hn]
      · simp [hd]
    · simp [hx]

theorem scanDown_spec {α : Type} (empty : α → Bool) (l : List α) (cur : Option Nat) :
    scanDown empty l.reverse (l.length - 1) cur =
      if trimTrail empty l = [] then (if l = [] then cur else some 0)
      else some ((trimTrail empty l).length - 1) := by
  have := scanDown_rev empty l.reverse cur
  simp only [List.length_reverse] at this
  rw [this]
  simp [trimTrail]

/-! ### declarative normal form and cleanliness -/

/-- a composite with its trailing empty values removed (at least one value stays) -/
def normComp (c : List (List Char)) : List (List Char) :=
  if trimTrail isEmptyVal c = [] then [[]] else trimTrail isEmptyVal c

/-- trailing empty elements removed (at least one element stays), every element normalised -/
def normElems (es : List (List (List Char))) : List (List (List Char)) :=
  if trimTrail isEmptyComp es = [] then [[[]]] else (trimTrail isEmptyComp es).map normComp

def normSeg (s : Seg) : Seg := { id := s.id, elems := normElems s.elems }

def Delims.Distinct (d : Delims) : Prop := d.term ≠ d.ele ∧ d.term ≠ d.sub ∧ d.ele ≠ d.sub

/-- "values contain no delimiter": what the code itself never checks -/
def ValuesClean (d : Delims) (s : Seg) : Prop :=
  d.term ∉ s.id ∧ d.ele ∉ s.id ∧
  ∀ c ∈ s.elems, c ≠ [] ∧ (s.id = isaId → c.length = 1) ∧
    ∀ v ∈ c, d.term ∉ v ∧ d.ele ∉ v ∧ (s.id ≠ isaId → d.sub ∉ v)

/-- the formatted segment does not begin with a character the reader strips -/
def HeadOk (d : Delims) (s : Seg) : Prop :=
  ∀ c, (s.id ++ [d.ele]).head? = some c → c ≠ '\n' ∧ c ≠ '\r' ∧ c ≠ ' '

def Clean (d : Delims) (s : Seg) : Prop := ValuesClean d s ∧ HeadOk d s

/-! ### format -/

theorem formatComp_eq (sub : Char) (c : List (List Char)) (hc : c ≠ []) :
    formatComp sub c = some (joinWith sub (normComp c)) := by
  unfold formatComp
  rw [scanDown_spec]
  by_cases ht : trimTrail isEmptyVal c = []
  · simp only [ht, if_true, hc, if_false, normComp]
    -- every value is empty: the first one is printed
    cases c with
    | nil => exact absurd rfl hc
    | cons v vs =>
      have hv : v = [] := by
        have h1 : (v :: vs).reverse.dropWhile isEmptyVal = [] := by
          have := congrArg List.reverse ht
          simpa [trimTrail] using this
        have h2 := dropWhile_nil_all h1 v (by simp)
        simpa [isEmptyVal] using h2
      simp [hv, joinWith]
  · have hpos : 0 < (trimTrail isEmptyVal c).length := List.length_pos_iff.mpr ht
    simp only [ht, if_false, normComp]
    have : (trimTrail isEmptyVal c).length - 1 + 1 = (trimTrail isEmptyVal c).length := by omega
    rw [this, trimTrail_prefix]

theorem formatComps_eq (sub : Char) (cs : List (List (List Char))) (h : ∀ c ∈ cs, c ≠ []) :
    formatComps sub cs = some (cs.map (fun c => joinWith sub (normComp c))) := by
  induction cs with
  | nil => rfl
  | cons c r ih =>
    simp only [formatComps, formatComp_eq sub c (h c (by simp)),
      ih (fun x hx => h x (List.mem_cons_of_mem _ hx)), both, List.map_cons]

/-- the elements `Segment.format` prints, declaratively -/
def keptSpec (es : List (List (List Char))) : List (List (List Char)) :=
  if trimTrail isEmptyComp es = [] then es.take 1 else trimTrail isEmptyComp es

theorem keptElems_eq (s : Seg) : keptElems s = keptSpec s.elems := by
  unfold keptElems keptSpec
  rw [scanDown_spec]
  by_cases ht : trimTrail isEmptyComp s.elems = []
  · simp only [ht, if_true]
    by_cases hn : s.elems = []
    · simp [hn]
    · simp [hn]
  · have hpos : 0 < (trimTrail isEmptyComp s.elems).length := List.length_pos_iff.mpr ht
    simp only [ht, if_false]
    have : (trimTrail isEmptyComp s.elems).length - 1 + 1 = (trimTrail isEmptyComp s.elems).length := by omega
    rw [this, trimTrail_prefix]

theorem mem_trimTrail {α : Type} {p : α → Bool} {l : List α} {x : α} (h : x ∈ trimTrail p l) : x ∈ l := by
  have := trimTrail_prefix p l
  rw [← this] at h
  exact List.mem_of_mem_take h

theorem mem_keptSpec {es : List (List (List Char))} {c : List (List Char)} (h : c ∈ keptSpec es) : c ∈ es := by
  unfold keptSpec at h
  split at h
  · exact List.mem_of_mem_take h
  · exact mem_trimTrail h

/-- all elements empty: what is printed normalises to one empty value -/
theorem keptSpec_map_norm (es : List (List (List Char))) (hne : ∀ c ∈ es, c ≠ []) :
    (if keptSpec es = [] then [[[]]] else (keptSpec es).map normComp) = normElems es := by
  unfold keptSpec normElems
  by_cases ht : trimTrail isEmptyComp es = []
  · simp only [ht, if_true]
    cases es with
    | nil => simp
    | cons c r =>
      simp only [List.take_succ_cons, List.take_zero, List.map_cons, List.map_nil]
      have h1 : (c :: r).reverse.dropWhile isEmptyComp = [] := by
        have := congrArg List.reverse ht
        simpa [trimTrail] using this
      have h2 : isEmptyComp c = true := dropWhile_nil_all h1 c (by simp)
      have h3 : trimTrail isEmptyVal c = [] := by
        unfold trimTrail
        rw [List.reverse_eq_nil_iff]
        apply dropWhile_all_nil
        intro v hv
        unfold isEmptyComp at h2
        exact List.all_eq_true.mp h2 v (by simpa using hv)
      simp [normComp, h3]
  · simp [ht]

theorem sep_not_mem_join {e x : Char} {ps : List (List Char)} (hx : x ≠ e) (h : ∀ p ∈ ps, x ∉ p) :
    x ∉ joinWith e ps := by
  intro hm
  rcases mem_joinWith hm with h1 | ⟨p, hp, hc⟩
  · exact hx h1
  · exact h p hp hc

theorem mem_normComp {c : List (List Char)} {v : List Char} (h : v ∈ normComp c) : v = [] ∨ v ∈ c := by
  unfold normComp at h
  split at h
  · simp at h; exact Or.inl h
  · exact Or.inr (mem_trimTrail h)

theorem normComp_ne_nil (c : List (List Char)) : normComp c ≠ [] := by
  unfold normComp
  split
  · simp
  · assumption

theorem normComp_single (v : List Char) : normComp [v] = [v] := by
  unfold normComp trimTrail isEmptyVal
  cases v <;> simp

/-- the body `Segment.format` prints between identifier and terminator -/
def bodyOf (d : Delims) (s : Seg) : List Char :=
  s.id ++ d.ele :: joinWith d.ele ((keptSpec s.elems).map (fun c => joinWith d.sub (normComp c)))

theorem formatSeg_eq (d : Delims) (s : Seg) (h : ∀ c ∈ s.elems, c ≠ []) :
    formatSeg d s = some (bodyOf d s ++ [d.term]) := by
  unfold formatSeg bodyOf
  rw [keptElems_eq, formatComps_eq _ _ (fun c hc => h c (mem_keptSpec hc))]
  simp

theorem term_not_mem_body (d : Delims) (s : Seg) (hd : d.Distinct) (hc : ValuesClean d s) :
    d.term ∉ bodyOf d s := by
  unfold bodyOf
  obtain ⟨h1, _, h3⟩ := hc
  simp only [List.mem_append, List.mem_cons, not_or]
  refine ⟨h1, hd.1, ?_⟩
  apply sep_not_mem_join hd.1
  intro p hp
  simp only [List.mem_map] at hp
  obtain ⟨c, hck, rfl⟩ := hp
  apply sep_not_mem_join hd.2.1
  intro v hv
  rcases mem_normComp hv with hv | hv
  · simp [hv]
  · exact ((h3 c (mem_keptSpec hck)).2.2 v hv).1

/-! ### parse after format -/

theorem splitComp_format (d : Delims) (s : Seg) (_hd : d.Distinct) (hc : ValuesClean d s)
    (c : List (List Char)) (hm : c ∈ s.elems) :
    splitComp d s.id (joinWith d.sub (normComp c)) = normComp c := by
  obtain ⟨_, _, h3⟩ := hc
  obtain ⟨hne, hisa, hv⟩ := h3 c hm
  unfold splitComp
  by_cases hi : s.id = isaId
  · simp only [hi, if_true]
    have hl := hisa hi
    match c, hl with
    | [v], _ =>
      rw [normComp_single]
      simp only [joinWith]
      exact splitOn_no_sep _ _ (hv v (by simp)).2.1
  · simp only [hi, if_false]
    apply join_split _ _ (normComp_ne_nil c)
    intro v hvm
    rcases mem_normComp hvm with h | h
    · simp [h]
    · exact (hv v h).2.2 hi

theorem ele_not_mem_fmt (d : Delims) (s : Seg) (hd : d.Distinct) (hc : ValuesClean d s)
    (c : List (List Char)) (hm : c ∈ s.elems) : d.ele ∉ joinWith d.sub (normComp c) := by
  obtain ⟨_, _, h3⟩ := hc
  apply sep_not_mem_join hd.2.2
  intro v hv
  rcases mem_normComp hv with h | h
  · simp [h]
  · exact ((h3 c hm).2.2 v h).2.1

/-- parsing the printed body gives the normal form -/
theorem parse_body (d : Delims) (s : Seg) (hd : d.Distinct) (hc : ValuesClean d s) :
    buildSeg d (splitOn d.ele (bodyOf d s)) = some (normSeg s) := by
  have hc' := hc
  obtain ⟨_, h2, h3⟩ := hc
  unfold bodyOf
  rw [splitOn_append_sep _ _ _ h2]
  simp only [buildSeg, normSeg, Option.some.injEq, Pyx12Verif.Segment.Seg.mk.injEq, true_and]
  rw [← keptSpec_map_norm _ (fun c hm => (h3 c hm).1)]
  by_cases hk : keptSpec s.elems = []
  · simp only [hk, List.map_nil, joinWith, splitOn, List.map_cons, if_true]
    unfold splitComp
    split <;> rfl
  · simp only [hk, if_false]
    rw [join_split _ _ (by simpa using hk)]
    · rw [List.map_map]
      apply List.map_congr_left
      intro c hck
      exact splitComp_format d s hd hc' c (mem_keptSpec hck)
    · intro p hp
      simp only [List.mem_map] at hp
      obtain ⟨c, hck, rfl⟩ := hp
      exact ele_not_mem_fmt d s hd hc' c (mem_keptSpec hck)

theorem stripTerm_concat (t : Char) (b : List Char) : stripTerm t (b ++ [t]) = b := by
  simp [stripTerm]

theorem stripTerm_of_not_mem (t : Char) (b : List Char) (h : t ∉ b) : stripTerm t b = b := by
  unfold stripTerm
  split
  · rename_i hl
    exact absurd (List.mem_of_getLast? hl) h
  · rfl

theorem bodyOf_ne_nil (d : Delims) (s : Seg) : bodyOf d s ≠ [] := by
  unfold bodyOf
  simp

theorem isEmptyComp_normComp (c : List (List Char)) (_hc : c ≠ []) : isEmptyComp (normComp c) = isEmptyComp c := by
  unfold normComp
  by_cases ht : trimTrail isEmptyVal c = []
  · simp only [ht, if_true]
    have h1 : c.reverse.dropWhile isEmptyVal = [] := by
      have := congrArg List.reverse ht
      simpa [trimTrail] using this
    have h2 : ∀ v ∈ c, isEmptyVal v = true := fun v hv => dropWhile_nil_all h1 v (by simpa using hv)
    have : isEmptyComp c = true := by
      unfold isEmptyComp
      exact List.all_eq_true.mpr h2
    rw [this]
    rfl
  · simp only [ht, if_false]
    -- the last kept value is not empty, so neither side is empty
    have hlast : ∃ v ∈ trimTrail isEmptyVal c, isEmptyVal v = false := by
      unfold trimTrail at ht ⊢
      have hne : c.reverse.dropWhile isEmptyVal ≠ [] := by simpa using ht
      cases hdw : c.reverse.dropWhile isEmptyVal with
      | nil => exact absurd hdw hne
      | cons v r =>
        exact ⟨v, by simp, dropWhile_cons_head hdw⟩
    obtain ⟨v, hv, hve⟩ := hlast
    have h1 : isEmptyComp (trimTrail isEmptyVal c) = false := by
      unfold isEmptyComp
      rw [Bool.eq_false_iff]
      intro hall
      have := List.all_eq_true.mp hall v hv
      rw [hve] at this
      exact absurd this (by simp)
    have h2 : isEmptyComp c = false := by
      unfold isEmptyComp
      rw [Bool.eq_false_iff]
      intro hall
      have := List.all_eq_true.mp hall v (mem_trimTrail hv)
      rw [hve] at this
      exact absurd this (by simp)
    rw [h1, h2]

theorem trimTrail_idem {α : Type} (p : α → Bool) (l : List α) : trimTrail p (trimTrail p l) = trimTrail p l := by
  unfold trimTrail
  rw [List.reverse_reverse]
  cases h : l.reverse.dropWhile p with
  | nil => rfl
  | cons a r =>
    have := dropWhile_cons_head h
    simp [this]

theorem normComp_idem (c : List (List Char)) : normComp (normComp c) = normComp c := by
  unfold normComp
  by_cases ht : trimTrail isEmptyVal c = []
  · simp only [ht, if_true]
    rfl
  · simp only [ht, if_false, trimTrail_idem]


theorem normComp_of_empty (c : List (List Char)) (h : isEmptyComp c = true) : normComp c = [[]] := by
  have h3 : trimTrail isEmptyVal c = [] := by
    unfold trimTrail
    rw [List.reverse_eq_nil_iff]
    apply dropWhile_all_nil
    intro v hv
    unfold isEmptyComp at h
    exact List.all_eq_true.mp h v (by simpa using hv)
  simp [normComp, h3]

theorem head_empty_of_trim_nil (c : List (List Char)) (r : List (List (List Char)))
    (ht : trimTrail isEmptyComp (c :: r) = []) : isEmptyComp c = true := by
  have h1 : (c :: r).reverse.dropWhile isEmptyComp = [] := by
    have := congrArg List.reverse ht
    simpa [trimTrail] using this
  exact dropWhile_nil_all h1 c (by simp)

theorem normSeg_comps_ne_nil (s : Seg) : ∀ c ∈ (normSeg s).elems, c ≠ [] := by
  intro c hm
  simp only [normSeg, normElems] at hm
  split at hm
  · simp at hm; simp [hm]
  · simp only [List.mem_map] at hm
    obtain ⟨c0, _, rfl⟩ := hm
    exact normComp_ne_nil c0

theorem keptSpec_norm (es : List (List (List Char))) (hne : ∀ c ∈ es, c ≠ [])
    (ht : trimTrail isEmptyComp es ≠ []) :
    keptSpec ((trimTrail isEmptyComp es).map normComp) = (trimTrail isEmptyComp es).map normComp := by
  have key : trimTrail isEmptyComp ((trimTrail isEmptyComp es).map normComp) =
      (trimTrail isEmptyComp es).map normComp := by
    unfold trimTrail at ht ⊢
    rw [← List.map_reverse, List.reverse_reverse]
    cases hdw : es.reverse.dropWhile isEmptyComp with
    | nil => simp [hdw] at ht
    | cons a r =>
      have ha := dropWhile_cons_head hdw
      have ham : a ∈ es := by
        have : a ∈ es.reverse.dropWhile isEmptyComp := by rw [hdw]; simp
        have := (List.dropWhile_sublist isEmptyComp).subset this
        simpa using this
      have : isEmptyComp (normComp a) = false := by
        rw [isEmptyComp_normComp a (hne a ham)]; simpa using ha
      simp [this]
  unfold keptSpec
  rw [key]
  have : List.map normComp (trimTrail isEmptyComp es) ≠ [] := by simpa using ht
  simp [this]

theorem bodyOf_normSeg (d : Delims) (s : Seg) (hne : ∀ c ∈ s.elems, c ≠ []) :
    bodyOf d (normSeg s) = bodyOf d s := by
  unfold bodyOf
  simp only [normSeg]
  congr 2
  by_cases ht : trimTrail isEmptyComp s.elems = []
  · have h1 : normElems s.elems = [[[]]] := by simp [normElems, ht]
    have h2 : keptSpec s.elems = s.elems.take 1 := by simp [keptSpec, ht]
    have h3 : keptSpec [[([] : List Char)]] = [[[]]] := by decide
    rw [h1, h2, h3]
    cases hes : s.elems with
    | nil => simp [normComp_single, joinWith]
    | cons c r =>
      rw [hes] at ht
      have := normComp_of_empty c (head_empty_of_trim_nil c r ht)
      simp [normComp_single, this, joinWith]
  · have h1 : normElems s.elems = (trimTrail isEmptyComp s.elems).map normComp := by simp [normElems, ht]
    have h2 : keptSpec s.elems = trimTrail isEmptyComp s.elems := by simp [keptSpec, ht]
    rw [h1, h2, keptSpec_norm _ hne ht, List.map_map]
    congr 1
    apply List.map_congr_left
    intro c _
    simp [Function.comp, normComp_idem]

end Pyx12Verif.SegText
