/-
C10 bridge, the glue part of one round of `ctxDoc` (`cStepSeg`), with POSITIONS.

`Proofs/CtxFullGlue.lean` classifies the answer of every round by its shape (loop paths only).  Here, for every segment and
every state, the round is of one of three kinds (`RoundKind`):

  walked        the answer passes the reader's consistency check `Ctx.stepOk` AND the monotonicity check `Ctx.segMonoOk`
                against the view `Wn o` of the previous map node `o`, and leads to the view `Wn n` of the new node — whether
                the walker found a node (`step_consistent`, `walk_pos_monotone`), found none (`notfound_step`: the previous
                node once more) or the 278 map switch replaced the BHT node by that of another map (`BhtAgree`: the maps the
                switch can connect — the index targets of ONE 278 release, `InFam` — give the envelope loops
                ISA_LOOP/GS_LOOP/ST_LOOP/HEADER and the first segment of HEADER the same positions; the glue invariant
                `FamInv` keeps the current node inside the family of the release read at the last GS);
  ISA pinned    the answer's path is `ISA_LOOP`;
  GS pinned     the answer's path is `ISA_LOOP/GS_LOOP`, and it is a first segment.
-/
import Pyx12Verif.Proofs.CtxFullRun
import Pyx12Verif.Proofs.C10BridgeWalk

namespace Pyx12Verif.Doc
open Pyx12Verif

/-- the reader's view of the map position of a map node: the open loops with their positions, and the node's own -/
def Wn (n : NodeRef) : Ctx.Where :=
  { open_ := CtxWalk.stackAt n.map.root n.ip.dropLast, last := WalkerGen.posAt n.map.root n.ip }

/-- every loaded map is well-formed in the sense of C02 (`WFMap`: children in position order, distinct counter keys,
    well-shaped wrappers) -/
def MapsPosWF (ms : Maps) : Prop := ∀ m ∈ ms.maps, WalkerGen.WFMap m.root = true

/-- the maps the 278 switch at BHT can connect while GS08 = `v` and GS01 = `fic`: the control maps and every index target
    of that release and functional group (`get_filename(icvn, vriic, fic, tspc)` returns the file of an entry whose `vriic`
    and `fic` are the ones asked for) -/
def InFam (ms : Maps) (v : Str) (fic : Option Str) (m : MapX) : Prop :=
  m.file = ctl401 ∨ m.file = ctl501 ∨ ∃ e ∈ ms.index, e.vriic = some v ∧ e.fic = fic ∧ e.file = some m.file

def inFamB (ms : Maps) (v : Str) (fic : Option Str) (m : MapX) : Bool :=
  decide (m.file = ctl401) || decide (m.file = ctl501) ||
    ms.index.any (fun e => decide (e.vriic = some v) && decide (e.fic = fic) && decide (e.file = some m.file))

theorem inFam_of_bool {ms : Maps} {v : Str} {fic : Option Str} {m : MapX} : inFamB ms v fic m = true ↔ InFam ms v fic m := by
  simp only [inFamB, InFam, Bool.or_eq_true, decide_eq_true_eq, List.any_eq_true, Bool.and_eq_true, or_assoc, and_assoc]

/-- the maps of one 278 family agree on the positions of ISA_LOOP / GS_LOOP / ST_LOOP / HEADER and of the first segment of
    HEADER (an instance of these loops can span two maps: the 278 switch at BHT) -/
def BhtAgree (ms : Maps) : Prop :=
  ∀ v fic, (v = v278a ∨ v = v278b) → ∀ m1 ∈ ms.maps, ∀ m2 ∈ ms.maps, InFam ms v fic m1 → InFam ms v fic m2 →
    ∀ q1 q2, CtxWalk.SegAt m1.root q1 → CtxWalk.SegAt m2.root q2 →
    q1.getLast? = some 0 → q2.getLast? = some 0 →
    cxPath m1.root q1.dropLast = bhtLoopPath ms → cxPath m2.root q2.dropLast = bhtLoopPath ms →
    cxRecs m1.root q1.dropLast = cxRecs m2.root q2.dropLast ∧ cxPos m1.root q1 = cxPos m2.root q2

/-- is this index path the first segment of a loop with path ISA_LOOP/GS_LOOP/ST_LOOP/HEADER? -/
def isBhtPlace (ms : Maps) (m : MapX) (q : List Nat) : Bool :=
  (q.getLast? == some 0) && (cxPath m.root q.dropLast == bhtLoopPath ms)

/-- every pair of such places in the two maps carries the same loop records and the same position -/
def bhtPairB (ms : Maps) (m1 m2 : MapX) : Bool :=
  segsAllList (fun q1 _ => segsAllList (fun q2 _ =>
      !(isBhtPlace ms m1 q1 && isBhtPlace ms m2 q2) ||
        (decide (cxRecs m1.root q1.dropLast = cxRecs m2.root q2.dropLast) && decide (cxPos m1.root q1 = cxPos m2.root q2)))
    [] 0 m2.root) [] 0 m1.root

/-- decidable form of `BhtAgree`: the functional groups that matter are those of the index (and `none`, which stands for
    every group the index does not mention: only the control maps are in such a family) -/
def bhtAgreeB (ms : Maps) : Bool :=
  [v278a, v278b].all (fun v => (none :: ms.index.map (fun e => e.fic)).all (fun fic =>
    ms.maps.all (fun m1 => ms.maps.all (fun m2 =>
      !(inFamB ms v fic m1 && inFamB ms v fic m2) || bhtPairB ms m1 m2))))

theorem segAt_node {root : List MapSkel.Node} {q : List Nat} (h : CtxWalk.SegAt root q) :
    ∃ sid a b c d e g, Walker.nodeAt root q = some (.seg sid a b c d e g) := by
  obtain ⟨L, i, ch, c, rfl, hch, hc, hseg⟩ := h
  have hn : Walker.nodeAt root (L ++ [i]) = some c := by rw [WalkerGen.nodeAt_snoc hch]; exact hc
  cases c with
  | loop => simp [MapSkel.Node.isSeg] at hseg
  | seg sid a b c d e g => exact ⟨sid, a, b, c, d, e, g, hn⟩

/-- a family of a group the index does not mention consists of control maps only: it is part of every family -/
theorem inFam_other {ms : Maps} {v : Str} {fic : Option Str} {m : MapX} (hno : fic ∉ ms.index.map (fun e => e.fic))
    (h : InFam ms v fic m) : InFam ms v none m := by
  rcases h with h | h | ⟨e, he, _, hf, _⟩
  · exact Or.inl h
  · exact Or.inr (Or.inl h)
  · exact absurd (List.mem_map.2 ⟨e, he, hf⟩) hno

theorem bhtAgree_of_bool {ms : Maps} (h : bhtAgreeB ms = true) : BhtAgree ms := by
  intro v fic hv m1 hm1 m2 hm2 hf1 hf2 q1 q2 hs1 hs2 hl1 hl2 hp1 hp2
  have hv' : v ∈ [v278a, v278b] := by simpa using hv
  have key : ∀ fic', fic' ∈ (none :: ms.index.map (fun e => e.fic)) → InFam ms v fic' m1 → InFam ms v fic' m2 →
      bhtPairB ms m1 m2 = true := by
    intro fic' hfic' g1 g2
    have h1 := List.all_eq_true.1 (List.all_eq_true.1 (List.all_eq_true.1 (List.all_eq_true.1 h v hv') fic' hfic') m1 hm1) m2 hm2
    simpa only [inFam_of_bool.2 g1, inFam_of_bool.2 g2, Bool.and_self, Bool.not_true, Bool.false_or] using h1
  have h1 : bhtPairB ms m1 m2 = true := by
    by_cases hin : fic ∈ ms.index.map (fun e => e.fic)
    · exact key fic (List.mem_cons_of_mem _ hin) hf1 hf2
    · exact key none (by simp) (inFam_other hin hf1) (inFam_other hin hf2)
  simp only [bhtPairB] at h1
  obtain ⟨sid1, a1, b1, c1, d1, e1, g1, hn1⟩ := segAt_node hs1
  obtain ⟨sid2, a2, b2, c2, d2, e2, g2, hn2⟩ := segAt_node hs2
  have k1 := segsAll_sound q1 [] m1.root h1 _ _ _ _ _ _ _ hn1
  simp only [List.nil_append] at k1
  have k2 := segsAll_sound q2 [] m2.root k1 _ _ _ _ _ _ _ hn2
  simp only [List.nil_append, isBhtPlace, hl1, hl2, hp1, hp2, beq_self_eq_true, Bool.and_self, Bool.not_true,
    Bool.false_or, Bool.and_eq_true, decide_eq_true_eq] at k2
  exact k2

/-! ### the family invariant of the glue -/

/-- `cur_map` is the map named by `self.map_file`; the map of a node lies in the family of the release `vriic` was set to -/
def FamInvN (ms : Maps) (st : CState) (n : NodeRef) : Prop :=
  (∀ m, st.curMap = some m → st.mapFile = some m.file) ∧ (∀ v, st.vriic = some v → InFam ms v st.fic n.map)

def FamInv (ms : Maps) (st : CState) : Prop :=
  (∀ m, st.curMap = some m → st.mapFile = some m.file) ∧ (∀ n v, st.node = some n → st.vriic = some v → InFam ms v st.fic n.map)

theorem getFilename_mem : ∀ (idx : List IndexEntry) (icvn vriic fic tspc : Option Str) (f : Str),
    getFilename idx icvn vriic fic tspc = some f → ∃ e ∈ idx, e.vriic = vriic ∧ e.fic = fic ∧ e.file = some f
  | [], _, _, _, _, _, h => by simp [getFilename] at h
  | a :: r, icvn, vriic, fic, tspc, f, h => by
    simp only [getFilename] at h
    split at h
    · rename_i hc
      exact ⟨a, by simp, hc.2.1, hc.2.2.1, h⟩
    · obtain ⟨e, he, h1, h2, h3⟩ := getFilename_mem r icvn vriic fic tspc f h
      exact ⟨e, List.mem_cons_of_mem _ he, h1, h2, h3⟩

theorem findMap_file {ms : Maps} {f : Str} {m : MapX} (h : findMap ms f = some m) : m.file = f := by
  have := List.find?_some h
  simpa using this

theorem inFam_of_index {ms : Maps} {icvn fic tspc : Option Str} {v f : Str} {m : MapX}
    (h : getFilename ms.index icvn (some v) fic tspc = some f) (hm : m.file = f) : InFam ms v fic m := by
  obtain ⟨e, he, h1, h2, h3⟩ := getFilename_mem _ _ _ _ _ _ h
  exact Or.inr (Or.inr ⟨e, he, h1, h2, by rw [hm]; exact h3⟩)

def RoundKind (ms : Maps) (lid : Option Ctx.LoopId) (n0 : Option NodeRef) (n : NodeRef) (a : Ctx.Answer) : Prop :=
  (∃ o, n0 = some o ∧ Ctx.stepOk lid (Wn o) a = some (Wn n) ∧ Ctx.segMonoOk (Wn o) a = true) ∨
  a.path = isaLoopPath ms ∨ (a.path = gsLoopPath ms ∧ a.first = true)

def BranchPos (ms : Maps) (lid : Option Ctx.LoopId) (n0 : Option NodeRef) (si : Ctx.SegInfo) : CBranch → Prop
  | .stop _ => True
  | .go st n pops pushes => FamInvN ms st n ∧ RoundKind ms lid n0 n (answerAt n si pops pushes)

def StepPos (ms : Maps) (lid : Option Ctx.LoopId) (n0 : Option NodeRef) : CStep → Prop
  | .stop _ => True
  | .next st r => FamInv ms st ∧
      ∃ n, st.node = some n ∧ r.ans = answerAt n r.ans.seg r.ans.pops r.ans.pushes ∧ RoundKind ms lid n0 n r.ans

theorem cAfterBranch_pos (ms : Maps) (lid : Option Ctx.LoopId) (n0 : Option NodeRef) (si : Ctx.SegInfo) (we : List Str)
    (re : List RdErr) (b : CBranch) (hb : BranchPos ms lid n0 si b) : StepPos ms lid n0 (cAfterBranch ms si we re b) := by
  cases b with
  | stop o => trivial
  | go st n pops pushes =>
    refine ⟨⟨hb.1.1, ?_⟩, n, rfl, rfl, hb.2⟩
    intro n' v hn' hv
    simp only [Option.some.injEq] at hn'
    rw [← hn']; exact hb.1.2 v hv

theorem lidA_ok {ms : Maps} {lid : Option Ctx.LoopId} (h : LidA ms lid) {m : MapX} (hm : m ∈ ms.maps) :
    CtxWalk.LidOK? m.root lid := by
  cases lid with
  | none => trivial
  | some l => exact h l rfl m hm

/-- "no node": the previous node once more -/
theorem again_kind {ms : Maps} (hmg : MapsGood ms) (hwf : MapsPosWF ms) {lid : Option Ctx.LoopId} (hlid : LidA ms lid)
    {o : NodeRef} (ho : NodeOK ms o) (si : Ctx.SegInfo) : RoundKind ms lid (some o) o (answerAt o si [] []) := by
  have hs := (mapGood_of_bool (hmg o.map ho.1)).static
  have hw := WalkerGen.wfAt_root (hwf o.map ho.1)
  have e : answerAt o si [] [] = CtxWalk.answerOf o.map.root si o.ip [] [] := by
    have := answerAt_eq o.map o.ip si [] []
    simpa [cxPops, cxPushes] using this
  refine Or.inl ⟨o, rfl, ?_, ?_⟩
  · rw [e]; exact CtxWalk.notfound_step hs hw (lidA_ok hlid ho.1) ho.2 si
  · rw [e]; exact CtxWalk.notfound_mono o.map.root o.ip si

theorem cAfterFind_none_pos {ms : Maps} (hmg : MapsGood ms) (hwf : MapsPosWF ms) {lid : Option Ctx.LoopId}
    (hlid : LidA ms lid) (d : Delims) (s : Seg) (si : Ctx.SegInfo) (re : List RdErr) {st : CState}
    (hG : GInv ms st) (hF : FamInv ms st) (cnt : Walker.Counter) (we : List Str) :
    StepPos ms lid st.node (cAfterFind ms d s si re st (.res none [] [] cnt we)) := by
  simp only [cAfterFind]
  cases hnode : st.node with
  | none => trivial
  | some o =>
    refine ⟨⟨hF.1, ?_⟩, o, rfl, rfl, again_kind hmg hwf hlid (hG.1 o hnode) si⟩
    intro n v hn hv
    exact hF.2 n v (hnode.trans hn) hv

/-- `cWithNewMap`, keeping the file name and the lookup -/
theorem cWithNewMap_post' (ms : Maps) {P : CBranch → Prop} (hstop : ∀ o, P (.stop o)) (st : CState) (file : Option Str)
    (k : CState → MapX → CBranch)
    (hk : ∀ m f, file = some f → findMap ms f = some m →
      P (k { st with mapFile := some f, curMap := some m, rs := { st.rs with chk837 := m.is837 } } m)) :
    P (cWithNewMap ms st file k) := by
  unfold cWithNewMap
  cases file with
  | none => exact hstop _
  | some f =>
    simp only
    cases hf : findMap ms f with
    | none => exact hstop _
    | some m => exact hk m f rfl hf

theorem cGsTail_pos {ms : Maps} (hmg : MapsGood ms) (lid : Option Ctx.LoopId) (o : NodeRef) (st : CState) {m : MapX}
    (hm : m ∈ ms.maps) (si : Ctx.SegInfo) (hK : ∀ m', st.curMap = some m' → st.mapFile = some m'.file)
    (hV : ∀ v, st.vriic = some v → InFam ms v st.fic m) : BranchPos ms lid (some o) si (cGsTail ms o st m) := by
  unfold cGsTail
  cases hf : fetchIn ms m (gsPath ms) with
  | none => trivial
  | some n =>
    obtain ⟨hmap, _, hlast, hpath⟩ := pinOK_spec (mapGood_of_bool (hmg m hm)).gs hf
    refine ⟨⟨hK, fun v hv => by rw [hmap]; exact hV v hv⟩, Or.inr (Or.inr ⟨?_, ?_⟩)⟩
    · simp only [answerAt, hmap, hpath]
    · simp [answerAt, hlast]

theorem cGsBranch_pos {ms : Maps} (hmg : MapsGood ms) (lid : Option Ctx.LoopId) (d : Delims) (s : Seg) (o : NodeRef)
    {st : CState} (hcm : CurMapIn ms st) (hK : ∀ m', st.curMap = some m' → st.mapFile = some m'.file) (si : Ctx.SegInfo) :
    BranchPos ms lid (some o) si (cGsBranch ms d s o st) := by
  unfold cGsBranch
  split
  · apply cWithNewMap_post' ms (fun _ => trivial)
    intro m f hfile hfm
    unfold cGsReload
    have hmf := findMap_file hfm
    refine cGsTail_pos hmg lid o _ (findMap_mem hfm) si ?_ ?_
    · intro m' hm'
      simp only [Option.some.injEq] at hm'
      rw [← hm', hmf]
    · intro v hv
      have hv' : gv d s 7 = some v := hv
      rw [hv'] at hfile
      exact inFam_of_index hfile hmf
  · rename_i hcond
    cases hc : st.curMap with
    | none => trivial
    | some m =>
      simp only
      refine cGsTail_pos hmg lid o _ (hcm m hc) si (fun m' hm' => hK m' (hc.trans hm')) ?_
      intro v hv
      have hv' : gv d s 7 = some v := hv
      have hmf : st.mapFile = getFilename ms.index st.icvn (gv d s 7) (gv d s 0) none := by
        apply Classical.byContradiction
        intro hne
        exact hcond (Or.inl hne)
      rw [hK m hc, hv'] at hmf
      exact inFam_of_index hmf.symm rfl

/-- the loop of a located segment node -/
theorem nodeOK_loop {ms : Maps} (hmg : MapsGood ms) {n : NodeRef} (hn : NodeOK ms n) :
    CtxWalk.LoopAt n.map.root n.ip.dropLast :=
  CtxWalk.segAt_loopAt (mapGood_of_bool (hmg n.map hn.1)).static hn.2

/-- the 278 switch: the BHT node of the other map stands at the same place -/
theorem bht_same {ms : Maps} (hmg : MapsGood ms) (henv : BhtAgree ms) {v : Str} (hv : v = v278a ∨ v = v278b)
    {fic : Option Str} {n n' : NodeRef} (hn : NodeOK ms n) (hn' : NodeOK ms n') (hf : InFam ms v fic n.map)
    (hf' : InFam ms v fic n'.map)
    (h1 : n.ip.getLast? = some 0) (h2 : cxPath n.map.root n.ip.dropLast = bhtLoopPath ms)
    (h1' : n'.ip.getLast? = some 0) (h2' : cxPath n'.map.root n'.ip.dropLast = bhtLoopPath ms)
    (si : Ctx.SegInfo) (pops : List Ctx.LPath) (pushes : List (Ctx.LPath × Nat)) :
    Wn n' = Wn n ∧ answerAt n' si pops pushes = answerAt n si pops pushes := by
  have hl := nodeOK_loop hmg hn
  have hl' := nodeOK_loop hmg hn'
  obtain ⟨e1, e2⟩ := henv v fic hv n.map hn.1 n'.map hn'.1 hf hf' _ _ hn.2 hn'.2 h1 h1' h2 h2'
  rw [cxRecs_eq, cxRecs_eq] at e1
  have es : CtxWalk.stackAt n.map.root n.ip.dropLast = CtxWalk.stackAt n'.map.root n'.ip.dropLast := by
    simp only [CtxWalk.stackAt, e1]
  rw [cxPos_eq, cxPos_eq] at e2
  have hpp : WalkerGen.posAt n'.map.root n'.ip.dropLast = WalkerGen.posAt n.map.root n.ip.dropLast := by
    have a1 := CtxWalk.stackAt_head hl
    have a2 := CtxWalk.stackAt_head hl'
    rw [es] at a1
    rw [a1] at a2
    simpa using a2.symm
  refine ⟨?_, ?_⟩
  · simp only [Wn, es, e2]
  · simp only [answerAt, h2, h2', h1, h1', cxPos_eq, e2, hpp]

theorem cBhtBranch_pos {ms : Maps} (hmg : MapsGood ms) (henv : BhtAgree ms) (lid : Option Ctx.LoopId) (d : Delims) (s : Seg)
    (st : CState) {n : NodeRef} (hn : NodeOK ms n) (n0 : Option NodeRef) (si : Ctx.SegInfo) (pops : List Ctx.LPath)
    (pushes : List (Ctx.LPath × Nat)) (hFn : FamInvN ms st n) (hk : RoundKind ms lid n0 n (answerAt n si pops pushes))
    (hb1 : n.ip.getLast? = some 0) (hb2 : cxPath n.map.root n.ip.dropLast = bhtLoopPath ms) :
    BranchPos ms lid n0 si (cBhtBranch ms d s st n pops pushes) := by
  unfold cBhtBranch
  split
  · rename_i hv278
    split
    · apply cWithNewMap_post' ms (fun _ => trivial)
      intro m f hfile hfm
      have hm := findMap_mem hfm
      have hmf := findMap_file hfm
      unfold cBhtSwitch
      cases hf : fetchIn ms m (bhtPath ms) with
      | none => trivial
      | some n' =>
        obtain ⟨hmap, hseg, hlast, hpath⟩ := pinOK_spec (mapGood_of_bool (hmg m hm)).bht hf
        have hn' : NodeOK ms n' := ⟨by rw [hmap]; exact hm, by rw [hmap]; exact hseg⟩
        obtain ⟨v, hv, hvv⟩ : ∃ v, st.vriic = some v ∧ (v = v278a ∨ v = v278b) := by
          rcases hv278 with h | h
          · exact ⟨v278a, h, Or.inl rfl⟩
          · exact ⟨v278b, h, Or.inr rfl⟩
        have hfam' : InFam ms v st.fic n'.map := by
          rw [hmap]
          rw [hv] at hfile
          exact inFam_of_index hfile hmf
        obtain ⟨eW, eA⟩ := bht_same hmg henv hvv hn hn' (hFn.2 v hv) hfam' hb1 hb2 hlast (by rw [hmap]; exact hpath)
          si pops pushes
        refine ⟨⟨?_, ?_⟩, ?_⟩
        · intro m' hm'
          simp only [Option.some.injEq] at hm'
          rw [← hm', hmf]
        · intro v' hv'
          have e : st.vriic = some v' := hv'
          rw [hv] at e
          simp only [Option.some.injEq] at e
          rw [← e]; exact hfam'
        · show RoundKind ms lid n0 n' (answerAt n' si pops pushes)
          rw [eA]
          rcases hk with ⟨o, ho, h1, h2⟩ | h | h
          · exact Or.inl ⟨o, ho, by rw [eW]; exact h1, h2⟩
          · exact Or.inr (Or.inl h)
          · exact Or.inr (Or.inr h)
    · exact ⟨hFn, hk⟩
  · exact ⟨hFn, hk⟩

/-- **the glue part of a round, with positions**: node search and per-segment-kind branch -/
theorem cFind_pos {ms : Maps} (hmg : MapsGood ms) (hwf : MapsPosWF ms) {lid : Option Ctx.LoopId} (hlid : LidA ms lid)
    (henv : BhtAgree ms) {control : MapX} (hctl : control ∈ ms.maps) (hcf : control.file = ctl401 ∨ control.file = ctl501)
    (d : Delims) (s : Seg) (si : Ctx.SegInfo) (re : List RdErr) {st : CState} (hG : GInv ms st) (hF : FamInv ms st) :
    StepPos ms lid st.node (cAfterFind ms d s si re st (cFind ms control d s st)) := by
  unfold cFind
  by_cases hisa : s.id = Envelope.idISA
  · simp only [hisa, if_true]
    cases hf : fetchIn ms control (isaPath ms) with
    | none => exact cAfterFind_none_pos hmg hwf hlid d s si re hG hF _ _
    | some n =>
      obtain ⟨hmap, hseg, hlast, hpath⟩ := pinOK_spec (mapGood_of_bool (hmg control hctl)).isa hf
      simp only [cAfterFind, cBranch, hisa, if_true]
      apply cAfterBranch_pos
      refine ⟨⟨hF.1, ?_⟩, Or.inr (Or.inl ?_)⟩
      · intro v _
        rw [hmap]
        rcases hcf with h | h
        · exact Or.inl h
        · exact Or.inr (Or.inl h)
      · simp only [answerAt, hmap, hpath]
  · simp only [hisa, if_false]
    by_cases hgs : s.id = Envelope.idGS
    · simp only [hgs, if_true]
      cases hf : fetchIn ms control (gsPath ms) with
      | none => exact cAfterFind_none_pos hmg hwf hlid d s si re hG hF _ _
      | some n0 =>
        have h1 : ¬ Envelope.idGS = Envelope.idISA := fun e => idISA_ne_idGS e.symm
        simp only [cAfterFind, cBranch, hgs, h1, if_true, if_false]
        cases hnode : st.node with
        | none => trivial
        | some o =>
          simp only
          apply cAfterBranch_pos
          refine cGsBranch_pos hmg lid d s o ?_ ?_ si
          · exact hG.2
          · exact hF.1
    · simp only [hgs, if_false]
      cases hnode : st.node with
      | none => trivial
      | some cur =>
        simp only [cWalk, cFoundOf]
        have hcur := hG.1 cur hnode
        have hgood := mapGood_of_bool (hmg cur.map hcur.1)
        have hw := WalkerGen.wfAt_root (hwf cur.map hcur.1)
        cases hres : (Walker.walk ms.consts cur.map.root cur.map.rootId st.cnt cur.ip (segData ms cur.map d s)).node with
        | none =>
          obtain ⟨hp, hq⟩ := CtxWalk.walk_none_lists st.cnt cur.ip (segData ms cur.map d s) hres
            (K := ms.consts) (root := cur.map.root) (rootId := cur.map.rootId)
          simp only [cNodeOf, hp, hq, cxPops, cxPushes, List.map_nil]
          have := cAfterFind_none_pos hmg hwf hlid d s si re hG hF
            (Walker.walk ms.consts cur.map.root cur.map.rootId st.cnt cur.ip (segData ms cur.map d s)).st.cnt
            (List.map werrCode (Walker.walk ms.consts cur.map.root cur.map.rootId st.cnt cur.ip (segData ms cur.map d s)).st.errs)
          rw [hnode] at this
          exact this
        | some ip =>
          have hf := CtxWalk.walk_facts2 hgood.static hcur.2 st.cnt hres
          have hpm := CtxWalk.walk_pos_monotone hcur.2 st.cnt hres
          have hn : NodeOK ms ⟨cur.map, ip⟩ := ⟨hcur.1, CtxWalk.segAt_of_facts hf⟩
          have hk : RoundKind ms lid (some cur) ⟨cur.map, ip⟩ (answerAt ⟨cur.map, ip⟩ si
              (cxPops cur.map.root (Walker.walk ms.consts cur.map.root cur.map.rootId st.cnt cur.ip (segData ms cur.map d s)).pops)
              (cxPushes cur.map.root (Walker.walk ms.consts cur.map.root cur.map.rootId st.cnt cur.ip (segData ms cur.map d s)).pushes)) := by
            rw [answerAt_eq]
            refine Or.inl ⟨cur, rfl, ?_, ?_⟩
            · exact CtxWalk.step_consistent hw (lidA_ok hlid hcur.1) (CtxWalk.segAt_dropLast hcur.2) hf si
            · exact CtxWalk.step_mono hf hpm si
          have hFn : FamInvN ms { st with cnt := (Walker.walk ms.consts cur.map.root cur.map.rootId st.cnt cur.ip
              (segData ms cur.map d s)).st.cnt } ⟨cur.map, ip⟩ :=
            ⟨hF.1, fun v hv => hF.2 cur v hnode hv⟩
          simp only [cNodeOf, cAfterFind, cBranch, hisa, hgs, if_false]
          apply cAfterBranch_pos
          by_cases hb : s.id = sBHT
          · simp only [hb, if_true]
            obtain ⟨hb1, hb2⟩ := bht_node hgood hcur.2 st.cnt d s hb hres
            exact cBhtBranch_pos hmg henv lid d s _ hn (some cur) si _ _ hFn hk hb1 hb2
          · simp only [hb, if_false]
            exact ⟨hFn, hk⟩

/-- one round of the glue, from the segment text on -/
theorem cStepSeg_pos {ms : Maps} (hmg : MapsGood ms) (hwf : MapsPosWF ms) {lid : Option Ctx.LoopId} (hlid : LidA ms lid)
    (henv : BhtAgree ms) {control : MapX} (hctl : control ∈ ms.maps) (hcf : control.file = ctl401 ∨ control.file = ctl501)
    (d : Delims) (k : Nat) (le : List SegText.RErr) (s : Seg) {st : CState} (hG : GInv ms st) (hF : FamInv ms st) :
    StepPos ms lid st.node (cStepSeg ms control d k le s st) := by
  unfold cStepSeg
  cases Pipeline.viewOf d s with
  | none => trivial
  | some v =>
    simp only [cWithView]
    cases Envelope.step Envelope.Fixes.all st.rs v with
    | crash e => trivial
    | raised => trivial
    | ok r =>
      simp only [cAfterReader]
      have hG' : GInv ms { st with rs := r.1 } := hG
      have hF' : FamInv ms { st with rs := r.1 } := hF
      exact cFind_pos hmg hwf hlid henv hctl hcf d s _ _ hG' hF'

end Pyx12Verif.Doc
