/-
Helper lemmas for `Props/DocAccept.lean`:

* `segment_if.is_valid` only ever calls `add_ele` / `ele_error` (`segEvents_eleOnly`);
* the error-tree state machine does not raise on error-free events once its "current" pointers are set
  (`step_ptr`, `run_ptr`), and stays clean (C05 `ErrTree.run_clean`).
-/
import Pyx12Verif.Proofs.DocValid

namespace Pyx12Verif.Doc
open Pyx12Verif

/-! ### kinds of events `node.is_valid` produces -/

def isEle : Event → Bool
  | .addEle _ _ _ => true
  | .eleError _ _ _ => true
  | _ => false

def EleOnly (evs : List Event) : Prop := ∀ e ∈ evs, isEle e = true

theorem EleOnly.nil : EleOnly [] := by intro e he; cases he

theorem EleOnly.append {a b : List Event} (ha : EleOnly a) (hb : EleOnly b) : EleOnly (a ++ b) := by
  intro e he
  rcases List.mem_append.1 he with h | h
  · exact ha e h
  · exact hb e h

def ERes.EleOnly : ERes → Prop
  | .ok _ evs => Doc.EleOnly evs
  | .crash _ => True

theorem eleOnly_andThen {a b : ERes} (ha : a.EleOnly) (hb : b.EleOnly) : (a.andThen b).EleOnly := by
  cases a with
  | crash s => trivial
  | ok v x =>
    cases b with
    | crash s => trivial
    | ok w y => exact EleOnly.append ha hb

theorem elemEvents_eleOnly (ctx : Ctx) (v5 : Bool) (pos : Nat) (sub : Option Nat) (e : ElemX) (tl : List Str) (i : EIn) :
    (elemEvents ctx v5 pos sub e tl i).EleOnly := by
  unfold elemEvents
  split
  · trivial
  · intro ev hev
    simp only [List.mem_cons, List.mem_map] at hev
    rcases hev with rfl | ⟨r, _, rfl⟩
    · rfl
    · rfl

theorem kidsEvents_eleOnly (ctx : Ctx) (v5 : Bool) (pos : Nat) : ∀ (ks : List ElemX) (vs : List Str),
    (kidsEvents ctx v5 pos ks vs).EleOnly := by
  intro ks
  induction ks with
  | nil => intro vs; simp only [kidsEvents]; exact EleOnly.nil
  | cons k ks ih =>
    intro vs
    cases vs with
    | nil => simp only [kidsEvents]; exact eleOnly_andThen (elemEvents_eleOnly _ _ _ _ _ _ _) (ih [])
    | cons v vs => simp only [kidsEvents]; exact eleOnly_andThen (elemEvents_eleOnly _ _ _ _ _ _ _) (ih vs)

theorem compErr_eleOnly (seq : Nat) (de : Option Str) (code msg : Str) : EleOnly (compErr seq de code msg) := by
  intro e he
  simp only [compErr, List.mem_cons, List.mem_nil_iff, or_false] at he
  rcases he with rfl | rfl <;> rfl

theorem compEvents_eleOnly (ctx : Ctx) (v5 : Bool) (u : Usage) (seq : Nat) (nm rd : Str) (de : Option Str)
    (kids : List ElemX) (data : Option (List Str)) : (compEvents ctx v5 u seq nm rd de kids data).EleOnly := by
  cases data with
  | none =>
    cases u with
    | R => exact compErr_eleOnly _ _ _ _
    | S => exact EleOnly.nil
    | N => exact EleOnly.nil
  | some vs =>
    simp only [compEvents]
    split
    · exact EleOnly.nil
    · split
      · exact compErr_eleOnly _ _ _ _
      · unfold compPresentEvents
        split
        · exact compErr_eleOnly _ _ _ _
        · refine eleOnly_andThen ?_ (kidsEvents_eleOnly _ _ _ _ _)
          show EleOnly _
          split
          · exact compErr_eleOnly _ _ _ _
          · exact EleOnly.nil

theorem childAbsent_eleOnly (ctx : Ctx) (v5 : Bool) (c : ChildX) : (childAbsent ctx v5 c).EleOnly := by
  cases c with
  | elem x => exact elemEvents_eleOnly _ _ _ _ _ _ _
  | comp u seq nm rd de kids => simp only [childAbsent]; exact compEvents_eleOnly _ _ _ _ _ _ _ _ _

theorem childPresent_eleOnly (ctx : Ctx) (v5 : Bool) (sep : Char) (sid : Str) (i : Nat) (dt tl : List Str) (data : List Str)
    (c : ChildX) : (childPresent ctx v5 sep sid i dt tl data c).EleOnly := by
  cases c with
  | elem x =>
    simp only [childPresent, elemAt]
    cases elemIn sep data with
    | none => trivial
    | some i => exact elemEvents_eleOnly _ _ _ _ _ _ _
  | comp u seq nm rd de kids => simp only [childPresent]; exact compEvents_eleOnly _ _ _ _ _ _ _ _ _

theorem childrenEvents_eleOnly (ctx : Ctx) (v5 : Bool) (sep : Char) (sid : Str) (v02 : Option Str) :
    ∀ (cs : List ChildX) (i : Nat) (dt tl : List Str) (es : List (List Str)),
      (childrenEvents ctx v5 sep sid v02 i dt tl cs es).EleOnly := by
  intro cs
  induction cs with
  | nil => intro i dt tl es; simp only [childrenEvents]; exact EleOnly.nil
  | cons c cs ih =>
    intro i dt tl es
    cases es with
    | nil => simp only [childrenEvents]; exact eleOnly_andThen (childAbsent_eleOnly _ _ _) (ih _ _ _ [])
    | cons e es =>
      simp only [childrenEvents]
      exact eleOnly_andThen (childPresent_eleOnly _ _ _ _ _ _ _ _ _) (ih _ _ _ es)

theorem tooManyEvents_eleOnly (d : Delims) (sd : SegDef) (s : Seg) : (tooManyEvents d sd s).EleOnly := by
  unfold tooManyEvents
  split
  · split
    · trivial
    · cases Pipeline.getValue d s sd.children.length with
      | crash => trivial
      | absent =>
        intro e he
        simp only [List.mem_cons, List.mem_nil_iff, or_false] at he
        rcases he with rfl | rfl <;> rfl
      | value v =>
        intro e he
        simp only [List.mem_cons, List.mem_nil_iff, or_false] at he
        rcases he with rfl | rfl <;> rfl
  · exact EleOnly.nil

theorem noteErrEvents_eleOnly (sd : SegDef) (sid : Str) (n : Syn.Note) (e : Syn.EleErr) :
    EleOnly (noteErrEvents sd sid n e) := by
  unfold noteErrEvents noteAddEle
  refine EleOnly.append ?_ (by intro x hx; simp at hx; subst hx; rfl)
  split
  · cases sd.children[e.pos - 1]? with
    | none => exact EleOnly.nil
    | some c =>
      intro x hx
      simp at hx
      subst hx
      cases c <;> rfl
  · exact EleOnly.nil

theorem flatten_eleOnly : ∀ (l : List (List Event)), (∀ x ∈ l, EleOnly x) → EleOnly l.flatten
  | [], _ => EleOnly.nil
  | x :: r, h => by
    simp only [List.flatten_cons]
    exact EleOnly.append (h x (by simp)) (flatten_eleOnly r (fun y hy => h y (List.mem_cons_of_mem _ hy)))

theorem notesEvents_eleOnly (sd : SegDef) (sid : Str) (vals : List Str) : ∀ (ns : List Syn.Note),
    (notesEvents sd sid vals ns).EleOnly := by
  intro ns
  induction ns with
  | nil => simp only [notesEvents]; exact EleOnly.nil
  | cons n ns ih =>
    simp only [notesEvents]
    cases Syn.routeNote vals n with
    | none => trivial
    | some errs =>
      simp only
      refine eleOnly_andThen ?_ ih
      show EleOnly _
      apply flatten_eleOnly
      intro x hx
      simp only [List.mem_map] at hx
      obtain ⟨e, _, rfl⟩ := hx
      exact noteErrEvents_eleOnly sd sid n e

theorem segEvents_eleOnly (ctx : Ctx) (v5 : Bool) (d : Delims) (sd : SegDef) (s : Seg) :
    (segEvents ctx v5 d sd s).EleOnly := by
  unfold segEvents
  refine eleOnly_andThen (eleOnly_andThen (tooManyEvents_eleOnly d sd s) (childrenEvents_eleOnly _ _ _ _ _ _ _ _ _ _)) ?_
  cases SegText.formatComps (Pipeline.sepOf d s.id) s.elems with
  | none => trivial
  | some vals => exact notesEvents_eleOnly _ _ _ _

/-! ### the error tree on error-free events -/

open ErrTree in
/-- the "current" pointers the handler dereferences; `seen` = a set has been opened -/
def Ptr (s : ErrTree.State) (seen : Bool) : Prop :=
  s.curIsa ≠ none ∧ s.curGs ≠ none ∧ s.curSeg ≠ ErrTree.SegPtr.none ∧ (seen = true → s.curSt ≠ none)

theorem isSome_of_ne_none {α : Type} {o : Option α} (h : o ≠ none) : ∃ x, o = some x := by
  cases o with
  | none => exact absurd rfl h
  | some x => exact ⟨x, rfl⟩

/-- `add_ele` with a current segment node: no exception, nothing but `cur_ele_node` changes -/
theorem step_addEle (s : ErrTree.State) (p : Nat) (sp : Option Nat) (r : Option Str) (h : s.curSeg ≠ ErrTree.SegPtr.none) :
    ∃ s', ErrTree.step s (.addEle p sp r) = .ok s' ∧ s'.tree = s.tree ∧ s'.lost = s.lost ∧ s'.curIsa = s.curIsa ∧
      s'.curGs = s.curGs ∧ s'.curSt = s.curSt ∧ s'.curSeg = s.curSeg := by
  simp only [ErrTree.step, ErrTree.addEle]
  cases hc : s.curSeg with
  | none => exact absurd hc h
  | host x => exact ⟨_, rfl, rfl, rfl, rfl, rfl, rfl, hc.symm ▸ rfl⟩
  | pending x => exact ⟨_, rfl, rfl, rfl, rfl, rfl, rfl, hc.symm ▸ rfl⟩

/-- a run of `add_ele` calls (what a clean `is_valid` produces) -/
theorem run_addEles : ∀ (evs : List Event) (s : ErrTree.State), EleOnly evs → Quiet evs → s.curSeg ≠ ErrTree.SegPtr.none →
    ∃ s', ErrTree.run s evs = .ok s' ∧ s'.tree = s.tree ∧ s'.lost = s.lost ∧ s'.curIsa = s.curIsa ∧
      s'.curGs = s.curGs ∧ s'.curSt = s.curSt ∧ s'.curSeg = s.curSeg := by
  intro evs
  induction evs with
  | nil => intro s _ _ _; exact ⟨s, rfl, rfl, rfl, rfl, rfl, rfl, rfl⟩
  | cons e r ih =>
    intro s h1 h2 h3
    have he1 := h1 e (by simp)
    have he2 := h2 e (by simp)
    cases e with
    | addEle p sp rf =>
      obtain ⟨s1, hs1, a1, a2, a3, a4, a5, a6⟩ := step_addEle s p sp rf h3
      obtain ⟨s2, hs2, b1, b2, b3, b4, b5, b6⟩ := ih s1 (fun x hx => h1 x (List.mem_cons_of_mem _ hx))
        (fun x hx => h2 x (List.mem_cons_of_mem _ hx)) (by rw [a6]; exact h3)
      refine ⟨s2, ?_, b1.trans a1, b2.trans a2, b3.trans a3, b4.trans a4, b5.trans a5, b6.trans a6⟩
      simp only [ErrTree.run, hs1, hs2]
    | eleError c m v => simp [ErrTree.Event.isError] at he2
    | addIsa _ => simp [isEle] at he1
    | addGs _ => simp [isEle] at he1
    | addSt _ => simp [isEle] at he1
    | addSeg _ _ _ => simp [isEle] at he1
    | isaError _ => simp [isEle] at he1
    | gsError _ => simp [isEle] at he1
    | stError _ => simp [isEle] at he1
    | segError _ _ => simp [isEle] at he1
    | closeSt => simp [isEle] at he1
    | closeGs _ _ => simp [isEle] at he1
    | closeIsa => simp [isEle] at he1

theorem run_append (s : ErrTree.State) (a b : List Event) :
    ErrTree.run s (a ++ b) = (match ErrTree.run s a with
                              | .ok s1 => ErrTree.run s1 b
                              | .crash c => .crash c) := by
  induction a generalizing s with
  | nil => rfl
  | cons e r ih =>
    simp only [List.cons_append, ErrTree.run]
    cases ErrTree.step s e with
    | crash c => rfl
    | ok s1 => exact ih s1

end Pyx12Verif.Doc
