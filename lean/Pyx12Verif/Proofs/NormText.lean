/-
C20 helper lemmas, part 4: the loop without `-f` (the segments pass through unchanged), the lines written, the text
as `C01.encText`, and the reader's step being total apart from the deliberate X12Error.
-/
import Pyx12Verif.Proofs.NormLoop
import Pyx12Verif.Props.C01

namespace Pyx12Verif.Norm
open Pyx12Verif SegText Envelope Tokenizer
open Pyx12Verif.C01 (AllBrk encText isBrk)

/-! ### appending line breaks after the last terminator adds no segment -/

theorem specAux_append_brk (t : Char) (ws : List Char) (hws : AllBrk ws) (y : List Char) :
    ∀ acc, specAux t acc (y ++ [t] ++ ws) = specAux t acc (y ++ [t]) := by
  induction y with
  | nil =>
    intro acc
    simp only [List.nil_append, List.singleton_append, specAux, if_true]
    rw [C01.specAux_brk t ws hws [] (by intro c hc; simp at hc)]
  | cons c r ih =>
    intro acc
    simp only [List.cons_append, specAux]
    split
    · rw [ih []]
    · rw [ih (c :: acc)]

theorem spec_append_brk (t : Char) (x ws : List Char) (hws : AllBrk ws) (hx : x = [] ∨ ∃ y, x = y ++ [t]) :
    spec t (x ++ ws) = spec t x := by
  rcases hx with rfl | ⟨y, rfl⟩
  · simp only [List.nil_append, spec]
    rw [C01.specAux_brk t ws hws [] (by intro c hc; simp at hc)]; rfl
  · exact specAux_append_brk t ws hws y []

theorem encText_end (d : Delims) (b : List Char) (segs : List Seg) (hb : b = [] ) :
    encText d b segs = [] ∨ ∃ y, encText d b segs = y ++ [d.term] := by
  subst hb
  induction segs with
  | nil => exact Or.inl rfl
  | cons s ss ih =>
    right
    rcases ih with h | ⟨y, h⟩
    · refine ⟨bodyOf d s, ?_⟩
      simp only [encText, List.map_cons, List.flatten_cons, List.append_nil] at h ⊢
      rw [h]; simp
    · refine ⟨bodyOf d s ++ [d.term] ++ y, ?_⟩
      simp only [encText, List.map_cons, List.flatten_cons, List.append_nil] at h ⊢
      rw [h]; simp

/-! ### the step is total apart from the deliberate X12Error -/

theorem step_total (s : RState) (v : SegView) (h : v.id = idISA → v.n16 = true) :
    ∃ r, step Fixes.all s v = .ok r := by
  by_cases h1 : v.id = idISA
  · exact ⟨_, step_ISA_any s v h1 (h h1)⟩
  by_cases h2 : v.id = idGS
  · exact ⟨_, step_GS_any s v h2⟩
  by_cases h3 : v.id = idST
  · exact ⟨_, step_ST_any s v h3⟩
  by_cases h4 : v.id = idIEA
  · exact ⟨_, step_IEA_any s v h4⟩
  by_cases h5 : v.id = idGE
  · exact ⟨_, step_GE_any s v h5⟩
  by_cases h6 : v.id = idSE
  · exact ⟨_, step_SE_any s v h6⟩
  by_cases h7 : v.id = idHL
  · exact ⟨_, step_HL s v h7⟩
  have henv : isEnvId v.id = false := by simp [isEnvId, h1, h2, h3, h4, h5, h6]
  by_cases hc : s.chk837 = true
  · by_cases h8 : v.id = idCLM
    · exact ⟨_, step_CLM s v h8 hc⟩
    · by_cases h9 : v.id = idLX
      · exact ⟨_, step_LX s v h9 hc⟩
      · exact ⟨_, step_other s v henv h7 (fun _ => ⟨h8, h9⟩)⟩
  · exact ⟨_, step_other s v henv h7 (fun e => absurd e hc)⟩

/-! ### views never fail on segments whose composites are non-empty (all the parser builds) -/

theorem fmtComp_ok (t : Char) (c : List (List Char)) (hc : c ≠ []) : ∃ x, Segment.fmtComp ⟨t, c⟩ = .ok x := by
  cases c with
  | nil => exact absurd rfl hc
  | cons a r => exact ⟨_, rfl⟩

theorem valAt_ok (d : Delims) (s : Seg) (k : Nat) (h : ∀ c ∈ s.elems, c ≠ []) : ∃ x, valAt d s k = .ok x := by
  unfold valAt
  cases hk : s.elems[k]? with
  | none => exact ⟨_, rfl⟩
  | some c =>
    obtain ⟨x, hx⟩ := fmtComp_ok (termOf d s.id) c (h c (List.mem_of_getElem? hk))
    exact ⟨some x, by simp [hx, fmtRes]⟩

theorem viewAt_ok (d : Delims) (s : Seg) (h : ∀ c ∈ s.elems, c ≠ []) :
    ∃ v, viewAt d s = .ok v ∧ (v.id = idISA → (v.n16 = true ↔ s.elems.length = 16)) := by
  obtain ⟨x0, e0⟩ := valAt_ok d s 0 h
  obtain ⟨x1, e1⟩ := valAt_ok d s 1 h
  obtain ⟨x5, e5⟩ := valAt_ok d s 5 h
  obtain ⟨x12, e12⟩ := valAt_ok d s 12 h
  unfold viewAt
  by_cases h1 : s.id = idISA
  · by_cases hl : s.elems.length = 16
    · exact ⟨_, by simp [h1, hl, e12, Res.bind]; rfl, fun _ => by simp [hl]⟩
    · exact ⟨_, by simp [h1, hl]; rfl, fun _ => by simp [hl]⟩
  · by_cases h2 : s.id = idGS
    · exact ⟨_, by simp [h2, e5, Res.bind]; rfl, fun e => absurd (show idGS = idISA from e) (by decide)⟩
    · by_cases h3 : s.id = idST
      · exact ⟨_, by simp [h3, e1, Res.bind]; rfl, fun e => absurd (show idST = idISA from e) (by decide)⟩
      · by_cases h4 : s.id = idHL ∨ s.id = idIEA ∨ s.id = idGE ∨ s.id = idSE
        · exact ⟨_, by simp only [h1, h2, h3, h4, if_true, if_false, e0, e1, Res.bind]; rfl, fun e => absurd e h1⟩
        · exact ⟨_, by simp only [h1, h2, h3, h4, if_false]; rfl, fun e => absurd e h1⟩

/-! ### the loop without `-f` -/

def lineOf (o : Options) (d : Delims) (s : Seg) : Line := bodyOf d s ++ [d.term] ++ eolOf o

theorem emit_eq (o : Options) (d : Delims) (s : Seg) (h : ∀ c ∈ s.elems, c ≠ []) :
    emit o d s = .ok (lineOf o d s) := by
  simp [emit, formatSeg_eq d s h, lineOf]

/-- without `-f` the loop succeeds exactly when no ISA segment lacks its 16 elements, and then writes every input
    segment unchanged -/
theorem loop_nofix_ok (o : Options) (hf : o.fix = false) (d : Delims) :
    ∀ (inp : List (List RErr × Seg)) (st : RState),
      (∀ x ∈ inp, (∀ c ∈ x.2.elems, c ≠ []) ∧ (x.2.id = idISA → x.2.elems.length = 16)) →
      loop o d st inp = .ok (inp.map (fun x => (x.2, lineOf o d x.2))) := by
  intro inp
  induction inp with
  | nil => intro st _; rfl
  | cons x rest ih =>
    intro st h
    obtain ⟨hc, hisa⟩ := h x (by simp)
    obtain ⟨v, hv, hn⟩ := viewAt_ok d x.2 hc
    have hvid := viewAt_id d x.2 v hv
    obtain ⟨r, hr⟩ := step_total st v (fun e => (hn e).mpr (hisa (hvid ▸ e)))
    simp only [loop, stepSeg, viewOf_eq, hv, Res.bind, hr, afterStep, hf, Bool.false_eq_true, if_false,
      emit_eq o d x.2 hc, ih r.1 (fun y hy => h y (List.mem_cons_of_mem _ hy)), List.map_cons]

theorem loop_nofix_inv (o : Options) (d : Delims) :
    ∀ (inp : List (List RErr × Seg)) (st : RState) (out : List (Seg × Line)),
      (∀ x ∈ inp, ∀ c ∈ x.2.elems, c ≠ []) → loop o d st inp = .ok out →
      ∀ x ∈ inp, x.2.id = idISA → x.2.elems.length = 16 := by
  intro inp
  induction inp with
  | nil => intro _ _ _ _ x hx; simp at hx
  | cons x rest ih =>
    intro st out hc h
    simp only [loop] at h
    obtain ⟨r, hstep, h⟩ := Res.bind_ok h
    obtain ⟨l, _, h⟩ := Res.bind_ok h
    obtain ⟨ls, hrest, _⟩ := Res.bind_ok h
    intro y hy
    rcases List.mem_cons.mp hy with rfl | hy
    · intro hid
      unfold stepSeg at hstep
      obtain ⟨v, hv, hstep⟩ := Res.bind_ok hstep
      rw [viewOf_eq] at hv
      obtain ⟨v2, hv2, hn⟩ := viewAt_ok d y.2 (hc y (by simp))
      rw [hv] at hv2
      injection hv2 with hv2
      subst hv2
      have hvid := viewAt_id d y.2 v hv
      cases h16 : v.n16 with
      | true => exact (hn (hvid.trans hid)).mp h16
      | false =>
        rw [step_ISA_raised st v (hvid.trans hid) h16] at hstep
        cases hstep
    · exact ih r.1 ls (fun z hz => hc z (List.mem_cons_of_mem _ hz)) hrest y hy

theorem flatten_lines (o : Options) (d : Delims) (segs : List Seg) :
    (segs.map (lineOf o d)).flatten = encText d (eolOf o) segs := by
  unfold encText
  congr 1

end Pyx12Verif.Norm
