/-
C03, structural fault kinds at run level — definitions.

* `XList / XChild / XReps / XOne`: a conformant derivation (`GenList …` of Spec/WalkerGen.lean) with exactly ONE
  instance too many of a counted node (a segment beyond `max_use`, a loop beyond `repeat`).  The emitted
  sequence is split as `pre ++ x :: post`, `x` being the first segment of the surplus instance.
* `RunErrAt`: running the walker over `pre ++ x :: post` returns for every segment the intended map node; the step
  on `x` reports exactly the error `e`, every other step reports nothing.
* `AfterX`: `RunErrAt` plus the simulation invariant afterwards (the analogue of `After`).
-/
import Pyx12Verif.Proofs.WalkerRun3

namespace Pyx12Verif.WalkerGen
open Pyx12Verif.MapSkel Pyx12Verif.Walker

/-- the error one instance too many of the counted node `c` (index path `ip`) must draw -/
def overErr (ip : List Nat) (c : Node) : WErr :=
  (if c.isSeg then ErrKind.segMaxCount else ErrKind.loopMaxCount, ip)

/-- `Unambiguous` checks the inner nodes of a loop against the loop's own first segment only when the loop may
    repeat (`repeat ≠ 1`).  For a loop with `repeat = 1` that is nevertheless repeated the same check is needed as an
    explicit hypothesis (it is decidable on the skeleton); without it the statement is false, see
    `loop_repeat_unreported_witness` in Props/C03.lean. -/
def selfFollowOK (K : Consts) : Node → Bool
  | .seg .. => true
  | .loop _ _ _ r _ ch => r != 1 || followList K [] (firstSegKey K ch) ch

mutual
/-- every loop of the skeleton passes `selfFollowOK` (a decidable map condition, like `Unambiguous`) -/
def sfNode (K : Consts) : Node → Bool
  | .seg .. => true
  | .loop _ _ _ r _ ch => (r != 1 || followList K [] (firstSegKey K ch) ch) && sfList K ch
def sfList (K : Consts) : List Node → Bool
  | [] => true
  | c :: r => sfNode K c && sfList K r
end

mutual
/-- instances `k+1, …` of the counted child `c`, with one fault: either below one of the instances, or the
    surplus instance itself (`over`: `k = max_use / repeat` instances were emitted, one more follows, nothing after) -/
inductive XReps (K : Consts) (e : WErr) : List Nat → Node → Nat → List Emit → Emit → List Emit → Prop
  | over {ip c k x post} : c.usage ≠ 2 → c.rep ≠ 0 → k = c.rep →
      GenOne K ip c (x :: post) → e = overErr ip c → XReps K e ip c k [] x post
  | inside {ip c k pre x post o2} : c.usage ≠ 2 → (c.rep = 0 ∨ k < c.rep) →
      XOne K e ip c pre x post → GenReps K ip c (k + 1) o2 → XReps K e ip c k pre x (post ++ o2)
  | later {ip c k o1 pre x post} : c.usage ≠ 2 → (c.rep = 0 ∨ k < c.rep) →
      GenOne K ip c o1 → XReps K e ip c (k + 1) pre x post → XReps K e ip c k (o1 ++ pre) x post
/-- one loop instance with the fault below it -/
inductive XOne (K : Consts) (e : WErr) : List Nat → Node → List Emit → Emit → List Emit → Prop
  | loop {ip lid p u r w first rest s pre x post} :
      first.isSeg = true → isMatch K first s = true → XList K e ip 1 rest pre x post →
      XOne K e ip (.loop lid p u r w (first :: rest)) ((ip ++ [0], s) :: pre) x post
inductive XChild (K : Consts) (e : WErr) : List Nat → Node → List Emit → Emit → List Emit → Prop
  | counted {ip c pre x post} : counted c = true → XReps K e ip c 0 pre x post → XChild K e ip c pre x post
  | wrapper {ip lid p u r w first rest pre x post} : first.isSeg = false → u ≠ 2 →
      XList K e ip 0 (first :: rest) pre x post → XChild K e ip (.loop lid p u r w (first :: rest)) pre x post
/-- children `i, i+1, …` of the loop at `lip`, the fault below exactly one of them -/
inductive XList (K : Consts) (e : WErr) : List Nat → Nat → List Node → List Emit → Emit → List Emit → Prop
  | here {lip i c r pre x post o2} : XChild K e (lip ++ [i]) c pre x post → GenList K lip (i + 1) r o2 →
      XList K e lip i (c :: r) pre x (post ++ o2)
  | later {lip i c r o1 pre x post} : GenChild K (lip ++ [i]) c o1 → XList K e lip (i + 1) r pre x post →
      XList K e lip i (c :: r) (o1 ++ pre) x post
end

/-- the run over `pre ++ x :: post`: every segment is answered with the intended node; the step on `x` reports
    exactly `e`; no other step reports anything -/
def RunErrAt (K : Consts) (root : List Node) (rootId : Nat) (cnt : Counter) (cur : List Nat)
    (pre : List Emit) (x : Emit) (post : List Emit) (e : WErr) : Prop :=
  RunOK K root rootId cnt cur pre ∧
  (walk K root rootId (runCnt K root rootId cnt cur pre) (runCur cur pre) x.2).node = some x.1 ∧
  (walk K root rootId (runCnt K root rootId cnt cur pre) (runCur cur pre) x.2).st.errs = [e] ∧
  (walk K root rootId (runCnt K root rootId cnt cur pre) (runCur cur pre) x.2).st.pending = [] ∧
  RunOK K root rootId (walk K root rootId (runCnt K root rootId cnt cur pre) (runCur cur pre) x.2).st.cnt x.1 post

/-- the same as a Bool, for concrete examples -/
def runErrAtb (K : Consts) (root : List Node) (rootId : Nat) (cnt : Counter) (cur : List Nat)
    (pre : List Emit) (x : Emit) (post : List Emit) (e : WErr) : Bool :=
  runOKb K root rootId cnt cur pre &&
  (walk K root rootId (runCnt K root rootId cnt cur pre) (runCur cur pre) x.2).node == some x.1 &&
  (walk K root rootId (runCnt K root rootId cnt cur pre) (runCur cur pre) x.2).st.errs == [e] &&
  (walk K root rootId (runCnt K root rootId cnt cur pre) (runCur cur pre) x.2).st.pending.isEmpty &&
  runOKb K root rootId (walk K root rootId (runCnt K root rootId cnt cur pre) (runCur cur pre) x.2).st.cnt x.1 post

theorem sfList_get {K : Consts} {ch : List Node} (h : sfList K ch = true) {i : Nat} {c : Node} (hc : ch[i]? = some c) :
    sfNode K c = true := by
  induction ch generalizing i with
  | nil => simp at hc
  | cons a r ih =>
    simp only [sfList, Bool.and_eq_true] at h
    cases i with
    | zero => simp at hc; subst hc; exact h.1
    | succ n => simp at hc; exact ih h.2 hc

theorem sfList_chAt {K : Consts} {root : List Node} (h : sfList K root = true) {p : List Nat} {ch : List Node}
    (hc : chAt root p = some ch) : sfList K ch = true := by
  induction p generalizing root with
  | nil => simp only [chAt, Option.some.injEq] at hc; subst hc; exact h
  | cons i r ih =>
    simp only [chAt] at hc
    split at hc
    · rename_i lid pos u rep w sub heq
      have := sfList_get h heq
      simp only [sfNode, Bool.and_eq_true] at this
      exact ih this.2 hc
    · cases hc

theorem selfFollowOK_at {K : Consts} {root : List Node} (h : sfList K root = true) {p : List Nat} {ch : List Node}
    (hc : chAt root p = some ch) {i : Nat} {c : Node} (hi : ch[i]? = some c) : selfFollowOK K c = true := by
  have := sfList_get (sfList_chAt h hc) hi
  cases c with
  | seg => rfl
  | loop a b c r w ch' =>
    simp only [sfNode, Bool.and_eq_true] at this
    simpa [selfFollowOK] using this.1

def AfterX (K : Consts) (root : List Node) (rootId : Nat) (cnt : Counter) (cur : List Nat)
    (pre : List Emit) (x : Emit) (post : List Emit) (e : WErr) (P : Counter → List Nat → Prop) : Prop :=
  RunErrAt K root rootId cnt cur pre x post e ∧
  Inv root (runCnt K root rootId cnt cur (pre ++ x :: post)) (runCur cur (pre ++ x :: post)) ∧
  P (runCnt K root rootId cnt cur (pre ++ x :: post)) (runCur cur (pre ++ x :: post))

theorem AfterX.mono {K : Consts} {root : List Node} {rootId : Nat} {cnt : Counter} {cur : List Nat}
    {pre : List Emit} {x : Emit} {post : List Emit} {e : WErr} {P Q : Counter → List Nat → Prop}
    (h : AfterX K root rootId cnt cur pre x post e P) (hpq : ∀ a b, P a b → Q a b) :
    AfterX K root rootId cnt cur pre x post e Q := ⟨h.1, h.2.1, hpq _ _ h.2.2⟩

/-- the faulty step itself, followed by an accepted run -/
theorem AfterX.fault {K : Consts} {root : List Node} {rootId : Nat} {cnt : Counter} {cur : List Nat} {ip : List Nat}
    {s : SegData} {cnt1 : Counter} {e : WErr}
    (hn : (walk K root rootId cnt cur s).node = some ip)
    (hs : (walk K root rootId cnt cur s).st = { cnt := cnt1, pending := [], errs := [e] })
    {o : List Emit} {P : Counter → List Nat → Prop} (h : After K root rootId cnt1 ip o P) :
    AfterX K root rootId cnt cur [] (ip, s) o e P := by
  obtain ⟨r, i, p⟩ := h
  have hc : (walk K root rootId cnt cur s).st.cnt = cnt1 := by rw [hs]
  refine ⟨⟨trivial, ?_, ?_, ?_, ?_⟩, ?_, ?_⟩
  · simpa [runCnt, runCur] using hn
  · simp [runCnt, runCur, hs]
  · simp [runCnt, runCur, hs]
  · simpa [runCnt, runCur, hc] using r
  · simpa [runCnt, runCur, hc] using i
  · simpa [runCnt, runCur, hc] using p

/-- an accepted step in front -/
theorem AfterX.step {K : Consts} {root : List Node} {rootId : Nat} {cnt : Counter} {cur : List Nat} {ip : List Nat}
    {s : SegData} {cnt1 : Counter}
    (hn : (walk K root rootId cnt cur s).node = some ip)
    (hs : (walk K root rootId cnt cur s).st = { cnt := cnt1, pending := [], errs := [] })
    {pre : List Emit} {x : Emit} {post : List Emit} {e : WErr} {P : Counter → List Nat → Prop}
    (h : AfterX K root rootId cnt1 ip pre x post e P) :
    AfterX K root rootId cnt cur ((ip, s) :: pre) x post e P := by
  obtain ⟨⟨r1, r2, r3, r4, r5⟩, i, p⟩ := h
  have hc : (walk K root rootId cnt cur s).st.cnt = cnt1 := by rw [hs]
  refine ⟨⟨?_, ?_, ?_, ?_, ?_⟩, ?_, ?_⟩
  · simp only [RunOK, hn, hs, true_and]; exact r1
  · simpa only [runCnt, runCur, hc] using r2
  · simpa only [runCnt, runCur, hc] using r3
  · simpa only [runCnt, runCur, hc] using r4
  · simpa only [runCnt, runCur, hc] using r5
  · simpa only [List.cons_append, runCnt, runCur, hc] using i
  · simpa only [List.cons_append, runCnt, runCur, hc] using p

/-- an accepted run in front -/
theorem AfterX.prepend {K : Consts} {root : List Node} {rootId : Nat} {cnt : Counter} {cur : List Nat} {o1 : List Emit}
    {pre : List Emit} {x : Emit} {post : List Emit} {e : WErr}
    {P : Counter → List Nat → Prop} {Q : Counter → Counter → List Nat → Prop} (h1 : After K root rootId cnt cur o1 P)
    (h2 : ∀ cnt1 cur1, Inv root cnt1 cur1 → P cnt1 cur1 → AfterX K root rootId cnt1 cur1 pre x post e (Q cnt1)) :
    AfterX K root rootId cnt cur (o1 ++ pre) x post e (Q (runCnt K root rootId cnt cur o1)) := by
  obtain ⟨r1, i1, p1⟩ := h1
  obtain ⟨⟨s1, s2, s3, s4, s5⟩, i2, p2⟩ := h2 _ _ i1 p1
  refine ⟨⟨(runOK_append K root rootId o1 pre cnt cur).mpr ⟨r1, s1⟩, ?_, ?_, ?_, ?_⟩, ?_, ?_⟩
  · rw [runCnt_append, runCur_append]; exact s2
  · rw [runCnt_append, runCur_append]; exact s3
  · rw [runCnt_append, runCur_append]; exact s4
  · rw [runCnt_append, runCur_append]; exact s5
  · rw [List.append_assoc, runCnt_append, runCur_append]; exact i2
  · rw [List.append_assoc, runCnt_append, runCur_append]; exact p2

theorem runOK_cons_append (K : Consts) (root : List Node) (rootId : Nat) (x : Emit) (o1 o2 : List Emit) (cnt : Counter)
    (cur : List Nat) : runCnt K root rootId cnt cur (x :: o1 ++ o2) =
      runCnt K root rootId (runCnt K root rootId cnt cur (x :: o1)) (runCur cur (x :: o1)) o2 := by
  have := runCnt_append K root rootId (x :: o1) o2 cnt cur
  simpa using this

/-- an accepted run behind -/
theorem AfterX.append {K : Consts} {root : List Node} {rootId : Nat} {cnt : Counter} {cur : List Nat}
    {pre : List Emit} {x : Emit} {post o2 : List Emit} {e : WErr}
    {P : Counter → List Nat → Prop} {Q : Counter → Counter → List Nat → Prop}
    (h1 : AfterX K root rootId cnt cur pre x post e P)
    (h2 : ∀ cnt1 cur1, Inv root cnt1 cur1 → P cnt1 cur1 → After K root rootId cnt1 cur1 o2 (Q cnt1)) :
    AfterX K root rootId cnt cur pre x (post ++ o2) e
      (Q (runCnt K root rootId cnt cur (pre ++ x :: post))) := by
  obtain ⟨⟨s1, s2, s3, s4, s5⟩, i1, p1⟩ := h1
  obtain ⟨r2, i2, p2⟩ := h2 _ _ i1 p1
  have hc : runCnt K root rootId cnt cur (pre ++ x :: post) =
      runCnt K root rootId (walk K root rootId (runCnt K root rootId cnt cur pre) (runCur cur pre) x.2).st.cnt x.1 post := by
    rw [runCnt_append]; rfl
  have hu : runCur cur (pre ++ x :: post) = runCur x.1 post := by rw [runCur_append]; rfl
  have e1 : pre ++ x :: (post ++ o2) = (pre ++ x :: post) ++ o2 := by simp
  have hA : runCnt K root rootId cnt cur (pre ++ x :: (post ++ o2)) =
      runCnt K root rootId (runCnt K root rootId cnt cur (pre ++ x :: post)) (runCur cur (pre ++ x :: post)) o2 := by
    rw [e1, runCnt_append]
  have hB : runCur cur (pre ++ x :: (post ++ o2)) = runCur (runCur cur (pre ++ x :: post)) o2 := by
    rw [e1, runCur_append]
  refine ⟨⟨s1, s2, s3, s4, ?_⟩, ?_, ?_⟩
  · rw [runOK_append]; refine ⟨s5, ?_⟩
    rw [← hc, ← hu]; exact r2
  · rw [hA, hB]; exact i2
  · rw [hA, hB]; exact p2

end Pyx12Verif.WalkerGen
