/-
Helper lemmas for `Props/DocFault.lean` (C03 at pipeline level): from the hypotheses of `doc_accepts_generated` (a body of
segments with their nodes, C02 `RunOK`, C04 `EnvQuiet`, C15/C14 `BodyOk`) to `Rounds`.

* `clean_body_rounds`  a conforming stretch of the body is answered by `BRound.Clean` rounds; walker and reader end where
                       `runCnt` / `runCur` / `EnvQuiet` say;
* `rounds_unique`      `Rounds` determines the rounds from the segments (every component model is a function);
* `envQuiet_append`, `emitsOf_append`, `stIn` (an ST among the segments).
-/
import Pyx12Verif.Proofs.DocFaultSets

namespace Pyx12Verif.Doc
open Pyx12Verif WalkerGen

theorem emitsOf_append (ms : Maps) (m : MapX) (d : Delims) (a b : List (Seg × List Nat)) :
    emitsOf ms m d (a ++ b) = emitsOf ms m d a ++ emitsOf ms m d b := by
  simp [emitsOf]

theorem emitsOf_cons (ms : Maps) (m : MapX) (d : Delims) (x : Seg × List Nat) (b : List (Seg × List Nat)) :
    emitsOf ms m d (x :: b) = (x.2, segData ms m d x.1) :: emitsOf ms m d b := by
  simp [emitsOf]

theorem envQuiet_append (d : Delims) : ∀ (a b : List Seg) (rs rs' : Envelope.RState),
    EnvQuiet d rs (a ++ b) rs' ↔ ∃ rs1, EnvQuiet d rs a rs1 ∧ EnvQuiet d rs1 b rs'
  | [], b, rs, rs' => by
    simp only [List.nil_append, EnvQuiet]
    constructor
    · intro h; exact ⟨rs, rfl, h⟩
    · rintro ⟨rs1, rfl, h⟩; exact h
  | s :: a, b, rs, rs' => by
    simp only [List.cons_append, EnvQuiet, envQuiet_append d a b]
    constructor
    · rintro ⟨v, r1, h1, h2, r2, h3, h4⟩; exact ⟨r2, ⟨v, r1, h1, h2, h3⟩, h4⟩
    · rintro ⟨r2, ⟨v, r1, h1, h2, h3⟩, h4⟩; exact ⟨v, r1, h1, h2, r2, h3, h4⟩

/-- the reader's answer is a function of its state and the segment -/
theorem envQuiet_unique (d : Delims) : ∀ (a : List Seg) (rs r1 r2 : Envelope.RState),
    EnvQuiet d rs a r1 → EnvQuiet d rs a r2 → r1 = r2
  | [], rs, r1, r2, h1, h2 => by simp only [EnvQuiet] at h1 h2; rw [h1, h2]
  | s :: a, rs, r1, r2, h1, h2 => by
    simp only [EnvQuiet] at h1 h2
    obtain ⟨v, x, hv, hx, h1'⟩ := h1
    obtain ⟨v', y, hv', hy, h2'⟩ := h2
    rw [hv] at hv'
    simp only [Option.some.injEq] at hv'
    subst hv'
    rw [hx] at hy
    simp only [Envelope.Outcome.ok.injEq, Prod.mk.injEq, and_true] at hy
    subst hy
    exact envQuiet_unique d a x r1 r2 h1' h2'

/-- a conforming stretch of the body -/
theorem clean_body_rounds (ms : Maps) (ctx : Ctx) (m : MapX) (d : Delims) :
    ∀ (body : List (Seg × List Nat)) (cnt : Walker.Counter) (cur : List Nat) (rs rs' : Envelope.RState),
      RunOK ms.consts m.root m.rootId cnt cur (emitsOf ms m d body) →
      EnvQuiet d rs (body.map (·.1)) rs' →
      (∀ b ∈ body, BodyOk ctx m d b) →
      ∃ rounds : List BRound, rounds.map (·.seg) = body.map (·.1) ∧ rounds.map (·.node) = body.map (fun b => some b.2) ∧
        Rounds ms ctx m d cnt cur rs rounds ∧ (∀ r ∈ rounds, r.Clean) ∧
        endCnt ms m d cnt cur rounds = runCnt ms.consts m.root m.rootId cnt cur (emitsOf ms m d body) ∧
        endCur cur rounds = runCur cur (emitsOf ms m d body) ∧ endRs rs rounds = rs' := by
  intro body
  induction body with
  | nil =>
    intro cnt cur rs rs' _ henv _
    simp only [List.map_nil, EnvQuiet] at henv
    subst henv
    refine ⟨[], rfl, rfl, trivial, ?_, rfl, rfl, rfl⟩
    intro r hr; cases hr
  | cons b body ih =>
    intro cnt cur rs rs' hrun henv hok
    obtain ⟨hb1, hb2, hb3, sd, hdef, hadm⟩ := hok b (by simp)
    simp only [List.map_cons, EnvQuiet] at henv
    obtain ⟨vw, rs1, hview, hstep, henv'⟩ := henv
    rw [emitsOf_cons] at hrun
    simp only [RunOK] at hrun
    obtain ⟨hnode, herrs, _, hrun'⟩ := hrun
    obtain ⟨evs, hev, hquiet⟩ := segEvents_clean ctx m.v5010 d sd b.1 hadm
    have hele := segEvents_eleOnly ctx m.v5010 d sd b.1
    rw [hev] at hele
    obtain ⟨rest, h1, h2, h3, h4, h5, h6, h7⟩ := ih _ b.2 rs1 rs' hrun' henv' (fun x hx => hok x (List.mem_cons_of_mem _ hx))
    refine ⟨{ seg := b.1, rs := rs1, node := some b.2, werrs := [], valid := true, evs := evs } :: rest, ?_, ?_, ?_, ?_, ?_,
      ?_, ?_⟩
    · simp only [List.map_cons, h1]
    · simp only [List.map_cons, h2]
    · refine ⟨⟨hb1, hb2, hb3, ⟨vw, hview, hstep⟩, hnode, herrs, sd, hdef, hev⟩, ?_⟩
      exact h3
    · intro r hr
      rcases List.mem_cons.1 hr with rfl | hr
      · exact ⟨rfl, rfl, rfl, hele, hquiet⟩
      · exact h4 r hr
    · rw [emitsOf_cons]; simp only [endCnt, runCnt, Option.getD_some]; exact h5
    · rw [emitsOf_cons]; simp only [endCur, runCur, Option.getD_some]; exact h6
    · simp only [endRs]; exact h7

/-- every component model is a function: the segments determine the rounds -/
theorem rounds_unique (ms : Maps) (ctx : Ctx) (m : MapX) (d : Delims) : ∀ (r1 r2 : List BRound) (cnt : Walker.Counter)
    (cur : List Nat) (rs : Envelope.RState),
    Rounds ms ctx m d cnt cur rs r1 → Rounds ms ctx m d cnt cur rs r2 → r1.map (·.seg) = r2.map (·.seg) → r1 = r2
  | [], [], _, _, _, _, _, _ => rfl
  | [], _ :: _, _, _, _, _, _, h => by simp at h
  | _ :: _, [], _, _, _, _, _, h => by simp at h
  | x :: r1, y :: r2, cnt, cur, rs, h1, h2, h => by
    simp only [List.map_cons, List.cons.injEq] at h
    obtain ⟨hseg, hrest⟩ := h
    obtain ⟨⟨_, _, _, ⟨v, hv, hs⟩, hn, he, hval⟩, h1'⟩ := h1
    obtain ⟨⟨_, _, _, ⟨v', hv', hs'⟩, hn', he', hval'⟩, h2'⟩ := h2
    obtain ⟨xs, xrs, xn, xw, xv, xe⟩ := x
    obtain ⟨ys, yrs, yn, yw, yv, ye⟩ := y
    simp only at hseg hv hs hn he hval hv' hs' hn' he' hval' h1' h2'
    subst hseg
    rw [hv] at hv'
    simp only [Option.some.injEq] at hv'
    subst hv'
    rw [hs] at hs'
    simp only [Envelope.Outcome.ok.injEq, Prod.mk.injEq, and_true] at hs'
    subst hs'
    rw [hn] at hn'
    subst hn'
    rw [he] at he'
    subst he'
    have hve : xv = yv ∧ xe = ye := by
      cases xn with
      | none =>
        simp only at hval hval'
        exact ⟨hval.1.trans hval'.1.symm, hval.2.trans hval'.2.symm⟩
      | some ip =>
        simp only at hval hval'
        obtain ⟨sd, hd, hev⟩ := hval
        obtain ⟨sd', hd', hev'⟩ := hval'
        rw [hd] at hd'
        simp only [Option.some.injEq] at hd'
        subst hd'
        rw [hev] at hev'
        simp only [ERes.ok.injEq] at hev'
        exact hev'
    obtain ⟨rfl, rfl⟩ := hve
    have := rounds_unique ms ctx m d r1 r2 _ _ _ h1' h2' hrest
    rw [this]

/-- an ST among the segments -/
def stIn (ids : List Str) : Bool := ids.any (fun i => decide (i = Envelope.idST))

theorem seenAfter_false (ids : List Str) : seenAfter false ids = stIn ids := by simp [seenAfter, stIn]

theorem map_seg_id (rounds : List BRound) (body : List (Seg × List Nat)) (h : rounds.map (·.seg) = body.map (·.1)) :
    rounds.map (·.seg.id) = body.map (·.1.id) := by
  have e1 : rounds.map (·.seg.id) = (rounds.map (·.seg)).map (·.id) := by simp
  have e2 : body.map (·.1.id) = (body.map (·.1)).map (·.id) := by simp
  rw [e1, e2, h]

end Pyx12Verif.Doc
