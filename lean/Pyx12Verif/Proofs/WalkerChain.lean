/-
C02 helper lemmas, part 8: entering a first-seg loop through a chain of transparent ("wrapper") loops:
what `_is_loop_match` and `_goto_seg_match` do on the outermost transparent loop.
-/
import Pyx12Verif.Proofs.WalkerScan

namespace Pyx12Verif.WalkerGen
open Pyx12Verif.MapSkel Pyx12Verif.Walker

theorem comp_loop (l p u r : Nat) (w : Bool) (ch : List Node) : (Node.loop l p u r w ch).comp = (l, 0) := rfl

/-- the children before index `t` cannot be entered by the segment, not even in depth, and have nothing outstanding -/
def Before (K : Consts) (s : SegData) (cnt : Counter) (key : PathKey) (chX : List Node) (t : Nat) : Prop :=
  ∀ (j' : Nat) (c' : Node), j' < t → chX[j']? = some c' →
    NoHit s (entry K c') ∧ NoHit s (deep K c') ∧ satisfied cnt (key ++ [c'.comp]) c' = true

/-- conditions along a chain of transparent loops from the children `chX` down to child `m` of the last one -/
def ChainS (K : Consts) (s : SegData) (cnt : Counter) : PathKey → List Node → List Nat → Nat → Prop
  | key, chX, [], m => Before K s cnt key chX m
  | key, chX, t :: rel, m =>
    Before K s cnt key chX t ∧
      ∃ l p u r w sub, chX[t]? = some (.loop l p u r w sub) ∧ firstIsLoop sub = true ∧
        ChainS K s cnt (key ++ [(l, 0)]) sub rel m

theorem anyLoopMatch_skip {K : Consts} {s : SegData} (ip : List Nat) (key : PathKey) (st : WState) :
    ∀ (pre post : List Node) (i : Nat),
      (∀ c' ∈ pre, NoHit s (entry K c') ∧ satisfied st.cnt (key ++ [c'.comp]) c' = true) →
      anyLoopMatch K s ip key i st (pre ++ post) = anyLoopMatch K s ip key (i + pre.length) st post
  | [], post, i, _ => by simp
  | c :: pre, post, i, h => by
    have hc := h c (by simp)
    have ih := anyLoopMatch_skip ip key st pre post (i + 1) (fun c' hc' => h c' (by simp [hc']))
    have hlen : i + (c :: pre).length = i + 1 + pre.length := by simp; omega
    rw [hlen, ← ih]
    simp only [List.cons_append]
    conv => lhs; simp only [anyLoopMatch]
    cases hseg : c.isSeg with
    | true => simp
    | false =>
      simp only [Bool.false_eq_true, ↓reduceIte]
      rw [isLoopMatch_false c (ip ++ [i]) (key ++ [c.comp]) st hc.1 hc.2]

theorem gotoChildren_skip {K : Consts} {s : SegData} (ip : List Nat) (key : PathKey) (st : WState) :
    ∀ (pre post : List Node) (i : Nat), (∀ c' ∈ pre, NoHit s (deep K c')) →
      gotoChildren K s ip key i st (pre ++ post) = gotoChildren K s ip key (i + pre.length) st post
  | [], post, i, _ => by simp
  | c :: pre, post, i, h => by
    have hc := h c (by simp)
    have ih := gotoChildren_skip ip key st pre post (i + 1) (fun c' hc' => h c' (by simp [hc']))
    have hlen : i + (c :: pre).length = i + 1 + pre.length := by simp; omega
    rw [hlen, ← ih]
    simp only [List.cons_append]
    conv => lhs; simp only [gotoChildren]
    cases hseg : c.isSeg with
    | true => simp
    | false =>
      simp only [Bool.false_eq_true, ↓reduceIte]
      rw [gotoSegMatch_none c (ip ++ [i]) (key ++ [c.comp]) st hc]

theorem split_at {α : Type} {l : List α} {j : Nat} {c : α} (hc : l[j]? = some c) :
    l = l.take j ++ c :: l.drop (j + 1) ∧ (l.take j).length = j := by
  have hj : j < l.length := by
    rcases Nat.lt_or_ge j l.length with h | h
    · exact h
    · rw [List.getElem?_eq_none h] at hc; cases hc
  have : l[j] = c := by rw [List.getElem?_eq_getElem hj] at hc; simpa using hc
  constructor
  · rw [← this]; simp
  · simp; omega

theorem mem_take_get {α : Type} {l : List α} {j : Nat} {c' : α} (h : c' ∈ l.take j) :
    ∃ j', j' < j ∧ l[j']? = some c' := by
  obtain ⟨j', hj'⟩ := List.mem_iff_getElem?.mp h
  rw [List.getElem?_take] at hj'
  split at hj'
  · rename_i hlt; exact ⟨j', hlt, hj'⟩
  · cases hj'

theorem isLoopMatch_transparent {K : Consts} {s : SegData} {l p u r : Nat} {w : Bool} {chT : List Node}
    (hT : firstIsLoop chT = true) (ip : List Nat) (key : PathKey) (st : WState) :
    isLoopMatch K s ip key st (.loop l p u r w chT) = anyLoopMatch K s ip key 0 st chT := by
  cases chT with
  | nil => simp [firstIsLoop] at hT
  | cons first rest =>
    simp only [firstIsLoop, Bool.not_eq_true'] at hT
    simp [isLoopMatch, hT]

theorem gotoSegMatch_transparent {K : Consts} {s : SegData} {l p u r : Nat} {w : Bool} {chT : List Node}
    (hT : firstIsLoop chT = true) (ip : List Nat) (key : PathKey) (st : WState) :
    gotoSegMatch K s ip key st (.loop l p u r w chT) = gotoChildren K s ip key 0 st chT := by
  cases chT with
  | nil => simp [firstIsLoop] at hT
  | cons first rest =>
    simp only [firstIsLoop, Bool.not_eq_true'] at hT
    simp [gotoSegMatch, hT]

/-- `_is_loop_match` finds the target through the chain, adding nothing to `mandatory_segs_missing` -/
theorem chain_match {K : Consts} {s : SegData} {m lid pos u r : Nat} {w : Bool} {first : Node} {rest : List Node}
    (hseg : first.isSeg = true) (hm : isMatch K first s = true) (st : WState) :
    ∀ (rel : List Nat) (key : PathKey) (chX : List Node) (ip : List Nat) (subL : List Node),
      ChainS K s st.cnt key chX rel m → chAt chX rel = some subL →
      subL[m]? = some (.loop lid pos u r w (first :: rest)) →
      anyLoopMatch K s ip key 0 st chX = (true, st)
  | [], key, chX, ip, subL, hch, hsub, htgt => by
    simp only [chAt, Option.some.injEq] at hsub; subst hsub
    simp only [ChainS] at hch
    obtain ⟨hsplit, hlen⟩ := split_at htgt
    rw [hsplit, anyLoopMatch_skip ip key st _ _ 0 (fun c' hc' => by
      obtain ⟨j', hj', hc''⟩ := mem_take_get hc'
      exact ⟨(hch j' c' hj' hc'').1, (hch j' c' hj' hc'').2.2⟩)]
    simp only [anyLoopMatch, Node.isSeg, Bool.false_eq_true, ↓reduceIte, isLoopMatch_first _ _ _ hseg hm]
  | t :: rel, key, chX, ip, subL, hch, hsub, htgt => by
    simp only [ChainS] at hch
    obtain ⟨hbef, l, p, u', r', w', sub, hct, hTs, hrec⟩ := hch
    simp only [chAt, hct] at hsub
    obtain ⟨hsplit, hlen⟩ := split_at hct
    rw [hsplit, anyLoopMatch_skip ip key st _ _ 0 (fun c' hc' => by
      obtain ⟨j', hj', hc''⟩ := mem_take_get hc'
      exact ⟨(hbef j' c' hj' hc'').1, (hbef j' c' hj' hc'').2.2⟩)]
    simp only [anyLoopMatch, Node.isSeg, Bool.false_eq_true, ↓reduceIte, comp_loop]
    rw [isLoopMatch_transparent hTs, chain_match hseg hm st rel _ sub _ subL hrec hsub htgt]

/-- `_goto_seg_match` reaches the target through the chain -/
theorem chain_goto {K : Consts} {s : SegData} {m lid pos u r : Nat} {w : Bool} {first : Node} {rest : List Node}
    (hseg : first.isSeg = true) (hm : isMatch K first s = true) (st : WState) (hp : st.pending = []) (hu : u ≠ 2) :
    ∀ (rel : List Nat) (key : PathKey) (chX : List Node) (ip : List Nat) (subL : List Node),
      ChainS K s st.cnt key chX rel m → chAt chX rel = some subL →
      subL[m]? = some (.loop lid pos u r w (first :: rest)) →
      (r = 0 ∨ st.cnt.get (key ++ keyAt chX (rel ++ [m])) < r) →
      ∃ push, gotoChildren K s ip key 0 st chX =
        (some (ip ++ rel ++ [m] ++ [0], push),
         { cnt := enterCnt st.cnt (key ++ keyAt chX (rel ++ [m])) first.comp, pending := [], errs := st.errs })
  | [], key, chX, ip, subL, hch, hsub, htgt, hr => by
    simp only [chAt, Option.some.injEq] at hsub; subst hsub
    simp only [ChainS] at hch
    have hk : keyAt chX ([] ++ [m]) = [(lid, 0)] := by simp [keyAt, htgt, comp_loop]
    rw [hk] at hr ⊢
    obtain ⟨hsplit, hlen⟩ := split_at htgt
    rw [hsplit, gotoChildren_skip ip key st _ _ 0 (fun c' hc' => by
      obtain ⟨j', hj', hc''⟩ := mem_take_get hc'
      exact (hch j' c' hj' hc'').2.1)]
    simp only [gotoChildren, Node.isSeg, Bool.false_eq_true, ↓reduceIte, comp_loop, hlen, Nat.zero_add]
    rw [gotoSegMatch_first (ip ++ [m]) (key ++ [(lid, 0)]) st hseg hm hp hu hr]
    exact ⟨ip :: [ip ++ [m]], by simp⟩
  | t :: rel, key, chX, ip, subL, hch, hsub, htgt, hr => by
    simp only [ChainS] at hch
    obtain ⟨hbef, l, p, u', r', w', sub, hct, hTs, hrec⟩ := hch
    simp only [chAt, hct] at hsub
    have hk : keyAt chX (t :: rel ++ [m]) = (l, 0) :: keyAt sub (rel ++ [m]) := by
      simp [keyAt, hct, comp_loop, Node.children]
    rw [hk] at hr ⊢
    obtain ⟨hsplit, hlen⟩ := split_at hct
    rw [hsplit, gotoChildren_skip ip key st _ _ 0 (fun c' hc' => by
      obtain ⟨j', hj', hc''⟩ := mem_take_get hc'
      exact (hbef j' c' hj' hc'').2.1)]
    simp only [gotoChildren, Node.isSeg, Bool.false_eq_true, ↓reduceIte, comp_loop, hlen, Nat.zero_add]
    rw [gotoSegMatch_transparent hTs]
    obtain ⟨push, hg⟩ := chain_goto hseg hm st hp hu rel (key ++ [(l, 0)]) sub (ip ++ [t]) subL hrec hsub htgt
      (by simpa using hr)
    rw [hg]
    exact ⟨ip :: push, by simp⟩

end Pyx12Verif.WalkerGen
