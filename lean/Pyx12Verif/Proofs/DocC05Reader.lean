/-
C05 at pipeline level, reader side: what one step of the (guarded) envelope reader does to the stack of open envelopes
and to the set counter, for a segment that `nestStep` accepts at the current nesting level (`step_nested`); and which
control number `get_gs_id` / `get_st_id` (`Doc.loopId`) return then.
-/
import Pyx12Verif.Proofs.EnvelopeSteps
import Pyx12Verif.Proofs.EnvelopeMisc

namespace Pyx12Verif.Envelope

def kinds : Level → List Kind
  | .top => []
  | .inIsa => [.isa]
  | .inGs => [.gs, .isa]
  | .inSt => [.st, .gs, .isa]

/-- the stack of open envelopes is that of the nesting level (top first) -/
def LoopsAt (l : Level) (s : RState) : Prop := s.loops.map (fun p => p.1) = kinds l

theorem step_ISA' (s s' : RState) (v : SegView) (es : List Err) (hid : v.id = idISA)
    (h : step Fixes.all s v = .ok (s', es)) : s'.loops = (Kind.isa, v.ctl) :: s.loops ∧ s'.stCount = s.stCount := by
  cases hn : v.n16 with
  | false =>
    simp [step, baseStep, baseBranch, baseIsa, hid, hn, Outcome.bind] at h
  | true =>
    simp [step, baseStep, baseBranch, baseIsa, trailerStep, countSeg, isEnvId, Outcome.bind, hid, hn,
      idST, idISA, idGS, idIEA, idGE, idSE] at h
    obtain ⟨rfl, _⟩ := h
    exact ⟨rfl, rfl⟩

theorem step_GS' (s s' : RState) (v : SegView) (es : List Err) (hid : v.id = idGS)
    (h : step Fixes.all s v = .ok (s', es)) : s'.loops = (Kind.gs, v.ctl) :: s.loops ∧ s'.stCount = 0 := by
  simp [step, baseStep, baseBranch, baseGs, trailerStep, countSeg, isEnvId, Outcome.bind, hid,
    idST, idISA, idGS, idIEA, idGE, idSE] at h
  obtain ⟨rfl, _⟩ := h
  exact ⟨rfl, rfl⟩

theorem step_ST' (s s' : RState) (v : SegView) (es : List Err) (hid : v.id = idST)
    (h : step Fixes.all s v = .ok (s', es)) :
    s'.loops = (Kind.st, v.ctl) :: s.loops ∧ s'.stCount = s.stCount + 1 := by
  simp [step, baseStep, baseBranch, baseSt, trailerStep, countSeg, isEnvId, Outcome.bind, hid,
    idST, idISA, idGS, idIEA, idGE, idSE] at h
  obtain ⟨rfl, _⟩ := h
  exact ⟨rfl, rfl⟩

theorem step_SE' (s s' : RState) (v : SegView) (es : List Err) (hid : v.id = idSE) (c0 : Option Str)
    (L : List (Kind × Option Str)) (hl : s.loops = (Kind.st, c0) :: L) (h : step Fixes.all s v = .ok (s', es)) :
    s'.loops = L ∧ s'.stCount = s.stCount := by
  have hk : trailerKind v = some Kind.st := by
    unfold trailerKind; simp [hid, show idSE ≠ idIEA by decide, show idSE ≠ idGE by decide]
  unfold step at h
  rw [baseStep_trailer s v Kind.st hk] at h
  simp only [Outcome.bind, trailerStep, hid, show idSE ≠ idIEA by decide, show idSE ≠ idGE by decide, if_false,
    if_true] at h
  rw [closeSet_all s v c0 L hl] at h
  simp only [Outcome.ok.injEq, Prod.mk.injEq] at h
  obtain ⟨rfl, _⟩ := h
  exact ⟨rfl, rfl⟩

theorem step_GE' (s s' : RState) (v : SegView) (es : List Err) (hid : v.id = idGE) (c0 : Option Str)
    (L : List (Kind × Option Str)) (hl : s.loops = (Kind.gs, c0) :: L) (h : step Fixes.all s v = .ok (s', es)) :
    s'.loops = L ∧ s'.stCount = s.stCount := by
  have hk : trailerKind v = some Kind.gs := by
    unfold trailerKind; simp [hid, show idGE ≠ idIEA by decide]
  unfold step at h
  rw [baseStep_trailer s v Kind.gs hk] at h
  simp only [Outcome.bind, trailerStep, hid, show idGE ≠ idIEA by decide, if_false, if_true] at h
  rw [closeEnv_all Kind.gs _ _ _ _ s v c0 L hl] at h
  simp only [Outcome.ok.injEq, Prod.mk.injEq] at h
  obtain ⟨rfl, _⟩ := h
  exact ⟨rfl, rfl⟩

theorem step_IEA' (s s' : RState) (v : SegView) (es : List Err) (hid : v.id = idIEA) (c0 : Option Str)
    (L : List (Kind × Option Str)) (hl : s.loops = (Kind.isa, c0) :: L) (h : step Fixes.all s v = .ok (s', es)) :
    s'.loops = L ∧ s'.stCount = s.stCount := by
  have hk : trailerKind v = some Kind.isa := by
    unfold trailerKind; simp [hid]
  unfold step at h
  rw [baseStep_trailer s v Kind.isa hk] at h
  simp only [Outcome.bind, trailerStep, hid, if_true] at h
  rw [closeEnv_all Kind.isa _ _ _ _ s v c0 L hl] at h
  simp only [Outcome.ok.injEq, Prod.mk.injEq] at h
  obtain ⟨rfl, _⟩ := h
  exact ⟨rfl, rfl⟩

theorem step_body' (s s' : RState) (v : SegView) (es : List Err) (henv : isEnvId v.id = false)
    (h : step Fixes.all s v = .ok (s', es)) : s'.loops = s.loops ∧ s'.stCount = s.stCount := by
  by_cases h1 : v.id = idHL
  · rw [step_HL s v h1] at h
    simp only [Outcome.ok.injEq, Prod.mk.injEq] at h
    obtain ⟨rfl, _⟩ := h
    exact ⟨rfl, rfl⟩
  · by_cases hc : s.chk837 = true
    · by_cases h2 : v.id = idCLM
      · rw [step_CLM s v h2 hc] at h
        simp only [Outcome.ok.injEq, Prod.mk.injEq] at h
        obtain ⟨rfl, _⟩ := h
        exact ⟨rfl, rfl⟩
      · by_cases h3 : v.id = idLX
        · rw [step_LX s v h3 hc] at h
          simp only [Outcome.ok.injEq, Prod.mk.injEq] at h
          obtain ⟨rfl, _⟩ := h
          exact ⟨rfl, rfl⟩
        · rw [step_other s v henv h1 (fun _ => ⟨h2, h3⟩)] at h
          simp only [Outcome.ok.injEq, Prod.mk.injEq] at h
          obtain ⟨rfl, _⟩ := h
          exact ⟨rfl, rfl⟩
    · rw [step_other s v henv h1 (fun e => absurd e hc)] at h
      simp only [Outcome.ok.injEq, Prod.mk.injEq] at h
      obtain ⟨rfl, _⟩ := h
      exact ⟨rfl, rfl⟩

theorem loopsAt_cons {l : Level} {s : RState} (h : LoopsAt l s) (k : Kind) (r : List Kind) (hk : kinds l = k :: r) :
    ∃ c0 L, s.loops = (k, c0) :: L ∧ L.map (fun p => p.1) = r := by
  unfold LoopsAt at h
  rw [hk] at h
  cases hl : s.loops with
  | nil => rw [hl] at h; cases h
  | cons a L =>
    rw [hl] at h
    simp only [List.map_cons, List.cons.injEq] at h
    exact ⟨a.2, L, by rw [← h.1], h.2⟩

/-- **one step at a nesting level** -/
theorem step_nested (l l' : Level) (s s' : RState) (v : SegView) (es : List Err)
    (h : step Fixes.all s v = .ok (s', es)) (hn : nestStep l v = some l') (hl : LoopsAt l s) :
    LoopsAt l' s' ∧
      (v.id = idGS → s'.loops = (Kind.gs, v.ctl) :: s.loops ∧ s'.stCount = 0) ∧
      (v.id = idST → s'.loops = (Kind.st, v.ctl) :: s.loops ∧ s'.stCount = s.stCount + 1) ∧
      (v.id ≠ idGS → v.id ≠ idST → s'.stCount = s.stCount) := by
  cases l with
  | top =>
    simp only [nestStep] at hn
    split at hn
    · rename_i hid
      injection hn with hn; subst hn
      obtain ⟨a, b⟩ := step_ISA' s s' v es hid h
      refine ⟨?_, fun e => absurd (hid.symm.trans e) (by decide), fun e => absurd (hid.symm.trans e) (by decide), fun _ _ => b⟩
      unfold LoopsAt at hl ⊢
      rw [a]; simp [hl, kinds]
    · cases hn
  | inIsa =>
    simp only [nestStep] at hn
    split at hn
    · rename_i hid
      injection hn with hn; subst hn
      obtain ⟨a, b⟩ := step_GS' s s' v es hid h
      refine ⟨?_, fun _ => ⟨a, b⟩, fun e => absurd (hid.symm.trans e) (by decide), fun e => absurd hid e⟩
      unfold LoopsAt at hl ⊢
      rw [a]; simp [hl, kinds]
    · split at hn
      · rename_i hid
        injection hn with hn; subst hn
        obtain ⟨c0, L, e1, e2⟩ := loopsAt_cons hl Kind.isa [] rfl
        obtain ⟨a, b⟩ := step_IEA' s s' v es hid c0 L e1 h
        refine ⟨?_, fun e => absurd (hid.symm.trans e) (by decide), fun e => absurd (hid.symm.trans e) (by decide), fun _ _ => b⟩
        unfold LoopsAt; rw [a, e2]; rfl
      · cases hn
  | inGs =>
    simp only [nestStep] at hn
    split at hn
    · rename_i hid
      injection hn with hn; subst hn
      obtain ⟨a, b⟩ := step_ST' s s' v es hid h
      refine ⟨?_, fun e => absurd (hid.symm.trans e) (by decide), fun _ => ⟨a, b⟩, fun _ e => absurd hid e⟩
      unfold LoopsAt at hl ⊢
      rw [a]; simp [hl, kinds]
    · split at hn
      · rename_i hid
        injection hn with hn; subst hn
        obtain ⟨c0, L, e1, e2⟩ := loopsAt_cons hl Kind.gs [Kind.isa] rfl
        obtain ⟨a, b⟩ := step_GE' s s' v es hid c0 L e1 h
        refine ⟨?_, fun e => absurd (hid.symm.trans e) (by decide), fun e => absurd (hid.symm.trans e) (by decide), fun _ _ => b⟩
        unfold LoopsAt; rw [a, e2]; rfl
      · cases hn
  | inSt =>
    simp only [nestStep] at hn
    split at hn
    · rename_i hid
      injection hn with hn; subst hn
      obtain ⟨c0, L, e1, e2⟩ := loopsAt_cons hl Kind.st [Kind.gs, Kind.isa] rfl
      obtain ⟨a, b⟩ := step_SE' s s' v es hid c0 L e1 h
      refine ⟨?_, fun e => absurd (hid.symm.trans e) (by decide), fun e => absurd (hid.symm.trans e) (by decide), fun _ _ => b⟩
      unfold LoopsAt; rw [a, e2]; rfl
    · split at hn
      · cases hn
      · rename_i henv
        injection hn with hn; subst hn
        have henv' : isEnvId v.id = false := by simpa using henv
        obtain ⟨a, b⟩ := step_body' s s' v es henv' h
        obtain ⟨_, _, e3, _, e5, _⟩ := not_env henv'
        refine ⟨?_, fun e => absurd e e3, fun e => absurd e e5, fun _ _ => b⟩
        unfold LoopsAt at hl ⊢; rw [a]; exact hl

end Pyx12Verif.Envelope
