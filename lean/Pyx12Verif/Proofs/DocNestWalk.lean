/-
The walker lemma behind Props/DocTotalFull.lean (`walk_nested`, the lemma named in `doc_total_sharp_full`):

  walk_nested    for EVERY skeleton (no hypothesis on the map), every counter state and every data segment whose id is not `h`:
                 if the current node is at an `okPath h` position and `walk` returns a node, that node is again at an
                 `okPath h` position, and it is a segment node the data segment matches.
  guard_sound    `guardList h bad root`: a segment node at an `okPath h` position has an id outside `bad`.
  walk_guarded   together: from an `okPath h` position a data segment with an id in `bad` (and ≠ `h`) is never matched.

Definitions: Spec/EnvNested.lean.  Uses the state-independent description of the scan (`scan_found`, `gotoPath`, `lmB`:
Proofs/CtxWalkPure.lean, Proofs/CtxWalkShape.lean).
-/
import Pyx12Verif.Spec.EnvNested
import Pyx12Verif.Proofs.CtxWalkShape

namespace Pyx12Verif.EnvNest
open Pyx12Verif Pyx12Verif.MapSkel Pyx12Verif.Walker Pyx12Verif.WalkerGen Pyx12Verif.CtxWalk

/-! ### lists of children lists -/

/-- the wrapper flag after passing the loops of `A` -/
def modeOf : Bool → List (List Node) → Bool
  | f, [] => f
  | f, sub :: r => modeOf (f || !firstIsSeg sub) r

theorem okL_append (h : Nat) : ∀ (A B : List (List Node)) (f : Bool),
    okL h f (A ++ B) = (okL h f A && okL h (modeOf f A) B)
  | [], B, f => by simp [okL, modeOf]
  | sub :: r, B, f => by
    simp only [List.cons_append, okL, modeOf, okL_append h r B, Bool.and_assoc]

theorem okL_mono (h : Nat) : ∀ (A : List (List Node)), okL h false A = true → okL h true A = true
  | [], _ => rfl
  | sub :: r, hA => by
    simp only [okL, Bool.false_or, Bool.and_eq_true, Bool.true_or, Bool.and_true] at hA ⊢
    refine ⟨hA.1.1, ?_⟩
    cases hf : firstIsSeg sub with
    | true => rw [hf] at hA; exact okL_mono h r hA.2
    | false => rw [hf] at hA; exact hA.2

theorem okL_any (h : Nat) (f : Bool) (A : List (List Node)) (hA : okL h true A = true) (hf : f = true) :
    okL h f A = true := by subst hf; exact hA

theorem loopsAlong_append {root : List Node} : ∀ (p q : List Nat) (ch : List Node), chAt root p = some ch →
    loopsAlong root (p ++ q) = loopsAlong root p ++ loopsAlong ch q := by
  intro p
  induction p generalizing root with
  | nil => intro q ch h; simp only [chAt, Option.some.injEq] at h; subst h; simp [loopsAlong]
  | cons i r ih =>
    intro q ch h
    simp only [chAt] at h
    split at h
    · rename_i lid pos u rp w sub heq
      simp only [List.cons_append, loopsAlong, heq, Node.children, List.cons.injEq, true_and]
      exact ih q ch h
    · cases h

theorem loopsAlong_snoc {root : List Node} {p : List Nat} {a : Nat} {ch : List Node} (h : chAt root (p ++ [a]) = some ch) :
    loopsAlong root (p ++ [a]) = loopsAlong root p ++ [ch] := by
  obtain ⟨pch, lid, pos, u, r, w, hp, hi, _⟩ := nodeAt_of_chAt h
  rw [loopsAlong_append p [a] pch hp]
  simp [loopsAlong, hi, Node.children]

theorem liveCh_nil : liveCh [] = false := by simp [liveCh, firstIsSeg, liveList]

/-- the loops of an accepted path exist -/
theorem chAt_of_okL (h : Nat) : ∀ (q : List Nat) (root : List Node) (f : Bool), okL h f (loopsAlong root q) = true →
    ∃ ch, chAt root q = some ch := by
  intro q
  induction q with
  | nil => intro root f _; exact ⟨root, rfl⟩
  | cons i r ih =>
    intro root f hk
    simp only [loopsAlong] at hk
    cases hi : root[i]? with
    | none => simp [hi, okL, liveCh_nil] at hk
    | some n =>
      rw [hi] at hk
      simp only [okL, Bool.and_eq_true] at hk
      cases n with
      | seg => simp [Node.children, liveCh_nil] at hk
      | loop lid pos u rp w sub =>
        simp only [chAt, hi]
        exact ih sub _ hk.2

/-! ### liveness -/

theorem liveList_of_get : ∀ (ch : List Node) (j : Nat) (c : Node), ch[j]? = some c → liveNode c = true → liveList ch = true
  | [], j, c, h, _ => by simp at h
  | a :: r, 0, c, h, hl => by simp at h; subst h; simp [liveList, hl]
  | a :: r, j + 1, c, h, hl => by
    simp only [liveList, Bool.or_eq_true]
    exact Or.inr (liveList_of_get r j c (by simpa using h) hl)

theorem liveNode_loop (c : Node) (hns : c.isSeg = false) : liveNode c = liveCh c.children := by
  cases c with
  | seg => simp [Node.isSeg] at hns
  | loop => simp [liveNode, liveCh, Node.children]

theorem firstIsSeg_of_headMatches {K : Consts} {s : SegData} {ch : List Node} (h : headMatches K s ch = true) :
    firstIsSeg ch = true := by
  cases ch with
  | nil => simp [headMatches] at h
  | cons a r =>
    simp only [headMatches, Bool.and_eq_true] at h
    simp [firstIsSeg, h.1]

/-- the first child the data segment matches has the segment's id -/
theorem headIs_of_headMatches {K : Consts} {s : SegData} {ch : List Node} (hm : headMatches K s ch = true) (h : Nat)
    (hs : s.sid ≠ h) : headIs h ch = false := by
  cases ch with
  | nil => rfl
  | cons a r =>
    simp only [headMatches, Bool.and_eq_true] at hm
    cases a with
    | loop => simp [headIs, Node.isSeg]
    | seg sid q pos u mx nt sch =>
      have : (s.sid == sid) = true := by
        have := hm.2
        simp only [isMatch, Bool.and_eq_true] at this
        exact this.1
      have hsid : s.sid = sid := by simpa using this
      simp only [headIs, Node.isSeg, Node.ident, Bool.true_and, beq_eq_false_iff_ne, ne_eq]
      intro e; exact hs (hsid.trans e)

/-- along the path `_goto_seg_match` descends, every loop is live -/
theorem endsAt_live {K : Consts} {s : SegData} (h : Nat) : ∀ (d : List Nat) (c : Node), EndsAt K s c d →
    liveCh c.children = true ∧ okL h true (loopsAlong c.children d) = true := by
  intro d
  induction d with
  | nil =>
    intro c he
    simp only [EndsAt] at he
    exact ⟨by simp [liveCh, firstIsSeg_of_headMatches he], rfl⟩
  | cons i r ih =>
    intro c he
    simp only [EndsAt] at he
    obtain ⟨c', hc', hns', he'⟩ := he
    obtain ⟨h1, h2⟩ := ih c' he'
    refine ⟨?_, ?_⟩
    · simp only [liveCh, Bool.or_eq_true]
      exact Or.inr (liveList_of_get _ i c' hc' (by rw [liveNode_loop c' hns']; exact h1))
    · simp only [loopsAlong, hc', okL, Bool.true_or, Bool.and_true, Bool.and_eq_true]
      exact ⟨h1, h2⟩

/-- the loop reached is one whose first child the data segment matches -/
theorem endsAt_chAt {K : Consts} {s : SegData} : ∀ (d : List Nat) (c : Node), c.isSeg = false → EndsAt K s c d →
    ∃ sub, chAt c.children d = some sub ∧ headMatches K s sub = true := by
  intro d
  induction d with
  | nil => intro c _ he; exact ⟨c.children, rfl, he⟩
  | cons i r ih =>
    intro c _ he
    simp only [EndsAt] at he
    obtain ⟨c', hc', hns', he'⟩ := he
    obtain ⟨sub, h1, h2⟩ := ih c' hns' he'
    refine ⟨sub, ?_, h2⟩
    cases c' with
    | seg => simp [Node.isSeg] at hns'
    | loop l p u rp w ch' =>
      simp only [chAt, hc']
      exact h1

/-- a loop `_is_loop_match` accepts although its own first child does not match starts with a loop -/
theorem transparent_of_lmB {K : Consts} {s : SegData} {c : Node} (hlm : lmB K s c = true)
    (hnm : headMatches K s c.children = false) : firstIsSeg c.children = false := by
  cases c with
  | seg => simp [lmB] at hlm
  | loop l p u r w ch =>
    simp only [Node.children] at hnm ⊢
    rw [lmB_loop] at hlm
    cases ch with
    | nil => rfl
    | cons a rest =>
      cases a with
      | loop => simp [firstIsSeg, Node.isSeg]
      | seg a1 a2 a3 a4 a5 a6 a7 =>
        simp only [lmHead] at hlm
        simp [headMatches, Node.isSeg, hlm] at hnm

/-- **entering a loop**: the loop `c` itself and the loops below it that `_goto_seg_match` passes are acceptable,
    whatever was passed before -/
theorem entry_ok {K : Consts} {s : SegData} (h : Nat) (hs : s.sid ≠ h) {c : Node} {d : List Nat}
    (hlm : lmB K s c = true) (hg : gotoPath K s c = some d) (m : Bool) :
    okL h m (c.children :: loopsAlong c.children d) = true := by
  have he := gotoPath_endsAt d c hg
  obtain ⟨hl, hk⟩ := endsAt_live h d c he
  obtain ⟨l, p, u, r, w, ch, rfl, h1 | h1⟩ := gotoPath_cases hg
  · obtain ⟨hm, rfl⟩ := h1
    simp only [Node.children, loopsAlong, okL, Bool.and_true, Bool.and_eq_true, Bool.or_eq_true, Bool.not_eq_true']
    exact ⟨hl, Or.inr (headIs_of_headMatches hm h hs)⟩
  · obtain ⟨hnm, _⟩ := h1
    have ht := transparent_of_lmB hlm hnm
    simp only [Node.children] at ht hl hk ⊢
    have hh : headIs h ch = false := by
      cases ch with
      | nil => rfl
      | cons a rest =>
        simp only [firstIsSeg] at ht
        simp [headIs, ht]
    simp only [okL, hl, hh, ht, Bool.not_false, Bool.or_true, Bool.and_true, Bool.true_and]
    exact hk

/-! ### what a returned node is -/

/-- the node at `n` is a segment node the data segment matches -/
def SegMatch (K : Consts) (s : SegData) (root : List Node) (n : List Nat) : Prop :=
  ∃ L i ch c, n = L ++ [i] ∧ chAt root L = some ch ∧ ch[i]? = some c ∧ c.isSeg = true ∧ isMatch K c s = true

def Good (K : Consts) (s : SegData) (h : Nat) (root : List Node) (n : List Nat) : Prop :=
  okPath h root n = true ∧ SegMatch K s root n

theorem head_get {K : Consts} {s : SegData} {sub : List Node} (h : headMatches K s sub = true) :
    ∃ c, sub[0]? = some c ∧ c.isSeg = true ∧ isMatch K c s = true := by
  cases sub with
  | nil => simp [headMatches] at h
  | cons a r =>
    simp only [headMatches, Bool.and_eq_true] at h
    exact ⟨a, by simp, h.1, h.2⟩

/-- the answer "first segment of the loop below child `c`" -/
theorem good_entry {K : Consts} {s : SegData} (h : Nat) (hs : s.sid ≠ h) {root : List Node} {lip : List Nat} {ch : List Node}
    (hch : chAt root lip = some ch) (hok : okL h false (loopsAlong root lip) = true)
    {j : Nat} {c : Node} {d : List Nat} (hc : ch[j]? = some c) (hns : c.isSeg = false) (hlm : lmB K s c = true)
    (hg : gotoPath K s c = some d) : Good K s h root (lip ++ [j] ++ d ++ [0]) := by
  have he := gotoPath_endsAt d c hg
  obtain ⟨sub, hsub, hhm⟩ := endsAt_chAt d c hns he
  have hcj : chAt root (lip ++ [j]) = some c.children := by
    rw [chAt_snoc hch, hc]
    cases c with
    | seg => simp [Node.isSeg] at hns
    | loop => rfl
  refine ⟨?_, ?_⟩
  · simp only [okPath, List.dropLast_concat]
    have e : lip ++ [j] ++ d = lip ++ (j :: d) := by simp
    rw [e, loopsAlong_append lip (j :: d) ch hch, okL_append, hok, Bool.true_and]
    simp only [loopsAlong, hc]
    exact entry_ok h hs hlm hg _
  · obtain ⟨c0, h0, h1, h2⟩ := head_get hhm
    refine ⟨lip ++ [j] ++ d, 0, sub, c0, rfl, ?_, h0, h1, h2⟩
    rw [chAt_append, hcj]
    exact hsub

/-- the answer "first segment of the loop `ln` itself / of a loop below it" (repetition of the current loop) -/
theorem good_repeat {K : Consts} {s : SegData} (h : Nat) (hs : s.sid ≠ h) {root : List Node} {p : List Nat} {a : Nat}
    {l pos u r : Nat} {w : Bool} {ch : List Node}
    (hch : chAt root (p ++ [a]) = some ch) (hok : okL h false (loopsAlong root (p ++ [a])) = true)
    {d : List Nat} (hlm : lmB K s (.loop l pos u r w ch) = true) (hg : gotoPath K s (.loop l pos u r w ch) = some d) :
    Good K s h root (p ++ [a] ++ d ++ [0]) := by
  have he := gotoPath_endsAt d _ hg
  obtain ⟨sub, hsub, hhm⟩ := endsAt_chAt d _ rfl he
  simp only [Node.children] at hsub
  refine ⟨?_, ?_⟩
  · simp only [okPath, List.dropLast_concat]
    rw [loopsAlong_append (p ++ [a]) d ch hch, loopsAlong_snoc hch, List.append_assoc, okL_append]
    rw [loopsAlong_snoc hch, okL_append] at hok
    simp only [Bool.and_eq_true] at hok ⊢
    refine ⟨hok.1, ?_⟩
    have := entry_ok h hs hlm hg (modeOf false (loopsAlong root p))
    simpa [Node.children] using this
  · obtain ⟨c0, h0, h1, h2⟩ := head_get hhm
    refine ⟨p ++ [a] ++ d, 0, sub, c0, rfl, ?_, h0, h1, h2⟩
    rw [chAt_append, hch]
    exact hsub

/-! ### the `while True` of `walk` -/

theorem walkUp_nested {K : Consts} {s : SegData} {root : List Node} {rootId : Nat} (h : Nat) (hs : s.sid ≠ h)
    {origLoop : NodeId} {orig : List Nat} :
    ∀ (k : Nat) (lip : List Nat) (fromPos : Nat) (pops : List (List Nat)) (st : WState), lip.length = k →
      okL h false (loopsAlong root lip) = true → ∀ (r : WalkResult) (n : List Nat),
      walkUp K root rootId s origLoop orig lip.reverse fromPos pops st = r → r.node = some n → Good K s h root n := by
  intro k
  induction k with
  | zero =>
    intro lip fromPos pops st hlen _ r n hw hn
    have hnil : lip = [] := List.eq_nil_of_length_eq_zero hlen
    subst hnil
    simp only [List.reverse_nil] at hw
    rw [walkUp_root] at hw
    cases hsc : scanChildren K s [] [] none (rootId, 0) origLoop fromPos pops 0 st root with
    | notHere st' => rw [hsc] at hw; simp only at hw; subst hw; simp at hn
    | found r' =>
      rw [hsc] at hw; simp only at hw; subst hw
      rcases scan_found [] [] none (rootId, 0) origLoop fromPos pops root 0 st r' n hsc hn with
        ⟨j, c, hc, hseg, hm, _, h5⟩ | ⟨j, c, d, hc, hns, _, hlm, hg, hn', _⟩
      · rcases h5 with ⟨ln, d, hln, _⟩ | ⟨_, hn', _⟩
        · cases hln
        · simp only [List.nil_append, Nat.zero_add] at hn'
          subst hn'
          exact ⟨by simp [okPath, loopsAlong, okL], [], j, root, c, rfl, rfl, hc, hseg, hm⟩
      · simp only [List.nil_append, Nat.zero_add] at hn'
        subst hn'
        have := good_entry (K := K) (s := s) h hs (root := root) (lip := []) rfl rfl hc hns hlm hg
        simpa using this
  | succ k ih =>
    intro lip fromPos pops st hlen hok r n hw hn
    have hne : lip ≠ [] := by intro e; subst e; simp at hlen
    obtain ⟨p, a, rfl⟩ : ∃ p a, lip = p ++ [a] := ⟨lip.dropLast, lip.getLast hne, (List.dropLast_concat_getLast hne).symm⟩
    obtain ⟨ch, hch⟩ := chAt_of_okL h _ root false hok
    obtain ⟨pch, l, pos, u, rp, w, hpch, hai, hwu⟩ := walkUp_level' (K := K) (rootId := rootId) (s := s)
      (origLoop := origLoop) (orig := orig) hch fromPos pops st
    rw [hwu] at hw
    cases hsc : scanChildren K s (p ++ [a]) (keyAt root (p ++ [a])) (some (.loop l pos u rp w ch)) (l, idAt root p)
        origLoop fromPos pops 0 st ch with
    | found r' =>
      rw [hsc] at hw; simp only at hw; subst hw
      rcases scan_found _ _ _ _ _ _ _ ch 0 st r' n hsc hn with
        ⟨j, c, hc, hseg, hm, _, h5⟩ | ⟨j, c, d, hc, hns, _, hlm, hg, hn', _⟩
      · rcases h5 with ⟨ln, d, hln, hlm, hg, hn', _⟩ | ⟨_, hn', _⟩
        · simp only [Option.some.injEq] at hln
          subst hln
          rw [hn']
          exact good_repeat h hs hch hok hlm hg
        · simp only [Nat.zero_add] at hn'
          subst hn'
          exact ⟨by simpa [okPath] using hok, p ++ [a], j, ch, c, rfl, hch, hc, hseg, hm⟩
      · simp only [Nat.zero_add] at hn'
        rw [hn']
        exact good_entry h hs hch hok hc hns hlm hg
    | notHere st' =>
      rw [hsc] at hw; simp only at hw
      have hplen : p.length = k := by simp at hlen; omega
      refine ih p pos (pops ++ [p ++ [a]]) st' hplen ?_ r n hw hn
      rw [loopsAlong_snoc hch, okL_append] at hok
      simp only [Bool.and_eq_true] at hok
      exact hok.1

/-- **`walk_nested`.**  A walker step with a data segment whose id is not `h`, started at an `okPath h` position: the
    node returned (if any) is again at an `okPath h` position, and is a segment node that the data segment matches.
    No hypothesis on the map. -/
theorem walk_nested (K : Consts) (root : List Node) (rootId : Nat) (h : Nat) (cnt : Counter) (cur : List Nat) (s : SegData)
    (hs : s.sid ≠ h) (hcur : okPath h root cur = true) {n : List Nat} (hw : (walk K root rootId cnt cur s).node = some n) :
    okPath h root n = true ∧ SegMatch K s root n := by
  unfold walk at hw
  cases hnode : nodeAt root cur with
  | none => rw [hnode] at hw; simp at hw
  | some nd =>
    rw [hnode] at hw
    simp only at hw
    have := walkUp_nested (K := K) (s := s) (root := root) (rootId := rootId) h hs cur.dropLast.length cur.dropLast nd.pos []
      { cnt := cnt, pending := [], errs := [] } rfl hcur _ n rfl hw
    exact this

/-! ### the static condition -/

theorem guardList_get {h : Nat} {bad : List Nat} : ∀ (ch : List Node) (i : Nat) (c : Node), guardList h bad ch = true →
    ch[i]? = some c → guardNode h bad c = true
  | [], i, c, _, hc => by simp at hc
  | a :: r, 0, c, hg, hc => by
    simp only [guardList, Bool.and_eq_true] at hg
    simp at hc; subst hc; exact hg.1
  | a :: r, i + 1, c, hg, hc => by
    simp only [guardList, Bool.and_eq_true] at hg
    exact guardList_get r i c hg.2 (by simpa using hc)

theorem freeList_get {bad : List Nat} : ∀ (ch : List Node) (i : Nat) (c : Node), freeList bad ch = true →
    ch[i]? = some c → freeNode bad c = true
  | [], i, c, _, hc => by simp at hc
  | a :: r, 0, c, hg, hc => by
    simp only [freeList, Bool.and_eq_true] at hg
    simp at hc; subst hc; exact hg.1
  | a :: r, i + 1, c, hg, hc => by
    simp only [freeList, Bool.and_eq_true] at hg
    exact freeList_get r i c hg.2 (by simpa using hc)

/-- the static condition in the mode the path has reached -/
def G (h : Nat) (bad : List Nat) (f : Bool) (ch : List Node) : Bool := if f then freeList bad ch else guardList h bad ch

theorem guard_descend (h : Nat) (bad : List Nat) : ∀ (q : List Nat) (root : List Node) (f : Bool),
    G h bad f root = true → okL h f (loopsAlong root q) = true → ∀ sub, chAt root q = some sub →
    ∃ f', G h bad f' sub = true := by
  intro q
  induction q with
  | nil =>
    intro root f hg _ sub hsub
    simp only [chAt, Option.some.injEq] at hsub
    subst hsub
    exact ⟨f, hg⟩
  | cons i r ih =>
    intro root f hg hk sub hsub
    simp only [chAt] at hsub
    split at hsub
    · rename_i lid pos u rp w ch heq
      simp only [loopsAlong, heq, Node.children, okL, Bool.and_eq_true] at hk
      obtain ⟨⟨hlive, hhead⟩, hrest⟩ := hk
      refine ih ch (f || !firstIsSeg ch) ?_ hrest sub hsub
      cases f with
      | true =>
        simp only [G, ↓reduceIte] at hg
        have := freeList_get root i _ hg heq
        simp only [freeNode, hlive, Bool.not_true, Bool.false_or] at this
        simpa [G] using this
      | false =>
        simp only [G, Bool.false_eq_true, ↓reduceIte] at hg
        have := guardList_get root i _ hg heq
        simp only [guardNode, hlive, Bool.not_true, Bool.false_or] at this
        simp only [Bool.false_or, Bool.not_eq_true'] at hhead
        have hhead' : headIs h ch = false := hhead
        cases hf : firstIsSeg ch with
        | true =>
          simp only [hf, ↓reduceIte, hhead', Bool.false_or] at this
          simpa [G, hf] using this
        | false =>
          simp only [hf, Bool.false_eq_true, ↓reduceIte] at this
          simpa [G, hf] using this
    · cases hsub

/-- **the static condition is sound**: a segment node at an `okPath h` position has an id outside `bad` -/
theorem guard_sound (h : Nat) (bad : List Nat) (root : List Node) (hg : guardList h bad root = true)
    (L : List Nat) (i : Nat) (ch : List Node) (c : Node) (hok : okPath h root (L ++ [i]) = true)
    (hch : chAt root L = some ch) (hc : ch[i]? = some c) (hseg : c.isSeg = true) : c.ident ∉ bad := by
  simp only [okPath, List.dropLast_concat] at hok
  obtain ⟨f', hG⟩ := guard_descend h bad L root false (by simpa [G] using hg) hok ch hch
  cases c with
  | loop => simp [Node.isSeg] at hseg
  | seg sid q pos u mx nt sch =>
    simp only [Node.ident]
    cases f' with
    | true =>
      simp only [G, ↓reduceIte] at hG
      have := freeList_get ch i _ hG hc
      simpa [freeNode] using this
    | false =>
      simp only [G, Bool.false_eq_true, ↓reduceIte] at hG
      have := guardList_get ch i _ hG hc
      simpa [guardNode] using this

theorem segMatch_ident {K : Consts} {s : SegData} {c : Node} (hseg : c.isSeg = true) (hm : isMatch K c s = true) :
    c.ident = s.sid := by
  cases c with
  | loop => simp [Node.isSeg] at hseg
  | seg sid q pos u mx nt sch =>
    simp only [isMatch, Bool.and_eq_true] at hm
    simp only [Node.ident]
    exact (by simpa using hm.1 : s.sid = sid).symm

/-- from an `okPath h` position a data segment with an id in `bad` is not matched, unless its id is `h` itself -/
theorem walk_guarded (K : Consts) (root : List Node) (rootId : Nat) (h : Nat) (bad : List Nat)
    (hg : guardList h bad root = true) (cnt : Counter) (cur : List Nat) (s : SegData)
    (hs : s.sid ≠ h) (hcur : okPath h root cur = true) {n : List Nat} (hw : (walk K root rootId cnt cur s).node = some n) :
    okPath h root n = true ∧ s.sid ∉ bad := by
  obtain ⟨h1, L, i, ch, c, rfl, hch, hc, hseg, hm⟩ := walk_nested K root rootId h cnt cur s hs hcur hw
  refine ⟨h1, ?_⟩
  rw [← segMatch_ident hseg hm]
  exact guard_sound h bad root hg L i ch c h1 hch hc hseg

end Pyx12Verif.EnvNest
