/-
C20 (closing the `-f` statements), part 3: the loop of `x12norm -f` over the TRIMMED form of what a first `-f` pass
wrote (that is what a reader of the output text gets), the loop's independence of the reader-level error codes and of
the segment terminator.
-/
import Pyx12Verif.Props.C20
import Pyx12Verif.Proofs.C20FullView

namespace Pyx12Verif.Norm
open Pyx12Verif SegText Envelope Tokenizer

theorem All2.of_mem_left {α β : Type} {R : α → β → Prop} {l : List α} {m : List β} (h : All2 R l m) :
    ∀ a ∈ l, ∃ b ∈ m, R a b := by
  induction h with
  | nil => intro a ha; simp at ha
  | @cons x y l m hr _ ih =>
    intro a ha
    rcases List.mem_cons.mp ha with rfl | ha
    · exact ⟨y, by simp, hr⟩
    · obtain ⟨b, hb, hab⟩ := ih a ha
      exact ⟨b, List.mem_cons_of_mem _ hb, hab⟩

theorem All2.map_right {α β γ : Type} {R : α → β → Prop} {Q : α → γ → Prop} (f : β → γ) {l : List α} {m : List β}
    (h : All2 R l m) (hi : ∀ a b, R a b → Q a (f b)) : All2 Q l (m.map f) := by
  induction h with
  | nil => exact .nil
  | cons hr _ ih => exact .cons (hi _ _ hr) ih

theorem countId_ne_idISA {id : Str} (h : CountId id) : id ≠ idISA := by
  rcases h with e | e | e | e <;> rw [e] <;> decide

theorem step_ok_n16 {st S : RState} {v : SegView} {es : List Err} (h : step Fixes.all st v = .ok (S, es))
    (hid : v.id = idISA) : v.n16 = true := by
  cases h16 : v.n16 with
  | true => rfl
  | false => rw [step_ISA_raised st v hid h16] at h; cases h

/-- Second pass over the trimmed output of a first `-f` pass, started in a state that has the same counters and kinds
    of open loops: no count code is found, nothing is rewritten, and every line is printed again as it was. -/
theorem loop_fix_norm (d : Delims) (hnd : isDigit d.sub = false) (e : Bool) :
    ∀ (inp inp2 : List (List RErr × Seg)) (st st2 : RState) (B : Nat) (out : List (Seg × Line)),
      Sim st st2 → Bounded B st → B + inp.length + 1 < 10 ^ maxStrDigits →
      (∀ x ∈ inp, ∀ c ∈ x.2.elems, c ≠ []) →
      (∀ x ∈ inp, x.2.id = idISA → x.2.elems.length = 16 → (normSeg x.2).elems.length = 16) →
      loop ⟨e, true⟩ d st inp = .ok out → inp2.map (·.2) = (out.map (·.1)).map normSeg →
      loop ⟨e, true⟩ d st2 inp2 = .ok (out.map (fun y => (normSeg y.1, y.2))) := by
  intro inp
  induction inp with
  | nil =>
    intro inp2 st st2 B out _ _ _ _ _ h h2
    simp only [loop] at h
    injection h with h
    subst h
    cases inp2 with
    | nil => rfl
    | cons a b => simp at h2
  | cons x rest ih =>
    intro inp2 st st2 B out hsim hB hsmall hcomps hisa h h2
    simp only [loop] at h
    obtain ⟨r, hstep, h⟩ := Res.bind_ok h
    obtain ⟨l, hl, h⟩ := Res.bind_ok h
    obtain ⟨ls, hrest, h⟩ := Res.bind_ok h
    injection h with h
    subst h
    obtain ⟨S1, s'⟩ := r
    simp only [List.length_cons] at hsmall
    obtain ⟨v, v', es, _, hv', _, hs', g1, g2, g3⟩ :=
      stepSeg_fix d hnd e st S1 x.1 x.2 s' B hsim.chkL hB (by omega) hstep
    have hcx := hcomps x (by simp)
    have hcs' : ∀ c ∈ s'.elems, c ≠ [] := by
      rcases g3 with rfl | ⟨rfl, _⟩
      · exact hcx
      · exact set01_comps d x.2 _ hcx
    rw [viewOf_eq] at hv'
    obtain ⟨w, hw, hvw, hn16⟩ := view_norm d s' v' hcs' hv'
    have hwid : w.id = s'.id := viewAt_id d (normSeg s') w hw
    have h16 : w.id = idISA → w.n16 = true := by
      intro hid
      have hs'id : s'.id = idISA := hwid ▸ hid
      have hxs : s' = x.2 := by
        rcases g3 with rfl | ⟨rfl, hc⟩
        · rfl
        · exact absurd hs'id (countId_ne_idISA hc)
      have hv16 : v'.n16 = true := step_ok_n16 hs' (hvw.id ▸ hid)
      obtain ⟨v2, hv2, hn⟩ := viewAt_ok d s' hcs'
      rw [hv'] at hv2
      injection hv2 with hv2
      subst hv2
      have hlen : s'.elems.length = 16 := (hn (hvw.id ▸ hid)).mp hv16
      rw [hn16 hid, hxs]
      exact hisa x (by simp) (hxs ▸ hs'id) (hxs ▸ hlen)
    obtain ⟨T1, es', k1, k2, k3⟩ := step_sim hsim hvw h16 hs'
    have hnc : ∀ c ∈ es', isCountErr c = false := by
      have : es'.filter isCountErr = [] := by
        rw [k3, List.filter_filter]
        rw [List.filter_eq_nil_iff]
        intro a _; simp
      intro c hc
      cases hcc : isCountErr c with
      | false => rfl
      | true =>
        have := List.filter_eq_nil_iff.mp this c hc
        exact absurd hcc this
    cases inp2 with
    | nil => simp at h2
    | cons y rest2 =>
      simp only [List.map_cons, List.cons.injEq] at h2
      obtain ⟨hy, h2⟩ := h2
      have ih' := ih rest2 S1 T1 (B + 1) ls k2 g2 (by omega)
        (fun z hz => hcomps z (List.mem_cons_of_mem _ hz)) (fun z hz => hisa z (List.mem_cons_of_mem _ hz)) hrest h2
      have hse : (normSeg s').id = idSE → Err.gs4 ∉ es' :=
        fun hid => step_SE_no_gs4 st2 T1 w es' (hwid.trans hid) k1
      have hrep : repair d T1 (codes y.1 es') (normSeg s') = .ok (normSeg s') := by
        unfold repair
        rw [target_spec T1 (normSeg s').id y.1 _ hse]
        cases hce : countErrOf (normSeg s').id with
        | none => rfl
        | some ce =>
          have : ce ∉ es' := by
            intro hm
            have := hnc ce hm
            rw [isCountErr_of hce] at this
            cases this
          simp only [this, if_false]
          rfl
      have hline : l = lineOf ⟨e, true⟩ d s' := by
        rw [emit_eq _ d s' hcs'] at hl
        injection hl with hl
        exact hl.symm
      have hemit : emit ⟨e, true⟩ d (normSeg s') = .ok l := by
        rw [emit_eq _ d _ (normSeg_comps_ne_nil s'), lineOf_normSeg _ d s' hcs', hline]
      simp only [loop, stepSeg, hy, viewOf_eq, hw, Res.bind, k1, afterStep, if_true, hrep, hemit, ih', List.map_cons]

/-! ### the loop does not look at the reader-level codes (`'1'`, `'SEG1'`) -/

theorem target_re (S : RState) (id : Str) (re re' : List RErr) (es : List Err) :
    target S id (codes re es) = target S id (codes re' es) := by
  have a : (['0', '2', '1'] ∈ codes re es) = (['0', '2', '1'] ∈ codes re' es) :=
    propext ((code_mem re es _ (by decide) (by decide)).trans (code_mem re' es _ (by decide) (by decide)).symm)
  have b : (['5'] ∈ codes re es) = (['5'] ∈ codes re' es) :=
    propext ((code_mem re es _ (by decide) (by decide)).trans (code_mem re' es _ (by decide) (by decide)).symm)
  have c : (['4'] ∈ codes re es) = (['4'] ∈ codes re' es) :=
    propext ((code_mem re es _ (by decide) (by decide)).trans (code_mem re' es _ (by decide) (by decide)).symm)
  have e : (['H', 'L', '1'] ∈ codes re es) = (['H', 'L', '1'] ∈ codes re' es) :=
    propext ((code_mem re es _ (by decide) (by decide)).trans (code_mem re' es _ (by decide) (by decide)).symm)
  unfold target
  simp only [a, b, c, e]

theorem stepSeg_re (o : Options) (d : Delims) (st : RState) (re re' : List RErr) (s : Seg) :
    stepSeg o d st re s = stepSeg o d st re' s := by
  unfold stepSeg
  congr 1
  funext v
  cases step Fixes.all st v with
  | raised => rfl
  | crash x => rfl
  | ok r =>
    simp only [afterStep, repair]
    rw [target_re r.1 s.id re re' r.2]

/-- two inputs with the same segments (whatever leading blanks / trailing separators the reader noted) are
    normalised alike -/
theorem loop_re (o : Options) (d : Delims) :
    ∀ (inp inp2 : List (List RErr × Seg)) (st : RState), inp.map (·.2) = inp2.map (·.2) →
      loop o d st inp = loop o d st inp2 := by
  intro inp
  induction inp with
  | nil =>
    intro inp2 st h
    cases inp2 with
    | nil => rfl
    | cons a b => simp at h
  | cons x rest ih =>
    intro inp2 st h
    cases inp2 with
    | nil => simp at h
    | cons y rest2 =>
      simp only [List.map_cons, List.cons.injEq] at h
      obtain ⟨hxy, h⟩ := h
      simp only [loop]
      rw [stepSeg_re o d st x.1 y.1 x.2, hxy]
      congr 1
      funext r
      congr 1
      funext l
      rw [ih rest2 r.1 h]

/-! ### the terminator only shows in the printed line -/

def withTerm (d : Delims) (t : Char) : Delims := { d with term := t }

/-- the line with its terminator replaced: everything before the terminator, the new terminator, the eol -/
def swapTerm (o : Options) (t : Char) (l : Line) : Line := l.take (l.length - (eolOf o).length - 1) ++ t :: eolOf o

theorem swapTerm_snoc (o : Options) (t t' : Char) (a : List Char) :
    swapTerm o t' (a ++ [t] ++ eolOf o) = a ++ [t'] ++ eolOf o := by
  unfold swapTerm
  have : (a ++ [t] ++ eolOf o).length - (eolOf o).length - 1 = a.length := by simp only [List.length_append, List.length_cons, List.length_nil]; omega
  rw [this, List.append_assoc, List.take_left']
  · simp
  · rfl

theorem swapTerm_lineOf (o : Options) (d : Delims) (t' : Char) (s : Seg) :
    swapTerm o t' (lineOf o d s) = lineOf o (withTerm d t') s := by
  unfold lineOf
  rw [swapTerm_snoc]
  rfl

theorem emit_withTerm (o : Options) (d : Delims) (t' : Char) (s : Seg) :
    emit o (withTerm d t') s = (emit o d s).map (swapTerm o t') := by
  unfold emit formatSeg
  show (match (match formatComps d.sub (keptElems s) with
              | none => none
              | some strs => some (s.id ++ d.ele :: (joinWith d.ele strs ++ [t']))) with
        | none => Res.crash
        | some t => Res.ok (t ++ eolOf o)) = _
  cases formatComps d.sub (keptElems s) with
  | none => rfl
  | some strs =>
    simp only [Res.map]
    congr 1
    have := swapTerm_snoc o d.term t' (s.id ++ d.ele :: joinWith d.ele strs)
    simp only [List.append_assoc, List.cons_append] at this ⊢
    exact this.symm

theorem stepSeg_withTerm (o : Options) (d : Delims) (t' : Char) (st : RState) (re : List RErr) (s : Seg) :
    stepSeg o (withTerm d t') st re s = stepSeg o d st re s := rfl

theorem loop_withTerm (o : Options) (d : Delims) (t' : Char) :
    ∀ (inp : List (List RErr × Seg)) (st : RState),
      loop o (withTerm d t') st inp = (loop o d st inp).map (List.map (fun y => (y.1, swapTerm o t' y.2))) := by
  intro inp
  induction inp with
  | nil => intro st; rfl
  | cons x rest ih =>
    intro st
    simp only [loop, stepSeg_withTerm]
    cases stepSeg o d st x.1 x.2 with
    | raised => rfl
    | crash => rfl
    | ok r =>
      simp only [Res.bind, emit_withTerm]
      cases emit o d r.2 with
      | raised => rfl
      | crash => rfl
      | ok l =>
        simp only [Res.map, ih]
        cases loop o d r.1 rest with
        | raised => rfl
        | crash => rfl
        | ok ls => rfl

/-! ### the views of the trimmed segments -/

theorem viewsOf_norm (d : Delims) :
    ∀ (segs : List Seg) (vs : List SegView), (∀ s ∈ segs, ∀ c ∈ s.elems, c ≠ []) → viewsOf d segs = .ok vs →
      ∃ ws, viewsOf d (segs.map normSeg) = .ok ws ∧ Pairwise2 VSim vs ws := by
  intro segs
  induction segs with
  | nil =>
    intro vs _ h
    simp only [viewsOf] at h
    injection h with h
    subst h
    exact ⟨[], rfl, .nil⟩
  | cons s rest ih =>
    intro vs hc h
    simp only [viewsOf] at h
    obtain ⟨v, hv, h⟩ := Res.bind_ok h
    obtain ⟨vr, hvr, h⟩ := Res.bind_ok h
    injection h with h
    subst h
    rw [viewOf_eq] at hv
    obtain ⟨w, hw, hvw, _⟩ := view_norm d s v (hc s (by simp)) hv
    obtain ⟨ws, hws, hp⟩ := ih vr (fun z hz => hc z (List.mem_cons_of_mem _ hz)) hvr
    refine ⟨w :: ws, ?_, .cons hvw hp⟩
    simp only [List.map_cons, viewsOf, viewOf_eq, hw, hws, Res.bind]

end Pyx12Verif.Norm
